/-
Producer.Zip — what `Archive::explore`, `Archive::read` and `Archive::extract` make of the RAW
entry names of a zip archive (src/producer.rs after fix 2f541c3: `canonical_entry_name`,
`zip_index`, the `seen` set and the `is_dir` test of `explore`).

A raw archive is the list of its central-directory entries in order, each with the name the zip
crate reports (`ZipFile::name`, bytes of the `str`), the first `min(size, 256)` bytes of its data
and a content id. The zip crate (2.6.1, `read.rs` `SharedBuilder::build`) keeps the entries in an
`IndexMap` keyed by that name: a name that occurs again keeps the PLACE of its first occurrence
and gets the DATA of the last one (`crateIndex`). On that index

* `explore` walks the entries in index order; an entry whose name ends in `/` or `\`
  (`zip::spec::is_dir`) is skipped; a name with a NUL, a root or a `..` component is skipped with a
  warning; otherwise the entry is listed under its canonical spelling `canonName` (the `Normal`
  components joined by `/`: `a//b`, `a/./b`, `./a/b` are `a/b`) unless an earlier entry was listed
  – or sniffed and rejected: the `seen` set is filled before `handle_file` – under that spelling;
* `read(name)` / `extract(name, ..)` look the canonical name up with `zip_index`: since fix
  99c0f28 the first entry in index order that is not a directory entry and whose canonical
  spelling is `name` – the entry `explore` listed (`zipListed_eq_zipFirst`). Before that fix
  (`zipIndexOld`, kept for the regression example of Props/C17) it was `index_for_name(name)` – an
  entry whose RAW name is that string – and only when there was none the first entry, DIRECTORY
  ENTRIES INCLUDED, of that spelling: the listed entry and the read entry could differ.

`zipListed` records, per listed entry, the `head` of the listed entry and the `cid` of the entry
`zip_index` finds. The rest of the model (`Producer.run`) sees a zip as the list
`zipListed entries`, whose paths are pairwise distinct by construction.
Core Lean only (linked into `gm_c17` and `gmodel`).
-/
import GrcovModel.Producer
import GrcovModel.UPath
namespace Grcov.Producer
open Grcov

structure RawEntry where
  /-- `ZipFile::name()` -/
  name : Name
  head : List Nat
  cid : Nat
deriving DecidableEq, Repr

/-- `zip::spec::is_dir`: the last character is `/` or `\` -/
def rawIsDir (n : Name) : Bool := n.getLast? = some 47 || n.getLast? = some 92

/-- `IndexMap::insert`: a new key goes to the end, a known key keeps its place and gets the value -/
def indexInsert (ix : List RawEntry) (e : RawEntry) : List RawEntry :=
  if ix.any (fun x => x.name = e.name) then ix.map (fun x => if x.name = e.name then e else x)
  else ix ++ [e]

/-- the archive as the zip crate presents it (`len`, `by_index`, `file_names`, `index_for_name`) -/
def crateIndex (es : List RawEntry) : List RawEntry := es.foldl indexInsert []

def compOk : UPath.Comp → Bool
  | .normal _ | .cur => true
  | _ => false

def normalName? : UPath.Comp → Option Name
  | .normal n => some n
  | _ => none

/-- `canonical_entry_name`: `None` for a name with a NUL byte or a component that is not `Normal`
or `CurDir`; otherwise the `Normal` components collected into a `PathBuf` -/
def canonName (n : Name) : Option Name :=
  if n.contains 0 || !(UPath.components n).all compOk then none
  else some (UPath.join ((UPath.components n).filterMap normalName?))

/-- `zip_index` (fix 99c0f28): the first non-directory entry whose canonical spelling is `name` -/
def zipIndex (ix : List RawEntry) (name : Name) : Option RawEntry :=
  ix.find? (fun e => !rawIsDir e.name && canonName e.name = some name)

/-- `zip_index` as it was between 2f541c3 and 99c0f28 (finding
C17-zip-same-canonical-name-reads-other-entry, repaired): the raw name first, then any entry of
that spelling, directory entries included -/
def zipIndexOld (ix : List RawEntry) (name : Name) : Option RawEntry :=
  match ix.find? (fun e => e.name = name) with
  | some e => some e
  | none => ix.find? (fun e => canonName e.name = some name)

/-- the entry is a candidate of `explore`'s loop body: not a directory entry, safe name -/
def listable (e : RawEntry) : Bool := !rawIsDir e.name && (canonName e.name).isSome

/-- the `for i in 0..zip.len()` loop of `explore` with its `seen` set; per listed entry the file
the rest of the producer works with: canonical path, the listed entry's first bytes, and the
content that `read`/`extract` deliver for that path -/
def listGo (ix : List RawEntry) : List Name → List RawEntry → List File
  | _, [] => []
  | seen, e :: es =>
    if rawIsDir e.name then listGo ix seen es
    else match canonName e.name with
      | none => listGo ix seen es
      | some c =>
        if seen.contains c then listGo ix seen es
        else ⟨c, e.head, ((zipIndex ix c).map (·.cid)).getD e.cid⟩ :: listGo ix (c :: seen) es

def listIx (ix : List RawEntry) : List File := listGo ix [] ix

/-- a zip archive as `Producer.run` sees it -/
def zipListed (es : List RawEntry) : List File := listIx (crateIndex es)

/-- per canonical name the FIRST listable entry, with its own first bytes and its own content: the
reference the theorems of Props/C17 compare `zipListed` with (equal since fix 99c0f28) -/
def firstGo : List Name → List RawEntry → List File
  | _, [] => []
  | seen, e :: es =>
    if rawIsDir e.name then firstGo seen es
    else match canonName e.name with
      | none => firstGo seen es
      | some c =>
        if seen.contains c then firstGo seen es
        else ⟨c, e.head, e.cid⟩ :: firstGo (c :: seen) es

def zipFirst (es : List RawEntry) : List File := firstGo [] (crateIndex es)

/-! ### arguments with raw zips -/

inductive RArg
  | dir (label : Nat) (files : List File)
  | zip (label : Nat) (entries : List RawEntry)
  | plain (f : File)
deriving DecidableEq, Repr

def RArg.toArg : RArg → Arg
  | .dir l fs => .dir l fs
  | .zip l es => .zip l (zipListed es)
  | .plain f => .plain f

/-- `producer()` on arguments whose zips are given by their raw entries -/
def runR (o : Opts) (rargs : List RArg) : Outcome := run o (rargs.map RArg.toArg)

end Grcov.Producer
