/-
Model of `parse_lcov` / `add_branch` (src/parser.rs) as a Mealy machine folded over the input
bytes. The Rust code only reads forward through a `Peekable` iterator; `take_while` consumes the
first byte that fails its predicate. Control states are the program points of `parse_lcov`.
Numbers that do not fit their type reject the record (`try_digits!`), duplicate DA counts
saturate. An FNDA record may precede the FN record of its function: it waits in `pending`
(`pending_fnda`) until the FN arrives; what is still waiting at `end_of_record` is the error
"FN record missing". The count of a DA record ends at the first non-digit; unless that byte is the
line feed the rest of the line (the optional checksum field) is skipped.
-/
import GrcovModel.Merge
namespace Grcov.Lcov
open Grcov AList

abbrev Bytes := List Nat

/-! ### String::from_utf8_lossy (core::str::Utf8Chunks) -/

def isCont (b : Nat) : Bool := 128 ≤ b && b ≤ 191
def FFFD : Bytes := [0xEF, 0xBF, 0xBD]

/-- Replace every maximal invalid prefix of an ill-formed sequence by U+FFFD. -/
def utf8LossyAux : Nat → Bytes → Bytes
  | 0, _ => []
  | _, [] => []
  | fuel + 1, b :: rest =>
    if b < 128 then b :: utf8LossyAux fuel rest
    else if 0xC2 ≤ b ∧ b ≤ 0xDF then
      match rest with
      | c :: r1 => if isCont c then b :: c :: utf8LossyAux fuel r1 else FFFD ++ utf8LossyAux fuel (c :: r1)
      | [] => FFFD
    else if 0xE0 ≤ b ∧ b ≤ 0xEF then
      match rest with
      | c :: r1 =>
        let ok2 := (b = 0xE0 ∧ 0xA0 ≤ c ∧ c ≤ 0xBF) ∨ (0xE1 ≤ b ∧ b ≤ 0xEC ∧ 0x80 ≤ c ∧ c ≤ 0xBF)
                 ∨ (b = 0xED ∧ 0x80 ≤ c ∧ c ≤ 0x9F) ∨ (0xEE ≤ b ∧ b ≤ 0xEF ∧ 0x80 ≤ c ∧ c ≤ 0xBF)
        if ok2 then
          match r1 with
          | d :: r2 => if isCont d then b :: c :: d :: utf8LossyAux fuel r2
                       else FFFD ++ utf8LossyAux fuel (d :: r2)
          | [] => FFFD
        else FFFD ++ utf8LossyAux fuel (c :: r1)
      | [] => FFFD
    else if 0xF0 ≤ b ∧ b ≤ 0xF4 then
      match rest with
      | c :: r1 =>
        let ok2 := (b = 0xF0 ∧ 0x90 ≤ c ∧ c ≤ 0xBF) ∨ (0xF1 ≤ b ∧ b ≤ 0xF3 ∧ 0x80 ≤ c ∧ c ≤ 0xBF)
                 ∨ (b = 0xF4 ∧ 0x80 ≤ c ∧ c ≤ 0x8F)
        if ok2 then
          match r1 with
          | d :: r2 =>
            if isCont d then
              match r2 with
              | e :: r3 => if isCont e then b :: c :: d :: e :: utf8LossyAux fuel r3
                           else FFFD ++ utf8LossyAux fuel (e :: r3)
              | [] => FFFD
            else FFFD ++ utf8LossyAux fuel (d :: r2)
          | [] => FFFD
        else FFFD ++ utf8LossyAux fuel (c :: r1)
      | [] => FFFD
    else FFFD ++ utf8LossyAux fuel rest

/-- each step consumes at least one byte, so `length` is enough fuel -/
def utf8Lossy (bs : Bytes) : Bytes := utf8LossyAux bs.length bs

/-! ### state -/

inductive Out where
  | ok (rs : List (Bytes × Cov))
  | err (kind : String)
  | panic (site : String)
deriving Repr, DecidableEq

structure Acc where
  results : List (Bytes × Cov) := []
  curFile : Option Bytes := none
  cur : Cov := {}
  /-- `pending_fnda`: FNDA records seen before the FN record of their function -/
  pending : List (Bytes × Bool) := []
deriving Repr, DecidableEq

inductive Ctl where
  | dispatch
  | skip
  | key (k : Nat)
  | sfName (acc : Bytes)
  | daFirst | daLine (n : Nat) | daAfterLine (l : Nat) | daCount (l c : Nat)
  /-- the count ended with a byte other than LF: `take_while(|c| c != '\n').last()`, then commit -/
  | daSkip (l c : Nat)
  | fnFirst | fnStart (n : Nat) | fnAfterStart (n : Nat) | fnName (start : Nat) (acc : Bytes)
  | fndaFirst | fndaCount (n : Nat) | fndaAfter (n : Nat) | fndaName (n : Nat) (acc : Bytes)
  | brFirst | brLine (n : Nat) | brAfterLine (l : Nat) | brBlock (l b : Nat) | brAfterBlock (l : Nat)
  | brBranch (l n : Nat) | brAfterBranch (l n : Nat) | brTaken (l n : Nat) (t : Bool)
  | halt (o : Out)
deriving Repr, DecidableEq

structure St where
  ctl : Ctl := .dispatch
  acc : Acc := {}
deriving Repr, DecidableEq

def isDigit (b : Nat) : Bool := 48 ≤ b && b ≤ 57
def isUpper (b : Nat) : Bool := 65 ≤ b && b ≤ 90
def LF : Nat := 10
def CR : Nat := 13

def kSF : Nat := 83 * 256 + 70
def kDA : Nat := 68 * 256 + 65
def kFN : Nat := 70 * 256 + 78
def kFNDA : Nat := 70 * 16777216 + 78 * 65536 + 68 * 256 + 65
def kBRDA : Nat := 66 * 16777216 + 82 * 65536 + 68 * 256 + 65

def invalidRecord : Ctl := .halt (.err "InvalidRecord")

/-- `r * 10 + (x - '0')` in a `bound`-limited unsigned type, debug build -/
def pushDigit (bound r x : Nat) : Option Nat :=
  let v := r * 10 + (x - 48)
  if v ≤ bound then some v else none

/-- parser.rs `add_branch` -/
def addBranch (m : List (Nat × List Bool)) (l no : Nat) (t : Bool) : List (Nat × List Bool) :=
  match get? m l with
  | some v =>
    if no = v.length then set m l (v ++ [t])
    else if no > v.length then set m l (v ++ List.replicate (no - v.length) false ++ [t])
    else set m l (v.set no (v.getD no false || t))
  | none => set m l (List.replicate no false ++ [t])

def commitLine (a : Acc) (l c : Nat) : Acc :=
  { a with cur := { a.cur with lines := set a.cur.lines l (satAdd ((get? a.cur.lines l).getD 0) c) } }

/-- FN: `executed = pending_fnda.remove(&f_name).unwrap_or(false)`, then insert -/
def commitFn (a : Acc) (start : Nat) (name : Bytes) : Acc :=
  let nm := utf8Lossy name
  { a with
    cur := { a.cur with functions := set a.cur.functions nm ⟨start, (get? a.pending nm).getD false⟩ }
    pending := erase a.pending nm }

def commitBranch (a : Acc) (l n : Nat) (t : Bool) : Acc :=
  { a with cur := { a.cur with branches := addBranch a.cur.branches l n t } }

/-- FNDA: `f.executed |= executed != 0`, or, when the FN record has not been seen yet,
`*pending_fnda.entry(f_name).or_insert(false) |= executed != 0` -/
def commitFnda (a : Acc) (n : Nat) (name : Bytes) : Acc :=
  let nm := utf8Lossy name
  match get? a.cur.functions nm with
  | some f => { a with cur := { a.cur with
      functions := set a.cur.functions nm { f with executed := f.executed || decide (n ≠ 0) } } }
  | none => { a with pending := set a.pending nm ((get? a.pending nm).getD false || decide (n ≠ 0)) }

/-- what the record key selects once its delimiter has been consumed -/
def afterKey (branch : Bool) (k : Nat) : Ctl :=
  if k = kSF then .sfName []
  else if k = kDA then .daFirst
  else if k = kFN then .fnFirst
  else if k = kFNDA then .fndaFirst
  else if k = kBRDA then (if branch then .brFirst else .skip)
  else .skip

def digitsStep (bound : Nat) (r b : Nat) (cont : Nat → Ctl) (done : Nat → Ctl) : Ctl :=
  if isDigit b then
    match pushDigit bound r b with
    | some v => cont v
    | none => invalidRecord       -- checked_mul/checked_add failed: the record is rejected
  else done r

def step (branch : Bool) (s : St) (b : Nat) : St :=
  let a := s.acc
  match s.ctl with
  | .halt _ => s
  | .dispatch =>
    if b = 101 then  -- 'e'
      match a.curFile with
      | none => { s with ctl := invalidRecord }
      | some f =>
        if a.pending.isEmpty then
          { ctl := .skip, acc := { a with results := a.results ++ [(f, a.cur)], curFile := none, cur := {} } }
        else { s with ctl := .halt (.err "Parse") }   -- "FN record missing for function …"
    else if b = LF then s
    else if b = 83 ∨ b = 68 ∨ b = 70 ∨ b = 66 then { s with ctl := .key b }
    else { s with ctl := .skip }
  | .skip => if b = LF then { s with ctl := .dispatch } else s
  | .key k =>
    if isUpper b then
      if k * 256 ≤ U32MAX ∧ k * 256 + b ≤ U32MAX then { s with ctl := .key (k * 256 + b) }
      else { s with ctl := invalidRecord }
    else { s with ctl := afterKey branch k }
  | .sfName nm =>
    if b = LF ∨ b = CR then { ctl := .dispatch, acc := { a with curFile := some (utf8Lossy nm) } }
    else { s with ctl := .sfName (nm ++ [b]) }
  -- DA:<line>,<count>
  | .daFirst =>
    if isDigit b then { s with ctl := digitsStep U32MAX 0 b .daLine .daAfterLine }
    else { s with ctl := invalidRecord }
  | .daLine n => { s with ctl := digitsStep U32MAX n b .daLine .daAfterLine }
  | .daAfterLine l =>
    if b = 45 then { ctl := .skip, acc := commitLine a l 0 }
    else if isDigit b then { s with ctl := .daCount l (b - 48) }
    else { s with ctl := invalidRecord }
  | .daCount l c =>
    if isDigit b then
      match pushDigit U64MAX c b with
      | some v => { s with ctl := .daCount l v }
      | none => { s with ctl := invalidRecord }
    else if b = LF then { ctl := .dispatch, acc := commitLine a l c }
    else { s with ctl := .daSkip l c }
  | .daSkip l c => if b = LF then { ctl := .dispatch, acc := commitLine a l c } else s
  -- FN:<start>,<name>
  | .fnFirst =>
    if isDigit b then { s with ctl := digitsStep U32MAX 0 b .fnStart .fnAfterStart }
    else { s with ctl := invalidRecord }
  | .fnStart n => { s with ctl := digitsStep U32MAX n b .fnStart .fnAfterStart }
  | .fnAfterStart n =>
    if b = LF ∨ b = CR then { ctl := .dispatch, acc := commitFn a n [] }
    else { s with ctl := .fnName n [b] }
  | .fnName n nm =>
    if b = LF ∨ b = CR then { ctl := .dispatch, acc := commitFn a n nm }
    else { s with ctl := .fnName n (nm ++ [b]) }
  -- FNDA:<count>,<name>
  | .fndaFirst =>
    if isDigit b then { s with ctl := digitsStep U64MAX 0 b .fndaCount .fndaAfter }
    else { s with ctl := invalidRecord }
  | .fndaCount n => { s with ctl := digitsStep U64MAX n b .fndaCount .fndaAfter }
  | .fndaAfter n =>
    if b = LF ∨ b = CR then { ctl := .dispatch, acc := commitFnda a n [] }
    else { s with ctl := .fndaName n [b] }
  | .fndaName n nm =>
    if b = LF ∨ b = CR then { ctl := .dispatch, acc := commitFnda a n nm }
    else { s with ctl := .fndaName n (nm ++ [b]) }
  -- BRDA:<line>,<block>,<branch>,<taken>
  | .brFirst =>
    if isDigit b then { s with ctl := digitsStep U32MAX 0 b .brLine .brAfterLine }
    else { s with ctl := invalidRecord }
  | .brLine n => { s with ctl := digitsStep U32MAX n b .brLine .brAfterLine }
  | .brAfterLine l =>
    -- lcov 2.x marks an exception branch by an `e` before the block number: skipped, once
    -- (/repo 66f7aba); the block digits then start from 0 as without it
    { s with ctl := if b = 101 then .brBlock l 0
                    else digitsStep U64MAX 0 b (.brBlock l) (fun _ => .brAfterBlock l) }
  | .brBlock l k => { s with ctl := digitsStep U64MAX k b (.brBlock l) (fun _ => .brAfterBlock l) }
  | .brAfterBlock l => { s with ctl := digitsStep U32MAX 0 b (.brBranch l) (.brAfterBranch l) }
  | .brBranch l n => { s with ctl := digitsStep U32MAX n b (.brBranch l) (.brAfterBranch l) }
  | .brAfterBranch l n =>
    if b = LF ∨ b = CR then { ctl := .dispatch, acc := commitBranch a l n false }
    else { s with ctl := .brTaken l n (decide (b ≠ 45 ∧ b ≠ 48)) }
  | .brTaken l n t =>
    if b = LF ∨ b = CR then { ctl := .dispatch, acc := commitBranch a l n t }
    else { s with ctl := .brTaken l n (t || decide (b ≠ 45 ∧ b ≠ 48)) }

/-- the input ended in this state -/
def finish (branch : Bool) (s : St) : Out :=
  match s.ctl with
  | .halt o => o
  | .dispatch | .skip | .sfName _ | .daCount _ _ | .daSkip _ _ | .fnName _ _ | .fndaName _ _
  | .brTaken _ _ _ => .ok s.acc.results
  | .key k =>
    match afterKey branch k with
    | .sfName _ | .skip => .ok s.acc.results
    | _ => .err "InvalidRecord"
  | _ => .err "InvalidRecord"

def run (branch : Bool) (s : St) (bs : Bytes) : St := bs.foldl (step branch) s

def parse (branch : Bool) (bs : Bytes) : Out := finish branch (run branch {} bs)

theorem run_append (branch : Bool) (s : St) (xs ys : Bytes) :
    run branch s (xs ++ ys) = run branch (run branch s xs) ys := by
  simp [run, List.foldl_append]

end Grcov.Lcov
