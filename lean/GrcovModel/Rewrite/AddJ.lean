/-
Rewrite.AddJ — what `main` does with a batch, Java/Kotlin keys included, and the key step of
`add_results` as it is after fix 7f9b2b3 (src/lib.rs 116-124).

* `addThenRewriteJ`: `add_results` (canonicalise `source_dir.join(key)` when that succeeds, merge
  per key) followed by `rewrite_paths` WITH the partial-path lookup (`rewritePathsJ` of
  Rewrite/Partial.lean). `Rewrite.addThenRewrite` is the same composition without the lookup; the
  two agree whenever the lookup is the identity on every map key (Lemmas/RewriteAddJ.lean).
* `addCanonU`: the key under which `add_results` files a record when the canonical path need not be
  UTF-8: `Ok(p) if p.to_str().is_some() => p, _ => key` — a canonical path that is not valid UTF-8
  cannot be a `String` key, so the name stays as given (and such spellings are NOT merged).
  `Rewrite.addCanon` is the case "every canonical path is UTF-8" (`addCanonU_eq_addCanon`), which is
  what every generated tree of harness/c11, c12 satisfies; the witness stream of harness/c12
  (`java.rs`, `utf8_witness`) runs the other case on the real code.
Core Lean only (linked into gm_c12).
-/
import GrcovModel.Rewrite.Partial
import GrcovModel.Lcov
namespace Grcov.Rewrite
open Grcov Grcov.UPath Grcov.Glob

/-- `add_results` on an empty map, then `rewrite_paths` with the Java/Kotlin lookup; `ord` is the
walk order of the source tree (see Rewrite/Partial.lean) -/
def addThenRewriteJ (cfg : Cfg) (fs : FS) (ord : List (List Bytes)) (batch : List (Bytes × Cov)) :
    Res (List Rec) :=
  rewritePathsJ cfg fs ord (addResults (addCanon fs cfg.sourceDir) [] batch)

/-- `Path::to_str().is_some()`: the bytes are well-formed UTF-8, i.e. lossy decoding changes nothing -/
def isUtf8 (p : Bytes) : Bool := decide (Lcov.utf8Lossy p = p)

/-- lib.rs 116-124 (after 7f9b2b3) -/
def addCanonU (fs : FS) (src : Option Bytes) (key : Bytes) : Bytes :=
  match src with
  | none => key
  | some s =>
    match fs.realpath (push s key) with
    | some p => if isUtf8 p then p else key
    | none => key

/-- `add_results` with that key step, on an empty map -/
def addResultsU (fs : FS) (src : Option Bytes) (batch : List (Bytes × Cov)) : List (Bytes × Cov) :=
  addResults (addCanonU fs src) [] batch

/-! ### the html variant of the tree-writer view (output_html / gen_html, html.rs 267-297, 395-420)

`Rewrite.shown` / `dirTotal` file a record under `Rec.treePath` (covdir: the canonical path when the
reported path is absolute). The HTML writer is different: `gen_html` returns before counting when
`rel_path` is not relative, and files every other record under its REPORTED path (parent directory
↦ BTreeMap of file names). So an absolute reported path is not in the HTML report at all, and two
records collide exactly when their reported paths are equal. -/

/-- the records the HTML writer looks at: reported path relative (whether the source can be opened
is a file-system question the C13 model carries as `FileIn.openable`) -/
def htmlRecs (rep : List Rec) : List Rec := rep.filter fun r => r.rel.head? != some 47

/-- what `HtmlStats::add` sums for the directories selected by `inDir`: one summand per record -/
def dirTotalH (inDir : Bytes → Bool) (rep : List Rec) : Nat :=
  (((htmlRecs rep).filter fun r => inDir r.rel).map fun r => linesTotal r.cov).sum

/-- the rows the HTML pages list: files are keyed by name inside their directory, a later record
with the same reported path replaces the earlier one -/
def shownH : List Rec → List Rec
  | [] => []
  | r :: rest => if rest.any (fun r' => r'.rel = r.rel) then shownH rest else r :: shownH rest

/-- the sum over the rows listed below the selected directories, each once -/
def listedTotalH (inDir : Bytes → Bool) (rep : List Rec) : Nat := dirTotalH inDir (shownH (htmlRecs rep))

end Grcov.Rewrite
