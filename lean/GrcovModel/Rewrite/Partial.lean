/-
Rewrite.Partial — the Java/Kotlin partial-path lookup of `rewrite_paths`
(src/path_rewriting.rs 233, 253-334, 347-356; `check_extension` 165-175, `map_partial_path`
177-209, `is_hidden` 211-217), which `Rewrite.lean` leaves outside the model.

`rewritePathsJ` is `rewrite_paths` with that step inside: it re-uses every helper of
`Rewrite.lean` (`keyPath`, `getAbsPath`, `selectRec`, `collect`) and inserts `partialStep` between
prefix removal and `get_abs_path`, exactly where the code does.

The directory walk. `WalkDir::new(source_dir)` without sorting yields the entries of the tree in
pre-order, the children of a directory in `readdir` order, which is fixed for an unchanged
directory but otherwise arbitrary. That order is a PARAMETER: `ord`, the canonical component
lists of the tree's entries in the order an unfiltered walk yields them (entries that are not
below the source dir are harmless). `filter_entry(!is_hidden && !is_symbolic_link)` removes an
entry, and with a directory its whole subtree, without changing the relative order of the rest:
an entry survives iff neither the root's own name nor any component below the root starts
with '.'. So the candidates in walk order are a `filterMap` of `ord`; no recursion is needed.
Theorems that need the walk to be complete say so (`WalkOf`).

Symbolic links inside the tree are pruned by `filter_entry` (`is_symbolic_link`) and never
followed (`follow_links` is off): a candidate is a REGULAR file reached through real directories,
which is what `FS.kind` (it does not look at links) says. Outside the model: unreadable directories (`entry.unwrap_or_else`
panics), directory entries and keys that are not valid UTF-8 (`to_str().unwrap()`; `is_hidden`
answers "not hidden" for them). Core Lean only.
-/
import GrcovModel.Rewrite
namespace Grcov.Rewrite
open Grcov Grcov.UPath Grcov.Glob

/-! ### `Path::file_name`, `Path::extension`, `check_extension` -/

/-- `Path::file_name`: the last component when it is a `Normal` one -/
def fileName (p : Bytes) : Option Bytes :=
  match (components p).getLast? with
  | some (.normal n) => some n
  | _ => none

/-- `rsplit_file_at_dot` + `before.and(after)` on a `Normal` name: the bytes after the last '.',
provided there is one and something precedes it (".java" has no extension, "a." has the empty one) -/
def extOfName (n : Bytes) : Option Bytes :=
  let r := n.reverse
  match r.dropWhile (fun b => b != 46) with
  | [] => none
  | _ :: before => if before = [] then none else some (r.takeWhile fun b => b != 46).reverse

/-- `Path::extension` -/
def extensionOf (p : Bytes) : Option Bytes := (fileName p).bind extOfName

def extJava : Bytes := [106, 97, 118, 97]
def extKt : Bytes := [107, 116]

def isPartialExtName (n : Bytes) : Bool := extOfName n = some extJava || extOfName n = some extKt

/-- `PARTIAL_PATH_EXTENSION.iter().any(|&ext| check_extension(path, ext))` -/
def isPartialExt (p : Bytes) : Bool := extensionOf p = some extJava || extensionOf p = some extKt

/-! ### lines 256-281: is the lookup needed at all -/

/-- `has_java`: evaluated on the raw keys -/
def hasJava (keys : List Bytes) : Bool := keys.any isPartialExt

/-- `map_partial_path_needed`: a source dir is given, some key is Java/Kotlin, and SOME key (any
key, after `strip_prefix(prefix_dir).unwrap_or(path)`) does not exist below the source dir -/
def needed (cfg : Cfg) (fs : FS) (keys : List Bytes) : Bool :=
  match cfg.sourceDir with
  | none => false
  | some s => hasJava keys && keys.any fun k => !fs.exists (push s (removePrefix cfg.prefixDir k))

/-- `path.rsplit_once(['\\', '/']).map(|(_, file)| file).unwrap_or(path)` -/
def lastSeg (k : Bytes) : Bytes := (k.reverse.takeWhile fun b => b != 47 && b != 92).reverse

def coveredNames (keys : List Bytes) : List Bytes := keys.map lastSeg

/-! ### lines 297-332: the walk -/

/-- `is_hidden` -/
def hidden (n : Bytes) : Bool := n.head? = some 46

/-- `DirEntry::file_name` of the depth-0 entry: the path's file name, or the whole path if it has
none ("/", or a path ending in "..") -/
def rootName (s : Bytes) : Bytes := (fileName s).getD s

/-- `p = pre ++ rel` -/
def stripComps : List Bytes → List Bytes → Option (List Bytes)
  | [], p => some p
  | _ :: _, [] => none
  | a :: as, b :: bs => if a = b then stripComps as bs else none

/-- one entry below the root directory `S`, given by its names `rel` below `S`: it reaches
`file_to_paths` iff no name on the way is hidden, it is a regular file with extension java/kt
whose name is a covered name, and its source-relative path matches no `--ignore` glob -/
def candOk (fs : FS) (cfg : Cfg) (keys : List Bytes) (S rel : List Bytes) : Bool :=
  match rel.getLast? with
  | none => false
  | some name =>
    rel.all (fun n => !hidden n) && isPartialExtName name &&
    decide (fs.kind (S ++ rel) = some Kind.file) && (coveredNames keys).contains name &&
    !setMatch cfg.ignore (join rel)

/-- `filter_entry` rejects the depth-0 entry when its name is hidden or it is a symbolic link. A
rejected real directory is not descended (`skip_current_dir`); a rejected LINK to a directory is:
walkdir always follows a root link, and `is_dir()` of the entry itself is false. So nothing at
all is walked exactly when the root's name is hidden and the root is not a link. -/
def rootPruned (fs : FS) (src : Bytes) : Bool := hidden (rootName src) && !fs.isLink src

/-- a root that is a regular file (not a link to one: that entry is rejected) is the only entry -/
def rootFileCand (fs : FS) (src : Bytes) (keys : List Bytes) : Bool :=
  !fs.isLink src && isPartialExt src && (coveredNames keys).contains (rootName src)

/-- the entries that are pushed to `file_to_paths`, as (file name, source-relative path), in walk
order. A pruned root yields nothing at all; a root that is a regular file is the only entry and
its relative path is empty. -/
def walkCands (fs : FS) (ord : List (List Bytes)) (cfg : Cfg) (src : Bytes) (keys : List Bytes) :
    List (Bytes × Bytes) :=
  match fs.resolve src with
  | none => []
  | some (S, kind) =>
    if rootPruned fs src then []
    else match kind with
      | .file =>
        if rootFileCand fs src keys && !setMatch cfg.ignore [] then [(rootName src, [])] else []
      | .dir =>
        ord.filterMap fun p =>
          match stripComps S p with
          | none => none
          | some rel =>
            if candOk fs cfg keys S rel then some (rel.getLast?.getD [], join rel) else none

/-- `paths.push(path)` / `insert(name, vec![path])` -/
def pushPath (m : List (Bytes × List Bytes)) (e : Bytes × Bytes) : List (Bytes × List Bytes) :=
  match AList.get? m e.1 with
  | some ps => AList.set m e.1 (ps ++ [e.2])
  | none => AList.set m e.1 [e.2]

/-- `file_to_paths` after the walk: file name ↦ the candidates with that name, in walk order -/
def fileToPaths (fs : FS) (ord : List (List Bytes)) (cfg : Cfg) (keys : List Bytes) :
    List (Bytes × List Bytes) :=
  match cfg.sourceDir with
  | none => []
  | some s => (walkCands fs ord cfg s keys).foldl pushPath []

/-! ### `map_partial_path` and the per-key pipeline -/

/-- `map_partial_path`. `file_name().unwrap()` cannot fail where it is called (a path with an
extension has a file name: `fileName_of_partialExt`); a one-element candidate list wins
whatever it is; otherwise the first candidate in walk order that `ends_with` the path. -/
def mapPartialPath (ftp : List (Bytes × List Bytes)) (path : Bytes) : Bytes :=
  match fileName path with
  | none => path
  | some n =>
    match AList.get? ftp n with
    | none => path
    | some [c] => c
    | some opts =>
      match opts.find? fun o => endsWith o path with
      | some c => c
      | none => path

/-- lines 347-356 before fix fdef150: the lookup runs when it is needed and the path is Java/Kotlin -/
def partialStep (nd : Bool) (ftp : List (Bytes × List Bytes)) (rel : Bytes) : Bytes :=
  if nd && isPartialExt rel then mapPartialPath ftp rel else rel

/-- `source_dir.is_some_and(|s| s.join(&rel_path).is_file())` (fix fdef150): the path, as it is after
mapping and prefix removal, already names a regular file below the source dir (links followed) -/
def namesFile (fs : FS) (src : Option Bytes) (rel : Bytes) : Bool :=
  match src with
  | some s => fs.isFile (push s rel)
  | none => false

/-- lines 347-360 (after fdef150): "a path that names a file below the source directory is not a
partial one" — the lookup runs when it is needed, the path is Java/Kotlin AND it does not name a file
below the source dir; otherwise the path is kept as it is -/
def partialStepF (fs : FS) (src : Option Bytes) (nd : Bool) (ftp : List (Bytes × List Bytes))
    (rel : Bytes) : Bytes :=
  partialStep (nd && !namesFile fs src rel) ftp rel

/-- lines 336-363 with the lookup: the path part of the pipeline for one key -/
def resolveKeyJ (cfg : Cfg) (fs : FS) (nd : Bool) (ftp : List (Bytes × List Bytes)) (key : Bytes) :
    Res (Option (Bytes × Bytes)) :=
  if cfg.mapping.isSome && (bsl key).isEmpty then .panic "to_lowercase_first"
  else finishPath (getAbsPath fs cfg.sourceDir (partialStepF fs cfg.sourceDir nd ftp (keyPath cfg key)))

/-- the `filter_map` closure with the lookup -/
def rewriteKeyJ (cfg : Cfg) (fs : FS) (nd : Bool) (ftp : List (Bytes × List Bytes))
    (kc : Bytes × Cov) : Res (Option Rec) :=
  match resolveKeyJ cfg fs nd ftp kc.1 with
  | .panic s => .panic s
  | .ok none => .ok none
  | .ok (some (abs, rel)) => .ok (selectRec cfg fs abs rel kc.2)

/-- `entry.unwrap_or_else(|_| panic!("Failed to open directory"))` on the depth-0 entry: the walk
is only started when needed, and then the source dir must exist -/
def walkPanics (cfg : Cfg) (fs : FS) (keys : List Bytes) : Bool :=
  match cfg.sourceDir with
  | none => false
  | some s => needed cfg fs keys && (fs.resolve s).isNone

/-- `rewrite_paths`, Java/Kotlin keys included -/
def rewritePathsJ (cfg : Cfg) (fs : FS) (ord : List (List Bytes)) (m : List (Bytes × Cov)) :
    Res (List Rec) :=
  let keys := m.map (·.1)
  let body : Res (List Rec) :=
    if walkPanics cfg fs keys then .panic "walkdir"
    else collect (m.map (rewriteKeyJ cfg fs (needed cfg fs keys) (fileToPaths fs ord cfg keys)))
  match cfg.sourceDir with
  | some s => if isAbsolute s then body else .panic "assert_absolute"
  | none => body

/-- what kind of lookup a key went through (for the driver's branch counts) -/
inductive Branch where
  | notNeeded | noExt | isFile | noEntry | single | firstMatch (nmatch : Nat) | noMatch (ncand : Nat)
deriving DecidableEq, Repr

def branchOf (nd : Bool) (ftp : List (Bytes × List Bytes)) (rel : Bytes) (isF : Bool := false) : Branch :=
  if !nd then .notNeeded
  else if !isPartialExt rel then .noExt
  else if isF then .isFile
  else match (fileName rel).bind (AList.get? ftp) with
    | none => .noEntry
    | some [_] => .single
    | some opts =>
      let ms := opts.filter fun o => endsWith o rel
      if ms.isEmpty then .noMatch opts.length else .firstMatch ms.length

end Grcov.Rewrite
