/-
Model of `FileFilter::create` (src/file_filter.rs 39-109) and of the removal loop of
`rewrite_paths` (src/path_rewriting.rs 373-386), plus the specification vocabulary of C16.

Trusted parameters (DESIGN.md section 4): `Regex::is_match` is a per-line Boolean – `create`
receives, for every source line, the six match bits; `std::fs::read_to_string` is the Boolean
`readable` (false: missing file, directory, or bytes that are not UTF-8).
Line splitting is modelled (`stripFinalLF`, `splitLF`, `splitSrc`, `stripCR`, `sourceBits`,
`createSrc`, with the six regexes as six predicates on a line): since /repo f854858 a "source
line" is what `file.strip_suffix('\n').unwrap_or(&file).split('\n')` yields with one trailing `\r`
removed. Exactly ONE final LF is dropped before splitting, so a text that ends with a newline has
as many pieces as it has lines (`realLines`); a text ending in two newlines has an empty last
line; only the empty text still has one (empty) piece although it has no line.
Core Lean only: linked into the native driver `gm_c16`.
-/
import GrcovModel.Merge
namespace Grcov.FileFilter
open Grcov AList

/-- Which of the six `Option<Regex>` fields of `FileFilter` are `Some`
(`--excl-line`, `--excl-start`, `--excl-stop`, `--excl-br-line`, `--excl-br-start`,
`--excl-br-stop`). -/
structure Opts where
  line : Bool
  start : Bool
  stop : Bool
  brLine : Bool
  brStart : Bool
  brStop : Bool
deriving DecidableEq, Repr

/-- `is_match` of each of the six regexes on one source line (the bit of an unconfigured regex is
never looked at). -/
structure Bits where
  line : Bool
  start : Bool
  stop : Bool
  brLine : Bool
  brStart : Bool
  brStop : Bool
deriving DecidableEq, Repr

/-- `enum FilterType { Line(u32), Branch(u32), Both(u32) }` -/
inductive FT where
  | line (n : Nat)
  | branch (n : Nat)
  | both (n : Nat)
deriving DecidableEq, Repr

/-- what the closure of `filter_map` returns for one line, before numbering -/
inductive Kind where
  | none
  | line
  | branch
  | both
deriving DecidableEq, Repr

/-- the two captured `let mut` flags: `ignore_br`, `ignore` -/
structure Flags where
  ignoreBr : Bool
  ignore : Bool
deriving DecidableEq, Repr

def Flags.init : Flags := ⟨false, false⟩

/-- `opt.as_ref().is_some_and(|f| f.is_match(line))` -/
@[inline] def hit (configured isMatch : Bool) : Bool := configured && isMatch

/-- file_filter.rs 68-91, the four `if`s in the order of the code:
end a branch region, end a line region, start a branch region, start a line region. -/
def stepFlags (o : Opts) (fl : Flags) (m : Bits) : Flags :=
  -- 69-71
  let ib := if fl.ignoreBr && hit o.brStop m.brStop then false else fl.ignoreBr
  -- 74-76
  let ig := if fl.ignore && hit o.stop m.stop then false else fl.ignore
  -- 79-86
  let ib := if !ib && hit o.brStart m.brStart then true else ib
  -- 89-91
  let ig := if !ig && hit o.start m.start then true else ig
  ⟨ib, ig⟩

/-- file_filter.rs 93-106: the result of the closure given the updated flags.
`excl = ignore || line-marker`, `excl_br = ignore_br || br-line-marker`, `match (excl, excl_br)`. -/
def classify (o : Opts) (fl : Flags) (m : Bits) : Kind :=
  let excl := fl.ignore || hit o.line m.line
  let exclBr := fl.ignoreBr || hit o.brLine m.brLine
  match excl, exclBr with
  | true, true => .both
  | true, false => .line
  | false, true => .branch
  | false, false => .none

/-- the per-line results of the single pass, flags threaded from line to line -/
def scan (o : Opts) : Flags → List Bits → List Kind
  | _, [] => []
  | fl, m :: ms =>
    let fl' := stepFlags o fl m
    classify o fl' m :: scan o fl' ms

/-- `(number + 1) as u32` on a `usize` index: truncation to 32 bits -/
def toU32 (n : Nat) : Nat := n % 4294967296

def Kind.toFT : Kind → Nat → Option FT
  | .none, _ => Option.none
  | .line, n => some (.line n)
  | .branch, n => some (.branch n)
  | .both, n => some (.both n)

/-- `.enumerate().filter_map(..)`: `idx` is the 0-based index of the head of the list -/
def emit : Nat → List Kind → List FT
  | _, [] => []
  | idx, k :: ks =>
    match k.toFT (toU32 (idx + 1)) with
    | some f => f :: emit (idx + 1) ks
    | Option.none => emit (idx + 1) ks

/-- file_filter.rs 40-46: none of the four regexes that can exclude anything is configured -/
def Opts.inert (o : Opts) : Bool := !o.line && !o.start && !o.brLine && !o.brStart

/-- `FileFilter::create`. `readable = false` models `read_to_string(..)` returning `Err`. -/
def create (o : Opts) (readable : Bool) (ms : List Bits) : List FT :=
  if o.inert then []
  else if !readable then []
  else emit 0 (scan o Flags.init ms)

/-- one iteration of the loop at path_rewriting.rs 373-386 -/
def applyOne (c : Cov) : FT → Cov
  | .both n => { c with branches := erase c.branches n, lines := erase c.lines n }
  | .line n => { c with lines := erase c.lines n }
  | .branch n => { c with branches := erase c.branches n }

/-- path_rewriting.rs 373-386: `for filter in file_filter.create(&abs_path) { match filter … }` -/
def applyFilters (fs : List FT) (c : Cov) : Cov := fs.foldl applyOne c

/-- what `rewrite_paths` does to the record of one file whose source has match bits `ms` -/
def rewrite (o : Opts) (readable : Bool) (ms : List Bits) (c : Cov) : Cov :=
  applyFilters (create o readable ms) c

/-! ## Specification vocabulary (what the property text says, independent of the pass) -/

/-- the bits of source line `n` (1-based) -/
def lineAt (ms : List Bits) (n : Nat) : Option Bits :=
  if n = 0 then none else ms[n - 1]?

/-- line `n` exists and matches the regex selected by `f`, and that regex is configured -/
def Marks (configured : Bool) (f : Bits → Bool) (ms : List Bits) (n : Nat) : Prop :=
  configured = true ∧ ∃ m, lineAt ms n = some m ∧ f m = true

/-- `n` lies in a region that begins at a line `s ≤ n` matching the start marker (inclusive) and
has not been ended by a line matching the stop marker after `s` and up to `n` (the region ends at
the next later stop line, exclusive: a stop on `n` itself puts `n` outside, unless `n` itself
matches the start marker and so begins a region). -/
def inRegion (start stop : Nat → Prop) (n : Nat) : Prop :=
  ∃ s, s ≤ n ∧ start s ∧ ∀ t, s < t → t ≤ n → ¬ stop t

def lineMarker (o : Opts) (ms : List Bits) : Nat → Prop := Marks o.line (·.line) ms
def lineStart (o : Opts) (ms : List Bits) : Nat → Prop := Marks o.start (·.start) ms
def lineStop (o : Opts) (ms : List Bits) : Nat → Prop := Marks o.stop (·.stop) ms
def brMarker (o : Opts) (ms : List Bits) : Nat → Prop := Marks o.brLine (·.brLine) ms
def brStart (o : Opts) (ms : List Bits) : Nat → Prop := Marks o.brStart (·.brStart) ms
def brStop (o : Opts) (ms : List Bits) : Nat → Prop := Marks o.brStop (·.brStop) ms

/-- line `n` lies in a line-exclusion region -/
def inLineRegion (o : Opts) (ms : List Bits) (n : Nat) : Prop :=
  inRegion (lineStart o ms) (lineStop o ms) n
/-- line `n` lies in a branch-exclusion region -/
def inBrRegion (o : Opts) (ms : List Bits) (n : Nat) : Prop :=
  inRegion (brStart o ms) (brStop o ms) n

/-- the filter list makes `rewrite_paths` remove the line count of line `n` -/
def removesLine (fs : List FT) (n : Nat) : Prop := FT.line n ∈ fs ∨ FT.both n ∈ fs
/-- the filter list makes `rewrite_paths` remove the branch vector of line `n` -/
def removesBranch (fs : List FT) (n : Nat) : Prop := FT.branch n ∈ fs ∨ FT.both n ∈ fs

instance (fs : List FT) (n : Nat) : Decidable (removesLine fs n) := by
  unfold removesLine; infer_instance
instance (fs : List FT) (n : Nat) : Decidable (removesBranch fs n) := by
  unfold removesBranch; infer_instance

/-- the numbers carried by a filter list, in order -/
def FT.num : FT → Nat
  | .line n => n
  | .branch n => n
  | .both n => n

/-! ## Line splitting (file_filter.rs 57-65): `file.strip_suffix('\n')…split('\n')`,
`strip_suffix('\r')` -/

/-- put `b` in front of the first piece -/
def consHead (b : Nat) : List (List Nat) → List (List Nat)
  | [] => [[b]]
  | p :: ps => (b :: p) :: ps

/-- `str::split('\n')`: the pieces between line feeds. Never empty; a text that ends with a line
feed (and the empty text) has an empty last piece. -/
def splitLF : List Nat → List (List Nat)
  | [] => [[]]
  | b :: bs => if b = 10 then [] :: splitLF bs else consHead b (splitLF bs)

/-- `line.strip_suffix('\r').unwrap_or(line)`: one trailing CR removed -/
def stripCR (l : List Nat) : List Nat := if l.getLast? = some 13 then l.dropLast else l

/-- the six compiled regexes as predicates on one line (`Regex::is_match`, trusted) -/
structure Rx where
  line : List Nat → Bool
  start : List Nat → Bool
  stop : List Nat → Bool
  brLine : List Nat → Bool
  brStart : List Nat → Bool
  brStop : List Nat → Bool

def Rx.bits (rx : Rx) (l : List Nat) : Bits :=
  ⟨rx.line l, rx.start l, rx.stop l, rx.brLine l, rx.brStart l, rx.brStop l⟩

/-- `file.strip_suffix('\n').unwrap_or(&file)`: exactly one final line feed removed -/
def stripFinalLF (src : List Nat) : List Nat :=
  if src.getLast? = some 10 then src.dropLast else src

/-- the pieces the pass enumerates (file_filter.rs 57-60, since /repo f854858) -/
def splitSrc (src : List Nat) : List (List Nat) := splitLF (stripFinalLF src)

/-- the match bits of every piece of the source, in order -/
def sourceBits (rx : Rx) (src : List Nat) : List Bits :=
  (splitSrc src).map fun p => rx.bits (stripCR p)

/-- `FileFilter::create` on a file: `none` = `read_to_string` fails -/
def createSrc (o : Opts) (rx : Rx) (src : Option (List Nat)) : List FT :=
  match src with
  | none => create o false []
  | some s => create o true (sourceBits rx s)

/-- the number of lines of the text as every other reader counts them (`str::lines`, `wc -l` for
a text that ends with a newline, gcov, grcov's own html.rs 475), written with the plain
`split('\n')`: the empty piece after a final LF, and the single empty piece of an empty text, are
not lines -/
def realLines (src : List Nat) : Nat :=
  if src = [] ∨ src.getLast? = some 10 then (splitLF src).length - 1 else (splitLF src).length

/-- `p` occurs in `l` as a contiguous block: a regex that is a plain literal -/
def hasSub (p : List Nat) : List Nat → Bool
  | [] => p.isEmpty
  | x :: xs => p.isPrefixOf (x :: xs) || hasSub p xs

/-- six literal markers (the conventional `LCOV_EXCL_*` configuration) -/
def Rx.ofLiterals (a b c d e f : List Nat) : Rx :=
  ⟨hasSub a, hasSub b, hasSub c, hasSub d, hasSub e, hasSub f⟩

end Grcov.FileFilter
