/-
Confine.Dest (C19, part `Dest`) — EVERY place where a grcov run creates, writes, links or deletes
a file, as a destination expression over the run's inputs, and `dests : RunInput → List Dest`
enumerating them. Followed program point by program point from

* src/main.rs 340 (log file), 392-399 (`tempfile::tempdir`; since fix 232bfd3 the directory
  `tmp/inputs` into which the producer extracts / links, `create_dir`), 437-448 (worker dir
  `tmp/<i>`, `create_dir`), 517-536 + 58-78 (`to_file_name`: the output path of each output type),
  the end of `main` (`tmp_dir` is dropped: `remove_dir_all(tmp)`; NOT on the `process::exit(1)`
  paths, which leave the temp dir behind);
* src/producer.rs 315-346 (`Archive::extract`: `create_dir_all(parent)`, zip: `File::create`,
  dir: `symlink`), 375-446 (`<stem>_<n>.gcno/.gcda`, `hard_link` for n > 1), 467-490 (profiles):
  the destination is `tmp_dir.join(format!("{}_{}.{}", stem, n, ext))` with `tmp_dir = tmp/inputs`
  and `stem` the STRING `clean_path(name.with_extension(""))` of the listed name;
* src/lib.rs 171-179 (`clean_working_dir`), 228-284 (gcov output path
  `working_dir.join(gcno_path.file_name() + ext)`, `remove_file`; `WalkDir` entries);
* src/gcov.rs 36-66 (`gcov <gcno> -i` with `current_dir(working_dir)`: the tool writes into its cwd);
* src/llvm_tools.rs 119-131 (`working_dir.join("grcov.profdata")` handed to `llvm-profdata -o`;
  `llvm-cov export` writes to stdout only);
* src/output.rs 40-72 (`get_target_output_writable`: `File::create(output)`, NO parent creation:
  it panics), 531-547 (`output_html`: `create_dir_all(output)`), 76/185/243/511/516/685 and
  src/cobertura.rs 500 (all other writers: that one call, nothing derived from report paths);
* src/html.rs 197-212 (`create_parent`, `add_html_ext`), 324-353 (`gen_index`), 355-391
  (`gen_dir_index`), 393-426 (`gen_html`: `is_relative` test, `File::open(abs)`, destination
  `output.join(add_html_ext(rel_path))`), 574-598 (badges), 613-654 (`coverage.json`), 656-665
  (`bulma.min.css`).

Two levels. Inside one path string the code uses `Path::{extension, file_stem, file_name, parent,
with_extension}`: these are modelled on BYTES, exactly as library/std/src/path.rs computes them
(`rsplit_file_at_dot`, `_with_extension` = copy without the old extension then `_set_extension`,
which does nothing when the copy has no file name — so `a/..c` becomes `a/..`). Joining onto a
root (`tmp.join(..)`, `output.join(..)`) is modelled on COMPONENT lists (`Confine.join`,
`Confine.resolve`), the level at which confinement is stated; `toPath` goes from bytes to
components (`Path::components`). The harness ties both levels to the real code by comparing the
files that `grcov::output_html` / the `grcov` binary really create with `resolve` of these
destinations.

Roots a run may write to: `tmp` (the directory `tempfile::tempdir()` returned), `out` (the
requested output location: the `-o` path, or `./html` for html without `-o`), `log` (the `--log`
path when it is not `stdout`/`stderr`: a location the user asked for, written with
`File::create` exactly there — treated as a third allowed root consisting of that one path).
`mkdirAll p` creates the missing ones among ALL prefixes of `p`: for `p = out` itself
(`output_html`) these are ancestors of the requested output directory, which is what asking for a
nested output directory means; every other `mkdirAll` is issued for a path below `tmp`/`out`
after the root exists.

Not in the model (external programs; the sandbox snapshots of harness/c19 observe them): which
file names `gcov` chooses inside its cwd (without `-p` it uses the source file's base name, and in
json mode `<gcno file name>.gcov.json.gz`), and what `llvm-profdata` does with `-o`.
Core Lean only.
-/
import GrcovModel.Confine
import GrcovModel.UPath
namespace Grcov.Confine
open Grcov.UPath (Bytes)

/-! ### bytes → components -/

def conv : UPath.Comp → Comp
  | .root => .root
  | .cur => .cur
  | .parent => .parent
  | .normal n => .normal n

/-- `Path::new(p).components()` -/
def toPath (p : Bytes) : Path := (UPath.components p).map conv

/-! ### `Path::{file_name, extension, file_stem, with_extension}` on bytes -/

/-- the last '.' of a name: (what is before it, what is after it) -/
def rsplitDot : Bytes → Option (Bytes × Bytes)
  | [] => none
  | c :: cs =>
    match rsplitDot cs with
    | some (b, a) => some (c :: b, a)
    | none => if c = 46 then some ([], cs) else none

/-- `rsplit_file_at_dot` then `before.or(after)`: the file stem of a file name -/
def stemOfName (n : Bytes) : Bytes :=
  if n = [46, 46] then n
  else match rsplitDot n with
    | none => n
    | some (b, _) => if b = [] then n else b

/-- `rsplit_file_at_dot` then `before.and(after)`: the extension of a file name -/
def extOfName (n : Bytes) : Option Bytes :=
  if n = [46, 46] then none
  else match rsplitDot n with
    | none => none
    | some (b, a) => if b = [] then none else some a

/-- the segments in front of the file name, and the file name: `Components::next_back` skips the
trailing "" and "." segments; a last component `..` (or none at all) means "no file name" -/
def lastSeg (p : Bytes) : Option (List Bytes × Bytes) :=
  let t := UPath.trimR (UPath.split p)
  match t.getLast? with
  | none => none
  | some s => if s = [46, 46] then none else some (t.dropLast, s)

/-- `Path::file_name` -/
def fileName (p : Bytes) : Option Bytes := (lastSeg p).map (·.2)

/-- `Path::extension` -/
def extension (p : Bytes) : Option Bytes := (lastSeg p).bind fun x => extOfName x.2

/-- `PathBuf::_set_extension` (the extension contains no separator here): nothing happens without a
file name; otherwise the buffer is cut right after the file stem and `.ext` is appended -/
def setExtension (p e : Bytes) : Bytes :=
  match lastSeg p with
  | none => p
  | some (pre, n) => UPath.join (pre ++ [stemOfName n ++ (if e = [] then [] else 46 :: e)])

/-- `Path::_with_extension`: the bytes without the old extension (the dot stays), then
`set_extension` on that copy -/
def withExtension (p e : Bytes) : Bytes :=
  match extension p with
  | none => setExtension p e
  | some x => setExtension (p.take (p.length - x.length)) e

def dotHtml : Bytes := [46, 104, 116, 109, 108]                      -- ".html"

def bHtmlExt : Bytes := [104, 116, 109, 108]                          -- "html"

/-- html.rs 204-212 (since fix b1b2416 a name without extension gets `html`, not `.html`) -/
def addHtmlExt (p : Bytes) : Bytes :=
  match extension p with
  | some x => withExtension p (x ++ dotHtml)
  | none => withExtension p bHtmlExt

/-- a file name `..x` (x non-empty, without '.'): stem ".", so the copy made by `with_extension`
ends in `..` and keeps no file name -/
def dotDotName (n : Bytes) : Bool :=
  match n with
  | 46 :: 46 :: x => !x.isEmpty && !x.contains 46
  | _ => false

/-! ### destinations -/

def bIndexHtml : Bytes := [105, 110, 100, 101, 120, 46, 104, 116, 109, 108]
def bBadges : Bytes := [98, 97, 100, 103, 101, 115]
def bCoverageJson : Bytes := [99, 111, 118, 101, 114, 97, 103, 101, 46, 106, 115, 111, 110]
def bBulma : Bytes := [98, 117, 108, 109, 97, 46, 109, 105, 110, 46, 99, 115, 115]
def bGrcovProfdata : Bytes := [103, 114, 99, 111, 118, 46, 112, 114, 111, 102, 100, 97, 116, 97]
def bHtml : Bytes := [104, 116, 109, 108]
/-- `BadgeStyle::path`: flat, flat_square, for_the_badge, plastic, social (`.svg`) -/
def badgeNames : List Bytes :=
  [[102, 108, 97, 116, 46, 115, 118, 103],
   [102, 108, 97, 116, 95, 115, 113, 117, 97, 114, 101, 46, 115, 118, 103],
   [102, 111, 114, 95, 116, 104, 101, 95, 98, 97, 100, 103, 101, 46, 115, 118, 103],
   [112, 108, 97, 115, 116, 105, 99, 46, 115, 118, 103],
   [115, 111, 99, 105, 97, 108, 46, 115, 118, 103]]

/-- `gen_html`: `output.join(add_html_ext(rel_path))` -/
def htmlFileDest (out : Path) (rel : Bytes) : Path := join out (toPath (addHtmlExt rel))

/-- `gen_dir_index`: `output.join(Path::new(dir_name).join("index.html"))`, `dir_name` being the
string of `rel_path.parent()` (`none`: `parent().unwrap()` panics in `get_dirs_result`) -/
def htmlDirIndexDest (out : Path) (rel : Bytes) : Option Path :=
  (UPath.parent rel).map fun d => join out (join (toPath d) [.normal bIndexHtml])

def indexDest (out : Path) : Path := join out [.normal bIndexHtml]
def badgesDir (out : Path) : Path := join out [.normal bBadges]
def badgeDest (out : Path) (b : Bytes) : Path := join out [.normal bBadges, .normal b]
def coverageJsonDest (out : Path) : Path := join out [.normal bCoverageJson]
def resourceDest (out : Path) : Path := join out [.normal bBulma]

/-- decimal digits of a worker index / archive number -/
def decDigits : Nat → Nat → List Nat
  | 0, _ => [48]
  | fuel + 1, n => if n < 10 then [48 + n] else decDigits fuel (n / 10) ++ [48 + n % 10]
def dec (n : Nat) : Bytes := decDigits n n

/-- main.rs 437: `tmp_path.join(format!("{}", i))` -/
def workerDir (tmp : Path) (i : Nat) : Path := join tmp [.normal (dec i)]

/-- lib.rs 237-240: `working_dir.join(gcno_path.file_name().unwrap() + ext)`; `none` = that
`unwrap` panics -/
def gcovOutPath (wd : Path) (gcnoPath ext : Bytes) : Option Path :=
  (fileName gcnoPath).map fun n => join wd (toPath (n ++ ext))

/-- lib.rs 171-179, 263-281: a `WalkDir` entry below the working dir (`names` come from readdir) -/
def walkEntry (wd : Path) (names : List Bytes) : Path := wd ++ names.map .normal

/-- llvm_tools.rs 123-132: `working_dir.join("grcov.profdata")`, the `-o` of `llvm-profdata merge`,
removed again (`RemoveOnDrop`, fix 2cb069b) on every way out of `llvm_profiles_to_lcov` -/
def profdataPath (wd : Path) : Path := join wd [.normal bGrcovProfdata]

/-- the entry's components with only the last name changed: the component-level view of an
extraction destination used by `C19_enclosed_stays_in_tmp` (Props/C19.lean); the destination the
code really builds is `extractDest` below, on the stem STRING, and `C19_numbered_dest_is_renameLast`
says when the two agree -/
def zipEntryDest (tmp : Path) (entry : Path) (f : Bytes → Bytes) : Path := join tmp (renameLast f entry)

def bInputs : Bytes := [105, 110, 112, 117, 116, 115]                 -- "inputs"

/-- main.rs 398 (fix 232bfd3): `tmp_path.join("inputs")`, the `tmp_dir` handed to `producer()` -/
def extractDir (tmp : Path) : Path := join tmp [.normal bInputs]

/-- `Path::parent` of a destination, on components: drop the last component -/
def parentC (p : Path) : Path := p.dropLast

/-- main.rs 58-78 `to_file_name`: the output path itself, or a fixed name below it when it is an
existing directory -/
def outFileDest (out : Path) (isDir : Bool) (fixedName : Bytes) : Path :=
  if isDir then join out [.normal fixedName] else out

/-! ### a run -/

inductive Root where
  | tmp | out | log
deriving DecidableEq, Repr

inductive Kind where
  | mkdir        -- fs::create_dir
  | mkdirAll     -- fs::create_dir_all: every missing prefix
  | createFile   -- File::create / fs::write: follows a symlink at the destination
  | symlink      -- a new link at the destination, pointing at an input file
  | hardlink     -- a new name at the destination
  | toolWrite    -- an external tool is told to write here (gcov's cwd, llvm-profdata -o)
  | removeFile   -- fs::remove_file: removes the name, never what a link points to
  | removeTree   -- `TempDir::drop`: remove_dir_all of the temp dir (links are removed, not followed)
deriving DecidableEq, Repr

structure Dest where
  kind : Kind
  root : Root
  path : Path
deriving DecidableEq, Repr

/-- one extraction (producer.rs `Archive::extract`): `fromZip = false` is a directory input -/
structure Extract where
  fromZip : Bool
  /-- the string `clean_path(name.with_extension(""))` of the listed name -/
  stem : Bytes
  n : Nat                      -- 1-based archive number
  ext : Bytes                  -- gcno / gcda / profraw / profdata
  hardlinks : List Nat := []   -- further numbers under which the gcno is hard-linked
deriving DecidableEq, Repr

/-- `format!("{}_{}.{}", stem, n, ext)` -/
def numbered (n : Nat) (ext : Bytes) (stem : Bytes) : Bytes := stem ++ 95 :: dec n ++ 46 :: ext

/-- producer.rs 380/402/412/437/483: `tmp_dir.join(format!("{}_{}.{}", stem, n, ext))` with
`tmp_dir = tmp/inputs` -/
def extractDest (tmp : Path) (stem : Bytes) (n : Nat) (ext : Bytes) : Path :=
  join (extractDir tmp) (toPath (numbered n ext stem))

inductive OutKind where
  | none                                 -- stdout
  | file (isDir : Bool) (fixedName : Bytes)   -- every type but html
  | html (bundled : Bool)

structure RunInput where
  tmp : Path
  out : Path
  log : Option Path := none
  threads : Nat := 1
  extracts : List Extract := []
  /-- (worker, gcno path handed to gcov, extension of the gcov output) -/
  gcovJobs : List (Nat × Bytes × Bytes) := []
  /-- (worker, names below the working dir) found by `WalkDir` and removed -/
  walked : List (Nat × List Bytes) := []
  /-- workers that ran `llvm_profiles_to_lcov` -/
  profileJobs : List Nat := []
  outKind : OutKind := .none
  /-- the report: (rel_path, `File::open(abs_path)` succeeded) -/
  report : List (Bytes × Bool) := []

def extractDests (tmp : Path) (e : Extract) : List Dest :=
  let d := extractDest tmp e.stem e.n e.ext
  [⟨.mkdirAll, .tmp, parentC d⟩, ⟨if e.fromZip then .createFile else .symlink, .tmp, d⟩]
    ++ e.hardlinks.map fun k =>
        -- `fs::hard_link` of the first gcno: of a symlink (directory input) it makes another link
        -- to the same input file (`link(2)` does not follow), of an extracted file a second name
        ⟨if e.fromZip then .hardlink else .symlink, .tmp, extractDest tmp e.stem k e.ext⟩

def gcovDests (tmp : Path) (j : Nat × Bytes × Bytes) : List Dest :=
  match gcovOutPath (workerDir tmp j.1) j.2.1 j.2.2 with
  | none => [⟨.toolWrite, .tmp, workerDir tmp j.1⟩]
  | some p => [⟨.toolWrite, .tmp, workerDir tmp j.1⟩, ⟨.removeFile, .tmp, p⟩]

/-- `gen_html` for one report entry: nothing for an absolute `rel_path` or an unreadable source;
`get_dirs_result` panics (`parent().unwrap()`, `file_name().unwrap()`) before anything is created
when the path has no parent or no file name. The directory page is written later by `gen_index`. -/
def htmlEntryDests (out : Path) (r : Bytes × Bool) : List Dest :=
  if UPath.isRelative r.1 && r.2 then
    match htmlDirIndexDest out r.1, fileName r.1 with
    | some d, some _ =>
      [⟨.mkdirAll, .out, parentC (htmlFileDest out r.1)⟩, ⟨.createFile, .out, htmlFileDest out r.1⟩,
       ⟨.mkdirAll, .out, parentC d⟩, ⟨.createFile, .out, d⟩]
    | _, _ => []
  else []

def htmlFixedDests (out : Path) (bundled : Bool) : List Dest :=
  [⟨.mkdirAll, .out, out⟩, ⟨.createFile, .out, indexDest out⟩,
   ⟨.mkdirAll, .out, badgesDir out⟩]
    ++ badgeNames.map (fun b => ⟨.createFile, .out, badgeDest out b⟩)
    ++ [⟨.createFile, .out, coverageJsonDest out⟩]
    ++ (if bundled then [⟨.createFile, .out, resourceDest out⟩] else [])

def outDests (ri : RunInput) : List Dest :=
  match ri.outKind with
  | .none => []
  | .file isDir name => [⟨.createFile, .out, outFileDest ri.out isDir name⟩]
  | .html bundled => htmlFixedDests ri.out bundled ++ ri.report.flatMap (htmlEntryDests ri.out)

/-- everything a run creates, writes, links or deletes before the temp dir is dropped -/
def destsCore (ri : RunInput) : List Dest :=
  (match ri.log with | none => [] | some l => [⟨.createFile, .log, l⟩])
    ++ [⟨.mkdir, .tmp, ri.tmp⟩, ⟨.mkdir, .tmp, extractDir ri.tmp⟩]
    ++ (List.range ri.threads).map (fun i => ⟨.mkdir, .tmp, workerDir ri.tmp i⟩)
    ++ ri.extracts.flatMap (extractDests ri.tmp)
    ++ ri.gcovJobs.flatMap (gcovDests ri.tmp)
    ++ ri.walked.map (fun w => ⟨.removeFile, .tmp, walkEntry (workerDir ri.tmp w.1) w.2⟩)
    ++ ri.profileJobs.flatMap (fun i =>
        [⟨.toolWrite, .tmp, profdataPath (workerDir ri.tmp i)⟩,
         ⟨.removeFile, .tmp, profdataPath (workerDir ri.tmp i)⟩])
    ++ outDests ri

/-- everything a run that completes normally creates, writes, links or deletes, in an order the run
can take: the LAST destination is the removal of the whole temp dir (`tmp_dir` of `main` is
dropped after the report is written) -/
def dests (ri : RunInput) : List Dest := destsCore ri ++ [⟨.removeTree, .tmp, ri.tmp⟩]

def rootPath (ri : RunInput) : Root → Path
  | .tmp => ri.tmp
  | .out => ri.out
  | .log => ri.log.getD []

/-- the destination resolves at or below its root -/
def Under (root p : Path) : Prop := ∃ rest, resolve p = resolve root ++ rest

/-! ### opens through the links made for directory inputs

For a directory input the producer puts a SYMLINK `tmp/<stem>_<n>.<ext>` → input file. What opens
such a path afterwards (all for READING): `gcov` (its gcno argument and the gcda it looks up beside
it), `llvm-profdata merge` (the profile list on stdin). What opens a path below `tmp` for WRITING:
`File::create` of a zip extraction at its own `tmp/<stem>_<n>.<ext>`; `gcov` (output names in the
worker dir), `llvm-profdata -o <worker dir>/grcov.profdata`. `writeDests`/`linkDests` are the two
sets whose disjointness (after resolution) means no input is written through a link; that the
kernel resolves a symlink only when it is opened, and that opening for reading alters nothing, is
trusted. -/

/-! ### what is left when the run is over -/

/-- the resolved paths that exist because of the run after its destinations were carried out in
order: a creating kind adds its path, `removeFile` takes that path away, `removeTree` everything at
or below its path -/
def aliveStep (acc : List (List (List Nat))) (d : Dest) : List (List (List Nat)) :=
  match d.kind with
  | .removeFile => acc.filter fun p => p != resolve d.path
  | .removeTree => acc.filter fun p => !(resolve d.path).isPrefixOf p
  | _ => acc ++ [resolve d.path]

def alive (ds : List Dest) : List (List (List Nat)) := ds.foldl aliveStep []

def isWrite : Kind → Bool
  | .createFile | .toolWrite => true
  | _ => false

def writeDests (ri : RunInput) : List Path := ((dests ri).filter fun d => isWrite d.kind).map (·.path)
def linkDests (ri : RunInput) : List Path := ((dests ri).filter fun d => d.kind = .symlink).map (·.path)

end Grcov.Confine
