/-
Confine.Extracts (C19) — the extractions of a run DERIVED from the Producer model instead of
being a free field of `RunInput` (review item 18): which `Archive::extract` calls
`llvm_format_producer` and `gcno_gcda_producer` (src/producer.rs 349-508) issue for the maps that
`explore` built, with which stem string, archive number and extension.

* profiles (`profdatas`, `profraws`): per map entry `(name, archives)` and per archive number
  `num + 1`: a plain-file archive is passed as it is (no extraction); otherwise
  `archive.extract(name, tmp_dir/<stem>_<num+1>.<ext>)` with `stem = name.with_extension("")`;
* gcno keys `(stem, llvm)`: LLVM keys are read into buffers (no extraction). GCC keys with gcda
  archives `ds`: the gcno is extracted to `<stem>_1.gcno` and hard-linked to `<stem>_k.gcno`,
  `k = 2..|ds|`; per gcda archive number `k` the gcda is extracted to `<stem>_k.gcda`. GCC keys
  without gcda, when orphans are kept: the gcno is extracted to `<stem>_1.gcno`.
`fromZip` = the archive is a zip (`File::create` + copy; nothing is created when the entry is
missing); a directory archive makes a symlink (also for a missing file: dangling).
`runInputOf` puts these extractions into a `RunInput`; the theorems of Props/C19Extract.lean are
about `dests (runInputOf …)`. Core Lean only.
-/
import GrcovModel.Confine.Dest
import GrcovModel.Producer.Zip
namespace Grcov.Confine
open Grcov.UPath (Bytes)
open Grcov.Producer (Arch Maps Name RArg Opts)

/-- `name.with_extension("")` as the producer computes it (`Producer.splitExt`) -/
def stemOf (name : Name) : Bytes :=
  match Producer.splitExt name with
  | some (s, _) => s
  | none => name

/-- `archives.iter().enumerate()` with `num + 1` -/
def numberFrom : Nat → List Arch → List (Nat × Arch)
  | _, [] => []
  | k, a :: as => (k, a) :: numberFrom (k + 1) as

def isZip (a : Arch) : Bool := a.kind == .zip
def isPlain (a : Arch) : Bool := a.kind == .plain

/-- `llvm_format_producer` for one map -/
def profileExtracts (ext : Bytes) (m : List (Name × List Arch)) : List Extract :=
  m.flatMap fun p =>
    (numberFrom 1 p.2).filterMap fun ka =>
      if isPlain ka.2 then none else some ⟨isZip ka.2, stemOf p.1, ka.1, ext, []⟩

/-- the numbers `2..n` under which the first gcno is hard-linked -/
def linkNumbers (n : Nat) : List Nat := (List.range n).filterMap fun i => if i < 2 then none else some i

/-- `gcno_gcda_producer` for one key. `Archive::extract` on the plain-files archive panics ("We
shouldn't be there"; unreachable: `producer()` admits no gcno/gcda as plain file): nothing is
created. -/
def gcnoKeyExtracts (ignoreOrphan : Bool) (k : Name × Bool) (ga : Arch) (gcdas : Option (List Arch)) :
    List Extract :=
  if k.2 || isPlain ga then []
  else match gcdas with
    | some ds =>
      ⟨isZip ga, k.1, 1, Producer.bGcno, linkNumbers (ds.length + 1)⟩
        :: (numberFrom 1 ds).filterMap fun kd =>
            if isPlain kd.2 then none else some ⟨isZip kd.2, k.1, kd.1, Producer.bGcda, []⟩
    | none => if ignoreOrphan then [] else [⟨isZip ga, k.1, 1, Producer.bGcno, []⟩]

def gcnoExtracts (ignoreOrphan : Bool) (gcno : List ((Name × Bool) × Arch))
    (gcda : List (Name × List Arch)) : List Extract :=
  gcno.flatMap fun p => gcnoKeyExtracts ignoreOrphan p.1 p.2 (Grcov.AList.get? gcda p.1.1)

/-- every `Archive::extract` call of `producer()` given the maps of `explore` -/
def extractsOfMaps (ignoreOrphan : Bool) (m : Maps) : List Extract :=
  profileExtracts Producer.bProfdata m.profdata ++ profileExtracts Producer.bProfraw m.profraw
    ++ gcnoExtracts ignoreOrphan m.gcno m.gcda

/-- … of a layout whose zips are given by their raw entries -/
def extractsOf (o : Opts) (rargs : List RArg) : List Extract :=
  extractsOfMaps o.ignoreOrphan (Producer.explore o.isLlvm (Producer.archives (rargs.map RArg.toArg)))

/-- a run of this layout: the rest of the `RunInput` (temp dir, output, workers, gcov jobs, report)
is free, the extractions are the producer's -/
def runInputOf (ri : RunInput) (o : Opts) (rargs : List RArg) : RunInput :=
  { ri with extracts := extractsOf o rargs }

end Grcov.Confine
