/-
Rewrite — model of `rewrite_paths` (src/path_rewriting.rs 232-406) with its helpers
`apply_mapping`, `remove_prefix`, `guess_abs_path`, `fixup_rel_path`, `get_abs_path`, of
`is_covered` (src/filter.rs 3-21) and of the canonicalisation step of `add_results`
(src/lib.rs 109-119).

The file system is a parameter: a finite tree (`FS`: canonical component lists of the regular
files and of the directories, the symbolic links with their target texts, plus the canonical
current directory), observed through `stat` / `lstat` / `realpath`, which walk the *raw*
'/'-separated segments the way the kernel does (a regular file followed by anything, even a lone
'/', is ENOTDIR; a link is replaced by its target, relative to the directory that contains it;
`..` is the physical parent, after a link of the target; ELOOP after 40 links).

Outside the model (the harness never generates it, and says so):
* (the Java/Kotlin partial-path lookup `map_partial_path` is NOT in this file's `rewritePaths`; it
  is inside `rewritePathsJ` of GrcovModel/Rewrite/Partial.lean, which re-uses the helpers below);
* exclusion markers (`FileFilter` is the default one: `create` returns no filter, C16 has them);
* mapping values that are not JSON strings; a key or mapped value whose first character
  is a cased non-ASCII letter (`to_lowercase_first` is modelled on ASCII);
* globs outside `Glob`'s subset (`compile` answers `none`).
Core Lean only.
-/
import GrcovModel.Merge
import GrcovModel.Glob
namespace Grcov.Rewrite
open Grcov Grcov.UPath Grcov.Glob

/-! ### file system -/

/-- `links`: the symbolic links of the tree, canonical component list of the link itself ↦ its
target text (absolute or relative, as `readlink` returns it). A path is a regular file, a
directory or a link, never two of them (`FS.kind` looks at `files`/`dirs` only and a link is
looked up first). -/
structure FS where
  files : List (List Bytes)
  dirs : List (List Bytes)
  cwd : List Bytes
  links : List (List Bytes × Bytes) := []

inductive Kind where
  | file
  | dir
deriving DecidableEq, Repr

/-- what exists at a canonical component list (the root always exists); links are not looked at -/
def FS.kind (fs : FS) (p : List Bytes) : Option Kind :=
  if p = [] then some .dir
  else if fs.dirs.contains p then some .dir
  else if fs.files.contains p then some .file
  else none

/-- the target of the symbolic link at a canonical component list -/
def FS.linkAt (fs : FS) (p : List Bytes) : Option Bytes := AList.get? fs.links p

/-- `MAXSYMLINKS`: Linux gives up with ELOOP after 40 links in one path resolution -/
def maxLinks : Nat := 40

/-- link-free kernel path walk over the raw segments, from directory/file `cur` (the walk of the
model before symlinks were put inside; `walk_noLinks`: the two agree on a tree without links) -/
def walk0 (fs : FS) : List Bytes → Kind → List Bytes → Option (List Bytes × Kind)
  | cur, k, [] => some (cur, k)
  | cur, k, seg :: segs =>
    match k with
    | .file => none                                  -- ENOTDIR, even for "" and "."
    | .dir =>
      if seg = [] || seg = [46] then walk0 fs cur .dir segs
      else if seg = [46, 46] then walk0 fs cur.dropLast .dir segs
      else match fs.kind (cur ++ [seg]) with
        | none => none                               -- ENOENT
        | some k' => walk0 fs (cur ++ [seg]) k' segs

/-- kernel path walk (`link_path_walk`) over the raw segments, from directory/file `cur`.
A component that is a symbolic link is replaced by the segments of its target: an absolute target
restarts at the root, a relative one continues in the directory that CONTAINS the link; ".." is
the physical parent of wherever the walk is (after a link: of the target). `lf` is the number of
links that may still be followed (ELOOP = `none` when it is used up). `followLast = false` is
`lstat`: a link in the LAST position is not followed (the walk then stops at the link's directory
and answers `none` here: callers use `FS.lresolve`).
`n` is step fuel (structural recursion, so that closed examples reduce): every step consumes one
unit; `walk_fuel_stable` shows it is never the reason for `none` when `n` is what `resolve` passes. -/
def walk (fs : FS) : Nat → Nat → List Bytes → Kind → List Bytes → Option (List Bytes × Kind)
  | _, _, cur, k, [] => some (cur, k)
  | 0, _, _, _, _ :: _ => none
  | n + 1, lf, cur, k, seg :: segs =>
    match k with
    | .file => none                                  -- ENOTDIR, even for "" and "."
    | .dir =>
      if seg = [] || seg = [46] then walk fs n lf cur .dir segs
      else if seg = [46, 46] then walk fs n lf cur.dropLast .dir segs
      else match fs.linkAt (cur ++ [seg]) with
        | some t =>
          if t = [] then none                        -- ENOENT (an empty target cannot be created)
          else match lf with
            | 0 => none                              -- ELOOP
            | lf' + 1 => walk fs n lf' (if hasRoot t then [] else cur) .dir (split t ++ segs)
        | none =>
          match fs.kind (cur ++ [seg]) with
          | none => none                             -- ENOENT
          | some k' => walk fs n lf (cur ++ [seg]) k' segs

/-- the longest link target, in segments -/
def FS.maxTarget (fs : FS) : Nat := (fs.links.map fun l => (split l.2).length).foldl max 0

/-- step fuel that is always enough: the segments of the path plus those of 40 link targets -/
def FS.fuel (fs : FS) (segs : List Bytes) : Nat := segs.length + maxLinks * fs.maxTarget + 1

/-- `stat(2)`: relative paths start at the cwd, "" is ENOENT, every link is followed -/
def FS.resolve (fs : FS) (p : Bytes) : Option (List Bytes × Kind) :=
  if p = [] then none
  else if hasRoot p then walk fs (fs.fuel (split p)) maxLinks [] .dir (split p)
  else walk fs (fs.fuel (split p)) maxLinks fs.cwd .dir (split p)

/-- the link-free `stat(2)` of the model before symlinks -/
def FS.resolve0 (fs : FS) (p : Bytes) : Option (List Bytes × Kind) :=
  if p = [] then none
  else if hasRoot p then walk0 fs [] .dir (split p)
  else walk0 fs fs.cwd .dir (split p)

def FS.exists (fs : FS) (p : Bytes) : Bool := (fs.resolve p).isSome

def FS.isFile (fs : FS) (p : Bytes) : Bool :=
  match fs.resolve p with
  | some (_, .file) => true
  | _ => false

/-- `fs::canonicalize` -/
def FS.realpath (fs : FS) (p : Bytes) : Option Bytes :=
  (fs.resolve p).map fun r => render ⟨true, r.1⟩

/-- `symlink_metadata(p).file_type().is_symlink()` (`lstat`): every component but the last is
resolved with links followed, the last one is looked up as it is. Trailing "", "." and ".."
segments make the last component a directory reference, never a link. -/
def FS.isLink (fs : FS) (p : Bytes) : Bool :=
  match (split p).reverse with
  | [] => false
  | last :: revInit =>
    if last = [] || last = [46] || last = [46, 46] then false
    else
      let start := if hasRoot p then [] else fs.cwd
      match walk fs (fs.fuel revInit.reverse) maxLinks start .dir revInit.reverse with
      | some (d, .dir) => (fs.linkAt (d ++ [last])).isSome
      | _ => false

/-- a tree without symbolic links -/
def FS.noLinks (fs : FS) : Prop := fs.links = []

/-! ### configuration -/

structure Cfg where
  sourceDir : Option Bytes := none
  prefixDir : Option Bytes := none
  mapping : Option (List (Bytes × Bytes)) := none      -- a JSON object with string values
  ignore : GlobSet := []
  keep : GlobSet := []
  ignoreNotExisting : Bool := false
  filter : Option Bool := none

structure Rec where
  abs : Bytes
  rel : Bytes
  cov : Cov
deriving DecidableEq, Repr

/-- result of code that can panic -/
inductive Res (α : Type) where
  | ok (a : α)
  | panic (site : String)
deriving DecidableEq, Repr

/-! ### helpers of path_rewriting.rs -/

def lowerFirst : Bytes → Bytes
  | [] => []
  | b :: bs => (if 65 ≤ b ∧ b ≤ 90 then b + 32 else b) :: bs

def upperFirst : Bytes → Bytes
  | [] => []
  | b :: bs => (if 97 ≤ b ∧ b ≤ 122 then b - 32 else b) :: bs

/-- `apply_mapping` on a non-empty key (the empty key panics in `to_lowercase_first`) -/
def applyMapping (mapping : Option (List (Bytes × Bytes))) (path : Bytes) : Bytes :=
  match mapping with
  | none => path
  | some m =>
    match AList.get? m (lowerFirst path) with
    | some p => p
    | none => match AList.get? m (upperFirst path) with
      | some p => p
      | none => path

/-- `remove_prefix` -/
def removePrefix (prefixDir : Option Bytes) (path : Bytes) : Bytes :=
  match prefixDir with
  | none => path
  | some pre => match stripPrefix path pre with
    | some r => r
    | none => path

/-- `guess_abs_path`; `none` only if `strip_prefix(ancestor)` failed, which `std` excludes -/
def guessAbsPath (fs : FS) (src path : Bytes) : Option Bytes :=
  let full := push src path
  if fs.isFile full then some full
  else match (ancestors path).find? fun a => endsWith src a && !a.isEmpty with
    | some a => (stripPrefix path a).map (push src)
    | none => some full

/-- `fixup_rel_path` -/
def fixupRelPath (src : Option Bytes) (abs rel : Bytes) : Bytes :=
  match src with
  | none => rel
  | some s => match stripPrefix abs s with
    | some r => r
    | none => if !isRelative rel then abs else rel

/-- the absolute path before canonicalisation (`get_abs_path`, first statement) -/
def absGuess (fs : FS) (src : Option Bytes) (rel : Bytes) : Option Bytes :=
  if !isRelative rel then some rel
  else match src with
    | some s => guessAbsPath fs s rel
    | none => some rel

/-- "Canonicalize, if possible; otherwise resolve '..' lexically": `none` = the `?` after
`normalize_path(&abs_path)`, i.e. the key is dropped -/
def canonOrNorm (fs : FS) (abs : Bytes) : Option Bytes :=
  match fs.realpath abs with
  | some p => some p
  | none => normalizePath abs

/-- the absolute path after that step (`none`: `guess_abs_path`'s impossible `unwrap` failure, or
the key is dropped) -/
def absCanon (fs : FS) (src : Option Bytes) (rel : Bytes) : Option Bytes :=
  (absGuess fs src rel).bind (canonOrNorm fs)

/-- `get_abs_path`: `ok none` = dropped because a `..` cannot be resolved -/
def getAbsPath (fs : FS) (src : Option Bytes) (rel : Bytes) : Res (Option (Bytes × Bytes)) :=
  match absGuess fs src rel with
  | none => .panic "guess_abs_path.strip_prefix"
  | some abs0 =>
    match canonOrNorm fs abs0 with
    | none => .ok none
    | some abs =>
      match normalizePath abs, normalizePath (fixupRelPath src abs rel) with
      | some a, some r => .ok (some (a, r))
      | _, _ => .ok none

/-- lines 339-345: backslashes of the KEY to slashes, path mapping, prefix removal -/
def keyPath (cfg : Cfg) (key : Bytes) : Bytes :=
  removePrefix cfg.prefixDir (applyMapping cfg.mapping (bsl key))

/-- lines 361-363 (fix 568afd2), right after `get_abs_path`: "Always return results with '/'" —
the backslashes of the relative path become separators and the path is normalised AGAIN, because a
backslash may have hidden '.' or '..' segments from the normalisation inside `get_abs_path`;
`none` = the `?`: the path now escapes through '..' and the key is dropped -/
def finalRel (rel : Bytes) : Option Bytes := normalizePath (bsl rel)

/-- that step applied to the outcome of `get_abs_path` -/
def finishPath : Res (Option (Bytes × Bytes)) → Res (Option (Bytes × Bytes))
  | .panic s => .panic s
  | .ok none => .ok none
  | .ok (some (abs, rel)) =>
    match finalRel rel with
    | none => .ok none
    | some r => .ok (some (abs, r))

/-- lines 336-363. The result is (abs_path, rel_path) as they are when the globs are evaluated,
which is also how they are reported. -/
def resolveKey (cfg : Cfg) (fs : FS) (key : Bytes) : Res (Option (Bytes × Bytes)) :=
  if cfg.mapping.isSome && (bsl key).isEmpty then .panic "to_lowercase_first"
  else finishPath (getAbsPath fs cfg.sourceDir (keyPath cfg key))

/-! ### is_covered (filter.rs) -/

def topLevel : Bytes := [116, 111, 112, 45, 108, 101, 118, 101, 108]   -- "top-level"

def isCovered (c : Cov) : Bool :=
  if !(c.lines.any fun lc => lc.2 != 0) then false
  else decide (c.functions.length ≤ 1) ||
       c.functions.any fun nf => nf.2.executed && nf.1 != topLevel

def filterOk (filter : Option Bool) (c : Cov) : Bool :=
  match filter with
  | none => true
  | some true => isCovered c
  | some false => !isCovered c

/-- lines 365-405 for one resolved key: the filters run on the final path, which is reported as is -/
def selectRec (cfg : Cfg) (fs : FS) (abs rel : Bytes) (cov : Cov) : Option Rec :=
  if setMatch cfg.ignore rel then none
  else if !cfg.keep.isEmpty && !setMatch cfg.keep rel then none
  else if cfg.ignoreNotExisting && !fs.exists abs then none
  else if !filterOk cfg.filter cov then none
  else some ⟨abs, rel, cov⟩

/-- the `filter_map` closure (lines 335-403) for one map entry -/
def rewriteKey (cfg : Cfg) (fs : FS) (kc : Bytes × Cov) : Res (Option Rec) :=
  match resolveKey cfg fs kc.1 with
  | .panic s => .panic s
  | .ok none => .ok none
  | .ok (some (abs, rel)) => .ok (selectRec cfg fs abs rel kc.2)

def collect : List (Res (Option Rec)) → Res (List Rec)
  | [] => .ok []
  | .panic s :: _ => .panic s
  | .ok o :: rest => match collect rest with
    | .panic s => .panic s
    | .ok l => .ok (match o with | some r => r :: l | none => l)

/-- `rewrite_paths` (no Java/Kotlin keys): the report, one entry per retained key, in map order
(the real order is rayon's; observations are multisets) -/
def rewritePaths (cfg : Cfg) (fs : FS) (m : List (Bytes × Cov)) : Res (List Rec) :=
  match cfg.sourceDir with
  | some s => if isAbsolute s then collect (m.map (rewriteKey cfg fs)) else .panic "assert_absolute"
  | none => collect (m.map (rewriteKey cfg fs))

/-! ### add_results, then rewrite_paths (what `main` does) -/

/-- lib.rs 109-119: the key under which `add_results` files a record -/
def addCanon (fs : FS) (src : Option Bytes) (key : Bytes) : Bytes :=
  match src with
  | none => key
  | some s => (fs.realpath (push s key)).getD key

def addThenRewrite (cfg : Cfg) (fs : FS) (batch : List (Bytes × Cov)) : Res (List Rec) :=
  rewritePaths cfg fs (addResults (addCanon fs cfg.sourceDir) [] batch)

/-! ### per-directory totals of a covdir report (output.rs 184-236, covdir.rs 104-121) -/

/-- a file's `linesTotal` -/
def linesTotal (c : Cov) : Nat := c.lines.length

/-- the path under which a tree-shaped writer files a record (`output_covdir`, output.rs 190-195:
`if rel_path.is_relative() { rel_path } else { abs_path }`): a reported path that is absolute –
a key that `rewrite_paths` could not make relative – is replaced by the canonical path, so two
records with different reported absolute paths but the same physical file (reached through links,
no source dir) land on ONE node of the tree. -/
def Rec.treePath (r : Rec) : Bytes := if r.rel.head? = some 47 then r.abs else r.rel

/-- what `CDDirStats::set_stats` adds up for the directory selected by `inDir`: one summand per
*record* pushed below it -/
def dirTotal (inDir : Bytes → Bool) (rep : List Rec) : Nat :=
  ((rep.filter fun r => inDir r.treePath).map fun r => linesTotal r.cov).sum

/-- the records a tree-shaped writer shows: children are keyed by name, a later record with the
same path replaces the earlier one -/
def shown : List Rec → List Rec
  | [] => []
  | r :: rest => if rest.any (fun r' => r'.treePath = r.treePath) then shown rest else r :: shown rest

/-- the sum over the files listed below the directory, each once -/
def listedTotal (inDir : Bytes → Bool) (rep : List Rec) : Nat := dirTotal inDir (shown rep)

/-! ### re-import of a report (the rewrite side of the lcov fixed point, C05) -/

/-- the result map a re-import of the report starts from: every record under its reported
relative path, with its data (what `SF:` / the records of an lcov report carry) -/
def reKeys (rep : List Rec) : List (Bytes × Cov) := rep.map fun r => (r.rel, r.cov)

/-- `rewrite_paths`, export, import with the same options, `rewrite_paths` again -/
def rewriteTwice (cfg : Cfg) (fs : FS) (m : List (Bytes × Cov)) : Res (List Rec) :=
  match rewritePaths cfg fs m with
  | .panic s => .panic s
  | .ok rep => rewritePaths cfg fs (reKeys rep)

end Grcov.Rewrite
