/-
Producer — executable model of input discovery (`/repo/src/producer.rs`), over *abstract layouts*.

An argument of `producer()` is a directory tree, a zip archive or a plain file. The file system and
the zip crate are parameters of the model: a directory / zip is given as the list of its files in
walk / index order, each file as

  * `path` – its path relative to the archive root (`strip_prefix(dir)`, the zip entry name) or,
             for a plain-file argument, its absolute path; bytes;
  * `head` – the first `min(size, 256)` bytes of its content (all that the sniffers ever read);
  * `cid`  – a content id (the harness uses a 64-bit hash of the whole content).

Domain (stated as `WF` where a theorem needs it): paths are `/`-separated, without empty, `.` or
`..` components and without a trailing `/`; inside one archive two entries with the same path are
the same file; every file is readable. File names of the form `..x` (two leading dots and no
further dot, e.g. `..gcno`) are outside the domain: std's `with_extension("")` answers `a/..` for
`a/..gcno` (the copy without the extension has no file name any more, see `Confine.withExtension`),
so the code looks such a file up as `a/...gcno` and never finds it, while `splitExt` says stem `a/.`
(seen by harness/c19 `extract.rs`; no generator produces such names on purpose).

The model follows the code program point by program point:
`splitExt`/`baseName` are `Path::extension`/`with_extension("")`/`file_name` on such paths,
`isInfo`/`isJacoco`/`isGcnoLlvm` are the three sniffers, `classify`+`handleFile` is
`Archive::handle_file`, `insertVec` is `Archive::insert_vec`, `AList.set` is `HashMap::insert`
(last writer wins), `fileContentItems`/`llvmItems`/`gcnoItems` are the three producers and `run` is
`producer()` with its two panics (`Cannot load file …` for a plain argument with another
extension, `No input files found`).

Hash-map iteration order is unspecified in the code; the model iterates in insertion order and
every observable is taken up to permutation (`List.Perm`; the driver prints items sorted).
`get_mapping` returns the *first* entry of a hash map: the model returns the list of candidates
(`mapCands`), the implementation's answer must be one of them.

Not modelled (outside the property's domain): unreadable files, zip entries whose name is not
"enclosed" (absolute, or climbing above the root: `explore` skips them), a `.zip` argument that is not a
zip file, duplicate entry names inside one zip, `Archive::extract` on the plain-files archive
(unreachable: `producer()` admits only info/json/xml/profraw/profdata as plain files, none of
which is ever extracted from a plain archive), Windows path separators.
Core Lean only (linked into the native driver `gm_c17`).
-/
import GrcovModel.Base
namespace Grcov.Producer
open Grcov

abbrev Name := List Nat

/-! ## Paths (Unix `std::path` on the domain above) -/

/-- `splitExtAux prev p`: split `p` at the dot that `Path::extension` uses – the last `.` of the
last component, provided it is not the first byte of that component (`.info` has no extension).
`prev` says whether the byte before `p` belongs to the same component. Returns
`(path.with_extension(""), extension)`. -/
def splitExtAux (prev : Bool) : Name → Option (Name × Name)
  | [] => none
  | c :: cs =>
    match splitExtAux (c != 47) cs with
    | some (s, e) => some (c :: s, e)
    | none => if c == 46 && prev && !cs.contains 47 then some ([], cs) else none

def splitExt (p : Name) : Option (Name × Name) := splitExtAux false p

/-- `Path::file_name`: the bytes after the last `/`. -/
def baseName : Name → Name
  | [] => []
  | c :: cs => if cs.contains 47 then baseName cs else if c == 47 then cs else c :: cs

def bGcno : Name := [103, 99, 110, 111]
def bGcda : Name := [103, 99, 100, 97]
def bProfdata : Name := [112, 114, 111, 102, 100, 97, 116, 97]
def bProfraw : Name := [112, 114, 111, 102, 114, 97, 119]
def bInfo : Name := [105, 110, 102, 111]
def bXml : Name := [120, 109, 108]
def bJson : Name := [106, 115, 111, 110]
/-- `linked-files-map.json` -/
def bLfm : Name :=
  [108, 105, 110, 107, 101, 100, 45, 102, 105, 108, 101, 115, 45, 109, 97, 112, 46, 106, 115, 111, 110]
/-- the JaCoCo DTD marker: dash, two slashes, `JACOCO`, two slashes, `DTD` -/
def bMarker : Name := [45, 47, 47, 74, 65, 67, 79, 67, 79, 47, 47, 68, 84, 68]

/-! ## Sniffers -/

/-- `read_exact(8)` succeeds and the bytes are `oncg*204` or `oncg*804` -/
def isGcnoLlvm (h : List Nat) : Bool :=
  8 ≤ h.length &&
  (h.take 8 == [111, 110, 99, 103, 42, 50, 48, 52] || h.take 8 == [111, 110, 99, 103, 42, 56, 48, 52])

/-- `read_exact(3)` succeeds and the bytes are `TN:` or `SF:` -/
def isInfo (h : List Nat) : Bool :=
  3 ≤ h.length && (h.take 3 == [84, 78, 58] || h.take 3 == [83, 70, 58])

/-- byte-substring search (`str::contains` on valid UTF-8) -/
def containsSub (pat : List Nat) : List Nat → Bool
  | [] => pat.isEmpty
  | c :: cs => pat.isPrefixOf (c :: cs) || containsSub pat cs

/-- `reader.take(256).read_to_end(..)`: the marker `bMarker` occurs, as bytes, in the first
`min(256, size)` bytes (no length or encoding requirement) -/
def isJacoco (h : List Nat) : Bool := containsSub bMarker (h.take 256)

/-! ## Files, archives, classification -/

structure File where
  path : Name
  head : List Nat
  cid : Nat
deriving DecidableEq, Repr

/-- what `handle_file` decides for one file; `gcno`/`gcda` carry `path.with_extension("")` -/
inductive Cls
  | gcno (stem : Name) (llvm : Bool)
  | gcda (stem : Name)
  | profdata
  | profraw
  | info
  | xml
  | linkedMap
  | ignored
deriving DecidableEq, Repr

/-- `Archive::handle_file`: the `match ext` with its sniffing, as a classification. -/
def classify (isLlvm : Bool) (f : File) : Cls :=
  match splitExt f.path with
  | none => .ignored
  | some (stem, ext) =>
    if ext = bGcno then .gcno stem (isLlvm || isGcnoLlvm f.head)
    else if ext = bGcda then .gcda stem
    else if ext = bProfdata then .profdata
    else if ext = bProfraw then .profraw
    else if ext = bInfo then (if isInfo f.head then .info else .ignored)
    else if ext = bXml then (if isJacoco f.head then .xml else .ignored)
    else if ext = bJson then (if baseName f.path = bLfm then .linkedMap else .ignored)
    else .ignored

inductive Kind | zip | dir | plain
deriving DecidableEq, Repr

/-- `Archive.name`: the argument string (here: a label chosen by the caller, the harness uses the
argument's index) or the literal `"plain files"`. -/
inductive Label | arg (i : Nat) | plain
deriving DecidableEq, Repr

structure Arch where
  label : Label
  kind : Kind
  files : List File
deriving DecidableEq, Repr

/-- `Archive::read(name)`: the content of the entry called `name`, if there is one -/
def Arch.read (a : Arch) (name : Name) : Option Nat :=
  (a.files.find? fun f => f.path = name).map (·.cid)

/-- `Archive::extract(name, dest)`'s return value: a zip reports whether the entry exists, a
directory always creates the (possibly dangling) symlink. -/
def Arch.extractOk (a : Arch) (name : Name) : Bool :=
  match a.kind with
  | .zip => (a.read name).isSome
  | _ => true

/-! ## The seven maps -/

/-- `insert_vec`: `map.entry(k).or_insert_with(Vec::new).push(a)` -/
def insertVec {κ α : Type} [DecidableEq κ] : List (κ × List α) → κ → α → List (κ × List α)
  | [], k, a => [(k, [a])]
  | (k', as) :: rest, k, a =>
    if k' = k then (k', as ++ [a]) :: rest else (k', as) :: insertVec rest k a

structure Maps where
  gcno : List ((Name × Bool) × Arch) := []
  gcda : List (Name × List Arch) := []
  profdata : List (Name × List Arch) := []
  profraw : List (Name × List Arch) := []
  infos : List (Name × List Arch) := []
  xmls : List (Name × List Arch) := []
  lmaps : List (Name × Arch) := []

def handleFile (isLlvm : Bool) (m : Maps) (af : Arch × File) : Maps :=
  match classify isLlvm af.2 with
  | .gcno stem llvm => { m with gcno := AList.set m.gcno (stem, llvm) af.1 }
  | .gcda stem => { m with gcda := insertVec m.gcda stem af.1 }
  | .profdata => { m with profdata := insertVec m.profdata af.2.path af.1 }
  | .profraw => { m with profraw := insertVec m.profraw af.2.path af.1 }
  | .info => { m with infos := insertVec m.infos af.2.path af.1 }
  | .xml => { m with xmls := insertVec m.xmls af.2.path af.1 }
  | .linkedMap => { m with lmaps := AList.set m.lmaps af.2.path af.1 }
  | .ignored => m

/-- every (archive, file) pair in exploration order -/
def entries (archs : List Arch) : List (Arch × File) :=
  archs.flatMap fun a => a.files.map fun f => (a, f)

/-- the `for archive in &mut archives { archive.explore(..) }` loop -/
def explore (isLlvm : Bool) (archs : List Arch) : Maps :=
  (entries archs).foldl (handleFile isLlvm) {}

/-! ## Work items -/

inductive Fmt | gcno | profraw | profdata | info | jacocoXml
deriving DecidableEq, Repr

/-- `WorkItem.name` -/
inductive IName
  | arch (l : Label)   -- an archive's name
  | empty              -- `""` (LLVM-mode gcno with gcda)
  | ext                -- `"profraw"` / `"profdata"`
deriving DecidableEq, Repr

inductive Item
  /-- `ItemType::Content(buffer)` -/
  | content (fmt : Fmt) (cid : Nat) (name : IName)
  /-- `ItemType::Paths(paths)`: per path the content found there (`none`: nothing was extracted) -/
  | paths (fmt : Fmt) (cids : List (Option Nat)) (name : IName)
  /-- `ItemType::Path((stem, gcno_path))`: what `gcno_path` and the `.gcda` beside it contain -/
  | gcnoPath (stem : Name) (gcno : Option Nat) (gcda : Option Nat) (name : IName)
  /-- `ItemType::Buffers` -/
  | gcnoBuf (stem : Name) (gcno : Nat) (gcdas : List Nat) (name : IName)
deriving DecidableEq, Repr

/-- flatten a stem-keyed map into (key, archive) pairs, in iteration order -/
def flat {κ α : Type} (m : List (κ × List α)) : List (κ × α) :=
  m.flatMap fun p => p.2.map fun a => (p.1, a)

/-- `file_content_producer` -/
def fileContentItems (fmt : Fmt) (m : List (Name × List Arch)) : List Item :=
  (flat m).filterMap fun p => (p.2.read p.1).map fun cid => Item.content fmt cid (.arch p.2.label)

/-- `llvm_format_producer`: nothing for an empty map, otherwise ONE item with every path. A plain
file is passed as it is; otherwise the profile is extracted to `tmp_dir/<stem>_<num>.<ext>`
(the path is pushed even when the extraction found nothing). -/
def llvmItems (fmt : Fmt) (m : List (Name × List Arch)) : List Item :=
  if m.isEmpty then [] else [Item.paths fmt ((flat m).map fun p => p.2.read p.1) .ext]

def dotGcno : Name := 46 :: bGcno
def dotGcda : Name := 46 :: bGcda

/-- GCC mode, gcno stem with gcda archives: the gcno is extracted to `<stem>_1.gcno` and hard-linked
to `<stem>_<n>.gcno`; per gcda archive `n` the gcda is extracted to `<stem>_<n>.gcda` and an item is
sent when that worked, or for the first archive when orphans are not ignored. -/
def gccPairs (ignoreOrphan : Bool) (stem : Name) (ga : Arch) (first : Bool) :
    List Arch → List Item
  | [] => []
  | d :: ds =>
    (if d.extractOk (stem ++ dotGcda) || (first && !ignoreOrphan)
     then [Item.gcnoPath stem (ga.read (stem ++ dotGcno))
             (if d.extractOk (stem ++ dotGcda) then d.read (stem ++ dotGcda) else none)
             (.arch d.label)]
     else []) ++ gccPairs ignoreOrphan stem ga false ds

/-- the body of the `for (gcno_stem, gcno_archive) in gcno_stem_archives` loop -/
def gcnoPerKey (ignoreOrphan : Bool) (k : Name × Bool) (ga : Arch)
    (gcdas : Option (List Arch)) : List Item :=
  match gcdas with
  | some ds =>
    if k.2 then
      match ga.read (k.1 ++ dotGcno) with
      | some g => [Item.gcnoBuf k.1 g (ds.filterMap fun d => d.read (k.1 ++ dotGcda)) .empty]
      | none => []
    else gccPairs ignoreOrphan k.1 ga true ds
  | none =>
    if ignoreOrphan then []
    else if k.2 then
      match ga.read (k.1 ++ dotGcno) with
      | some g => [Item.gcnoBuf k.1 g [] (.arch ga.label)]
      | none => []
    else if ga.extractOk (k.1 ++ dotGcno) then
      [Item.gcnoPath k.1 (ga.read (k.1 ++ dotGcno)) none (.arch ga.label)]
    else []

/-- `gcno_gcda_producer` -/
def gcnoItems (ignoreOrphan : Bool) (gcno : List ((Name × Bool) × Arch))
    (gcda : List (Name × List Arch)) : List Item :=
  gcno.flatMap fun p => gcnoPerKey ignoreOrphan p.1 p.2 (AList.get? gcda p.1.1)

/-- `get_mapping`: the code reads the FIRST entry of a hash map; every entry is a candidate. -/
def mapCands (lm : List (Name × Arch)) : List Nat :=
  lm.filterMap fun p => p.2.read p.1

/-! ## `producer()` -/

inductive Arg
  | dir (label : Nat) (files : List File)
  | zip (label : Nat) (files : List File)
  | plain (f : File)
deriving DecidableEq, Repr

/-- a non-directory, non-zip argument must be `.info .json .xml .profraw .profdata` -/
def plainOk (f : File) : Bool :=
  match splitExt f.path with
  | some (_, e) => e = bInfo || e = bJson || e = bXml || e = bProfraw || e = bProfdata
  | none => false

def Arg.bad : Arg → Bool
  | .plain f => !plainOk f
  | _ => false

def Arg.toArch? : Arg → Option Arch
  | .dir l fs => some ⟨.arg l, .dir, fs⟩
  | .zip l fs => some ⟨.arg l, .zip, fs⟩
  | .plain _ => none

def Arg.plainFile? : Arg → Option File
  | .plain f => some f
  | _ => none

/-- directories and zips in argument order, then – if there is any plain file – ONE archive
`"plain files"` holding all of them -/
def archives (args : List Arg) : List Arch :=
  args.filterMap Arg.toArch? ++
    (if (args.filterMap Arg.plainFile?).isEmpty then []
     else [⟨.plain, .plain, args.filterMap Arg.plainFile?⟩])

structure Opts where
  ignoreOrphan : Bool
  isLlvm : Bool
deriving DecidableEq, Repr

inductive Outcome
  | ok (items : List Item) (mapping : List Nat)
  | panicBadArg
  | panicNoInput
deriving DecidableEq, Repr

def Maps.noInput (m : Maps) : Bool :=
  m.gcno.isEmpty && m.profdata.isEmpty && m.profraw.isEmpty && m.infos.isEmpty && m.xmls.isEmpty

def run (o : Opts) (args : List Arg) : Outcome :=
  if args.any Arg.bad then .panicBadArg
  else
    let m := explore o.isLlvm (archives args)
    if m.noInput then .panicNoInput
    else
      .ok (fileContentItems .info m.infos ++ fileContentItems .jacocoXml m.xmls
            ++ llvmItems .profdata m.profdata ++ llvmItems .profraw m.profraw
            ++ gcnoItems o.ignoreOrphan m.gcno m.gcda)
          (mapCands m.lmaps)

/-! ## Observables and the closed form -/

def insertNat (x : Nat) : List Nat → List Nat
  | [] => [x]
  | y :: ys => if x ≤ y then x :: y :: ys else y :: insertNat x ys

/-- insertion sort (structural, so that closed examples evaluate in the kernel) -/
def sortNat : List Nat → List Nat
  | [] => []
  | x :: xs => insertNat x (sortNat xs)

/-- What the rest of the pipeline can see of an item: no archive name, buffer lists as multisets. -/
inductive Obs
  | content (fmt : Fmt) (cid : Nat)
  | paths (fmt : Fmt) (cids : List Nat) (missing : Nat)
  | gcnoPath (stem : Name) (gcno : Option Nat) (gcda : Option Nat)
  | gcnoBuf (stem : Name) (gcno : Nat) (gcdas : List Nat)
deriving DecidableEq, Repr

def Item.obs : Item → Obs
  | .content fmt c _ => .content fmt c
  | .paths fmt cs _ => .paths fmt (sortNat (cs.filterMap id)) (cs.filter Option.isNone).length
  | .gcnoPath s g d _ => .gcnoPath s g d
  | .gcnoBuf s g ds _ => .gcnoBuf s g (sortNat ds)

/-- an artifact: what a file is (after classification) and its content -/
structure Art where
  cls : Cls
  cid : Nat
deriving DecidableEq, Repr

def artsOfArchs (isLlvm : Bool) (archs : List Arch) : List Art :=
  (entries archs).map fun p => ⟨classify isLlvm p.2, p.2.cid⟩

/-- the artifacts of a layout, in exploration order -/
def arts (isLlvm : Bool) (args : List Arg) : List Art := artsOfArchs isLlvm (archives args)

def cidsOf (c : Cls) (as : List Art) : List Nat := (as.filter fun a => a.cls = c).map (·.cid)

def gcnoKeyCid (a : Art) : Option ((Name × Bool) × Nat) :=
  match a.cls with
  | .gcno s l => some ((s, l), a.cid)
  | _ => none

/-- per (stem, llvm) key the content of the LAST gcno with that key, keys in first-seen order -/
def gcnoTable (as : List Art) : List ((Name × Bool) × Nat) :=
  (as.filterMap gcnoKeyCid).foldl (fun m x => AList.set m x.1 x.2) []

def profObs (fmt : Fmt) (c : Cls) (as : List Art) : List Obs :=
  if (cidsOf c as).isEmpty then [] else [.paths fmt (sortNat (cidsOf c as)) 0]

/-- what one gcno (key `k`, content `g`) yields given the contents `ds` of the gcda files with its
stem -/
def gcnoObs (ignoreOrphan : Bool) (k : Name × Bool) (g : Nat) (ds : List Nat) : List Obs :=
  if ds.isEmpty then
    if ignoreOrphan then [] else if k.2 then [.gcnoBuf k.1 g []] else [.gcnoPath k.1 (some g) none]
  else if k.2 then [.gcnoBuf k.1 g (sortNat ds)]
  else ds.map fun d => .gcnoPath k.1 (some g) (some d)

/-- The item multiset as a function of the artifact list alone. -/
def closed (o : Opts) (as : List Art) : List Obs :=
  (cidsOf .info as).map (Obs.content .info) ++ (cidsOf .xml as).map (Obs.content .jacocoXml)
    ++ profObs .profdata .profdata as ++ profObs .profraw .profraw as
    ++ (gcnoTable as).flatMap fun p => gcnoObs o.ignoreOrphan p.1 p.2 (cidsOf (.gcda p.1.1) as)

def Art.usable (a : Art) : Bool :=
  match a.cls with
  | .gcno _ _ | .profdata | .profraw | .info | .xml => true
  | _ => false

/-- inside every archive a path names one file -/
def WF (args : List Arg) : Prop :=
  ∀ a ∈ archives args, ∀ f ∈ a.files, ∀ g ∈ a.files, f.path = g.path → f = g

/-- two gcno artifacts with the same (stem, llvm) key have the same content -/
def GcnoConsistent (as : List Art) : Prop :=
  ∀ x ∈ as.filterMap gcnoKeyCid, ∀ y ∈ as.filterMap gcnoKeyCid, x.1 = y.1 → x.2 = y.2

/-! ## Classification of the command-line arguments (producer.rs 497-533)

`Arg` above is an argument AFTER classification. The code decides, per argument string:
`path.ends_with(".zip")` – a byte-suffix test on the whole argument string, case sensitive, before
the file system is looked at – ⇒ zip archive (`open_archive`: panics when the file cannot be opened
or is not a zip, e.g. a DIRECTORY called `x.zip`); otherwise `full_path.is_dir()` ⇒ directory;
otherwise `Path::extension` of the (absolute) path must be one of `info json xml profraw profdata`
⇒ plain file; any other extension (also `ZIP`, `jar`) ⇒ panic "Cannot load file … it isn't a .info,
a .json or a .xml file"; no extension ⇒ panic "… it isn't a directory, a .info, a .json or a .xml
file". The file-system facts are parameters. -/

def bDotZip : Name := [46, 122, 105, 112]    -- .zip

/-- `str::ends_with` -/
def endsWith (s suf : Name) : Bool := suf.isSuffixOf s

inductive ArgClass
  | zip | dir | plain
  | panicBadExt   -- "Cannot load file …: it isn't a .info, a .json or a .xml file."
  | panicNoExt    -- "Cannot load file …: it isn't a directory, a .info, a .json or a .xml file."
deriving DecidableEq, Repr

/-- what `Path::extension` of a non-directory argument means (lines 516-533) -/
def extClass (full : Name) : ArgClass :=
  match splitExt full with
  | some (_, e) =>
    if e = bInfo || e = bJson || e = bXml || e = bProfraw || e = bProfdata then .plain
    else .panicBadExt
  | none => .panicNoExt

/-- `path`: the argument string; `full`: `current_dir.join(path)` (the argument itself when it is
absolute); `isDir`: `full_path.is_dir()` -/
def classifyArg (path full : Name) (isDir : Bool) : ArgClass :=
  if endsWith path bDotZip then .zip
  else if isDir then .dir
  else extClass full

/-- a command-line argument with the file-system facts `producer()` consults -/
structure RawArg where
  label : Nat
  /-- the argument string -/
  path : Name
  /-- the absolute path the code works with -/
  full : Name
  isDir : Bool
  /-- `File::open` + `ZipArchive::new` succeed (only looked at when the string ends in `.zip`) -/
  zipOk : Bool
  /-- the entries (zip), the files below it (directory) -/
  files : List File
  /-- the file itself (plain argument): absolute path, head, content id -/
  self : File
deriving DecidableEq, Repr

inductive ArgPanic
  | zipOpen      -- "Failed to open ZIP file" / "Failed to parse ZIP file"
  | badExt
  | noExt
deriving DecidableEq, Repr

/-- one iteration of the `for path in paths` loop -/
def RawArg.toArg (r : RawArg) : Except ArgPanic Arg :=
  match classifyArg r.path r.full r.isDir with
  | .zip => if r.zipOk then .ok (.zip r.label r.files) else .error .zipOpen
  | .dir => .ok (.dir r.label r.files)
  | .plain => .ok (.plain r.self)
  | .panicBadExt => .error .badExt
  | .panicNoExt => .error .noExt

/-- the loop: the first argument that panics decides -/
def classifyAll : List RawArg → Except ArgPanic (List Arg)
  | [] => .ok []
  | r :: rs =>
    match r.toArg with
    | .error e => .error e
    | .ok a =>
      match classifyAll rs with
      | .error e => .error e
      | .ok as => .ok (a :: as)

/-- `producer()` from the raw arguments -/
def runRaw (o : Opts) (raws : List RawArg) : Except ArgPanic Outcome :=
  match classifyAll raws with
  | .error e => .error e
  | .ok args => .ok (run o args)

end Grcov.Producer
