/-
Model of `parse_jacoco_xml_report` and its helpers (src/parser.rs, `get_xml_attribute` …
`parse_jacoco_xml_report`) at the level of quick-xml *events*, and of `Archive::is_jacoco`
(src/producer.rs).

The input of the model is the finite sequence of events `Reader::read_event_into` yields before
its first `Event::Eof`; once the sequence is exhausted every further read is `Eof` again (that is
what quick-xml does). `Event::Empty` never reaches the Rust loops because the reader is configured
with `expand_empty_elements = true`: the model expands `empty` first (`expand`).
`bad` stands for an `Err(_)` returned by the tokenizer (syntax error, mismatched end tag).

The four nested loops are written as in the Rust code, one fuelled function per loop; each
iteration costs one unit of the loop's own fuel. Since commit 34e25d5 every nested loop has an
`Event::Eof` arm (end of input inside an element ⇒ `ParserError::Parse`), so every iteration
either consumes an event or returns: `diverge` is only the outcome of too little fuel, and fuel
`> (expand evs).length` is always enough (`C10_always_terminates`, Props/C10.lean).

Attribute values are the raw bytes between the quotes. Since /repo ae885a6 both attribute loops
iterate with `.attributes().with_checks(false)`: quick-xml no longer compares every key with the
earlier keys of the element (that check was quadratic in the attributes of one element, review
item 11), so a REPEATED key is not an error any more. `get_xml_attribute` stops at the FIRST key
that matches and unescapes its value (`unescape`: the five predefined entities and numeric
character references); the `<line>` loop runs over all attributes, so the LAST `ci`/`cb`/`mb`/`nr`
wins. What remains an error of the iterator is a SYNTAX error inside the start tag (no `=`, no
quotes, an unterminated value): `Some(Err(AttrError))`, which `a?` turns into
`ParserError::Parse` when the iteration reaches it. The model keeps the event type and encodes
such an item as an attribute with the EMPTY key (`isAttrErr`): a real attribute has a key of at
least one byte (quick-xml's `IterState::next` starts a key at a non-blank byte), so the two cannot
be confused; `Jacoco.Bytes.splitAttrs` produces it.
Per element the work is linear: `attrWork` counts the attributes the iterator yields for the
look-ups of one element; it is at most (look-ups) × (attributes), look-ups ≤ 2
(`C10_attribute_work_linear`).
Names are byte lists; the harness only sends valid UTF-8 (the `Decoder` check is outside the model).

Crash sites. The two `expect`s of the `class` arm (`split('/').next_back()`, `split('$').next()`)
cannot fail: `str::split` always yields at least one piece. The ONE site that can crash is the
branch arm of `parse_jacoco_report_sourcefile`:

    let mut v = vec![true; cb as usize];
    v.extend(vec![false; mb as usize]);

`cb`/`mb` are any `u64` the attribute holds. A request above `isize::MAX` bytes (`cb`, `mb` or, in
`extend`'s `reserve`, `cb + mb`) panics with "capacity overflow"; a smaller request the allocator
cannot serve aborts the process (`handle_alloc_error`). Both are the outcome `alloc` of the model:
it is produced when `cb + mb` exceeds the parameter `cap` (the largest vector the machine can
build, at most `allocMax = isize::MAX`). With `cap = allocMax` the outcome is exactly the
"capacity overflow" panic; `parse` is `parseCap allocMax`. Below `cap` the vector is
`List.replicate` and its size is not bounded by the input size (finding
C14-jacoco-branch-vector-alloc / DESIGN §7 item 9). What the parameter abstracts away: memory
used up by MANY lines each below `cap` (measured by the C14 runs, not modelled).
-/
import GrcovModel.Merge
namespace Grcov.Jacoco
open Grcov AList

abbrev Attr := Name × Name

inductive XmlEvent where
  | start (name : Name) (attrs : List Attr)
  | empty (name : Name) (attrs : List Attr)
  | end_ (name : Name)
  | text
  | other        -- Decl, DocType, Comment, CData, PI
  | bad          -- `Err(e)` from `read_event_into`
deriving DecidableEq, Repr

/-- the `ParserError` variants this code can return -/
inductive ErrKind where
  | parse | invalidRecord
deriving DecidableEq, Repr

inductive Outcome (α : Type) where
  | ok (a : α)
  | err (k : ErrKind)
  /-- `vec![true; cb]` / `extend(vec![false; mb])` asked for more than the machine gives:
  "capacity overflow" panic (above `isize::MAX`) or allocation abort -/
  | alloc
  | diverge
deriving DecidableEq, Repr

/-- `isize::MAX` on the 64-bit targets: no `Vec<bool>` can be longer -/
def allocMax : Nat := 9223372036854775807

/-! ### names used by the parser (ASCII bytes) -/

def sPackage : Name := [112, 97, 99, 107, 97, 103, 101]
def sClass : Name := [99, 108, 97, 115, 115]
def sSourcefile : Name := [115, 111, 117, 114, 99, 101, 102, 105, 108, 101]
def sMethod : Name := [109, 101, 116, 104, 111, 100]
def sLine : Name := [108, 105, 110, 101]
def sCounter : Name := [99, 111, 117, 110, 116, 101, 114]
def sName : Name := [110, 97, 109, 101]
def sSourcefilename : Name := [115, 111, 117, 114, 99, 101, 102, 105, 108, 101, 110, 97, 109, 101]
def sType : Name := [116, 121, 112, 101]
def sCovered : Name := [99, 111, 118, 101, 114, 101, 100]
def sMETHOD : Name := [77, 69, 84, 72, 79, 68]
def sCi : Name := [99, 105]
def sCb : Name := [99, 98]
def sMb : Name := [109, 98]
def sNr : Name := [110, 114]
def sDotJava : Name := [46, 106, 97, 118, 97]
def cSlash : Nat := 47
def cDollar : Nat := 36
def cHash : Nat := 35
def cColon : Nat := 58

/-! ### quick-xml pieces -/

/-- `expand_empty_elements = true`: `<a/>` is delivered as `Start(a)` then `End(a)` -/
def expand : List XmlEvent → List XmlEvent
  | [] => []
  | .empty n a :: r => .start n a :: .end_ n :: expand r
  | e :: r => e :: expand r

/-- `QName::local_name`: what follows the first `:` (the whole name when there is none) -/
def localName (n : Name) : Name :=
  match n.dropWhile (· ≠ cColon) with
  | [] => n
  | _ :: r => r

def isDigit (b : Nat) : Bool := 48 ≤ b && b ≤ 57

def hexVal (b : Nat) : Option Nat :=
  if 48 ≤ b ∧ b ≤ 57 then some (b - 48)
  else if 97 ≤ b ∧ b ≤ 102 then some (b - 87)
  else if 65 ≤ b ∧ b ≤ 70 then some (b - 55)
  else none

/-- digits of an unsigned number in a type with maximum `bound`; `none` = `ParseIntError` -/
def parseDigits (bound : Nat) : Nat → List Nat → Option Nat
  | acc, [] => some acc
  | acc, d :: r =>
    if isDigit d then
      let v := acc * 10 + (d - 48)
      if v ≤ bound then parseDigits bound v r else none
    else none

/-- `str::parse::<u32/u64>`: optional `+`, at least one digit, no overflow -/
def parseUnsigned (bound : Nat) (s : List Nat) : Option Nat :=
  match s with
  | [] => none
  | 43 :: r => if r.isEmpty then none else parseDigits bound 0 r
  | _ => parseDigits bound 0 s

def parseHexDigits (bound : Nat) : Nat → List Nat → Option Nat
  | acc, [] => some acc
  | acc, d :: r =>
    match hexVal d with
    | some x =>
      let v := acc * 16 + x
      if v ≤ bound then parseHexDigits bound v r else none
    | none => none

/-- `char::encode_utf8` -/
def encodeUtf8 (c : Nat) : List Nat :=
  if c < 0x80 then [c]
  else if c < 0x800 then [0xC0 + c / 64, 0x80 + c % 64]
  else if c < 0x10000 then [0xE0 + c / 4096, 0x80 + c / 64 % 64, 0x80 + c % 64]
  else [0xF0 + c / 262144, 0x80 + c / 4096 % 64, 0x80 + c / 64 % 64, 0x80 + c % 64]

/-- escape.rs `parse_number`: `#` already stripped; no sign, `u32`, not 0, a valid `char` -/
def charRef (s : List Nat) : Option (List Nat) :=
  let code : Option Nat :=
    match s with
    | 120 :: h =>   -- 'x'
      (match h with
       | [] => none
       | 43 :: _ => none
       | 45 :: _ => none
       | _ => parseHexDigits U32MAX 0 h)
    | [] => none
    | 43 :: _ => none
    | 45 :: _ => none
    | _ => parseDigits U32MAX 0 s
  match code with
  | none => none
  | some c =>
    if c = 0 then none
    else if 0xD800 ≤ c ∧ c ≤ 0xDFFF then none
    else if c > 0x10FFFF then none
    else some (encodeUtf8 c)

/-- what stands between `&` and `;` -/
def resolveEntity (e : List Nat) : Option (List Nat) :=
  match e with
  | 35 :: num => charRef num                        -- '#'
  | [108, 116] => some [60]                         -- lt
  | [103, 116] => some [62]                         -- gt
  | [97, 109, 112] => some [38]                     -- amp
  | [97, 112, 111, 115] => some [39]                -- apos
  | [113, 117, 111, 116] => some [34]               -- quot
  | _ => none

/-- escape.rs `unescape_with`: `ent = some acc` while between `&` and `;` (acc reversed).
`&` inside an entity and end of input inside an entity are `UnterminatedEntity`. -/
def unescapeGo : Option (List Nat) → List Nat → Option (List Nat)
  | none, [] => some []
  | some _, [] => none
  | none, c :: r =>
    if c = 38 then unescapeGo (some []) r
    else (unescapeGo none r).map (c :: ·)
  | some acc, c :: r =>
    if c = 59 then
      match resolveEntity acc.reverse with
      | some bs => (unescapeGo none r).map (bs ++ ·)
      | none => none
    else if c = 38 then none
    else unescapeGo (some (c :: acc)) r

def unescape (raw : List Nat) : Option (List Nat) := unescapeGo none raw

/-! ### `get_xml_attribute` and the `<line>` attribute loop -/

/-- the attribute iterator's `Some(Err(AttrError))` item (a syntax error inside the start tag),
encoded as an attribute with an empty key – see the header -/
def isAttrErr (a : Attr) : Bool := a.1.isEmpty

/-- parser.rs `get_xml_attribute` (`.attributes().with_checks(false)`): the first attribute whose
key matches; an iterator error met before it is `Parse`; no repeated-key check -/
def getAttrAux (key : Name) : List Attr → Except ErrKind Name
  | [] => .error .invalidRecord
  | (k, v) :: rest =>
    if k = [] then .error .parse                     -- `let a = a?;` on `Err(AttrError)`
    else if k = key then
      match unescape v with
      | some s => .ok s
      | none => .error .parse                        -- EscapeError
    else getAttrAux key rest

def getAttr (key : Name) (attrs : List Attr) : Except ErrKind Name := getAttrAux key attrs

structure LineAcc where
  ci : Option Nat := none
  cb : Option Nat := none
  mb : Option Nat := none
  nr : Option Nat := none
deriving DecidableEq, Repr

/-- the `for a in e.attributes().with_checks(false)` loop of `parse_jacoco_report_sourcefile` (raw
values, not unescaped): every attribute is visited, a repeated `ci`/`cb`/`mb`/`nr` overwrites -/
def lineAttrs : List Attr → LineAcc → Except ErrKind LineAcc
  | [], acc => .ok acc
  | (k, v) :: rest, acc =>
    if k = [] then .error .parse
    else if k = sCi then
      match parseUnsigned U64MAX v with
      | some n => lineAttrs rest { acc with ci := some n }
      | none => .error .parse
    else if k = sCb then
      match parseUnsigned U64MAX v with
      | some n => lineAttrs rest { acc with cb := some n }
      | none => .error .parse
    else if k = sMb then
      match parseUnsigned U64MAX v with
      | some n => lineAttrs rest { acc with mb := some n }
      | none => .error .parse
    else if k = sNr then
      match parseUnsigned U32MAX v with
      | some n => lineAttrs rest { acc with nr := some n }
      | none => .error .parse
    else lineAttrs rest acc

/-- attributes the iterator yields while `get_xml_attribute(.., key)` runs: up to and including
the first match (or the first iterator error) -/
def getAttrWork (key : Name) : List Attr → Nat
  | [] => 0
  | (k, _) :: rest => if k = [] ∨ k = key then 1 else 1 + getAttrWork key rest

/-- attributes the `<line>` loop visits: up to and including the first one it rejects -/
def lineAttrsWork : List Attr → Nat
  | [] => 0
  | (k, v) :: rest =>
    if k = [] then 1
    else if k = sCi ∨ k = sCb ∨ k = sMb then
      (match parseUnsigned U64MAX v with
       | some _ => 1 + lineAttrsWork rest
       | none => 1)
    else if k = sNr then
      (match parseUnsigned U32MAX v with
       | some _ => 1 + lineAttrsWork rest
       | none => 1)
    else 1 + lineAttrsWork rest

/-- the look-ups the parser makes on one start tag, by the loop that reads it: `<package>` name;
`<class>` name, sourcefilename; `<sourcefile>` name; `<method>` name, line; `<counter>` type,
covered; `<line>` one pass -/
def attrWork (keys : List Name) (attrs : List Attr) : Nat :=
  (keys.map fun k => getAttrWork k attrs).sum

structure SrcAcc where
  lines : List (Nat × Nat) := []
  branches : List (Nat × List Bool) := []
deriving DecidableEq, Repr

/-- body of the `line` arm after the attribute loop: the four `try_att`, then branch or statement.
`cap`: the longest vector `vec![true; cb]` + `extend(vec![false; mb])` can build (see the header) -/
def commitLine (cap : Nat) (acc : SrcAcc) (a : LineAcc) : Outcome SrcAcc :=
  match a.ci, a.cb, a.mb, a.nr with
  | some ci, some cb, some mb, some nr =>
    if mb > 0 ∨ cb > 0 then
      if cb + mb > cap then .alloc
      else .ok { acc with branches := set acc.branches nr (List.replicate cb true ++ List.replicate mb false) }
    else
      .ok { acc with lines := set acc.lines nr (if ci > 0 then 1 else 0) }
  | _, _, _, _ => .err .invalidRecord

/-! ### the loops -/

/-- `parse_jacoco_report_sourcefile` (`Eof` ⇒ `Parse` error) -/
def sourcefileLoop (cap : Nat) : Nat → List XmlEvent → SrcAcc → Outcome (SrcAcc × List XmlEvent)
  | 0, _, _ => .diverge
  | _ + 1, [], _ => .err .parse              -- `Ok(Event::Eof) => return Err(Parse("unexpected end of file"))`
  | fuel + 1, e :: r, acc =>
    match e with
    | .start n a =>
      if localName n = sLine then
        match lineAttrs a {} with
        | .ok la =>
          (match commitLine cap acc la with
           | .ok acc' => sourcefileLoop cap fuel r acc'
           | .err k => .err k
           | .alloc => .alloc
           | .diverge => .diverge)
        | .error k => .err k
      else sourcefileLoop cap fuel r acc
    | .end_ n => if localName n = sSourcefile then .ok (acc, r) else sourcefileLoop cap fuel r acc
    | .bad => .err .parse
    | _ => sourcefileLoop cap fuel r acc

/-- `parse_jacoco_report_method` (`Eof` ⇒ `Parse` error); the state is `executed` -/
def methodLoop : Nat → List XmlEvent → Bool → Outcome (Bool × List XmlEvent)
  | 0, _, _ => .diverge
  | _ + 1, [], _ => .err .parse              -- `Ok(Event::Eof) => return Err(Parse("unexpected end of file"))`
  | fuel + 1, e :: r, ex =>
    match e with
    | .start n a =>
      if localName n = sCounter then
        match getAttr sType a with
        | .ok t =>
          if t = sMETHOD then
            match getAttr sCovered a with
            | .ok c =>
              (match parseUnsigned U32MAX c with
               | some v => methodLoop fuel r (decide (v > 0))
               | none => .err .parse)
            | .error k => .err k
          else methodLoop fuel r ex
        | .error k => .err k
      else methodLoop fuel r ex
    | .end_ n => if localName n = sMethod then .ok (ex, r) else methodLoop fuel r ex
    | .bad => .err .parse
    | _ => methodLoop fuel r ex

/-- `parse_jacoco_report_class` (`Eof` ⇒ `Parse` error) -/
def classLoop (cls : Name) : Nat → List XmlEvent → List (Name × Fn) → Outcome (List (Name × Fn) × List XmlEvent)
  | 0, _, _ => .diverge
  | _ + 1, [], _ => .err .parse              -- `Ok(Event::Eof) => return Err(Parse("unexpected end of file"))`
  | fuel + 1, e :: r, fns =>
    match e with
    | .start n a =>
      if localName n = sMethod then
        match getAttr sName a with
        | .ok name =>
          (match getAttr sLine a with
           | .ok l =>
             (match parseUnsigned U32MAX l with
              | some startLine =>
                (match methodLoop fuel r false with
                 | .ok (ex, r') => classLoop cls fuel r' (set fns (cls ++ cHash :: name) ⟨startLine, ex⟩)
                 | .err k => .err k
                 | .alloc => .alloc
                 | .diverge => .diverge)
              | none => .err .parse)
           | .error k => .err k)
        | .error k => .err k
      else classLoop cls fuel r fns
    | .end_ n => if localName n = sClass then .ok (fns, r) else classLoop cls fuel r fns
    | .bad => .err .parse
    | _ => classLoop cls fuel r fns

/-- `s.split(sep).next_back()` -/
def afterLast (sep : Nat) (s : Name) : Name :=
  s.foldl (fun acc c => if c = sep then [] else acc ++ [c]) []

/-- `s.split(sep).next()` -/
def beforeFirst (sep : Nat) (s : Name) : Name := s.takeWhile (· ≠ sep)

/-- `HashMap::extend` / repeated `insert` -/
def setAll {κ α : Type} [DecidableEq κ] (m : List (κ × α)) (kvs : List (κ × α)) : List (κ × α) :=
  kvs.foldl (fun m kv => set m kv.1 kv.2) m

/-- the `class` arm of the package loop once the class body has been read -/
def addClass (m : List (Name × Cov)) (file : Name) (fns : List (Name × Fn)) : List (Name × Cov) :=
  match get? m file with
  | some cov => set m file { cov with functions := setAll cov.functions fns }
  | none => set m file { functions := fns }

/-- the `sourcefile` arm of the package loop once the body has been read -/
def addSource (m : List (Name × Cov)) (file : Name) (s : SrcAcc) : List (Name × Cov) :=
  match get? m file with
  | some cov => set m file { cov with lines := s.lines, branches := s.branches }
  | none => set m file { lines := s.lines, branches := s.branches }

/-- `format!("{}/{}", package, file).trim_start_matches('/')` -/
def outPath (package file : Name) : Name := (package ++ cSlash :: file).dropWhile (· = cSlash)

/-- `match get_xml_attribute(.., "sourcefilename") { Ok(f) => f, Err(InvalidRecord(_)) =>
format!("{}.java", top_class), Err(e) => return Err(e) }` (since /repo 276971e; before,
`.unwrap_or(..)` swallowed every error): an ABSENT attribute selects the fallback, an attribute that
is there but cannot be read (attribute syntax error before it, bad entity; in the real code also a
value that is not valid UTF-8) rejects the report -/
def sourceFileOf (a : List Attr) (top : Name) : Except ErrKind Name :=
  match getAttr sSourcefilename a with
  | .ok f => .ok f
  | .error .invalidRecord => .ok (top ++ sDotJava)
  | .error k => .error k

/-- `parse_jacoco_report_package` (`Eof` ⇒ `Parse` error); the state is `results_map` in insertion order
(the real order is the `FxHashMap` iteration order: results are compared as sorted lists) -/
def packageLoop (cap : Nat) (package : Name) : Nat → List XmlEvent → List (Name × Cov) →
    Outcome (List (Name × Cov) × List XmlEvent)
  | 0, _, _ => .diverge
  | _ + 1, [], _ => .err .parse              -- `Ok(Event::Eof) => return Err(Parse("unexpected end of file"))`
  | fuel + 1, e :: r, m =>
    match e with
    | .start n a =>
      if localName n = sClass then
        match getAttr sName a with
        | .ok fq =>
          let cls := afterLast cSlash fq
          let top := beforeFirst cDollar cls
          (match sourceFileOf a top with
           | .ok file =>
             (match classLoop cls fuel r [] with
              | .ok (fns, r') => packageLoop cap package fuel r' (addClass m file fns)
              | .err k => .err k
              | .alloc => .alloc
              | .diverge => .diverge)
           | .error k => .err k)
        | .error k => .err k
      else if localName n = sSourcefile then
        match getAttr sName a with
        | .ok file =>
          (match sourcefileLoop cap fuel r {} with
           | .ok (s, r') => packageLoop cap package fuel r' (addSource m file s)
           | .err k => .err k
           | .alloc => .alloc
           | .diverge => .diverge)
        | .error k => .err k
      else packageLoop cap package fuel r m
    | .end_ n =>
      if localName n = sPackage then .ok (m.map fun (f, c) => (outPath package f, c), r)
      else packageLoop cap package fuel r m
    | .bad => .err .parse
    | _ => packageLoop cap package fuel r m

/-- the loop of `parse_jacoco_xml_report`: `Eof` ends it normally -/
def reportLoop (cap : Nat) : Nat → List XmlEvent → List (Name × Cov) → Outcome (List (Name × Cov))
  | 0, _, _ => .diverge
  | _ + 1, [], res => .ok res
  | fuel + 1, e :: r, res =>
    match e with
    | .start n a =>
      if localName n = sPackage then
        match getAttr sName a with
        | .ok package =>
          (match packageLoop cap package fuel r [] with
           | .ok (pr, r') => reportLoop cap fuel r' (res ++ pr)
           | .err k => .err k
           | .alloc => .alloc
           | .diverge => .diverge)
        | .error k => .err k
      else reportLoop cap fuel r res
    | .bad => .err .parse
    | _ => reportLoop cap fuel r res

/-- `parse_jacoco_xml_report` on the event sequence `evs`, on a machine whose longest branch
vector is `cap` -/
def parseCap (cap : Nat) (evs : List XmlEvent) (fuel : Nat) : Outcome (List (Name × Cov)) :=
  reportLoop cap fuel (expand evs) []

/-- `parse_jacoco_xml_report` with only the language's own limit (`isize::MAX`): `alloc` is then
exactly the "capacity overflow" panic -/
def parse (evs : List XmlEvent) (fuel : Nat) : Outcome (List (Name × Cov)) :=
  parseCap allocMax evs fuel

/-- fuel that is enough whenever the real parser returns (`C10_termination`, `C10_fidelity`) -/
def enoughFuel (evs : List XmlEvent) : Nat := 2 * evs.length + 1

/-! ### `Archive::is_jacoco` (producer.rs) -/

def isPrefixOf' : List Nat → List Nat → Bool
  | [], _ => true
  | _ :: _, [] => false
  | a :: as, b :: bs => a == b && isPrefixOf' as bs

def containsSub (pat : List Nat) : List Nat → Bool
  | [] => pat.isEmpty
  | b :: bs => isPrefixOf' pat (b :: bs) || containsSub pat bs

/-- the bytes of the JaCoCo DTD public-identifier fragment (dash, two slashes, JACOCO, two slashes, DTD) -/
def jacocoMarker : List Nat := [45, 47, 47, 74, 65, 67, 79, 67, 79, 47, 47, 68, 84, 68]

/-- producer.rs `is_jacoco` (since 82d1c8b): up to 256 bytes are read (`take(256).read_to_end`,
a shorter file is read whole) and the marker must occur in them; no UTF-8 requirement -/
def isJacoco (file : List Nat) : Bool := containsSub jacocoMarker (file.take 256)

end Grcov.Jacoco
