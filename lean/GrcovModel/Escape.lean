/-
Escape — the model of the three third-party escaping routines that stand between grcov's names /
source text and its reports, and of the readers on the other side.

Encoders (the code under test, byte for byte):
* `xmlAttr`   quick-xml 0.37.4 `escape::escape`        (`< > & ' "`), used by
              `BytesStart::push_attribute` (events/attributes.rs 184/209) – every cobertura attribute;
* `xmlText`   `BytesText::new` (events/mod.rs 555) – it calls the same full `escape`, not the
              partial one: the `<source>` text of cobertura.rs 393;
* `xmlPartial` quick-xml `partial_escape` (`< > &`) – not used by grcov, kept for the tie;
* `jsonStr`   serde_json 1.0.140 `format_escaped_str_contents` + `ESCAPE` table (ser.rs 2091-2156):
              `"` `\` and the C0 controls (`\b \t \n \f \r`, `\u00XX` otherwise);
* `html`      Tera 1.20.0 `utils::escape_html` (`& < > " ' /`) – every `{{ … }}` of a `*.html`
              template that is not marked `| safe`.
All five only ever replace ASCII bytes, so the model works on UTF-8 *bytes* (`List Nat`): a
multi-byte character passes through untouched (Tera iterates `char`s; the tie checks that this is
the same thing).

Readers (what a parser on the consuming side does):
* `unescapeEnt`  entity / character-reference resolution as quick-xml's `unescape` and every XML
                 parser do it (strict: unknown or unterminated entity ⇒ failure);
* `scanAttr`     reads an XML attribute value up to the closing `"` as a conforming parser does
                 (the same reader as `Writers.CobBytes.readAttrValue`, which is tied to expat):
                 fails on a raw `<`, normalises line ends (XML 1.0 §2.11), turns literal TAB/LF
                 into a space (§3.3.3), resolves entities, rejects what is not an XML `Char`
                 (C0 controls other than TAB/LF/CR, U+FFFE, U+FFFF: §2.2);
* `scanXmlText`  character data up to the next `<` (fails on a raw `]]>`; CR LF / CR read as LF;
                 non-`Char`s rejected) – `Writers.CobBytes.readText`;
* `scanHtmlAttr`, `scanHtmlText`  a double-quoted HTML attribute value and HTML text (newline
                 normalisation, character references; no `Char` check: HTML has none);
* `printable`, `textSafe`  the guards of the scan theorems (the property's quantifier);
* `scanJson`     reads a JSON string body up to the closing `"` (RFC 8259: escapes resolved, raw
                 control bytes rejected).
* the breadcrumb of templates/macros.html 15-17 and the row links of templates/index.html.
Core Lean only: this file is linked into the native driver `gm_c18`.
-/
namespace Grcov.Escape

abbrev Bytes := List Nat

/-! ## Encoders -/

/-- replace every byte that has an entry in `tab`, keep the others -/
def escapeWith (tab : Nat → Option Bytes) (s : Bytes) : Bytes :=
  s.flatMap fun b => (tab b).getD [b]

/-- quick-xml `escape`: the predicate `< > & ' "` and the `match` of `_escape` -/
def xmlAttrTab (b : Nat) : Option Bytes :=
  if b = 60 then some [38, 108, 116, 59]                   -- <  &lt;
  else if b = 62 then some [38, 103, 116, 59]              -- >  &gt;
  else if b = 39 then some [38, 97, 112, 111, 115, 59]     -- '  &apos;
  else if b = 38 then some [38, 97, 109, 112, 59]          -- &  &amp;
  else if b = 34 then some [38, 113, 117, 111, 116, 59]    -- "  &quot;
  else none

/-- quick-xml `partial_escape`: `< > &` -/
def xmlPartialTab (b : Nat) : Option Bytes :=
  if b = 60 then some [38, 108, 116, 59]
  else if b = 62 then some [38, 103, 116, 59]
  else if b = 38 then some [38, 97, 109, 112, 59]
  else none

/-- Tera `escape_html` -/
def htmlTab (b : Nat) : Option Bytes :=
  if b = 38 then some [38, 97, 109, 112, 59]               -- &  &amp;
  else if b = 60 then some [38, 108, 116, 59]              -- <  &lt;
  else if b = 62 then some [38, 103, 116, 59]              -- >  &gt;
  else if b = 34 then some [38, 113, 117, 111, 116, 59]    -- "  &quot;
  else if b = 39 then some [38, 35, 120, 50, 55, 59]       -- '  &#x27;
  else if b = 47 then some [38, 35, 120, 50, 70, 59]       -- /  &#x2F;
  else none

/-- `HEX_DIGITS = b"0123456789abcdef"` -/
def hexDigitLower (n : Nat) : Nat := if n < 10 then 48 + n else 87 + n

/-- serde_json `ESCAPE` table + `write_char_escape` -/
def jsonTab (b : Nat) : Option Bytes :=
  if b = 34 then some [92, 34]            -- \"
  else if b = 92 then some [92, 92]       -- \\
  else if b = 8 then some [92, 98]        -- \b
  else if b = 9 then some [92, 116]       -- \t
  else if b = 10 then some [92, 110]      -- \n
  else if b = 12 then some [92, 102]      -- \f
  else if b = 13 then some [92, 114]      -- \r
  else if b < 32 then some [92, 117, 48, 48, hexDigitLower (b / 16), hexDigitLower (b % 16)]
  else none

def xmlAttr (s : Bytes) : Bytes := escapeWith xmlAttrTab s
/-- `BytesText::new` calls the full `escape` -/
def xmlText (s : Bytes) : Bytes := escapeWith xmlAttrTab s
def xmlPartial (s : Bytes) : Bytes := escapeWith xmlPartialTab s
def html (s : Bytes) : Bytes := escapeWith htmlTab s
/-- the contents of a JSON string literal (without the surrounding quotes) -/
def jsonStr (s : Bytes) : Bytes := escapeWith jsonTab s

/-- the entities each encoder can emit -/
def xmlEntities : List Bytes :=
  [[38, 108, 116, 59], [38, 103, 116, 59], [38, 97, 112, 111, 115, 59], [38, 97, 109, 112, 59],
   [38, 113, 117, 111, 116, 59]]
def htmlEntities : List Bytes :=
  [[38, 97, 109, 112, 59], [38, 108, 116, 59], [38, 103, 116, 59], [38, 113, 117, 111, 116, 59],
   [38, 35, 120, 50, 55, 59], [38, 35, 120, 50, 70, 59]]

/-! ## Readers -/

/-- UTF-8 encoding of a scalar value -/
def utf8 (c : Nat) : Bytes :=
  if c < 128 then [c]
  else if c < 2048 then [192 + c / 64, 128 + c % 64]
  else if c < 65536 then [224 + c / 4096, 128 + c / 64 % 64, 128 + c % 64]
  else [240 + c / 262144, 128 + c / 4096 % 64, 128 + c / 64 % 64, 128 + c % 64]

def isSurrogate (c : Nat) : Bool := 55296 ≤ c && c ≤ 57343

def hexVal (b : Nat) : Option Nat :=
  if 48 ≤ b ∧ b ≤ 57 then some (b - 48)
  else if 97 ≤ b ∧ b ≤ 102 then some (b - 87)
  else if 65 ≤ b ∧ b ≤ 70 then some (b - 55)
  else none

def decVal (b : Nat) : Option Nat := if 48 ≤ b ∧ b ≤ 57 then some (b - 48) else none

/-- value of a non-empty digit string in the given radix (`u32::from_str_radix` without sign) -/
def parseRadix (digit : Nat → Option Nat) (radix : Nat) : Bytes → Option Nat
  | [] => none
  | d :: ds => (d :: ds).foldl (fun acc b => match acc, digit b with
      | some a, some v => some (a * radix + v)
      | _, _ => none) (some 0)

/-- quick-xml `parse_number`: not 0, a Unicode scalar value -/
def charRef (c : Nat) : Option Bytes :=
  if c = 0 ∨ 1114111 < c ∨ isSurrogate c then none else some (utf8 c)

/-- `resolve_xml_entity` -/
def resolveNamed (n : Bytes) : Option Bytes :=
  if n = [108, 116] then some [60]
  else if n = [103, 116] then some [62]
  else if n = [97, 109, 112] then some [38]
  else if n = [97, 112, 111, 115] then some [39]
  else if n = [113, 117, 111, 116] then some [34]
  else none

/-- what stands between `&` and `;` -/
def resolveEntity : Bytes → Option Bytes
  | 35 :: 120 :: hs => (parseRadix hexVal 16 hs).bind charRef
  | 35 :: ds => (parseRadix decVal 10 ds).bind charRef
  | n => resolveNamed n

/-- state of the entity reader: in text, or inside `&…` with the name read so far -/
inductive DSt where
  | text (out : Bytes)
  | ent (out name : Bytes)
  | fail
  deriving Repr, DecidableEq

def dstep : DSt → Nat → DSt
  | .text out, b => if b = 38 then .ent out [] else .text (out ++ [b])
  | .ent out n, b =>
    if b = 59 then
      match resolveEntity n with
      | some v => .text (out ++ v)
      | none => .fail
    else if b = 38 then .fail
    else .ent out (n ++ [b])
  | .fail, _ => .fail

/-- resolve every `&…;`; `none` on an unknown, unterminated or malformed reference -/
def unescapeEnt (bs : Bytes) : Option Bytes :=
  match bs.foldl dstep (.text []) with
  | .text out => some out
  | _ => none

/-- split at the first occurrence of `d` (which is dropped); `none` when there is none -/
def splitAt1 (d : Nat) : Bytes → Option (Bytes × Bytes)
  | [] => none
  | b :: bs =>
    if b = d then some ([], bs)
    else match splitAt1 d bs with
      | some (p, r) => some (b :: p, r)
      | none => none

/-- `xs` starts with `p` -/
def startsWith : Bytes → Bytes → Bool
  | _, [] => true
  | [], _ :: _ => false
  | x :: xs, p :: ps => x == p && startsWith xs ps

/-- `p` occurs in `xs` as a contiguous block -/
def containsSeq (p : Bytes) : Bytes → Bool
  | [] => p.isEmpty
  | x :: xs => startsWith (x :: xs) p || containsSeq p xs

/-- XML 1.0 §3.3.3: a literal TAB, LF or CR inside an attribute value is read as a space -/
def normAttrByte (b : Nat) : Nat := if b = 9 ∨ b = 10 ∨ b = 13 then 32 else b

/-- XML 1.0 §2.11 (and the input-stream preprocessing of HTML): CR LF and a lone CR reach the
application as LF. (The same function as `Writers.CobBytes.normEol`: `C18_readers_agree`.) -/
def eolNorm : Bytes → Bytes
  | [] => []
  | [13] => [10]
  | 13 :: 10 :: r => 10 :: eolNorm r
  | 13 :: b :: r => 10 :: eolNorm (b :: r)
  | b :: r => b :: eolNorm r

/-- an XML `Char` as far as single bytes go (XML 1.0 §2.2): no C0 control other than TAB, LF, CR -/
def xmlByteOk (b : Nat) : Bool := 32 ≤ b || b == 9 || b == 10 || b == 13

/-- U+FFFE and U+FFFF (UTF-8 `EF BF BE`, `EF BF BF`) are not XML `Char`s either -/
def noNonCharSeq (v : Bytes) : Bool :=
  !containsSeq [239, 191, 190] v && !containsSeq [239, 191, 191] v

/-- a decoded value made of XML `Char`s only; anything else makes the document ill-formed -/
def xmlCharsOk (v : Bytes) : Bool := v.all xmlByteOk && noNonCharSeq v

/-- The property's quantifier ("printable characters: no control characters or line
terminators") as far as the readers can tell the difference: no C0 control byte and no
U+FFFE / U+FFFF. (DEL, the C1 controls and U+2028/2029 are outside the property's quantifier too,
but every reader below returns them unchanged, so the theorems need not exclude them.) -/
def printable (v : Bytes) : Bool := (v.all fun b => 32 ≤ b) && noNonCharSeq v

/-- the part of `printable` that the HTML readers need (HTML has no notion of non-characters):
no C0 control byte. `printable v → noCtl v` (`printable_noCtl`). -/
def noCtl (v : Bytes) : Bool := v.all fun b => 32 ≤ b

/-- character data that an XML reader returns unchanged: `printable` plus TAB and LF (source
directories and source lines may contain a TAB) -/
def textSafe (v : Bytes) : Bool := (v.all fun b => 32 ≤ b || b == 9 || b == 10) && noNonCharSeq v

/-- A conforming XML parser (expat) positioned just after the opening `"` of an attribute value:
the value it reports and the input that follows the closing quote. XML 1.0 §2.11 then §3.3.3: line
ends are normalised (CR LF and CR become LF), a literal TAB / LF becomes a blank, references are
resolved; a raw `<`, an unknown or unterminated reference, or a character that is not an XML
`Char` (raw or through a character reference) is a well-formedness error. -/
def scanAttr (bs : Bytes) : Option (Bytes × Bytes) :=
  match splitAt1 34 bs with
  | none => none
  | some (raw, rest) =>
    if raw.contains 60 then none
    else match unescapeEnt ((eolNorm raw).map normAttrByte) with
      | some v => if xmlCharsOk v then some (v, rest) else none
      | none => none

/-- A conforming XML parser positioned at the start of character data: the text it reports and
the input after the `<` that ends it. A raw `]]>` is an error, CR LF and CR are read as LF,
references are resolved, characters that are not XML `Char`s are errors. -/
def scanXmlText (bs : Bytes) : Option (Bytes × Bytes) :=
  match splitAt1 60 bs with
  | none => none
  | some (raw, rest) =>
    if containsSeq [93, 93, 62] raw then none
    else match unescapeEnt (eolNorm raw) with
      | some v => if xmlCharsOk v then some (v, rest) else none
      | none => none

/-- HTML tokenizer inside a double-quoted attribute value (WHATWG §13.2.3.5 newline normalisation,
then §13.2.5.36: up to the next `"`, character references resolved) -/
def scanHtmlAttr (bs : Bytes) : Option (Bytes × Bytes) :=
  match splitAt1 34 bs with
  | none => none
  | some (raw, rest) =>
    match unescapeEnt (eolNorm raw) with
    | some v => some (v, rest)
    | none => none

/-- HTML tokenizer in the data / RCDATA state: the text up to the next `<` and what follows that
`<` (newlines normalised first, character references resolved) -/
def scanHtmlText (bs : Bytes) : Option (Bytes × Bytes) :=
  match splitAt1 60 bs with
  | none => none
  | some (raw, rest) =>
    match unescapeEnt (eolNorm raw) with
    | some v => some (v, rest)
    | none => none

/-- the character after a backslash (other than `u`) -/
def jsonSimpleEsc (c : Nat) : Option Nat :=
  if c = 34 then some 34
  else if c = 92 then some 92
  else if c = 47 then some 47
  else if c = 98 then some 8
  else if c = 102 then some 12
  else if c = 110 then some 10
  else if c = 114 then some 13
  else if c = 116 then some 9
  else none

/-- state of the JSON string reader: in the string, after a backslash, or inside `\uXXXX` with
`k` digits read -/
inductive JSt where
  | str (out : Bytes)
  | esc (out : Bytes)
  | uni (out : Bytes) (k acc : Nat)
  deriving Repr, DecidableEq

inductive JRes where
  | cont (st : JSt)
  | done (out : Bytes)
  | fail

def jstep : JSt → Nat → JRes
  | .str out, b =>
    if b = 34 then .done out
    else if b = 92 then .cont (.esc out)
    else if b < 32 then .fail
    else .cont (.str (out ++ [b]))
  | .esc out, c =>
    if c = 117 then .cont (.uni out 0 0)
    else match jsonSimpleEsc c with
      | some v => .cont (.str (out ++ [v]))
      | none => .fail
  | .uni out k acc, h =>
    match hexVal h with
    | none => .fail
    | some v =>
      if k = 3 then
        (if isSurrogate (acc * 16 + v) then .fail else .cont (.str (out ++ utf8 (acc * 16 + v))))
      else .cont (.uni out (k + 1) (acc * 16 + v))

def jrun : JSt → Bytes → Option (Bytes × Bytes)
  | _, [] => none
  | st, b :: rest =>
    match jstep st b with
    | .done out => some (out, rest)
    | .fail => none
    | .cont st' => jrun st' rest

/-- A JSON parser positioned just after the opening `"`: the string it reports (appended to
`out`) and the input after the closing quote. `\uXXXX` escapes of surrogates are rejected (not
modelled: the encoder never emits one). -/
def scanJson (out : Bytes) (bs : Bytes) : Option (Bytes × Bytes) := jrun (.str out) bs

/-- decode the body of a complete JSON string literal -/
def jsonUnescape (bs : Bytes) : Option Bytes :=
  match scanJson [] (bs ++ [34]) with
  | some (v, []) => some v
  | _ => none

/-! ## Breadcrumb links of a file page (html.rs 418-449, macros.html 15-17); since /repo ffd66c7 the
link is auto-escaped like every other value -/

/-- `PathBuf::push` on Unix -/
def pathJoin (a b : Bytes) : Bytes :=
  if b.head? = some 47 then b
  else if a = [] ∨ a.getLast? = some 47 then a ++ b
  else a ++ [47] ++ b

def indexHtml : Bytes := [105, 110, 100, 101, 120, 46, 104, 116, 109, 108]   -- index.html

/-- `parent_link` of `gen_html`: `./index.html`, or `<prefix>/<parent dir>/index.html` when
`--abs-link-prefix` is given -/
def fileParentLink (absPrefix : Option Bytes) (parent : Bytes) : Bytes :=
  match absPrefix with
  | none => [46, 47] ++ indexHtml
  | some p => pathJoin (pathJoin p parent) indexHtml

/-- `top_level_link` of `gen_html` (`depth` = number of directories above the file) -/
def fileTopLink (absPrefix : Option Bytes) (depth : Nat) : Bytes :=
  match absPrefix with
  | none => (List.replicate depth [46, 46, 47]).flatten ++ indexHtml
  | some p => pathJoin p indexHtml

/-- `<li><a href="{{ parent.0 }}">{{ parent.1 }}</a></li>`: link and label both escaped -/
def breadcrumbItem (link label : Bytes) : Bytes :=
  [60, 108, 105, 62, 60, 97, 32, 104, 114, 101, 102, 61, 34] ++ html link ++ [34, 62] ++ html label
    ++ [60, 47, 97, 62, 60, 47, 108, 105, 62]

/-! ## Row links of the index pages (templates/index.html 21-37; macros.html 41:
`<a href="{{ url }}">`). Without a prefix: `"./"~item~"/index.html"`, `"./"~item~".html"` (since
/repo 8e4c27e); with `info.abs_prefix` non-empty: `abs_prefix~item~"/index.html"` (no separator)
and `abs_prefix~"/"~item~".html"`. -/

def isAlpha (b : Nat) : Bool := (65 ≤ b && b ≤ 90) || (97 ≤ b && b ≤ 122)
def isSchemeChar (b : Nat) : Bool :=
  isAlpha b || (48 ≤ b && b ≤ 57) || b == 43 || b == 45 || b == 46

def schemeTail : Bytes → Bool
  | [] => false
  | b :: rest => if b = 58 then true else if isSchemeChar b then schemeTail rest else false

/-- RFC 3986 §3.1 / WHATWG URL: after leading spaces, `ALPHA *( ALPHA / DIGIT / "+" / "-" / "." )`
followed by `:` – a reference that a browser resolves as an absolute URL with that scheme -/
def hasScheme (url : Bytes) : Bool :=
  match url.dropWhile (· == 32) with
  | [] => false
  | b :: rest => isAlpha b && schemeTail rest

def dotSlash : Bytes := [46, 47]                       -- ./
def dotHtml : Bytes := [46, 104, 116, 109, 108]        -- .html

/-- the link of a directory row of the top-level index; `absPrefix` is the option value (the
template treats an empty one like an absent one) -/
def dirRowUrl (absPrefix : Option Bytes) (item : Bytes) : Bytes :=
  match absPrefix with
  | none => dotSlash ++ item ++ [47] ++ indexHtml
  | some p => if p = [] then dotSlash ++ item ++ [47] ++ indexHtml else p ++ item ++ [47] ++ indexHtml

/-- the link of a file row of a directory index; `dirPrefix` is `<prefix>/<directory>` when the
option is given -/
def fileRowUrl (dirPrefix : Option Bytes) (item : Bytes) : Bytes :=
  match dirPrefix with
  | none => dotSlash ++ item ++ dotHtml
  | some q => if q = [] then dotSlash ++ item ++ dotHtml else q ++ [47] ++ item ++ dotHtml

/-! ## The sinks of the HTML templates: every place where a name or source text reaches a page.

| sink | template | value | model |
|---|---|---|---|
| page title | file.html 4, index.html 4: `<title>Grcov report - {{ current }} </title>` | file name / directory / `top_level` | `titleFrag` |
| breadcrumb link + label | macros.html 16: `<li><a href="{{ parent.0 }}">{{ parent.1 }}</a></li>` | `gen_html` / `gen_dir_index` links, parent directory | `breadcrumbItem` |
| active breadcrumb | macros.html 18: `<li class="is-active"><a href="#">{{ current }}</a></li>` | as the title | `currentItem` |
| row link + row name | macros.html 40 (`stats_line`): `<th><a href="{{ url }}">{{ name }}</a></th>`, `url` built by index.html 23/25/31/33 | directory / file name | `rowLink` with `dirRowUrl` / `fileRowUrl` |
| source line | file.html 40: `<pre class="has-background-{{ highlight_light }} py-0 px-2">{{ item.2 }}</pre>` | one line of the source file | `preLine` |

Everything else that is interpolated is a number (`item.0`, `item.1`, the statistics), a fixed
word chosen by the template (`kind`, `highlight`, `highlight_light`, `aria_label`, severities), the
date, or `bulma_url | safe` (a constant of the configuration: CDN URL or `../`× depth +
`bulma.min.css`; no name reaches it). All five sinks go through Tera's auto-escape (`html`). -/

def titleOpen : Bytes := [60, 116, 105, 116, 108, 101, 62]                                    -- <title>
def titleLead : Bytes := [71, 114, 99, 111, 118, 32, 114, 101, 112, 111, 114, 116, 32, 45, 32]  -- Grcov report -␣
def titleClose : Bytes := [47, 116, 105, 116, 108, 101, 62]                                   -- /title>
/-- `<li class="is-active"><a href="#">` -/
def currentOpen : Bytes :=
  [60, 108, 105, 32, 99, 108, 97, 115, 115, 61, 34, 105, 115, 45, 97, 99, 116, 105, 118, 101, 34, 62,
   60, 97, 32, 104, 114, 101, 102, 61, 34, 35, 34, 62]
def aLiClose : Bytes := [47, 97, 62, 60, 47, 108, 105, 62]                                    -- /a></li>
def rowOpen : Bytes := [60, 116, 104, 62, 60, 97, 32, 104, 114, 101, 102, 61, 34]             -- <th><a href="
def aThClose : Bytes := [47, 97, 62, 60, 47, 116, 104, 62]                                    -- /a></th>
/-- `<pre class="has-background-` -/
def preOpen1 : Bytes :=
  [60, 112, 114, 101, 32, 99, 108, 97, 115, 115, 61, 34, 104, 97, 115, 45, 98, 97, 99, 107, 103, 114,
   111, 117, 110, 100, 45]
def preOpen2 : Bytes := [32, 112, 121, 45, 48, 32, 112, 120, 45, 50, 34, 62]                  -- ␣py-0 px-2">
def preClose : Bytes := [47, 112, 114, 101, 62]                                               -- /pre>

/-- `<title>Grcov report - {{ current }} </title>` -/
def titleFrag (current : Bytes) : Bytes :=
  titleOpen ++ titleLead ++ html current ++ [32] ++ [60] ++ titleClose

/-- `<li class="is-active"><a href="#">{{ current }}</a></li>` -/
def currentItem (current : Bytes) : Bytes := currentOpen ++ html current ++ [60] ++ aLiClose

/-- `<th><a href="{{ url }}">{{ name }}</a></th>` -/
def rowLink (url name : Bytes) : Bytes :=
  rowOpen ++ html url ++ [34, 62] ++ html name ++ [60] ++ aThClose

/-- `<pre class="has-background-{{ highlight_light }} py-0 px-2">{{ item.2 }}</pre>`; `cls` is one
of the template's own words (`success-light`, `white`, `danger-light`) -/
def preLine (cls text : Bytes) : Bytes := preOpen1 ++ cls ++ preOpen2 ++ html text ++ [60] ++ preClose

/-- the markup-significant bytes `<` `>` `"` `'` -/
def isMetaByte (b : Nat) : Bool := b == 60 || b == 62 || b == 34 || b == 39

/-- the markup skeleton of a fragment: its `<` `>` `"` `'`, in order -/
def metaOf (bs : Bytes) : Bytes := bs.filter isMetaByte

end Grcov.Escape
