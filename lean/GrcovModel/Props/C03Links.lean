/-
C03 — report fidelity, part Links (second review, item 21): the index rows of the HTML report are
the only way from a file name to its page. `C03_html_index_rows` says every page has a row in the
index of its directory, under its file name; this file says where the LINK of that row leads
(model `GrcovModel/Writers/Links.lean`: RFC 3986 reference resolution and percent-decoding; the
link texts are `Escape.fileRowUrl` / `dirRowUrl`, tied byte for byte by the html streams).
The destination of the page of `f` in directory `loc` is `loc ++ [htmlDestName f]`
(`Docs.htmlDest`).
-/
import GrcovModel.Lemmas.WritersLinks
import GrcovModel.Lemmas.WritersDocs
namespace Grcov.Props.C03
open Grcov Grcov.Escape Grcov.Writers.Docs Grcov.Writers.Links

/-- Full statement: from the index of its directory, the row of a file leads to the page file of
that file. -/
def C03_html_row_link_stmt : Prop :=
  ∀ (loc : List Name) (f : Name), 47 ∉ f →
    servedPath loc (fileRowUrl none f) = joinSlash (loc ++ [htmlDestName f])

/-- False of the templates (finding C03-html-links-not-urlencoded): the file name goes into the
`href` without percent-encoding. The row of `p%41.c` leads to `pA.c.html`, the page of ANOTHER
file (its lines and counts are shown under this file's name); the rows of `x#y.c` and `q?z.c`
lead to `x` and `q`, which do not exist. -/
theorem C03_html_row_link_false :
    ¬ C03_html_row_link_stmt ∧
    servedPath [] (fileRowUrl none [112, 37, 52, 49, 46, 99]) = joinSlash [htmlDestName [112, 65, 46, 99]] ∧
    servedPath [] (fileRowUrl none [120, 35, 121, 46, 99]) = [120] ∧
    servedPath [] (fileRowUrl none [113, 63, 122, 46, 99]) = [113] := by
  refine ⟨fun h => ?_, by decide, by decide, by decide⟩
  have := h [] [112, 37, 52, 49, 46, 99] (by decide)
  revert this; decide

/-- True under exactly the guard the witnesses violate – no `#`, `?`, `%` in the file name – in
every directory; and with the proposed fix (`item | urlencode_strict`) for every file name. -/
theorem C03_html_row_link_partial (loc : List Name) (f : Name) :
    (plainName f = true → servedPath loc (fileRowUrl none f) = joinSlash (loc ++ [htmlDestName f])) ∧
    ((∀ b ∈ f, b < 256) → servedPath loc (fileRowUrlFixed f) = joinSlash (loc ++ [htmlDestName f])) := by
  have e : joinSlash (loc ++ [htmlDestName f]) = pagePath loc f := by
    rw [htmlDestName_eq]; rfl
  rw [e]
  exact ⟨servedPath_fileRow loc f, servedPath_fileRowFixed loc f⟩

/-- From the top-level index, the row of a directory leads to the index of that directory when its
key has no `#`, `?`, `%` and no `.`/`..` segment (the keys are parent strings of rewritten paths). -/
theorem C03_html_dir_row_link_partial (d : Name) (h : plainDirKey d = true) :
    servedPath [] (dirRowUrl none d) = dirIndexPath d := servedPath_dirRow d h

example : plainName [109, 97, 105, 110, 46, 99] = true := by decide
example : servedPath [[115, 114, 99]] (fileRowUrl none [109, 97, 105, 110, 46, 99])
    = joinSlash [[115, 114, 99], htmlDestName [109, 97, 105, 110, 46, 99]] := by decide

end Grcov.Props.C03
