/-
C03 — report fidelity, the lcov clause at document level. The lcov format is the one report that
grcov can also read, so its decoder is the reader model of C04/C05 (`Lcov.parse`, tied to
`parse_lcov`), and the writer model `Lcov.printLcov` is tied byte for byte to `output_lcov` on all
generated result sets (functions in the iteration order of the writer's hash map: harness
`c05/src/bytes_all.rs`). The statements below are C05's round-trip theorems with the C03 reading,
plus the summary lines.
-/
import GrcovModel.Props.C05
import GrcovModel.Lemmas.LcovSummary
namespace Grcov.Props.C03
open Grcov AList Grcov.Lcov Grcov.Lcov.Spec Grcov.Props.C05

/-- Decoding the BYTES written for a result set gives exactly one record per file, in the order of
the files, each under its own path and with exactly its data: the same count for every line (any
count up to 2^64-1), the same vector for every branch line, the same start line and executed flag
for every function — no file, line, branch or function added, dropped, duplicated, renumbered or
attributed to another file. (`WriterOK`: what a `CovResult` guarantees plus names and paths
without line terminators; list for list the record read is the record written minus branch lines
that carry no branch, for which the format has no line.) -/
theorem C03_lcov_decode_bytes (rs : List (Bytes × Cov)) (h : ∀ pc ∈ rs, WriterOK pc.1 pc.2) :
    parse true (printLcov rs) = .ok (rs.map fun pc => (utf8Lossy pc.1, rtCov pc.2)) ∧
    ∀ pc ∈ rs, SameData (rtCov pc.2) pc.2 ∧ rtCov pc.2 = dropEmpty pc.2 :=
  ⟨C05_roundtrip_bytes rs h,
   fun pc hpc => ⟨C05_roundtrip_same_data pc.2 (h pc hpc).wf, C05_reimported_record pc.2 (h pc hpc).wf⟩⟩

/-- In particular a count is never altered, whatever its size, and a line that is not instrumented
is never read as instrumented (nor the reverse). -/
theorem C03_lcov_counts_unaltered (c : Cov) (h : c.WF) (l : Nat) :
    get? (rtCov c).lines l = get? c.lines l ∧
    ((get? (rtCov c).lines l).isSome ↔ (get? c.lines l).isSome) := by
  have := (C05_roundtrip_same_data c h).lines l
  exact ⟨this, by rw [this]⟩

/-- The summary lines of a section are the counts of the records listed in that section:
`FNF` = number of `FN` records and `FNH` = number of `FNDA` records with a count (both written
exactly when there is a function), `BRF` = number of `BRDA` records, `BRH` = those marked taken,
`LF` = number of `DA` records, `LH` = those with a count other than 0; each figure is printed in
decimal and reads back as itself. -/
theorem C03_lcov_summary_lines (c : Cov) :
    writerRecs c =
      fnRecs c.functions ++ fndaRecs c.functions
        ++ (if c.functions.isEmpty then [] else
              [keyedSummary [70, 78, 70] (countFn (fnRecs c.functions)),
               keyedSummary [70, 78, 72] (countFndaHit (fndaRecs c.functions))])
        ++ brdaRecs c.branches
        ++ [keyedSummary [66, 82, 70] (countBrda (brdaRecs c.branches)),
            keyedSummary [66, 82, 72] (countBrdaTaken (brdaRecs c.branches))]
        ++ daRecs c.lines
        ++ [lineSummary 70 (countDa (daRecs c.lines)), lineSummary 72 (countDaHit (daRecs c.lines))] ∧
    ∀ n, valFrom 0 (dec (n + 1) n) = n :=
  ⟨writerRecs_summaries c, summary_value⟩

/-- Those counts are the record's own: number of functions / executed functions, branch slots /
taken slots, lines / lines with a count > 0 — the figures C13 proves about (`Stats.lcovRec`). -/
theorem C03_lcov_summary_figures (c : Cov) :
    countFn (fnRecs c.functions) = c.functions.length ∧
    countFndaHit (fndaRecs c.functions) = (c.functions.filter fun nf => nf.2.executed).length ∧
    countBrda (brdaRecs c.branches) = (c.branches.map fun lv => lv.2.length).sum ∧
    countBrdaTaken (brdaRecs c.branches) = (c.branches.map fun lv => (lv.2.filter id).length).sum ∧
    countDa (daRecs c.lines) = c.lines.length ∧
    countDaHit (daRecs c.lines) = (c.lines.filter fun lc => decide (lc.2 > 0)).length ∧
    (Stats.lcovRec c).lf = countDa (daRecs c.lines) ∧
    (Stats.lcovRec c).lh = countDaHit (daRecs c.lines) ∧
    (Stats.lcovRec c).brf = countBrda (brdaRecs c.branches) ∧
    (Stats.lcovRec c).brh = countBrdaTaken (brdaRecs c.branches) ∧
    (Stats.lcovRec c).fn = (if c.functions.isEmpty then none
      else some (countFn (fnRecs c.functions), countFndaHit (fndaRecs c.functions))) :=
  ⟨(countFn_fnRecs _).1, (countFn_fnRecs _).2, (countBrda_brdaRecs _).1, (countBrda_brdaRecs _).2,
   (countDa_daRecs _).1, (countDa_daRecs _).2, summaries_stats c⟩

/-! non-vacuity: two functions, a branch vector, the largest count -/

def witLcov : Cov :=
  { lines := [(1, U64MAX), (2, 0)], branches := [(2, [true, false])],
    functions := [([102], ⟨1, true⟩), ([103], ⟨2, false⟩)] }

example : witLcov.WF :=
  ⟨by unfold NodupKeys; decide, by unfold NodupKeys; decide, by unfold NodupKeys; decide, by decide⟩
example : WriterOK [97, 46, 99] witLcov :=
  ⟨⟨by unfold NodupKeys; decide, by unfold NodupKeys; decide, by unfold NodupKeys; decide, by decide⟩,
   by unfold noEol; decide, by decide, by decide, by unfold noEol; decide⟩
example : (rtCov witLcov).lines = [(1, U64MAX), (2, 0)] := by decide
example : countFn (fnRecs witLcov.functions) = 2 ∧ countFndaHit (fndaRecs witLcov.functions) = 1 ∧
    countBrda (brdaRecs witLcov.branches) = 2 ∧ countBrdaTaken (brdaRecs witLcov.branches) = 1 ∧
    countDa (daRecs witLcov.lines) = 2 ∧ countDaHit (daRecs witLcov.lines) = 1 := by
  obtain ⟨h1, h2, h3, h4, h5, h6, _⟩ := C03_lcov_summary_figures witLcov
  rw [h1, h2, h3, h4, h5, h6]; decide

end Grcov.Props.C03
