/-
C03 — report fidelity, the lcov clause at document level. The lcov format is the one report that
grcov can also read, so its decoder is the reader model of C04/C05 (`Lcov.parse`, tied to
`parse_lcov`), and the writer model `Lcov.printLcov` is tied byte for byte to `output_lcov` on all
generated result sets (harness `c05/src/bytes_all.rs`; `printLcov` prints the function table in the
order it is given, `Writers.FnOrder.lcov dm` = `printLcov` of the LISTED records is the writer with
its own order – `sorted_functions`, 73c9152 – and demangler, tied byte for byte by
`c03/src/dm.rs`, op `c03.lcov`). The statements below are C05's round-trip theorems with the C03
reading, the summary lines, and the round trip with a demangler (`C03_lcov_demangle_*`).
-/
import GrcovModel.Props.C05
import GrcovModel.Lemmas.LcovSummary
import GrcovModel.Props.C03FnOrder
namespace Grcov.Props.C03
open Grcov AList Grcov.Lcov Grcov.Lcov.Spec Grcov.Props.C05

/-- Decoding the BYTES written for a result set gives exactly one record per file, in the order of
the files, each under its own path and with exactly its data: the same count for every line (any
count up to 2^64-1), the same vector for every branch line, the same start line and executed flag
for every function — no file, line, branch or function added, dropped, duplicated, renumbered or
attributed to another file. (`WriterOK`: what a `CovResult` guarantees plus names and paths
without line terminators; list for list the record read is the record written minus branch lines
that carry no branch, for which the format has no line.) -/
theorem C03_lcov_decode_bytes (rs : List (Bytes × Cov)) (h : ∀ pc ∈ rs, WriterOK pc.1 pc.2) :
    parse true (printLcov rs) = .ok (rs.map fun pc => (utf8Lossy pc.1, rtCov pc.2)) ∧
    ∀ pc ∈ rs, SameData (rtCov pc.2) pc.2 ∧ rtCov pc.2 = dropEmpty pc.2 :=
  ⟨C05_roundtrip_bytes rs h,
   fun pc hpc => ⟨C05_roundtrip_same_data pc.2 (h pc hpc).wf, C05_reimported_record pc.2 (h pc hpc).wf⟩⟩

/-- In particular a count is never altered, whatever its size, and a line that is not instrumented
is never read as instrumented (nor the reverse). -/
theorem C03_lcov_counts_unaltered (c : Cov) (h : c.WF) (l : Nat) :
    get? (rtCov c).lines l = get? c.lines l ∧
    ((get? (rtCov c).lines l).isSome ↔ (get? c.lines l).isSome) := by
  have := (C05_roundtrip_same_data c h).lines l
  exact ⟨this, by rw [this]⟩

/-- The summary lines of a section are the counts of the records listed in that section:
`FNF` = number of `FN` records and `FNH` = number of `FNDA` records with a count (both written
exactly when there is a function), `BRF` = number of `BRDA` records, `BRH` = those marked taken,
`LF` = number of `DA` records, `LH` = those with a count other than 0; each figure is printed in
decimal and reads back as itself. -/
theorem C03_lcov_summary_lines (c : Cov) :
    writerRecs c =
      fnRecs c.functions ++ fndaRecs c.functions
        ++ (if c.functions.isEmpty then [] else
              [keyedSummary [70, 78, 70] (countFn (fnRecs c.functions)),
               keyedSummary [70, 78, 72] (countFndaHit (fndaRecs c.functions))])
        ++ brdaRecs c.branches
        ++ [keyedSummary [66, 82, 70] (countBrda (brdaRecs c.branches)),
            keyedSummary [66, 82, 72] (countBrdaTaken (brdaRecs c.branches))]
        ++ daRecs c.lines
        ++ [lineSummary 70 (countDa (daRecs c.lines)), lineSummary 72 (countDaHit (daRecs c.lines))] ∧
    ∀ n, valFrom 0 (dec (n + 1) n) = n :=
  ⟨writerRecs_summaries c, summary_value⟩

/-- Those counts are the record's own: number of functions / executed functions, branch slots /
taken slots, lines / lines with a count > 0 — the figures C13 proves about (`Stats.lcovRec`). -/
theorem C03_lcov_summary_figures (c : Cov) :
    countFn (fnRecs c.functions) = c.functions.length ∧
    countFndaHit (fndaRecs c.functions) = (c.functions.filter fun nf => nf.2.executed).length ∧
    countBrda (brdaRecs c.branches) = (c.branches.map fun lv => lv.2.length).sum ∧
    countBrdaTaken (brdaRecs c.branches) = (c.branches.map fun lv => (lv.2.filter id).length).sum ∧
    countDa (daRecs c.lines) = c.lines.length ∧
    countDaHit (daRecs c.lines) = (c.lines.filter fun lc => decide (lc.2 > 0)).length ∧
    (Stats.lcovRec c).lf = countDa (daRecs c.lines) ∧
    (Stats.lcovRec c).lh = countDaHit (daRecs c.lines) ∧
    (Stats.lcovRec c).brf = countBrda (brdaRecs c.branches) ∧
    (Stats.lcovRec c).brh = countBrdaTaken (brdaRecs c.branches) ∧
    (Stats.lcovRec c).fn = (if c.functions.isEmpty then none
      else some (countFn (fnRecs c.functions), countFndaHit (fndaRecs c.functions))) :=
  ⟨(countFn_fnRecs _).1, (countFn_fnRecs _).2, (countBrda_brdaRecs _).1, (countBrda_brdaRecs _).2,
   (countDa_daRecs _).1, (countDa_daRecs _).2, summaries_stats c⟩

/-! ## with a demangler (the default of the CLI) -/

/-- what the demangler must satisfy for the lcov format: a printed name has no line terminator
and is valid UTF-8 (`symbolic_demangle` returns a `String`; a name with a line terminator cannot
come out of a mangled symbol) -/
def DmLcovOk (dm : Name → Name) (c : Cov) : Prop :=
  ∀ nf ∈ c.functions, noEol (dm nf.1) ∧ utf8Lossy (dm nf.1) = dm nf.1

/-- Decoding the bytes `output_lcov` writes WITH a demangler: under the guard that the demangler
is injective on the function names of every file, grcov's reader finds one record per file, in
order, each with exactly the lines and branch vectors of its file and every function under its
PRINTED name with its own start line and executed flag – none added, dropped or merged. -/
theorem C03_lcov_demangle_decode_partial (dm : Name → Name) (rs : List (Bytes × Cov))
    (h : ∀ pc ∈ rs, WriterOK pc.1 pc.2) (hdm : ∀ pc ∈ rs, DmLcovOk dm pc.2)
    (hi : ∀ pc ∈ rs, Writers.DmInjOn dm pc.2.functions) :
    parse true (Writers.FnOrder.lcov dm rs)
      = .ok (rs.map fun pc => (utf8Lossy pc.1, rtCov (Writers.listed dm pc.2))) ∧
    ∀ pc ∈ rs, SameData (rtCov (Writers.listed dm pc.2)) (Writers.listed dm pc.2) ∧
      (rtCov (Writers.listed dm pc.2)).functions.length = pc.2.functions.length ∧
      ∀ n ∈ keys pc.2.functions,
        get? (rtCov (Writers.listed dm pc.2)).functions (dm n) = get? pc.2.functions n := by
  have hok : ∀ pc ∈ rs, WriterOK pc.1 (Writers.listed dm pc.2) := fun pc hpc =>
    { wf := ⟨(h pc hpc).wf.linesNodup, (h pc hpc).wf.branchesNodup,
             Writers.nodupKeys_listed dm pc.2 (h pc hpc).wf.functionsNodup (hi pc hpc),
             (h pc hpc).wf.countsFit⟩
      path := (h pc hpc).path
      lineNos := (h pc hpc).lineNos
      branchLines := (h pc hpc).branchLines
      fnNames := fun nf hnf => by
        obtain ⟨nf0, h0, rfl⟩ := (Writers.mem_listed_functions dm pc.2 nf).1 hnf
        exact ⟨(hdm pc hpc nf0 h0).1, (hdm pc hpc nf0 h0).2, ((h pc hpc).fnNames nf0 h0).2.2⟩ }
  constructor
  · have := C05_roundtrip_bytes (Writers.FnOrder.listedK dm rs) (by
      intro pc hpc
      simp only [Writers.FnOrder.listedK, List.mem_map] at hpc
      obtain ⟨pc0, h0, rfl⟩ := hpc
      exact hok pc0 h0)
    unfold Writers.FnOrder.lcov
    rw [this]
    simp only [Writers.FnOrder.listedK, List.map_map, Function.comp_def]
  · intro pc hpc
    have hs := C05_roundtrip_same_data _ (hok pc hpc).wf
    have he := C05_reimported_record _ (hok pc hpc).wf
    refine ⟨hs, ?_, fun n hn => ?_⟩
    · rw [he]; exact Writers.length_listed_functions dm pc.2
    · rw [hs.functions]
      exact Writers.get?_listed dm pc.2 (h pc hpc).wf.functionsNodup (hi pc hpc) n hn

/-- Full statement: whatever the demangler prints, the record read back has as many functions as
the file. -/
def C03_lcov_demangle_stmt : Prop :=
  ∀ (dm : Name → Name) (path : Bytes) (c : Cov), WriterOK path c → DmLcovOk dm c →
    ∃ c', parse true (Writers.FnOrder.lcov dm [(path, c)]) = .ok [(utf8Lossy path, c')] ∧
      c'.functions.length = c.functions.length

set_option maxRecDepth 100000 in
/-- False of the code (finding C03-demangle-collapses-overloads): `_Z3fooi` (start 3, executed) and
`_Z3food` (start 9, not executed) are written as `FN:9,foo` `FN:3,foo` `FNDA:0,foo` `FNDA:1,foo`
`FNF:2`, and grcov's own reader makes ONE function `foo` of them. -/
theorem C03_lcov_demangle_false : ¬ C03_lcov_demangle_stmt := by
  intro h
  obtain ⟨c', hp, hl⟩ := h witDm [97, 46, 99] witOverloads
    ⟨⟨by unfold NodupKeys; decide, by unfold NodupKeys; decide, by unfold NodupKeys; decide, by decide⟩,
     by unfold noEol; decide, by decide, by decide, by unfold noEol; decide⟩
    (by unfold DmLcovOk noEol; decide)
  have hv : parse true (Writers.FnOrder.lcov witDm [([97, 46, 99], witOverloads)])
      = .ok [([97, 46, 99], { lines := [(3, 1), (9, 0)], branches := [],
                               functions := [([102, 111, 111], ⟨3, true⟩)] })] := by decide +kernel
  rw [hv] at hp
  injection hp with hp
  have : c' = { lines := [(3, 1), (9, 0)], branches := [], functions := [([102, 111, 111], ⟨3, true⟩)] } := by
    simp at hp; exact hp.2.symm
  subst this
  revert hl; decide

/-- The two models of the order agree: `Writers.sortByName` (this package) is `Cli.sortFns` (the
model of the whole run, C05/C06), and with demangling off the writer model of this file is the
`Cli.outputLcov` that the C05 streams tie to `output_lcov` (records whose line and branch maps are
listed ascending, as `BTreeMap`s iterate). -/
theorem C03_lcov_order_is_cli_order :
    (∀ fs : List (Name × Fn), Writers.sortByName fs = Cli.sortFns fs) ∧
    ∀ rs : List (Bytes × Cov),
      (∀ pc ∈ rs, pc.2.lines = Cli.sortByKey pc.2.lines ∧ pc.2.branches = Cli.sortByKey pc.2.branches) →
      Writers.FnOrder.lcov id rs = Cli.outputLcov rs := by
  have ins_eq : ∀ (nf : Name × Fn) (m : List (Name × Fn)),
      Writers.insertByName nf m = Cli.insertByName nf m := by
    intro nf m
    induction m with
    | nil => rfl
    | cons x xs ih =>
      unfold Writers.insertByName Cli.insertByName
      rw [Writers.nameLe_eq_bytesLe, ih]
  have sort_eq : ∀ fs : List (Name × Fn), Writers.sortByName fs = Cli.sortFns fs := by
    intro fs
    induction fs with
    | nil => rfl
    | cons x xs ih =>
      unfold Writers.sortByName Cli.sortFns
      rw [ih, ins_eq]
  refine ⟨sort_eq, fun rs h => ?_⟩
  unfold Writers.FnOrder.lcov Cli.outputLcov Writers.FnOrder.listedK
  congr 1
  apply List.map_congr_left
  intro pc hpc
  obtain ⟨h1, h2⟩ := h pc hpc
  rw [Writers.listed_id]
  unfold Writers.sortFnsCov Cli.sortCov
  rw [← h1, ← h2, sort_eq]

/-! non-vacuity: two functions, a branch vector, the largest count -/

def witLcov : Cov :=
  { lines := [(1, U64MAX), (2, 0)], branches := [(2, [true, false])],
    functions := [([102], ⟨1, true⟩), ([103], ⟨2, false⟩)] }

example : witLcov.WF :=
  ⟨by unfold NodupKeys; decide, by unfold NodupKeys; decide, by unfold NodupKeys; decide, by decide⟩
example : WriterOK [97, 46, 99] witLcov :=
  ⟨⟨by unfold NodupKeys; decide, by unfold NodupKeys; decide, by unfold NodupKeys; decide, by decide⟩,
   by unfold noEol; decide, by decide, by decide, by unfold noEol; decide⟩
example : (rtCov witLcov).lines = [(1, U64MAX), (2, 0)] := by decide
example : countFn (fnRecs witLcov.functions) = 2 ∧ countFndaHit (fndaRecs witLcov.functions) = 1 ∧
    countBrda (brdaRecs witLcov.branches) = 2 ∧ countBrdaTaken (brdaRecs witLcov.branches) = 1 ∧
    countDa (daRecs witLcov.lines) = 2 ∧ countDaHit (daRecs witLcov.lines) = 1 := by
  obtain ⟨h1, h2, h3, h4, h5, h6, _⟩ := C03_lcov_summary_figures witLcov
  rw [h1, h2, h3, h4, h5, h6]; decide

end Grcov.Props.C03
