/-
C16, part Filter — (a) exclusion markers and `--filter covered|uncovered` (review 2, item 7, C16
half): `rewrite_paths` runs the marker loop FIRST (path_rewriting.rs 377-390) and evaluates
`is_covered` on the reduced record (392-404); (b) the wiring of the six `--excl-*` options does not
look at `--branch` (main.rs 355-362), and a JaCoCo input carries branch data with or without
`--branch`, so the branch markers act on JaCoCo reports in both cases (seeded change C16-4).

(a) `FileFilter.thenFilter` (FileFilter/Select.lean) models the two steps for one record; driver op
`ffselect`, stream `thenfilter` of harness/c16 (the REAL `rewrite_paths` with `filter_option ∈ {None,
Some(true), Some(false)}` on records whose executed lines are all, partly or not excluded).
`C16_then_filter` composes it with the closure of `Cli.RunAll.rewritePathsF` (`selectRecF`, tied to
the real binary byte for byte by the runall streams), `C16_run_then_filter` with the whole run.
The statement "the covered / uncovered decision looks at the data as it was read" is FALSE of the
code: `C16_filter_before_markers_false` (closed witness: `DA:1,5` `DA:2,0`, line 1 marked –
`--filter covered` drops the file, `--filter uncovered` reports it with `DA:2,0`), with
`C16_filter_before_markers_partial` under exactly the guard the witness violates (no executed line
is excluded). This is the behaviour the property text asks for ("the line coverage of line n is
REMOVED"), not a defect; it is recorded because the first model of `--filter` (Rewrite.selectRec)
had it the other way round.

(b) `C16_main_branch_flag_irrelevant`, `C16_run_jacoco_branch_flag_irrelevant`; stream `brcli` of
harness/c16 (the real binary on JaCoCo reports with `--excl-br-*`, with and without `--branch`).

Observation (review 2, item 36; documentation, not code). `grcov --help` (the doc comments in
src/main.rs) and README.md 163-177 say of the two STOP options that the stop line belongs to the
section:
  main.rs 284      `/// Marks the end of an excluded section. The current line is part of this section.`
  main.rs 294-295  `/// Marks the end of a section excluded from branch coverage. The current line is part of`
                   `/// this section.`
Code, property text and lcov agree that the stop line is NOT part of the section (`C16_region_step`:
a line matching the stop marker is outside unless it matches the start marker too; corpus case
"stop line keeps its data" of the `thenfilter` module). The harness prints the observation as long as
the two doc comments read that way. Suggested wording: "Marks the end of an excluded section. The
current line is NOT part of this section."
-/
import GrcovModel.Lemmas.CliRunAll
import GrcovModel.Lemmas.FileFilterSelect
namespace Grcov.Props.C16
open Grcov AList Grcov.Rewrite Grcov.FileFilter Grcov.Cli.RunAll
open Grcov.UPath (Bytes)

/-! ## markers, then `--filter` -/

/-- **The closure of `rewrite_paths`, in the order of the code.** A resolved key is reported iff it
passes the path selection (`--ignore`, `--keep-only`, `--ignore-not-existing`: the closure without
markers and without `--filter` reports it) AND `--filter` accepts the record AFTER the markers of
its own file were applied; the reported record carries the excluded data. -/
theorem C16_then_filter (cfg : Cfg) (fs : FS) (flt : Bytes → List FT) (abs rel : Bytes) (cov : Cov) :
    selectRecF cfg fs flt abs rel cov =
      (selectRecF { cfg with filter := none } fs (fun _ => []) abs rel cov).bind fun _ =>
        (thenFilter (flt abs) cfg.filter cov).map fun c' => ⟨abs, rel, c'⟩ := by
  unfold selectRecF thenFilter
  by_cases h1 : Glob.setMatch cfg.ignore rel = true
  · simp [h1]
  · by_cases h2 : (!cfg.keep.isEmpty && !Glob.setMatch cfg.keep rel) = true
    · simp [h1, h2]
    · by_cases h3 : (cfg.ignoreNotExisting && !fs.exists abs) = true
      · simp [h1, h2, h3]
      · have e : ∀ c : Cov, filterOk none c = true := fun _ => rfl
        have e2 : applyFilters [] cov = cov := rfl
        by_cases h4 : filterOk cfg.filter (applyFilters (flt abs) cov) = true
        · simp [h1, h2, h3, h4, e, e2]
        · simp [h1, h2, h3, h4, e, e2]

/-- … and in a whole run: what the markers and `--filter` do to a record of the run without them
(`C16_run_is_marker_free_run_excluded`) is `thenFilter` with the filter list of the record's own
file. -/
theorem C16_run_then_filter (o : Cli.RunAll.Opts) (w : World) (r : Rec) :
    excludeRec o w r
      = (thenFilter (filterList o w r.abs) o.cfg.filter r.cov).map fun c' => { r with cov := c' } := by
  unfold excludeRec thenFilter
  by_cases h : filterOk o.cfg.filter (applyFilters (filterList o w r.abs) r.cov) = true <;> simp [h]

/-- **Covered / uncovered partition WITH markers.** Without `--filter` every record comes through
with its markers applied; `--filter covered` reports it iff `is_covered` holds of the record AFTER
exclusion, `--filter uncovered` iff it does not: exactly one of the two reports the file, and
whichever does reports the same, excluded, data. -/
theorem C16_then_filter_partition (fs : List FT) (c : Cov) :
    thenFilter fs none c = some (applyFilters fs c) ∧
    thenFilter fs (some true) c
      = (if isCovered (applyFilters fs c) then some (applyFilters fs c) else none) ∧
    thenFilter fs (some false) c
      = (if isCovered (applyFilters fs c) then none else some (applyFilters fs c)) ∧
    ((thenFilter fs (some true) c).isSome = !(thenFilter fs (some false) c).isSome) := by
  unfold thenFilter
  cases h : isCovered (applyFilters fs c) <;> simp [filterOk, h]

/-- **What `is_covered` sees after the markers.** "Some line of the file was executed" becomes
"some line that is NOT EXCLUDED was executed" (`removesLine`: `C16_lines` says which lines those
are); the function clause of `is_covered` is untouched (markers never remove functions). -/
theorem C16_then_filter_covered_iff (fs : List FT) (c : Cov) :
    isCovered (applyFilters fs c) = true ↔
      (∃ n k, (n, k) ∈ c.lines ∧ k ≠ 0 ∧ ¬ removesLine fs n) ∧ fnClause c = true := by
  rw [isCovered_eq, Bool.and_eq_true, anyHit_applyFilters, fnClause_applyFilters]

/-- … spelled out for a file whose source has match bits `ms`: with at most one function in the
record, `--filter covered` reports the file iff some executed line is neither marked nor inside a
line region. -/
theorem C16_then_filter_markers (o : FileFilter.Opts) (ms : List Bits) (hlen : ms.length ≤ U32MAX)
    (c : Cov) (hf : c.functions.length ≤ 1) :
    (rewriteThenFilter o true ms (some true) c).isSome = true ↔
      ∃ n k, (n, k) ∈ c.lines ∧ k ≠ 0 ∧
        ¬ (1 ≤ n ∧ n ≤ ms.length ∧ (lineMarker o ms n ∨ inLineRegion o ms n)) := by
  have hp := (C16_then_filter_partition (create o true ms) c).2.1
  unfold rewriteThenFilter
  rw [hp]
  have hfc : fnClause c = true := by simp [fnClause, hf]
  have key : ∀ n, removesLine (create o true ms) n ↔
      (1 ≤ n ∧ n ≤ ms.length ∧ (lineMarker o ms n ∨ inLineRegion o ms n)) := by
    intro n
    constructor
    · intro hr
      have hrange := removes_range o ms hlen true n (Or.inl hr)
      exact ⟨hrange.1, hrange.2, (removesLine_iff o ms hlen n hrange.1 hrange.2).1 hr⟩
    · rintro ⟨h1, h2, hm⟩
      exact (removesLine_iff o ms hlen n h1 h2).2 hm
  constructor
  · intro h
    have hc : isCovered (applyFilters (create o true ms) c) = true := by
      by_cases hc : isCovered (applyFilters (create o true ms) c) = true
      · exact hc
      · simp [hc] at h
    obtain ⟨⟨n, k, hm, hk, hr⟩, _⟩ := (C16_then_filter_covered_iff _ c).1 hc
    exact ⟨n, k, hm, hk, fun hx => hr ((key n).2 hx)⟩
  · rintro ⟨n, k, hm, hk, hr⟩
    have hc : isCovered (applyFilters (create o true ms) c) = true :=
      (C16_then_filter_covered_iff _ c).2 ⟨⟨n, k, hm, hk, fun hx => hr ((key n).1 hx)⟩, hfc⟩
    simp [hc]

/-- The statement "the covered / uncovered decision is taken on the data as it was read". -/
def C16_filter_before_markers_stmt : Prop :=
  ∀ (fs : List FT) (filter : Option Bool) (c : Cov),
    (thenFilter fs filter c).isSome = filterOk filter c

/-- the record of review item 7: `DA:1,5`, `DA:2,0` -/
def filterWitCov : Cov := { lines := [(1, 5), (2, 0)] }

/-- It is false of the code: line 1 (the only executed line) carries the line marker. The raw record
is covered; after exclusion it is not. -/
theorem C16_filter_before_markers_false : ¬ C16_filter_before_markers_stmt := by
  intro h
  have := h [.line 1] (some true) filterWitCov
  revert this
  decide

/-- … and it holds under exactly the guard the witness violates: no EXECUTED line is excluded
(markers on lines that were not executed, on lines without data, branch markers, do not change
whether a file counts as covered). -/
theorem C16_filter_before_markers_partial (fs : List FT) (filter : Option Bool) (c : Cov)
    (h : ∀ n k, (n, k) ∈ c.lines → k ≠ 0 → ¬ removesLine fs n) :
    (thenFilter fs filter c).isSome = filterOk filter c := by
  have hc : isCovered (applyFilters fs c) = isCovered c := by
    rw [isCovered_eq, isCovered_eq, fnClause_applyFilters]
    congr 1
    rw [Bool.eq_iff_iff, anyHit_applyFilters, anyHit_iff]
    constructor
    · rintro ⟨n, k, hm, hk, _⟩; exact ⟨n, k, hm, hk⟩
    · rintro ⟨n, k, hm, hk⟩; exact ⟨n, k, hm, hk, h n k hm hk⟩
  unfold thenFilter
  cases filter with
  | none => simp [filterOk]
  | some b => cases b <;> cases hx : isCovered c <;> simp [filterOk, hc, hx]

/-! ## `--branch` and the branch markers -/

/-- **main.rs 355-362 does not look at `--branch`.** Whether a command line is accepted, and the six
arguments `FileFilter::new` receives, are the same with and without `--branch`: the three
`--excl-br-*` regexes are handed over in both cases. -/
theorem C16_main_branch_flag_irrelevant (env : MainGlue.Env) (o : MainGlue.Opts) (b : Bool) :
    (match MainGlue.plan env { o with rest := { o.rest with branch := b } } with
      | .ok p => some p.fileFilter
      | .error _ => none)
    = (match MainGlue.plan env o with
      | .ok p => some p.fileFilter
      | .error _ => none) ∧
    ∀ p, MainGlue.plan env o = .ok p →
      p.fileFilter = ⟨o.rest.exclLine, o.rest.exclStart, o.rest.exclStop, o.rest.exclBrLine,
                      o.rest.exclBrStart, o.rest.exclBrStop⟩ := by
  constructor
  · unfold MainGlue.plan
    have e1 : MainGlue.sourceRoot env { o with rest := { o.rest with branch := b } }
        = MainGlue.sourceRoot env o := rfl
    have e2 : MainGlue.threadsOf env { o with rest := { o.rest with branch := b } }
        = MainGlue.threadsOf env o := rfl
    have e3 : MainGlue.mappingSrc env { o with rest := { o.rest with branch := b } }
        = MainGlue.mappingSrc env o := rfl
    have e4 : MainGlue.outBase env { o with rest := { o.rest with branch := b } }
        = MainGlue.outBase env o := rfl
    rw [e1, e2, e3, e4]
    cases MainGlue.sourceRoot env o with
    | error e => rfl
    | ok sr =>
      by_cases ht : MainGlue.threadsOf env o = 0
      · simp [ht]
      · simp only [ht, if_false]
        cases MainGlue.mappingSrc env o with
        | error e => rfl
        | ok ms =>
          cases MainGlue.outBase env o with
          | error e => rfl
          | ok ob => rfl
  · intro p hp
    obtain ⟨sr, ms, ob, _, _, _, _, rfl⟩ := MainGlue.plan_ok hp
    rfl

/-- **A run on JaCoCo reports does not depend on `--branch`** (the JaCoCo reader takes no
`branch_enabled` argument: `Cli.RunAll.contents`), so – with `C16_run_record_branches` – the branch
markers remove the branch data of marked lines of a JaCoCo report with and without `--branch`. -/
theorem C16_run_jacoco_branch_flag_irrelevant (o : Cli.RunAll.Opts) (w : World) (ins : List Input)
    (hj : ∀ i ∈ ins, ∃ b, i = .jacoco b) (b : Bool) :
    run { o with branch := b } w ins = run o w ins := by
  have hc : ∀ (b' : Bool), ∀ i ∈ ins, contents b' i = contents o.branch i ∧ crash b' i = crash o.branch i := by
    intro b' i hi
    obtain ⟨x, rfl⟩ := hj i hi
    exact ⟨rfl, rfl⟩
  have hcrash : ins.findSome? (crash b) = ins.findSome? (crash o.branch) := by
    clear hj
    induction ins with
    | nil => rfl
    | cons i is ih =>
      simp only [List.findSome?_cons]
      rw [(hc b i (List.mem_cons_self ..)).2, ih fun b' j hj => hc b' j (List.mem_cons_of_mem _ hj)]
  have hmap : ∀ (m : List (Key × Cov)),
      ins.foldl (fun m i => addResults (addCanon w.fs o.cfg.sourceDir) m (contents b i)) m
        = ins.foldl (fun m i => addResults (addCanon w.fs o.cfg.sourceDir) m (contents o.branch i)) m := by
    clear hj hcrash
    induction ins with
    | nil => intro m; rfl
    | cons i is ih =>
      intro m
      simp only [List.foldl_cons]
      rw [(hc b i (List.mem_cons_self ..)).1]
      exact ih (fun b' j hj => hc b' j (List.mem_cons_of_mem _ hj)) _
  unfold run records resultMap
  show (match ins.findSome? (crash b) with
    | some s => Res.panic s
    | none => _) = _
  rw [hcrash]
  cases ins.findSome? (crash o.branch) with
  | some s => rfl
  | none =>
    show (match rewritePathsF o.cfg w.fs (filterList { o with branch := b } w)
        (ins.foldl (fun m i => addResults (addCanon w.fs o.cfg.sourceDir) m (contents b i)) []) with
      | .panic s => Res.panic s
      | .ok rs => report { o with branch := b } rs) = _
    rw [hmap]
    rfl

/-! ## non-vacuity -/

/-- the witness of review item 7 end to end on the model of `FileFilter::create`: source line 1
carries the line marker; `--filter covered` drops the file, `--filter uncovered` reports `DA:2,0`,
no `--filter` reports `DA:2,0` too – while the raw record is a covered file. -/
example :
    rewriteThenFilter ⟨true, false, false, false, false, false⟩ true
        [⟨true, false, false, false, false, false⟩, ⟨false, false, false, false, false, false⟩]
        (some true) filterWitCov = none ∧
    rewriteThenFilter ⟨true, false, false, false, false, false⟩ true
        [⟨true, false, false, false, false, false⟩, ⟨false, false, false, false, false, false⟩]
        (some false) filterWitCov = some { lines := [(2, 0)] } ∧
    rewriteThenFilter ⟨true, false, false, false, false, false⟩ true
        [⟨true, false, false, false, false, false⟩, ⟨false, false, false, false, false, false⟩]
        none filterWitCov = some { lines := [(2, 0)] } ∧
    isCovered filterWitCov = true := by decide

/-- the guard of `C16_filter_before_markers_partial` holds when the marker sits on the line that was
not executed: the file stays covered -/
example : (∀ n k, (n, k) ∈ filterWitCov.lines → k ≠ 0 → ¬ removesLine [.line 2] n) ∧
    thenFilter [.line 2] (some true) filterWitCov = some { lines := [(1, 5)] } := by
  refine ⟨?_, by decide⟩
  intro n k hm hk
  simp only [filterWitCov, List.mem_cons, Prod.mk.injEq, List.not_mem_nil, or_false] at hm
  rcases hm with ⟨rfl, rfl⟩ | ⟨rfl, rfl⟩
  · decide
  · exact absurd rfl hk

/-- the hypotheses of `C16_then_filter_markers` hold for the witness (two lines, no function) -/
example : ([⟨true, false, false, false, false, false⟩, ⟨false, false, false, false, false, false⟩] : List Bits).length ≤ U32MAX ∧
    filterWitCov.functions.length ≤ 1 := by decide

end Grcov.Props.C16
