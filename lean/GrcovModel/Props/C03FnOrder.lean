/-
C03 — report fidelity, part FnOrder: the ORDER in which the reports list the functions of a file
(fix 73c9152: `sorted_functions`, name order) and the NAMES under which they list them (the
demangler, on by default: second review, item 5). Model `GrcovModel/Writers/FnOrder.lean`.

* Order. The writers' models sort the table themselves (`sortByName`, `String`'s byte order); the
  listed order is a permutation of the table, ascending, and with distinct names (a map) it is the
  ONLY such list – so two result maps with the same functions give the same bytes in every format
  (`C03_fn_order_same_report`), whatever the iteration order of the hash maps was.
* Names. `dm : Name → Name` is the demangler. The listed table is the renamed table in the order
  of the MANGLED names (`C03_demangle_listed`), nothing else of a report changes
  (`C03_demangle_ranges_unchanged`). Every format prints names, so a reader finds a function under
  its printed name: that is faithful iff `dm` is injective on the names of the file
  (`C03_demangle_partial`); it is FALSE in general (`C03_demangle_false`: `_Z3fooi` / `_Z3food`
  both print as `foo`; finding C03-demangle-collapses-overloads). Per format: what the independent
  readers of `C03CobBytes` / `C03CobAde` / `C03Docs` / `C03JsonBytes` recover from the BYTES written
  with a demangler (`C03_demangle_cobertura_bytes`, `…_ade`, `…_coveralls_bytes`); lcov is in
  `C03Lcov.lean` (`C03_lcov_demangle_decode_partial`, `…_false`).
-/
import GrcovModel.Lemmas.WritersFnOrder
import GrcovModel.Props.C03CobBytes
import GrcovModel.Props.C03CobAde
import GrcovModel.Props.C03Docs
import GrcovModel.Props.C03JsonBytes
namespace Grcov.Props.C03
open Grcov AList Grcov.Stats Grcov.Writers Grcov.Writers.CobAde Grcov.Writers.Docs
open Grcov.Writers.JsonBytes Grcov.Writers.FnOrder

/-! ## the order -/

/-- `String`'s order on the UTF-8 bytes of the names is a total order. -/
theorem C03_fn_name_order_total (a b c : Name) :
    nameLe a a = true ∧ (nameLe a b = true ∨ nameLe b a = true) ∧
    (nameLe a b = true → nameLe b a = true → a = b) ∧
    (nameLe a b = true → nameLe b c = true → nameLe a c = true) :=
  ⟨nameLe_refl a, nameLe_total a b, nameLe_antisymm a b, nameLe_trans a b c⟩

/-- The listed table (`sorted_functions`) has exactly the entries of the map (none added, dropped
or duplicated), names ascending – strictly when they are distinct, as the keys of a map are – and
then it is the only list with these two properties: no other order can be observed. -/
theorem C03_fn_listed_order (fs : List (Name × Fn)) :
    (sortByName fs).Perm fs ∧ SortedByName (sortByName fs) ∧
    (NodupKeys fs → (sortByName fs).Pairwise fun a b => nameLe a.1 b.1 = true ∧ a.1 ≠ b.1) ∧
    (NodupKeys fs → ∀ l : List (Name × Fn), l.Perm fs → SortedByName l → l = sortByName fs) :=
  ⟨sortByName_perm fs, sortByName_sorted fs, sortByName_strict fs, fun hn l p hs =>
    sortedByName_perm_eq l _ hs (sortByName_sorted fs)
      (by unfold NodupKeys at *; exact ((p.map _).nodup_iff).2 hn)
      (p.trans (sortByName_perm fs).symm)⟩

/-- two records with the same lines and branches whose function MAPS are equal (same entries,
any iteration order) -/
def SameButFnOrder (c c' : Cov) : Prop :=
  c.lines = c'.lines ∧ c.branches = c'.branches ∧ c.functions.Perm c'.functions ∧ NodupKeys c.functions

/-- the two lists have the same length and `R` holds position by position -/
def Pointwise {α β : Type} (R : α → β → Prop) : List α → List β → Prop
  | [], [] => True
  | a :: as, b :: bs => R a b ∧ Pointwise R as bs
  | _, _ => False

/-- **Two result maps with the same functions give the same bytes.** If two result sets list the
same files in the same order and differ only in the iteration order of the function maps, then the
lcov report, the Cobertura report, the ActiveData-ETL report and the Coveralls(+) report are the
same byte strings (same demangler, same printed floats / digests). Before 73c9152 the order of
`FN`/`FNDA`, `<method>`, the ade method records and coveralls+ `functions` was the map's. -/
theorem C03_fn_order_same_report (dm : Name → Name) :
    (∀ rs rs' : List (Name × Cov),
      Pointwise (fun r r' => r.1 = r'.1 ∧ SameButFnOrder r.2 r'.2) rs rs' →
        FnOrder.lcov dm rs = FnOrder.lcov dm rs' ∧
        (∀ fill src, coberturaBytes dm fill src rs = coberturaBytes dm fill src rs') ∧
        (∀ pcts, FnOrder.adeBytes dm pcts rs = FnOrder.adeBytes dm pcts rs')) ∧
    (∀ rs rs' : List Res,
      Pointwise (fun r r' => r.abs = r'.abs ∧ r.rel = r'.rel ∧ SameButFnOrder r.cov r'.cov) rs rs' →
        ∀ top digests plus, coverallsBytes dm top digests plus rs = coverallsBytes dm top digests plus rs') := by
  constructor
  · intro rs rs' h
    have e : listedK dm rs = listedK dm rs' := by
      induction rs generalizing rs' with
      | nil => cases rs' with
        | nil => rfl
        | cons _ _ => exact absurd h (by simp [Pointwise])
      | cons r rs ih => cases rs' with
        | nil => exact absurd h (by simp [Pointwise])
        | cons r' rs' =>
          obtain ⟨⟨h1, h2, h3, h4, h5⟩, ht⟩ := h
          simp only [listedK, List.map_cons] at ih ⊢
          rw [ih rs' ht, h1, listed_congr dm r.2 r'.2 h2 h3 h4 h5]
    simp only [FnOrder.lcov, coberturaBytes, FnOrder.cobertura, FnOrder.adeBytes, FnOrder.ade, e]
    exact ⟨trivial, fun _ _ => trivial, fun _ => trivial⟩
  · intro rs rs' h top digests plus
    have e : listedRes dm rs = listedRes dm rs' := by
      induction rs generalizing rs' with
      | nil => cases rs' with
        | nil => rfl
        | cons _ _ => exact absurd h (by simp [Pointwise])
      | cons r rs ih => cases rs' with
        | nil => exact absurd h (by simp [Pointwise])
        | cons r' rs' =>
          obtain ⟨⟨h0, h1, h2, h3, h4, h5⟩, ht⟩ := h
          simp only [listedRes, List.map_cons] at ih ⊢
          rw [ih rs' ht, h0, h1, listed_congr dm r.cov r'.cov h2 h3 h4 h5]
    simp only [coverallsBytes, coveralls, e]

/-! ## the names -/

/-- Listing touches the function table only: lines and branch vectors are the record's own; the
listed table is the table with every function under its printed name, start line and executed flag
unchanged, none added, dropped or duplicated (a permutation: the order is that of the mangled
names); with demangling off it is the sorted table. -/
theorem C03_demangle_listed (dm : Name → Name) (c : Cov) :
    (listed dm c).lines = c.lines ∧ (listed dm c).branches = c.branches ∧
    (listed dm c).functions = renameTable dm (sortByName c.functions) ∧
    (listed dm c).functions.Perm (renameFns dm c).functions ∧
    (listed dm c).functions.length = c.functions.length ∧
    listed id c = sortFnsCov c :=
  ⟨rfl, rfl, rfl, listed_functions_perm dm c, length_listed_functions dm c, listed_id c⟩

/-- Neither the order nor the names change which lines a function is given: `func_end`, the lines
in a function's range, the `<line>` built for a number, the ade range test and the set of claimed
lines are those of the record itself. (So every theorem of `C03CobAde` about ranges, orphans and
totals speaks about the written report with `c` for `listed dm c`.) -/
theorem C03_demangle_ranges_unchanged (dm : Name → Name) (c : Cov) :
    (∀ s, funcEnd (listed dm c) s = funcEnd c s) ∧
    (∀ f, linesInFunction (listed dm c) f = linesInFunction c f) ∧
    (∀ n, lineFromNumber (listed dm c) n = lineFromNumber c n) ∧
    (∀ f x, inFn (listed dm c) f x = inFn c f x) ∧
    (∀ x, claimed (listed dm c) x = claimed c x) :=
  ⟨funcEnd_listed dm c, linesInFunction_listed dm c, lineFromNumber_listed dm c, inFn_listed dm c,
   claimed_listed dm c⟩

/-- Full statement: a reader that keys the functions of a file by the names the report prints
finds every function of the file, with its start line and executed flag, under its printed name. -/
def C03_demangle_stmt : Prop :=
  ∀ (dm : Name → Name) (c : Cov), NodupKeys c.functions →
    ∀ n ∈ keys c.functions, get? (fnTable (listed dm c).functions) (dm n) = get? c.functions n

/-- `_Z3fooi`, start 3, executed -/
def witFooInt : Name × Fn := ([95, 90, 51, 102, 111, 111, 105], ⟨3, true⟩)
/-- `_Z3food`, start 9, not executed -/
def witFooDouble : Name × Fn := ([95, 90, 51, 102, 111, 111, 100], ⟨9, false⟩)
/-- the two overloads of `foo` in one file -/
def witOverloads : Cov := { lines := [(3, 1), (9, 0)], functions := [witFooInt, witFooDouble] }
/-- `DemangleOptions::name_only()`: both print as `foo` -/
def witDm : Name → Name := dmOfTable [(witFooInt.1, [102, 111, 111]), (witFooDouble.1, [102, 111, 111])]

/-- It is false of the code with demangling on (the default): the two overloads `foo(int)` and
`foo(double)` are listed as `foo` twice; under that name a reader has ONE function – start line 9
of the overload that was not executed is gone, `foo` reads as executed (known finding C03-demangle-collapses-overloads; grcov's own lcov
reader yields `FN:9,foo` with `FNDA:1`, see `C03_lcov_demangle_false`). -/
theorem C03_demangle_false : ¬ C03_demangle_stmt := by
  intro h
  have := h witDm witOverloads (by unfold NodupKeys; decide) witFooDouble.1 (by decide)
  revert this; decide

/-- … and true under exactly the guard the witness violates: the demangler is injective on the
names of the file. Then the printed names are distinct, the reader's table IS the listed table,
it has as many entries as the file has functions, and every function is found under its printed
name with its own start line and executed flag. -/
theorem C03_demangle_partial (dm : Name → Name) (c : Cov) (hn : NodupKeys c.functions)
    (hi : DmInjOn dm c.functions) :
    NodupKeys (listed dm c).functions ∧
    fnTable (listed dm c).functions = (listed dm c).functions ∧
    (fnTable (listed dm c).functions).length = c.functions.length ∧
    ∀ n ∈ keys c.functions, get? (fnTable (listed dm c).functions) (dm n) = get? c.functions n := by
  have hl := nodupKeys_listed dm c hn hi
  refine ⟨hl, fnTable_of_nodup _ hl, ?_, fun n hmem => ?_⟩
  · rw [fnTable_of_nodup _ hl, length_listed_functions]
  · rw [fnTable_of_nodup _ hl]; exact get?_listed dm c hn hi n hmem

/-- `--no-demangle` satisfies the guard for every file. -/
theorem C03_demangle_off_guard (fs : List (Name × Fn)) : DmInjOn id fs := fun _ _ _ _ h => h

/-- Whatever the demangler, a reader's table never has two entries of one name and never has more
entries than the report lists. -/
theorem C03_demangle_reader_table (fs : List (Name × Fn)) : NodupKeys (fnTable fs) :=
  nodupKeys_fnTable fs

/-! ## per format: what the readers recover from a report written with a demangler -/

/-- Cobertura: decoding the BYTES written with demangler `dm` gives, file by file and in order,
the lines with hits, the branch vectors of instrumented lines and the PRINTED function names in
the order of the mangled names. -/
theorem C03_demangle_cobertura_bytes (dm : Name → Name) (src : Option Name) (rs : List (Name × Cov))
    (fill : CobBytes.Fill) (hnd : ∀ r ∈ rs, NodupKeys r.2.lines) (hfill : CobBytes.FillOk fill)
    (hok : CobBytes.DocOk (coberturaDoc src (listedK dm rs))) (hp : lastPlusOnePanics rs = false) :
    ∃ b, coberturaBytes dm fill src rs = .ok b ∧
      CobBytes.decodeReport b = some (rs.map fun r => (r.1, cobProj (listed dm r.2))) ∧
      ∀ r ∈ rs, (cobProj (listed dm r.2)).lines = r.2.lines ∧
        (cobProj (listed dm r.2)).fnNames = (sortByName r.2.functions).map fun nf => dm nf.1 := by
  have hp' : lastPlusOnePanics (listedK dm rs) = false := by
    rw [← hp]; unfold lastPlusOnePanics listedK; rw [List.any_map]; rfl
  refine ⟨CobBytes.reportBytes fill (coberturaDoc src (listedK dm rs)), ?_, ?_, ?_⟩
  · simp [coberturaBytes, FnOrder.cobertura, CobAde.cobertura, hp']
  · have := C03_cobbytes_decode_bytes src (listedK dm rs) fill
      (by intro r hr; simp only [listedK, List.mem_map] at hr; obtain ⟨r0, h0, rfl⟩ := hr; exact hnd r0 h0)
      hfill hok
    rw [this]; simp [listedK, List.map_map, Function.comp_def]
  · intro r _
    refine ⟨rfl, ?_⟩
    simp [cobProj, listed_functions, renameTable, keys, List.map_map, Function.comp_def]

/-- ActiveData-ETL: the method records name, file by file, the printed names in the order of the
mangled names; the file records are untouched by the demangler. -/
theorem C03_demangle_ade (dm : Name → Name) (rs : List (Name × Cov)) (hp : lastPlusOnePanics rs = false) :
    ∃ recs, FnOrder.ade dm rs = .ok recs ∧
      decodeAdeFns recs = (rs.flatMap fun r => (sortByName r.2.functions).map fun nf => (r.1, dm nf.1)) ∧
      decodeAdeFiles recs = rs.map fun r => (r.1, adeCovered r.2.lines, adeUncovered r.2.lines) := by
  have hp' : lastPlusOnePanics (listedK dm rs) = false := by
    rw [← hp]; unfold lastPlusOnePanics listedK; rw [List.any_map]; rfl
  refine ⟨adeDoc (listedK dm rs), by simp [FnOrder.ade, CobAde.ade, hp'], ?_, ?_⟩
  · rw [(C03_ade_decode _).2]
    simp [listedK, List.flatMap_map, listed_functions, renameTable, List.map_map, Function.comp_def]
  · rw [(C03_ade_decode _).1]
    simp [listedK, List.map_map, Function.comp_def]

/-- Coveralls+: the bytes parse to one entry per file whose `functions` are the (printed name,
start, exec) triples of the file in the order of the mangled names – every triple is there, also
when two names print alike (the format lists, it does not key); plain Coveralls has no functions. -/
theorem C03_demangle_coveralls_bytes (dm : Name → Name) (top : CvTop) (digests : List Escape.Bytes)
    (plus : Bool) (rs : List Res) (g : CvGuard rs) (hg : wf top.git = true) :
    ∃ b d, coverallsBytes dm top digests plus rs = some b ∧
      (jsonParse b).bind decodeCoverallsJson = some d ∧
      d = (listedRes dm rs).map (cvFileOk plus) ∧
      d.map (·.name) = rs.map (·.rel) ∧
      d.map (fun f => f.functions.map uncvFns) = rs.map fun r =>
        if plus then some (renameTable dm (sortByName r.cov.functions)) else none := by
  have g' : CvGuard (listedRes dm rs) := by
    intro r hr
    simp only [listedRes, List.mem_map] at hr
    obtain ⟨r0, h0, rfl⟩ := hr
    exact g r0 h0
  obtain ⟨h1, _⟩ := C03_coveralls_doc_partial true plus (listedRes dm rs) g'
  refine ⟨jsonSerialize (coverallsJson top digests ((listedRes dm rs).map (cvFileOk plus))),
    (listedRes dm rs).map (cvFileOk plus), by simp [coverallsBytes, coveralls, h1], ?_, rfl, ?_, ?_⟩
  · exact C03_json_coveralls_bytes top digests _ hg
  · simp [listedRes, cvFileOk, List.map_map, Function.comp_def]
  · cases plus
    · simp [listedRes, cvFileOk, List.map_map, Function.comp_def]
    · simp [listedRes, cvFileOk, List.map_map, Function.comp_def, uncvFns_cvFns, listed_functions]

/-! ## non-vacuity -/

/-- `zeta`, `_ZN1aC1Ev`, `alpha`, `Alpha` as a hash map might iterate them -/
def witTable : List (Name × Fn) :=
  [([122, 101, 116, 97], ⟨9, true⟩), ([95, 90, 78, 49, 97, 67, 49, 69, 118], ⟨1, false⟩),
   ([97, 108, 112, 104, 97], ⟨5, true⟩), ([65, 108, 112, 104, 97], ⟨5, false⟩)]

/-- byte order: `Alpha` < `_ZN1aC1Ev` < `alpha` < `zeta` -/
example : keys (sortByName witTable) =
    [[65, 108, 112, 104, 97], [95, 90, 78, 49, 97, 67, 49, 69, 118], [97, 108, 112, 104, 97], [122, 101, 116, 97]] := by
  decide
example : NodupKeys witTable := by unfold NodupKeys; decide
example : sortByName witTable.reverse = sortByName witTable := by decide
example : SameButFnOrder { functions := witTable } { functions := witTable.reverse } :=
  ⟨rfl, rfl, (List.reverse_perm _).symm, by unfold NodupKeys; decide⟩
/-- a proper prefix sorts first, bytes ≥ 128 after ASCII: `f` < `f2` < `é` -/
example : nameLe [102] [102, 50] = true ∧ nameLe [102, 50] [195, 169] = true ∧ nameLe [195, 169] [102] = false := by
  decide
/-- the witness: listed as `foo`, `foo` (mangled order: `_Z3food` < `_Z3fooi`), one entry for a reader -/
example : (listed witDm witOverloads).functions = [([102, 111, 111], ⟨9, false⟩), ([102, 111, 111], ⟨3, true⟩)] := by
  decide
example : fnTable (listed witDm witOverloads).functions = [([102, 111, 111], ⟨3, true⟩)] := by decide
example : ¬ DmInjOn witDm witOverloads.functions := by
  intro h
  have := h witFooInt.1 (by decide) witFooDouble.1 (by decide) (by decide)
  revert this; decide
/-- a demangler that keeps the overloads apart satisfies the guard -/
example : DmInjOn (dmOfTable [(witFooInt.1, [102, 40, 105, 41]), (witFooDouble.1, [102, 40, 100, 41])])
    witOverloads.functions := by
  intro f hf g hg
  have hf' : f = witFooInt.1 ∨ f = witFooDouble.1 := by simpa [witOverloads, keys] using hf
  have hg' : g = witFooInt.1 ∨ g = witFooDouble.1 := by simpa [witOverloads, keys] using hg
  rcases hf' with rfl | rfl <;> rcases hg' with rfl | rfl <;> decide

end Grcov.Props.C03
