/-
C15, last sentence – "a gcda whose version or checksums do not match the gcno is never mixed in:
the computation for that notes file fails with an error instead" – for per-function checksums.
`C15_mismatch_rejected` (Props/C15.lean) shows `≠ ok`; the outcome can be the overflow crash of a
record BEFORE the bad one (counters near 2^64: known finding C14-gcno-counter-overflow).  Below the
overflow guard – all counters of all gcda files together fit a u64 – it is an error, wherever the
mismatching gcda stands, and the error kind does not depend on the order of the matching ones.
-/
import GrcovModel.Lemmas.GcnoMismatch
import GrcovModel.Lemmas.GcnoSafeSize
namespace Grcov.Props.C15
open Grcov Grcov.Gcno AList Outcome

/-- **A mismatching gcda makes the computation an error** (not a crash, not a partial result):
well-formed notes (what `read_gcno` builds), record streams as the byte reader delivers them, all
counters together within u64, and somewhere in the list a gcda with a wrong version, checksum, or
function record (unknown identifier, wrong line/cfg checksum, bad length, truncated). -/
theorem C15_fn_mismatch_is_error (g : Notes) (hg : g.WF) (ds : List Gcda) (d : Gcda) (br : Bool)
    (hc : ∀ d ∈ ds, ∀ r ∈ d.recs, r.notCrash) (hguard : counterTotal ds ≤ U64MAX)
    (hd : d ∈ ds) (hm : Mismatch g d) : ∃ k, compute g ds br = err k := by
  have hs := addGcdas_below hg ds State.zero 0 hc State.zero_below (by omega)
  unfold compute
  cases h : addGcdas g State.zero ds with
  | ok st => exact absurd hd (addGcdas_ok_no_mismatch hm ds _ _ h)
  | err k => exact ⟨k, rfl⟩
  | crash s => rw [h] at hs; exact hs.elim
  | diverge => rw [h] at hs; exact hs.elim

/-- **The error kind does not depend on where the mismatching gcda stands**: with the other gcda
files all matching (accepted together) and in any order before and after it, both computations
fail with the same error. -/
theorem C15_fn_mismatch_error_kind_order_independent (g : Notes) (hg : g.WF)
    (pre post pre' post' : List Gcda) (d : Gcda) (br : Bool)
    (hc : ∀ x ∈ pre ++ d :: post, ∀ r ∈ x.recs, r.notCrash)
    (hguard : counterTotal (pre ++ d :: post) ≤ U64MAX)
    (hp : (pre ++ post).Perm (pre' ++ post'))
    (hothers : ∃ st, addGcdas g State.zero (pre ++ post) = ok st) (hm : Mismatch g d) :
    ∃ k, compute g (pre ++ d :: post) br = err k ∧ compute g (pre' ++ d :: post') br = err k := by
  obtain ⟨st, hst⟩ := hothers
  have hst' := addGcdas_perm hp _ _ State.zero_Fits hst
  -- the prefixes are accepted
  have prefix_ok : ∀ (a b : List Gcda) (s : State), addGcdas g State.zero (a ++ b) = ok s →
      ∃ s1, addGcdas g State.zero a = ok s1 := by
    intro a b s h
    unfold addGcdas at h ⊢
    rw [foldl_append] at h
    obtain ⟨s1, h1, _⟩ := bind_eq_ok.1 h
    exact ⟨s1, h1⟩
  obtain ⟨s1, h1⟩ := prefix_ok pre post st hst
  obtain ⟨s1', h1'⟩ := prefix_ok pre' post' st hst'
  have hperm : (pre ++ d :: post).Perm (pre' ++ d :: post') :=
    (List.perm_middle).trans ((List.Perm.cons d hp).trans List.perm_middle.symm)
  have hc' : ∀ x ∈ pre' ++ d :: post', ∀ r ∈ x.recs, r.notCrash :=
    fun x hx => hc x (hperm.mem_iff.2 hx)
  have hguard' : counterTotal (pre' ++ d :: post') ≤ U64MAX := by
    rw [← counterTotal_perm hperm]; exact hguard
  -- the run up to and including `d`, in either arrangement
  have step : ∀ (a b : List Gcda) (s : State), addGcdas g State.zero a = ok s →
      (∀ x ∈ a ++ d :: b, ∀ r ∈ x.recs, r.notCrash) → counterTotal (a ++ d :: b) ≤ U64MAX →
      ∃ k, addGcda g s d = err k ∧ compute g (a ++ d :: b) br = err k := by
    intro a b s ha hca hga
    have hs := addGcdas_below hg (a ++ d :: b) State.zero 0 hca State.zero_below (by omega)
    have e : addGcdas g State.zero (a ++ d :: b) =
        (addGcda g s d).bind fun s2 => addGcdas g s2 b := by
      unfold addGcdas at ha ⊢
      rw [foldl_append, ha]; rfl
    rw [e] at hs
    cases hd : addGcda g s d with
    | ok s2 =>
      have : addGcdas g s [d] = ok s2 := by rw [addGcdas_cons, hd]; rfl
      exact absurd (by simp) (addGcdas_ok_no_mismatch hm [d] _ _ this)
    | err k =>
      refine ⟨k, rfl, ?_⟩
      unfold compute
      rw [e, hd]; rfl
    | crash s' => rw [hd] at hs; exact hs.elim
    | diverge => rw [hd] at hs; exact hs.elim
  obtain ⟨k, hk, hck⟩ := step pre post s1 h1 hc hguard
  obtain ⟨k', hk', hck'⟩ := step pre' post' s1' h1' hc' hguard'
  have hind := addGcda_indep g s1 s1' d (by rw [hk]; intro e; cases e)
  rw [hk, hk'] at hind
  rcases hind with e | e
  · cases e
  · simp only [Outcome.err.injEq] at e
    exact ⟨k, hck, e ▸ hck'⟩

/-! ### the hypotheses are satisfiable, and the guard is needed -/

/-- the overflow guard, the shape and the mismatch of the example of Props/C15.lean -/
def badFn : Gcda := ⟨48, 7, [.func 3 1 11 23, .arcs 6 [1, 1, 1]]⟩
def goodRun (a b c : Nat) : Gcda := ⟨48, 7, [.func 3 1 11 22, .arcs 6 [a, b, c]]⟩
def exNotes' : Outcome Notes :=
  build 48 7
    [.func 1 11 22 [102] [97, 46, 99] 10 0, .blocks 6,
     .arcs 0 [(2, 0)], .arcs 2 [(3, 0), (4, 1)], .arcs 3 [(5, 0)], .arcs 4 [(5, 1)],
     .arcs 5 [(1, 1)],
     .lines 2 [.file [97, 46, 99], .line 10], .lines 3 [.file [97, 46, 99], .line 11],
     .lines 4 [.file [97, 46, 99], .line 12], .lines 5 [.file [97, 46, 99], .line 13, .line 10]]

/-- the mismatching gcda after, between and before matching ones: always `err fnChecksum` -/
example : (exNotes'.bind fun g => compute g [goodRun 5 2 2, goodRun 1 0 0, badFn] true).errKind?
    = some .fnChecksum := by decide +kernel
example : (exNotes'.bind fun g => compute g [goodRun 1 0 0, badFn, goodRun 5 2 2] true).errKind?
    = some .fnChecksum := by decide +kernel
example : (exNotes'.bind fun g => compute g [badFn, goodRun 5 2 2, goodRun 1 0 0] true).errKind?
    = some .fnChecksum := by decide +kernel
/-- above the guard the outcome can be the overflow crash of a record before the bad one -/
example : (exNotes'.bind fun g => compute g
    [goodRun (2 ^ 63) 0 0, ⟨48, 7, [.func 3 1 11 22, .arcs 6 [2 ^ 63, 0, 0], .func 3 1 11 23]⟩]
    true).crashSite? = some .overflow := by decide +kernel

end Grcov.Props.C15
