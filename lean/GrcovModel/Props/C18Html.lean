/-
C18 — reports stay well-formed whatever the names and source text contain, part Html: whole pages
(`Writers/HtmlBytes.lean`, the byte-for-byte model of Tera's rendering of grcov's templates), not
only the sink fragments of `Escape.lean`.

* `skeleton` is what an HTML tokenizer makes of a document as far as its STRUCTURE goes: every tag
  with its attribute names, `=""` for every attribute value; character data and the content of
  attribute values dropped (tied on every run to Python's html.parser on the real pages).
  `C18_htmlb_*_skeleton`: the skeleton of a page is a function of four numbers only – `--branch`,
  whether a date is shown, the number of breadcrumb parents, the number of rows. File names,
  directory names, link prefixes, source text (any bytes), counts and statistics do not enter it:
  no input can add, remove or alter an element or an attribute.
* `C18_htmlb_*_markup_chars`: the same for the sequence of `<` `>` `"` `'` bytes of the page (none
  of them comes from a name or a source line, for all inputs).
* `C18_htmlb_*_amp`: every `&` on a page is the first byte of one of the six entities Tera emits.
* the escaped values are read back exactly by the strict readers: C03's
  `C03_htmlb_file_page_read_back` / `C03_htmlb_index_page_read_back`.
All for every context: no guard on names or text (control characters included).
-/
import GrcovModel.Lemmas.WritersHtmlBytes
namespace Grcov.Props.C18
open Grcov Grcov.Escape Grcov.Writers Grcov.Writers.HtmlBytes

/-- File page: the element / attribute skeleton is `fileSkel` of (branch flag, date shown, number
of breadcrumb parents, number of rows) – for every context. -/
theorem C18_htmlb_file_skeleton (fc : FileCtx) :
    skeleton (filePage fc) =
      fileSkel fc.page.conf.branch fc.page.conf.date.isSome fc.page.parents.length fc.items.length :=
  skeleton_filePage fc

/-- Index page: likewise. -/
theorem C18_htmlb_index_skeleton (ic : IndexCtx) :
    skeleton (indexPage ic) =
      indexSkel ic.page.conf.branch ic.page.conf.date.isSome ic.page.parents.length ic.rows.length :=
  skeleton_indexPage ic

/-- two file-page contexts have the same row structure -/
def SameFileShape (a b : FileCtx) : Prop :=
  a.page.conf.branch = b.page.conf.branch ∧ a.page.conf.date.isSome = b.page.conf.date.isSome ∧
    a.page.parents.length = b.page.parents.length ∧ a.items.length = b.items.length

/-- Two file pages that differ in names, links, source text, counts, statistics, precision, limits
(in anything but the four shape numbers) have the same skeleton: a hostile name or source line
cannot add elements, attributes or scripts. -/
theorem C18_htmlb_file_skeleton_independent (a b : FileCtx) (h : SameFileShape a b) :
    skeleton (filePage a) = skeleton (filePage b) := by
  obtain ⟨h1, h2, h3, h4⟩ := h
  rw [C18_htmlb_file_skeleton, C18_htmlb_file_skeleton, h1, h2, h3, h4]

def SameIndexShape (a b : IndexCtx) : Prop :=
  a.page.conf.branch = b.page.conf.branch ∧ a.page.conf.date.isSome = b.page.conf.date.isSome ∧
    a.page.parents.length = b.page.parents.length ∧ a.rows.length = b.rows.length

theorem C18_htmlb_index_skeleton_independent (a b : IndexCtx) (h : SameIndexShape a b) :
    skeleton (indexPage a) = skeleton (indexPage b) := by
  obtain ⟨h1, h2, h3, h4⟩ := h
  rw [C18_htmlb_index_skeleton, C18_htmlb_index_skeleton, h1, h2, h3, h4]

/-- The `<` `>` `"` `'` bytes of a file page, in order, are a function of the four shape numbers:
none of them comes from a name, a link or a source line. -/
theorem C18_htmlb_file_markup_chars (fc : FileCtx) :
    metaOf (filePage fc) =
      fileMeta fc.page.conf.branch fc.page.conf.date.isSome fc.page.parents.length fc.items.length :=
  metaOf_filePage fc

theorem C18_htmlb_index_markup_chars (ic : IndexCtx) :
    metaOf (indexPage ic) =
      indexMeta ic.page.conf.branch ic.page.conf.date.isSome ic.page.parents.length ic.rows.length :=
  metaOf_indexPage ic

/-- Every `&` of a file page starts one of `&amp; &lt; &gt; &quot; &#x27; &#x2F;` (position by
position: `Escape.ampOk_spec`). -/
theorem C18_htmlb_file_amp (fc : FileCtx) : ampOk htmlEntities (filePage fc) = true := ampOK_filePage fc

theorem C18_htmlb_index_amp (ic : IndexCtx) : ampOk htmlEntities (indexPage ic) = true := ampOK_indexPage ic

/-- Every page `gen_html` writes is such a file page, and every page `gen_index` writes such an
index page: the statements above hold for every `.html` file of a report. -/
theorem C18_htmlb_every_written_page (o : Opts) (r : Docs.Res) (src : List Nat) (g g' : Global) (w : Written)
    (h : genHtml o r (some src) g = some (g', some w)) : ∃ fc, w.2 = filePage fc := by
  unfold genHtml at h
  split at h
  · simp at h
  · simp only at h
    split at h
    · rename_i parent fname fc dest hfc hd
      simp only [Option.some.injEq, Prod.mk.injEq] at h
      obtain ⟨_, rfl⟩ := h
      exact ⟨fc, rfl⟩
    · simp at h

theorem C18_htmlb_every_written_index (conf : Conf) (g : Global) :
    ∀ w ∈ indexWrites conf g, ∃ ic, w.2 = indexPage ic := by
  intro w hw
  unfold indexWrites at hw
  rcases List.mem_cons.mp hw with rfl | hw
  · exact ⟨_, rfl⟩
  · obtain ⟨d, _, rfl⟩ := List.mem_map.mp hw
    exact ⟨_, rfl⟩

/-- The whole report: every `.html` file that `output_html` leaves below the output directory (file
pages, directory indexes, the global index; a later write replacing an earlier one) has the
skeleton and the markup characters of a file page or of an index page of some shape, and no stray
`&` – for all result sets, source trees and options. -/
theorem C18_htmlb_site (o : Opts) (jobs : List (Docs.Res × Option (List Nat))) (files : List (List Name × List Nat))
    (h : site o jobs = some files) :
    ∀ f ∈ files, ampOk htmlEntities f.2 = true ∧
      ((∃ b d np nr, skeleton f.2 = fileSkel b d np nr ∧ metaOf f.2 = fileMeta b d np nr) ∨
       (∃ b d np nr, skeleton f.2 = indexSkel b d np nr ∧ metaOf f.2 = indexMeta b d np nr)) := by
  intro f hf
  rcases site_files o jobs files h f hf with ⟨fc, e⟩ | ⟨ic, e⟩
  · rw [e]
    exact ⟨C18_htmlb_file_amp fc, Or.inl ⟨_, _, _, _, C18_htmlb_file_skeleton fc, C18_htmlb_file_markup_chars fc⟩⟩
  · rw [e]
    exact ⟨C18_htmlb_index_amp ic, Or.inr ⟨_, _, _, _, C18_htmlb_index_skeleton ic, C18_htmlb_index_markup_chars ic⟩⟩

/-! Non-vacuity: a hostile context and a harmless one of the same shape. -/

/-- `<script>` as file name, `"><img src=x>` as parent label, `</pre><script>alert(1)</script>` as
source line -/
def exHostile : FileCtx :=
  { page := { conf := { branch := false, precision := 2, date := none, bundled := false }, root := some 1
              current := [60, 115, 99, 114, 105, 112, 116, 62]
              parents := [([46, 46, 47], [116]), ([34, 62, 60, 105, 109, 103, 32, 115, 114, 99, 61, 120, 62], [39, 38])]
              stats := ⟨3, 1, 0, 0, 0, 0⟩ }
    items := [⟨1, 18446744073709551615, [60, 47, 112, 114, 101, 62, 60, 115, 99, 114, 105, 112, 116, 62, 97, 108,
      101, 114, 116, 40, 49, 41, 60, 47, 115, 99, 114, 105, 112, 116, 62]⟩, ⟨2, -1, [38, 34, 39]⟩] }

def exBenign : FileCtx :=
  { page := { conf := { branch := false, precision := 0, date := none, bundled := true }, root := none
              current := [97], parents := [([], []), ([], [])], stats := ⟨0, 0, 0, 0, 0, 0⟩ }
    items := [⟨1, 0, []⟩, ⟨2, 0, []⟩] }

example : (site ⟨exHostile.page.conf, none⟩ [(⟨[47, 97], [100, 47, 60, 98, 62], {}⟩, some [60, 10])]).isSome = true := by
  decide +kernel
example : SameFileShape exHostile exBenign := by unfold SameFileShape; decide
example : filePage exHostile ≠ filePage exBenign := by decide +kernel
example : skeleton (filePage exHostile) = skeleton (filePage exBenign) := by decide +kernel

end Grcov.Props.C18
