/-
C17 — input discovery is complete, exact and independent of packaging.
Property theorems about the model `Producer.run` of `grcov::producer` (GrcovModel/Producer.lean);
helper lemmas in GrcovModel/Lemmas/Producer.lean.

Vocabulary. A layout is a list of arguments (directory / zip / plain file, `Arg`). `arts L args` is
the list of its artifacts: every file of every archive with what `handle_file` takes it for
(`Cls`: gcno with stem and LLVM flag, gcda with stem, info, xml, profraw, profdata, linked map,
ignored) and its content id. `closed o as` is the item multiset written as a function of the
artifact list alone: one `content` item per info / xml artifact, one `paths` item per non-empty
profile family, and per gcno key (stem, llvm) – with the content `g` of the last gcno of that key
and the contents `ds` of ALL gcda artifacts of that stem – `gcnoObs`: LLVM: one buffer item with
the multiset `ds`; GCC: one item (g, d) per `d ∈ ds`; no gcda: one item without gcda unless
orphans are ignored. `Item.obs` forgets what packaging necessarily changes (the archive name) and
the order of gcda buffers; multisets are lists up to `List.Perm`.

Full strength: `C17_items_exact`, `C17_arg_order_partial`/`C17_packaging_invariant_partial` for
every layout in which gcno files with the same (stem, llvm) key have the same content; without
that guard the statement is false of the code (`C17_packaging_invariant_false`, finding
C17-gcno-same-stem-last-wins). The sniffing theorems (`C17_info_signature`, `C17_xml_signature`)
are full strength: an `.xml` is used iff the JaCoCo DTD marker occurs in its first 256 bytes,
whatever its length and encoding (after fix 82d1c8b).

The path mapping (`linked-files-map.json`) is part of the outcome: `OutcomeEquivM` = `OutcomeEquiv`
plus "whatever the two runs may return as mapping is the same" (`mappingMay`: `get_mapping` returns
the first entry of a hash map, i.e. any candidate). `C17_packaging_invariant_mapping_partial` /
`C17_arg_order_mapping_partial`: invariant when at most one distinct map content exists
(`MapConsistent`); without that guard false (`C17_packaging_invariant_mapping_false`: two archives
each holding a different `linked-files-map.json` – the argument order decides; finding
C17-two-path-mappings-first-wins).

Zip archives by their RAW entry names (`Producer/Zip.lean`, after fix 2f541c3): `zipListed` is what
`explore` lists of a raw archive (directory entries skipped, names with NUL / `..` / a root
rejected, the rest under their canonical spelling, a canonical spelling only once) together with
the content `read`/`extract` deliver under each listed name. `C17_zip_listing_unique`: the listing
never holds a path twice, so `WF` needs to be assumed for directories and plain arguments only
(`C17_items_exact_raw`). `C17_zip_entries_exact_partial`: when no two entries of the archive share
a canonical spelling, EVERY listable entry is an artifact under its canonical name with its own
bytes – `a//b.info`, `a/./b.info`, `./a.info` are used exactly like `a/b.info`, `a.info`
(review item 8; silently unused before the fix). With several entries of one canonical spelling
exactly ONE is the artifact: the first in index order that is not a directory entry and has a safe
name – it is listed, sniffed AND read; the later ones are skipped with a warning
(`C17_zip_entries_exact`, full strength since fix 99c0f28; before it `zip_index` preferred an entry
whose raw name is the canonical spelling and otherwise took the first entry of that spelling
DIRECTORY ENTRIES INCLUDED: `C17_old_lookup_read_other_entry`, the repaired finding
C17-zip-same-canonical-name-reads-other-entry, witnesses in corpus/C17).
Domain restriction of the whole property (review item 34): the archives of a layout are DISJOINT
sets of files. `Arg` cannot say that two archives hold the same physical file; an argument given
twice, or a directory and one of its sub-directories, are layouts in which every shared file is an
artifact twice, and is counted twice (`C17_repeated_argument_false`; finding
C17-overlapping-arguments-counted-twice). A directory is the list of files `WalkDir` yields
without following links to directories (finding C17-linked-subdirectory-not-walked: a zip made
of the same tree holds the files behind the link).
`itemsOf` / `candsOf` (the two components of a successful outcome) are not separate driver ops:
`C17_outcome` = `run_cases` reduces them to `run`, which the harness ties.

Argument classification (`classifyArg`, `RawArg`, `runRaw`): `Arg` is an argument after
classification; `C17_arg_classification` says which argument string with which file-system facts
is taken for a zip, a directory, a plain file, or makes `producer()` panic (and with which
message); `C17_raw_run` connects `runRaw` to `run`, so every theorem above applies to raw
arguments that classify without panic.
-/
import GrcovModel.Lemmas.Producer
import GrcovModel.Lemmas.ProducerZip
namespace Grcov.Props.C17
open Grcov Grcov.Producer AList

/-- Exactness. For every layout (paths unique inside each archive, admissible plain arguments, at
least one usable artifact) the run succeeds and the items it sends are, as a multiset and archive
names aside, exactly `closed`: every info/xml/profile artifact once, every gcno key once per gcda
of its stem (GCC) or once with all of them (LLVM). -/
theorem C17_items_exact (o : Opts) (args : List Arg) (hw : WF args)
    (hb : args.any Arg.bad = false) (hu : (arts o.isLlvm args).any Art.usable = true) :
    ∃ items maps, run o args = .ok items maps ∧
      (items.map Item.obs).Perm (closed o (arts o.isLlvm args)) := by
  refine ⟨itemsOf o args, candsOf o args, ?_, itemsOf_obs o args hw⟩
  rw [run_cases]; simp [hb, hu]

/-- The three outcomes of `producer()` and when each happens: a plain argument with another
extension panics before anything is read; otherwise the run fails with "No input files found"
exactly when no artifact is usable (gcda, linked-files-map.json and ignored files do not count). -/
theorem C17_outcome (o : Opts) (args : List Arg) :
    run o args =
      if args.any Arg.bad then .panicBadArg
      else if (arts o.isLlvm args).any Art.usable then .ok (itemsOf o args) (candsOf o args)
      else .panicNoInput := run_cases o args

/-- No usable input ⇒ failure, and only then. -/
theorem C17_empty_fails (o : Opts) (args : List Arg) :
    run o args = .panicNoInput ↔
      args.any Arg.bad = false ∧ (arts o.isLlvm args).any Art.usable = false := by
  rw [run_cases]
  cases hb : args.any Arg.bad <;> cases hu : (arts o.isLlvm args).any Art.usable <;> simp

/-- Packaging invariance. Two layouts – any split into directories, zips and plain files, any
argument order, any ignored files added or removed – whose non-ignored artifacts form the same
multiset give equivalent outcomes: both fail, or both deliver the same item multiset (archive
names and gcda buffer order aside). Guard: gcno files sharing a (stem, llvm) key have one
content (`GcnoConsistent`). -/
theorem C17_packaging_invariant_partial (o : Opts) (args₁ args₂ : List Arg)
    (w₁ : WF args₁) (w₂ : WF args₂)
    (b₁ : args₁.any Arg.bad = false) (b₂ : args₂.any Arg.bad = false)
    (p : ((arts o.isLlvm args₁).filter Art.relevant).Perm
          ((arts o.isLlvm args₂).filter Art.relevant))
    (hc : GcnoConsistent (arts o.isLlvm args₁)) :
    OutcomeEquiv (run o args₁) (run o args₂) :=
  run_equiv_of_arts o args₁ args₂ w₁ w₂ (by rw [b₁, b₂]) p hc

/-- Every permutation of the arguments gives an equivalent outcome (same guard). -/
theorem C17_arg_order_partial (o : Opts) (args₁ args₂ : List Arg) (p : args₁.Perm args₂)
    (w : WF args₁) (hc : GcnoConsistent (arts o.isLlvm args₁)) :
    OutcomeEquiv (run o args₁) (run o args₂) :=
  run_equiv_of_arts o args₁ args₂ w (WF_perm p w) p.any_eq ((arts_perm _ p).filter _) hc

/-- Without the guard the statement is false of the code: two zips holding different `a.gcno`,
given in the two possible orders, deliver different items (the last archive's gcno is used). -/
theorem C17_packaging_invariant_false :
    ∃ (o : Opts) (args₁ args₂ : List Arg), WF args₁ ∧ WF args₂ ∧ args₁.Perm args₂ ∧
      ¬ OutcomeEquiv (run o args₁) (run o args₂) := by
  let f1 : File := ⟨[97, 46, 103, 99, 110, 111], [], 1⟩
  let f2 : File := ⟨[97, 46, 103, 99, 110, 111], [], 2⟩
  refine ⟨⟨false, false⟩, [.zip 0 [f1], .zip 1 [f2]], [.zip 1 [f2], .zip 0 [f1]], ?_, ?_,
    List.Perm.swap _ _ _, ?_⟩
  · unfold WF; decide
  · unfold WF; decide
  · have h1 : run ⟨false, false⟩ [.zip 0 [f1], .zip 1 [f2]]
        = .ok [.gcnoPath [97] (some 2) none (.arch (.arg 1))] [] := by decide
    have h2 : run ⟨false, false⟩ [.zip 1 [f2], .zip 0 [f1]]
        = .ok [.gcnoPath [97] (some 1) none (.arch (.arg 0))] [] := by decide
    rw [h1, h2]
    simp [OutcomeEquiv, Item.obs]

/-- Which gcno wins: the table of `closed` holds, for a key, the content of the LAST gcno artifact
with that key in exploration order (directories and zips in argument order, plain files last). -/
theorem C17_gcno_last_wins (pre post : List Art) (a : Art) (k : Name × Bool) (g : Nat)
    (ha : gcnoKeyCid a = some (k, g)) (hpost : ∀ b ∈ post, ∀ g', gcnoKeyCid b ≠ some (k, g')) :
    (k, g) ∈ gcnoTable (pre ++ a :: post) :=
  mem_of_get? (gcnoTable_last pre post a k g ha hpost)

/-- Every gcno artifact's key is in the table exactly once, with the content of one of the gcno
artifacts of that key. -/
theorem C17_gcno_keys (as : List Art) :
    (∀ a ∈ as, ∀ s l, a.cls = .gcno s l → ∃ g, ((s, l), g) ∈ gcnoTable as) ∧
    (∀ k g, (k, g) ∈ gcnoTable as → ∃ a ∈ as, a.cls = .gcno k.1 k.2 ∧ a.cid = g) ∧
    NodupKeys (gcnoTable as) :=
  ⟨fun _ ha _ _ hc => key_in_gcnoTable ha hc, fun _ _ h => mem_gcnoTable h, gcnoTable_nodupKeys as⟩

/-- Each gcno is combined with the gcda of the same relative stem from EVERY archive that has one:
GCC mode sends one item (gcno, that gcda) per gcda; LLVM mode sends one item whose buffer list
contains it. -/
theorem C17_gcno_pairs_all_gcda (o : Opts) (args : List Arg) (hw : WF args)
    (items : List Item) (maps : List Nat) (hrun : run o args = .ok items maps)
    (k : Name × Bool) (g : Nat) (hk : (k, g) ∈ gcnoTable (arts o.isLlvm args))
    (d : Nat) (hd : d ∈ cidsOf (.gcda k.1) (arts o.isLlvm args)) :
    if k.2 then ∃ ds, Obs.gcnoBuf k.1 g ds ∈ items.map Item.obs ∧ d ∈ ds
    else Obs.gcnoPath k.1 (some g) (some d) ∈ items.map Item.obs := by
  have hne : (cidsOf (.gcda k.1) (arts o.isLlvm args)).isEmpty = false := by
    cases h : cidsOf (.gcda k.1) (arts o.isLlvm args) with
    | nil => rw [h] at hd; cases hd
    | cons _ _ => rfl
  split
  · rename_i hl
    refine ⟨sortNat (cidsOf (.gcda k.1) (arts o.isLlvm args)), ?_, mem_sortNat.2 hd⟩
    rw [obs_mem_iff hw hrun]
    apply mem_closed_of_gcno hk
    unfold gcnoObs; simp [hne, hl]
  · rename_i hl
    rw [obs_mem_iff hw hrun]
    apply mem_closed_of_gcno hk
    unfold gcnoObs; simp only [hne, hl, Bool.false_eq_true, if_false]
    exact List.mem_map.2 ⟨d, hd, rfl⟩

/-- A gcno without any gcda of its stem: one item without gcda (zero counts downstream) – unless
orphans are ignored (`--filter covered`), in which case nothing at all is sent for that stem. -/
theorem C17_orphans (o : Opts) (args : List Arg) (hw : WF args)
    (items : List Item) (maps : List Nat) (hrun : run o args = .ok items maps)
    (k : Name × Bool) (g : Nat) (hk : (k, g) ∈ gcnoTable (arts o.isLlvm args))
    (hno : cidsOf (.gcda k.1) (arts o.isLlvm args) = []) :
    (o.ignoreOrphan = false →
      (if k.2 then Obs.gcnoBuf k.1 g [] else Obs.gcnoPath k.1 (some g) none) ∈ items.map Item.obs) ∧
    (o.ignoreOrphan = true → ∀ x ∈ items.map Item.obs, x.stem? ≠ some k.1) := by
  constructor
  · intro hio
    rw [obs_mem_iff hw hrun]
    apply mem_closed_of_gcno hk
    unfold gcnoObs; rw [hno, hio]
    cases k.2 <;> simp
  · intro hio x hx hs
    rw [obs_mem_iff hw hrun] at hx
    obtain ⟨p, _, hp1, hxp⟩ := stem_mem_closed hx hs
    rw [hp1, hno, hio] at hxp
    simp [gcnoObs] at hxp

/-- A gcda without gcno contributes nothing: no item mentions a stem that no gcno has. -/
theorem C17_gcda_without_gcno (o : Opts) (args : List Arg) (hw : WF args)
    (items : List Item) (maps : List Nat) (hrun : run o args = .ok items maps) (s : Name)
    (hno : ∀ a ∈ arts o.isLlvm args, ∀ l, a.cls ≠ .gcno s l) :
    ∀ x ∈ items.map Item.obs, x.stem? ≠ some s := by
  intro x hx hs
  rw [obs_mem_iff hw hrun] at hx
  obtain ⟨p, hp, hp1, _⟩ := stem_mem_closed hx hs
  obtain ⟨a, ha, hc, _⟩ := mem_gcnoTable (k := p.1) (g := p.2) hp
  rw [hp1] at hc
  exact hno a ha _ hc

/-- Decoys are ignored: the closed form does not see artifacts classified `ignored` … -/
theorem C17_decoys_ignored (o : Opts) (as : List Art) :
    closed o (as.filter Art.relevant) = closed o as := closed_filter_relevant o as

/-- … and this is what is classified `ignored` among the coverage extensions: an `.info` file is
used iff it starts with `TN:` or `SF:` -/
theorem C17_info_signature (L : Bool) (f : File) (s : Name)
    (h : splitExt f.path = some (s, bInfo)) :
    ((∃ rest, f.head = [84, 78, 58] ++ rest ∨ f.head = [83, 70, 58] ++ rest) →
      classify L f = .info) ∧
    ((¬ ∃ rest, f.head = [84, 78, 58] ++ rest ∨ f.head = [83, 70, 58] ++ rest) →
      classify L f = .ignored) := by
  rw [classify_of_ext h]
  constructor
  · intro hh; have := (isInfo_iff f.head).2 hh; simp [this, bInfo, bGcno, bGcda, bProfdata, bProfraw]
  · intro hh
    have : isInfo f.head = false := by
      cases hi : isInfo f.head
      · rfl
      · exact absurd ((isInfo_iff f.head).1 hi) hh
    simp [this, bInfo, bGcno, bGcda, bProfdata, bProfraw]

/-- an `.xml` file is used iff the JaCoCo DTD marker occurs, as bytes, in its first 256 bytes (in the
whole file when it is shorter) – whatever its length and encoding -/
theorem C17_xml_signature (L : Bool) (f : File) (s : Name)
    (h : splitExt f.path = some (s, bXml)) :
    (containsSub bMarker (f.head.take 256) = true → classify L f = .xml) ∧
    (containsSub bMarker (f.head.take 256) = false → classify L f = .ignored) := by
  rw [classify_of_ext h]
  constructor <;> intro hm <;>
    simp [isJacoco, hm, bXml, bInfo, bGcno, bGcda, bProfdata, bProfraw]

/-- a file without extension (also a dot-file such as `.info`) is ignored -/
theorem C17_no_extension_ignored (L : Bool) (f : File) (h : splitExt f.path = none) :
    classify L f = .ignored := by
  unfold classify; rw [h]

/-- Moving an info / xml / json / profile file elsewhere (another directory, another archive, a
plain argument with its absolute path) keeps its artifact: for these extensions the class depends
on the extension, the sniffed bytes and – for json – the file name only. -/
theorem C17_repackaging_keeps_class (L : Bool) (f g : File) (s s' e : Name)
    (hf : splitExt f.path = some (s, e)) (hg : splitExt g.path = some (s', e))
    (he : e ≠ bGcno ∧ e ≠ bGcda) (hh : f.head = g.head)
    (hb : baseName f.path = baseName g.path) : classify L f = classify L g := by
  rw [classify_of_ext hf, classify_of_ext hg, hh, hb]
  simp [he.1, he.2]

/-- Path mapping: nothing is returned iff there is no linked-files-map.json; otherwise the content
of one of them (so: THE content, when they all agree – in particular when there is one). -/
theorem C17_mapping (o : Opts) (args : List Arg) (hw : WF args)
    (items : List Item) (maps : List Nat) (hrun : run o args = .ok items maps) :
    (maps = [] ↔ cidsOf .linkedMap (arts o.isLlvm args) = []) ∧
    (∀ c ∈ maps, c ∈ cidsOf .linkedMap (arts o.isLlvm args)) ∧
    (∀ c₀, (∀ c ∈ cidsOf .linkedMap (arts o.isLlvm args), c = c₀) → ∀ c ∈ maps, c = c₀) := by
  obtain ⟨_, _, _, rfl⟩ := run_ok_inv hrun
  exact ⟨cands_nil_iff o args hw, cands_sub o args hw,
    fun c₀ h c hc => h c (cands_sub o args hw c hc)⟩

/-! ### the path mapping as part of the outcome -/

/-- Packaging invariance including the path mapping: under the guards of
`C17_packaging_invariant_partial` and with at most one distinct `linked-files-map.json` content
among the artifacts, the two layouts deliver the same items AND whatever `get_mapping` may pick in
either run is the same (nothing when there is no map, that one content otherwise). -/
theorem C17_packaging_invariant_mapping_partial (o : Opts) (args₁ args₂ : List Arg)
    (w₁ : WF args₁) (w₂ : WF args₂)
    (b₁ : args₁.any Arg.bad = false) (b₂ : args₂.any Arg.bad = false)
    (p : ((arts o.isLlvm args₁).filter Art.relevant).Perm
          ((arts o.isLlvm args₂).filter Art.relevant))
    (hc : GcnoConsistent (arts o.isLlvm args₁)) (hm : MapConsistent (arts o.isLlvm args₁)) :
    OutcomeEquivM (run o args₁) (run o args₂) :=
  run_equivM_of_arts o args₁ args₂ w₁ w₂ (by rw [b₁, b₂]) p hc hm

/-- … in particular for every permutation of the arguments. -/
theorem C17_arg_order_mapping_partial (o : Opts) (args₁ args₂ : List Arg) (p : args₁.Perm args₂)
    (w : WF args₁) (hc : GcnoConsistent (arts o.isLlvm args₁))
    (hm : MapConsistent (arts o.isLlvm args₁)) :
    OutcomeEquivM (run o args₁) (run o args₂) :=
  run_equivM_of_arts o args₁ args₂ w (WF_perm p w) p.any_eq ((arts_perm _ p).filter _) hc hm

/-- With at most one distinct map content the returned mapping is a function of the artifacts:
`None` iff there is no `linked-files-map.json`, else that content. -/
theorem C17_mapping_determined (o : Opts) (args : List Arg) (hw : WF args)
    (items : List Item) (maps : List Nat) (hrun : run o args = .ok items maps)
    (hm : MapConsistent (arts o.isLlvm args)) (r : Option Nat) (hr : mappingMay maps r) :
    r = (cidsOf .linkedMap (arts o.isLlvm args)).head? := by
  obtain ⟨_, _, _, rfl⟩ := run_ok_inv hrun
  exact mapping_determined o args hw hm r hr

/-- Without the `MapConsistent` guard the statement is false of the code: two zips, each with its
own `linked-files-map.json` (same entry name: the later archive replaces the earlier one in the
hash map), an `.info` beside – the items agree, the mapping is the LAST argument's. -/
theorem C17_packaging_invariant_mapping_false :
    ∃ (o : Opts) (args₁ args₂ : List Arg), WF args₁ ∧ WF args₂ ∧ args₁.Perm args₂ ∧
      GcnoConsistent (arts o.isLlvm args₁) ∧
      OutcomeEquiv (run o args₁) (run o args₂) ∧ ¬ OutcomeEquivM (run o args₁) (run o args₂) := by
  let i : File := ⟨[114, 46, 105, 110, 102, 111], [84, 78, 58], 31⟩
  let m1 : File := ⟨bLfm, [123, 125], 41⟩
  let m2 : File := ⟨bLfm, [123, 125], 42⟩
  have h1 : run ⟨false, false⟩ [.zip 0 [i, m1], .zip 1 [m2]]
      = .ok [.content .info 31 (.arch (.arg 0))] [42] := by decide
  have h2 : run ⟨false, false⟩ [.zip 1 [m2], .zip 0 [i, m1]]
      = .ok [.content .info 31 (.arch (.arg 0))] [41] := by decide
  refine ⟨⟨false, false⟩, [.zip 0 [i, m1], .zip 1 [m2]], [.zip 1 [m2], .zip 0 [i, m1]], ?_, ?_,
    List.Perm.swap _ _ _, ?_, ?_, ?_⟩
  · unfold WF; decide
  · unfold WF; decide
  · unfold GcnoConsistent; decide
  · rw [h1, h2]; simp [OutcomeEquiv]
  · rw [h1, h2]
    rintro ⟨_, h⟩
    have := h (some 42) (some 41) (by simp [mappingMay]) (by simp [mappingMay])
    cases this

/-- Two maps under DIFFERENT entry names are both candidates of one run: which one `get_mapping`
returns is the hash map's choice (not determined by the layout, let alone by the artifacts). -/
theorem C17_two_mappings_undetermined :
    ∃ (o : Opts) (args : List Arg) (items : List Item), WF args ∧
      run o args = .ok items [41, 42] ∧ mappingMay [41, 42] (some 41) ∧ mappingMay [41, 42] (some 42) := by
  refine ⟨⟨false, false⟩,
    [.dir 0 [⟨[114, 46, 105, 110, 102, 111], [84, 78, 58], 31⟩, ⟨bLfm, [123, 125], 41⟩,
      ⟨[115, 47] ++ bLfm, [123, 125], 42⟩]], [.content .info 31 (.arch (.arg 0))], ?_, ?_, ?_, ?_⟩
  · unfold WF; decide
  · decide
  · simp [mappingMay]
  · simp [mappingMay]

/-! ### zip archives by their raw entry names (fix 2f541c3) -/

/-- Whatever the raw entries of a zip archive are – respelled, repeated, directory entries, hostile
names – the listing `explore` makes of it never holds a path twice. -/
theorem C17_zip_listing_unique (es : List RawEntry) :
    ∀ f ∈ zipListed es, ∀ g ∈ zipListed es, f.path = g.path → f = g :=
  zipListed_functional es

/-- Exactness for layouts whose zips are given by their raw entries: paths need to be unique
inside each DIRECTORY and among the plain arguments only; the rest is `C17_items_exact`. -/
theorem C17_items_exact_raw (o : Opts) (rargs : List RArg) (hw : WFR rargs)
    (hb : (rargs.map RArg.toArg).any Arg.bad = false)
    (hu : (arts o.isLlvm (rargs.map RArg.toArg)).any Art.usable = true) :
    ∃ items maps, runR o rargs = .ok items maps ∧
      (items.map Item.obs).Perm (closed o (arts o.isLlvm (rargs.map RArg.toArg))) :=
  C17_items_exact o _ (WF_of_WFR hw) hb hu

/-- The canonical spelling of an accepted entry name is a `/`-joined list of real names (no empty,
`.` or `..` component, no NUL byte) and is its own canonical spelling. -/
theorem C17_canonical_name (n c : Name) (h : canonName n = some c) :
    (∃ names : List Name, c = UPath.join names ∧ (∀ s ∈ names, UPath.RealName s) ∧ 0 ∉ c) ∧
    canonName c = some c :=
  ⟨canonName_spec h, canonName_idem h⟩

/-- `a//b.info`, `a/./e.info`, `./a.info` are `a/b.info`, `a/e.info`, `a.info`; `..`, a root, a NUL
are rejected; a trailing `/` or `\` makes a directory entry. -/
theorem C17_canonical_name_witnesses :
    canonName [97, 47, 47, 98, 46, 105, 110, 102, 111] = some [97, 47, 98, 46, 105, 110, 102, 111] ∧
    canonName [97, 47, 46, 47, 101, 46, 105, 110, 102, 111] = some [97, 47, 101, 46, 105, 110, 102, 111] ∧
    canonName [46, 47, 97, 46, 105, 110, 102, 111] = some [97, 46, 105, 110, 102, 111] ∧
    canonName [46, 46, 47, 117, 112, 46, 105, 110, 102, 111] = none ∧
    canonName [97, 47, 46, 46, 47, 98] = none ∧
    canonName [47, 97, 98, 115, 46, 105, 110, 102, 111] = none ∧
    canonName [97, 0, 46, 105, 110, 102, 111] = none ∧
    rawIsDir [100, 47] = true ∧ rawIsDir [100, 92] = true ∧ rawIsDir [100] = false := by
  decide

/-- Exactly what a zip archive contributes, for EVERY list of raw entries (respelled, repeated,
several of one canonical spelling, directory entries, hostile names): per canonical spelling the
FIRST entry of the crate's index that is not a directory entry and has a safe name – under that
spelling, with its own first bytes (sniffed) and its own content (read / extracted). Later entries
of the same spelling are skipped, directory entries and unsafe names never count. -/
theorem C17_zip_entries_exact (es : List RawEntry) : zipListed es = zipFirst es :=
  zipListed_eq_zipFirst es

/-- … in particular, if no two entries of the archive's index (directory entries included) share a
canonical spelling, EVERY entry that is not a directory entry and whose name is safe is an artifact,
in index order, under its canonical spelling, with its own bytes: a respelled entry (`a//b.info`)
is used exactly like the canonically spelled one. -/
theorem C17_zip_entries_all_used (es : List RawEntry) (hd : CanonDistinct (crateIndex es)) :
    zipListed es = ((crateIndex es).filter listable).map RawEntry.toFile :=
  listIx_of_distinct _ hd

/-- … and for an archive without repeated raw names the index is the entry list itself. -/
theorem C17_respelled_entries_used (es : List RawEntry) (hn : (es.map (·.name)).Nodup)
    (hd : CanonDistinct es) : zipListed es = (es.filter listable).map RawEntry.toFile := by
  have := C17_zip_entries_all_used es (by rw [crateIndex_of_nodup es hn]; exact hd)
  rwa [crateIndex_of_nodup es hn] at this

/-- The zip crate's index: names pairwise distinct; a repeated raw name keeps the place of its first
occurrence and has the data of the last (closed instance). -/
theorem C17_crate_index (es : List RawEntry) :
    ((crateIndex es).map (·.name)).Nodup ∧
    crateIndex [⟨[100], [1], 1⟩, ⟨[101], [2], 2⟩, ⟨[100], [3], 3⟩] = [⟨[100], [3], 3⟩, ⟨[101], [2], 2⟩] :=
  ⟨crateIndex_names_nodup es, by decide⟩

/-- Regression examples about the lookup BEFORE fix 99c0f28 (`zipIndexOld`): with `a//b.info`
(content 1) followed by `a/b.info` (content 2) it found the second entry under the listed name
`a/b.info`; with a DIRECTORY entry `x.info/` (content 7) in front of `./x.info` (content 3) it found
the directory entry. Today's lookup finds the listed entry in both. -/
theorem C17_old_lookup_read_other_entry :
    let a1 : RawEntry := ⟨[97, 47, 47, 98, 46, 105, 110, 102, 111], [84, 78, 58], 1⟩
    let a2 : RawEntry := ⟨[97, 47, 98, 46, 105, 110, 102, 111], [84, 78, 58], 2⟩
    let d : RawEntry := ⟨[120, 46, 105, 110, 102, 111, 47], [], 7⟩
    let f : RawEntry := ⟨[46, 47, 120, 46, 105, 110, 102, 111], [84, 78, 58], 3⟩
    zipIndexOld [a1, a2] [97, 47, 98, 46, 105, 110, 102, 111] = some a2 ∧
    zipIndex [a1, a2] [97, 47, 98, 46, 105, 110, 102, 111] = some a1 ∧
    zipIndexOld [d, f] [120, 46, 105, 110, 102, 111] = some d ∧
    zipIndex [d, f] [120, 46, 105, 110, 102, 111] = some f ∧
    zipListed [a1, a2] = [⟨[97, 47, 98, 46, 105, 110, 102, 111], [84, 78, 58], 1⟩] ∧
    zipListed [d, f] = [⟨[120, 46, 105, 110, 102, 111], [84, 78, 58], 3⟩] := by
  decide

/-- the review's probe (item 8): a zip holding `a//b.info` and `c.info` delivers two items, the
respelled one with its own content; `./d.info` too; `../e.info` and the directory entry do not -/
example : runR ⟨false, false⟩ [.zip 0 [⟨[97, 47, 47, 98, 46, 105, 110, 102, 111], [84, 78, 58], 1⟩,
      ⟨[99, 46, 105, 110, 102, 111], [83, 70, 58], 2⟩, ⟨[46, 47, 100, 46, 105, 110, 102, 111], [84, 78, 58], 3⟩,
      ⟨[46, 46, 47, 101, 46, 105, 110, 102, 111], [84, 78, 58], 4⟩, ⟨[102, 46, 105, 110, 102, 111, 47], [84, 78, 58], 5⟩]]
    = .ok [.content .info 1 (.arch (.arg 0)), .content .info 2 (.arch (.arg 0)),
           .content .info 3 (.arch (.arg 0))] [] := by decide

example : CanonDistinct [⟨[97, 47, 47, 98, 46, 105, 110, 102, 111], [84, 78, 58], 1⟩,
    ⟨[99, 46, 105, 110, 102, 111], [83, 70, 58], 2⟩] := by unfold CanonDistinct; decide

/-! ### overlapping arguments (domain restriction, review item 34) -/

/-- Full statement one might expect: naming an argument twice changes nothing. -/
def C17_repeated_argument_stmt : Prop :=
  ∀ (o : Opts) (a : Arg) (rest : List Arg), OutcomeEquiv (run o (a :: a :: rest)) (run o (a :: rest))

/-- FALSE of the code: every argument is explored as an archive of its own, so `grcov data data`
sends every `.info` of `data` twice (and `grcov data data/sub` those below `sub`). The theorems of
this file are about layouts whose archives are disjoint sets of files: `arts` lists a file once per
archive that holds it. -/
theorem C17_repeated_argument_false : ¬ C17_repeated_argument_stmt := by
  intro h
  have := h ⟨false, false⟩ (.dir 0 [⟨[114, 46, 105, 110, 102, 111], [84, 78, 58], 31⟩]) []
  revert this
  have h1 : run ⟨false, false⟩ [.dir 0 [⟨[114, 46, 105, 110, 102, 111], [84, 78, 58], 31⟩],
        .dir 0 [⟨[114, 46, 105, 110, 102, 111], [84, 78, 58], 31⟩]]
      = .ok [.content .info 31 (.arch (.arg 0)), .content .info 31 (.arch (.arg 0))] [] := by decide
  have h2 : run ⟨false, false⟩ [.dir 0 [⟨[114, 46, 105, 110, 102, 111], [84, 78, 58], 31⟩]]
      = .ok [.content .info 31 (.arch (.arg 0))] [] := by decide
  rw [h1, h2]
  simp [OutcomeEquiv, Item.obs]

/-- What does hold: the items of a layout are those of its artifact list, in which a file given
through two arguments occurs twice (`arts` of a concatenation is the concatenation, plain files
aside) – so exactness relative to `arts` holds for overlapping arguments too, and says "twice". -/
theorem C17_repeated_argument_counts_twice (o : Opts) (a : Arg) (hw : WF [a, a])
    (hb : [a, a].any Arg.bad = false) (hu : (arts o.isLlvm [a, a]).any Art.usable = true) :
    ∃ items maps, run o [a, a] = .ok items maps ∧
      (items.map Item.obs).Perm (closed o (arts o.isLlvm [a, a])) :=
  C17_items_exact o [a, a] hw hb hu

/-! ### classification of the command-line arguments -/

/-- Which argument is taken for what (producer.rs 497-533): a string that ends in `.zip` – byte
suffix of the whole argument, case sensitive – is opened as a zip archive whatever the file system
says (a directory of that name included); otherwise a directory is walked; otherwise the
extension of the path decides: `info json xml profraw profdata` ⇒ plain file, another extension ⇒
panic "it isn't a .info, a .json or a .xml file", none ⇒ panic "it isn't a directory, …". -/
theorem C17_arg_classification (path full : Name) (isDir : Bool) :
    (endsWith path bDotZip = true → classifyArg path full isDir = .zip) ∧
    (endsWith path bDotZip = false → isDir = true → classifyArg path full isDir = .dir) ∧
    (endsWith path bDotZip = false → isDir = false → classifyArg path full isDir = extClass full) :=
  ⟨classifyArg_zip path full isDir,
   fun h hd => by subst hd; exact classifyArg_dir path full h,
   fun h hd => by subst hd; exact classifyArg_file path full h⟩

/-- Closed instances: a directory named `x.zip` is opened as a zip (and `producer()` panics when
that fails); a zip named `x.ZIP` or `x.jar` is not an archive but a plain file with an inadmissible
extension; `x.info` is a plain file; `x.txt` and `README` panic with the two different messages;
a directory given as `x.zip/` (trailing slash) is a directory. -/
theorem C17_arg_classification_witnesses :
    classifyArg [120, 46, 122, 105, 112] [47, 120, 46, 122, 105, 112] true = .zip ∧
    classifyArg [120, 46, 90, 73, 80] [47, 120, 46, 90, 73, 80] false = .panicBadExt ∧
    classifyArg [120, 46, 106, 97, 114] [47, 120, 46, 106, 97, 114] false = .panicBadExt ∧
    classifyArg [120, 46, 105, 110, 102, 111] [47, 120, 46, 105, 110, 102, 111] false = .plain ∧
    classifyArg [120, 46, 116, 120, 116] [47, 120, 46, 116, 120, 116] false = .panicBadExt ∧
    classifyArg [82, 69, 65, 68, 77, 69] [47, 82, 69, 65, 68, 77, 69] false = .panicNoExt ∧
    classifyArg [120, 46, 122, 105, 112, 47] [47, 120, 46, 122, 105, 112, 47] true = .dir ∧
    classifyArg [46, 105, 110, 102, 111] [47, 46, 105, 110, 102, 111] false = .panicNoExt := by
  decide

/-- From raw arguments to `run`: when no argument panics, `producer()` is `run` on the classified
arguments, none of which is inadmissible – so exactness, packaging invariance and the rest apply;
when one panics nothing is explored and nothing is sent. -/
theorem C17_raw_run (o : Opts) (raws : List RawArg) (hs : ∀ r ∈ raws, r.self.path = r.full) :
    (∀ args, classifyAll raws = .ok args →
      runRaw o raws = .ok (run o args) ∧ args.any Arg.bad = false) ∧
    (∀ e, classifyAll raws = .error e → runRaw o raws = .error e) := by
  constructor
  · intro args h
    exact ⟨by simp [runRaw, h], classifyAll_not_bad hs h⟩
  · intro e h
    simp [runRaw, h]

/-- a directory called `d.zip` that is not a zip file: the run panics before anything is read,
although the directory holds a usable `.info` -/
example : runRaw ⟨false, false⟩
    [⟨0, [100, 46, 122, 105, 112], [47, 100, 46, 122, 105, 112], true, false,
      [⟨[114, 46, 105, 110, 102, 111], [84, 78, 58, 116], 31⟩],
      ⟨[47, 100, 46, 122, 105, 112], [], 0⟩⟩]
    = .error .zipOpen := by rfl

/-! ### non-vacuity: a concrete multiset in two packagings

`sub/a.gcno` (GCC), `sub/a.gcda` twice (two runs), an orphan `b.gcno` with the LLVM stamp,
`r.info` (`TN:`), a decoy `fake.info`, a `linked-files-map.json`:
layout 1 = one directory + one zip holding the second gcda; layout 2 = zip, directory and the
`.info` as a plain argument, in another order. -/

def exGcno : File := ⟨[115, 117, 98, 47, 97, 46, 103, 99, 110, 111], [111, 110, 99, 103, 42, 50, 50, 66], 11⟩
def exGcda1 : File := ⟨[115, 117, 98, 47, 97, 46, 103, 99, 100, 97], [], 21⟩
def exGcda2 : File := ⟨[115, 117, 98, 47, 97, 46, 103, 99, 100, 97], [], 22⟩
def exOrphan : File := ⟨[98, 46, 103, 99, 110, 111], [111, 110, 99, 103, 42, 50, 48, 52], 12⟩
def exInfo : File := ⟨[114, 46, 105, 110, 102, 111], [84, 78, 58, 116], 31⟩
def exInfoAbs : File := ⟨[47, 112, 47, 114, 46, 105, 110, 102, 111], [84, 78, 58, 116], 31⟩
def exFake : File := ⟨[102, 97, 107, 101, 46, 105, 110, 102, 111], [88, 88, 58], 32⟩
def exMap : File := ⟨bLfm, [123, 125], 41⟩

def exLayout1 : List Arg :=
  [.dir 0 [exGcno, exGcda1, exOrphan, exInfo, exFake, exMap], .zip 1 [exGcda2]]
def exLayout2 : List Arg :=
  [.plain exInfoAbs, .zip 1 [exGcda1, exMap], .dir 2 [exGcda2, exOrphan, exGcno]]

example : WF exLayout1 ∧ WF exLayout2 := by unfold WF; decide
example : exLayout1.any Arg.bad = false ∧ exLayout2.any Arg.bad = false := by decide
example : GcnoConsistent (arts false exLayout1) := by unfold GcnoConsistent; decide
example : ((arts false exLayout1).filter Art.relevant).Perm
    ((arts false exLayout2).filter Art.relevant) := by decide

/-- what the first layout delivers (orphans kept, GCC mode) -/
example : run ⟨false, false⟩ exLayout1 =
    .ok [.content .info 31 (.arch (.arg 0)),
         .gcnoPath [115, 117, 98, 47, 97] (some 11) (some 21) (.arch (.arg 0)),
         .gcnoPath [115, 117, 98, 47, 97] (some 11) (some 22) (.arch (.arg 1)),
         .gcnoBuf [98] 12 [] (.arch (.arg 0))] [41] := by decide

/-- … and with orphans ignored under `--llvm` -/
example : run ⟨true, true⟩ exLayout2 =
    .ok [.content .info 31 (.arch .plain),
         .gcnoBuf [115, 117, 98, 47, 97] 11 [21, 22] .empty] [41] := by decide

/-- the closed form of that multiset -/
example : closed ⟨false, false⟩ (arts false exLayout2) =
    [.content .info 31, .gcnoBuf [98] 12 [],
     .gcnoPath [115, 117, 98, 47, 97] (some 11) (some 21),
     .gcnoPath [115, 117, 98, 47, 97] (some 11) (some 22)] := by decide

/-- a 14-byte `.xml` that is just the marker, alone in a directory, is used (it was ignored before
fix 82d1c8b); so is one whose prefix is not UTF-8 -/
example : run ⟨false, false⟩ [.dir 0 [⟨[114, 46, 120, 109, 108], bMarker, 7⟩,
      ⟨[115, 46, 120, 109, 108], 255 :: 233 :: bMarker, 8⟩]] =
    .ok [.content .jacocoXml 7 (.arch (.arg 0)), .content .jacocoXml 8 (.arch (.arg 0))] [] := by
  decide

/-- only a gcda and decoys: the run fails -/
example : run ⟨false, false⟩ [.dir 0 [exGcda1, exFake, exMap]] = .panicNoInput := by decide

/-- a gcno given as a plain argument: `Cannot load file` -/
example : run ⟨false, false⟩ [.plain exGcno] = .panicBadArg := by decide

end Grcov.Props.C17
