/-
C08 — gcno/gcda counts agree with llvm-cov gcov.
What is PROVED here (about the model `GrcovModel/Gcno.lean`, tied to `src/reader.rs` by the
correspondence run): flow conservation – when the on-tree arcs (with the virtual exit→entry arc)
form a forest and the gcda carries the counters of a conserved flow, `count_on_tree` recovers the
flow on every arc and every block counter is the block's inflow; the instrumented lines come from
the notes only; a function is executed iff its entry arc was taken; a line that lives in one block
gets that block's count – also end to end, from the gcda records to the line count `compute`
reports (Props/C08EndToEnd.lean: `C08_line_count_single_block_end_to_end`, `…_k_runs`).
Props/C08Records.lean: the instrumented lines over the LINES records of the file (false for format
≥ 8: finding C08-gcno8-line-range-filter); Props/C08Sum.lean: several functions per file – the
reported count is the sum of the functions' shares.
What is only CHECKED (harness/c08): that `Gcno::compute` reports the same per-line counts,
instrumented sets and executed flags as the external program `llvm-cov gcov` on generated C
programs compiled in six gcov format versions – no theorem can quantify over an external tool.
-/
import GrcovModel.Lemmas.GcnoFinal
import GrcovModel.Lemmas.GcnoFlow
import GrcovModel.Lemmas.GcnoCert
import GrcovModel.Props.C08EndToEnd
import GrcovModel.Props.C08MultiBlock
import GrcovModel.Props.C08Records
import GrcovModel.Props.C08Sum
namespace Grcov.Props.C08
open Grcov Grcov.Gcno AList Outcome

/-- The instrumented lines of a file come from the gcno only: whatever the gcda list, file `k` of
an accepted result reports line `l` iff some function of the notes with file name `k` has a block
that lists `l` – `b.lines` being the lines `read_lines` KEPT. Over the LINES records of the file
(what llvm-cov reports) the clause is `C08_instrumented_lines_are_the_kept_lines`,
`…_are_listed_lines_partial` and, for format ≥ 8, `…_are_listed_lines_false` (Props/C08Records.lean). -/
theorem C08_instrumented_lines_from_gcno_only (g : Notes) (ds : List Gcda) (br : Bool)
    (r : List (Bytes × Cov)) (h : compute g ds br = ok r) (k : Bytes) (cov : Cov)
    (hk : get? r k = some cov) (l : Nat) :
    l ∈ keys cov.lines ↔ ∃ f ∈ g.funcs, f.fileName = k ∧ ∃ b ∈ f.blocks, l ∈ b.lines :=
  compute_lines_iff h hk l

/-- `add_line_count` never fails on the function's shape alone, and the function is executed iff
it has an arc and the count of its first arc (entry block → body) is positive … -/
theorem C08_executed_iff_entry_arc_positive (f : Func) (c : Cnt) (ex : Bool)
    (ls : List (Nat × Nat)) (h : addLineCount f c = ok (ex, ls)) :
    ex = (!f.arcs.isEmpty && decide (c.arc 0 > 0)) :=
  addLineCount_executed h

/-- … it reports exactly the lines of its blocks, whatever the counters … -/
theorem C08_function_lines (f : Func) (c : Cnt) (ex : Bool) (ls : List (Nat × Nat))
    (h : addLineCount f c = ok (ex, ls)) (l : Nat) :
    l ∈ keys ls ↔ ∃ b ∈ f.blocks, l ∈ b.lines := by
  rw [keys_addLineCount h, mem_funLines]

/-- … and a line that lives in exactly one block (`lines_to_block[l] = [b]`) of an executed
function gets the counter of that block. -/
theorem C08_single_block_line (f : Func) (c : Cnt) (ls : List (Nat × Nat)) (l b : Nat)
    (h : addLineCount f c = ok (true, ls)) (hl : (l, [b]) ∈ linesToBlock f) :
    (l, c.blk b) ∈ ls := by
  unfold addLineCount at h
  split at h
  · obtain ⟨ls', h1, h2⟩ := bind_eq_ok.1 h
    cases h2
    exact lineCounts_single f c l b _ _ _ h1 hl
  · cases h

/-! ### flow conservation -/

/-- **Flow recovery.** Let `f` be a function with at least two blocks whose on-tree arcs, together
with the virtual exit→entry arc `count_on_tree` adds, form a forest rooted at the smallest block
of each tree (`SpanForest`: for LLVM ≥ 11 notes a spanning tree rooted at the entry block; for
older notes, where every real arc carries a counter, just the virtual arc), and let `F` be any
conserved flow on the arcs (`Flow`: inflow = outflow at every block, sums within u64). Reading the
counters of `F` – one per arc that is not on the tree, in arc order, as a gcda stores them – into
fresh counters and running `count_on_tree` succeeds and leaves exactly `F` on every arc, the
virtual one included. -/
theorem C08_flow_recovered (version : Nat) (f : Func) (depth parc root F : Nat → Nat)
    (hn : f.blocks.length ≥ 2) (hT : SpanForest (addVirtualArc version f) depth parc root)
    (hF : Flow (addVirtualArc version f) F) :
    ∃ c c', accArcs f.blocks.length 0 f.arcs Cnt.zero (flowVals F f.arcs 0) = ok c ∧
      countOnTree version f c = ok (addVirtualArc version f, c') ∧
      ∀ (e : Nat) (a : Arc), (addVirtualArc version f).arcs[e]? = some a → c'.arc e = F e := by
  obtain ⟨c, c', h1, h2, h3, _⟩ := flow_recovered hn hT hF
  exact ⟨c, c', h1, h2, h3⟩

/-- In the same situation every block counter is the block's inflow, which is its outflow. -/
theorem C08_block_count_is_inflow (version : Nat) (f : Func) (depth parc root F : Nat → Nat)
    (hn : f.blocks.length ≥ 2) (hT : SpanForest (addVirtualArc version f) depth parc root)
    (hF : Flow (addVirtualArc version f) F) :
    ∃ c c', accArcs f.blocks.length 0 f.arcs Cnt.zero (flowVals F f.arcs 0) = ok c ∧
      countOnTree version f c = ok (addVirtualArc version f, c') ∧
      ∀ (b : Nat) (blk : Block), (addVirtualArc version f).blocks[b]? = some blk →
        c'.blk b = (blk.source.map F).sum ∧ c'.blk b = (blk.destination.map F).sum := by
  obtain ⟨c, c', h1, h2, _, h4⟩ := flow_recovered hn hT hF
  exact ⟨c, c', h1, h2, h4⟩

/-- The propagation loop alone: whatever stands on the on-tree arcs before, after
`propagate_counts` over all blocks every arc carries the flow (it never runs out of fuel, never
indexes out of range and never overflows). -/
theorem C08_propagation_recovers_flow (f : Func) (depth parc root F : Nat → Nat)
    (hT : SpanForest f depth parc root) (hF : Flow f F) (cnt0 : Nat → Nat)
    (h0 : ∀ (e : Nat) (a : Arc), f.arcs[e]? = some a → a.onTree = false → cnt0 e = F e) :
    ∃ s, propAll f (propFuel f) (List.range f.blocks.length) ⟨cnt0, []⟩ = ok s ∧
      ∀ (e : Nat) (a : Arc), f.arcs[e]? = some a → s.cnt e = F e :=
  propAll_recovers hT hF (propFuel f) (by unfold propFuel; omega) cnt0 h0

/-- Under the hypotheses of `C08_flow_recovered` the function is reported executed iff the flow
on its first arc (entry block → body) is positive, i.e. iff it was entered. -/
theorem C08_executed_iff_entered (version : Nat) (f : Func) (depth parc root F : Nat → Nat)
    (hn : f.blocks.length ≥ 2) (hT : SpanForest (addVirtualArc version f) depth parc root)
    (hF : Flow (addVirtualArc version f) F) :
    ∃ c c', accArcs f.blocks.length 0 f.arcs Cnt.zero (flowVals F f.arcs 0) = ok c ∧
      countOnTree version f c = ok (addVirtualArc version f, c') ∧
      ∀ (ex : Bool) (ls : List (Nat × Nat)),
        addLineCount (addVirtualArc version f) c' = ok (ex, ls) → ex = decide (F 0 > 0) := by
  obtain ⟨c, c', h1, h2, h3, _⟩ := flow_recovered hn hT hF
  refine ⟨c, c', h1, h2, ?_⟩
  intro ex ls h
  rw [addLineCount_executed h]
  have harcs := addVirtualArc_arcs (version := version) hn
  have : ∃ a : Arc, (addVirtualArc version f).arcs[0]? = some a := by
    rw [harcs]
    cases f.arcs <;> simp
  obtain ⟨a, ha⟩ := this
  have hne : (addVirtualArc version f).arcs.isEmpty = false := by
    rw [harcs]; cases f.arcs <;> simp
  simp only [entered, hne, Bool.not_false, Bool.true_and]
  rw [h3 0 a ha]

/-- The hypothesis is checkable: the executable test `isSpanTree` (evaluated by the harness on
every CFG it sees, generated, corpus or compiled by clang) implies `SpanForest`. -/
theorem C08_certificate_sound (f : Func) (h : isSpanTree f = true) :
    ∃ depth parc root, SpanForest f depth parc root :=
  spanForest_of_isSpanTree h

/-! ### a line with a two-entry loop: the split into circuits is not unique -/

/-- blocks 2,3,4,5 all on line 11 (block 2 also carries the function line 10); arcs
0:0→2*, 1:2→3*, 2:2→5*, 3:3→5, 4:3→1, 5:4→2*, 6:5→3, 7:5→4 (* = on the tree). The loop {3,5} is
entered at 3 (from 2) and at 5 (from 2): an irreducible region. -/
def witFunc : Func :=
  match build 48 7
    [.func 1 11 22 [102, 110, 48] [115, 121, 110, 46, 99] 10 0, .blocks 6,
     .arcs 0 [(2, 1)], .arcs 2 [(3, 1), (5, 1)], .arcs 3 [(5, 0), (1, 0)], .arcs 4 [(2, 1)],
     .arcs 5 [(3, 0), (4, 0)],
     .lines 2 [.file [115, 121, 110, 46, 99], .line 10, .line 11],
     .lines 3 [.file [115, 121, 110, 46, 99], .line 11],
     .lines 4 [.file [115, 121, 110, 46, 99], .line 11],
     .lines 5 [.file [115, 121, 110, 46, 99], .line 11]] with
  | .ok g => g.funcs.headD ⟨0, 0, 0, 0, 0, [], [], [], []⟩
  | _ => ⟨0, 0, 0, 0, 0, [], [], [], []⟩

/-- one run 0 → 2 → 5 → 4 → 2 → 3 → 5 → 3 → 1: every arc (the virtual one included) once -/
def witFlow (e : Nat) : Nat := if e < 9 then 1 else 0

/-- the gcda of that run: the four arcs that are not on the tree -/
def witGcda : Gcda := ⟨48, 7, [.func 3 1 11 22, .arcs 8 [1, 1, 1, 1]]⟩

/-- **The circuit split of a line with a two-entry loop is not unique, and the cycle search does
not find a largest one.** On the closed witness `witFunc` (on-tree arcs form a spanning tree, the
counters are a conserved flow, recovered exactly) line 11 is entered once from outside. The cycle
search of `get_line_count` starts at block 2 with the circuit 2→3→5→4→2, after which no circuit
is left: it reports 1 circuit, hence 2 for the line. But the same arc counts also split into the
two circuits 2→5→4→2 and 3→5→3 (`validSplit`), which is what llvm-cov gcov 12+ finds by cycle
cancelling: it prints 3 for that line (measured by the harness on the encoded files). For
reducible regions the number of circuits is the sum of the back-arc counts whatever the search
order; with two entries it depends on the order. (Known finding C08-irreducible-line-cycles.) -/
theorem C08_cycle_split_not_unique :
    isSpanTree (addVirtualArc 48 witFunc) = true ∧
    flowB (addVirtualArc 48 witFunc) witFlow = true ∧
    flowVals witFlow witFunc.arcs 0 = [1, 1, 1, 1] ∧
    (linesToBlock witFunc).map (·.2) = [[2], [2, 3, 4, 5]] ∧
    cyclesOf (cyclesCount (addVirtualArc 48 witFunc) (circuitFuel (addVirtualArc 48 witFunc))
      [2, 3, 4, 5] witFlow) = some 1 ∧
    validSplit (addVirtualArc 48 witFunc) witFlow [2, 3, 4, 5] [[2, 7, 5], [3, 6]] = true ∧
    lineCountOf (compute ⟨48, 7, [witFunc]⟩ [witGcda] true) 11 = some 2 := by
  decide +kernel

/-! ### the hypotheses are satisfiable -/

/-- an if/else diamond in the LLVM 4.8 layout: block 0 = entry, 1 = exit; arcs
0→2, 2→3, 2→4*, 3→5, 4→5*, 5→1* (* = on the tree) -/
def exFunc : Func :=
  match build 48 7
    [.func 1 11 22 [102] [97, 46, 99] 10 0, .blocks 6,
     .arcs 0 [(2, 0)], .arcs 2 [(3, 0), (4, 1)], .arcs 3 [(5, 0)], .arcs 4 [(5, 1)],
     .arcs 5 [(1, 1)],
     .lines 2 [.file [97, 46, 99], .line 10], .lines 3 [.file [97, 46, 99], .line 11],
     .lines 4 [.file [97, 46, 99], .line 12], .lines 5 [.file [97, 46, 99], .line 13]] with
  | .ok g => g.funcs.headD ⟨0, 0, 0, 0, 0, [], [], [], []⟩
  | _ => ⟨0, 0, 0, 0, 0, [], [], [], []⟩

/-- entered 5 times, twice through block 3 and three times through block 4 -/
def exFlow (e : Nat) : Nat := [5, 2, 3, 2, 3, 5, 5].getD e 0

example : exFunc.blocks.length ≥ 2 := by decide
example : isSpanTree (addVirtualArc 48 exFunc) = true := by decide
example : flowB (addVirtualArc 48 exFunc) exFlow = true := by decide
example : flowVals exFlow exFunc.arcs 0 = [5, 2, 2] := by decide
example : (linesToBlock exFunc) = [(10, [2]), (11, [3]), (12, [4]), (13, [5])] := by decide

end Grcov.Props.C08
