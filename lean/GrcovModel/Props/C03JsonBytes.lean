/-
C03 — report fidelity, part JsonBytes: the byte layer of the JSON reports is inside the model
(`Writers/JsonBytes.lean`: serde_json's compact writer, byte for byte, and a reader of that
dialect). The document-level theorems of `Props/C03Docs.lean` therefore hold of the BYTES the
writers emit, read back by `jsonParse`: for every value – strings are arbitrary bytes – the reader
returns exactly the value that was serialised. The only guard is that a float field (a token
rendered by `ryu`, passed in by the harness; C13's subject) looks like a float.
-/
import GrcovModel.Lemmas.WritersJsonBytes
import GrcovModel.Lemmas.WritersDocs
namespace Grcov.Props.C03
open Grcov AList Grcov.Writers Grcov.Writers.Docs Grcov.Writers.JsonBytes
open Grcov.Escape (Bytes)

/-- The reader reads back exactly what the writer wrote, for EVERY JSON value: any nesting, any
key and string bytes (quotes, backslashes, control bytes, text that looks like JSON), integers of
any size and sign. -/
theorem C03_json_roundtrip (j : Json) (h : wf j = true) : jsonParse (jsonSerialize j) = some j :=
  jsonParse_jsonSerialize j h

/-- a string alone: no byte sequence can end the literal early or change what is read -/
theorem C03_json_string_exact (s : Bytes) : jsonParse (jsonSerialize (.str s)) = some (.str s) :=
  jsonParse_jsonSerialize _ rfl

/-- Coveralls / Coveralls+: the bytes of the report parse to a document whose `source_files` are,
in order, exactly the file entries of `coverallsDoc` – names, coverage arrays, branch quadruples,
functions – whatever the names, the digests and the top-level parameters. Together with
`C03_coveralls_doc_partial`, `C03_coveralls_lines`, `…_branch_vectors`, `…_functions` this is the
fidelity of the coveralls REPORT FILE. -/
theorem C03_json_coveralls_bytes (top : CvTop) (digests : List Bytes) (d : List CvFile)
    (hg : wf top.git = true) :
    (jsonParse (jsonSerialize (coverallsJson top digests d))).bind decodeCoverallsJson = some d := by
  rw [jsonParse_jsonSerialize _ (wf_coverallsJson top digests d hg)]
  exact decodeCoverallsJson_coverallsJson top digests d

/-- covdir: the bytes of the report parse to the document of the tree (`C03_covdir_document`
says what it holds); the printed percentages only have to look like floats. -/
theorem C03_json_covdir_bytes (fill : Fill) (hf : FillOk fill) (t : Docs.Tree) :
    jsonParse (jsonSerialize (covdirJson fill t)) = some (covdirJson fill t) :=
  jsonParse_jsonSerialize _ (wf_covdirJson fill hf t)

/-- ActiveData-ETL: every line of the report parses to the record it was written for -/
theorem C03_json_ade_line (pcts : List Json) (r : CobAde.AdeRecord)
    (h : wf (adeRecordJson pcts r) = true) :
    jsonParse (jsonSerialize (adeRecordJson pcts r)) = some (adeRecordJson pcts r) :=
  jsonParse_jsonSerialize _ h

/-- a hostile name stays a name: the file `x","y":1,"z":".c` is one entry with that name -/
example : (jsonParse (jsonSerialize (coverallsJson ⟨.null, false, none, none, [49], none, [51], none⟩ [[]]
    [⟨[120, 34, 44, 34, 121, 34, 58, 49], [some 5, none], [], none⟩])) ).bind decodeCoverallsJson =
    some [⟨[120, 34, 44, 34, 121, 34, 58, 49], [some 5, none], [], none⟩] :=
  C03_json_coveralls_bytes _ _ _ rfl

set_option maxRecDepth 8000 in
/-- keys come out in byte order, a repeated key keeps the last value (`BTreeMap::insert`):
`{"a":[null,true,0.5],"b":"\"\n"}` -/
example : jsonSerialize (mkObj [([98], .int (-1)), ([97], .arr [.null, .bool true, .tok [48, 46, 53]]), ([98], .str [34, 10])]) =
    [123, 34, 97, 34, 58, 91, 110, 117, 108, 108, 44, 116, 114, 117, 101, 44, 48, 46, 53, 93, 44, 34, 98, 34, 58, 34, 92, 34, 92, 110, 34, 125] := by
  decide

end Grcov.Props.C03
