/-
C19 — writes stay inside the temp dir. Theorems about `Confine`: the destination computed for an
archive entry, `tmp.join(<entry stem>_<n>.<ext>)`, resolves under `tmp` for every entry name that
passes the enclosure test the producer now applies to zip entries; and a closed witness that
without the test a destination escapes (the zip-slip defect of the original code).
Partial by nature: kernel path resolution with symlinks, and the fact that grcov writes nowhere
else, are checked by the sandbox snapshots of the correspondence run, not proved.
-/
import GrcovModel.Confine
import GrcovModel.Props.C19Dest
import GrcovModel.Props.C19Extract
namespace Grcov.Props.C19
open Grcov.Confine

/-- Every enclosed entry name, with its last component renamed by the producer, joined onto the
temp dir, resolves to a path below the temp dir – for every temp dir and every renaming. -/
theorem C19_enclosed_stays_in_tmp (tmp : Path) (entry : Path) (f : List Nat → List Nat)
    (h : enclosed entry = true) :
    ∃ rest, resolve (join tmp (renameLast f entry)) = resolve tmp ++ rest := by
  have hd : (depthFrom 0 (renameLast f entry)).isSome := by
    rw [depthFrom_renameLast]; exact h
  have hrel : isAbsolute (renameLast f entry) = false := by
    cases hp : renameLast f entry with
    | nil => rfl
    | cons c p => cases c <;> simp [isAbsolute]; rw [hp] at hd; simp [depthFrom] at hd
  simp only [join, hrel, Bool.false_eq_true, if_false, resolve]
  -- resolving `tmp ++ e` = resolving `e` on top of the stack `resolve tmp`
  have split : ∀ (st : List (List Nat)) (a b : Path),
      resolveOnto st (a ++ b) = resolveOnto (resolveOnto st a) b := by
    intro st a
    induction a generalizing st with
    | nil => intro b; rfl
    | cons c a ih => intro b; cases c <;> simp [resolveOnto, ih]
  rw [split]
  have := resolveOnto_enclosed (resolveOnto [] tmp) [] (renameLast f entry) 0 rfl hd
  simpa using this

/-- What the producer extracts today (the canonical spelling of an accepted entry name: normal
components only; since fix 2f541c3 a name with a leading `./`, repeated separators or `.` segments is
accepted and spelled that way, `Producer.canonName`) is inside that domain, so every accepted entry
lands below the directory it is joined onto (`tmp/inputs` since fix 232bfd3; the string-level
statement is `C19_accepted_zip_names_stay_in_inputs`). -/
theorem C19_accepted_names_stay_in_tmp (tmp : Path) (entry : Path) (f : List Nat → List Nat)
    (h : plain entry = true) :
    ∃ rest, resolve (join tmp (renameLast f entry)) = resolve tmp ++ rest :=
  C19_enclosed_stays_in_tmp tmp entry f (enclosed_of_plain entry h)

/-- `shared/./x` reaches the same destination as `shared/x` (the defect repaired by fix b6c32a1:
the raw spelling was joined onto the temp dir). Since fix 2f541c3 both spellings are accepted and
listed under the ONE canonical name, whose components are normal; a second entry of that canonical
name in the same archive is skipped, and across archives the number `_<n>` keeps the destinations
apart (`C19_extract_dest_injective`, `C19_no_write_through_link`). -/
theorem C19_dot_segment_same_destination :
    let tmp : Path := [.root, .normal [116]]
    resolve (join tmp [.normal [115], .cur, .normal [120]]) = resolve (join tmp [.normal [115], .normal [120]])
      ∧ enclosed [.normal [115], .cur, .normal [120]] = true
      ∧ plain [.normal [115], .cur, .normal [120]] = false := by
  decide

/-- The test is necessary: the entry `../../x.gcno` is not enclosed and its destination under
`/tmp/t` resolves to `/x_1.gcno` – outside the temp dir (the original code wrote there). -/
theorem C19_unenclosed_escapes :
    let tmp : Path := [.root, .normal [116, 109, 112], .normal [116]]
    let entry : Path := [.parent, .parent, .normal [120]]
    enclosed entry = false ∧ resolve (join tmp entry) = [[120]] := by
  decide

/-- … and so does an absolute entry name, which replaces the temp dir altogether. -/
theorem C19_absolute_escapes :
    let tmp : Path := [.root, .normal [116, 109, 112]]
    let entry : Path := [.root, .normal [101, 116, 99], .normal [120]]
    enclosed entry = false ∧ resolve (join tmp entry) = [[101, 116, 99], [120]] := by
  decide

/-- non-vacuity: `a/b/../../inside` is enclosed (it never climbs above its start) -/
example : enclosed [.normal [97], .normal [98], .parent, .parent, .normal [105]] = true := by decide

end Grcov.Props.C19
