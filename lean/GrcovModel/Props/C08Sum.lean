/-
C08, several functions per notes file and per source file (second review, item 30): the count a
file reports for a line is the SUM of the shares of the functions of that file (`finalize` merges
with `+`; template instantiations, inline functions of a header, several functions on one line),
every function being evaluated on its own counters (`stop`), and the share of a function is given
by the single-function theorems: the block counter for a single-block line, the entering part
for an acyclic multi-block line, 0 when the function was not entered.
-/
import GrcovModel.Lemmas.GcnoSum
import GrcovModel.Lemmas.GcnoMultiBlock
namespace Grcov.Props.C08
open Grcov Grcov.Gcno AList Outcome

/-- **`stop` treats every function on its own**: the j-th entry of its result is `count_on_tree`
of the j-th function of the notes on the counters accumulated for position j. -/
theorem C08_functions_counted_independently (g : Notes) (st : State) (fs : List (Func × Cnt))
    (h : stop g st = ok fs) :
    fs.length = g.funcs.length ∧
    ∀ (j : Nat) (f : Func), g.funcs[j]? = some f →
      ∃ fc, fs[j]? = some fc ∧ countOnTree g.version f (st j) = ok fc := by
  obtain ⟨h1, h2⟩ := stopGo_pointwise g.version st g.funcs 0 fs h
  refine ⟨h1, fun j f hj => ?_⟩
  obtain ⟨fc, e1, e2⟩ := h2 j f hj
  exact ⟨fc, e1, by simpa using e2⟩

/-- **The reported count of a line is the sum over the functions of its file.** For all notes
(any number of functions, in any files), every gcda list and every accepted computation: with
`fs` the functions as `stop` leaves them, line `l` of file `k` is reported with the sum of the
shares `fnLine` of the functions whose source file is `k` (0 = the line is not reported, or
with 0). -/
theorem C08_line_count_is_sum_over_functions (g : Notes) (ds : List Gcda) (br : Bool)
    (r : List (Bytes × Cov)) (st : State) (fs : List (Func × Cnt))
    (hst : addGcdas g State.zero ds = ok st) (hfs : stop g st = ok fs)
    (h : compute g ds br = ok r) (k : Bytes) (l : Nat) :
    lineAt r k l
      = ((fs.filter fun fc => decide (fc.1.fileName = k)).map fun fc => fnLine fc.1 fc.2 l).sum := by
  unfold compute at h
  rw [hst] at h
  simp only [bind_ok] at h
  rw [hfs] at h
  simp only [bind_ok, finalize] at h
  have := foldl_finStep_lineAt br k l fs [] r h
  rw [this]
  simp [lineAt]

/-- share of a function that was not entered: nothing -/
theorem C08_function_share_not_entered (f : Func) (c : Cnt) (l : Nat) (h : entered f c = false) :
    fnLine f c l = 0 := by
  unfold fnLine addLineCount
  rw [h]
  rfl

/-- share of an entered function for a line it lists in exactly one block occurrence: that
block's counter (for recovered flows the block's inflow: `C08_block_count_is_inflow`) -/
theorem C08_function_share_single_block (f : Func) (c : Cnt) (ls : List (Nat × Nat)) (l b : Nat)
    (h : addLineCount f c = ok (true, ls)) (hl : (l, [b]) ∈ linesToBlock f) :
    fnLine f c l = c.blk b := by
  have hmem : (l, c.blk b) ∈ ls := by
    unfold addLineCount at h
    split at h
    · obtain ⟨ls', h1, h2⟩ := bind_eq_ok.1 h
      cases h2
      exact lineCounts_single f c l b _ _ _ h1 hl
    · cases h
  unfold fnLine
  rw [h]
  simp only
  rw [get?_of_mem_nodupKeys ls l _ (nodupKeys_addLineCount h) hmem]
  rfl

/-- share of an entered function for a line whose block occurrences carry no circuit: the
entering part -/
theorem C08_function_share_multi_block_acyclic (f : Func) (hA : Adj f) (c : Cnt)
    (ls : List (Nat × Nat)) (l : Nat) (bs : List Nat) (h : addLineCount f c = ok (true, ls))
    (hl : (l, bs) ∈ linesToBlock f) (hlen : bs.length ≠ 1) (hN : NoCycle f bs) :
    fnLine f c l = entryPart f c.arc bs := by
  have hmem : ∃ cyc cyc' n, getLineCount f c.arc bs cyc = ok (cyc', n) ∧ (l, n) ∈ ls := by
    unfold addLineCount at h
    split at h
    · obtain ⟨ls', h1, h2⟩ := bind_eq_ok.1 h
      cases h2
      exact lineCounts_multi f c l bs hlen _ _ _ h1 hl
    · cases h
  obtain ⟨cyc, cyc', n, hg, hmem⟩ := hmem
  unfold fnLine
  rw [h]
  simp only
  rw [get?_of_mem_nodupKeys ls l _ (nodupKeys_addLineCount h) hmem,
    getLineCount_acyclic hA c.arc bs hN cyc cyc' n hg]
  rfl

/-! ### the hypotheses are satisfiable: two functions of one file that share a line -/

/-- two instantiations `f<int>` / `f<long>` of a template in `a.c`, both listing lines 10–12
(LLVM 4.8 layout, the diamond of Props/C08EndToEnd.lean twice, idents 1 and 2) -/
def twoFuncs : Outcome Notes :=
  build 48 7
    [.func 1 11 22 [102, 49] [97, 46, 99] 10 0, .blocks 5,
     .arcs 0 [(2, 1)], .arcs 2 [(3, 0), (4, 1)], .arcs 3 [(1, 1)], .arcs 4 [(1, 0)],
     .lines 2 [.file [97, 46, 99], .line 10], .lines 3 [.file [97, 46, 99], .line 11],
     .lines 4 [.file [97, 46, 99], .line 12],
     .func 2 33 44 [102, 50] [97, 46, 99] 10 0, .blocks 5,
     .arcs 0 [(2, 1)], .arcs 2 [(3, 0), (4, 1)], .arcs 3 [(1, 1)], .arcs 4 [(1, 0)],
     .lines 2 [.file [97, 46, 99], .line 10], .lines 3 [.file [97, 46, 99], .line 11],
     .lines 4 [.file [97, 46, 99], .line 12]]

/-- `f1`: 7 runs, 2 through line 11 and 5 through line 12; `f2`: 4 runs, 3 and 1 -/
def twoGcda : Gcda :=
  ⟨48, 7, [.func 3 1 11 22, .arcs 4 [2, 5], .func 3 2 33 44, .arcs 4 [3, 1]]⟩

def lineOfRes (o : Outcome (List (Bytes × Cov))) (l : Nat) : Nat :=
  match o with
  | .ok r => lineAt r [97, 46, 99] l
  | _ => 0

/-- the shared lines get the sums 7+4, 2+3, 5+1; a gcda that enters only `f2` leaves `f1`'s share 0 -/
example : lineOfRes (twoFuncs.bind fun g => compute g [twoGcda] true) 10 = 11 ∧
    lineOfRes (twoFuncs.bind fun g => compute g [twoGcda] true) 11 = 5 ∧
    lineOfRes (twoFuncs.bind fun g => compute g [twoGcda] true) 12 = 6 ∧
    lineOfRes (twoFuncs.bind fun g => compute g
      [⟨48, 7, [.func 3 1 11 22, .arcs 4 [0, 0], .func 3 2 33 44, .arcs 4 [3, 1]]⟩] true) 10 = 4 := by
  decide +kernel

end Grcov.Props.C08
