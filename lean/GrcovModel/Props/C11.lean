/-
C11 — file selection and path rewriting follow the user's filters exactly.
Property theorems only, about the model `Rewrite.rewritePaths` of `rewrite_paths`
(src/path_rewriting.rs), `UPath.normalizePath` of `normalize_path`, `Rewrite.isCovered` of
`is_covered` (src/filter.rs) and `Glob` of the `globset` subset. Helper lemmas:
GrcovModel/Lemmas/UPath.lean, GrcovModel/Lemmas/Rewrite.lean.

Quantification: every configuration (`Cfg`: source dir, prefix dir, path mapping, ignore and
keep-only glob sets, ignore-not-existing, filter), every file system (`FS`), every result map
(any keys, any coverage data).

Two clauses were false of earlier versions of the code and are now proved at full strength; their
old witnesses are corpus cases (corpus/C11):
* normal form — before fix 568afd2 a path-mapping *value* that contains backslashes reached the
  report with its backslashes turned into separators AFTER normalisation, so `x\..\y.c` was
  reported as `x/../y.c` (former finding C11-mapping-backslash). The replacement now happens right
  after `get_abs_path` and the path is normalised again (`Rewrite.finalRel`); the filters run on,
  and the report carries, that final path.
* "relative to the source directory" — before fix 52345c0 an absolute path reaching the source dir
  through `..` behind a missing directory was reported absolute.
Part `Partial` (Props/C11Partial.lean, imported below) puts the Java/Kotlin lookup inside and
carries the one clause that is false of the current code (finding
C11-partial-path-ignore-prunes-candidates).
-/
import GrcovModel.Lemmas.Rewrite
import GrcovModel.Props.C11Partial
import GrcovModel.Props.C11Symlink
import GrcovModel.Props.C11Main
import GrcovModel.Props.C11Glob
import GrcovModel.Props.C11Filter
import GrcovModel.Props.C11Edges
namespace Grcov.Props.C11
open Grcov Grcov.UPath Grcov.Glob Grcov.Rewrite

/-! ### membership and selection -/

/-- The report consists exactly of the records that the per-key pipeline retains. -/
theorem C11_report_members (cfg : Cfg) (fs : FS) (m : List (Bytes × Cov)) (rep : List Rec)
    (h : rewritePaths cfg fs m = .ok rep) (r : Rec) :
    r ∈ rep ↔ ∃ kc ∈ m, rewriteKey cfg fs kc = .ok (some r) :=
  mem_rewritePaths h r

/-- WITHOUT any `--excl-*` option (the general statement, with the exclusion markers applied before
the covered filter as in the code, is `C11_selection_iff` in Props/C11Filter.lean; this is its
instance `flt = fun _ => []`, `C11_no_markers_is_plain`): a key is reported iff its rewritten
relative path matches no ignore glob, matches some
keep-only glob when any is given, exists on disk when ignore-not-existing is set, and has the
requested covered/uncovered status; the record then carries exactly that path — the one the globs
were matched against, also for keys and mapping values spelled with backslashes — and the key's own
data. (`resolveKey` is the path part of the pipeline; it does not look at the filters.) -/
theorem C11_selection_iff_no_markers (cfg : Cfg) (fs : FS) (kc : Bytes × Cov) (r : Rec) :
    rewriteKey cfg fs kc = .ok (some r) ↔
      ∃ abs rel, resolveKey cfg fs kc.1 = .ok (some (abs, rel)) ∧
        setMatch cfg.ignore rel = false ∧
        (cfg.keep = [] ∨ setMatch cfg.keep rel = true) ∧
        (cfg.ignoreNotExisting = true → fs.exists abs = true) ∧
        filterOk cfg.filter kc.2 = true ∧
        r = ⟨abs, rel, kc.2⟩ := by
  rw [rewriteKey_some_iff]
  constructor
  · rintro ⟨a, rl, h1, h2⟩; exact ⟨a, rl, h1, (selectRec_some_iff _ _ _ _ _ _).1 h2⟩
  · rintro ⟨a, rl, h1, h2⟩; exact ⟨a, rl, h1, (selectRec_some_iff _ _ _ _ _ _).2 h2⟩

/-- `--filter covered` keeps a file iff some line was hit and, when the file has more than one
function (JavaScript), some function other than "top-level" was executed. -/
theorem C11_is_covered_spec (c : Cov) :
    isCovered c = true ↔
      (∃ lc ∈ c.lines, lc.2 ≠ 0) ∧
      (c.functions.length ≤ 1 ∨ ∃ nf ∈ c.functions, nf.2.executed = true ∧ nf.1 ≠ topLevel) := by
  unfold isCovered
  by_cases h : (c.lines.any fun lc => lc.2 != 0) = true
  · simp only [h, Bool.not_true, Bool.false_eq_true, if_false, Bool.or_eq_true, decide_eq_true_eq,
      List.any_eq_true, Bool.and_eq_true, bne_iff_ne, ne_eq]
    simp only [List.any_eq_true, bne_iff_ne, ne_eq] at h
    simp [h]
  · simp only [h, Bool.not_false, if_true, Bool.false_eq_true, false_iff, not_and]
    intro h'
    simp only [List.any_eq_true, bne_iff_ne, ne_eq] at h
    exact absurd h' h

/-! ### partitions -/

/-- One key, one glob set `G`: under `--ignore G` and `--keep-only G` (on top of any other ignore
globs) the key is retained by exactly one of the two runs when the unfiltered run retains it, by
neither when it does not; a panic of one run is a panic of all. -/
theorem C11_ignore_keep_partition_key (cfg : Cfg) (hk : cfg.keep = []) (G : GlobSet) (hG : G ≠ [])
    (fs : FS) (kc : Bytes × Cov) (o : Option Rec) (h : rewriteKey cfg fs kc = .ok o) :
    (rewriteKey { cfg with ignore := cfg.ignore ++ G } fs kc = .ok o ∧
        rewriteKey { cfg with keep := G } fs kc = .ok none) ∨
    (rewriteKey { cfg with ignore := cfg.ignore ++ G } fs kc = .ok none ∧
        rewriteKey { cfg with keep := G } fs kc = .ok o) :=
  (rewriteKey_ignore_keep cfg hk G hG fs kc).2 o h

/-- The files reported with `--ignore G` and those reported with `--keep-only G` partition the
unfiltered report (as multisets of records), for every non-empty glob set `G`. -/
theorem C11_ignore_keep_partition (cfg : Cfg) (hk : cfg.keep = []) (G : GlobSet) (hG : G ≠ [])
    (fs : FS) (m : List (Bytes × Cov)) (rep : List Rec) (h : rewritePaths cfg fs m = .ok rep) :
    ∃ ri rk, rewritePaths { cfg with ignore := cfg.ignore ++ G } fs m = .ok ri ∧
      rewritePaths { cfg with keep := G } fs m = .ok rk ∧ (ri ++ rk).Perm rep :=
  partition_reports cfg { cfg with ignore := cfg.ignore ++ G } { cfg with keep := G } fs m ⟨rfl, rfl⟩
    (fun kc _ => rewriteKey_ignore_keep cfg hk G hG fs kc) rep h

/-- One key: `--filter covered` and `--filter uncovered` retain it in exactly one of the two runs
when the unfiltered run retains it. -/
theorem C11_covered_uncovered_partition_key (cfg : Cfg) (hf : cfg.filter = none) (fs : FS)
    (kc : Bytes × Cov) (o : Option Rec) (h : rewriteKey cfg fs kc = .ok o) :
    (rewriteKey { cfg with filter := some true } fs kc = .ok o ∧
        rewriteKey { cfg with filter := some false } fs kc = .ok none) ∨
    (rewriteKey { cfg with filter := some true } fs kc = .ok none ∧
        rewriteKey { cfg with filter := some false } fs kc = .ok o) :=
  (rewriteKey_filter cfg hf fs kc).2 o h

/-- `--filter covered` and `--filter uncovered` partition the unfiltered report (no `--excl-*`
option; with markers: `C11_covered_uncovered_partition_markers`). -/
theorem C11_covered_uncovered_partition (cfg : Cfg) (hf : cfg.filter = none) (fs : FS)
    (m : List (Bytes × Cov)) (rep : List Rec) (h : rewritePaths cfg fs m = .ok rep) :
    ∃ rc ru, rewritePaths { cfg with filter := some true } fs m = .ok rc ∧
      rewritePaths { cfg with filter := some false } fs m = .ok ru ∧ (rc ++ ru).Perm rep :=
  partition_reports cfg { cfg with filter := some true } { cfg with filter := some false } fs m ⟨rfl, rfl⟩
    (fun kc _ => rewriteKey_filter cfg hf fs kc) rep h

/-! ### normal form -/

/-- '/'-separated real names (non-empty, not "." or ".."), optionally after a root '/' -/
def NormalForm (r : Bytes) : Prop := ∃ np : NPath, r = render np ∧ ∀ n ∈ np.names, RealName n

/-- what `NormalForm` says about the string: it is empty, or "/", or every '/'-separated piece
(after the leading '/' of an absolute path) is non-empty, contains no '/', and is not "." or ".." -/
theorem C11_normal_form_segments (r : Bytes) (h : NormalForm r) :
    r = [] ∨ r = [47] ∨
      ∀ s ∈ (if hasRoot r then (split r).tail else split r), RealName s := by
  obtain ⟨⟨root, names⟩, e, hreal⟩ := h
  subst e
  cases names with
  | nil => cases root <;> simp [render, join]
  | cons a t =>
    right; right
    have hsp : split (join (a :: t)) = a :: t := split_join (by simp) (fun s hs => (hreal s hs).2.1)
    cases root with
    | true =>
      have : split (render ⟨true, a :: t⟩) = [] :: (a :: t) := by
        simp only [render, if_true, List.cons_append, List.nil_append]
        rw [split]; simp [hsp]
      rw [hasRoot_render_true, this]; simpa using hreal
    | false =>
      have hr : hasRoot (render ⟨false, a :: t⟩) = false := by
        simp only [render, Bool.false_eq_true, if_false, List.nil_append]
        unfold hasRoot
        simpa using head_join_ne_slash (hreal a (by simp)).1 (hreal a (by simp)).2.1
      rw [hr]
      simp only [render, Bool.false_eq_true, if_false, List.nil_append, hsp]
      simpa using hreal

/-- Full statement: every reported relative path is in normal form. -/
def C11_normal_form_stmt : Prop :=
  ∀ (cfg : Cfg) (fs : FS) (kc : Bytes × Cov) (r : Rec),
    rewriteKey cfg fs kc = .ok (some r) → NormalForm r.rel

/-- Every reported relative path is in normal form, for every configuration, file system and key —
backslashed keys and mapping values included (since fix 568afd2; before it the mapping
`{"a.c": "x\..\y.c"}` put `x/../y.c` into the report). -/
theorem C11_normal_form : C11_normal_form_stmt := by
  intro cfg fs kc r h
  obtain ⟨a, rl, h1, _, _, _, _, e⟩ := (C11_selection_iff_no_markers cfg fs kc r).1 h
  obtain ⟨r0, _, hf⟩ := resolveKey_some h1
  rw [e]
  exact (finalRel_shape hf).1

/-- Reported relative paths use '/' only: no backslash survives, whatever the key, the mapping
values, the source dir or the names on disk contain. -/
theorem C11_no_backslash (cfg : Cfg) (fs : FS) (kc : Bytes × Cov) (r : Rec)
    (h : rewriteKey cfg fs kc = .ok (some r)) : 92 ∉ r.rel := by
  obtain ⟨a, rl, h1, _, _, _, _, e⟩ := (C11_selection_iff_no_markers cfg fs kc r).1 h
  obtain ⟨r0, _, hf⟩ := resolveKey_some h1
  rw [e]
  exact (finalRel_shape hf).2

/-- The reported path is the final form — backslashes to '/', normalised again — of the relative
path `get_abs_path` returns, and the globs are matched against that same final path. -/
theorem C11_reported_is_final (cfg : Cfg) (fs : FS) (kc : Bytes × Cov) (r : Rec)
    (h : rewriteKey cfg fs kc = .ok (some r)) :
    ∃ r0, getAbsPath fs cfg.sourceDir (keyPath cfg kc.1) = .ok (some (r.abs, r0)) ∧
      normalizePath (bsl r0) = some r.rel ∧ setMatch cfg.ignore r.rel = false ∧
      (cfg.keep = [] ∨ setMatch cfg.keep r.rel = true) := by
  obtain ⟨a, rl, h1, h2, h3, _, _, e⟩ := (C11_selection_iff_no_markers cfg fs kc r).1 h
  obtain ⟨r0, hg, hf⟩ := resolveKey_some h1
  subst e
  exact ⟨r0, hg, hf, h2, h3⟩

/-- The reported absolute path is in normal form, always. -/
theorem C11_abs_normal_form (cfg : Cfg) (fs : FS) (kc : Bytes × Cov) (r : Rec)
    (h : rewriteKey cfg fs kc = .ok (some r)) : NormalForm r.abs := by
  obtain ⟨a, rl, h1, _, _, _, _, e⟩ := (C11_selection_iff_no_markers cfg fs kc r).1 h
  obtain ⟨r0, hg, _⟩ := resolveKey_some h1
  obtain ⟨ac, _, hn, _⟩ := (getAbsPath_some_iff _ _ _ _ _).1 hg
  obtain ⟨np, enp, hreal, _⟩ := normalizePath_shape hn
  rw [e]; exact ⟨np, enp, hreal⟩

/-- `normalize_path` gives up exactly when some ".." pops past the start: at some point of the
'/'-separated segment list more ".." than names have been read. -/
theorem C11_escape_dropped (p : Bytes) :
    normalizePath p = none ↔
      ∃ k, countDotDot ((split p).take k) > countNames ((split p).take k) :=
  normalizePath_none_iff p

/-- … and such a path is dropped, not reported: whatever the configuration, a key whose path after
mapping, prefix removal and source-dir fix-up escapes through ".." yields no record — before the
backslashes are replaced, and after. -/
theorem C11_escape_not_reported (cfg : Cfg) (fs : FS) (kc : Bytes × Cov) (r : Rec)
    (h : rewriteKey cfg fs kc = .ok (some r)) :
    ∃ ac r0, absCanon fs cfg.sourceDir (keyPath cfg kc.1) = some ac ∧
      normalizePath ac ≠ none ∧
      normalizePath (fixupRelPath cfg.sourceDir ac (keyPath cfg kc.1)) = some r0 ∧
      normalizePath (bsl r0) ≠ none := by
  obtain ⟨a, rl, h1, _⟩ := (C11_selection_iff_no_markers cfg fs kc r).1 h
  obtain ⟨r0, hg, hf⟩ := resolveKey_some h1
  obtain ⟨ac, h2, h3, h4⟩ := (getAbsPath_some_iff _ _ _ _ _).1 hg
  exact ⟨ac, r0, h2, by simp [h3], h4, by unfold finalRel at hf; simp [hf]⟩

/-! ### prefix and source directory -/

/-- Without a source dir: when the (mapped) key lies under the prefix dir, its components are those
of the prefix followed by those of the remainder, and the path used from there on — matched
against the globs and reported — is the final form (backslashes to '/', normalised again) of the
normal form of that remainder. -/
theorem C11_prefix_removed (cfg : Cfg) (fs : FS) (key pre t abs rel : Bytes)
    (hS : cfg.sourceDir = none) (hP : cfg.prefixDir = some pre) (hpre : components pre ≠ [])
    (hstrip : stripPrefix (applyMapping cfg.mapping (bsl key)) pre = some t)
    (h : resolveKey cfg fs key = .ok (some (abs, rel))) :
    components (applyMapping cfg.mapping (bsl key)) = components pre ++ components t ∧
      ∃ r0, normalizePath t = some r0 ∧ normalizePath (bsl r0) = some rel := by
  refine ⟨stripPrefix_components hstrip hpre, ?_⟩
  obtain ⟨r0, hg, hf⟩ := resolveKey_some h
  obtain ⟨ac, _, _, hn⟩ := (getAbsPath_some_iff _ _ _ _ _).1 hg
  exact ⟨r0, by simpa [keyPath, hP, removePrefix, hstrip, hS, fixupRelPath] using hn, hf⟩

/-- Full statement: with a clean absolute source dir `S`, a reported file whose absolute path lies
under `S` is reported under exactly the path that stripping `S` from the absolute path leaves.
FALSE of the code for names that contain a backslash (finding C11-backslash-name-abs-rel-differ). -/
def C11_relative_under_source_dir_stmt : Prop :=
  ∀ (cfg : Cfg) (fs : FS) (key : Bytes) (sn : List Bytes) (abs rel : Bytes),
    (∀ n ∈ sn, RealName n) → cfg.sourceDir = some (render ⟨true, sn⟩) →
    resolveKey cfg fs key = .ok (some (abs, rel)) → startsWith abs (render ⟨true, sn⟩) = true →
    stripPrefix abs (render ⟨true, sn⟩) = some rel

/-- Witness: source dir `/s`, mapping `{"a.c": "foo\bar.c"}` (a Windows-style value on Unix), nothing
on disk. Key `a.c` is reported with the absolute path `/s/foo\bar.c` — one component below `/s`,
backslash kept — and the relative path `foo/bar.c`: the two no longer name the same file (only the
relative path has its backslashes turned into separators; if `/s/foo/bar.c` exists, the absolute
path still points at the non-existing `/s/foo\bar.c`). -/
theorem C11_relative_under_source_dir_false : ¬ C11_relative_under_source_dir_stmt := by
  intro h
  have hw : resolveKey { sourceDir := some [47, 115]
                         mapping := some [([97, 46, 99], [102, 111, 111, 92, 98, 97, 114, 46, 99])] }
      { files := [], dirs := [], cwd := [] } [97, 46, 99]
      = .ok (some ([47, 115, 47, 102, 111, 111, 92, 98, 97, 114, 46, 99],
                   [102, 111, 111, 47, 98, 97, 114, 46, 99])) := by decide
  have := h _ _ _ [[115]] _ _ (by decide) rfl hw (by decide)
  revert this
  decide

/-- With a clean absolute source dir `S` (what `main` passes: the canonicalised `--source-dir`),
every reported file whose absolute path lies under `S` is reported relative to `S`: the absolute
path is `S/names`, stripping `S` from it leaves `names`, and the reported relative path is the
final form of `names` — `names` itself under the guard the witness violates: no name below `S`
contains a backslash. For every file system, key, prefix and mapping. (Before fix 52345c0 this was false for `/x/../s/a.c` with `x` missing:
finding C11-dotdot-not-relativised, now a corpus case. Symlinks are outside the model: the file
system parameter has none, so "lies under" is about the path `canonicalize` returns.) -/
theorem C11_relative_under_source_dir_partial (cfg : Cfg) (fs : FS) (key : Bytes) (sn : List Bytes)
    (abs rel : Bytes) (hsn : ∀ n ∈ sn, RealName n)
    (hS : cfg.sourceDir = some (render ⟨true, sn⟩))
    (h : resolveKey cfg fs key = .ok (some (abs, rel)))
    (hunder : startsWith abs (render ⟨true, sn⟩) = true) :
    ∃ names, (∀ n ∈ names, RealName n) ∧ abs = render ⟨true, sn ++ names⟩ ∧
      stripPrefix abs (render ⟨true, sn⟩) = some (render ⟨false, names⟩) ∧
      normalizePath (bsl (render ⟨false, names⟩)) = some rel ∧
      ((∀ n ∈ names, 92 ∉ n) → rel = render ⟨false, names⟩) :=
  relative_under_source hsn hS h hunder

/-- the former witness: source dir `/s`, nothing on disk, key `/x/../s/a.c` is now reported as
(`/s/a.c`, `a.c`) -/
example : resolveKey { sourceDir := some [47, 115] } { files := [], dirs := [], cwd := [] }
    [47, 120, 47, 46, 46, 47, 115, 47, 97, 46, 99]
    = .ok (some ([47, 115, 47, 97, 46, 99], [97, 46, 99])) := by decide

/-! ### data -/

/-- Coverage data of a retained file is passed through unchanged when no exclusion marker is
configured (with markers: `C11_data_passthrough_markers`, the record is what the markers of that
file leave of it): every reported record carries the data of the map entry
it comes from, and no entry yields more than one record. -/
theorem C11_data_passthrough (cfg : Cfg) (fs : FS) (m : List (Bytes × Cov)) (rep : List Rec)
    (h : rewritePaths cfg fs m = .ok rep) :
    (∀ r ∈ rep, ∃ kc ∈ m, rewriteKey cfg fs kc = .ok (some r) ∧ r.cov = kc.2) ∧
      rep.length ≤ m.length := by
  constructor
  · intro r hr
    obtain ⟨kc, hkc, hk⟩ := (mem_rewritePaths h r).1 hr
    refine ⟨kc, hkc, hk, ?_⟩
    obtain ⟨_, _, _, _, _, _, _, e⟩ := (C11_selection_iff_no_markers cfg fs kc r).1 hk
    rw [e]
  · obtain ⟨_, _, e⟩ := (rewritePaths_eq_ok cfg fs m rep).1 h
    rw [e]; exact List.length_filterMap_le _ _

/-! ### globs -/

/-- `*` crosses path separators: the glob `*` matches every path. -/
theorem C11_glob_star_matches_all (p : Bytes) : globMatch [42] p = some true := by
  have hp : parse [42] = some [Tok.star] := by decide
  simp [globMatch, hp, matchToks_star_nil]

/-- A sequence of literal tokens matches exactly its own byte string (matching is anchored at both
ends and case-sensitive). -/
theorem C11_glob_literal (lits p : Bytes) :
    matchToks (lits.map Tok.lit) p = true ↔ p = lits := matchToks_lits lits p

/-! ### non-vacuity: a concrete tree, configuration and map

`/s/foo/bar.c` and `/s/lib/a.c` exist, the cwd is `/s`; source dir and prefix `/s`;
`--ignore "lib/*"`; `--filter covered`. Keys: `foo//./bar.c` (respelled, covered),
`/s/lib/a.c` (ignored), `x/../../up.c` (escapes), `foo\bar.c` (backslash, uncovered). -/
def exFS : FS := { files := [[[115], [102, 111, 111], [98, 97, 114, 46, 99]], [[115], [108, 105, 98], [97, 46, 99]]],
                   dirs := [[[115]], [[115], [102, 111, 111]], [[115], [108, 105, 98]]], cwd := [[115]] }
def exCfg : Cfg := { sourceDir := some [47, 115], prefixDir := some [47, 115],
                     ignore := [[Tok.lit 108, Tok.lit 105, Tok.lit 98, Tok.lit 47, Tok.star]],
                     filter := some true }
def exHit : Cov := { lines := [(1, 3)] }
def exMap : List (Bytes × Cov) :=
  [([102, 111, 111, 47, 47, 46, 47, 98, 97, 114, 46, 99], exHit),
   ([47, 115, 47, 108, 105, 98, 47, 97, 46, 99], exHit),
   ([120, 47, 46, 46, 47, 46, 46, 47, 117, 112, 46, 99], exHit),
   ([102, 111, 111, 92, 98, 97, 114, 46, 99], { lines := [(1, 0)] })]

example : Glob.parse [108, 105, 98, 47, 42] = some [Tok.lit 108, Tok.lit 105, Tok.lit 98, Tok.lit 47, Tok.star] := by
  decide

example : rewritePaths exCfg exFS exMap
    = .ok [⟨[47, 115, 47, 102, 111, 111, 47, 98, 97, 114, 46, 99], [102, 111, 111, 47, 98, 97, 114, 46, 99], exHit⟩] := by
  decide

/-- the unfiltered configuration reports two records (the two spellings of `foo/bar.c`: C12) and
the partition hypotheses `keep = []`, `filter = none` are satisfiable -/
example : ∃ rep, rewritePaths { exCfg with ignore := [], filter := none } exFS exMap = .ok rep ∧
    rep.length = 3 ∧ ({ exCfg with ignore := [], filter := none } : Cfg).keep = [] := by
  refine ⟨_, rfl, ?_, rfl⟩
  decide

example : NormalForm [102, 111, 111, 47, 98, 97, 114, 46, 99] :=
  ⟨⟨false, [[102, 111, 111], [98, 97, 114, 46, 99]]⟩, by decide, by decide⟩

/-- the former witness of C11-mapping-backslash: the mapping `{"a.c": "x\..\y.c"}` now reports
key `a.c` as `y.c`; with one more `..` (`x\..\..\y.c`) the path escapes and the key is dropped -/
example : rewriteKey { mapping := some [([97, 46, 99], [120, 92, 46, 46, 92, 121, 46, 99])] }
      { files := [], dirs := [], cwd := [] } ([97, 46, 99], {})
    = .ok (some ⟨[120, 92, 46, 46, 92, 121, 46, 99], [121, 46, 99], {}⟩) := by decide

example : rewriteKey { mapping := some [([97, 46, 99], [120, 92, 46, 46, 92, 46, 46, 92, 121, 46, 99])] }
      { files := [], dirs := [], cwd := [] } ([97, 46, 99], {}) = .ok none := by decide

end Grcov.Props.C11
