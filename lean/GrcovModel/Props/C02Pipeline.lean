/-
C02, part `Pipeline` — every input is counted exactly once, for every thread count and interleaving.
Theorems about the transition system `Pipeline` (model of main.rs/lib.rs/producer.rs threading),
quantified over every worker count `n`, every item list, every fault environment `fate`, every
batch size function `size` and every schedule (`Run` = any finite sequence of enabled steps, the
injected faults `prodDies` / `workerDies w` included). Merging is not atomic in the model: a
worker parses (`parsed`), takes the result-map mutex (`lock`), writes its batch entry by entry
(`mergeEntry`) and releases it (`unlock`); `s.merged` is the order of the lock ACQUISITIONS (what
has been written is `s.log`: `C02_merged_written_unless_poisoned`).
Helper lemmas: GrcovModel/Lemmas/Pipeline.lean.
-/
import GrcovModel.Lemmas.Pipeline
import GrcovModel.Lemmas.Report
namespace Grcov.Props.C02
open Grcov Grcov.AList Grcov.Pipeline Grcov.Report Grcov.Props.C01

/-- Conservation: in every reachable state each item is in exactly one place (still to send, in
the queue, held by a worker, merged, rejected, or lost with a dead worker) – nothing is dropped
and nothing is duplicated, whatever the interleaving. -/
theorem C02_conservation (fate : Item → Fate) (size : Item → Nat) (n : Nat) (rx : Bool) (items : List Item)
    (tr : List Step) (s : State) (h : Run fate size (init n rx items) tr s) :
    (everywhere s).Perm items := by
  rw [List.perm_iff_count]
  intro x
  have := run_cnt h x
  rw [cnt_init] at this
  exact this

/-- Stop-marker bookkeeping in every reachable state: markers in the queue + workers that have
consumed one = markers sent so far (or no worker is left). -/
theorem C02_stop_markers (fate : Item → Fate) (size : Item → Nat) (n : Nat) (rx : Bool) (items : List Item)
    (tr : List Step) (s : State) (h : Run fate size (init n rx items) tr s) : StopInv s :=
  run_stopInv h (stopInv_init n rx items)

/-- the merged list only ever holds items that were inputs, each at most as often as it was given -/
theorem C02_never_twice (fate : Item → Fate) (size : Item → Nat) (n : Nat) (rx : Bool) (items : List Item)
    (tr : List Step) (s : State) (h : Run fate size (init n rx items) tr s) (x : Item) :
    s.merged.count x ≤ items.count x := by
  have := (C02_conservation fate size n rx items tr s h).count_eq x
  simp only [everywhere, List.count_append] at this
  omega

/-- **Exactly once.** Whenever the process ends with exit status 0 – whatever the thread count,
the faults and the interleaving – every input has been either merged or rejected by its parser,
exactly as often as it was given (`Perm`), nothing is left in the queue or in a worker's hands,
merged items are exactly those whose parse succeeds and rejected ones those it fails for. -/
theorem C02_exactly_once (fate : Item → Fate) (size : Item → Nat) (n : Nat) (hn : 1 ≤ n) (rx : Bool) (items : List Item)
    (tr : List Step) (s : State) (h : Run fate size (init n rx items) tr s) (hd : s.mainPc = .done 0) :
    (s.merged ++ s.rejected).Perm items ∧ (∀ x ∈ s.merged, fate x = .ok) ∧
      (∀ x ∈ s.rejected, fate x = .reject) := by
  have hi := run_flowInv h (flowInv_init fate n rx items)
  have hnn : s.n = n := (run_n h).1
  obtain ⟨h1, h2, h3, h4, _⟩ := done0_all_accounted fate s hi (by omega) hd
  refine ⟨?_, hi.mergedOk, hi.rejectedRej⟩
  have := C02_conservation fate size n rx items tr s h
  simpa [everywhere, h1, h2, h3, h4] using this

/-- Without faults the merged multiset is exactly the input multiset: no artifact dropped, none
counted twice, for every number of workers and every interleaving. -/
theorem C02_exactly_once_no_faults (size : Item → Nat) (n : Nat) (hn : 1 ≤ n) (rx : Bool) (items : List Item)
    (tr : List Step) (s : State) (h : Run (fun _ => Fate.ok) size (init n rx items) tr s)
    (hd : s.mainPc = .done 0) : s.merged.Perm items := by
  obtain ⟨hp, _, hr⟩ := C02_exactly_once (fun _ => Fate.ok) size n hn rx items tr s h hd
  have : s.rejected = [] := by
    cases hrej : s.rejected with
    | nil => rfl
    | cons x xs => have := hr x (by simp [hrej]); cases this
  simpa [this] using hp

/-- The order in which the paths are given (the producer's order) is irrelevant to what is
merged: two runs on permuted item lists that both end with status 0 merge the same multiset. -/
theorem C02_path_order_irrelevant (fate : Item → Fate) (size : Item → Nat) (n : Nat) (hn : 1 ≤ n) (rx : Bool)
    (items items' : List Item) (p : items.Perm items') (tr tr' : List Step) (s s' : State)
    (h : Run fate size (init n rx items) tr s) (h' : Run fate size (init n rx items') tr' s')
    (hd : s.mainPc = .done 0) (hd' : s'.mainPc = .done 0) :
    (s.merged ++ s.rejected).Perm (s'.merged ++ s'.rejected) :=
  ((C02_exactly_once fate size n hn rx items tr s h hd).1.trans p).trans
    (C02_exactly_once fate size n hn rx items' tr' s' h' hd').1.symm

/-- non-vacuity: a complete run for n = 2 and three items in which both workers take part -/
example : ∃ s, replay (fun _ => .ok) (fun _ => 1) (init 2 false [7, 8, 9])
    [.prodSend, .prodSend, .recv 1, .prodSend, .recv 0, .parsed 0, .parsed 1, .lock 0, .prodExit,
     .mergeEntry 0, .unlock 0, .recv 0, .main, .lock 1, .mergeEntry 1, .unlock 1, .main, .parsed 0,
     .lock 0, .mergeEntry 0, .unlock 0, .main, .recv 1, .recv 0, .main, .main, .main, .main] = some s
    ∧ s.mainPc = .done 0 ∧ s.merged = [8, 7, 9] ∧ s.log = [(8, 0), (7, 0), (9, 0)] := by
  refine ⟨_, rfl, ?_, ?_, ?_⟩ <;> decide

/-! ### The result map is written under a mutex, batch by batch

`parsed` / `lock` / `mergeEntry` / `unlock` refine what used to be one atomic "merge" step. -/

/-- **Mutual exclusion.** In every reachable state at most one worker is inside `add_results`, and
it is the owner of the mutex. -/
theorem C02_mutual_exclusion (fate : Item → Fate) (size : Item → Nat) (n : Nat) (rx : Bool) (items : List Item)
    (tr : List Step) (s : State) (h : Run fate size (init n rx items) tr s) (w v : Nat)
    (hw : isMerging (s.workers.getD w .exited) = true) (hv : isMerging (s.workers.getD v .exited) = true) :
    w = v ∧ s.owner = some w := by
  have hm := run_mutexInv h (mutexInv_init n rx items)
  have h1 := hm.2 w hw
  have h2 := hm.2 v hv
  rw [h1] at h2
  exact ⟨by simpa using h2, h1⟩

/-- **Batches are atomic.** As long as no worker died inside `add_results`, the sequence of writes
to the result map is: the complete batches of `s.merged` – the items in the order in which their
workers acquired the lock – one after the other, followed by a prefix of the batch of the worker
that holds the lock now. Writes of different batches never interleave. -/
theorem C02_writes_are_whole_batches (fate : Item → Fate) (size : Item → Nat) (n : Nat) (rx : Bool)
    (items : List Item) (tr : List Step) (s : State) (h : Run fate size (init n rx items) tr s) :
    LogInv size s :=
  run_logInv h (mutexInv_init n rx items) (logInv_init size n rx items)

/-- **What `merged` means.** `s.merged` lists the items whose worker ACQUIRED the result-map mutex,
in the order of the acquisitions; an item enters it before any of its entries is written. As long
as no worker died inside `add_results`, every item of `merged` is either completely written (all
`size x` entries are in the write log) or it is the batch the present holder of the mutex is
writing. (After such a death this fails – `C02_merged_is_lock_order_witness` – which is harmless
only because the exit status is then non-zero, `C07_poisoned_nonzero_exit`.) -/
theorem C02_merged_written_unless_poisoned (fate : Item → Fate) (size : Item → Nat) (n : Nat) (rx : Bool)
    (items : List Item) (tr : List Step) (s : State) (h : Run fate size (init n rx items) tr s)
    (hp : s.poisoned = false) (x : Item) (hx : x ∈ s.merged) :
    (∀ j, j < size x → (x, j) ∈ s.log) ∨
      ∃ w j, s.owner = some w ∧ s.workers.getD w .exited = .merging x j := by
  have hl := C02_writes_are_whole_batches fate size n rx items tr s h hp
  cases ho : s.owner with
  | none =>
    rw [ho] at hl
    left
    intro j hj
    rw [hl, List.mem_flatMap]
    exact ⟨x, hx, by simp [entriesOf, hj]⟩
  | some w =>
    rw [ho] at hl
    obtain ⟨pre, y, j, hw, _, hm, hlog⟩ := hl
    rw [hm, List.mem_append, List.mem_singleton] at hx
    rcases hx with hx | rfl
    · left
      intro i hi
      rw [hlog, List.mem_append, List.mem_flatMap]
      exact Or.inl ⟨x, hx, by simp [entriesOf, hi]⟩
    · exact Or.inr ⟨w, j, rfl, hw⟩

/-- The guard is needed: the run the hooked binary logs for `panic_in_merge:Consumer_0` with two
threads and six inputs (worker 0 takes the mutex for item 2 and dies before its first write, worker
1 then dies on the poisoned mutex, the first stop marker cannot be sent, `main` exits with 1) ends
with `merged = [2]` although nothing was written. -/
theorem C02_merged_is_lock_order_witness :
    ∃ s, replay (fun _ => .ok) (fun _ => 1) (init 2 false [1, 2, 3, 4, 5, 6])
      [.prodSend, .prodSend, .prodSend, .recv 1, .recv 0, .prodSend, .prodSend, .prodSend,
       .parsed 0, .lock 0, .workerDies 0, .parsed 1, .lock 1, .prodExit, .main, .main, .main] = some s
      ∧ s.mainPc = .done 1 ∧ s.poisoned = true ∧ s.merged = [2] ∧ s.log = [] ∧ s.lost = [1] := by
  refine ⟨_, rfl, ?_, ?_, ?_, ?_, ?_⟩ <;> decide

/-- **Refinement of the atomic merge.** At exit status 0 the write log is exactly the batches of
`s.merged` in lock-acquisition order, so the map written entry by entry under the lock is the map
`reportOf … s.merged` of the report theorems below (the fold of `add_results` over whole batches):
the fine-grained system and the one with an atomic merge step have the same final map. -/
theorem C02_final_map_is_fold_of_batches (canon : Key → Key) (contents : Item → List (Key × Cov))
    (fate : Item → Fate) (n : Nat) (hn : 1 ≤ n) (rx : Bool) (items : List Item) (tr : List Step)
    (s : State) (h : Run fate (fun x => (contents x).length) (init n rx items) tr s)
    (hd : s.mainPc = .done 0) :
    s.log = s.merged.flatMap (entriesOf fun x => (contents x).length) ∧
    addResults canon [] (s.log.filterMap fun e => (contents e.1)[e.2]?) = reportOf canon contents s.merged := by
  have hi := run_flowInv h (flowInv_init fate n rx items)
  have hnn : s.n = n := (run_n h).1
  obtain ⟨_, _, _, _, hown⟩ := done0_all_accounted fate s hi (by omega) hd
  have hnp : s.poisoned = false := by
    cases hp : s.poisoned with
    | false => rfl
    | true =>
      obtain ⟨j, hj⟩ := hi.poisonDead hp
      have hjn : j < s.n := by
        by_cases hjl : j < s.workers.length
        · rw [← hi.stop.1]; exact hjl
        · rw [List.getD_eq_getElem?_getD, List.getElem?_eq_none (Nat.le_of_not_lt hjl)] at hj
          simp at hj
      have := hi.joined j (by rw [hd]; simp only; exact hjn)
      rw [this] at hj; cases hj
  have hlog := C02_writes_are_whole_batches fate _ n rx items tr s h hnp
  rw [hown] at hlog
  refine ⟨hlog, ?_⟩
  rw [reportOf_flat, hlog]
  congr 1
  rw [List.filterMap_flatMap]
  congr 1
  funext x
  simp only [entriesOf, List.filterMap_map]
  exact filterMap_range_getElem? (contents x)

/-! ### The report: composition with the aggregation model (C01)

The result map a run ends with is the left fold of `add_results` over the batches in the order in
which the workers happened to merge them (`reportOf … s.merged`, Lemmas/Report.lean). Every entry
of it is observably equal (`ObsEq`: line counts, branch vectors, function names and flags, as in
C01) to the entry a single pass over the inputs in the listed order produces. -/

/-- Entry `k` of the report is the aggregate of exactly the records, of exactly the merged
artifacts, that name file `k` (after canonicalisation): nothing else flows into it. -/
theorem C02_report_entry (canon : Key → Key) (contents : Item → List (Key × Cov))
    (order : List Item) (k : Key) :
    get? (reportOf canon contents order) k
      = foldInto none (((order.flatMap contents).filter fun kc => canon kc.1 = k).map (·.2)) :=
  report_entry canon contents order k

/-- The order of merging is irrelevant to every observable of every file record. -/
theorem C02_report_order_irrelevant (canon : Key → Key) (contents : Item → List (Key × Cov))
    (hwf : ∀ i, ∀ kc ∈ contents i, kc.2.WF) (o₁ o₂ : List Item) (p : o₁.Perm o₂) (k : Key) :
    ObsEqOpt (get? (reportOf canon contents o₁) k) (get? (reportOf canon contents o₂) k) :=
  report_order_irrelevant canon contents hwf o₁ o₂ p k

/-- **The report is schedule independent and equals the sequential aggregate.** For every number
of workers, every schedule and every fault-free run that ends with status 0, each file record of
the result map is observably the record a single pass over the inputs *in the listed order*
produces: no artifact dropped, none counted twice, and the interleaving of the merges plays no
role. -/
theorem C02_report_is_aggregate (canon : Key → Key) (contents : Item → List (Key × Cov))
    (hwf : ∀ i, ∀ kc ∈ contents i, kc.2.WF) (size : Item → Nat) (n : Nat) (hn : 1 ≤ n) (rx : Bool) (items : List Item)
    (tr : List Step) (s : State) (h : Run (fun _ => Fate.ok) size (init n rx items) tr s)
    (hd : s.mainPc = .done 0) (k : Key) :
    ObsEqOpt (get? (reportOf canon contents s.merged) k) (get? (reportOf canon contents items) k) :=
  C02_report_order_irrelevant canon contents hwf _ _
    (C02_exactly_once_no_faults size n hn rx items tr s h hd) k

/-- Two runs on the same inputs – different thread counts, different schedules, the paths listed
in a different order – produce observably the same record for every file. -/
theorem C02_report_schedule_independent (canon : Key → Key) (contents : Item → List (Key × Cov))
    (hwf : ∀ i, ∀ kc ∈ contents i, kc.2.WF) (size : Item → Nat) (n n' : Nat) (hn : 1 ≤ n) (hn' : 1 ≤ n') (rx rx' : Bool)
    (items items' : List Item) (p : items.Perm items') (tr tr' : List Step) (s s' : State)
    (h : Run (fun _ => Fate.ok) size (init n rx items) tr s)
    (h' : Run (fun _ => Fate.ok) size (init n' rx' items') tr' s')
    (hd : s.mainPc = .done 0) (hd' : s'.mainPc = .done 0) (k : Key) :
    ObsEqOpt (get? (reportOf canon contents s.merged) k)
      (get? (reportOf canon contents s'.merged) k) :=
  C02_report_order_irrelevant canon contents hwf _ _
    (((C02_exactly_once_no_faults size n hn rx items tr s h hd).trans p).trans
      (C02_exactly_once_no_faults size n' hn' rx' items' tr' s' h' hd').symm) k

/-- With rejected inputs (C07, third sentence): the report is the sequential aggregate of the
inputs whose parser accepted them – a rejected input contributes nothing and does not disturb
what the others contribute. -/
theorem C02_report_without_rejected (canon : Key → Key) (contents : Item → List (Key × Cov))
    (hwf : ∀ i, ∀ kc ∈ contents i, kc.2.WF) (fate : Item → Fate) (size : Item → Nat) (n : Nat) (hn : 1 ≤ n) (rx : Bool)
    (items : List Item) (tr : List Step) (s : State) (h : Run fate size (init n rx items) tr s)
    (hd : s.mainPc = .done 0) (k : Key) :
    ObsEqOpt (get? (reportOf canon contents s.merged) k)
      (get? (reportOf canon contents (items.filter fun x => fate x = .ok)) k) := by
  obtain ⟨hp, hm, hr⟩ := C02_exactly_once fate size n hn rx items tr s h hd
  refine C02_report_order_irrelevant canon contents hwf _ _ ?_ k
  have hf := hp.filter (fun x => fate x = .ok)
  rw [List.filter_append] at hf
  have e1 : s.merged.filter (fun x => fate x = .ok) = s.merged :=
    List.filter_eq_self.mpr fun x hx => by simp [hm x hx]
  have e2 : s.rejected.filter (fun x => fate x = .ok) = [] :=
    List.filter_eq_nil_iff.mpr fun x hx => by simp [hr x hx]
  rw [e1, e2, List.append_nil] at hf
  exact hf

/-- The start line of a function: when all the inputs that name function `n` of file `k` agree on
its start line, the report carries that start line – for every thread count, schedule and input
order (the only schedule-dependent datum is the start line of a function about which the inputs
themselves disagree, C01). -/
theorem C02_report_start_when_inputs_agree (canon : Key → Key)
    (contents : Item → List (Key × Cov)) (hwf : ∀ i, ∀ kc ∈ contents i, kc.2.WF) (size : Item → Nat)
    (n : Nat) (hn : 1 ≤ n) (rx : Bool) (items : List Item) (tr : List Step) (s : State)
    (h : Run (fun _ => Fate.ok) size (init n rx items) tr s) (hd : s.mainPc = .done 0) (k : Key)
    (fn : Name) (st : Nat)
    (agree : ∀ i ∈ items, ∀ kc ∈ contents i, canon kc.1 = k →
      ∀ g, get? kc.2.functions fn = some g → g.start = st)
    (c : Cov) (hc : get? (reportOf canon contents s.merged) k = some c) (f : Fn)
    (hf : get? c.functions fn = some f) : f.start = st := by
  have hp := C02_exactly_once_no_faults size n hn rx items tr s h hd
  exact report_start_common canon contents hwf s.merged k fn st
    (fun i hi => agree i (hp.subset hi)) c hc f hf

/-- non-vacuity: two artifacts that both describe file 1, merged in either order, give the same
line count 7 (and `WF` holds for them) -/
example :
    let contents : Item → List (Key × Cov) := fun i =>
      if i = 7 then [([1], { lines := [(3, 5)], branches := [], functions := [] })]
      else [([1], { lines := [(3, 2)], branches := [], functions := [] })]
    (get? (reportOf id contents [7, 8]) [1]).map (fun c => get? c.lines 3) = some (some 7) ∧
    (get? (reportOf id contents [8, 7]) [1]).map (fun c => get? c.lines 3) = some (some 7) := by
  decide


end Grcov.Props.C02
