/-
C20, part `LlvmTree` — which files `find_binaries` returns from a binary tree with symbolic links,
hidden entries, ignore files and short files (model `Consumer.FindBin`, parametrised by the
schedule: how the walker's entries are spread over the worker threads and in which order each
visits its share).

* A link is never returned and never followed; neither is anything hidden or ignored; only
  non-empty regular files are returned.
* Every walked regular file is returned exactly once if its first min(len, 128) bytes sniff as an
  application and not at all otherwise — in EVERY schedule; the returned multiset does not depend
  on the schedule (full strength since fix 647649e; the stale-buffer witness is a corpus case).
* C20's clause "EVERY executable under --binary-path is exported exactly once" is FALSE of the
  code: an executable below a directory whose name starts with '.' (libtool's `.libs/`), or one
  matched by an ignore file, is never handed to the visitor (finding
  C20-findbin-hidden-or-ignored-skipped). Proved negation from a closed witness, `…_partial`
  under exactly the guard "no hidden component and not ignored".
-/
import GrcovModel.Lemmas.ConsumerFindBin
namespace Grcov.Props.C20
open Grcov.Consumer.FindBin

/-- a schedule of a tree: the entries the walker yields (visible, not ignored), each given to
exactly one worker, in some order -/
def IsSchedule (tree : List Entry) (sched : List (List Entry)) : Prop :=
  sched.flatten.Perm (walked tree)

/-- Whatever the schedule: every returned path is the path of a visible, not ignored, NON-EMPTY
REGULAR FILE of the tree that sniffs as an application. In particular a symbolic link (to a file,
a directory, nowhere, or back into the tree) is never returned, and nothing is ever returned from
below one (such paths are not entries of the walk: links are not followed). -/
theorem C20_findbin_only_visible_regular_files (isApp : Bytes → Bool) (tree : List Entry)
    (sched : List (List Entry)) (hs : IsSchedule tree sched) (p : List Bytes)
    (h : p ∈ findBin isApp sched) :
    ∃ e ∈ tree, e.path = p ∧ visible e = true ∧ e.ignored = false ∧
      ∃ c, e.kind = .file c ∧ c ≠ [] ∧ isApp (c.take 128) = true := by
  unfold findBin at h
  obtain ⟨l, hl, hp⟩ := List.mem_flatMap.1 h
  obtain ⟨e, he, e1, e2⟩ := mem_runThread hp
  have : e ∈ walked tree := hs.mem_iff.1 (List.mem_flatten.2 ⟨l, hl, he⟩)
  unfold walked at this
  obtain ⟨h1, h2⟩ := List.mem_filter.1 this
  simp only [Bool.and_eq_true, Bool.not_eq_true'] at h2
  exact ⟨e, h1, e1, h2.1, h2.2, accepts_file e2⟩

/-- a link, a directory, a hidden or an ignored entry is not returned, stated on the entry -/
theorem C20_findbin_link_never_returned (isApp : Bytes → Bool) (tree : List Entry)
    (sched : List (List Entry)) (hs : IsSchedule tree sched) (hn : (tree.map (·.path)).Nodup)
    (e : Entry) (he : e ∈ tree)
    (hk : e.kind = .symlink ∨ e.kind = .dir ∨ visible e = false ∨ e.ignored = true) :
    e.path ∉ findBin isApp sched := by
  intro h
  obtain ⟨e', he', hp, hv, hi, c, hc, _⟩ := C20_findbin_only_visible_regular_files isApp tree sched hs _ h
  have : e' = e := by
    have h1 := filter_path_of_nodup hn he
    have : e' ∈ tree.filter (fun x => decide (x.path = e.path)) := List.mem_filter.2 ⟨he', by simp [hp]⟩
    rw [h1] at this
    simpa using this
  subst this
  rcases hk with hk | hk | hk | hk
  · rw [hk] at hc; cases hc
  · rw [hk] at hc; cases hc
  · rw [hk] at hv; cases hv
  · rw [hk] at hi; cases hi

/-- Counting, for every tree and every schedule: a path is returned as often as the tree has
walked entries with that path that sniff as an application. -/
theorem C20_findbin_count (isApp : Bytes → Bool) (tree : List Entry) (sched : List (List Entry))
    (hs : IsSchedule tree sched) (p : List Bytes) :
    (findBin isApp sched).count p
      = ((walked tree).filter fun e => decide (e.path = p) && accepts isApp e).length := by
  rw [count_findBin isApp sched p]
  exact (hs.filter _).length_eq

/-- The returned multiset does not depend on the schedule — for every tree (files of any length),
every sniffing function, every distribution over threads and every visiting order. -/
theorem C20_findbin_deterministic (isApp : Bytes → Bool) (tree : List Entry)
    (s1 s2 : List (List Entry)) (h1 : IsSchedule tree s1) (h2 : IsSchedule tree s2) :
    (findBin isApp s1).Perm (findBin isApp s2) := by
  rw [List.perm_iff_count]
  intro p
  rw [C20_findbin_count isApp tree s1 h1 p, C20_findbin_count isApp tree s2 h2 p]

/-- Every walked entry (visible, not ignored) is returned EXACTLY ONCE when it is a non-empty
regular file whose first min(len, 128) bytes sniff as an application, and not at all otherwise —
for every tree whose paths are distinct (a file system) and every schedule. -/
theorem C20_findbin_executable_exactly_once (isApp : Bytes → Bool) (tree : List Entry)
    (sched : List (List Entry)) (hs : IsSchedule tree sched) (hn : (tree.map (·.path)).Nodup)
    (e : Entry) (he : e ∈ tree) (hv : visible e = true) (hi : e.ignored = false) :
    (findBin isApp sched).count e.path = if accepts isApp e then 1 else 0 := by
  have hw : e ∈ walked tree := List.mem_filter.2 ⟨he, by simp [hv, hi]⟩
  have hnw : ((walked tree).map (·.path)).Nodup :=
    hn.sublist ((List.filter_sublist).map _)
  rw [C20_findbin_count isApp tree sched hs e.path]
  have : (walked tree).filter (fun x => decide (x.path = e.path) && accepts isApp x)
      = ((walked tree).filter fun x => decide (x.path = e.path)).filter (accepts isApp) := by
    rw [List.filter_filter]
    congr 1
    funext x
    exact Bool.and_comm _ _
  rw [this, filter_path_of_nodup hnw hw]
  simp only [List.filter_cons, List.filter_nil]
  cases accepts isApp e <;> simp

/-- Full statement of the clause: EVERY regular executable of the tree is returned exactly once.
FALSE of the code. -/
def C20_findbin_every_executable_stmt : Prop :=
  ∀ (isApp : Bytes → Bool) (tree : List Entry) (sched : List (List Entry)),
    IsSchedule tree sched → (tree.map (·.path)).Nodup →
      ∀ e ∈ executables isApp tree, (findBin isApp sched).count e.path = 1

def exElf : Bytes := [127, 69, 76, 70] ++ List.replicate 124 0
/-- `.libs/` with an ELF `app` inside -/
def exHidden : List Entry := [⟨[[46, 108, 105, 98, 115]], .dir, false⟩,
  ⟨[[46, 108, 105, 98, 115], [97, 112, 112]], .file exElf, false⟩]

/-- Witness (finding C20-findbin-hidden-or-ignored-skipped): the tree `.libs/app`: nothing is
walked, nothing is returned, although `app` is an executable. -/
theorem C20_findbin_every_executable_false : ¬ C20_findbin_every_executable_stmt := by
  intro h
  have hw := h isAppLite exHidden [] (by unfold IsSchedule; decide +kernel) (by decide +kernel)
    ⟨[[46, 108, 105, 98, 115], [97, 112, 112]], .file exElf, false⟩ (by decide +kernel)
  revert hw
  decide +kernel

/-- Every regular executable without a hidden path component and not matched by an ignore rule is
returned exactly once, in every schedule. -/
theorem C20_findbin_every_executable_partial (isApp : Bytes → Bool) (tree : List Entry)
    (sched : List (List Entry)) (hs : IsSchedule tree sched) (hn : (tree.map (·.path)).Nodup)
    (e : Entry) (he : e ∈ executables isApp tree) (hv : visible e = true) (hi : e.ignored = false) :
    (findBin isApp sched).count e.path = 1 := by
  obtain ⟨h1, h2⟩ := List.mem_filter.1 he
  rw [C20_findbin_executable_exactly_once isApp tree sched hs hn e h1 hv hi]
  simp [h2]

/-! ### non-vacuity: `bin/app` (ELF), `lib/so.1.0` (ELF) with the chain `lib/so -> so.1 -> so.1.0`,
`bin2 -> bin`, a dangling link, a loop `lib/up -> ..`, `.libs/h` (ELF), a text file, a one-byte
file `\x7f`, a four-byte `\x7fELF`, a two-byte `MZ`, an ignored ELF -/
def exReal : List Entry :=
  [⟨[[98, 105, 110]], .dir, false⟩, ⟨[[98, 105, 110], [97, 112, 112]], .file exElf, false⟩,
   ⟨[[108, 105, 98]], .dir, false⟩, ⟨[[108, 105, 98], [115, 111, 46, 49, 46, 48]], .file exElf, false⟩,
   ⟨[[108, 105, 98], [115, 111, 46, 49]], .symlink, false⟩, ⟨[[108, 105, 98], [115, 111]], .symlink, false⟩,
   ⟨[[98, 105, 110, 50]], .symlink, false⟩, ⟨[[100, 97, 110, 103]], .symlink, false⟩,
   ⟨[[108, 105, 98], [117, 112]], .symlink, false⟩,
   ⟨[[46, 108, 105, 98, 115]], .dir, false⟩, ⟨[[46, 108, 105, 98, 115], [104]], .file exElf, false⟩,
   ⟨[[114, 101, 97, 100, 109, 101]], .file (List.replicate 130 104), false⟩,
   ⟨[[111, 110, 101]], .file [127], false⟩, ⟨[[102, 111, 117, 114]], .file [127, 69, 76, 70], false⟩,
   ⟨[[109, 122]], .file [77, 90], false⟩, ⟨[[105, 103, 110]], .file exElf, true⟩]

example : findBin isAppLite [walked exReal]
    = [[[98, 105, 110], [97, 112, 112]], [[108, 105, 98], [115, 111, 46, 49, 46, 48]], [[109, 122]]] := by
  decide +kernel
/-- the former stale-buffer witness: both orders now give the same answer -/
example : findBin isAppLite [[⟨[[97]], .file exElf, false⟩, ⟨[[98]], .file [127], false⟩]] = [[[97]]]
    ∧ findBin isAppLite [[⟨[[98]], .file [127], false⟩, ⟨[[97]], .file exElf, false⟩]] = [[[97]]] := by
  decide +kernel
example : IsSchedule exReal [walked exReal] := by unfold IsSchedule; simp
example : (exReal.map (·.path)).Nodup := by decide +kernel
example : (executables isAppLite exReal).length = 5 := by decide +kernel

end Grcov.Props.C20
