/-
C19, part `Dest` — every destination of a run (`Confine.dests`: log file, temp dir, worker dirs,
archive extractions / links, gcov outputs and their removal, the llvm profile, the output file,
every file and directory of an HTML report) resolves at or below the root it belongs to (`tmp`,
the requested output location, the requested log path), for ALL inputs; hence no destination
reaches an input that lies apart from those roots.

HTML destinations are derived from the reported relative paths, and the hypothesis about those is
not assumed but taken from C11 (`C11_normal_form`, `C11_report_members`): every reported relative
path is clean. (Before fix 568afd2 a backslash in a path-mapping value or a name on disk became a
separator only after normalisation, and `output.join(add_html_ext(rel))` could leave the output
directory: finding C19-html-backslash-escape, now a fixed case replayed by harness/c19 `dest.rs`.)
One deviation remains and makes the full statement FALSE of the code, harmlessly: std's
`with_extension` on a file name `..x` answers `…/..` (a directory: `File::create` cannot succeed
there, the file just gets no page). Proved negation from that closed witness, `…_partial` under
exactly that guard.

Trusted, not proved: the kernel resolves `..` as `Confine.resolve` does when the directories exist
and no component is a symlink; a symlink is only followed when the path is opened; `File::create`
on a directory fails; what `gcov` and `llvm-profdata` write besides the paths they are given.
-/
import GrcovModel.Lemmas.ConfineDest
import GrcovModel.Lemmas.ConfineExtract
import GrcovModel.Props.C11
namespace Grcov.Props.C19
open Grcov Grcov.Confine
open Grcov.Rewrite (Cfg FS Rec rewritePaths rewriteKey resolveKey)
open Grcov.UPath (Bytes RealName bsl render)

/-- a clean relative path whose file name (if any) is not of the form `..x` -/
def SafeRel (rel : Bytes) : Prop :=
  ∃ names, (∀ n ∈ names, RealName n) ∧ rel = UPath.join names ∧
    ∀ n, names.getLast? = some n → dotDotName n = false

/-! ### HTML -/

/-- `add_html_ext` keeps every directory of a clean relative path and renames the file to `n.html`
(also for a name without extension and for `.bashrc`, since fix b1b2416) — except `..x`, which
std's `with_extension` turns into `..`. -/
theorem C19_add_html_ext_spec (pre : List Bytes) (n : Bytes) (hpre : ∀ s ∈ pre, RealName s)
    (hn : RealName n) :
    addHtmlExt (UPath.join (pre ++ [n])) = UPath.join (pre ++ [htmlName n]) ∧
      htmlName n = (match extOfName n with
        | none => n ++ dotHtml
        | some _ => if dotDotName n then [46, 46] else n ++ dotHtml) :=
  ⟨addHtmlExt_clean pre n hpre hn, rfl⟩

/-- Every file the HTML writer makes for a safe relative path — the page
`output.join(add_html_ext(rel))`, its directory's `index.html`, and the parent directories created
for both — resolves below the output directory, for every output directory. -/
theorem C19_html_entry_confined (out : Path) (rel : Bytes) (readable : Bool) (h : SafeRel rel) :
    ∀ d ∈ htmlEntryDests out (rel, readable), d.root = .out ∧ Under out d.path := by
  obtain ⟨names, hreal, e, hlast⟩ := h
  intro d hd
  unfold htmlEntryDests at hd
  split at hd
  · -- names = pre ++ [n] or the path has no parent
    by_cases hne : names = []
    · subst hne
      have : UPath.parent rel = none := by rw [e]; decide
      simp [htmlDirIndexDest, this] at hd
    · obtain ⟨pre, n, rfl⟩ : ∃ pre n, names = pre ++ [n] :=
        ⟨names.dropLast, names.getLast hne, (List.dropLast_concat_getLast hne).symm⟩
      have hpre : ∀ s ∈ pre, RealName s := fun s hs => hreal s (by simp [hs])
      have hn : RealName n := hreal n (by simp)
      have hq : dotDotName n = false := hlast n (by simp)
      have hm := realName_htmlName hn hq
      have hfile : htmlFileDest out rel = out ++ (pre.map Comp.normal ++ [Comp.normal (htmlName n)]) := by
        unfold htmlFileDest
        rw [e, addHtmlExt_clean pre n hpre hn,
          toPath_join_real _ (by
            intro s hs
            rcases List.mem_append.1 hs with h1 | h1
            · exact hpre s h1
            · simp at h1; subst h1; exact hm)]
        rw [join_of_enclosed]
        · simp
        · exact enclosed_of_plain _ (plain_map_normal _)
      have hdir : htmlDirIndexDest out rel
          = some (out ++ (pre.map Comp.normal ++ [Comp.normal bIndexHtml])) := by
        unfold htmlDirIndexDest
        rw [e, parent_clean pre n hpre hn, Option.map_some, toPath_join_real pre hpre]
        have h1 : enclosed (pre.map Comp.normal ++ [Comp.normal bIndexHtml]) = true :=
          enclosed_of_plain _ (by rw [plain_append, plain_map_normal]; rfl)
        have h2 : join (pre.map Comp.normal) [Comp.normal bIndexHtml]
            = pre.map Comp.normal ++ [Comp.normal bIndexHtml] := join_of_enclosed _ (enc1 _)
        rw [h2, join_of_enclosed _ h1]
      have hfn : fileName rel = some n := by
        unfold fileName
        rw [e, lastSeg_join pre n hpre hn.2.1 (real_not_skip hn)]
        simp [hn.2.2.2]
      rw [hdir, hfn] at hd
      have e1 : enclosed (pre.map Comp.normal ++ [Comp.normal (htmlName n)]) = true :=
        enclosed_of_plain _ (by rw [plain_append, plain_map_normal]; rfl)
      have e2 : enclosed (pre.map Comp.normal ++ [Comp.normal bIndexHtml]) = true :=
        enclosed_of_plain _ (by rw [plain_append, plain_map_normal]; rfl)
      have u1 := under_and_parent out _ e1 (by simp)
      have u2 := under_and_parent out _ e2 (by simp)
      rw [hfile] at hd
      simp only [List.mem_cons, List.not_mem_nil, or_false] at hd
      rcases hd with rfl | rfl | rfl | rfl
      · exact ⟨rfl, u1.2⟩
      · exact ⟨rfl, u1.1⟩
      · exact ⟨rfl, u2.2⟩
      · exact ⟨rfl, u2.1⟩
  · simp at hd

/-- Full statement: for every report `rewrite_paths` can produce and every output directory, every
HTML destination of every reported file resolves below the output directory. FALSE of the code. -/
def C19_html_confined_stmt : Prop :=
  ∀ (cfg : Cfg) (fs : FS) (m : List (Bytes × Cov)) (rep : List Rec) (out : Path),
    rewritePaths cfg fs m = .ok rep →
      ∀ r ∈ rep, ∀ d ∈ htmlEntryDests out (r.rel, true), Under out d.path

/-- Witness: a source file named `..c` is reported as `..c`, `add_html_ext` answers `..`, and the
destination is the parent of the output directory (see `C19_html_dotdot_name_escapes`). The former
witness, a backslash in a path-mapping value (finding C19-html-backslash-escape), was repaired
by fix 568afd2 and is now a fixed case of harness/c19 `dest.rs`. -/
theorem C19_html_confined_false : ¬ C19_html_confined_stmt := by
  intro h
  let r : Rec := ⟨[46, 46, 99], [46, 46, 99], {}⟩
  have hw := h {} { files := [], dirs := [], cwd := [] } [([46, 46, 99], {})] [r] [.normal [111]] (by decide) r (by simp)
    ⟨.createFile, .out, [.normal [111], .parent]⟩ (by decide)
  revert hw
  decide

/-- Every reported relative path is clean (C11: `C11_normal_form`, at full strength since fix
568afd2 normalises again after the backslash replacement). Whenever its file name is not of the
form `..x`, every HTML destination of the reported file resolves below the output directory — for
every configuration, file system, result map and output directory. -/
theorem C19_html_confined_partial (cfg : Cfg) (fs : FS) (m : List (Bytes × Cov)) (rep : List Rec)
    (out : Path) (readable : Bool) (h : rewritePaths cfg fs m = .ok rep) (r : Rec) (hr : r ∈ rep)
    (hq : ∀ n, fileName r.rel = some n → dotDotName n = false) :
    ∀ d ∈ htmlEntryDests out (r.rel, readable), d.root = .out ∧ Under out d.path := by
  obtain ⟨kc, _, hk⟩ := (Grcov.Props.C11.C11_report_members cfg fs m rep h r).1 hr
  obtain ⟨np, enp, hreal⟩ := Grcov.Props.C11.C11_normal_form cfg fs kc r hk
  by_cases hroot : np.root = true
  · -- an absolute reported path: `gen_html` returns at the `is_relative` test
    intro d hd
    have : UPath.isRelative r.rel = false := by
      rw [enp]
      obtain ⟨root, names⟩ := np
      simp only at hroot
      subst hroot
      simp [UPath.isRelative, UPath.hasRoot_render_true]
    simp [htmlEntryDests, this] at hd
  · apply C19_html_entry_confined
    obtain ⟨root, names⟩ := np
    simp only [Bool.not_eq_true] at hroot
    subst hroot
    have e : r.rel = UPath.join names := by rw [enp]; simp [render]
    refine ⟨names, hreal, e, ?_⟩
    intro n hn
    apply hq
    have hne : names ≠ [] := by intro e0; subst e0; simp at hn
    obtain ⟨pre, n', rfl⟩ : ∃ pre n', names = pre ++ [n'] :=
      ⟨names.dropLast, names.getLast hne, (List.dropLast_concat_getLast hne).symm⟩
    simp at hn; subst hn
    have hn' : RealName n' := hreal n' (by simp)
    unfold fileName
    rw [e, lastSeg_join pre n' (fun s hs => hreal s (by simp [hs])) hn'.2.1 (real_not_skip hn')]
    simp [hn'.2.2.2]

/-- The other guard is necessary too: a source file named `..c` directly in the source directory
is reported as `..c`, and `add_html_ext` answers `..`: the destination is the PARENT of the output
directory (a directory, so `File::create` fails and nothing is written: the file just gets no
page). -/
theorem C19_html_dotdot_name_escapes :
    let out : Path := [.normal [111]]
    rewriteKey {} { files := [], dirs := [], cwd := [] } ([46, 46, 99], {}) = .ok (some ⟨[46, 46, 99], [46, 46, 99], {}⟩) ∧
      htmlFileDest out [46, 46, 99] = [.normal [111], .parent] ∧
      ¬ Under out (htmlFileDest out [46, 46, 99]) := by
  decide

/-- … and in general a file name `..x` below clean directories gives the destination
`output/<dirs>/..`: it resolves to a directory on the way to the file, never to a file. -/
theorem C19_html_dotdot_name_dest (out : Path) (pre : List Bytes) (n : Bytes)
    (hpre : ∀ s ∈ pre, RealName s) (hn : RealName n) (hq : dotDotName n = true)
    (hx : extOfName n ≠ none) :
    htmlFileDest out (UPath.join (pre ++ [n])) = out ++ pre.map Comp.normal ++ [Comp.parent] := by
  unfold htmlFileDest
  rw [addHtmlExt_clean pre n hpre hn]
  have : htmlName n = [46, 46] := by
    unfold htmlName
    cases hx' : extOfName n with
    | none => exact absurd hx' hx
    | some x => simp [hq]
  rw [this, toPath_join_dotdot pre hpre, Confine.join]
  have : isAbsolute (pre.map Comp.normal ++ [Comp.parent]) = false := by
    cases pre <;> simp [isAbsolute]
  simp [this]

/-! ### worker directory -/

/-- The gcov output that the consumer parses and removes,
`working_dir.join(gcno_path.file_name() + ext)`, is the working directory plus ONE normal
component, whatever the gcno path is (`file_name` never yields a separator, `.` or `..`) and
whatever separator-free extension is appended. -/
theorem C19_gcov_out_confined (wd : Path) (gcnoPath ext : Bytes) (p : Path) (he : 47 ∉ ext)
    (h : gcovOutPath wd gcnoPath ext = some p) :
    (∃ n, RealName n ∧ p = wd ++ [Comp.normal n]) ∧ Under wd p := by
  unfold gcovOutPath at h
  cases hf : fileName gcnoPath with
  | none => simp [hf] at h
  | some n =>
    simp only [hf, Option.map_some, Option.some.injEq] at h
    have hr := realName_append_ext (fileName_real hf) he
    rw [toPath_real hr, join_of_enclosed _ (enc1 _)] at h
    subst h
    exact ⟨⟨_, hr, rfl⟩, under_append_enclosed wd _ (enc1 _)⟩

/-! ### the whole run -/

/-- what the producer and the consumers guarantee about a run's inputs: extraction stems whose
directories are real names and whose last name is non-empty without separator (`StemOK`: what the
canonical spelling of an accepted zip entry and what `strip_prefix` of a walked directory entry
are, minus the extension — DERIVED from the Producer model for `runInputOf`, see
`C19_extracts_ok` in Props/C19Extract.lean), extensions without `/` and `.` (`gcno gcda profraw
profdata`), separator-free gcov extensions, and a report whose relative paths are safe (from
`C19_html_confined_partial`) -/
structure RunOK (ri : RunInput) : Prop where
  extracts : ∀ e ∈ ri.extracts, StemOK e.stem ∧ 47 ∉ e.ext ∧ 46 ∉ e.ext
  gcovExt : ∀ j ∈ ri.gcovJobs, 47 ∉ j.2.2
  report : ∀ r ∈ ri.report, UPath.isRelative r.1 = true → SafeRel r.1

/-- EVERY destination of a run — created, written, linked, handed to a tool or removed — resolves
at or below the root it is attributed to: the temp dir, the requested output location, or the
requested log path. For all temp dirs, output paths, thread counts, archive entries, gcno paths,
walked names and reports. -/
theorem C19_all_dests_confined (ri : RunInput) (ok : RunOK ri) :
    ∀ d ∈ dests ri, Under (rootPath ri d.root) d.path := by
  intro d hd
  unfold dests destsCore at hd
  simp only [List.mem_append, List.mem_map, List.mem_flatMap, List.mem_range, List.mem_cons,
    List.not_mem_nil, or_false] at hd
  rcases hd with (((((((hd | hd) | hd) | hd) | hd) | hd) | hd) | hd) | hd
  · -- log
    cases hl : ri.log with
    | none => simp [hl] at hd
    | some l => simp [hl] at hd; subst hd; simp [rootPath, hl]; exact under_refl l
  · rcases hd with rfl | rfl
    · exact under_refl _
    · simp only [rootPath, extractDir_eq]
      exact under_append_enclosed _ _ (by rfl)
  · obtain ⟨i, _, rfl⟩ := hd
    simp only [rootPath, workerDir_eq]
    exact under_append_enclosed _ _ (by rfl)
  · obtain ⟨e, he, hd⟩ := hd
    obtain ⟨h1, h2, _⟩ := ok.extracts e he
    unfold extractDests at hd
    simp only [List.mem_append, List.mem_cons, List.not_mem_nil, or_false, List.mem_map] at hd
    rcases hd with (rfl | rfl) | ⟨k, _, rfl⟩
    · exact (extractDest_under ri.tmp e.n h1 h2).2
    · exact (extractDest_under ri.tmp e.n h1 h2).1
    · exact (extractDest_under ri.tmp k h1 h2).1
  · obtain ⟨j, hj, hd⟩ := hd
    have hwd : Under ri.tmp (workerDir ri.tmp j.1) := by
      rw [workerDir_eq]; exact under_append_enclosed _ _ (by rfl)
    unfold gcovDests at hd
    cases hg : gcovOutPath (workerDir ri.tmp j.1) j.2.1 j.2.2 with
    | none => simp [hg] at hd; subst hd; exact hwd
    | some p =>
      simp only [hg, List.mem_cons, List.not_mem_nil, or_false] at hd
      rcases hd with rfl | rfl
      · exact hwd
      · obtain ⟨⟨n, _, e⟩, _⟩ := C19_gcov_out_confined _ _ _ _ (ok.gcovExt j hj) hg
        simp only [rootPath, e, workerDir_eq, List.append_assoc]
        exact under_append_enclosed _ _ (by rfl)
  · obtain ⟨w, _, rfl⟩ := hd
    simp only [rootPath, walkEntry, workerDir_eq, List.append_assoc]
    exact under_append_enclosed _ _
      (enclosed_of_plain _ (by rw [plain_append, plain_map_normal]; rfl))
  · obtain ⟨i, _, hd⟩ := hd
    have : Under ri.tmp (profdataPath (workerDir ri.tmp i)) := by
      simp only [profdataPath, workerDir_eq]
      rw [join_of_enclosed _ (enc1 _)]
      simp only [List.append_assoc]
      exact under_append_enclosed _ _ (by rfl)
    rcases hd with rfl | rfl <;> exact this
  · -- the report
    unfold outDests at hd
    cases hk : ri.outKind with
    | none => simp [hk] at hd
    | file isDir name =>
      simp only [hk, List.mem_cons, List.not_mem_nil, or_false] at hd
      subst hd
      cases isDir
      · exact under_refl _
      · simp only [rootPath, outFileDest, if_true]
        rw [join_of_enclosed _ (enc1 _)]
        exact under_append_enclosed _ _ (by rfl)
    | html bundled =>
      simp only [hk, List.mem_append, List.mem_flatMap] at hd
      rcases hd with hd | ⟨r, hr, hd⟩
      · have one : ∀ b : Bytes, Under ri.out (join ri.out [Comp.normal b]) := by
          intro b; rw [join_of_enclosed _ (enc1 _)]; exact under_append_enclosed _ _ (by rfl)
        have two : ∀ a b : Bytes, Under ri.out (join ri.out [Comp.normal a, Comp.normal b]) := by
          intro a b; rw [join_of_enclosed _ (enc2 _ _)]; exact under_append_enclosed _ _ (by rfl)
        unfold htmlFixedDests at hd
        simp only [List.mem_append, List.mem_cons, List.not_mem_nil, or_false, List.mem_map] at hd
        rcases hd with (((rfl | rfl | rfl) | ⟨b, _, rfl⟩) | rfl) | hd
        · exact under_refl _
        · exact one _
        · exact one _
        · exact two _ _
        · exact one _
        · cases bundled
          · simp at hd
          · simp at hd; subst hd; exact one _
      · by_cases hrel : UPath.isRelative r.1 = true
        · obtain ⟨h1, h2⟩ := C19_html_entry_confined ri.out r.1 r.2 (ok.report r hr hrel) d hd
          rw [h1]; exact h2
        · simp [htmlEntryDests, hrel] at hd
  · subst hd; exact under_refl _

/-! ### inputs are never altered -/

/-- two locations lie apart: neither resolves at or below the other -/
def Apart (a b : Path) : Prop := ¬ resolve a <+: resolve b ∧ ¬ resolve b <+: resolve a

/-- No destination of a run resolves at, below or above an input that lies apart from the temp
dir, the output location and the log path: nothing is created, written, linked or removed inside
an input directory, and no input file (or a directory containing one) is a destination. -/
theorem C19_inputs_untouched (ri : RunInput) (ok : RunOK ri) (input : Path)
    (hapart : ∀ r : Root, Apart input (rootPath ri r)) :
    ∀ d ∈ dests ri, Apart input d.path := by
  intro d hd
  obtain ⟨rest, e⟩ := C19_all_dests_confined ri ok d hd
  obtain ⟨h1, h2⟩ := hapart d.root
  constructor
  · intro hp
    rw [e] at hp
    rcases List.prefix_or_prefix_of_prefix hp (List.prefix_append _ _) with h | h
    · exact h1 h
    · exact h2 h
  · intro hp
    exact h2 (List.IsPrefix.trans ⟨rest, e.symm⟩ hp)

/-- The links into the inputs are exactly the extractions from DIRECTORY inputs, at their own
`tmp/inputs/<stem>_<n>.<ext>`, together with the further numbers under which such a gcno is
"hard-linked" (`fs::hard_link` of a symlink makes another link to the same input file);
everything else a run opens for writing is a different kind of destination (`writeDests`). What
opens a link afterwards — `gcov` for its gcno/gcda, `llvm-profdata` for the profiles it merges —
reads it (trusted: the tools' behaviour and the kernel's symlink semantics; checked: the input
snapshots of harness/c19). -/
theorem C19_link_dests (ri : RunInput) (p : Path) :
    p ∈ linkDests ri ↔
      ∃ e ∈ ri.extracts, e.fromZip = false ∧
        ∃ k ∈ e.n :: e.hardlinks, p = extractDest ri.tmp e.stem k e.ext := by
  unfold linkDests dests destsCore
  simp only [List.mem_map, List.mem_filter, decide_eq_true_eq]
  constructor
  · rintro ⟨d, ⟨hd, hk⟩, rfl⟩
    simp only [List.mem_append, List.mem_map, List.mem_flatMap, List.mem_range, List.mem_cons,
      List.not_mem_nil, or_false] at hd
    rcases hd with (((((((hd | hd) | hd) | hd) | hd) | hd) | hd) | hd) | hd
    · cases hl : ri.log with
      | none => simp [hl] at hd
      | some l => simp [hl] at hd; subst hd; simp at hk
    · rcases hd with rfl | rfl <;> simp at hk
    · obtain ⟨i, _, rfl⟩ := hd; simp at hk
    · obtain ⟨e, he, hd⟩ := hd
      unfold extractDests at hd
      simp only [List.mem_append, List.mem_cons, List.not_mem_nil, or_false, List.mem_map] at hd
      have hz : e.fromZip = false := by
        cases hz : e.fromZip
        · rfl
        · rcases hd with (rfl | rfl) | ⟨k, _, rfl⟩ <;> simp [hz] at hk
      rcases hd with (rfl | rfl) | ⟨k, hkm, rfl⟩
      · simp at hk
      · exact ⟨e, he, hz, e.n, by simp, rfl⟩
      · exact ⟨e, he, hz, k, by simp [hkm], rfl⟩
    · obtain ⟨j, _, hd⟩ := hd
      unfold gcovDests at hd
      split at hd <;> simp at hd <;> rcases hd with rfl | rfl <;> simp at hk
    · obtain ⟨w, _, rfl⟩ := hd; simp at hk
    · obtain ⟨i, _, hd⟩ := hd
      rcases hd with rfl | rfl <;> simp at hk
    · exfalso
      unfold outDests at hd
      split at hd
      · simp at hd
      · simp at hd; subst hd; simp at hk
      · simp only [List.mem_append, List.mem_flatMap] at hd
        rcases hd with hd | ⟨r, _, hd⟩
        · unfold htmlFixedDests at hd
          simp only [List.mem_append, List.mem_cons, List.not_mem_nil, or_false, List.mem_map] at hd
          rcases hd with (((rfl | rfl | rfl) | ⟨b, _, rfl⟩) | rfl) | hd
          all_goals try (simp at hk)
          split at hd <;> simp at hd
          subst hd; simp at hk
        · unfold htmlEntryDests at hd
          split at hd
          · split at hd
            · simp at hd
              rcases hd with rfl | rfl | rfl | rfl <;> simp at hk
            · simp at hd
          · simp at hd
    · subst hd; simp at hk
  · rintro ⟨e, he, hz, k, hkm, rfl⟩
    refine ⟨⟨.symlink, .tmp, _⟩, ⟨?_, rfl⟩, rfl⟩
    simp only [List.mem_append, List.mem_flatMap]
    refine Or.inl (Or.inl (Or.inl (Or.inl (Or.inl (Or.inr ⟨e, he, ?_⟩)))))
    simp only [extractDests, hz, Bool.false_eq_true, if_false]
    rcases List.mem_cons.1 hkm with rfl | hkm
    · exact List.mem_append_left _ (List.mem_cons_of_mem _ List.mem_cons_self)
    · exact List.mem_append_right _ (List.mem_map.2 ⟨k, hkm, rfl⟩)

/-! ### removals -/

/-- The merged profile of the source-based path: for every run and every worker that merges
profiles, the path handed to `llvm-profdata -o` and removed again afterwards (fix 2cb069b) is
`tmp/<worker>/grcov.profdata` — built from the temp dir and the worker index only, never from an
input path (so a profile given as a plain file argument, even the only one, is not what is
removed) — and it resolves below the temp dir. -/
theorem C19_profdata_removal_confined (ri : RunInput) (i : Nat) (hi : i ∈ ri.profileJobs) :
    let p : Path := ri.tmp ++ [Comp.normal (dec i), Comp.normal bGrcovProfdata]
    (⟨.toolWrite, .tmp, p⟩ : Dest) ∈ dests ri ∧ (⟨.removeFile, .tmp, p⟩ : Dest) ∈ dests ri ∧ Under ri.tmp p := by
  have e : profdataPath (workerDir ri.tmp i) = ri.tmp ++ [Comp.normal (dec i), Comp.normal bGrcovProfdata] := by
    simp only [profdataPath, workerDir_eq]
    rw [join_of_enclosed _ (enc1 _)]
    simp
  refine ⟨?_, ?_, under_append_enclosed _ _ (by rfl)⟩
  · unfold dests destsCore
    simp only [List.mem_append, List.mem_flatMap]
    exact Or.inl (Or.inl (Or.inr ⟨i, hi, by rw [e]; simp⟩))
  · unfold dests destsCore
    simp only [List.mem_append, List.mem_flatMap]
    exact Or.inl (Or.inl (Or.inr ⟨i, hi, by rw [e]; simp⟩))

/-- EVERY file a run removes lies inside a worker directory `tmp/<w>/…`: its path is the temp dir,
a worker index, and normal components only — for all inputs (gcno paths, walked names, profiles,
archives, reports). No removal target is derived from an input location. -/
theorem C19_removals_inside_worker_dirs (ri : RunInput) (hext : ∀ j ∈ ri.gcovJobs, 47 ∉ j.2.2) :
    ∀ d ∈ dests ri, d.kind = .removeFile →
      d.root = .tmp ∧ ∃ w rest, d.path = ri.tmp ++ Comp.normal (dec w) :: rest ∧ plain rest = true := by
  intro d hd hk
  unfold dests destsCore at hd
  simp only [List.mem_append, List.mem_map, List.mem_flatMap, List.mem_range, List.mem_cons,
    List.not_mem_nil, or_false] at hd
  rcases hd with (((((((hd | hd) | hd) | hd) | hd) | hd) | hd) | hd) | hd
  · cases hl : ri.log with
    | none => simp [hl] at hd
    | some l => simp [hl] at hd; subst hd; simp at hk
  · rcases hd with rfl | rfl <;> simp at hk
  · obtain ⟨i, _, rfl⟩ := hd; simp at hk
  · obtain ⟨e, _, hd⟩ := hd
    unfold extractDests at hd
    simp only [List.mem_append, List.mem_cons, List.not_mem_nil, or_false, List.mem_map] at hd
    rcases hd with (rfl | rfl) | ⟨k, _, rfl⟩
    · simp at hk
    · cases hz : e.fromZip <;> simp [hz] at hk
    · cases hz : e.fromZip <;> simp [hz] at hk
  · obtain ⟨j, hj, hd⟩ := hd
    unfold gcovDests at hd
    cases hg : gcovOutPath (workerDir ri.tmp j.1) j.2.1 j.2.2 with
    | none => simp [hg] at hd; subst hd; simp at hk
    | some p =>
      simp only [hg, List.mem_cons, List.not_mem_nil, or_false] at hd
      rcases hd with rfl | rfl
      · simp at hk
      · obtain ⟨⟨n, _, e⟩, _⟩ := C19_gcov_out_confined _ _ _ _ (hext j hj) hg
        refine ⟨rfl, j.1, [Comp.normal n], ?_, rfl⟩
        simp [e, workerDir_eq]
  · obtain ⟨w, _, rfl⟩ := hd
    refine ⟨rfl, w.1, w.2.map Comp.normal, ?_, plain_map_normal _⟩
    simp [walkEntry, workerDir_eq]
  · obtain ⟨i, _, hd⟩ := hd
    rcases hd with rfl | rfl
    · simp at hk
    · refine ⟨rfl, i, [Comp.normal bGrcovProfdata], ?_, rfl⟩
      simp only [profdataPath, workerDir_eq]
      rw [join_of_enclosed _ (enc1 _)]
      simp
  · exfalso
    unfold outDests at hd
    split at hd
    · simp at hd
    · simp at hd; subst hd; simp at hk
    · simp only [List.mem_append, List.mem_flatMap] at hd
      rcases hd with hd | ⟨r, _, hd⟩
      · unfold htmlFixedDests at hd
        simp only [List.mem_append, List.mem_cons, List.not_mem_nil, or_false, List.mem_map] at hd
        rcases hd with (((rfl | rfl | rfl) | ⟨b, _, rfl⟩) | rfl) | hd
        all_goals try (simp at hk)
        split at hd <;> simp at hd
        subst hd; simp at hk
      · unfold htmlEntryDests at hd
        split at hd
        · split at hd
          · simp at hd
            rcases hd with rfl | rfl | rfl | rfl <;> simp at hk
          · simp at hd
        · simp at hd
  · subst hd; simp at hk

/-! ### non-vacuity -/

/-- a run: temp dir `/t/.tmpX`, html output into the relative `o/h`, log file, 2 workers, one zip
extraction `sub/x.gcda` (#2), one link for a directory input, a gcov job, a profile job, and a
report with a nested file, a dot file, an absolute path and an unreadable file -/
def exRun : RunInput :=
  { tmp := [.root, .normal [116], .normal [46, 116, 109, 112, 88]],
    out := [.normal [111], .normal [104]],
    log := some [.normal [108, 111, 103]],
    threads := 2,
    extracts := [⟨true, [115, 117, 98, 47, 120], 2, [103, 99, 100, 97], []⟩,
                 ⟨false, [121], 1, [103, 99, 110, 111], [2]⟩],
    gcovJobs := [(0, [47, 116, 47, 46, 116, 109, 112, 88, 47, 105, 110, 112, 117, 116, 115, 47, 121, 95, 49, 46, 103, 99, 110, 111], [46, 103, 99, 111, 118])],
    walked := [(1, [[97, 46, 103, 99, 111, 118]])],
    profileJobs := [1],
    outKind := .html true,
    report := [([115, 114, 99, 47, 97, 46, 99], true), ([46, 98, 97, 115, 104, 114, 99], true),
               ([47, 117, 115, 114, 47, 105, 46, 104], true), ([98, 46, 99], false)] }

example : (dests exRun).length = 34 := by decide
example : resolve (htmlFileDest exRun.out [115, 114, 99, 47, 97, 46, 99])
    = [[111], [104], [115, 114, 99], [97, 46, 99, 46, 104, 116, 109, 108]] := by decide
example : SafeRel [115, 114, 99, 47, 97, 46, 99] :=
  ⟨[[115, 114, 99], [97, 46, 99]], by decide, by decide, by decide⟩
example : ∀ d ∈ dests exRun, Under (rootPath exRun d.root) d.path := by decide
example : (⟨.removeFile, .tmp, exRun.tmp ++ [.normal [49], .normal bGrcovProfdata]⟩ : Dest) ∈ dests exRun := by decide
example : Apart [.root, .normal [105, 110]] exRun.tmp := by unfold Apart; decide
/-- the known collision inside the output directory (finding C13-html-root-dir-replaces-index,
not a C19 matter) is predicted: a file directly under the root makes `index.html` a destination twice -/
example : ((outDests { exRun with report := [([98, 46, 99], true)] }).filter
    fun d => d.path = indexDest exRun.out).length = 2 := by decide

end Grcov.Props.C19
