/-
C14 — malformed input is rejected with an error, never a crash or a hang.
For every reader model: for EVERY byte string (resp. event list / value tree) the outcome is a
result or an error value – never `panic`, never `diverge`. The lcov statement is proved here; the
gcov and JaCoCo statements live with their models (Props/C09.lean `C09_text_never_panics`,
`C09_json_never_panics`; Props/C10.lean `C10_always_terminates`) and are re-exported below so that
this check audits them too. The byte-fold models do one step per input byte by construction,
which says nothing about the Rust: time and memory of the real readers are *measured* by the
correspondence run (every case under an address-space and wall-clock limit). The gcno/gcda binary
reader is covered by Props/C14Gcno.lean (`C14_gcno_*`, `C14_gcda_*`, `C14_truncated_gcda*`): for all
byte strings `Gcno::compute` ends in a value, an error or the known overflow crash, never out of
fuel (`C14_gcno_bytes_never_crash`, `C14_gcno_bytes_terminate`); a truncated gcda gives an error or
the state of a prefix of the complete records; record streams and block tables are linear in the
input. Time and stack: Props/C14GcnoCost.lean – the calls of `propagate_counts` are linear in the
input, but its recursion depth reaches the number of blocks (finding
C14-gcno-recursion-depth-stack-overflow on the real stack) and the cycle search enumerates
exponentially many circuits (`C14_gcno_time_linear_false`; finding
C14-gcno-cycle-search-exponential). What is not covered by a theorem: the two allocation findings
(a BRDA branch number / a JaCoCo cb,mb counter is an allocation size).
-/
import GrcovModel.Lemmas.Lcov
import GrcovModel.Props.C10
import GrcovModel.Props.C14Gcno
import GrcovModel.Props.C14GcnoCost
import GrcovModel.Props.C14Text
namespace Grcov.Props.C14
open Grcov Grcov.Lcov

/-- No byte string makes the lcov reader panic: with branch parsing on or off the outcome is
`ok` or `err` (the machine is a fold over the bytes, so it also always terminates, one step per
byte). -/
theorem C14_lcov_never_panics (branch : Bool) (bs : Bytes) (site : String) :
    parse branch bs ≠ .panic site := parse_noPanic branch bs site

/-- the outcome is always one of the two value kinds -/
theorem C14_lcov_result_or_error (branch : Bool) (bs : Bytes) :
    (∃ rs, parse branch bs = .ok rs) ∨ (∃ k, parse branch bs = .err k) := by
  cases h : parse branch bs with
  | ok rs => exact Or.inl ⟨rs, rfl⟩
  | err k => exact Or.inr ⟨k, rfl⟩
  | panic site => exact absurd h (parse_noPanic branch bs site)

/-- a truncated tracefile is a prefix: the machine simply stops earlier (compositionality), so a
truncation can only lose the sections whose `end_of_record` was cut off, never invent data -/
theorem C14_lcov_truncation_is_a_prefix_run (branch : Bool) (xs ys : Bytes) :
    run branch {} (xs ++ ys) = run branch (run branch {} xs) ys := run_append branch {} xs ys

/-- JaCoCo: every event sequence terminates (re-exported from C10) -/
theorem C14_jacoco_always_terminates (evs : List Grcov.Jacoco.XmlEvent) (fuel : Nat)
    (hf : fuel ≥ Grcov.Jacoco.enoughFuel evs) : Grcov.Jacoco.parse evs fuel ≠ .diverge :=
  Grcov.Props.C10.C10_always_terminates evs fuel hf

/-- non-vacuity: inputs that used to crash the reader now give errors -/
example : parse true [101, 10] = .err "InvalidRecord" := by decide +kernel          -- "e\n"
example : parse true [68, 65, 58, 49, 44, 10] = .err "InvalidRecord" := by decide +kernel  -- "DA:1,\n"

end Grcov.Props.C14
