/-
C08 end to end: from gcda records to the per-line count `compute` reports.  For notes with one
function whose on-tree arcs (with the virtual arc) form a spanning forest, and a gcda that records a
conserved flow `F` (the function's record followed by one counter per arc that is not on the
tree): whenever `compute` accepts it, a line that lives in exactly one block gets that block's
total flow – through `read_gcda` (`addGcdas`), `count_on_tree` (`stop`), `add_line_count` and the
merge of `finalize`; and (k+1) copies of the gcda give (k+1) times that flow.
-/
import GrcovModel.Lemmas.GcnoEndToEnd
namespace Grcov.Props.C08
open Grcov Grcov.Gcno AList Outcome

/-- **A single-block line, end to end.** Notes with one function `f` (≥ 2 blocks) whose on-tree
arcs with the virtual arc form a spanning forest; `F` a conserved flow that enters the function
(`F 0 > 0`, arc 0 being the entry arc); the gcda `flowGcda … F`. If line `l` lives in exactly one
block (`lines_to_block[l] = [b]`) then, whenever `compute` accepts the gcda, file `f.fileName` of
the result reports for `l` the total flow through block `b` (its inflow = its outflow). -/
theorem C08_line_count_single_block_end_to_end (version checksum : Nat) (f : Func)
    (depth parc root F : Nat → Nat) (br : Bool) (r : List (Bytes × Cov)) (l b : Nat) (blk : Block)
    (hn : f.blocks.length ≥ 2) (hre : f.realEdgeCount < 4294967296)
    (hT : SpanForest (addVirtualArc version f) depth parc root)
    (hF : Flow (addVirtualArc version f) F) (hent : F 0 > 0)
    (hl : (l, [b]) ∈ linesToBlock (addVirtualArc version f))
    (hb : (addVirtualArc version f).blocks[b]? = some blk)
    (h : compute ⟨version, checksum, [f]⟩ [flowGcda version checksum f F] br = ok r) :
    ∃ cov, get? r f.fileName = some cov ∧
      get? cov.lines l = some ((blk.source.map F).sum) ∧
      (blk.source.map F).sum = (blk.destination.map F).sum := by
  obtain ⟨c, c', h1, h2, h3, h4⟩ := flow_recovered hn hT hF
  unfold compute at h
  rw [addGcdas_flowGcda version checksum f F c hre h1] at h
  simp only [bind_ok] at h
  rw [stop_single] at h
  have hst : (State.zero.set 0 c) 0 = c := by simp [State.set]
  rw [hst, h2] at h
  simp only [bind_ok, finalize, foldl_cons, foldl_nil] at h
  obtain ⟨res, hfin, hres⟩ := bind_eq_ok.1 h
  simp only [Outcome.ok.injEq] at hres
  subst hres
  -- one `finStep` on the empty result
  unfold finStep at hfin
  simp only at hfin
  obtain ⟨⟨ex, ls⟩, hal, hfin⟩ := bind_eq_ok.1 hfin
  simp only at hfin
  have harcs := addVirtualArc_arcs (version := version) hn
  have hex : ex = true := by
    rw [addLineCount_executed hal]
    have : ∃ a : Arc, (addVirtualArc version f).arcs[0]? = some a := by
      rw [harcs]; cases f.arcs <;> simp
    obtain ⟨a, ha⟩ := this
    have hne : (addVirtualArc version f).arcs.isEmpty = false := by
      rw [harcs]; cases f.arcs <;> simp
    simp only [entered, hne, Bool.not_false, Bool.true_and, decide_eq_true_eq]
    rw [h3 0 a ha]; exact hent
  subst hex
  have hmem : (l, c'.blk b) ∈ ls := by
    unfold addLineCount at hal
    split at hal
    · obtain ⟨ls', g1, g2⟩ := bind_eq_ok.1 hal
      cases g2
      exact lineCounts_single _ c' l b _ _ _ g1 hl
    · cases hal
  have hkeys : NodupKeys ls := by
    unfold addLineCount at hal
    split at hal
    · obtain ⟨ls', g1, g2⟩ := bind_eq_ok.1 hal
      cases g2
      unfold NodupKeys
      rw [keys_lineCounts _ _ _ _ _ g1]
      exact nodupKeys_linesToBlock _
    · cases hal
  obtain ⟨lsm, hml, hfin⟩ := bind_eq_ok.1 hfin
  obtain ⟨brs, _, hfin⟩ := bind_eq_ok.1 hfin
  simp only [Outcome.ok.injEq] at hfin
  subst hfin
  simp only [if_true] at hml
  have hget := mergeLines_get ls _ lsm hkeys hml l (c'.blk b) hmem (by simp)
  have hflow := h4 b blk hb
  have hfn : (addVirtualArc version f).fileName = f.fileName := addVirtualArc_fileName version f
  refine ⟨_, by rw [hfn, get?_set, if_pos rfl], ?_, hflow.1.symm.trans hflow.2⟩
  simp only
  rw [hget, hflow.1]

/-- …and (k+1) runs – the same gcda supplied (k+1) times – give (k+1) times that flow. -/
theorem C08_line_count_single_block_k_runs (version checksum : Nat) (f : Func)
    (depth parc root F : Nat → Nat) (br : Bool) (k : Nat) (rk : List (Bytes × Cov)) (l b : Nat)
    (blk : Block) (hn : f.blocks.length ≥ 2) (hre : f.realEdgeCount < 4294967296)
    (hT : SpanForest (addVirtualArc version f) depth parc root)
    (hF : Flow (addVirtualArc version f) F) (hent : F 0 > 0)
    (hl : (l, [b]) ∈ linesToBlock (addVirtualArc version f))
    (hb : (addVirtualArc version f).blocks[b]? = some blk)
    (h : compute ⟨version, checksum, [f]⟩
      (List.replicate (k + 1) (flowGcda version checksum f F)) br = ok rk) :
    ∃ cov, get? rk f.fileName = some cov ∧
      get? cov.lines l = some ((k + 1) * (blk.source.map F).sum) := by
  obtain ⟨r1, h1, e⟩ := compute_replicate h
  obtain ⟨cov, hc, hline, _⟩ := C08_line_count_single_block_end_to_end version checksum f depth parc
    root F br r1 l b blk hn hre hT hF hent hl hb h1
  subst e
  refine ⟨scaleCov (k + 1) cov, ?_, ?_⟩
  · unfold scaleRes
    rw [get?_map (scaleCov (k + 1)) r1 f.fileName, hc]; rfl
  · unfold scaleCov scaleLines
    simp only
    rw [get?_map (fun n => (k + 1) * n) cov.lines l, hline]; rfl

/-! ### the hypotheses are satisfiable -/

/-- blocks 0 (entry), 1 (exit), 2, 3, 4; arcs 0: 0→2*, 1: 2→3, 2: 2→4*, 3: 3→1*, 4: 4→1 (* = on the
tree), virtual arc 5: 1→0*; lines 10, 11, 12 in blocks 2, 3, 4 -/
def e2eFunc : Func :=
  match build 48 7
    [.func 1 11 22 [102] [97, 46, 99] 10 0, .blocks 5,
     .arcs 0 [(2, 1)], .arcs 2 [(3, 0), (4, 1)], .arcs 3 [(1, 1)], .arcs 4 [(1, 0)],
     .lines 2 [.file [97, 46, 99], .line 10], .lines 3 [.file [97, 46, 99], .line 11],
     .lines 4 [.file [97, 46, 99], .line 12]] with
  | .ok g => g.funcs.headD ⟨0, 0, 0, 0, 0, [], [], [], []⟩
  | _ => ⟨0, 0, 0, 0, 0, [], [], [], []⟩

/-- seven runs: two through block 3, five through block 4 -/
def e2eFlow (e : Nat) : Nat := [7, 2, 5, 2, 5, 7].getD e 0

def e2eLine (o : Outcome (List (Bytes × Cov))) (l : Nat) : Option Nat :=
  match o with
  | .ok rs => (get? rs [97, 46, 99]).bind fun c => get? c.lines l
  | _ => none

example : isSpanTree (addVirtualArc 48 e2eFunc) = true ∧
    flowB (addVirtualArc 48 e2eFunc) e2eFlow = true ∧
    (12, [4]) ∈ linesToBlock (addVirtualArc 48 e2eFunc) ∧ e2eFunc.realEdgeCount = 2 ∧
    e2eLine (compute ⟨48, 7, [e2eFunc]⟩ [flowGcda 48 7 e2eFunc e2eFlow] true) 12 = some 5 ∧
    e2eLine (compute ⟨48, 7, [e2eFunc]⟩ (List.replicate 3 (flowGcda 48 7 e2eFunc e2eFlow)) true) 11
      = some 6 := by decide +kernel

end Grcov.Props.C08
