/-
C20, part `Llvm` — the profile arm of the worker connected to the tool model: with `Env.llvm`
built from `LlvmTools` and `find_binaries`' result (`Consumer.Llvm.llvmOf`), a profile item
contributes the parsed exports of exactly the binaries found, each against the item's own merged
profile; and what such an item is for the pipeline (`LlvmFate`). The arm is NOT all-or-nothing
(review item 36): an item for which "Error parsing file" is logged still contributes its other
exports — the `continue` of `try_parse!` belongs to the inner `for lcov in lcovs` loop. C20's own
text wants a failing export isolated, so this is recorded as an observation, not as a finding;
C07's "skipped as a whole" holds for this arm only under the guard of `…_partial`.
-/
import GrcovModel.Consumer.Llvm
import GrcovModel.Consumer.FindBin
import GrcovModel.Props.C20Consumer
namespace Grcov.Props.C20
open Grcov AList Grcov.Consumer Grcov.Consumer.Llvm

/-- A profile item on a worker whose tools are `t` and whose `find_binaries` returned `bins`
(`none` = it panicked): a failing merge rejects the item without looking at `--binary-path`;
otherwise a missing binary path kills the worker; otherwise the item contributes, for every binary
found whose export against the item's OWN merged profile succeeded, the records that export
parses to — in the binaries' order, nothing else. -/
theorem C20_llvm_step_exports_found_binaries (env : Env) (st : WorkerState) (t : LlvmTools.Tools)
    (bins : Option (List Bytes)) (enc : Bytes → Nat) (ps : List Bytes)
    (hb : env.hasBinary = true) (hl : env.llvm = llvmOf t bins enc) :
    (step env st ⟨.profraw, .paths ps⟩).2 =
      match LlvmTools.merged t ps with
      | none => .rejected
      | some pd =>
        match bins with
        | none => .panic
        | some bs => .results ((bs.filterMap (t.export_ · pd)).flatMap
            fun l => (env.parseLcov (enc l)).getD []) := by
  simp only [step, stepLlvm, hb, hl, llvmOf]
  cases LlvmTools.merged t ps with
  | none => simp
  | some pd =>
    cases bins with
    | none => simp
    | some bs => simp [parseAll, List.flatMap_map]

/-- The binaries are the ones the `FindBin` model returns for the tree, whatever the walker's
schedule: every walked regular file that sniffs as an application, once (C20FindBin), so — with
the tool log theorems of `C20.lean` — each is exported once against this item's profile. -/
theorem C20_llvm_step_uses_findbin (env : Env) (st : WorkerState) (t : LlvmTools.Tools)
    (isApp : Bytes → Bool) (sched : List (List FindBin.Entry)) (root : FindBin.Root)
    (render : List Bytes → Bytes) (enc : Bytes → Nat) (ps : List Bytes) (pd : Bytes)
    (hb : env.hasBinary = true)
    (hl : env.llvm = llvmOf t ((FindBin.findBinaries isApp sched root).map (·.map render)) enc)
    (hm : LlvmTools.merged t ps = some pd) :
    (step env st ⟨.profraw, .paths ps⟩).2 =
      match FindBin.findBinaries isApp sched root with
      | none => .panic
      | some found => .results (((found.map render).filterMap (t.export_ · pd)).flatMap
          fun l => (env.parseLcov (enc l)).getD []) := by
  generalize FindBin.findBinaries isApp sched root = fb at hl
  rw [C20_llvm_step_exports_found_binaries env st t _ enc ps hb hl, hm]
  cases fb <;> rfl

/-- The fate of a profile item in the pipeline model: merged when the tools ran — however many of
the exports parsed —, rejected without `--binary-path` or on a tool error, the worker dies when
`find_binaries` panics. -/
theorem C20_llvm_fate (env : Env) (st : WorkerState) (ps : List Bytes) :
    toFate (step env st ⟨.profraw, .paths ps⟩).2 =
      match llvmFate env ps with
      | .merged _ _ => .ok
      | .rejected => .reject
      | .died => .die := by
  simp only [step, stepLlvm, llvmFate]
  cases hb : env.hasBinary with
  | false => simp [toFate]
  | true =>
    cases hr : (env.llvm ps).res <;> simp [toFate]

/-- Full statement "a profile item is all or nothing": it contributes the records of ALL its
exports or nothing at all. FALSE of the code. -/
def C20_llvm_all_or_nothing_stmt : Prop :=
  ∀ (env : Env) (st : WorkerState) (ps : List Bytes) (ls : List Nat),
    env.hasBinary = true → (env.llvm ps).res = .ok ls →
      contrib (step env st ⟨.profraw, .paths ps⟩).2 = [] ∨ ∀ l ∈ ls, (env.parseLcov l).isSome = true

/-- two exports: the first does not parse ("Error parsing file" is logged), the second does -/
def aonEnv : Env where
  guess := false
  hasBinary := true
  ext := EXT_GZ
  gcovRun _ := ⟨false, []⟩
  parseGz _ := none
  parseText _ := none
  parseLcov c := if c = 2 then some [([115], 2)] else none
  parseJacoco _ := none
  compute _ _ := none
  llvm _ := ⟨.ok [1, 2], none⟩

theorem C20_llvm_all_or_nothing_false : ¬ C20_llvm_all_or_nothing_stmt := by
  intro h
  have := h aonEnv Consumer.init [] [1, 2] rfl rfl
  revert this
  decide

/-- It is all or nothing exactly when the exports agree: all of them parse (everything is
contributed) or none does (nothing is). -/
theorem C20_llvm_all_or_nothing_partial (env : Env) (st : WorkerState) (ps : List Bytes) (ls : List Nat)
    (hb : env.hasBinary = true) (hr : (env.llvm ps).res = .ok ls)
    (hg : (∀ l ∈ ls, (env.parseLcov l).isSome = true) ∨ ∀ l ∈ ls, env.parseLcov l = none) :
    contrib (step env st ⟨.profraw, .paths ps⟩).2 = [] ∨ ∀ l ∈ ls, (env.parseLcov l).isSome = true := by
  rcases hg with h | h
  · exact Or.inr h
  · left
    rw [C20_llvm_exports env st ps ls hb hr]
    simp only [contrib, List.flatMap_eq_nil_iff]
    intro l hl
    rw [h l hl]; rfl

/-- the witness as a fate: merged, one export parsed, one skipped -/
example : llvmFate aonEnv [] = .merged 1 1 := by decide
example : (step aonEnv Consumer.init ⟨.profraw, .paths []⟩).2 = .results [([115], 2)] := by decide

/-- tools to bytes: two binaries, the second fails; a missing binary path after a good merge -/
def exT : LlvmTools.Tools where
  merge l := some (l.flatMap (·.2))
  export_ b pd := if b = [2] then none else some (b ++ pd)

example : llvmOf exT (some [[1], [2], [3]]) List.sum [[120]] = ⟨.ok [121, 123], some 120⟩ := by decide
example : llvmOf exT none List.sum [[120]] = ⟨.panic, some 120⟩ := by decide

end Grcov.Props.C20
