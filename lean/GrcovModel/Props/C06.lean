/-
C06 — sharded aggregation through lcov equals direct aggregation.
A shard tree: leaves are inputs, every inner node aggregates its children (C01's `merge`) and
passes the result through an export/import round trip `rt` (an lcov report written and read
back). For every partition of the inputs and every nesting depth the result has the same
observables as the direct aggregation, provided one round trip preserves observables – which is
what C05 establishes for the lcov writer/reader.
-/
import GrcovModel.Props.C01
import GrcovModel.Lemmas.LcovWriter
namespace Grcov.Props.C06
open Grcov AList Grcov.Props.C01 Grcov.Lcov

theorem obsEq_refl (a : Cov) : ObsEq a a := ⟨fun _ => rfl, fun _ => rfl, fun _ => rfl⟩
theorem obsEq_symm {a b : Cov} (h : ObsEq a b) : ObsEq b a :=
  ⟨fun l => (h.lines l).symm, fun l => (h.branches l).symm, fun n => (h.fns n).symm⟩
theorem obsEq_trans {a b c : Cov} (h₁ : ObsEq a b) (h₂ : ObsEq b c) : ObsEq a c :=
  ⟨fun l => (h₁.lines l).trans (h₂.lines l), fun l => (h₁.branches l).trans (h₂.branches l),
   fun n => (h₁.fns n).trans (h₂.fns n)⟩

/-- aggregation respects observable equality -/
theorem merge_congr {a a' b b' : Cov} (hb : b.WF) (hb' : b'.WF) (ha : ObsEq a a') (hbb : ObsEq b b') :
    ObsEq (merge a b) (merge a' b') := by
  refine ⟨fun l => ?_, fun l => ?_, fun n => ?_⟩
  · rw [merge_lines _ _ hb, merge_lines _ _ hb', ha.lines, hbb.lines]
  · rw [merge_branches _ _ hb, merge_branches _ _ hb', ha.branches, hbb.branches]
  · rw [merge_functions _ _ hb, merge_functions _ _ hb', execOf_optCombine, execOf_optCombine,
      ha.fns, hbb.fns]

/-- any nesting of intermediate reports -/
def evalSharded (rt : Cov → Cov) : Tree Cov → Cov
  | .leaf a => a
  | .node l r => rt (merge (evalSharded rt l) (evalSharded rt r))

theorem evalSharded_spec (rt : Cov → Cov) (hrt : ∀ c, c.WF → ObsEq (rt c) c ∧ (rt c).WF)
    (t : Tree Cov) (h : ∀ c ∈ t.leaves, c.WF) :
    ObsEq (evalSharded rt t) t.eval ∧ (evalSharded rt t).WF := by
  induction t with
  | leaf a => exact ⟨obsEq_refl a, h a (by simp [Tree.leaves])⟩
  | node l r ihl ihr =>
    simp only [Tree.leaves, List.mem_append] at h
    obtain ⟨el, wl⟩ := ihl fun c hc => h c (Or.inl hc)
    obtain ⟨er, wr⟩ := ihr fun c hc => h c (Or.inr hc)
    have wm : (merge (evalSharded rt l) (evalSharded rt r)).WF := merge_wf _ _ wl wr
    obtain ⟨e1, w1⟩ := hrt _ wm
    have wre : r.eval.WF := Tree.eval_wf r fun c hc => h c (Or.inr hc)
    exact ⟨obsEq_trans e1 (merge_congr wr wre el er), w1⟩

/-- Every shard tree over the inputs (any partition, any depth) reports the same observables as
the direct aggregation of the same multiset of inputs in any order and grouping. -/
theorem C06_sharding (rt : Cov → Cov) (hrt : ∀ c, c.WF → ObsEq (rt c) c ∧ (rt c).WF)
    (shards direct : Tree Cov) (h : ∀ c ∈ shards.leaves, c.WF)
    (p : shards.leaves.Perm direct.leaves) :
    ObsEq (evalSharded rt shards) direct.eval :=
  obsEq_trans (evalSharded_spec rt hrt shards h).1 (C01_grouping_invariant shards direct h p)

/-- records as the readers produce them: unique keys, u64 counts, no empty branch vector -/
def Good (c : Cov) : Prop := c.WF ∧ ∀ l v, get? c.branches l = some v → v ≠ []

theorem good_mem (c : Cov) (h : Good c) : ∀ lv ∈ c.branches, lv.2 ≠ [] := by
  intro lv hlv
  exact h.2 lv.1 lv.2 (get?_of_mem h.1.branchesNodup (by cases lv; exact hlv))

theorem zipOr_ne_nil (u v : List Bool) (h : u ≠ [] ∨ v ≠ []) : zipOr u v ≠ [] := by
  cases u with
  | nil => simpa using h
  | cons x u => cases v <;> simp

theorem good_merge (a b : Cov) (ha : Good a) (hb : Good b) : Good (merge a b) := by
  refine ⟨merge_wf a b ha.1 hb.1, fun l v hv => ?_⟩
  rw [merge_branches a b hb.1] at hv
  cases hA : get? a.branches l with
  | none => rw [hA] at hv; simp at hv; exact hb.2 l v hv
  | some u =>
    cases hB : get? b.branches l with
    | none => rw [hA, hB] at hv; simp at hv; subst hv; exact ha.2 l u hA
    | some w =>
      rw [hA, hB] at hv; simp at hv; subst hv
      exact zipOr_ne_nil u w (Or.inl (ha.2 l u hA))

/-- the lcov round trip preserves the observables of C01 and the shape of the records -/
theorem rtCov_good (c : Cov) (h : Good c) : ObsEq (rtCov c) c ∧ Good (rtCov c) := by
  have s := rtCov_same c h.1
  have hb := fun l => brda_roundtrip_get? c.branches h.1.branchesNodup (good_mem c h) l
  refine ⟨⟨s.lines, hb, fun n => by rw [s.functions]⟩, rtCov_wf c, fun l v hv => ?_⟩
  have : get? (rtCov c).branches l = get? c.branches l := hb l
  rw [this] at hv; exact h.2 l v hv

theorem evalSharded_lcov (t : Tree Cov) (h : ∀ c ∈ t.leaves, Good c) :
    ObsEq (evalSharded rtCov t) t.eval ∧ Good (evalSharded rtCov t) := by
  induction t with
  | leaf a => exact ⟨obsEq_refl a, h a (by simp [Tree.leaves])⟩
  | node l r ihl ihr =>
    simp only [Tree.leaves, List.mem_append] at h
    obtain ⟨el, gl⟩ := ihl fun c hc => h c (Or.inl hc)
    obtain ⟨er, gr⟩ := ihr fun c hc => h c (Or.inr hc)
    have gm := good_merge _ _ gl gr
    obtain ⟨e1, g1⟩ := rtCov_good _ gm
    have wre : r.eval.WF := Tree.eval_wf r fun c hc => (h c (Or.inr hc)).1
    exact ⟨obsEq_trans e1 (merge_congr gr.1 wre el er), g1⟩

/-- **Sharding through lcov.** With the actual lcov writer/reader round trip (`rtCov`, what
`C05_roundtrip_bytes` shows the reader returns for the written bytes) at every inner node, every
shard tree over records without empty branch vectors reports the same observables as the direct
aggregation of the same inputs in any order and grouping. -/
theorem C06_sharding_lcov (shards direct : Tree Cov) (h : ∀ c ∈ shards.leaves, Good c)
    (p : shards.leaves.Perm direct.leaves) :
    ObsEq (evalSharded rtCov shards) direct.eval :=
  obsEq_trans (evalSharded_lcov shards h).1
    (C01_grouping_invariant shards direct (fun c hc => (h c hc).1) p)

/-- non-vacuity: with the identity as round trip the hypothesis holds -/
example : ∀ c : Cov, c.WF → ObsEq (id c) c ∧ (id c).WF := fun c h => ⟨obsEq_refl c, h⟩

end Grcov.Props.C06
