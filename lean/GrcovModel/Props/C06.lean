/-
C06 — sharded aggregation through lcov equals direct aggregation.
A shard tree: leaves are inputs, every inner node aggregates its children (C01's `merge`) and
passes the result through an export/import round trip `rt` (an lcov report written and read
back). For every partition of the inputs and every nesting depth the result has the same
observables as the direct aggregation, provided one round trip preserves observables – which is
what C05 establishes for the lcov writer/reader.
-/
import GrcovModel.Lemmas.LcovShards
import GrcovModel.Props.C06Cli
namespace Grcov.Props.C06
open Grcov AList Grcov.Props.C01 Grcov.Lcov

/-- Every shard tree over the inputs (any partition, any depth) reports the same observables as
the direct aggregation of the same multiset of inputs in any order and grouping. -/
theorem C06_sharding (rt : Cov → Cov) (hrt : ∀ c, c.WF → ObsEq (rt c) c ∧ (rt c).WF)
    (shards direct : Tree Cov) (h : ∀ c ∈ shards.leaves, c.WF)
    (p : shards.leaves.Perm direct.leaves) :
    ObsEq (evalSharded rt shards) direct.eval :=
  obsEq_trans (evalSharded_spec rt hrt shards h).1 (C01_grouping_invariant shards direct h p)

/-- **Sharding through lcov.** With the actual lcov writer/reader round trip (`rtCov`, what
`C05_roundtrip_bytes` shows the reader returns for the written bytes) at every inner node, every
shard tree over records without empty branch vectors reports the same observables as the direct
aggregation of the same inputs in any order and grouping. -/
theorem C06_sharding_lcov (shards direct : Tree Cov) (h : ∀ c ∈ shards.leaves, Good c)
    (p : shards.leaves.Perm direct.leaves) :
    ObsEq (evalSharded rtCov shards) direct.eval :=
  obsEq_trans (evalSharded_lcov shards h).1
    (C01_grouping_invariant shards direct (fun c hc => (h c hc).1) p)

/-- non-vacuity: the lcov round trip `rtCov` satisfies the hypothesis of `C06_sharding` on records as
the readers produce them, and it is not the identity (a branch line with an empty vector is dropped) -/
example : (∀ c : Cov, Good c → ObsEq (rtCov c) c ∧ Good (rtCov c))
    ∧ rtCov { branches := [(9, [])] } ≠ { branches := [(9, [])] }
    ∧ rtCov { lines := [(1, 5)], branches := [(3, [false, true])], functions := [([102], ⟨2, true⟩)] }
        = { lines := [(1, 5)], branches := [(3, [false, true])], functions := [([102], ⟨2, true⟩)] } :=
  ⟨rtCov_good, by decide, by decide⟩

end Grcov.Props.C06

namespace Grcov.Props.C06
open Grcov AList Grcov.Props.C01 Grcov.Lcov Grcov.Lcov.Spec Grcov.Props.C06.Rep

/-- **Sharding through the bytes of the lcov reports.** For every tree of shards whose leaves are
reports (lists of (path, record)) as grcov holds them – one record per path, paths and function
names strings without line terminators, numbers within u32/u64, no empty branch vector –: if every
inner node merges its children's reports (`add_results`), writes the lcov report and the next
stage parses those bytes (with `--branch`), then every stage succeeds and the final parse returns
LITERALLY the report that merging with the same grouping gives without writing anything. -/
theorem C06_sharding_reports_bytes (t : Tree Report) (h : ∀ r ∈ t.leaves, RepOK r) :
    evalShardedBytes t = some (evalDirect t) := evalShardedBytes_eq t h

/-- … and that is, file by file, observably the aggregation of all inputs in a single run, in any
order and grouping: the sharded result lists exactly the files that occur in some input, and for
every file the same line counts, branch vectors, functions and executed flags as `direct`, any tree
over a permutation of the same input reports (the left comb is the single run). -/
theorem C06_sharding_reports (shards direct : Tree Report) (h : ∀ r ∈ shards.leaves, RepOK r)
    (p : shards.leaves.Perm direct.leaves) :
    ∃ out, evalShardedBytes shards = some out
      ∧ (∀ k, (get? out k).isSome = (get? (evalDirect direct) k).isSome)
      ∧ ∀ k, ObsEq (covAt out k) (covAt (evalDirect direct) k) := by
  have h' : ∀ r ∈ direct.leaves, RepOK r := fun r hr => h r (p.symm.subset hr)
  refine ⟨evalDirect shards, evalShardedBytes_eq shards h, fun k => ?_, fun k => ?_⟩
  · rw [isSome_evalDirect shards h, isSome_evalDirect direct h']
    exact p.any_eq
  · have e1 := covAt_evalDirect shards h k
    have e2 := covAt_evalDirect direct h' k
    have pk : (Tree.at k shards).leaves.Perm (Tree.at k direct).leaves := by
      rw [leaves_at, leaves_at]; exact p.map _
    have hw : ∀ c ∈ (Tree.at k shards).leaves, c.WF := by
      intro c hc; rw [leaves_at] at hc
      simp only [List.mem_map] at hc
      obtain ⟨x, hx, rfl⟩ := hc; exact covAt_wf x (h x hx) k
    exact obsEq_trans e1 (obsEq_trans (C01_grouping_invariant _ _ hw pk) (obsEq_symm e2))

/-- the statement for intermediate reports re-read WITHOUT `--branch`: the stage is lossless -/
def C06_reimport_without_branch_flag_stmt : Prop :=
  ∀ r : Report, RepOK r → parse false (printLcov r) = .ok r

/-- It is false: a record that carries branch data although `--branch` is off (what the JaCoCo
reader produces, known finding C06-jacoco-branches-without-branch-flag) loses it when the
intermediate lcov report is re-read without `--branch`, while a single direct run reports it. -/
theorem C06_reimport_without_branch_flag_false : ¬ C06_reimport_without_branch_flag_stmt := by
  intro hstmt
  have hr : RepOK [([97], { branches := [(1, [true])] })] := by
    refine repOK_of_writerOK _ (by simp [NodupKeys, keys]) fun pc hpc => ?_
    simp only [List.mem_singleton] at hpc; subst hpc
    refine ⟨⟨⟨?_, ?_, ?_, ?_⟩, ?_, ?_, ?_, ?_⟩, by decide, by simp⟩ <;>
      simp [NodupKeys, keys, U32MAX, noEol, LF, CR]
  have := hstmt _ hr
  revert this; decide +kernel

/-- What does hold without `--branch`: the intermediate report is read back to the same files, lines
and functions with the branch data removed; so the stage is lossless exactly for reports that
carry no branch data (the guard the JaCoCo finding violates). -/
theorem C06_reimport_without_branch_flag_partial (r : Report) (h : RepOK r) :
    parse false (printLcov r) = .ok (r.map fun pc => (pc.1, { pc.2 with branches := [] }))
    ∧ ((∀ pc ∈ r, pc.2.branches = []) → parse false (printLcov r) = .ok r) := by
  have hp := parse_printLcov_off r (writerOK_of_repOK r h)
  have e : (r.map fun pc => (utf8Lossy pc.1, rtCovOff pc.2))
      = r.map fun pc => (pc.1, { pc.2 with branches := [] }) := by
    apply List.map_congr_left
    intro pc hpc
    obtain ⟨_, h2, h3, _⟩ := h.recs pc hpc
    rw [h2]; simp only [rtCovOff, rtCov_of_good _ h3]
  rw [hp, e]
  refine ⟨rfl, fun hb => ?_⟩
  congr 1
  rw [List.map_congr_left (g := id)]
  · simp
  · intro pc hpc
    obtain ⟨p, c⟩ := pc
    have := hb (p, c) hpc
    simp only at this
    cases c; simp_all

/-- non-vacuity: two shard reports that share a file, with a saturating line, branch vectors of
different length and a comma in the path, are in the domain of `C06_sharding_reports` -/
example : RepOK [([97, 44, 98], { lines := [(1, U64MAX)], branches := [(3, [false, true])],
                                  functions := [([195, 169], ⟨4, true⟩)] })]
    ∧ evalShardedBytes (.node (.leaf [([97, 44, 98], { lines := [(1, U64MAX)], branches := [(3, [false, true])] })])
                              (.leaf [([97, 44, 98], { lines := [(1, 2), (2, 0)], branches := [(3, [true])] }), ([99], {})]))
      = some [([97, 44, 98], { lines := [(1, U64MAX), (2, 0)], branches := [(3, [true, true])] }), ([99], {})] := by
  refine ⟨repOK_of_writerOK _ (by simp [NodupKeys, keys]) fun pc hpc => ?_, by decide +kernel⟩
  simp only [List.mem_singleton] at hpc; subst hpc
  refine ⟨⟨⟨?_, ?_, ?_, ?_⟩, ?_, ?_, ?_, ?_⟩, by decide, by simp⟩ <;>
    simp [NodupKeys, keys, U64MAX, U32MAX, noEol, LF, CR] <;> decide

end Grcov.Props.C06
