/-
C20, part `Consumer` — what a worker does with one item (src/lib.rs `consumer`, src/gcov.rs,
`llvm_tools::find_binaries`): which reader gets which item, what stays in the worker's private
directory, when an item's contribution is independent of what the worker did before (C07 third
sentence, C20 "for every thread count"), when the worker cannot die, `rename_single_files`, the
gcov version switch. The tools (gcov, the readers, the LLVM tools) are parameters of the model and
every statement quantifies over all their behaviours, restricted only by the stated contracts.
-/
import GrcovModel.Lemmas.Consumer
import GrcovModel.Pipeline
namespace Grcov.Props.C20
open Grcov AList Grcov.Consumer

/-! ### dispatch table -/

/-- Exactly six (format, item type) pairs have a reader: gcno+path (gcov), gcno+buffers (the
built-in reader), profraw/profdata+paths (LLVM tools), info+content (lcov), jacoco+content. -/
theorem C20_dispatch_table (f : ItemFormat) (t : ItemType) :
    readerOf f t ≠ none ↔
      (f = .gcno ∧ ((∃ s g, t = .path s g) ∨ ∃ s b, t = .buffers s b)) ∨
      ((f = .profraw ∨ f = .profdata) ∧ ∃ ps, t = .paths ps) ∨
      ((f = .info ∨ f = .jacocoXml) ∧ ∃ c, t = .content c) := by
  cases f <;> cases t <;> simp [readerOf]

/-- Every other pair is rejected ("Invalid content type") and nothing changes: neither the
directory nor the latched gcov mode. -/
theorem C20_dispatch_rejects (env : Env) (st : WorkerState) (f : ItemFormat) (t : ItemType)
    (h : readerOf f t = none) : step env st ⟨f, t⟩ = (st, .rejected) :=
  step_of_no_reader env st f t h

/-- Content items go to the reader of their format and to no other; a reader error rejects the
item; the worker state is untouched. -/
theorem C20_dispatch_content (env : Env) (st : WorkerState) (c : Nat) :
    step env st ⟨.info, .content c⟩
        = (st, match env.parseLcov c with | some r => .results r | none => .rejected) ∧
    step env st ⟨.jacocoXml, .content c⟩
        = (st, match env.parseJacoco c with | some r => .results r | none => .rejected) := by
  constructor <;> simp only [step] <;> split <;> simp_all

/-- LLVM gcno buffers: always merged – a reader error is logged and an EMPTY batch is merged (the
item is not rejected); with `--guess-directory-when-missing` the names are rewritten. -/
theorem C20_dispatch_buffers (env : Env) (st : WorkerState) (stem : Bytes) (b : Nat) :
    step env st ⟨.gcno, .buffers stem b⟩
      = (st, .results (match env.compute stem b with | some r => finish env r stem | none => [])) := by
  simp only [step]; split <;> simp_all

/-- Without `--binary-path` a profile item is rejected before any tool runs, whatever its type. -/
theorem C20_llvm_needs_binary (env : Env) (st : WorkerState) (t : ItemType) (h : env.hasBinary = false) :
    step env st ⟨.profraw, t⟩ = (st, .rejected) ∧ step env st ⟨.profdata, t⟩ = (st, .rejected) := by
  simp [step, stepLlvm, h]

/-- With it, the exports that parse are concatenated and one that does not parse is skipped (the
`continue` of `try_parse!` belongs to the inner loop); a tool error rejects the item. -/
theorem C20_llvm_exports (env : Env) (st : WorkerState) (ps : List Bytes) (ls : List Nat)
    (hb : env.hasBinary = true) (hr : (env.llvm ps).res = .ok ls) :
    (step env st ⟨.profraw, .paths ps⟩).2 = .results (ls.flatMap fun l => (env.parseLcov l).getD []) := by
  simp [step, stepLlvm, hb, hr, parseAll]

/-! ### the worker directory -/

/-- A failed gcov run rejects the item, and if gcov writes regular files only and the directory
was empty before, it is empty afterwards: nothing of the failed run can be taken for the output of
a later item. -/
theorem C20_dir_after_failed_gcov (env : Env) (st : WorkerState) (stem g : Bytes)
    (hfail : (env.gcovRun g).ok = false) (hfiles : ∀ w ∈ (env.gcovRun g).writes, w.2 ≠ .subdir)
    (hd : st.dir = []) :
    step env st ⟨.gcno, .path stem g⟩ = (⟨st.gcovType, []⟩, .rejected) := by
  simp [step, stepPath, hfail, hd, cleanDir_writeAll_nil hfiles]

/-- MultipleFiles mode: whenever the worker survives a notes item whose gcov run succeeded, the
directory is empty afterwards – accepted or rejected, whatever was in it before. -/
theorem C20_dir_multi_empty (env : Env) (d : Dir) (stem g : Bytes)
    (hok : (env.gcovRun g).ok = true)
    (hp : (step env ⟨.multi, d⟩ ⟨.gcno, .path stem g⟩).2 ≠ .panic) :
    (step env ⟨.multi, d⟩ ⟨.gcno, .path stem g⟩).1.dir = [] := by
  simp only [step, stepPath, hok] at hp ⊢
  cases hf : fileName g with
  | none => simp [hf] at hp
  | some f =>
    simp only [hf, latch_multi, Bool.not_true, Bool.false_eq_true, if_false] at hp ⊢
    exact multiRead_dir env _ stem hp

/-- SingleFile mode, empty directory before: everything left afterwards was written by this very
run, and when the item was accepted its own output file is gone. Leftovers are therefore only
(a) the unparsable own file of a rejected item and (b) files gcov wrote beside it. -/
theorem C20_dir_single_leftovers (env : Env) (stem g f : Bytes)
    (hok : (env.gcovRun g).ok = true) (hf : fileName g = some f) :
    let r := step env ⟨.single, []⟩ ⟨.gcno, .path stem g⟩
    (∀ x ∈ r.1.dir, x ∈ (env.gcovRun g).writes) ∧
      (∀ rs, r.2 = .results rs → get? r.1.dir (f ++ env.ext) = none) := by
  simp only [step, stepPath, hok, hf, latch_single, Bool.not_true, Bool.false_eq_true, if_false]
  constructor
  · intro x hx
    rcases mem_writeAll (singleRead_dir_subset env _ stem _ x hx) with h | h
    · simp at h
    · exact h
  · intro rs hrs
    exact singleRead_results_removed env _ stem _ rs hrs

/-- SingleFile mode reads nothing but `<notes file name><ext>`: if the run writes that file, the
outcome of the item is the same whatever the directory held before. -/
theorem C20_single_reads_only_own_output (env : Env) (stem g f : Bytes) (d d' : Dir)
    (hf : fileName g = some f) (hown : (lastWrite (env.gcovRun g).writes (f ++ env.ext)).isSome) :
    (step env ⟨.single, d⟩ ⟨.gcno, .path stem g⟩).2 = (step env ⟨.single, d'⟩ ⟨.gcno, .path stem g⟩).2 := by
  simp only [step, stepPath]
  cases (env.gcovRun g).ok with
  | false => rfl
  | true =>
    simp only [hf, latch_single, Bool.not_true, Bool.false_eq_true, if_false]
    exact singleRead_congr env stem _ (get?_writeAll_of_written hown d d')

/-- The full directory invariant "after an item that started in an empty directory nothing is left
that a later item reads". -/
def C20_dir_invariant_stmt : Prop :=
  ∀ (env : Env) (m : GcovType) (it next : Item),
    (step env ⟨m, []⟩ it).2 ≠ .panic →
    (step env (step env ⟨m, []⟩ it).1 next).2 = (step env ⟨(step env ⟨m, []⟩ it).1.gcovType, []⟩ next).2

/-- It is false without a contract on gcov. In SingleFile mode a file that one gcov run wrote
beside its own output stays in the directory and is taken for the output of a later notes file
whose run wrote nothing. (The other counter-example, the merged profile left by a profile item,
is gone since 2cb069b: `C20_llvm_dir_unchanged`.) The provable parts are the theorems above and
`C20_llvm_dir_unchanged`; under the gcov contract the consequence that matters is `C20_isolation`. -/
theorem C20_dir_invariant_false : ¬ C20_dir_invariant_stmt := by
  intro h
  have := h witnessEnvLeftover .single ⟨.gcno, .path [97] aGcno⟩ ⟨.gcno, .path [117] uGcno⟩ (by decide)
  revert this
  decide

/-- The same witness as a run: the second item contributes the first item's extra file (on its own
it would kill the worker: "Failed to open gcov file"). -/
theorem C20_single_leftover_read_witness :
    (runItems witnessEnvLeftover init witnessItemsLeftover).2
        = [.results [([115], 1)], .results [([115], 2)]] ∧
      solo witnessEnvLeftover .single ⟨.gcno, .path [117] uGcno⟩ = .panic := by
  decide

/-- A profile item leaves the worker directory as it found it: the merged profile
`grcov.profdata` is removed on every way out of `llvm_profiles_to_lcov` (success, tool error, a
panic of `find_binaries`), whatever the merge tool wrote. Exactly: afterwards the directory is the
old one minus a regular file of that name; in particular it is unchanged when no such entry
existed, and the latched gcov mode is never touched. Without `--binary-path`, or for an item that
is not a path list, nothing is touched at all. -/
theorem C20_llvm_dir_unchanged (env : Env) (st : WorkerState) (f : ItemFormat) (t : ItemType)
    (hf : f = .profraw ∨ f = .profdata) :
    (step env st ⟨f, t⟩).1 = ⟨st.gcovType, rmFile st.dir PROFDATA⟩ ∨ (step env st ⟨f, t⟩).1 = st := by
  have hs : step env st ⟨f, t⟩ = stepLlvm env st t := by rcases hf with h | h <;> subst h <;> rfl
  rw [hs]
  cases hb : env.hasBinary with
  | false => right; simp [stepLlvm, hb]
  | true =>
    cases t with
    | paths ps => left; exact stepLlvm_dir env st ps hb
    | path _ _ => right; simp [stepLlvm, hb]
    | content _ => right; simp [stepLlvm, hb]
    | buffers _ _ => right; simp [stepLlvm, hb]

/-- … and so, when the directory held no `grcov.profdata` before (it never does unless gcov itself
writes a file of that name), it is literally the same directory afterwards. -/
theorem C20_llvm_dir_unchanged_of_absent (env : Env) (st : WorkerState) (f : ItemFormat) (t : ItemType)
    (hf : f = .profraw ∨ f = .profdata) (habs : get? st.dir PROFDATA = none) :
    (step env st ⟨f, t⟩).1 = st := by
  rcases C20_llvm_dir_unchanged env st f t hf with h | h
  · rw [h, rmFile_of_absent habs]
  · exact h

/-! ### isolation -/

/-- Isolation (C07 third sentence, C20 "for every thread count"): under the gcov contract (gcov
writes regular files only; all successful runs follow one output convention) what a worker yields
for its items is, item by item, what each item yields on its own in an empty directory – it does
not depend on the other items the worker processed (notes files, profile lists, lcov, JaCoCo,
buffers), on their order, or on whether they were accepted, rejected or had a failing gcov run.
After a panic the worker yields nothing more. -/
def C20_isolation_stmt : Prop :=
  ∀ (env : Env) (m : GcovType) (items : List Item), Guard env m items →
    (runItems env init items).2 = cut (items.map (solo env m))

theorem C20_isolation : C20_isolation_stmt :=
  fun env m items G => runItems_solo env m items G init (good_init G.mode)

/-- For every thread count and every assignment of the items to workers (each worker with its own
directory, any order inside a worker): if no item kills its worker, the contributions of the run
are, as a multiset, the solo contributions of the items. That every worker HAS a directory of its
own, empty at the start and touched by nobody else, is proved for the real temp-dir tree in
`C20_private_directory` (C20WorkDirs.lean), and `C20_every_schedule` there is this theorem without
that assumption. -/
theorem C20_every_assignment (env : Env) (m : GcovType) (items : List Item)
    (G : Guard env m items) (workers : List (List Item)) (hw : workers.flatten.Perm items)
    (hnp : ∀ it ∈ items, solo env m it ≠ .panic) :
    ((workers.map fun w => (runItems env init w).2).flatten.flatMap contrib).Perm
      ((items.map (solo env m)).flatMap contrib) := by
  have hsub : ∀ w ∈ workers, ∀ it ∈ w, it ∈ items := fun w hwm it hit =>
    hw.subset (List.mem_flatten.mpr ⟨w, hwm, hit⟩)
  have hrun : ∀ w ∈ workers, (runItems env init w).2 = w.map (solo env m) := by
    intro w hwm
    rw [C20_isolation env m w (G.mono (hsub w hwm))]
    apply cut_of_no_panic
    intro r hr
    obtain ⟨it, hit, rfl⟩ := List.mem_map.mp hr
    exact hnp it (hsub w hwm it hit)
  have h1 : (workers.map fun w => (runItems env init w).2) = workers.map fun w => w.map (solo env m) :=
    List.map_congr_left hrun
  rw [h1, ← List.map_flatten]
  exact (hw.map _).flatMap_right _

/-- A rejected item contributes nothing (and neither does one that killed its worker). -/
theorem C20_rejected_contributes_nothing : contrib .rejected = [] ∧ contrib .panic = [] := ⟨rfl, rfl⟩

/-! ### no panic -/

/-- Under the contract, a valid extension, notes paths with a file name, (MultipleFiles mode)
output files with an extension, and LLVM tools glue that does not panic, no item kills a worker. -/
theorem C20_no_panic_partial (env : Env) (m : GcovType) (items : List Item) (G : Guard env m items)
    (P : PanicFree env m items) : ∀ r ∈ (runItems env init items).2, r ≠ .panic := by
  have hnp : ∀ r ∈ items.map (solo env m), r ≠ .panic := by
    intro r hr
    obtain ⟨it, hit, rfl⟩ := List.mem_map.mp hr
    exact solo_ne_panic env m items G P it hit
  rw [C20_isolation env m items G, cut_of_no_panic hnp]
  exact hnp

/-- The guards are needed: a successful gcov run that does not write `<notes file name><ext>`
kills a worker in SingleFile mode; an output file without extension kills one in MultipleFiles
mode; so does a sub-directory; so does an extension that is neither "…gz" nor "…gcov". -/
theorem C20_panic_witnesses :
    solo witnessEnvLeftover .single ⟨.gcno, .path [117] uGcno⟩ = .panic ∧
    solo witnessEnvNoExt .multi ⟨.gcno, .path [117] uGcno⟩ = .panic ∧
    solo { witnessEnvNoExt with gcovRun := fun _ => ⟨true, [(gzName, .subdir)]⟩ } .multi
        ⟨.gcno, .path [117] uGcno⟩ = .panic ∧
    solo { witnessEnvLeftover with ext := [46, 98] } .single ⟨.gcno, .path [97] aGcno⟩ = .panic := by
  decide

/-- The extension `get_gcov_output_ext` can return never triggers "Invalid gcov extension". -/
theorem C20_output_ext_valid (v : Ver) :
    (endsWith (outputExt v) GZ || endsWith (outputExt v) GCOV) = true := by
  unfold outputExt; split <;> decide

/-! ### rename_single_files -/

/-- A name without a parent directory gets the parent of the stem prepended (`Path::join`), every
other name is unchanged; a stem without parent ("" or "/") changes nothing. -/
theorem C20_rename_spec (rs : Results) (stem : Bytes) :
    renameSingle rs stem =
      match UPath.parent stem with
      | some par => rs.map fun fc => if hasNoParent fc.1 then (UPath.push par fc.1, fc.2) else fc
      | none => rs := rfl

theorem C20_rename_keeps_others (rs : Results) (stem f : Bytes) (c : Nat)
    (h : hasNoParent f = false) (hm : (f, c) ∈ rs) : (f, c) ∈ renameSingle rs stem := by
  unfold renameSingle
  split
  · exact List.mem_map.mpr ⟨(f, c), hm, by simp [h]⟩
  · exact hm

/-- Full statement "renaming twice is renaming once". -/
def C20_rename_idempotent_stmt : Prop :=
  ∀ (rs : Results) (stem : Bytes), renameSingle (renameSingle rs stem) stem = renameSingle rs stem

/-- False for the name ".": "d/." still has no parent component to speak of ("d/." is "d"), so it
is prefixed again. -/
theorem C20_rename_idempotent_false : ¬ C20_rename_idempotent_stmt := by
  intro h
  have := h [([46], 0)] [100, 47, 117]
  revert this
  decide

/-- Idempotent whenever every renamed name has a parent afterwards (or the stem has no directory). -/
theorem C20_rename_idempotent_partial (rs : Results) (stem : Bytes)
    (h : ∀ par, UPath.parent stem = some par → ∀ fc ∈ rs, hasNoParent fc.1 = true →
      hasNoParent (UPath.push par fc.1) = false ∨ par = []) :
    renameSingle (renameSingle rs stem) stem = renameSingle rs stem := by
  unfold renameSingle
  cases hp : UPath.parent stem with
  | none => rfl
  | some par =>
    simp only [List.map_map]
    apply List.map_congr_left
    intro fc hfc
    simp only [Function.comp]
    by_cases hn : hasNoParent fc.1 = true
    · simp only [hn, if_true]
      rcases h par hp fc hfc hn with h' | h'
      · simp [h']
      · subst h'
        have : UPath.push [] fc.1 = fc.1 := by simp [UPath.push]
        simp [this, hn]
    · simp [hn]

/-! ### gcov version and argv -/

/-- The JSON extension is chosen exactly from release 9.1.0 on (a pre-release of 9.1.0 is older). -/
theorem C20_output_ext_iff (v : Ver) :
    outputExt v = EXT_GZ ↔
      (v.major > 9 ∨ (v.major = 9 ∧ (v.minor > 1 ∨ (v.minor = 1 ∧ (v.patch > 0 ∨ v.pre = false))))) := by
  rw [← ge910_iff]
  unfold outputExt
  split
  · simp_all
  · constructor
    · intro h; exact absurd h.symm EXT_GZ_ne_TEXT
    · intro h; simp_all

/-- `parse_version` returns the LAST token (split at ' ' and '\n', trimmed) that is a semantic
version; tokens after it that do not parse are ignored, tokens before it do not matter. -/
theorem C20_parse_version_last (out : Bytes) (pre post : List Bytes) (t : Bytes) (v : Ver)
    (hs : tokens out = pre ++ t :: post) (ht : parseSemver (trim t) = some v)
    (hpost : ∀ x ∈ post, parseSemver (trim x) = none) : parseVersion out = some v := by
  unfold parseVersion
  rw [hs]
  exact getLast?_filterMap_append _ pre post t v ht hpost

/-- and fails (`assert!`) exactly when no token is one -/
theorem C20_parse_version_none_iff (out : Bytes) :
    parseVersion out = none ↔ ∀ t ∈ tokens out, parseSemver (trim t) = none := by
  unfold parseVersion
  rw [List.getLast?_eq_none_iff, List.filterMap_eq_nil_iff]

/-- gcov is started with `[-b -c] <notes path> -i`. -/
theorem C20_gcov_argv (branch : Bool) (g : Bytes) :
    gcovArgv branch g = (if branch then [[45, 98], [45, 99]] else []) ++ [g, [45, 105]] := rfl

/-! ### find_binaries -/

/-- A path that does not exist panics; a regular file is taken as the one binary without being
sniffed; in a directory exactly the non-empty files whose head is an executable format. -/
theorem C20_find_binaries (isApp : Bytes → Bool) (p : Bytes) :
    findBinaries isApp p .missing = none ∧ findBinaries isApp p .file = some [p] ∧
    ∀ files b, b ∈ (findBinaries isApp p (.dir files)).getD [] ↔
      ∃ h, (b, h) ∈ files ∧ h ≠ [] ∧ isApp h = true := by
  refine ⟨rfl, rfl, fun files b => ?_⟩
  simp only [findBinaries, Option.getD_some, List.mem_map, List.mem_filter]
  constructor
  · rintro ⟨⟨b', h⟩, ⟨hm, hc⟩, rfl⟩
    exact ⟨h, hm, by simpa using hc⟩
  · rintro ⟨h, hm, hc⟩
    exact ⟨(b, h), ⟨hm, by simpa using hc⟩, rfl⟩

/-! ### link to the pipeline model -/

def toFate : StepResult → Pipeline.Fate
  | .results _ => .ok
  | .rejected => .reject
  | .panic => .die

/-- The three outcomes of `step` are the three outcomes of the `parsed` move of the pipeline model:
the worker holds the parsed batch (it goes into the result map under the mutex next: `lock`,
`mergeEntry`, `unlock`), the item is rejected (worker idle again), the item is lost with the
worker dead. -/
theorem C20_step_is_pipeline_parsed (fate : Pipeline.Item → Pipeline.Fate) (s : Pipeline.State)
    (w : Nat) (x : Pipeline.Item) (r : StepResult)
    (hw : s.workers.getD w .exited = .holding x) (hf : fate x = toFate r) :
    let s' := Pipeline.step fate s (.parsed w)
    (∀ rs, r = .results rs → s'.workers = s.workers.set w (.batch x) ∧ s'.merged = s.merged) ∧
    (r = .rejected → s'.rejected = s.rejected ++ [x] ∧ s'.merged = s.merged ∧ s'.workers = s.workers.set w .idle) ∧
    (r = .panic → s'.lost = s.lost ++ [x] ∧ s'.merged = s.merged ∧ s'.workers = s.workers.set w .dead) := by
  cases r <;> simp_all [Pipeline.step, toFate]

/-! ### non-vacuity -/

/-- a worker under the one-file convention: an accepted item, a failed gcov run that wrote a file,
an item whose output does not parse, an lcov item -/
def exEnv : Env where
  guess := true
  hasBinary := false
  ext := EXT_TEXT
  gcovRun g :=
    if g = aGcno then ⟨true, [(aGcno ++ EXT_TEXT, .file 1)]⟩
    else if g = uGcno then ⟨false, [(uGcno ++ EXT_TEXT, .file 2)]⟩
    else ⟨true, [([98, 46, 103, 99, 110, 111] ++ EXT_TEXT, .file 3)]⟩
  parseGz _ := none
  parseText c := if c = 3 then none else some [([115, 46, 99], c)]
  parseLcov c := some [([108], c)]
  parseJacoco _ := none
  compute _ _ := none
  llvm _ := ⟨.err, none⟩

def exItems : List Item :=
  [⟨.gcno, .path [100, 47, 97] aGcno⟩, ⟨.gcno, .path [117] uGcno⟩,
   ⟨.gcno, .path [98] [98, 46, 103, 99, 110, 111]⟩, ⟨.info, .content 7⟩]

example : (runItems exEnv init exItems).2
    = [.results [([100, 47, 115, 46, 99], 1)], .rejected, .rejected, .results [([108], 7)]] := by decide
example : (runItems exEnv init exItems).2 = exItems.map (solo exEnv .single) := by decide
example : (runItems exEnv init exItems.reverse).2 = exItems.reverse.map (solo exEnv .single) := by decide
-- the witness of the former finding C20-profdata-left-in-worker-dir now behaves
example : (runItems witnessEnvProfdata init witnessItemsProfdata).2
    = witnessItemsProfdata.map (solo witnessEnvProfdata .multi) := by decide
example : (runItems witnessEnvProfdata init witnessItemsProfdata).1.dir = [] := by decide
example : parseVersion [103, 99, 111, 118, 32, 40, 71, 67, 67, 41, 32, 49, 50, 46, 50, 46, 48, 10]
    = some ⟨12, 2, 0, false⟩ := by decide
example : outputExt ⟨9, 1, 0, true⟩ = EXT_TEXT ∧ outputExt ⟨9, 1, 0, false⟩ = EXT_GZ := by decide
example : parseSemver [48, 49, 46, 50, 46, 51] = none := by decide   -- "01.2.3": leading zero
example : renameSingle [([115, 46, 99], 1), ([100, 47, 116, 46, 99], 2)] [120, 47, 121, 47, 117]
    = [([120, 47, 121, 47, 115, 46, 99], 1), ([100, 47, 116, 46, 99], 2)] := by decide
example : findBinaries (fun h => h.head? = some 127) [98] (.dir [([98, 47, 120], [127, 69]), ([98, 47, 121], [35]), ([98, 47, 122], [])])
    = some [[98, 47, 120]] := by decide

end Grcov.Props.C20
