/-
C15, "a gcda whose version … does not match the gcno is never mixed in" – over the four STAMP BYTES
of the files (second review, item 35).  `C15_version_mismatch_rejected` (Props/C15.lean) speaks of
the NUMBER `read_version` computes.  That number ignores the middle character of a stamp whose
first character is a digit (`get_version`: `10 * (c2 - '0') + (c0 - '0')`), so:

* `C15_stamp_mismatch_rejected_false` – "different stamp bytes ⇒ rejected" is FALSE of the code:
  a gcda stamped `472*` is accepted and its counters are added to notes stamped `402*` (closed
  files; clang's `408*` against `478*` likewise – finding C15-version-stamp-middle-char-ignored);
* `C15_stamp_mismatch_rejected_partial` – it holds for the stamps compilers write
  (`stampCanon`: `d0d*` with d ≤ 8, `A9d*`, `Bdd*`…`Zdd*`), in either byte order of either file:
  there `get_version` is injective;
* `C15_stamp_rejected_iff_numbers_differ` – what the code does, all stamps.
-/
import GrcovModel.Lemmas.GcnoRecords
import GrcovModel.Lemmas.GcnoSafeSize
namespace Grcov.Props.C15
open Grcov Grcov.Gcno AList Outcome

def gcnoMagic : List Nat := [111, 110, 99, 103]
def gcdaMagic : List Nat := [97, 100, 99, 103]

/-- reading the version after the magic: the number of the spelling -/
theorem readVersion_of_spelling {magic bs : List Nat} {s : List Nat}
    (h : stampSpelling magic bs = some s) :
    ∃ le r0, guessEndian magic bs = ok (le, r0) ∧
      ((∃ v rest, readVersion le r0 = ok (v, rest) ∧ spellingVersion s = some v) ∨
       ((∃ k, readVersion le r0 = err k) ∧ spellingVersion s = none)) := by
  unfold stampSpelling at h
  split at h
  · rename_i le b0 b1 b2 b3 rest hg
    simp only [Option.some.injEq] at h
    refine ⟨le, _, hg, ?_⟩
    cases le with
    | true =>
      simp only [if_true] at h
      subst h
      simp only [readVersion, if_true, spellingVersion]
      by_cases hs : b0 = 42
      · left
        simp only [hs, if_true, getVersion]
        split <;> exact ⟨_, _, rfl, rfl⟩
      · right
        simp only [hs, if_false]
        exact ⟨⟨_, rfl⟩, trivial⟩
    | false =>
      simp only [Bool.false_eq_true, if_false] at h
      subst h
      simp only [readVersion, Bool.false_eq_true, if_false, spellingVersion]
      by_cases hs : b3 = 42
      · left
        simp only [hs, if_true, getVersion]
        split <;> exact ⟨_, _, rfl, rfl⟩
      · right
        simp only [hs, if_false]
        exact ⟨⟨_, rfl⟩, trivial⟩
  · cases h

theorem build_version {version checksum : Nat} {recs : List NRec} {g : Notes}
    (h : build version checksum recs = ok g) : g.version = version := by
  unfold build at h
  exact (foldl_buildStep_listed [] 0 recs _ g h).1

/-- the version of the notes read from a buffer is the number of its stamp -/
theorem readGcno_version {gcno : List Nat} {v c : Nat} {recs : List NRec} {s : List Nat}
    (hs : stampSpelling gcnoMagic gcno = some s) (h : readGcno gcno = ok (v, c, recs)) :
    spellingVersion s = some v := by
  obtain ⟨le, r0, hg, hv⟩ := readVersion_of_spelling hs
  unfold readGcno at h
  unfold gcnoMagic at hg
  rw [hg] at h
  simp only [Outcome.bind, bind_ok] at h
  rcases hv with ⟨v', rest, hr, hsv⟩ | ⟨⟨k, hr⟩, _⟩
  · rw [hr] at h
    simp only [Outcome.bind] at h
    have : v' = v := by
      split at h
      · split at h
        · split at h
          · simp only [Outcome.ok.injEq, Prod.mk.injEq] at h; exact h.1
          · cases h
          · cases h
        · cases h
        · cases h
      · cases h
      · cases h
    rw [← this]; exact hsv
  · rw [hr] at h
    simp [Outcome.bind] at h

/-- **What the code does, first half**: a gcda buffer whose magic and stamp can be read and whose
stamp NUMBER differs from the number of the notes is rejected with "GCOV versions do not match",
whatever was accumulated before and whatever follows the stamp. -/
theorem C15_stamp_number_mismatch_rejected (g : Notes) (st : State) (gcda sd : List Nat) (vd : Nat)
    (hs : stampSpelling gcdaMagic gcda = some sd) (hv : spellingVersion sd = some vd)
    (hne : vd ≠ g.version) : addGcdaBytes g st gcda = err .versionMismatch := by
  obtain ⟨le, r0, hg, hr⟩ := readVersion_of_spelling hs
  rcases hr with ⟨v', rest, hr, hsv⟩ | ⟨_, hnone⟩
  · rw [hv] at hsv
    simp only [Option.some.injEq] at hsv
    subst hsv
    unfold addGcdaBytes readGcda
    unfold gcdaMagic at hg
    rw [hg]
    simp only [Outcome.bind, hr]
    simp [hne]
  · rw [hv] at hnone; cases hnone

/-- **What the code does, second half: only the number matters.** Two little-endian gcda buffers
that differ in nothing but the three stamp characters, with the same stamp number, are treated
alike – in particular the middle character of a stamp that starts with a digit is ignored. -/
theorem C15_stamp_only_number_matters (g : Notes) (st : State) (c0 c1 c2 d0 d1 d2 : Nat)
    (rest : List Nat) (h : getVersion c0 c1 c2 = getVersion d0 d1 d2) :
    addGcdaBytes g st (gcdaMagic ++ [42, c0, c1, c2] ++ rest)
      = addGcdaBytes g st (gcdaMagic ++ [42, d0, d1, d2] ++ rest) := by
  unfold addGcdaBytes readGcda gcdaMagic
  simp only [List.cons_append, List.nil_append, guessEndian, if_true, Outcome.bind, readVersion, h]

/-- the notes `tinyGcno` (stamp `402*`) and a gcda for them whose stamp has the middle character
`c1`: `402*` for `c1 = 48`, `472*` for `c1 = 55` -/
def stampedGcda (c1 lo : Nat) : List Nat :=
  [97, 100, 99, 103] ++ [42, 50, c1, 52] ++ w32 7 ++
  w32 TAG_FUNCTION ++ w32 2 ++ w32 1 ++ w32 2 ++
  w32 TAG_COUNTER_ARCS ++ w32 2 ++ [lo, 0, 0, 0, 0, 0, 0, 0] ++
  w32 0

/-- **"Different stamp bytes ⇒ rejected" is false of the code** (finding
C15-version-stamp-middle-char-ignored): the notes are stamped `402*`, the gcda `472*`; the
computation is accepted and the counters of the foreign gcda are in the result (line 5: 9 runs,
3 from the matching gcda and 6 from the `472*` one). -/
theorem C15_stamp_mismatch_rejected_false :
    (¬ ∀ (gcno gcda sg sd : List Nat) (br : Bool),
        stampSpelling gcnoMagic gcno = some sg → stampSpelling gcdaMagic gcda = some sd → sg ≠ sd →
        (computeBytes gcno [gcda] br).isOk = false) ∧
    stampSpelling gcnoMagic tinyGcno = some [52, 48, 50, 42] ∧
    stampSpelling gcdaMagic (stampedGcda 55 6) = some [52, 55, 50, 42] ∧
    lineOf (computeBytes tinyGcno [stampedGcda 48 3, stampedGcda 55 6] true) 5 = some 9 := by
  have h1 : stampSpelling gcnoMagic tinyGcno = some [52, 48, 50, 42] := by decide +kernel
  have h2 : stampSpelling gcdaMagic (stampedGcda 55 6) = some [52, 55, 50, 42] := by decide +kernel
  refine ⟨fun hall => ?_, h1, h2, by decide +kernel⟩
  have := hall tinyGcno (stampedGcda 55 6) _ _ true h1 h2 (by decide)
  exact absurd this (by decide +kernel)

/-- **The clause for the stamps compilers write**: notes and gcda buffers – each in either byte
order – whose stamps are canonical spellings (`d0d*` with d ≤ 8, `A9d*`, `Bdd*`…`Zdd*`) and differ
in some byte: the gcda is rejected with "GCOV versions do not match", whatever was accumulated
before. -/
theorem C15_stamp_mismatch_rejected_partial (gcno gcda sg sd : List Nat) (v c : Nat)
    (recs : List NRec) (g : Notes) (st : State)
    (hsg : stampSpelling gcnoMagic gcno = some sg) (hsd : stampSpelling gcdaMagic gcda = some sd)
    (hcg : stampCanon sg = true) (hcd : stampCanon sd = true) (hne : sg ≠ sd)
    (hr : readGcno gcno = ok (v, c, recs)) (hb : build v c recs = ok g) :
    addGcdaBytes g st gcda = err .versionMismatch := by
  have hv := readGcno_version hsg hr
  have hgv := build_version hb
  -- the shape of canonical spellings
  have shape : ∀ s, stampCanon s = true → ∃ c2 c1 c0, s = [c2, c1, c0, 42] := by
    intro s hs
    match s, hs with
    | [c2, c1, c0, star], hs =>
      simp only [stampCanon, Bool.and_eq_true, decide_eq_true_eq] at hs
      exact ⟨c2, c1, c0, by rw [hs.1.1.1]⟩
  obtain ⟨c2, c1, c0, eg⟩ := shape sg hcg
  obtain ⟨d2, d1, d0, ed⟩ := shape sd hcd
  subst eg ed
  have hvg : spellingVersion [c2, c1, c0, 42] = some v := hv
  have hvd : ∃ vd, spellingVersion [d2, d1, d0, 42] = some vd ∧ getVersion d0 d1 d2 = ok vd := by
    simp only [spellingVersion, if_true, getVersion]
    by_cases hq : d2 ≥ 65
    · simp only [hq, if_true]; exact ⟨_, rfl, rfl⟩
    · simp only [hq, if_false]; exact ⟨_, rfl, rfl⟩
  obtain ⟨vd, hvd, hgd⟩ := hvd
  refine C15_stamp_number_mismatch_rejected g st gcda _ vd hsd hvd ?_
  intro e
  have hgg : getVersion c0 c1 c2 = ok v := by
    simp only [spellingVersion, if_true] at hvg
    cases hq : getVersion c0 c1 c2 with
    | ok v' => rw [hq] at hvg; simp only [Option.some.injEq] at hvg; rw [hvg]
    | err k => rw [hq] at hvg; cases hvg
    | crash s => rw [hq] at hvg; cases hvg
    | diverge => rw [hq] at hvg; cases hvg
  have := getVersion_canon_inj c2 c1 c0 d2 d1 d0 hcg hcd (by rw [hgg, hgd, e, hgv])
  exact hne (by rw [this.1, this.2.1, this.2.2])

/-! ### the hypotheses are satisfiable -/

/-- `402*`, `408*`, `800*`, `A93*`, `B01*` are canonical; `472*` and `478*` are not -/
example : stampCanon [52, 48, 50, 42] = true ∧ stampCanon [52, 48, 56, 42] = true ∧
    stampCanon [56, 48, 48, 42] = true ∧ stampCanon [65, 57, 51, 42] = true ∧
    stampCanon [66, 48, 49, 42] = true ∧ stampCanon [52, 55, 50, 42] = false ∧
    stampCanon [52, 55, 56, 42] = false := by decide

/-- a canonical mismatch on closed files: notes `402*`, gcda `408*` (middle `0`, last `8`) -/
example : (computeBytes tinyGcno
    [[97, 100, 99, 103] ++ [42, 56, 48, 52] ++ w32 7 ++ w32 0] true).errKind?
      = some .versionMismatch := by decide +kernel

end Grcov.Props.C15
