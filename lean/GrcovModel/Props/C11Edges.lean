/-
C11, part `Edges` (second review, item 29).

* Prefix removal WITH a source directory. The CLI default is `prefix := canonical source dir`
  (`C11_main_prefix_default`), so "prefix removed" must be stated for `sourceDir = some S` too:
  `C11_prefix_removed_with_source` (any source dir: once the prefix is stripped, the pipeline
  continues from the remainder alone) and `C11_prefix_default_under_source` (the default `-p = -s`:
  the absolute path of an existing file below `S` is reported as its path relative to `S`).
* The EMPTY reported path. `NormalForm` admits the empty path, and the code really reports
  `rel = ""`: for a key that denotes the source directory itself (`.`, `""`, `S`), the anchor's
  own path. `C11_rel_nonempty_iff` says exactly when: the path `get_abs_path` returns is relative
  and every one of its names is cancelled by a `..` (read with `\` as a separator).
* An invalid glob (`--ignore '['`, `'a{b'`) panics in `to_globset` (path_rewriting.rs 227) after
  every input has been parsed: modelled by Props/C11Glob.lean (`Glob/Syntax.lean`: the parser's
  error cases; `C11_glob_*`), not repeated here.
-/
import GrcovModel.Lemmas.Rewrite
namespace Grcov.Props.C11
open Grcov Grcov.UPath Grcov.Glob Grcov.Rewrite

namespace EdgesAux

/-- the stack height after the loop: names pushed minus names popped; the root flag is the
state's (no `RootDir` among `segComp` components) -/
theorem normGo_length (segs : List Bytes) (st r : NPath)
    (h : normGo st (segs.filterMap segComp) = some r) :
    r.names.length + countDotDot segs = st.names.length + countNames segs ∧ r.root = st.root := by
  induction segs generalizing st with
  | nil =>
    simp only [List.filterMap_nil, normGo, Option.some.injEq] at h
    subst h; simp [countDotDot, countNames]
  | cons s segs ih =>
    by_cases h1 : s = []
    · subst h1
      simp only [List.filterMap_cons, segComp, if_true] at h
      have := ih st h
      simpa [countDotDot, countNames, isSkip] using this
    by_cases h2 : s = [46]
    · subst h2
      have e : segComp [46] = none := by simp [segComp]
      simp only [List.filterMap_cons, e] at h
      have := ih st h
      simpa [countDotDot, countNames, isSkip] using this
    by_cases h3 : s = [46, 46]
    · subst h3
      have e : segComp [46, 46] = some .parent := by simp [segComp]
      simp only [List.filterMap_cons, e, normGo] at h
      by_cases hn : st.names = []
      · simp [hn] at h
      · simp only [hn, if_false] at h
        have := ih _ h
        have hl : st.names.length ≥ 1 := by
          cases hq : st.names with
          | nil => exact absurd hq hn
          | cons _ _ => simp
        simp only [List.length_dropLast] at this
        refine ⟨?_, this.2⟩
        have h1' := this.1
        simp [countDotDot, countNames, isSkip] at h1' ⊢; omega
    · have e : segComp s = some (.normal s) := by simp [segComp, h1, h2, h3]
      simp only [List.filterMap_cons, e, normGo] at h
      have := ih _ h
      refine ⟨?_, this.2⟩
      have h1' := this.1
      simp [countDotDot, countNames, isSkip, h1, h2, h3] at h1' ⊢; omega

theorem normalizeN_length {p : Bytes} {np : NPath} (h : normalizeN p = some np) :
    np.names.length + countDotDot (split p) = countNames (split p) ∧ np.root = hasRoot p := by
  unfold normalizeN normalizeC components at h
  split at h
  · rename_i hr
    simp only [List.cons_append, List.nil_append, normGo] at h
    have := normGo_length _ _ _ h
    simpa [hr] using this
  · rename_i hr
    split at h
    · simp only [List.cons_append, List.nil_append, normGo] at h
      have := normGo_length _ _ _ h
      simpa [hr] using this
    · simp only [List.nil_append] at h
      have := normGo_length _ _ _ h
      simpa [hr] using this

theorem render_eq_nil_iff {np : NPath} (hreal : ∀ n ∈ np.names, RealName n) :
    render np = [] ↔ np.root = false ∧ np.names = [] := by
  obtain ⟨root, names⟩ := np
  cases root with
  | true => simp [render]
  | false =>
    cases names with
    | nil => simp [render, join]
    | cons a t =>
      have ha : a ≠ [] := (hreal a (by simp)).1
      simp only [render, Bool.false_eq_true, if_false, List.nil_append, true_and, reduceCtorEq, iff_false]
      cases t with
      | nil => simpa [join] using ha
      | cons b t' =>
        intro h
        have : a ++ 47 :: join (b :: t') = [] := by simpa [join] using h
        simp at this

/-- **when `normalize_path` returns the empty path**: the path is relative and has as many `..`
as names (none of which escapes, or there would be no result) -/
theorem normalizePath_eq_nil_iff {p r : Bytes} (h : normalizePath p = some r) :
    r = [] ↔ hasRoot p = false ∧ countNames (split p) = countDotDot (split p) := by
  unfold normalizePath at h
  cases hn : normalizeN p with
  | none => rw [hn] at h; cases h
  | some np =>
    rw [hn] at h
    simp only [Option.map_some, Option.some.injEq] at h
    subst h
    obtain ⟨hlen, hroot⟩ := normalizeN_length hn
    have hreal : ∀ n ∈ np.names, RealName n := by
      have hs : normalizePath p = some (render np) := by simp [normalizePath, hn]
      obtain ⟨np', e, hr', _⟩ := normalizePath_shape hs
      have := render_injective hr' (by
        intro n hn'
        -- names of np are real: they are `Normal` components of `p`
        exact normGo_real (st := ⟨false, []⟩) (cs := components p) (by simp)
          (fun n hn'' => normal_mem_components hn'') hn n hn') e.symm
      rw [← this]; exact hr'
    rw [render_eq_nil_iff hreal, hroot]
    constructor
    · rintro ⟨h1, h2⟩; refine ⟨h1, ?_⟩; rw [h2] at hlen; simp at hlen; omega
    · rintro ⟨h1, h2⟩; refine ⟨h1, ?_⟩
      have : np.names.length = 0 := by omega
      exact List.length_eq_zero_iff.mp this

end EdgesAux

/-! ### the empty reported path -/

/-- **When the reported relative path is empty.** For every reported record: `rel = ""` iff the
path `get_abs_path` returned for the key (`r0`), read with `\` as a separator, is relative and all
its names are cancelled by `..` segments – the record stands for the anchor itself (the source
directory, or the current directory without `-s`), never for a path below it. Otherwise the
reported path is non-empty (and in normal form, `C11_normal_form`). -/
theorem C11_rel_nonempty_iff (cfg : Cfg) (fs : FS) (kc : Bytes × Cov) (r : Rec)
    (h : rewriteKey cfg fs kc = .ok (some r)) :
    ∃ r0, getAbsPath fs cfg.sourceDir (keyPath cfg kc.1) = .ok (some (r.abs, r0)) ∧
      (r.rel ≠ [] ↔ (hasRoot (bsl r0) = true ∨
        countNames (split (bsl r0)) ≠ countDotDot (split (bsl r0)))) := by
  obtain ⟨a, rl, h1, hsel⟩ := (rewriteKey_some_iff _ _ _ _).1 h
  obtain ⟨_, _, _, _, e⟩ := (selectRec_some_iff _ _ _ _ _ _).1 hsel
  obtain ⟨r0, hg, hf⟩ := resolveKey_some h1
  subst e
  refine ⟨r0, hg, ?_⟩
  unfold finalRel at hf
  have := EdgesAux.normalizePath_eq_nil_iff hf
  constructor
  · intro hne
    by_cases hr : hasRoot (bsl r0) = true
    · exact Or.inl hr
    · right; intro hc; exact hne (this.2 ⟨by simpa using hr, hc⟩)
  · rintro (hr | hc) he
    · have := (this.1 he).1; rw [hr] at this; cases this
    · exact hc (this.1 he).2

/-- the three keys of the review's probe (`paths/rewrite_edges.rs` c01-c03): `.` without a source
dir, and `""` and the source dir itself with `-s /s`, ARE reported, with the empty relative path -/
example :
    rewritePaths {} { files := [], dirs := [[[115]]], cwd := [[115]] } [([46], {})]
      = .ok [⟨[47, 115], [], {}⟩] ∧
    rewritePaths { sourceDir := some [47, 115] } { files := [], dirs := [[[115]]], cwd := [[115]] }
        [([47, 115], {}), ([], { lines := [(1, 1)] })]
      = .ok [⟨[47, 115], [], {}⟩, ⟨[47, 115], [], { lines := [(1, 1)] }⟩] := by decide

/-- … and a file below the anchor never is: `foo/../a.c` is reported as `a.c` -/
example :
    rewritePaths { sourceDir := some [47, 115] } { files := [[[115], [97, 46, 99]]], dirs := [[[115]]], cwd := [[115]] }
        [([102, 111, 111, 47, 46, 46, 47, 97, 46, 99], {})]
      = .ok [⟨[47, 115, 47, 97, 46, 99], [97, 46, 99], {}⟩] := by decide

/-! ### prefix removal with a source directory -/

/-- **Prefix removed, whatever the source dir.** When the (mapped) key lies under the prefix dir,
its components are those of the prefix followed by those of the remainder `t`, and everything
that follows – `get_abs_path` against the source dir, the final normalisation, the globs, the
report – is computed from `t` alone: the record is the one the key `t` would give without any
prefix option. (`C11_prefix_removed` is the case `sourceDir = none`, where `get_abs_path` is the
normalisation.) -/
theorem C11_prefix_removed_with_source (cfg : Cfg) (fs : FS) (key pre t abs rel : Bytes)
    (hP : cfg.prefixDir = some pre) (hpre : components pre ≠ [])
    (hstrip : stripPrefix (applyMapping cfg.mapping (bsl key)) pre = some t)
    (h : resolveKey cfg fs key = .ok (some (abs, rel))) :
    components (applyMapping cfg.mapping (bsl key)) = components pre ++ components t ∧
      ∃ r0, getAbsPath fs cfg.sourceDir t = .ok (some (abs, r0)) ∧
        normalizePath (bsl r0) = some rel := by
  refine ⟨stripPrefix_components hstrip hpre, ?_⟩
  obtain ⟨r0, hg, hf⟩ := resolveKey_some h
  refine ⟨r0, ?_, hf⟩
  simpa [keyPath, hP, removePrefix, hstrip] using hg

/-- **The default prefix** (`main` sets `-p` to the canonical `-s` when `-p` is absent,
`C11_main_prefix_default`): clean absolute source dir `S` = prefix dir, no mapping. The absolute
path `S/names` of an existing regular file below `S` (names without backslash) is reported as
(`S/names`, `names`): the prefix – here the source dir – is removed, the rest is the path relative
to the source dir. -/
theorem C11_prefix_default_under_source (cfg : Cfg) (fs : FS) (sn names : List Bytes)
    (hS : cfg.sourceDir = some (render ⟨true, sn⟩)) (hP : cfg.prefixDir = some (render ⟨true, sn⟩))
    (hM : cfg.mapping = none)
    (hsn : ∀ n ∈ sn, RealName n ∧ 92 ∉ n) (hn : ∀ n ∈ names, RealName n ∧ 92 ∉ n) (hne : names ≠ [])
    (hres : fs.resolve (render ⟨true, sn ++ names⟩) = some (sn ++ names, .file)) :
    resolveKey cfg fs (render ⟨true, sn ++ names⟩)
      = .ok (some (render ⟨true, sn ++ names⟩, join names)) := by
  have hsn1 : ∀ n ∈ sn, RealName n := fun n h => (hsn n h).1
  have hn1 : ∀ n ∈ names, RealName n := fun n h => (hn n h).1
  have hall2 : ∀ n ∈ sn ++ names, 92 ∉ n := by
    intro n h; rcases List.mem_append.1 h with h | h
    · exact (hsn n h).2
    · exact (hn n h).2
  have hb : bsl (render ⟨true, sn ++ names⟩) = render ⟨true, sn ++ names⟩ :=
    bsl_id (noBackslash_render (np := ⟨true, sn ++ names⟩) hall2)
  have hstrip := stripPrefix_render hsn1 hn1
  have hfin : finalRel (join names) = some (join names) := by
    rw [join_eq_render, finalRel_render (np := ⟨false, names⟩) hn1 fun n h => (hn n h).2]
  have hkp : keyPath cfg (render ⟨true, sn ++ names⟩) = join names := by
    simp [keyPath, hP, hM, removePrefix, applyMapping, hb, hstrip]
  unfold resolveKey
  simp only [hM, Option.isSome_none, Bool.false_and, Bool.false_eq_true, if_false, hS]
  rw [hkp, getAbsPath_under_source hsn1 hn1 hne hres]
  simp [finishPath, hfin]

/-- `-s /s` (hence `-p /s`), `/s/foo/bar.c` on disk: the key `/s/foo/bar.c` is reported as
`foo/bar.c` -/
example :
    resolveKey { sourceDir := some [47, 115], prefixDir := some [47, 115] }
      { files := [[[115], [102, 111, 111], [98, 97, 114, 46, 99]]], dirs := [[[115]], [[115], [102, 111, 111]]], cwd := [[115]] }
      [47, 115, 47, 102, 111, 111, 47, 98, 97, 114, 46, 99]
    = .ok (some ([47, 115, 47, 102, 111, 111, 47, 98, 97, 114, 46, 99], [102, 111, 111, 47, 98, 97, 114, 46, 99])) := by
  decide

end Grcov.Props.C11
