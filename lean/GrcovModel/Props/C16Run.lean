/-
C16, part `Run` — exclusion markers END TO END: the whole run `Cli.RunAll.run` (GrcovModel/Cli/
RunAll.lean: inputs → result map → `rewrite_paths` with `FileFilter::create` on the text of every
reported file → ordering → one of the seven writers), tied to the real binary byte for byte with
`--excl-*` options on generated source trees by the `runall` stream of harness/c16.

The six regex options reach the six fields of `FileFilter` in the order of main.rs 355-362
(`RunAll.rxOf`, `MainGlue.FileFilterArgs.toOpts`); `Regex::is_match` is the parameter `Opts.isMatch`.

* `C16_run_is_marker_free_run_excluded` — for every type, option set and input list: the report is
  the SAME writer, with the same ordering parameters, on the record list of the run without
  `--excl-*` (and without `--filter`), in the same order, in which every record went through
  `excludeRec`: the filter list of ITS OWN file applied, then `--filter` (which is evaluated on the
  record after exclusion: a file can become "uncovered" through its markers).
* `C16_run_record_lines` / `_branches` / `_functions` — what `excludeRec` does to a record whose
  source text can be read: line `n` loses its count iff `n` is a line of the text and matches the
  line marker or lies in a line region (C16's rule on the match bits of the text); the same for the
  branch vector with the branch markers; every other key and every function is unchanged.
  With `C02_run_decodes_*` (the report decodes to the records it was written from) this is the
  statement about the decoded report of every type.
* `C16_run_no_marker_options_identity`, `C16_run_unreadable_identity` — no `--excl-line`,
  `--excl-start`, `--excl-br-line`, `--excl-br-start` option (stop markers alone exclude nothing), or no
  readable source: the report is, byte for byte, the report of the run without any `--excl-*` option;
  `C16_run_unreadable_record`: per file.
-/
import GrcovModel.Lemmas.CliRunAll
namespace Grcov.Props.C16
open Grcov AList Grcov.Rewrite Grcov.FileFilter Grcov.Cli.RunAll

/-- **The run with markers is the marker-free run, excluded record by record** – for all seven
types: same writer, same ordering parameters, same records in the same order, each with the filter
list of its own file applied (and then `--filter`). -/
theorem C16_run_is_marker_free_run_excluded (o : Cli.RunAll.Opts) (w : World) (ins : List Input) :
    (∀ s, ins.findSome? (crash o.branch) = some s →
      run o w ins = .panic s ∧ run o.unfiltered w ins = .panic s) ∧
    (ins.findSome? (crash o.branch) = none →
      (∀ s, records o.unfiltered w ins = .panic s →
        run o w ins = .panic s ∧ run o.unfiltered w ins = .panic s) ∧
      (∀ rs, records o.unfiltered w ins = .ok rs →
        run o w ins = report o (rs.filterMap (excludeRec o w)) ∧
        run o.unfiltered w ins = report o rs ∧
        records o w ins = .ok (rs.filterMap (excludeRec o w)))) := by
  refine ⟨fun s hc => ?_, fun hc => ⟨fun s hr => ?_, fun rs hr => ?_⟩⟩
  · exact ⟨by rw [run_excluded, hc], by rw [run_unfiltered, hc]⟩
  · exact ⟨by rw [run_excluded, hc, hr], by rw [run_unfiltered, hc, hr]⟩
  · exact ⟨by rw [run_excluded, hc, hr], by rw [run_unfiltered, hc, hr], by rw [records_excluded, hr]⟩

/-- Without `--filter` no record is dropped: the records are those of the marker-free run, one for
one, with the filter list applied. -/
theorem C16_run_records_no_filter (o : Cli.RunAll.Opts) (w : World) (ins : List Input) (rs : List Rec)
    (hf : o.cfg.filter = none) (hr : records o.noMarkers w ins = .ok rs) :
    records o w ins = .ok (rs.map fun r => { r with cov := applyFilters (filterList o w r.abs) r.cov }) := by
  have hu : o.unfiltered = o.noMarkers := by
    cases o with
    | mk cfg branch excl isMatch out sortTypes hash pr =>
      cases cfg
      simp only [Cli.RunAll.Opts.unfiltered, Cli.RunAll.Opts.noMarkers] at hf ⊢
      simp_all
  rw [records_excluded, hu, hr]
  simp only
  congr 1
  clear hr
  induction rs with
  | nil => rfl
  | cons r rs ih => simp [excludeRec_no_filter o w hf, ih]

/-- **The marker rule on the file's own text – lines.** The record of a file whose text `src` can be
read (at most 2^32-1 lines): after exclusion, line `n` has no count iff it had none or is REMOVED,
and it is removed iff `n` is a line of the text
and matches the line marker or lies in a region from a start-marker line (inclusive) to the next
later stop-marker line (exclusive) – `lineMarker` / `inLineRegion` of Props/C16.lean on the match
bits of the text; every other line keeps its count. -/
theorem C16_run_record_lines (o : Cli.RunAll.Opts) (w : World) (r : Rec) (src : List Nat)
    (h : w.text r.abs = some src) (hlen : (bitsOf o src).length ≤ U32MAX) (n : Nat) :
    (get? (applyFilters (filterList o w r.abs) r.cov).lines n
      = if removesLine (filterList o w r.abs) n then none else get? r.cov.lines n) ∧
    (removesLine (filterList o w r.abs) n ↔
      1 ≤ n ∧ n ≤ (bitsOf o src).length ∧
        (lineMarker o.excl.toOpts (bitsOf o src) n ∨ inLineRegion o.excl.toOpts (bitsOf o src) n)) :=
  ⟨applyFilters_lines _ _ n, removesLine_filterList_iff o w r.abs src h hlen n⟩

/-- … branches: the same rule with the three branch markers. -/
theorem C16_run_record_branches (o : Cli.RunAll.Opts) (w : World) (r : Rec) (src : List Nat)
    (h : w.text r.abs = some src) (hlen : (bitsOf o src).length ≤ U32MAX) (n : Nat) :
    (get? (applyFilters (filterList o w r.abs) r.cov).branches n
      = if removesBranch (filterList o w r.abs) n then none else get? r.cov.branches n) ∧
    (removesBranch (filterList o w r.abs) n ↔
      1 ≤ n ∧ n ≤ (bitsOf o src).length ∧
        (brMarker o.excl.toOpts (bitsOf o src) n ∨ inBrRegion o.excl.toOpts (bitsOf o src) n)) :=
  ⟨applyFilters_branches _ _ n, removesBranch_filterList_iff o w r.abs src h hlen n⟩

/-- … and nothing else in the record changes: the functions, the paths. -/
theorem C16_run_record_functions (o : Cli.RunAll.Opts) (w : World) (r : Rec) (r' : Rec)
    (h : excludeRec o w r = some r') :
    r'.abs = r.abs ∧ r'.rel = r.rel ∧ r'.cov.functions = r.cov.functions ∧
    r'.cov = applyFilters (filterList o w r.abs) r.cov := by
  unfold excludeRec at h
  split at h
  · cases h; exact ⟨rfl, rfl, applyFilters_functions _ _, rfl⟩
  · cases h

/-- The lines of a non-empty text are its pieces (`C16_only_real_lines`): the bound `n ≤ …length`
above is "`n` is a line of the file as every other reader counts them". -/
theorem C16_run_bits_are_lines (o : Cli.RunAll.Opts) (src : List Nat) (hne : src ≠ []) :
    (bitsOf o src).length = realLines src := by
  unfold bitsOf; rw [sourceBits_length, splitSrc_length src hne]

/-- **No marker option = identity.** None of `--excl-line`, `--excl-start`, `--excl-br-line`,
`--excl-br-start` given (whatever the stop options): the report is, byte for byte and for every
type, the report of the run without any `--excl-*` option. -/
theorem C16_run_no_marker_options_identity (o : Cli.RunAll.Opts) (w : World) (ins : List Input)
    (h : o.excl.toOpts.inert = true) : run o w ins = run o.noMarkers w ins :=
  run_of_no_filter o w ins (filterList_inert o w h)

/-- which command lines that is -/
theorem C16_run_inert_iff (o : Cli.RunAll.Opts) :
    o.excl.toOpts.inert = true ↔
      o.excl.exclLine = none ∧ o.excl.exclStart = none ∧ o.excl.exclBrLine = none ∧ o.excl.exclBrStart = none := by
  cases o.excl with
  | mk a b c d e f =>
    cases a <;> cases b <;> cases d <;> cases e <;>
      simp [MainGlue.FileFilterArgs.toOpts, FileFilter.Opts.inert]

/-- **Unreadable sources = identity.** If no source text can be read (missing, a directory, not
UTF-8) the report is, byte for byte and for every type, that of the run without `--excl-*`. -/
theorem C16_run_unreadable_identity (o : Cli.RunAll.Opts) (w : World) (ins : List Input)
    (h : ∀ abs, w.text abs = none) : run o w ins = run o.noMarkers w ins :=
  run_of_no_filter o w ins fun abs => filterList_unreadable o w abs (h abs)

/-- … file by file: a record whose own source cannot be read goes through unchanged (only `--filter`
still applies), whatever the markers in other files. -/
theorem C16_run_unreadable_record (o : Cli.RunAll.Opts) (w : World) (r : Rec) (h : w.text r.abs = none) :
    excludeRec o w r = if filterOk o.cfg.filter r.cov then some r else none := by
  simp [excludeRec, filterList_unreadable o w r.abs h, applyFilters]

/-! ### non-vacuity -/

namespace RunWit
/-- `a.c`: lines 1-4 and 9, function `f`, branches on lines 3 and 4 -/
def inp : Lcov.Bytes :=
  [84, 78, 58, 10, 83, 70, 58, 97, 46, 99, 10, 70, 78, 58, 49, 44, 102, 10, 70, 78, 68, 65, 58, 50,
   44, 102, 10, 68, 65, 58, 49, 44, 50, 10, 68, 65, 58, 50, 44, 55, 10, 68, 65, 58, 51, 44, 48, 10,
   68, 65, 58, 52, 44, 49, 10, 68, 65, 58, 57, 44, 51, 10, 66, 82, 68, 65, 58, 51, 44, 48, 44, 48,
   44, 49, 10, 66, 82, 68, 65, 58, 51, 44, 48, 44, 49, 44, 45, 10, 66, 82, 68, 65, 58, 52, 44, 48,
   44, 48, 44, 49, 10, 101, 110, 100, 95, 111, 102, 95, 114, 101, 99, 111, 114, 100, 10]
/-- four lines: plain; `// NOCOV`; `// NOBR`; `// BEGINX` (a region that runs to the end of the text) -/
def src : List Nat :=
  [120, 32, 61, 32, 49, 59, 10, 121, 32, 61, 32, 50, 59, 32, 47, 47, 32, 78, 79, 67, 79, 86, 10,
   105, 102, 32, 40, 122, 41, 32, 47, 47, 32, 78, 79, 66, 82, 10, 119, 40, 41, 59, 32, 47, 47, 32,
   66, 69, 71, 73, 78, 88, 10]
def sNOCOV : List Nat := [78, 79, 67, 79, 86]
def sBEGINX : List Nat := [66, 69, 71, 73, 78, 88]
def sNOBR : List Nat := [78, 79, 66, 82]
def w1 : World := { fs := { files := [], dirs := [], cwd := [] }
                    text := fun abs => if abs = [97, 46, 99] then some src else none }
def oMark (t : OutType) : Cli.RunAll.Opts :=
  { out := t, branch := true, isMatch := hasSub
    excl := ⟨some sNOCOV, some sBEGINX, none, some sNOBR, none, none⟩ }
def out (r : Res Lcov.Bytes) : Lcov.Bytes := match r with | .ok b => b | .panic _ => []
end RunWit
open RunWit

/-- `--excl-line NOCOV --excl-start BEGINX --excl-br-line NOBR` on the text above: the lcov report
loses `DA:2` (marker), `DA:4` (region start) and the branches of line 3 (branch marker); line 9 is
beyond the text (4 lines): the open region does not reach it; `BRDA:4` and the function stay. -/
example : (Grcov.Cli.parseInput true (out (run (oMark .lcov) w1 [.lcov inp]))).map (fun pc => (pc.2.lines, pc.2.branches, pc.2.functions.length))
      = [([(1, 2), (3, 0), (9, 3)], [(4, [true])], 1)] ∧
    (Grcov.Cli.parseInput true (out (run (oMark .lcov).noMarkers w1 [.lcov inp]))).map (fun pc => (pc.2.lines, pc.2.branches))
      = [([(1, 2), (2, 7), (3, 0), (4, 1), (9, 3)], [(3, [true, false]), (4, [true])])] := by
  decide +kernel

/-- the hypotheses of `C16_run_record_lines` hold for that file and line 4 is excluded through the
region alone -/
example : w1.text [97, 46, 99] = some src ∧ (bitsOf (oMark .lcov) src).length = 4 ∧
    (bitsOf (oMark .lcov) src).length ≤ U32MAX ∧ realLines src = 4 ∧
    filterList (oMark .lcov) w1 [97, 46, 99] = [.line 2, .branch 3, .line 4] := by
  decide +kernel

/-- every type shows the exclusion: the report with markers differs from the marker-free one, and
stop markers alone or an unreadable tree change nothing -/
example : ∀ t ∈ [OutType.lcov, .covdir, .coveralls],
    run (oMark t) w1 [.lcov inp] ≠ run (oMark t).noMarkers w1 [.lcov inp] ∧
    run { oMark t with excl := ⟨none, none, some sNOCOV, none, none, some sNOBR⟩ } w1 [.lcov inp]
      = run (oMark t).noMarkers w1 [.lcov inp] ∧
    run (oMark t) { w1 with text := fun _ => none } [.lcov inp] = run (oMark t).noMarkers w1 [.lcov inp] := by
  decide +kernel

example : ∀ t ∈ [OutType.coverallsPlus, .ade],
    run (oMark t) w1 [.lcov inp] ≠ run (oMark t).noMarkers w1 [.lcov inp] ∧
    run { oMark t with excl := ⟨none, none, some sNOCOV, none, none, some sNOBR⟩ } w1 [.lcov inp]
      = run (oMark t).noMarkers w1 [.lcov inp] ∧
    run (oMark t) { w1 with text := fun _ => none } [.lcov inp] = run (oMark t).noMarkers w1 [.lcov inp] := by
  decide +kernel

example : run (oMark .cobertura) w1 [.lcov inp] ≠ run (oMark .cobertura).noMarkers w1 [.lcov inp] ∧
    run (oMark .cobertura) { w1 with text := fun _ => none } [.lcov inp]
      = run (oMark .cobertura).noMarkers w1 [.lcov inp] := by
  decide +kernel

end Grcov.Props.C16
