/-
C01 — aggregation law. Property theorems only; helper lemmas live in GrcovModel/Merge.lean.
Quantification: all records (`Cov.WF` is what the Rust types guarantee: unique keys, u64 counts),
all permutations, all parenthesisations (`Tree`).
-/
import GrcovModel.Merge
import GrcovModel.Lemmas.MergeNary
namespace Grcov.Props.C01
open Grcov AList

/-- What the property compares: line counts, branch vectors, function presence and executed
flags (start lines are deliberately excluded: inputs may disagree about them). -/
structure ObsEq (a b : Cov) : Prop where
  lines : ∀ l, get? a.lines l = get? b.lines l
  branches : ∀ l, get? a.branches l = get? b.branches l
  fns : ∀ n, execOf (get? a.functions n) = execOf (get? b.functions n)

/-- a line's count is the saturating sum; a line absent on one side keeps the other side's count -/
theorem C01_lines_pointwise (a b : Cov) (hb : b.WF) (l : Nat) :
    get? (merge a b).lines l = optCombine satAdd (get? a.lines l) (get? b.lines l) :=
  merge_lines a b hb l

theorem C01_branch_pointwise (a b : Cov) (hb : b.WF) (l : Nat) :
    get? (merge a b).branches l = optCombine zipOr (get? a.branches l) (get? b.branches l) :=
  merge_branches a b hb l

/-- as many branches as the longer vector; slot `i` taken iff taken in either -/
theorem C01_branch_slots (u v : List Bool) :
    (zipOr u v).length = max u.length v.length ∧
    ∀ i, (zipOr u v).getD i false = (u.getD i false || v.getD i false) :=
  ⟨zipOr_length u v, zipOr_getD u v⟩

/-- reported iff named by either; executed iff executed in either; start from the left input when
it names the function, otherwise from the right one -/
theorem C01_fn_pointwise (a b : Cov) (hb : b.WF) (n : Name) :
    execOf (get? (merge a b).functions n)
        = optCombine (· || ·) (execOf (get? a.functions n)) (execOf (get? b.functions n)) ∧
    startOf (get? (merge a b).functions n)
        = (startOf (get? a.functions n)).orElse (fun _ => startOf (get? b.functions n)) := by
  rw [merge_functions a b hb]
  exact ⟨execOf_optCombine _ _, startOf_optCombine _ _⟩

/-- n inputs, any grouping: the count is the sum of the inputs' counts clamped at 2^64-1 -/
theorem C01_sum_clamped (t : Tree Cov) (h : ∀ c ∈ t.leaves, c.WF) (l : Nat) :
    get? t.eval.lines l =
      if (t.leaves.map fun c => get? c.lines l).all Option.isNone then none
      else some (min (((t.leaves.map fun c => get? c.lines l).filterMap id).sum) U64MAX) := by
  rw [Tree.eval_lines t h]
  apply den_satAdd_closed
  intro v hv
  simp only [List.mem_map] at hv
  obtain ⟨c, hc, hcv⟩ := hv
  exact (h c hc).countsFit _ (mem_of_get? hcv)

theorem C01_comm (a b : Cov) (ha : a.WF) (hb : b.WF) : ObsEq (merge a b) (merge b a) := by
  refine ⟨fun l => ?_, fun l => ?_, fun n => ?_⟩
  · rw [merge_lines a b hb, merge_lines b a ha, optCombine_comm satAdd_comm]
  · rw [merge_branches a b hb, merge_branches b a ha, optCombine_comm zipOr_comm]
  · rw [merge_functions a b hb, merge_functions b a ha, execOf_optCombine, execOf_optCombine,
      optCombine_comm Bool.or_comm]

theorem C01_assoc (a b c : Cov) (hb : b.WF) (hc : c.WF) :
    ObsEq (merge (merge a b) c) (merge a (merge b c)) := by
  have hbc := merge_wf b c hb hc
  refine ⟨fun l => ?_, fun l => ?_, fun n => ?_⟩
  · rw [merge_lines _ _ hc, merge_lines _ _ hb, merge_lines _ _ hbc, merge_lines _ _ hc,
      optCombine_assoc satAdd_assoc]
  · rw [merge_branches _ _ hc, merge_branches _ _ hb, merge_branches _ _ hbc,
      merge_branches _ _ hc, optCombine_assoc zipOr_assoc]
  · rw [merge_functions _ _ hc, merge_functions _ _ hb, merge_functions _ _ hbc,
      merge_functions _ _ hc, optCombine_assoc fnMerge_assoc]

/-- every permutation of the multiset and every parenthesisation give the same observables -/
theorem C01_grouping_invariant (t₁ t₂ : Tree Cov) (h : ∀ c ∈ t₁.leaves, c.WF)
    (p : t₁.leaves.Perm t₂.leaves) : ObsEq t₁.eval t₂.eval := by
  have h₂ : ∀ c ∈ t₂.leaves, c.WF := fun c hc => h c (p.symm.subset hc)
  refine ⟨fun l => ?_, fun l => ?_, fun n => ?_⟩
  · rw [Tree.eval_lines _ h, Tree.eval_lines _ h₂]
    exact den_perm satAdd_comm satAdd_assoc (p.map _)
  · rw [Tree.eval_branches _ h, Tree.eval_branches _ h₂]
    exact den_perm zipOr_comm zipOr_assoc (p.map _)
  · rw [Tree.eval_functions _ h, Tree.eval_functions _ h₂, execOf_den, execOf_den]
    exact den_perm Bool.or_comm Bool.or_assoc ((p.map _).map _)

/-- the left fold used by `add_results` is one of those groupings -/
theorem C01_fold_is_a_grouping (t : Tree Cov) (h : ∀ c ∈ t.leaves, c.WF) (l : Nat) :
    get? (mergeAll t.leaves).lines l = get? t.eval.lines l := by
  rw [Tree.eval_lines t h]
  generalize t.leaves = cs at h
  suffices H : ∀ (acc : Cov) (cs : List Cov), (∀ c ∈ cs, c.WF) →
      get? (cs.foldl merge acc).lines l
        = optCombine satAdd (get? acc.lines l) (den satAdd (cs.map fun c => get? c.lines l)) by
    have := H Cov.empty cs h
    simpa [mergeAll, Cov.empty] using this
  intro acc cs
  induction cs generalizing acc with
  | nil => intro _; simp [den]
  | cons c cs ih =>
    intro hcs
    have hc : c.WF := hcs c (by simp)
    simp only [List.foldl_cons, List.map_cons]
    rw [ih _ fun c' hc' => hcs c' (List.mem_cons_of_mem _ hc'), merge_lines _ _ hc]
    have : den satAdd (get? c.lines l :: cs.map fun c => get? c.lines l)
        = optCombine satAdd (get? c.lines l) (den satAdd (cs.map fun c => get? c.lines l)) := rfl
    rw [this, optCombine_assoc satAdd_assoc]

/-- a reported function's start line comes from one of the inputs that name it -/
theorem C01_start_from_some_input (t : Tree Cov) (h : ∀ c ∈ t.leaves, c.WF) (n : Name) (f : Fn)
    (hf : get? t.eval.functions n = some f) :
    ∃ c ∈ t.leaves, ∃ g, get? c.functions n = some g ∧ g.start = f.start := by
  induction t generalizing f with
  | leaf a => exact ⟨a, by simp [Tree.leaves], f, hf, rfl⟩
  | node lt rt ihl ihr =>
    simp only [Tree.leaves, List.mem_append] at h ⊢
    have hr := Tree.eval_wf rt fun c hc => h c (Or.inr hc)
    simp only [Tree.eval] at hf
    rw [merge_functions _ _ hr] at hf
    cases hL : get? lt.eval.functions n with
    | some x =>
      have hs : f.start = x.start := by
        rw [hL] at hf
        cases hR : get? rt.eval.functions n <;> rw [hR] at hf <;> simp [fnMerge] at hf <;>
          subst hf <;> rfl
      obtain ⟨c, hc, g, hg, hgs⟩ := ihl (fun c hc => h c (Or.inl hc)) x hL
      exact ⟨c, Or.inl hc, g, hg, by rw [hgs, hs]⟩
    | none =>
      rw [hL] at hf; simp at hf
      obtain ⟨c, hc, g, hg, hgs⟩ := ihr (fun c hc => h c (Or.inr hc)) f hf
      exact ⟨c, Or.inr hc, g, hg, hgs⟩

/-- … and therefore the common one when the inputs agree -/
theorem C01_start_common_when_agree (t : Tree Cov) (h : ∀ c ∈ t.leaves, c.WF) (n : Name) (s : Nat)
    (agree : ∀ c ∈ t.leaves, ∀ g, get? c.functions n = some g → g.start = s) (f : Fn)
    (hf : get? t.eval.functions n = some f) : f.start = s := by
  obtain ⟨c, hc, g, hg, hgs⟩ := C01_start_from_some_input t h n f hf
  rw [← hgs]; exact agree c hc g hg

/-- an input that says nothing leaves the data unchanged (exact equality, not just observables) -/
theorem C01_identity_empty (a : Cov) : merge a Cov.empty = a := rfl

/-- a batch that does not mention file `k` leaves `k`'s record unchanged -/
theorem C01_identity (canon : Key → Key) (m : List (Key × Cov)) (batch : List (Key × Cov))
    (k : Key) (hk : ∀ kc ∈ batch, canon kc.1 ≠ k) :
    get? (addResults canon m batch) k = get? m k := by
  rw [get?_addResults]
  have : (batch.filter fun kc => canon kc.1 = k) = [] := by
    rw [List.filter_eq_nil_iff]; intro kc hkc; simpa using hk kc hkc
  simp [this, foldInto]

/-- what a file's map entry becomes: the fold of `merge` over exactly the batch entries naming it -/
theorem C01_add_results_entry (canon : Key → Key) (m : List (Key × Cov))
    (batch : List (Key × Cov)) (k : Key) :
    get? (addResults canon m batch) k
      = foldInto (get? m k) ((batch.filter fun kc => canon kc.1 = k).map (·.2)) :=
  get?_addResults canon m batch k

/-- adding an input never lowers a count and never removes a line -/
theorem C01_monotone_lines (a b : Cov) (ha : a.WF) (hb : b.WF) (l v : Nat)
    (h : get? a.lines l = some v) :
    ∃ v', get? (merge a b).lines l = some v' ∧ v ≤ v' := by
  rw [merge_lines a b hb, h]
  have hv : v ≤ U64MAX := ha.countsFit _ (mem_of_get? h)
  cases get? b.lines l with
  | none => exact ⟨v, rfl, Nat.le_refl _⟩
  | some w => exact ⟨satAdd v w, rfl, le_satAdd_left v w hv⟩

/-- … never clears a taken branch, never shortens a branch vector, never removes a branch line -/
theorem C01_monotone_branches (a b : Cov) (hb : b.WF) (l : Nat) (u : List Bool)
    (h : get? a.branches l = some u) :
    ∃ u', get? (merge a b).branches l = some u' ∧ u.length ≤ u'.length ∧
      ∀ i, u.getD i false = true → u'.getD i false = true := by
  rw [merge_branches a b hb, h]
  cases get? b.branches l with
  | none => exact ⟨u, rfl, Nat.le_refl _, fun _ h => h⟩
  | some w =>
    refine ⟨zipOr u w, rfl, ?_, ?_⟩
    · rw [zipOr_length]; omega
    · intro i hi; rw [zipOr_getD, hi]; rfl

/-- … never removes a function and never clears an executed flag; the start line is kept -/
theorem C01_monotone_functions (a b : Cov) (hb : b.WF) (n : Name) (f : Fn)
    (h : get? a.functions n = some f) :
    ∃ f', get? (merge a b).functions n = some f' ∧ f'.start = f.start ∧
      (f.executed = true → f'.executed = true) := by
  rw [merge_functions a b hb, h]
  cases get? b.functions n with
  | none => exact ⟨f, rfl, rfl, fun h => h⟩
  | some g => exact ⟨fnMerge f g, rfl, rfl, fun h => by simp [fnMerge, h]⟩

/-- results stay inside u64 and keys stay unique: the `Nat` model *is* the u64 behaviour -/
theorem C01_wf_closed (a b : Cov) (ha : a.WF) (hb : b.WF) : (merge a b).WF := merge_wf a b ha hb

/-- **N inputs, branches.** However the inputs are ordered and grouped, the reported vector of a
line has the length of the longest input vector for that line, and slot `i` is taken iff some
input reports it taken. -/
theorem C01_branches_nary (t : Tree Cov) (h : ∀ c ∈ t.leaves, c.WF) (l : Nat) (v : List Bool)
    (hv : get? t.eval.branches l = some v) :
    v.length = (((t.leaves.map fun c => get? c.branches l).filterMap id).map List.length).foldr max 0 ∧
    ∀ i, v.getD i false
      = ((t.leaves.map fun c => get? c.branches l).filterMap id).any (fun u => u.getD i false) := by
  rw [Tree.eval_branches t h] at hv
  exact den_zipOr_closed _ v hv

/-- a line has a branch vector in the aggregate iff some input has one for it -/
theorem C01_branches_present_iff (t : Tree Cov) (h : ∀ c ∈ t.leaves, c.WF) (l : Nat) :
    (get? t.eval.branches l).isSome ↔ ∃ c ∈ t.leaves, (get? c.branches l).isSome := by
  rw [Tree.eval_branches t h]
  generalize t.leaves = cs
  induction cs with
  | nil => simp [den]
  | cons c cs ih =>
    have e : den zipOr ((c :: cs).map fun c => get? c.branches l)
        = optCombine zipOr (get? c.branches l) (den zipOr (cs.map fun c => get? c.branches l)) := rfl
    rw [e]
    cases hc : get? c.branches l <;> cases hd : den zipOr (cs.map fun c => get? c.branches l) <;>
      simp [optCombine, hc, hd] at ih ⊢ <;> simp_all

/-- **N inputs, functions.** A function is reported iff some input names it, and it is reported
executed iff some input reports it executed – for every order and grouping of the inputs. -/
theorem C01_functions_nary (t : Tree Cov) (h : ∀ c ∈ t.leaves, c.WF) (n : Name) :
    ((get? t.eval.functions n).isSome ↔ ∃ c ∈ t.leaves, (get? c.functions n).isSome) ∧
    ∀ f, get? t.eval.functions n = some f →
      f.executed = ((t.leaves.map fun c => get? c.functions n).filterMap id).any (·.executed) := by
  rw [Tree.eval_functions t h]
  have := den_fnMerge_closed (t.leaves.map fun c => get? c.functions n)
  refine ⟨?_, this.2⟩
  rw [this.1]
  constructor
  · rintro ⟨x, hx, hs⟩
    simp only [List.mem_map] at hx
    obtain ⟨c, hc, rfl⟩ := hx
    exact ⟨c, hc, hs⟩
  · rintro ⟨c, hc, hs⟩
    exact ⟨_, List.mem_map.mpr ⟨c, hc, rfl⟩, hs⟩

/-! ### "never removes … from the report": monotonicity at the level of the result map -/

/-- `a'` holds everything `a` holds: every line with a count at least as large, every branch line
with a vector at least as long in which every taken slot is still taken, every function with the
same start line and an executed flag that was not cleared. -/
structure Below (a a' : Cov) : Prop where
  lines : ∀ l v, get? a.lines l = some v → ∃ v', get? a'.lines l = some v' ∧ v ≤ v'
  branches : ∀ l u, get? a.branches l = some u → ∃ u', get? a'.branches l = some u' ∧
    u.length ≤ u'.length ∧ ∀ i, u.getD i false = true → u'.getD i false = true
  functions : ∀ n f, get? a.functions n = some f → ∃ f', get? a'.functions n = some f' ∧
    f'.start = f.start ∧ (f.executed = true → f'.executed = true)

theorem Below.refl (a : Cov) : Below a a :=
  ⟨fun _ v h => ⟨v, h, Nat.le_refl _⟩, fun _ u h => ⟨u, h, Nat.le_refl _, fun _ h => h⟩,
   fun _ f h => ⟨f, h, rfl, fun h => h⟩⟩

theorem Below.trans {a b c : Cov} (h₁ : Below a b) (h₂ : Below b c) : Below a c := by
  refine ⟨fun l v h => ?_, fun l u h => ?_, fun n f h => ?_⟩
  · obtain ⟨v', e', le'⟩ := h₁.lines l v h
    obtain ⟨v'', e'', le''⟩ := h₂.lines l v' e'
    exact ⟨v'', e'', Nat.le_trans le' le''⟩
  · obtain ⟨u', e', le', t'⟩ := h₁.branches l u h
    obtain ⟨u'', e'', le'', t''⟩ := h₂.branches l u' e'
    exact ⟨u'', e'', Nat.le_trans le' le'', fun i hi => t'' i (t' i hi)⟩
  · obtain ⟨f', e', s', x'⟩ := h₁.functions n f h
    obtain ⟨f'', e'', s'', x''⟩ := h₂.functions n f' e'
    exact ⟨f'', e'', by rw [s'', s'], fun hx => x'' (x' hx)⟩

/-- one `merge` only adds (the three `C01_monotone_*` statements together) -/
theorem C01_monotone_merge (a b : Cov) (ha : a.WF) (hb : b.WF) : Below a (merge a b) :=
  ⟨fun l v h => C01_monotone_lines a b ha hb l v h,
   fun l u h => C01_monotone_branches a b hb l u h,
   fun n f h => C01_monotone_functions a b hb n f h⟩

/-- **The report only grows.** Whatever batch `add_results` is given – any number of records, for
any files, under any spelling of their names (`canon` arbitrary), in any order – every file that
was in the result map is still there afterwards, and its record holds everything it held before:
no line removed or lowered, no branch vector shortened, no taken branch cleared, no function
removed, no executed flag cleared, no start line changed. -/
theorem C01_report_monotone (canon : Key → Key) (m : List (Key × Cov)) (batch : List (Key × Cov))
    (hm : ∀ kc ∈ m, kc.2.WF) (hb : ∀ kc ∈ batch, kc.2.WF) (k : Key) (a : Cov)
    (h : get? m k = some a) :
    ∃ a', get? (addResults canon m batch) k = some a' ∧ Below a a' := by
  rw [get?_addResults, h]
  have ha : a.WF := hm (k, a) (mem_of_get? h)
  have hcs : ∀ c ∈ (batch.filter fun kc => canon kc.1 = k).map (·.2), c.WF := by
    intro c hc
    simp only [List.mem_map, List.mem_filter] at hc
    obtain ⟨kc, ⟨hkc, _⟩, rfl⟩ := hc
    exact hb kc hkc
  generalize (batch.filter fun kc => canon kc.1 = k).map (·.2) = cs at hcs
  suffices H : ∀ (cs : List Cov) (x : Cov), x.WF → (∀ c ∈ cs, c.WF) →
      ∃ a', foldInto (some x) cs = some a' ∧ Below x a' from H cs a ha hcs
  intro cs
  induction cs with
  | nil => intro x _ _; exact ⟨x, rfl, Below.refl x⟩
  | cons c cs ih =>
    intro x hx hcs
    have hc : c.WF := hcs c (by simp)
    obtain ⟨a', e, hb'⟩ := ih (merge x c) (merge_wf x c hx hc) fun c' hc' => hcs c' (List.mem_cons_of_mem _ hc')
    exact ⟨a', e, (C01_monotone_merge x c hx hc).trans hb'⟩

/-- … and over any number of batches: the maps of a run form a chain (`reportOf` of a longer
prefix of the merge order holds everything the shorter prefix's map held). -/
theorem C01_report_monotone_batches (canon : Key → Key) (m : List (Key × Cov))
    (batches : List (List (Key × Cov))) (hm : ∀ kc ∈ m, kc.2.WF)
    (hb : ∀ b ∈ batches, ∀ kc ∈ b, kc.2.WF) (k : Key) (a : Cov) (h : get? m k = some a) :
    ∃ a', get? (batches.foldl (addResults canon) m) k = some a' ∧ Below a a' := by
  have e : ∀ m : List (Key × Cov),
      batches.foldl (addResults canon) m = addResults canon m batches.flatten := by
    induction batches with
    | nil => intro m; simp [addResults]
    | cons b bs ih =>
      intro m
      rw [List.foldl_cons, ih (fun b' hb' => hb b' (List.mem_cons_of_mem _ hb'))]
      simp [addResults, List.foldl_append]
  rw [e]
  refine C01_report_monotone canon m _ hm ?_ k a h
  intro kc hkc
  simp only [List.mem_flatten] at hkc
  obtain ⟨b, hbm, hkb⟩ := hkc
  exact hb b hbm kc hkb

/-- non-vacuity: `exA` is in the map under key `[1]`; a batch that names the same file under two
spellings (both canonicalise to `[1]`) and another file leaves a record above `exA` -/
example : (get? (addResults (fun k => if k = [2] then [1] else k) [([1], ⟨[(1, 5)], [], []⟩)]
      [([2], ⟨[(1, 2)], [(1, [true])], []⟩), ([1], ⟨[(1, 1)], [], []⟩), ([3], ⟨[], [], []⟩)]) [1]).map
        (fun a' => (get? a'.lines 1, get? a'.branches 1)) = some (some 8, some [true]) := by decide

/-! Non-vacuity: concrete records that satisfy the hypotheses and exercise saturation, a shorter
right-hand branch vector and a start-line disagreement. -/
def exA : Cov := { lines := [(1, 5), (2, U64MAX)], branches := [(1, [true, false])],
                   functions := [([102], ⟨1, false⟩)] }
def exB : Cov := { lines := [(2, 1), (3, 7)], branches := [(1, [false, true, true]), (4, [true])],
                   functions := [([102], ⟨9, true⟩), ([103], ⟨3, false⟩)] }

example : exA.WF ∧ exB.WF := by
  refine ⟨⟨?_, ?_, ?_, ?_⟩, ⟨?_, ?_, ?_, ?_⟩⟩ <;>
    simp [exA, exB, NodupKeys, keys, U64MAX]

example : get? (merge exA exB).lines 2 = some U64MAX ∧
          get? (merge exA exB).branches 1 = some [true, true, true] ∧
          get? (merge exA exB).functions [102] = some ⟨1, true⟩ ∧
          get? (merge exB exA).functions [102] = some ⟨9, true⟩ := by decide

end Grcov.Props.C01
