/-
C03 / C18 — part CobBytes: the BYTES of the Cobertura report (`GrcovModel/Writers/CobBytes.lean`).
`xmlSerialize` is what quick-xml's `Writer` emits for the events of `output_cobertura` (tied byte
for byte to the real writer), `xmlParse` what a conforming XML 1.0 reader makes of such bytes (tied
to quick-xml's reader and to expat). The byte layer is no longer trusted:

* parse ∘ serialise is the identity on EVERY element tree whose tag and attribute names are XML
  names, whose attribute names are distinct per element, whose attribute values contain no C0
  control character and no U+FFFE/U+FFFF (`attrOk`), and whose character data is non-empty, not
  adjacent to other character data and free of CR and of the other non-TAB/LF controls (`textOk`) —
  in particular for all printable names, however hostile (`< > & ' "`, `]]>`, entity look-alikes);
* the guards are exact: a TAB in a name is read back as a blank, a C0 control makes the report
  ill-formed, a CR in the source directory is read back as LF (closed witnesses below; expat does the
  same on the real report). Those characters are outside the quantifier of C03 and C18.
* composing with `C03_cob_xml_roundtrip` / `C03_cob_decode`: decoding the bytes of the report
  gives `rs.map (rel, cobProj c)`;
* the element / attribute structure of the parsed report is the shape of the abstract tree, which
  does not mention any name: a hostile name cannot add an element or an attribute.
-/
import GrcovModel.Lemmas.WritersCobBytes
namespace Grcov.Props.C03
open Grcov AList Grcov.Escape Grcov.Stats Grcov.Writers Grcov.Writers.CobAde Grcov.Writers.CobBytes

/-- Reading the written bytes back gives exactly the tree that was written, for every well-formed
element tree (`wf`: XML names, distinct attribute names, values without control characters). -/
theorem C03_cobbytes_roundtrip (t : Bytes) (as : List (Bytes × Bytes)) (cs : List BXml)
    (h : wf (.elem t as cs) = true) :
    xmlParse (xmlSerialize (.elem t as cs)) = some (.elem t as cs) :=
  xmlParse_xmlSerialize t as cs h

/-- The tree `output_cobertura` writes is such a tree whenever the names are: the source directory
non-empty character data without CR / controls, every path, class name and function name without
control characters; the float attributes as printed (`fill`) likewise. The tag and attribute names
are the fixed cobertura vocabulary. -/
theorem C03_cobbytes_report_wf (fill : Fill) (hfill : FillOk fill) (d : Doc) (hd : DocOk d) :
    wf (conc fill [] (toXml d)) = true :=
  (doc_good fill hfill d hd).1

/-- what `DocOk` asks of a result set -/
theorem C03_cobbytes_docOk_iff (src : Option Name) (rs : List (Name × Cov)) :
    DocOk (coberturaDoc src rs) ↔
      ((src.getD [46]) ≠ [] ∧ textOk (src.getD [46]) = true) ∧
      ∀ r ∈ rs, attrOk r.1 = true ∧ attrOk (className r.1) = true ∧
        ∀ nf ∈ r.2.functions, attrOk nf.1 = true := by
  constructor
  · intro h
    refine ⟨h.sources _ (by simp [coberturaDoc, sourcesOf]), fun r hr => ?_⟩
    have hp := h.packages (docPackage r.1 r.2)
      (by simp only [coberturaDoc, coberturaPackages, List.mem_map]; exact ⟨r, hr, rfl⟩)
    have hk := hp.2 (docClass r.1 r.2) (by simp [docPackage])
    refine ⟨hp.1, hk.1, fun nf hnf => ?_⟩
    exact hk.2.2 ⟨nf.1, (linesInFunction r.2 nf.2).map (lineFromNumber r.2)⟩
      (by simp only [docClass, cobClass, List.mem_map]; exact ⟨nf, hnf, rfl⟩)
  · rintro ⟨hs, hr⟩
    refine ⟨?_, ?_⟩
    · intro s hs'
      simp only [coberturaDoc, sourcesOf, List.mem_singleton] at hs'
      subst hs'; exact hs
    · intro p hp
      simp only [coberturaDoc, coberturaPackages, List.mem_map] at hp
      obtain ⟨r, hrm, rfl⟩ := hp
      obtain ⟨h1, h2, h3⟩ := hr r hrm
      refine ⟨h1, fun k hk => ?_⟩
      simp only [docPackage, List.mem_singleton] at hk
      subst hk
      refine ⟨h2, h1, fun m hm => ?_⟩
      simp only [docClass, cobClass, List.mem_map] at hm
      obtain ⟨nf, hnf, rfl⟩ := hm
      exact h3 nf hnf

/-- Decoding the BYTES of the report: parsing them, rebuilding the document and reading every
class gives, file by file and in order, exactly the instrumented lines with their hits, the branch
vectors of the lines that have a line entry, and the function names — for all result sets whose
names satisfy the guard, and whatever the float attributes print as. -/
theorem C03_cobbytes_decode_bytes (src : Option Name) (rs : List (Name × Cov)) (fill : Fill)
    (hnd : ∀ r ∈ rs, NodupKeys r.2.lines) (hfill : FillOk fill)
    (hok : DocOk (coberturaDoc src rs)) :
    decodeReport (reportBytes fill (coberturaDoc src rs))
      = some (rs.map fun r => (r.1, cobProj r.2)) := by
  obtain ⟨hw, hb, t, as, cs, he⟩ := doc_good fill hfill (coberturaDoc src rs) hok
  unfold decodeReport reportBytes
  rw [he] at hw hb ⊢
  rw [xmlParse_xmlSerialize t as cs hw]
  simp only [Option.bind_some, hb, Option.map_some]
  exact congrArg some (decodeCobertura_packages rs hnd)

/-- The element / attribute structure a reader finds in the report is the shape of the abstract
tree `toXml d` — tags, attribute names and the positions of character data — whatever the names
are; so is the number of elements and of attributes. A hostile name cannot add, drop or rename an
element or an attribute. -/
theorem C03_cobbytes_shape (fill : Fill) (hfill : FillOk fill) (d : Doc) (hd : DocOk d) :
    (xmlParse (reportBytes fill d)).map shape = some (xshape (toXml d)) ∧
    (xmlParse (reportBytes fill d)).map countElems = some (xshape (toXml d)).elems ∧
    (xmlParse (reportBytes fill d)).map countAttrs = some (xshape (toXml d)).attrs := by
  obtain ⟨hw, _, t, as, cs, he⟩ := doc_good fill hfill d hd
  have hs := shape_conc fill [] (toXml d)
  unfold reportBytes
  rw [he] at hw hs ⊢
  rw [xmlParse_xmlSerialize t as cs hw]
  simp only [Option.map_some, countElems_shape, countAttrs_shape, hs, and_self]

/-- Full statement about attribute values: every byte string survives. -/
def C03_cobbytes_any_value_stmt : Prop :=
  ∀ (k v : Bytes), isName k = true →
    xmlParse (xmlSerialize (.elem [97] [(k, v)] [])) = some (.elem [97] [(k, v)] [])

/-- It is false: quick-xml's `escape` copies a TAB, which an XML reader returns as a blank … -/
theorem C03_cobbytes_any_value_false : ¬ C03_cobbytes_any_value_stmt := by
  intro h
  have h1 := h [107] [9] (by decide)
  have h2 : (xmlParse (xmlSerialize (.elem [97] [([107], [9])] []))).map
      (fun t => BXml.beq t (.elem [97] [([107], [32])] [])) = some true := by decide
  rw [h1] at h2
  revert h2; decide

/-- … and true under exactly the guard `attrOk` (no C0 control, no U+FFFE/U+FFFF). -/
theorem C03_cobbytes_any_value_partial (k v : Bytes) (hk : isName k = true)
    (guard : attrOk v = true) :
    xmlParse (xmlSerialize (.elem [97] [(k, v)] [])) = some (.elem [97] [(k, v)] []) := by
  apply xmlParse_xmlSerialize
  apply wf_elem_intro
  · decide
  · simp [attrsOk, hk, guard]
  · simp [hasDupKeys]
  · rfl
  · rfl

/-- the other two ways out of the guard: a C0 control other than TAB/LF/CR makes the report
ill-formed (no reader accepts it), a CR in character data comes back as LF -/
theorem C03_cobbytes_control_witnesses :
    xmlParse (xmlSerialize (.elem [97] [([107], [1])] [])) = none ∧
    (xmlParse (xmlSerialize (.elem [97] [] [.text [120, 13]]))).map
      (fun t => BXml.beq t (.elem [97] [] [.text [120, 10]])) = some true := by
  constructor
  · have : (xmlParse (xmlSerialize (.elem [97] [([107], [1])] []))).isNone = true := by decide +kernel
    simpa using this
  · decide +kernel

/-! ## non-vacuity: a hostile function name and path through the whole pipeline -/

/-- `"><evil a="1` as a function name, `a&b<c>.c` as the path, `]]>` as the source directory -/
def witHostile : List (Name × Cov) :=
  [([97, 38, 98, 60, 99, 62, 46, 99],
    { lines := [(1, 5), (2, 0)], branches := [(2, [true, false])],
      functions := [([34, 62, 60, 101, 118, 105, 108, 32, 97, 61, 34, 49], ⟨1, true⟩)] })]

def witFill : Fill := fun _ _ => [48, 46, 53]

example : DocOk (coberturaDoc (some [93, 93, 62]) witHostile) := by
  rw [C03_cobbytes_docOk_iff]
  decide
example : FillOk witFill := fun _ _ => by show attrOk [48, 46, 53] = true; decide
example : decodeReport (reportBytes witFill (coberturaDoc (some [93, 93, 62]) witHostile))
    = some (witHostile.map fun r => (r.1, cobProj r.2)) := by decide +kernel
example : (xmlParse (reportBytes witFill (coberturaDoc (some [93, 93, 62]) witHostile))).map countElems
    = some 21 := by decide +kernel

end Grcov.Props.C03
