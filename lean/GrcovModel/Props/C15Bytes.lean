/-
C15 over BYTES — the headline laws of Props/C15.lean restated for `computeBytes`
(= `Gcno::compute(stem, gcno_buf, gcda_bufs, branch)` on file contents, the function the harness
ties to the real code byte for byte).  `C15_bytes_are_records` is the link: whenever the buffers can
be read, the byte-level computation IS the record-level one (`computeRecs`) on the parsed record
streams; the corollaries below need no such hypothesis, because an accepted computation
(`= ok r`) has read all its buffers.  `C15_records_terminate`: the record level never runs out of
fuel.
-/
import GrcovModel.Lemmas.GcnoBytes
import GrcovModel.Lemmas.GcnoSafeSize
namespace Grcov.Props.C15
open Grcov Grcov.Gcno AList Outcome

/-- **Bytes = records.** If the notes buffer and every gcda buffer can be read, `Gcno::compute` on
the bytes equals the record-level computation on the record streams read from them. -/
theorem C15_bytes_are_records (gcno : List Nat) (v c : Nat) (recs : List NRec)
    (gcdas : List (List Nat)) (br : Bool) (hg : readGcno gcno = ok (v, c, recs))
    (hd : ∀ bs ∈ gcdas, (parseGcda bs).isSome = true) :
    computeBytes gcno gcdas br = computeRecs v c recs (gcdas.filterMap parseGcda) br :=
  computeBytes_eq_computeRecs br hg hd

/-- …and an accepted byte-level computation is an accepted record-level one: all its buffers were
readable. -/
theorem C15_bytes_ok_is_records_ok (gcno : List Nat) (gcdas : List (List Nat)) (br : Bool)
    (r : List (Bytes × Cov)) (h : computeBytes gcno gcdas br = ok r) :
    ∃ v c recs g, readGcno gcno = ok (v, c, recs) ∧ build v c recs = ok g ∧
      (∀ bs ∈ gcdas, (parseGcda bs).isSome = true) ∧
      compute g (gcdas.filterMap parseGcda) br = ok r :=
  computeBytes_ok h

/-- Bytes: line set, function set and branch slots are the same for every accepted list of gcda
buffers (including none) with the same notes buffer. -/
theorem C15_bytes_structure_independent_of_gcda (gcno : List Nat) (gcdas gcdas' : List (List Nat))
    (br : Bool) (r r' : List (Bytes × Cov)) (h : computeBytes gcno gcdas br = ok r)
    (h' : computeBytes gcno gcdas' br = ok r') : structOf r = structOf r' := by
  obtain ⟨v, c, recs, g, hg, hb, _, hc⟩ := computeBytes_ok h
  obtain ⟨v', c', recs', g', hg', hb', _, hc'⟩ := computeBytes_ok h'
  rw [hg] at hg'
  simp only [Outcome.ok.injEq, Prod.mk.injEq] at hg'
  obtain ⟨rfl, rfl, rfl⟩ := hg'
  rw [hb] at hb'
  simp only [Outcome.ok.injEq] at hb'
  subst hb'
  rw [compute_struct hc, compute_struct hc']

/-- Bytes: with no gcda buffer every line count is zero, no function is executed, no branch taken. -/
theorem C15_bytes_no_gcda_all_zero (gcno : List Nat) (br : Bool) (r : List (Bytes × Cov))
    (h : computeBytes gcno [] br = ok r) : NotRun r := by
  obtain ⟨v, c, recs, g, _, _, _, hc⟩ := computeBytes_ok h
  exact compute_nil_notRun hc

/-- Bytes: the result does not depend on the order of the gcda buffers. -/
theorem C15_bytes_order_independent (gcno : List Nat) (gcdas gcdas' : List (List Nat))
    (p : gcdas.Perm gcdas') (br : Bool) (r : List (Bytes × Cov))
    (h : computeBytes gcno gcdas br = ok r) : computeBytes gcno gcdas' br = ok r := by
  obtain ⟨v, c, recs, g, hg, hb, hd, hc⟩ := computeBytes_ok h
  have hd' : ∀ bs ∈ gcdas', (parseGcda bs).isSome = true := fun bs hbs => hd bs (p.mem_iff.2 hbs)
  rw [computeBytes_of_compute hg hb hd']
  exact compute_perm (p.filterMap parseGcda) hc

/-- Bytes: supplying the same gcda buffer k+1 times yields exactly (k+1) times the line counts of
supplying it once (same executed flags, same branch vectors). -/
theorem C15_bytes_k_copies (gcno bs : List Nat) (k : Nat) (br : Bool) (rk : List (Bytes × Cov))
    (h : computeBytes gcno (List.replicate (k + 1) bs) br = ok rk) :
    ∃ r1, computeBytes gcno [bs] br = ok r1 ∧ rk = scaleRes (k + 1) r1 := by
  obtain ⟨v, c, recs, g, hg, hb, hd, hc⟩ := computeBytes_ok h
  obtain ⟨d, hdd⟩ := Option.isSome_iff_exists.1 (hd bs (by simp))
  have e : ∀ n, (List.replicate n bs).filterMap parseGcda = List.replicate n d := by
    intro n
    induction n with
    | zero => rfl
    | succ n ih => rw [List.replicate_succ, List.filterMap_cons_some hdd, ih, List.replicate_succ]
  rw [e] at hc
  obtain ⟨r1, h1, h2⟩ := compute_replicate hc
  refine ⟨r1, ?_, h2⟩
  rw [computeBytes_of_compute hg hb (fun b hb' => by
    simp only [List.mem_singleton] at hb'; rw [hb', hdd]; rfl)]
  have : [bs].filterMap parseGcda = [d] := by
    rw [List.filterMap_cons_some hdd]; rfl
  rw [this]
  exact h1

/-- The record level never runs out of fuel and crashes only by overflow: `computeRecs` on record
streams without crash markers (the byte readers never emit one: `C14_gcno_read_never_crashes`,
`C14_gcda_read_never_crashes`) is a value, an error or the overflow crash. -/
theorem C15_records_terminate (v c : Nat) (recs : List NRec) (ds : List Gcda) (br : Bool)
    (hr : ∀ r ∈ recs, r.notCrash) (hd : ∀ d ∈ ds, ∀ r ∈ d.recs, r.notCrash) :
    computeRecs v c recs ds br ≠ .diverge ∧
    ∀ s, computeRecs v c recs ds br = .crash s → s = .overflow :=
  ⟨(computeRecs_sat v c hr ds br hd).ne_diverge,
   fun s h => Classical.byContradiction fun hs => (computeRecs_sat v c hr ds br hd).ne_crash hs h⟩

/-! ### the hypotheses are satisfiable: closed files (`tinyGcno`, `tinyGcda`, `loopGcno`) -/

example : (parseGcda (tinyGcda 1 0)).isSome = true := by decide +kernel
example : (computeBytes tinyGcno [tinyGcda 1 0, tinyGcda 2 0] true).isOk = true := by decide +kernel
example : lineOf (computeBytes loopGcno [loopGcda, loopGcda, loopGcda] true) 5 = some 12 := by
  decide +kernel
example : lineOf (computeBytes loopGcno [] true) 5 = some 0 := by decide +kernel

end Grcov.Props.C15
