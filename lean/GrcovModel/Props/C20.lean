/-
C20 — coverage obtained through external tools. The LLVM half is decision logic that can be
stated outright over the `LlvmTools` model; the tools are parameters. The GCC half ("equals what
gcov itself prints") is a statement about an external program and is *checked* by the
correspondence run (generated C programs, gcc --coverage, gcov -b -c text read independently);
its Lean content is C09 (JSON fidelity) and C02 (exactly once), not repeated here.
-/
import GrcovModel.LlvmTools
import GrcovModel.Props.C01
import GrcovModel.Props.C20Consumer
import GrcovModel.Props.C20FindBin
namespace Grcov.Props.C20
open Grcov AList Grcov.LlvmTools

/-- Every profile path is handed to the merge tool exactly once: the lines of its stdin are the
profile list itself (paths contain no newline). -/
theorem C20_each_profile_once (profiles : List Bytes) (h : ∀ p ∈ profiles, 10 ∉ p) :
    lines (mergeStdin profiles) = profiles := lines_mergeStdin profiles h

theorem C20_profile_count (profiles : List Bytes) (h : ∀ p ∈ profiles, 10 ∉ p) (p : Bytes) :
    (lines (mergeStdin profiles)).count p = profiles.count p := by
  rw [lines_mergeStdin profiles h]

/-- One export result per binary whose export succeeded … -/
theorem C20_one_export_per_binary (bins : List Binary) :
    (exports bins).length = (bins.filter fun b => b.export_.isSome).length := by
  induction bins with
  | nil => rfl
  | cons b bs ih =>
    cases h : b.export_ <;> simp [exports, List.filterMap_cons, h] at ih ⊢ <;> exact ih

/-- … and a failing export of one binary does not suppress the others. -/
theorem C20_failure_is_isolated (bins : List Binary) (b : Binary) (hb : b ∈ bins) (r : Bytes)
    (hr : b.export_ = some r) : r ∈ exports bins := by
  simp only [exports, List.mem_filterMap]
  exact ⟨b, hb, hr⟩

/-- The report entry of a file is the C01 aggregation (left fold of `merge`) of exactly the file
records that the successful exports contain for it. -/
theorem C20_report_is_aggregate (branch : Bool) (bins : List Binary) (k : Key) :
    get? (report branch bins) k
      = foldInto none ((((exports bins).flatMap (contribution branch)).filter
          fun kc => kc.1 = k).map (·.2)) := by
  simpa [report] using get?_addResults id [] ((exports bins).flatMap (contribution branch)) k

/-- non-vacuity -/
example : lines (mergeStdin [[97, 47, 98], [99]]) = [[97, 47, 98], [99]] := by decide
example : exports [⟨[1], some [83]⟩, ⟨[2], none⟩, ⟨[3], some [84]⟩] = [[83], [84]] := by decide

end Grcov.Props.C20
