/-
C20 — coverage obtained through external tools. The LLVM half is decision logic that can be
stated outright over the `LlvmTools` model; the tools are parameters. The GCC half ("equals what
gcov itself prints") is a statement about an external program and is *checked* by the
correspondence run (generated C programs and multi-unit gcc/g++ programs, gcc --coverage,
gcov -b -c text read independently); its Lean content is C09 (JSON fidelity) and C02 (exactly once),
not repeated here.

"Handed to the profile-merge tool exactly once" is stated about what llvm-profdata READS
(`parseList`, a model of its list-file syntax taken from its source and tied to the real
llvm-profdata 14 by the harness), not about the lines grcov writes: since fix 4f2eb74 every line is
`1,<path>`, so commas, a leading '#' and leading blanks in a path are harmless. What still breaks
is stated with closed witnesses: a path that ENDS in a blank (llvm-profdata trims it), a line feed
in a path, a path that is not UTF-8 (`to_string_lossy`).

"Every executable is exported exactly once per merged profile" is stated over the LOG of tool
invocations of a whole run (`runLog`: several LLVM work items, each with its own merged profile),
which the harness records from the stand-in tools — including the content of the
`--instr-profile` file at the moment of each export.
-/
import GrcovModel.Lemmas.LlvmTools
import GrcovModel.Props.C01
import GrcovModel.Props.C20Consumer
import GrcovModel.Props.C20FindBin
import GrcovModel.Props.C20WorkDirs
import GrcovModel.Props.C20Llvm
import GrcovModel.Props.C20C19
namespace Grcov.Props.C20
open Grcov AList Grcov.LlvmTools

/-! ### every profile is handed to the merge tool exactly once -/

/-- Full statement: whatever the profile paths, llvm-profdata takes from grcov's list exactly the
profile paths, each with weight 1, in order. FALSE of the code (and of any line-based list). -/
def C20_merge_list_stmt : Prop :=
  ∀ ps : List Bytes, parseList (mergeStdin ps) = some (ps.map fun p => (1, p))

/-- Witness: the profile `a ` (trailing space) is looked up as `a`. -/
theorem C20_merge_list_false : ¬ C20_merge_list_stmt := by
  intro h
  have := h [[97, 32]]
  revert this
  decide

/-- For paths that are UTF-8, contain no line feed and do not END in a blank (space, \t, \v, \f,
\r) — commas, '#', leading and inner blanks allowed — llvm-profdata reads exactly the profile list,
every entry with weight 1: every profile exactly once. -/
theorem C20_merge_list_partial (ps : List Bytes) (h : ∀ p ∈ ps, ListSafe p) :
    parseList (mergeStdin ps) = some (ps.map fun p => (1, p)) := parseList_mergeStdin ps h

/-- The same, entry by entry: no entry is a comment, none has a bad weight. -/
theorem C20_each_profile_once (ps : List Bytes) (h : ∀ p ∈ ps, ListSafe p) :
    (entries (mergeStdin ps)).map parseEntry = ps.map fun p => EntryRes.file 1 p :=
  entries_parse_mergeStdin ps h

theorem C20_profile_count (ps : List Bytes) (h : ∀ p ∈ ps, ListSafe p) (p : Bytes) :
    ((parseList (mergeStdin ps)).getD []).count (1, p) = ps.count p := by
  rw [parseList_mergeStdin ps h, Option.getD_some]
  exact count_weight_one ps p

/-- Each clause of the guard is needed: a trailing blank is trimmed (a different file is looked
up), a line feed splits the path into two entries, a non-UTF-8 byte becomes U+FFFD. -/
theorem C20_merge_list_guard_witnesses :
    parseList (mergeStdin [[97, 9]]) = some [(1, [97])] ∧
    parseList (mergeStdin [[97, 10, 98]]) = some [(1, [97]), (1, [98])] ∧
    parseList (mergeStdin [[97, 255]]) = some [(1, [97, 239, 191, 189])] := by
  decide

/-- Regression (the list before fix 4f2eb74, finding C20-profile-path-with-comma): a comma in a
path ended llvm-profdata ("input weight must be a positive integer": all LLVM coverage lost), a
path starting with '#' was silently skipped as a comment, leading blanks were trimmed. The same
three paths are read correctly from the list written today. -/
theorem C20_merge_list_old_format_witnesses :
    parseList (mergeStdinOld [[97, 44, 98]]) = none ∧
    parseList (mergeStdinOld [[35, 97], [99]]) = some [(1, [99])] ∧
    parseList (mergeStdinOld [[32, 97]]) = some [(1, [97])] ∧
    parseList (mergeStdin [[97, 44, 98], [35, 97], [32, 97]])
      = some [(1, [97, 44, 98]), (1, [35, 97]), (1, [32, 97])] := by
  decide

/-- A weight is decimal digits only, at least 1, within 64 bits (`getAsInteger(10, uint64_t)`). -/
theorem C20_list_weight_syntax :
    parseEntry [51, 44, 120] = .file 3 [120] ∧ parseEntry [48, 44, 120] = .badWeight ∧
    parseEntry [43, 49, 44, 120] = .badWeight ∧ parseEntry [49, 32, 44, 120] = .badWeight ∧
    parseEntry [44, 120] = .badWeight ∧ parseEntry [32, 35, 120] = .comment ∧
    parseEntry [49, 44, 97, 44, 98] = .file 1 [97, 44, 98] ∧
    parseEntry [49, 56, 52, 52, 54, 55, 52, 52, 48, 55, 51, 55, 48, 57, 53, 53, 49, 54, 49, 54, 44, 120]
      = .badWeight := by
  decide

/-! ### the tool log of a run -/

/-- One merge invocation per LLVM work item, in item order, each fed that item's list. -/
theorem C20_merge_once_per_item (t : Tools) (bins : List Bytes) (items : List (List Bytes)) :
    mergeLog (runLog t bins items) = items.map mergeStdin := mergeLog_run t bins items

/-- The export log of a run: for every item whose merge succeeded, every binary that
`find_binaries` returned, pointed at THAT item's merged profile — nothing else. -/
theorem C20_export_log (t : Tools) (bins : List Bytes) (items : List (List Bytes)) :
    exportLog (runLog t bins items) = (mergedItems t items).flatMap fun pd => bins.map (·, pd) :=
  exportLog_run t bins items

/-- Every binary `find_binaries` returned (it returns no path twice) is exported exactly once per
merged profile: as many export invocations name it as there are merges that succeeded. -/
theorem C20_export_once_per_merged_profile (t : Tools) (bins : List Bytes) (items : List (List Bytes))
    (hn : bins.Nodup) (b : Bytes) (hb : b ∈ bins) :
    ((exportLog (runLog t bins items)).filter fun e => decide (e.1 = b)).length
      = (mergedItems t items).length := by
  rw [exportLog_run, filter_fst_flatMap, count_eq_one_of_mem_nodup hn hb, Nat.mul_one]

/-- … and each of these exports reads the profile its own item merged: the pair (binary, merged
profile) occurs once for every item that merged to this profile, never for another content. -/
theorem C20_export_against_own_profile (t : Tools) (bins : List Bytes) (items : List (List Bytes))
    (hn : bins.Nodup) (b : Bytes) (hb : b ∈ bins) (pd : Bytes) :
    (exportLog (runLog t bins items)).count (b, pd) = (mergedItems t items).count pd := by
  rw [exportLog_run, count_flatMap_pairs, count_eq_one_of_mem_nodup hn hb, Nat.mul_one]

/-- A binary that was not returned is never exported. -/
theorem C20_export_only_found (t : Tools) (bins : List Bytes) (items : List (List Bytes))
    (e : Bytes × Bytes) (he : e ∈ exportLog (runLog t bins items)) :
    e.1 ∈ bins ∧ e.2 ∈ mergedItems t items := by
  rw [exportLog_run] at he
  obtain ⟨pd, hpd, hm⟩ := List.mem_flatMap.1 he
  obtain ⟨b, hb, rfl⟩ := List.mem_map.1 hm
  exact ⟨hb, hpd⟩

/-- A failing export of one binary does not suppress the others: the result of one call holds
what every binary's export printed, for every binary whose export succeeded. -/
theorem C20_failure_is_isolated_call (t : Tools) (bins : List Bytes) (ps : List Bytes) (pd : Bytes)
    (hm : merged t ps = some pd) (b : Bytes) (hb : b ∈ bins) (r : Bytes) (hr : t.export_ b pd = some r) :
    ∃ rs, (profilesToLcov t bins ps).2 = some rs ∧ r ∈ rs := by
  rw [profilesToLcov_result, hm]
  exact ⟨_, rfl, List.mem_filterMap.2 ⟨b, hb, hr⟩⟩

/-- A failing merge (tool error, bad list, missing profile) makes the call an `Err`: no export. -/
theorem C20_failed_merge_no_export (t : Tools) (bins : List Bytes) (ps : List Bytes)
    (hm : merged t ps = none) : profilesToLcov t bins ps = ([.merge (mergeStdin ps)], none) := by
  simp [profilesToLcov, hm]

/-- The report entry of a file after a run is the C01 aggregation of exactly the file records the
successful exports of all items contain for it. -/
theorem C20_report_run_is_aggregate (branch : Bool) (t : Tools) (bins : List Bytes)
    (items : List (List Bytes)) (k : Key) :
    get? (reportRun branch t bins items) k
      = foldInto none ((((runExports t bins items).flatMap (contribution branch)).filter
          fun kc => kc.1 = k).map (·.2)) := by
  simpa [reportRun, reportOf] using
    get?_addResults id [] ((runExports t bins items).flatMap (contribution branch)) k

/-! ### one call, binaries with canned exports (the first model of this property) -/

/-- One export result per binary whose export succeeded … -/
theorem C20_one_export_per_binary (bins : List Binary) :
    (exports bins).length = (bins.filter fun b => b.export_.isSome).length := by
  induction bins with
  | nil => rfl
  | cons b bs ih =>
    cases h : b.export_ <;> simp [exports, h] at ih ⊢ <;> exact ih

/-- … and a failing export of one binary does not suppress the others. -/
theorem C20_failure_is_isolated (bins : List Binary) (b : Binary) (hb : b ∈ bins) (r : Bytes)
    (hr : b.export_ = some r) : r ∈ exports bins := by
  simp only [exports, List.mem_filterMap]
  exact ⟨b, hb, hr⟩

/-- The report entry of a file is the C01 aggregation (left fold of `merge`) of exactly the file
records that the successful exports contain for it. -/
theorem C20_report_is_aggregate (branch : Bool) (bins : List Binary) (k : Key) :
    get? (report branch bins) k
      = foldInto none ((((exports bins).flatMap (contribution branch)).filter
          fun kc => kc.1 = k).map (·.2)) := by
  simpa [report, reportOf] using get?_addResults id [] ((exports bins).flatMap (contribution branch)) k

/-! ### the same program twice under --binary-path -/

/-- Full statement behind the title ("equals the toolchain's own account"): a program that is
present twice under `--binary-path` (its object file beside the linked executable, a hard link or
copy such as cargo's `target/debug/foo` and `deps/foo-<hash>`) — so that two exports print the same
lcov — is counted once. FALSE of the code: `find_binaries` returns every file that sniffs as an
application (`infer::is_app` accepts `ET_REL`), each is exported, every count doubles. -/
def C20_no_double_count_stmt : Prop :=
  ∀ (branch : Bool) (bins : List Binary),
    ∀ k, get? (report branch bins) k = get? (reportOf branch (dedup (exports bins))) k

/-- `SF:a / DA:1,1 / end_of_record` -/
def twinLcov : Bytes :=
  [83, 70, 58, 97, 10, 68, 65, 58, 49, 44, 49, 10, 101, 110, 100, 95, 111, 102, 95, 114, 101, 99, 111, 114, 100, 10]

/-- Witness: `p` and `p.o` both export `SF:a / DA:1,1`; the report says `DA:1,2`.
Finding C20-same-program-exported-twice. -/
theorem C20_no_double_count_false : ¬ C20_no_double_count_stmt := by
  intro h
  have := h false [⟨[112], some twinLcov⟩, ⟨[112, 46, 111], some twinLcov⟩] [97]
  revert this
  decide +kernel

/-- Provable part: when no two exports print the same bytes, nothing is counted twice. -/
theorem C20_no_double_count_partial (branch : Bool) (bins : List Binary) (h : (exports bins).Nodup) :
    report branch bins = reportOf branch (dedup (exports bins)) := by
  rw [dedup_of_nodup h]; rfl

/-! ### non-vacuity -/

-- names with a comma, a leading '#', a leading and an inner blank, and `é` are all safe
example : ∀ p ∈ [[97, 44, 98], [35, 97], [32, 97, 32, 98], [195, 169]], ListSafe p := by decide
example : parseList (mergeStdin [[97, 47, 98], [99]]) = some [(1, [97, 47, 98]), (1, [99])] := by decide
example : exports [⟨[1], some [83]⟩, ⟨[2], none⟩, ⟨[3], some [84]⟩] = [[83], [84]] := by decide

/-- two items (raw and indexed profiles), two binaries, the second fails against the first
profile: three exports in the log, each against its own item's profile -/
def exTools : Tools where
  merge l := some (l.flatMap (·.2))
  export_ b pd := if b = [2] ∧ pd = [120] then none else some (b ++ pd)

example : exportLog (runLog exTools [[1], [2]] [[[120]], [[121], [122]]])
    = [([1], [120]), ([2], [120]), ([1], [121, 122]), ([2], [121, 122])] := by decide
example : runExports exTools [[1], [2]] [[[120]], [[121], [122]]]
    = [[1, 120], [1, 121, 122], [2, 121, 122]] := by decide

end Grcov.Props.C20
