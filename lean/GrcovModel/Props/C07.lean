/-
C07 — always terminates; worker failure is neither a hang nor a silent success.
The same transition system as C02, now with faults (`fate x = die` kills the worker that picked
`x` up, `reject` is a parser error) and the `rxMain` parameter: `true` is the original code (main
keeps its own Receiver while waiting), `false` the repaired code.
-/
import GrcovModel.Lemmas.Pipeline
namespace Grcov.Props.C07
open Grcov.Pipeline

/-- The original code can hang: one worker, four inputs, the first one kills the worker; the
producer fills the queue and blocks forever on the third remaining item, `main` waits for the
producer. A closed witness: a run to a non-terminal state in which no step is enabled. -/
theorem C07_original_code_deadlocks :
    ∃ tr s, replay (fun x => if x = 1 then .die else .ok) (init 1 true [1, 2, 3, 4]) tr = some s
      ∧ terminal s = false ∧ stuck s = true :=
  ⟨[.prodSend, .recv 0, .finish 0, .prodSend, .prodSend], _, rfl, by decide, by decide⟩

/-- Repaired code (`rxMain = false`): no reachable non-terminal state is stuck – for every
worker count, item list, fault environment and interleaving. -/
theorem C07_no_deadlock (fate : Item → Fate) (n : Nat) (hn : 1 ≤ n) (items : List Item)
    (tr : List Step) (s : State) (h : Run fate (init n false items) tr s)
    (ht : terminal s = false) : ∃ st ∈ allSteps s, enabled s st = true := by
  have hi := run_stopInv h (stopInv_init n false items)
  have hnn := run_n h
  exact progress s hi (by simpa [init] using hnn.2) (by simpa [init, hnn.1] using hn) ht

/-- Every run is finite: its length is bounded by a measure of the initial state that is linear
in the number of inputs and workers, so together with `C07_no_deadlock` every maximal run ends in
a terminal state (the process exits). -/
theorem C07_runs_are_finite (fate : Item → Fate) (n : Nat) (rx : Bool) (items : List Item)
    (tr : List Step) (s : State) (h : Run fate (init n rx items) tr s) :
    tr.length ≤ 3 * items.length + 6 * n + 4 := by
  have := run_length_le_mu h
  have hm : mu (init n rx items) = 3 * items.length + 1 + 2 * n + (4 * n + 3) := by
    have hs : ∀ k : Nat, ((List.replicate k W.idle).map wWeight).sum = 2 * k := by
      intro k; induction k with
      | zero => rfl
      | succ k ih => simp [List.replicate_succ, wWeight] at ih ⊢; omega
    simp [mu, init, mainWeight, wWeight]; omega
  omega

/-- non-vacuity of the repaired behaviour on the deadlock scenario: the same inputs and fault now
end with exit code 1 -/
example : ∃ s, replay (fun x => if x = 1 then .die else .ok) (init 1 false [1, 2, 3, 4])
    [.prodSend, .recv 0, .finish 0, .prodSend, .main] = some s ∧ s.mainPc = .done 1 := by
  refine ⟨_, rfl, ?_⟩; decide

end Grcov.Props.C07
