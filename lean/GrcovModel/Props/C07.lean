/-
C07 — always terminates; worker failure is neither a hang nor a silent success.
The same transition system as C02, now with faults (`fate x = die` kills the worker that picked
`x` up, `reject` is a parser error; the environment may besides inject `workerDies w` – a consumer
thread panics wherever it is: before its loop, idle, parsing, waiting for or holding the
result-map mutex – and `prodDies` – the producer thread panics for a reason other than a failed
send) and the `rxMain` parameter: `true` is the original code (main
keeps its own Receiver while waiting), `false` the repaired code.
-/
import GrcovModel.Props.C02
import GrcovModel.Lemmas.PipelineExit
namespace Grcov.Props.C07
open Grcov.Pipeline

/-- The original code can hang: one worker, four inputs, the first one kills the worker; the
producer fills the queue and blocks forever on the third remaining item, `main` waits for the
producer. A closed witness: a run to a non-terminal state in which no step is enabled. -/
theorem C07_original_code_deadlocks :
    ∃ tr s, replay (fun x => if x = 1 then .die else .ok) (fun _ => 1) (init 1 true [1, 2, 3, 4]) tr = some s
      ∧ terminal s = false ∧ stuck (fun _ => 1) s = true :=
  ⟨[.prodSend, .recv 0, .parsed 0, .prodSend, .prodSend], _, rfl, by decide, by decide⟩

/-- Repaired code (`rxMain = false`): no reachable non-terminal state is stuck – for every
worker count (0 included: then the first send fails and the process exits with 1), item list,
fault environment and interleaving, **including the injected faults**: a producer that panics at
any point (`prodDies`) and a worker that panics at any point – before its loop, idle, parsing,
waiting for or holding the result-map mutex (`workerDies`). The enabled step found is never a
fault step (`allSteps` lists only the program's own steps): the program itself can always go on. -/
theorem C07_no_deadlock (fate : Item → Fate) (size : Item → Nat) (n : Nat) (items : List Item)
    (tr : List Step) (s : State) (h : Run fate size (init n false items) tr s)
    (ht : terminal s = false) : ∃ st ∈ allSteps s, enabled size s st = true := by
  have hi := run_stopInv h (stopInv_init n false items)
  have hm := run_mutexInv h (mutexInv_init n false items)
  have hnn := run_n h
  exact progress size s hi hm (by simpa [init] using hnn.2) ht

/-- Every run is finite, fault steps included: its length is bounded by a measure of the initial
state that is linear in the number of inputs, the sizes of their batches and the number of
workers, so together with `C07_no_deadlock` every maximal run ends in a terminal state (the
process exits). -/
theorem C07_runs_are_finite (fate : Item → Fate) (size : Item → Nat) (n : Nat) (rx : Bool) (items : List Item)
    (tr : List Step) (s : State) (h : Run fate size (init n rx items) tr s) :
    tr.length ≤ (items.map fun x => size x + 8).sum + 6 * n + 4 := by
  have := run_length_le_mu h
  have hm : mu size (init n rx items) = (items.map fun x => size x + 8).sum + 1 + 2 * n + (4 * n + 3) := by
    have hs : ∀ k : Nat, ((List.replicate k W.idle).map (wWeight size)).sum = 2 * k := by
      intro k; induction k with
      | zero => rfl
      | succ k ih => simp [List.replicate_succ, wWeight] at ih ⊢; omega
    simp [mu, init, mainWeight, wWeight]; omega
  omega

/-- If a worker thread died, the process cannot end with status 0 (it ends with a non-zero status
as soon as it terminates, which `C07_no_deadlock` and `C07_runs_are_finite` guarantee). -/
theorem C07_dead_worker_nonzero_exit (fate : Item → Fate) (size : Item → Nat) (n : Nat) (hn : 1 ≤ n) (rx : Bool)
    (items : List Item) (tr : List Step) (s : State) (h : Run fate size (init n rx items) tr s)
    (j : Nat) (hj : s.workers.getD j .idle = .dead) : s.mainPc ≠ .done 0 := by
  intro hd
  have hi := run_flowInv h (flowInv_init fate n rx items)
  have hnn : s.n = n := (run_n h).1
  have hlen := hi.stop.1
  by_cases hjl : j < s.workers.length
  · have := hi.joined j (by rw [hd]; simp only; omega)
    rw [this] at hj; cases hj
  · rw [List.getD_eq_getElem?_getD, List.getElem?_eq_none (Nat.le_of_not_lt hjl)] at hj
    simp at hj

/-- A rejected input contributes nothing and loses nothing else: at exit 0 the merged items are
exactly the inputs whose parse succeeds (as a multiset), whatever was rejected. -/
theorem C07_rejected_contribute_nothing (fate : Item → Fate) (size : Item → Nat) (n : Nat) (hn : 1 ≤ n) (rx : Bool)
    (items : List Item) (tr : List Step) (s : State) (h : Run fate size (init n rx items) tr s)
    (hd : s.mainPc = .done 0) (x : Item) (hx : fate x = .ok) :
    s.merged.count x = items.count x := by
  obtain ⟨hp, _, hr⟩ := Grcov.Props.C02.C02_exactly_once fate size n hn rx items tr s h hd
  have hc := hp.count_eq x
  rw [List.count_append] at hc
  have : s.rejected.count x = 0 := by
    rw [List.count_eq_zero]; intro hm; have := hr x hm; rw [hx] at this; cases this
  omega

/-- non-vacuity of the repaired behaviour on the deadlock scenario: the same inputs and fault now
end with exit code 1 -/
example : ∃ s, replay (fun x => if x = 1 then .die else .ok) (fun _ => 1) (init 1 false [1, 2, 3, 4])
    [.prodSend, .recv 0, .parsed 0, .prodSend, .main] = some s ∧ s.mainPc = .done 1 := by
  refine ⟨_, rfl, ?_⟩; decide

/-- … and at the level of the report (composition with the aggregation model, C01): each file
record of the result map is observably the record that a single sequential pass over the
*accepted* inputs produces – "the coverage reported for all other inputs is exactly what it would
be without" the rejected ones – for every thread count, fault environment and interleaving. -/
theorem C07_report_without_rejected (canon : Grcov.Key → Grcov.Key)
    (contents : Item → List (Grcov.Key × Grcov.Cov))
    (hwf : ∀ i, ∀ kc ∈ contents i, kc.2.WF) (fate : Item → Fate) (size : Item → Nat) (n : Nat) (hn : 1 ≤ n) (rx : Bool)
    (items : List Item) (tr : List Step) (s : State) (h : Run fate size (init n rx items) tr s)
    (hd : s.mainPc = .done 0) (k : Grcov.Key) :
    Grcov.Report.ObsEqOpt (Grcov.AList.get? (Grcov.Report.reportOf canon contents s.merged) k)
      (Grcov.AList.get? (Grcov.Report.reportOf canon contents (items.filter fun x => fate x = .ok)) k) :=
  Grcov.Props.C02.C02_report_without_rejected canon contents hwf fate size n hn rx items tr s h hd k

/-- The converse of `C07_dead_worker_nonzero_exit`: if no input kills its worker (inputs may still
be rejected) and the trace contains none of the injected faults `prodDies` / `workerDies`, every
run that reaches an exit status reaches status 0 – for every thread count and interleaving.
Together: the process ends with a non-zero status iff a worker or the producer died, and
`C07_no_deadlock` + `C07_runs_are_finite` say it always ends. Without this theorem the report
theorems, which assume `mainPc = done 0`, could be vacuous. -/
theorem C07_no_death_exit_zero (fate : Item → Fate) (size : Item → Nat) (hnd : ∀ x, fate x ≠ .die) (n : Nat)
    (hn : 1 ≤ n) (rx : Bool) (items : List Item) (tr : List Step) (s : State)
    (h : Run fate size (init n rx items) tr s) (hnf : ∀ st ∈ tr, st.isFault = false)
    (c : Nat) (hd : s.mainPc = .done c) : c = 0 :=
  no_die_exit0 fate size hnd n hn rx items tr s h hnf c hd

/-- A producer that died – by a failed send or by any other panic (`prodDies`) – never lets the
process end with status 0: `main` exits with 1 at the join. -/
theorem C07_dead_producer_nonzero_exit (fate : Item → Fate) (size : Item → Nat) (n : Nat) (rx : Bool)
    (items : List Item) (tr : List Step) (s : State) (h : Run fate size (init n rx items) tr s)
    (hp : s.prodDead = true) : s.mainPc ≠ .done 0 := by
  intro hd
  have := prodDead_not_done0 h (by simp [init]) (flowInv_init fate n rx items)
  exact this hp hd

/-- A worker that died inside `add_results` (the result-map mutex is poisoned) never lets the
process end with status 0 either, so a half-written batch is never reported. -/
theorem C07_poisoned_nonzero_exit (fate : Item → Fate) (size : Item → Nat) (n : Nat) (rx : Bool)
    (items : List Item) (tr : List Step) (s : State) (h : Run fate size (init n rx items) tr s)
    (hp : s.poisoned = true) : s.mainPc ≠ .done 0 := by
  intro hd
  have hi := run_flowInv h (flowInv_init fate n rx items)
  obtain ⟨j, hj⟩ := hi.poisonDead hp
  have hjn : j < s.n := by
    by_cases hjl : j < s.workers.length
    · rw [← hi.stop.1]; exact hjl
    · rw [List.getD_eq_getElem?_getD, List.getElem?_eq_none (Nat.le_of_not_lt hjl)] at hj
      simp at hj
  have := hi.joined j (by rw [hd]; simp only; exact hjn)
  rw [this] at hj; cases hj

/-- After a death inside `add_results` the result map is never written again: a worker that comes
to take the poisoned mutex (`lock().unwrap()`) dies there – its item is lost, `merged` and the write
log stay as they are. -/
theorem C07_lock_after_poison_dies (fate : Item → Fate) (s : State) (w : Nat) (x : Item)
    (hp : s.poisoned = true) (hb : s.workers.getD w .exited = .batch x) :
    (step fate s (.lock w)).workers.getD w .exited = .dead ∧
    (step fate s (.lock w)).merged = s.merged ∧ (step fate s (.lock w)).log = s.log ∧
    (step fate s (.lock w)).lost = s.lost ++ [x] := by
  have hw : w < s.workers.length := getD_ne_default_lt (by rw [hb]; simp)
  simp only [step, hb, hp, if_true, and_true]
  exact getD_set_eq _ _ _ _ hw

/-- **After a death inside `add_results` the result map is frozen.** From a reachable state in which
the mutex is poisoned, no continuation of the run – any steps of any threads, any further faults –
writes another entry or lets another batch in: the half-written map stays as it is (and is never
reported: `C07_poisoned_nonzero_exit`), every worker that still comes to merge dies
(`C07_lock_after_poison_dies`). -/
theorem C07_no_write_after_poison (fate : Item → Fate) (size : Item → Nat) (n : Nat) (rx : Bool)
    (items : List Item) (tr tr' : List Step) (s s' : State) (h : Run fate size (init n rx items) tr s)
    (hp : s.poisoned = true) (h' : Run fate size s tr' s') :
    s'.log = s.log ∧ s'.merged = s.merged ∧ s'.poisoned = true :=
  run_frozen h' (run_mutexInv h (mutexInv_init n rx items))
    (run_poisonQuiet h (poisonQuiet_init n rx items)) hp

/-- The run the hooked binary logs for `GRCOV_VERIF_FAULT=panic_in_merge:Consumer_0 --threads 2` on
six inputs (tools/review_probes2/merge-pipe/real_binary_probes.sh §2; the `faults-in-merge` stream of
harness/c07 replays such logs through the trace validator): worker 0 dies holding the mutex, worker
1 dies on the poisoned mutex, the producer has finished, the first stop marker cannot be sent, and
`main` exits with status 1. With ONE thread the producer's next send fails instead. -/
example : ∃ s, replay (fun _ => .ok) (fun _ => 1) (init 2 false [1, 2, 3, 4, 5, 6])
    [.prodSend, .prodSend, .prodSend, .recv 1, .recv 0, .prodSend, .prodSend, .prodSend,
     .parsed 0, .lock 0, .workerDies 0, .parsed 1, .lock 1, .prodExit, .main, .main, .main] = some s
    ∧ s.mainPc = .done 1 ∧ s.poisoned = true := by
  refine ⟨_, rfl, ?_, ?_⟩ <;> decide
example : ∃ s, replay (fun _ => .ok) (fun _ => 1) (init 1 false [1, 2, 3, 4])
    [.prodSend, .recv 0, .parsed 0, .lock 0, .prodSend, .workerDies 0, .prodSend, .main] = some s
    ∧ s.mainPc = .done 1 ∧ s.poisoned = true ∧ s.prodDead = true := by
  refine ⟨_, rfl, ?_, ?_, ?_⟩ <;> decide

/-- non-vacuity of the fault steps: a worker that panics before it ever receives anything (N = 2,
the other worker does all the work) ends the run with status 1 and every item merged; a producer
that panics after its last send ends it with status 1 as well. -/
example : ∃ s, replay (fun _ => .ok) (fun _ => 1) (init 2 false [1, 2])
    [.workerDies 0, .prodSend, .prodSend, .prodExit, .recv 1, .parsed 1, .lock 1, .mergeEntry 1, .unlock 1,
     .recv 1, .parsed 1, .lock 1, .mergeEntry 1, .unlock 1, .main, .main, .main, .recv 1, .main, .main] = some s
    ∧ s.mainPc = .done 1 ∧ s.merged = [1, 2] := by
  refine ⟨_, rfl, ?_, ?_⟩ <;> decide
example : ∃ s, replay (fun _ => .ok) (fun _ => 1) (init 1 false [1])
    [.prodSend, .prodDies, .recv 0, .main] = some s ∧ s.mainPc = .done 1 := by
  refine ⟨_, rfl, ?_⟩; decide

/-- … and such a run exists for every input list: from every reachable non-terminal state of the
repaired code some step is enabled and the measure decreases, so a maximal run ends in a terminal
state, whose status is then 0. Stated as: a reachable state without enabled step is terminal. -/
theorem C07_stuck_only_when_terminal (fate : Item → Fate) (size : Item → Nat) (n : Nat)
    (items : List Item) (tr : List Step) (s : State) (h : Run fate size (init n false items) tr s)
    (hs : ∀ st ∈ allSteps s, enabled size s st = false) : terminal s = true := by
  cases ht : terminal s with
  | true => rfl
  | false =>
    obtain ⟨st, hm, he⟩ := C07_no_deadlock fate size n items tr s h ht
    rw [hs st hm] at he; cases he

end Grcov.Props.C07
