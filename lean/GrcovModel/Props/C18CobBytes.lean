/-
C18 — reports stay well-formed, part CobBytes: the Cobertura report as BYTES. The statements are
those of `Props/C03CobBytes.lean` read for C18: the report `output_cobertura` writes is well-formed
XML (a reader that follows XML 1.0 accepts it), its attribute values and its character data decode
to the exact names, and its element / attribute structure does not depend on any name — for all
names without control characters (C18's quantifier: printable characters), however hostile.
-/
import GrcovModel.Props.C03CobBytes
namespace Grcov.Props.C18
open Grcov AList Grcov.Escape Grcov.Stats Grcov.Writers Grcov.Writers.CobAde Grcov.Writers.CobBytes

/-- The written report is accepted by the reader and read back as exactly the tree that was
written: every attribute value and every run of character data decodes to the exact name. -/
theorem C18_cobbytes_wellformed_exact_names (fill : Fill) (hfill : FillOk fill) (d : Doc)
    (hd : DocOk d) : xmlParse (reportBytes fill d) = some (conc fill [] (toXml d)) := by
  obtain ⟨hw, _, t, as, cs, he⟩ := doc_good fill hfill d hd
  unfold reportBytes
  rw [he] at hw ⊢
  exact xmlParse_xmlSerialize t as cs hw

/-- … for any tree over XML names, not only the cobertura vocabulary. -/
theorem C18_cobbytes_roundtrip (t : Bytes) (as : List (Bytes × Bytes)) (cs : List BXml)
    (h : wf (.elem t as cs) = true) :
    xmlParse (xmlSerialize (.elem t as cs)) = some (.elem t as cs) :=
  Grcov.Props.C03.C03_cobbytes_roundtrip t as cs h

/-- A hostile name cannot add (or remove) an element or an attribute: the structure the reader
finds, and the numbers of elements and attributes, are those of the abstract tree, in which names
occur only as values. -/
theorem C18_cobbytes_no_injection (fill : Fill) (hfill : FillOk fill) (d : Doc) (hd : DocOk d) :
    (xmlParse (reportBytes fill d)).map shape = some (xshape (toXml d)) ∧
    (xmlParse (reportBytes fill d)).map countElems = some (xshape (toXml d)).elems ∧
    (xmlParse (reportBytes fill d)).map countAttrs = some (xshape (toXml d)).attrs :=
  Grcov.Props.C03.C03_cobbytes_shape fill hfill d hd

/-- The guard is exact and lies outside the quantifier: a TAB in a name is read back as a blank
(quick-xml's `escape` copies it), a C0 control makes the report ill-formed, a CR in character data
is read back as LF. -/
theorem C18_cobbytes_controls_outside :
    ¬ Grcov.Props.C03.C03_cobbytes_any_value_stmt ∧
    xmlParse (xmlSerialize (.elem [97] [([107], [1])] [])) = none :=
  ⟨Grcov.Props.C03.C03_cobbytes_any_value_false, Grcov.Props.C03.C03_cobbytes_control_witnesses.1⟩

/-- non-vacuity: the hostile witness of `Props/C03CobBytes.lean` -/
example : xmlParse (reportBytes Grcov.Props.C03.witFill
      (coberturaDoc (some [93, 93, 62]) Grcov.Props.C03.witHostile))
    = some (conc Grcov.Props.C03.witFill [] (toXml (coberturaDoc (some [93, 93, 62]) Grcov.Props.C03.witHostile))) :=
  C18_cobbytes_wellformed_exact_names _ (fun _ _ => by show attrOk [48, 46, 53] = true; decide) _
    (by rw [Grcov.Props.C03.C03_cobbytes_docOk_iff]; decide)

end Grcov.Props.C18
