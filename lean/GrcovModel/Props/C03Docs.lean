/-
C03 — report fidelity, part Docs: the document structure of the Coveralls(+), covdir, files,
Markdown and HTML writers (`Writers/Docs.lean`): which file ends up where in the document, with
which lines, branches and functions; none added, dropped, duplicated or attributed to another
file. Where the unchanged code loses data the negation is proved from a closed witness and the
`…_partial` theorem carries exactly the violated guard:

* coveralls: a file whose highest line is 2^32-1 makes the writer panic (overflow checks) or lose
  every line of that file (release build): `C03_coveralls_last_line_false` / `…_doc_partial`;
* covdir: two results filed under the same path, or a file whose path is a directory of another
  result, collide in the `children` JSON object: `C03_covdir_collision_false` /
  `C03_covdir_file_found_partial`; what the document holds in general is `C03_covdir_document`.
-/
import GrcovModel.Lemmas.WritersDocs
import GrcovModel.Lemmas.LcovUtf8
import GrcovModel.Lemmas.StatsListed
import GrcovModel.Props.C05
namespace Grcov.Props.C03
open Grcov AList Grcov.Writers Grcov.Writers.Docs Grcov.UPath

/-! ## Coveralls / Coveralls+ -/

/-- the guard the coveralls writer needs: no file's highest line is 2^32-1 -/
def CvGuard (rs : List Res) : Prop := ∀ r ∈ rs, lastKey r.cov.lines < U32MAX

/-- Under the guard the writer produces one `source_files` object per result, in the order of the
results, each named by the rel path of ITS result: none added, dropped, duplicated or renamed;
both build modes, both variants. -/
theorem C03_coveralls_doc_partial (oc plus : Bool) (rs : List Res) (g : CvGuard rs) :
    coverallsDoc oc plus rs = some (rs.map (cvFileOk plus)) ∧
    (rs.map (cvFileOk plus)).map (·.name) = rs.map (·.rel) :=
  ⟨mapM_eq_some_map _ _ rs (fun r hr => cvFile_ok oc plus r (g r hr)), by simp [cvFileOk, List.map_map]⟩

/-- Reading the `coverage` array of a file back (position i ↦ line i+1, null = not instrumented)
gives exactly the instrumented lines ≥ 1 with their counts, whatever their size; line 0 (which no
parser produces) is the only line the format cannot carry. -/
theorem C03_coveralls_lines (plus : Bool) (r : Res) (l : Nat) :
    get? (decodeFrom 1 (cvFileOk plus r).coverage) l = if l = 0 then none else get? r.cov.lines l := by
  have := get?_decode_coverage r.cov.lines l
  rwa [cvCoverage_last] at this

/-- The flat `branches` array is a list of (line, 0, n, taken) quadruples which rebuilds every
branch vector of the file (and nothing else). -/
theorem C03_coveralls_branch_vectors (plus : Bool) (r : Res) (hb : NodupKeys r.cov.branches) :
    ∃ recs, unquads (cvFileOk plus r).branches = some recs ∧
      ∀ l, Lcov.vecAt (Lcov.brdaFold [] recs) l = Lcov.vecAt r.cov.branches l :=
  ⟨_, unquads_quads r.cov.branches, fun l => Grcov.Props.C05.C05_branches_roundtrip_partial _ hb l⟩

/-- coveralls+ carries every function with its name, start line and executed flag, in the order
the table is listed (the writer lists it by name, under the demangled names:
`C03_demangle_coveralls_bytes`), and nothing else; plain coveralls carries no `functions` key. -/
theorem C03_coveralls_functions (r : Res) :
    ((cvFileOk true r).functions.map uncvFns = some r.cov.functions) ∧
    (cvFileOk false r).functions = none :=
  ⟨by simp [cvFileOk, uncvFns_cvFns], rfl⟩

def C03_coveralls_last_line_stmt : Prop :=
  ∀ (plus : Bool) (r : Res), (∀ kv ∈ r.cov.lines, 1 ≤ kv.1 ∧ kv.1 ≤ U32MAX) →
    ∃ f, cvFile true plus r = some f ∧ ∀ l, 1 ≤ l → get? (decodeFrom 1 f.coverage) l = get? r.cov.lines l

/-- … and without the guard it is false: a file whose highest instrumented line is 2^32-1 (a legal
u32 line number) makes `last + 1` overflow: the writer panics with overflow checks on … -/
theorem C03_coveralls_last_line_false : ¬ C03_coveralls_last_line_stmt := by
  intro h
  obtain ⟨f, hf, _⟩ := h false ⟨[], [97], { lines := [(4294967295, 1)] }⟩ (by decide)
  have : cvFile true false ⟨[], [97], { lines := [(4294967295, 1)] }⟩ = none :=
    cvFile_panic false _ (by decide)
  rw [this] at hf; cases hf

/-- … and in a release build the loop `1..end` is empty: every line of that file is dropped. -/
theorem C03_coveralls_last_line_release (plus : Bool) (r : Res) (h : U32MAX ≤ lastKey r.cov.lines) :
    (cvFile false plus r).map (·.coverage) = some [] := cvFile_wrap plus r h

/-- the panic happens exactly when the guard fails -/
theorem C03_coveralls_panic_iff (plus : Bool) (rs : List Res) :
    coverallsDoc true plus rs = none ↔ ∃ r ∈ rs, U32MAX ≤ lastKey r.cov.lines := by
  constructor
  · intro h
    apply Classical.byContradiction
    intro hne
    have g : CvGuard rs := fun r hr => by
      apply Classical.byContradiction; intro hlt; exact hne ⟨r, hr, by omega⟩
    rw [(C03_coveralls_doc_partial true plus rs g).1] at h; cases h
  · rintro ⟨r, hr, hl⟩
    exact mapM_eq_none_of_mem _ rs r hr (cvFile_panic plus r hl)

example : coverallsDoc true true [⟨[47, 97], [97], { lines := [(1, U64MAX), (3, 0)], branches := [(3, [true, false])], functions := [([102], ⟨1, true⟩)] }⟩] =
    some [⟨[97], [some U64MAX, none, some 0], [3, 0, 0, 1, 3, 0, 1, 0], some [⟨[102], 1, true⟩]⟩] := by decide

/-! ## covdir -/

/-- The covdir document is the tree of the placed results: `covdirTree` succeeds iff every result
can be placed (its path has a file name and only named directories; with overflow checks, no
line 0), and then it is `build` of the placements in the order of the results. -/
theorem C03_covdir_tree (oc : Bool) (rs : List Res) (t : Docs.Tree) :
    covdirTree oc rs = some t ↔ ∃ ps, rs.mapM (cdPlaced oc) = some ps ∧ t = build ps := by
  unfold covdirTree
  cases rs.mapM (cdPlaced oc) with
  | none => simp
  | some ps => simp [eq_comm]

/-- What the document holds, for ALL result sets: following the names `q` through the `children`
objects from the top node reaches a directory iff `q` is empty or a prefix of the directory chain
of some placed file; otherwise it reaches the coverage array of the LAST file placed at exactly
`q`, if any; otherwise nothing. -/
theorem C03_covdir_document (ps : List ((List Name × Name) × List Int)) (q : List Name) :
    (build ps).lookupK q =
      if q = [] ∨ ps.any (fun p => decide (q <+: p.1.1)) = true then some none
      else (ps.reverse.find? (fun p => decide (full p = q))).map fun p => some p.2 :=
  lookupK_build ps q

/-- No file is invented and no coverage is attributed to another file: every file leaf of the
document is one of the placed results, at its own path, with its own coverage array. -/
theorem C03_covdir_leaf_origin (ps : List ((List Name × Name) × List Int)) (q : List Name)
    (a : List Int) (h : (build ps).lookupK q = some (some a)) : ∃ p ∈ ps, full p = q ∧ p.2 = a := by
  rw [lookupK_build] at h
  split at h
  · cases h
  · cases hf : ps.reverse.find? (fun p => decide (full p = q)) with
    | none => simp [hf] at h
    | some p =>
      simp [hf] at h
      have hm := List.mem_of_find?_eq_some hf
      have hp := List.find?_some hf
      exact ⟨p, by simpa using hm, by simpa using hp, h⟩

/-- the guard the covdir writer needs: placements pairwise distinct, and no file's full path is a
(prefix of a) directory chain of another result -/
structure CdGuard (ps : List ((List Name × Name) × List Int)) : Prop where
  distinct : (ps.map (·.1)).Nodup
  noFileDir : ∀ p ∈ ps, ∀ p' ∈ ps, ¬ full p <+: p'.1.1

/-- Under the guard every result is found at its own path, as a file leaf with exactly its
coverage array (`covdirArray` of its lines): none is dropped or replaced. -/
theorem C03_covdir_file_found_partial (ps : List ((List Name × Name) × List Int)) (g : CdGuard ps)
    (p : (List Name × Name) × List Int) (hp : p ∈ ps) :
    (build ps).lookupK (full p) = some (some p.2) := by
  rw [lookupK_build]
  have h1 : ¬ (full p = [] ∨ ps.any (fun p' => decide (full p <+: p'.1.1)) = true) := by
    rintro (h | h)
    · simp [full] at h
    · simp only [List.any_eq_true, decide_eq_true_eq] at h
      obtain ⟨p', hp', hpre⟩ := h
      exact g.noFileDir p hp p' hp' hpre
  simp only [h1, if_false]
  cases hf : ps.reverse.find? (fun p' => decide (full p' = full p)) with
  | none =>
    rw [List.find?_eq_none] at hf
    have := hf p (by simpa using hp)
    simp at this
  | some p' =>
    have hm : p' ∈ ps := by simpa using List.mem_of_find?_eq_some hf
    have he : full p' = full p := by simpa using List.find?_some hf
    have : p' = p := eq_of_nodup_map_fst g.distinct hm hp (full_injective he)
    simp [this]

/-- the same on result sets: every result of a guarded set is found under the names of its path
with `covdirArray` of its own lines -/
theorem C03_covdir_results_partial (oc : Bool) (rs : List Res) (t : Docs.Tree) (ps : List _)
    (hps : rs.mapM (cdPlaced oc) = some ps) (ht : covdirTree oc rs = some t) (g : CdGuard ps)
    (r : Res) (hr : r ∈ rs) :
    ∃ ds f, cdPlace (cdPath r) = some (ds, f) ∧
      t.lookupK (ds ++ [f]) = some (some (covdirArray r.cov.lines)) := by
  obtain ⟨p, hp, hrp⟩ := mapM_some_mem_left _ rs ps hps r hr
  have htb : t = build ps := by
    unfold covdirTree at ht; rw [hps] at ht; simpa [eq_comm] using ht
  unfold cdPlaced at hrp
  cases hpl : cdPlace (cdPath r) with
  | none => simp [hpl] at hrp
  | some pl =>
    simp only [hpl] at hrp
    split at hrp
    · cases hrp
    · obtain ⟨ds, f⟩ := pl
      simp only [Option.some.injEq] at hrp
      subst hrp
      exact ⟨ds, f, rfl, htb ▸ C03_covdir_file_found_partial ps g _ hp⟩

/-- the guard is the one C13's report-level sums need (`Stats.PGuard` on the same placements) -/
theorem C03_covdir_guard_is_C13_guard (ps : List ((List Name × Name) × List Int)) :
    CdGuard ps ↔ Grcov.Stats.PGuard (ps.map (·.1)) := by
  constructor
  · intro g
    refine ⟨g.distinct, ?_⟩
    intro p hp p' hp'
    obtain ⟨q, hq, rfl⟩ := List.mem_map.mp hp
    obtain ⟨q', hq', rfl⟩ := List.mem_map.mp hp'
    exact g.noFileDir q hq q' hq'
  · intro g
    exact ⟨g.distinct, fun p hp p' hp' =>
      g.noFileDir p.1 (List.mem_map.mpr ⟨p, hp, rfl⟩) p'.1 (List.mem_map.mpr ⟨p', hp', rfl⟩)⟩

def C03_covdir_found_stmt : Prop :=
  ∀ (ps : List ((List Name × Name) × List Int)) (p : (List Name × Name) × List Int), p ∈ ps →
    (build ps).lookupK (full p) = some (some p.2)

/-- … and without the guard it is false. Witness 1: results `a` and `a/b` (a file named like a
sibling directory): the directory object replaces the file object under the key "a", the lines of
`a` are gone. Witness 2: the same path twice: the later object replaces the earlier one. -/
theorem C03_covdir_collision_false : ¬ C03_covdir_found_stmt := by
  intro h
  have := h [(([], [97]), [5]), (([[97]], [98]), [7])] (([], [97]), [5]) (by simp)
  revert this; decide

theorem C03_covdir_duplicate_false :
    ¬ (∀ (ps : List ((List Name × Name) × List Int)) (p : (List Name × Name) × List Int),
        p ∈ ps → (∀ p' ∈ ps, ¬ full p <+: p'.1.1) → (build ps).lookupK (full p) = some (some p.2)) := by
  intro h
  have := h [(([], [97]), [5]), (([], [97]), [7])] (([], [97]), [5]) (by simp) (by decide)
  revert this; decide

/-- placing: a relative rel path is filed under its own components, an absolute one under "/" and
the components of the ABS path -/
example : cdPlace (cdPath ⟨[47, 120, 47, 97, 47, 98, 46, 99], [97, 47, 98, 46, 99], {}⟩) = some ([[97]], [98, 46, 99]) := by decide
example : cdPlace (cdPath ⟨[47, 120, 47, 98], [47, 122, 47, 98], {}⟩) = some ([[47], [120]], [98]) := by decide
/-- `.` and `..` components, "" and "/" make the writer panic -/
example : cdPlace [46, 47, 97] = none ∧ cdPlace [97, 47, 46, 46, 47, 98] = none ∧ cdPlace [] = none ∧ cdPlace [47] = none := by decide

example : (match covdirTree true [⟨[], [97, 47, 98], { lines := [(1, 5), (3, 0)] }⟩, ⟨[], [97, 47, 99], { lines := [(2, U64MAX)] }⟩, ⟨[], [100], {}⟩] with
    | some t => [t.lookupK [[97], [98]], t.lookupK [[97], [99]], t.lookupK [[97]], t.lookupK [[100]], t.lookupK [[101]]]
    | none => []) =
    [some (some [5, -1, 0]), some (some [-1, (U64MAX : Int)]), some none, some (some []), none] := by decide

example : CdGuard [(([[97]], [98]), [5]), (([[97]], [99]), [7]), (([], [100]), [])] :=
  ⟨by decide, by decide⟩

/-! ## files -/

/-- `-t files`: reading the output line by line gives exactly the rel paths of the results, one
per result, in order (paths do not contain a newline: they come from line-based or XML inputs). -/
theorem C03_files_list (rs : List Res) (h : ∀ r ∈ rs, 10 ∉ r.rel) :
    splitLines (filesBytes rs) = rs.map (·.rel) := splitLines_filesBytes rs h

example : splitLines (filesBytes [⟨[], [97, 47, 98], {}⟩, ⟨[], [99], {}⟩]) = [[97, 47, 98], [99]] := by decide

/-! ## Markdown -/

/-- The table has one row per result, in order, named by the rel path of ITS result, with
total = number of instrumented lines and covered = total − number of lines with count 0. -/
theorem C03_markdown_rows (rs : List Res) :
    (markdownRows rs).map (·.file) = rs.map (·.rel) ∧
    ∀ r ∈ rs, (markdownRow r).total = r.cov.lines.length ∧
      (markdownRow r).covered = r.cov.lines.length - (r.cov.lines.filter fun kv => kv.2 = 0).length := by
  refine ⟨by simp [markdownRows, markdownRow, List.map_map], fun r _ => ⟨rfl, ?_⟩⟩
  simp [markdownRow, formatLines_missed]

/-- The missed-line ranges of a file (lines in `BTreeMap` order, all ≥ 1):
(1) both ends of every printed range are missed (instrumented, count 0) lines, start ≤ end;
(2) no covered instrumented line lies inside a printed range (uninstrumented lines may: a range
    runs over gaps between consecutive missed lines);
(3) every missed line lies in a printed range, and (4) in only one: ranges are disjoint and
    ascending. -/
theorem C03_markdown_ranges (lines : List (Nat × Nat)) (hs : Sorted lines) (h1 : ∀ kv ∈ lines, 1 ≤ kv.1) :
    let R := (formatLines lines).2
    (∀ r ∈ R, (r.1, 0) ∈ lines ∧ (r.2, 0) ∈ lines ∧ r.1 ≤ r.2) ∧
    (∀ r ∈ R, ∀ kv ∈ lines, kv.2 ≠ 0 → ¬ (r.1 ≤ kv.1 ∧ kv.1 ≤ r.2)) ∧
    (∀ l, (l, 0) ∈ lines → ∃ r ∈ R, r.1 ≤ l ∧ l ≤ r.2) ∧
    (∀ r ∈ R, ∀ r' ∈ R, ∀ l, r.1 ≤ l ∧ l ≤ r.2 → r'.1 ≤ l ∧ l ≤ r'.2 → r = r') ∧
    R.Pairwise (fun a b => a.2 < b.1) := by
  intro R
  have hR : R = runs lines none := formatLines_runs lines (fun kv hkv => by have := h1 kv hkv; omega)
  have S := runs_spec lines none hs (by intro s e he; cases he)
  rw [← hR] at S
  have hends : ∀ r ∈ R, (r.1, 0) ∈ lines ∧ (r.2, 0) ∈ lines ∧ r.1 ≤ r.2 := fun r hr => by
    obtain ⟨h1, h2, h3⟩ := S.ends r hr
    refine ⟨?_, ?_, h1⟩
    · rcases h2 with ⟨e, he⟩ | h2
      · cases he
      · exact h2
    · rcases h3 with ⟨s, he⟩ | h3
      · cases he
      · exact h3
  exact ⟨hends, S.noCovered, fun l hl => S.covers (l, 0) hl rfl,
    fun r hr r' hr' l h h' => range_unique S.disjoint (fun x hx => (hends x hx).2.2) hr hr' h h', S.disjoint⟩

/-- the number the `covered` column is computed from is the number of lines with count 0 -/
theorem C03_markdown_missed_count (lines : List (Nat × Nat)) :
    (formatLines lines).1 = (lines.filter fun kv => kv.2 = 0).length := formatLines_missed lines

/-- a range runs over an uninstrumented gap (lines 3,4) but is cut by a covered line (6) -/
example : formatLines [(1, 0), (2, 0), (5, 0), (6, 3), (9, 0)] = (4, [(1, 5), (9, 9)]) := by decide
example : fmtRanges [(1, 5), (9, 9)] = "1-5, 9" := by decide
/-- line 0 (never produced by a parser) is the `start == 0` sentinel: counted, never printed -/
example : formatLines [(0, 0), (2, 1)] = (1, []) := by decide
example : Sorted [(1, 0), (2, 0), (5, 0), (6, 3), (9, 0)] := by unfold Sorted; decide

/-! ## HTML -/

/-- A result gets a page iff its rel path is relative and its source can be opened; the page has
one row per source line, carrying the line's count or "not instrumented" (`htmlCounts`). -/
theorem C03_html_page_iff (src : Path → Option Nat) (r : Res) :
    ((htmlEntry src r).isSome ↔ (isRelative r.rel = true ∧ (src r.abs).isSome)) ∧
    ∀ e, htmlEntry src r = some (some e) → ∃ n, src r.abs = some n ∧ e.rows = htmlCounts r.cov.lines n := by
  unfold htmlEntry
  cases hrel : isRelative r.rel <;> cases hsrc : src r.abs <;> simp
  intro e he
  split at he
  · simp only [Option.some.injEq] at he; subst he; rfl
  · cases he

/-- Every page is listed in the index of its directory (the parent string of its rel path), by
its file name; every such directory is a row of the global index; no row appears twice; and every
row of a directory index is the file name of a page of that directory. -/
theorem C03_html_index_rows (es : List HtmlEntry) :
    let s : HtmlSite := ⟨sitePages es, siteDirs es⟩
    (∀ e ∈ es, e.fname ∈ s.dirIndex e.parent ∧ e.parent ∈ s.globalIndex) ∧
    s.globalIndex.Nodup ∧ (∀ d, (s.dirIndex d).Nodup) ∧
    (∀ d f, f ∈ s.dirIndex d → ∃ e ∈ es, e.parent = d ∧ e.fname = f) := by
  intro s
  have hg : s.globalIndex = dedup (es.map (·.parent)) := by
    simp [s, HtmlSite.globalIndex, siteDirs, List.map_map, Function.comp_def]
  have hd : ∀ d, s.dirIndex d = if d ∈ es.map (·.parent) then dedup ((es.filter (·.parent = d)).map (·.fname)) else [] := by
    intro d
    simp only [s, HtmlSite.dirIndex, get?_siteDirs]
    split <;> rfl
  refine ⟨fun e he => ⟨?_, ?_⟩, ?_, ?_, ?_⟩
  · have : e.parent ∈ es.map (·.parent) := List.mem_map.mpr ⟨e, he, rfl⟩
    rw [hd, if_pos this, mem_dedup]
    exact List.mem_map.mpr ⟨e, by simp [he], rfl⟩
  · rw [hg, mem_dedup]; exact List.mem_map.mpr ⟨e, he, rfl⟩
  · rw [hg]; exact nodup_dedup _
  · intro d; rw [hd]; split
    · exact nodup_dedup _
    · exact List.nodup_nil
  · intro d f hf
    rw [hd] at hf
    split at hf
    · rw [mem_dedup] at hf
      obtain ⟨e, he, rfl⟩ := List.mem_map.mp hf
      simp only [List.mem_filter, decide_eq_true_eq] at he
      exact ⟨e, he.1, he.2, rfl⟩
    · simp at hf

/-- What the output directory holds, for ALL result sets: the page file at a destination holds the
rows of the LAST entry written there, and there is a page file only where some entry was written. -/
theorem C03_html_pages_document (es : List HtmlEntry) (d : List Name) :
    get? (sitePages es) d = (es.reverse.find? (fun x => decide (x.dest = d))).map (·.rows) := by
  unfold sitePages
  refine (get?_foldl_set (fun x : HtmlEntry => x.dest) (fun x => x.rows) es [] d).trans ?_
  cases es.reverse.find? (fun x => decide (x.dest = d)) <;> simp

/-- `add_html_ext` (after the fix b1b2416) appends ".html" to the whole file name, so two rel
paths made of `Normal` components go to the same page only if they are the same path. -/
theorem C03_html_dest_injective (rel rel' : Path) (d : List Name) (h : htmlDest rel = some d)
    (h' : htmlDest rel' = some d) (hn : AllNormal (components rel)) (hn' : AllNormal (components rel')) :
    components rel = components rel' := htmlDest_injective h h' hn hn'

/-- No page is replaced by another result's PAGE: for result sets whose relative rel paths are
normalised (only `Normal` components: what path rewriting produces; `.`/`..` are C19's subject)
and pairwise distinct as paths (`std::path` equality: "a/b" and "a//b" are one path), the last
write of `gen_html` to the destination of a result is that result's own. No further guard is
needed since the repair of `add_html_ext` (before it, `a` and `a.` shared `a..html`). -/
theorem C03_html_page_writes (src : Path → Option Nat) (rs : List Res) (es : List HtmlEntry)
    (h : entriesOf src rs = some es)
    (hn : ∀ r ∈ rs, isRelative r.rel = true → AllNormal (components r.rel))
    (hd : (rs.map fun r => components r.rel).Nodup) (e : HtmlEntry) (he : e ∈ es) :
    get? (sitePages es) e.dest = some e.rows := by
  have hL : rs.filterMap (htmlEntry src) = es.map some := mapM_id_some _ es h
  -- the destinations of the entries are pairwise distinct
  have hnd : ((rs.filterMap (htmlEntry src)).map (Option.map (·.dest))).Nodup := by
    refine nodup_filterMap_key (htmlEntry src) (Option.map (·.dest)) (fun r => components r.rel) rs ?_ hd
    intro r hr r' hr' y y' hy hy' hkey
    have hy_mem : y ∈ es.map some := by rw [← hL]; exact List.mem_filterMap.mpr ⟨r, hr, hy⟩
    have hy'_mem : y' ∈ es.map some := by rw [← hL]; exact List.mem_filterMap.mpr ⟨r', hr', hy'⟩
    obtain ⟨x, _, rfl⟩ := List.mem_map.mp hy_mem
    obtain ⟨x', _, rfl⟩ := List.mem_map.mp hy'_mem
    simp only [Option.map_some, Option.some.injEq] at hkey
    -- unfold the two entries
    have key : ∀ (r : Res) (x : HtmlEntry), htmlEntry src r = some (some x) →
        isRelative r.rel = true ∧ htmlDest r.rel = some x.dest := by
      intro r x hx
      unfold htmlEntry at hx
      cases hrel : isRelative r.rel with
      | false => simp [hrel] at hx
      | true =>
        cases hsrc : src r.abs with
        | none => simp [hrel, hsrc] at hx
        | some n =>
          simp only [hrel, hsrc, Bool.not_true, Bool.false_eq_true, if_false, Option.some.injEq] at hx
          cases hp : UPath.parent r.rel <;> cases hf : fileNameOf r.rel <;> cases hdst : htmlDest r.rel <;>
            simp only [hp, hf, hdst, Option.some.injEq, reduceCtorEq] at hx
          subst hx
          exact ⟨rfl, rfl⟩
    obtain ⟨hr1, hd1⟩ := key r x hy
    obtain ⟨hr2, hd2⟩ := key r' x' hy'
    exact htmlDest_injective hd1 (hkey ▸ hd2) (hn r hr hr1) (hn r' hr' hr2)
  rw [hL, List.map_map] at hnd
  have hnd' : (es.map (·.dest)).Nodup := by
    have : (es.map (·.dest)).map some = es.map (Option.map (·.dest) ∘ some) := by simp [List.map_map]
    exact nodup_of_map some (this ▸ hnd)
  rw [C03_html_pages_document]
  cases hf : es.reverse.find? (fun x => decide (x.dest = e.dest)) with
  | none =>
    rw [List.find?_eq_none] at hf
    have := hf e (by simpa using he)
    simp at this
  | some e' =>
    have hm : e' ∈ es := by simpa using List.mem_of_find?_eq_some hf
    have hdst : e'.dest = e.dest := by simpa using List.find?_some hf
    have key : ∀ (l : List HtmlEntry), (l.map (·.dest)).Nodup → ∀ x ∈ l, ∀ y ∈ l, x.dest = y.dest → x = y := by
      intro l
      induction l with
      | nil => intro _ x hx; simp at hx
      | cons a l ih =>
        intro hnd x hx y hy hxy
        simp only [List.map_cons, List.nodup_cons, List.mem_map, not_exists, not_and] at hnd
        simp only [List.mem_cons] at hx hy
        rcases hx with rfl | hx <;> rcases hy with rfl | hy
        · rfl
        · exact absurd hxy.symm (hnd.1 y hy)
        · exact absurd hxy (hnd.1 x hx)
        · exact ih hnd.2 x hx y hy hxy
    simp [key es hnd' e' hm e he hdst]

/-- the full statement about what is on disk when `output_html` returns -/
def C03_html_pages_stmt : Prop :=
  ∀ (src : Path → Option Nat) (rs : List Res) (es : List HtmlEntry), entriesOf src rs = some es →
    (∀ r ∈ rs, isRelative r.rel = true → AllNormal (components r.rel)) →
    (rs.map fun r => components r.rel).Nodup →
    ∀ e ∈ es, (HtmlSite.mk (sitePages es) (siteDirs es)).pageAt e.dest = some e.rows

/-- It is false since the fix b1b2416: the page of a source file named `index` (no extension) now
goes to `<dir>/index.html`, the very file `gen_dir_index` writes the index of `<dir>` to
afterwards (at the root: the global index): the page is lost and its index row links to the index
itself. (Before the fix it went to `index..html`, where no row linked.) Witness: `d/index`. -/
theorem C03_html_pages_false : ¬ C03_html_pages_stmt := by
  intro h
  have := h (fun _ => some 1) [⟨[47, 120], [100, 47, 105, 110, 100, 101, 120], { lines := [(1, 5)] }⟩]
    [⟨[[100], indexHtml], [100], indexName, [5]⟩] (by decide)
    (by
      intro r hr _
      simp only [List.mem_singleton] at hr; subst hr
      intro c hc
      have : components [100, 47, 105, 110, 100, 101, 120] = [.normal [100], .normal indexName] := by decide
      simp only [this, List.mem_cons, List.not_mem_nil, or_false] at hc
      rcases hc with rfl | rfl <;> exact ⟨_, rfl⟩)
    (by simp) ⟨[[100], indexHtml], [100], indexName, [5]⟩ (by simp)
  revert this; decide

/-- Under the guard that no source file is named `index`, every result that gets a page finds its
own rows in the page file at its destination when `output_html` has returned. -/
theorem C03_html_pages_partial (src : Path → Option Nat) (rs : List Res) (es : List HtmlEntry)
    (h : entriesOf src rs = some es)
    (hn : ∀ r ∈ rs, isRelative r.rel = true → AllNormal (components r.rel))
    (hd : (rs.map fun r => components r.rel).Nodup)
    (g : ∀ r ∈ rs, fileNameOf r.rel ≠ some indexName) (e : HtmlEntry) (he : e ∈ es) :
    (HtmlSite.mk (sitePages es) (siteDirs es)).pageAt e.dest = some e.rows := by
  have hL : rs.filterMap (htmlEntry src) = es.map some := mapM_id_some _ es h
  have hmem : some e ∈ rs.filterMap (htmlEntry src) := by rw [hL]; exact List.mem_map.mpr ⟨e, he, rfl⟩
  obtain ⟨r, hr, hre⟩ := List.mem_filterMap.mp hmem
  -- the entry's destination ends with its file name + ".html", and that name is not `index`
  have hshape : ∃ ns f, e.dest = ns ++ [f ++ dotHtml] ∧ f ≠ indexName := by
    unfold htmlEntry at hre
    cases hrel : isRelative r.rel with
    | false => simp [hrel] at hre
    | true =>
      cases hsrc : src r.abs with
      | none => simp [hrel, hsrc] at hre
      | some n =>
        simp only [hrel, hsrc, Bool.not_true, Bool.false_eq_true, if_false, Option.some.injEq] at hre
        cases hp : UPath.parent r.rel <;> cases hf : fileNameOf r.rel <;> cases hdst : htmlDest r.rel <;>
          simp only [hp, hf, hdst, Option.some.injEq, reduceCtorEq] at hre
        subst hre
        rename_i par f d
        obtain ⟨ns, hns⟩ := htmlDest_fileName hdst hf
        exact ⟨ns, f, hns, fun hfi => g r hr (by rw [hf, hfi])⟩
  obtain ⟨ns, f, hdst, hf⟩ := hshape
  unfold HtmlSite.pageAt
  rw [hdst, not_isIndexFile _ ns f hf, ← hdst]
  simpa using C03_html_page_writes src rs es h hn hd e he

/-- destinations after the fix: `f` ↦ `f.html`, `.hidden` ↦ `.hidden.html`, `a.` ↦ `a..html`
(its extension is `Some("")`), `x.html` ↦ `x.html.html` -/
example : htmlDest [102] = some [[102, 46, 104, 116, 109, 108]] ∧
    htmlDest [46, 104] = some [[46, 104, 46, 104, 116, 109, 108]] ∧
    htmlDest [97, 46] = some [[97, 46, 46, 104, 116, 109, 108]] ∧
    htmlDest [120, 47, 102, 46, 99] = some [[120], [102, 46, 99, 46, 104, 116, 109, 108]] := by decide
/-- "a/b" and "a//b" are one path for `std::path` and one page -/
example : htmlDest [97, 47, 98] = htmlDest [97, 47, 47, 98] ∧ components [97, 47, 98] = components [97, 47, 47, 98] := by decide
example : AllNormal (components [120, 47, 102, 46, 99]) := by
  intro c hc
  have : components [120, 47, 102, 46, 99] = [.normal [120], .normal [102, 46, 99]] := by decide
  rw [this] at hc; simp at hc; rcases hc with rfl | rfl <;> exact ⟨_, rfl⟩

def C03_html_global_index_stmt : Prop :=
  ∀ (es : List HtmlEntry), es ≠ [] →
    get? (HtmlSite.indexFiles ⟨sitePages es, siteDirs es⟩) [] = some (none, (siteDirs es).map (·.1))

/-- The global index FILE lists every directory only as long as no page lives at the root: the
index of the directory key "" is written to the same `index.html` afterwards and replaces it. -/
theorem C03_html_global_index_false : ¬ C03_html_global_index_stmt := by
  intro h
  have := h [⟨[[102, 46, 99, 46, 104, 116, 109, 108]], [], [102, 46, 99], []⟩] (by simp)
  revert this; decide

/-- under the guard "no directory key is written to the output root" the global index survives -/
theorem C03_html_global_index_partial (s : HtmlSite) (g : ∀ df ∈ s.dirs, dirLoc df.1 ≠ []) :
    get? s.indexFiles [] = some (none, s.globalIndex) := by
  unfold HtmlSite.indexFiles
  refine (get?_foldl_set (fun df : Path × List Name => dirLoc df.1) (fun df => (some df.1, df.2)) s.dirs _ []).trans ?_
  cases hf : s.dirs.reverse.find? (fun df => decide (dirLoc df.1 = [])) with
  | none => simp
  | some df =>
    have hm : df ∈ s.dirs := by simpa using List.mem_of_find?_eq_some hf
    have : dirLoc df.1 = [] := by simpa using List.find?_some hf
    exact absurd this (g df hm)

example : (match htmlPages (fun p => if p = [47, 97] then some 3 else none)
    [⟨[47, 97], [120, 47, 97, 46, 99], { lines := [(2, 7)] }⟩, ⟨[47, 98], [98, 46, 99], {}⟩, ⟨[47, 97], [47, 97, 46, 99], {}⟩] with
    | some s => (s.pages, s.dirs)
    | none => ([], [])) = ([([[120], [97, 46, 99, 46, 104, 116, 109, 108]], [-1, 7, -1])], [([120], [[97, 46, 99]])]) := by decide

/-! ## HTML page rows for arbitrary source bytes -/

/-- A page has one row per line of the source as `String::from_utf8_lossy(bytes).lines()` counts
them; row `i` carries the number `i+1`, the count of line `i+1` (or "not instrumented") and the
lossily decoded text of that line – for ANY source bytes (invalid UTF-8, NUL, BOM, CR LF, lone CR,
no final newline): nothing stops the page early. -/
theorem C03_html_rows_shape (src : List Nat) (lines : List (Nat × Nat)) :
    (htmlRows src lines).length = (lossyLines src).length ∧
    (∀ i : Nat, (htmlRows src lines)[i]? = ((lossyLines src)[i]?).map fun t => (⟨i + 1, entry lines (i + 1), t⟩ : HtmlRow)) ∧
    (htmlRows src lines).map (·.count) = htmlCounts lines (lossyLines src).length := by
  refine ⟨rowsFrom_length _ _ _, fun i => ?_, ?_⟩
  · have := rowsFrom_getElem? lines 1 (lossyLines src) i
    simpa [htmlRows, Nat.add_comm] using this
  · have := rowsFrom_counts lines 1 (lossyLines src)
    simpa [htmlRows, htmlCounts, Nat.add_comm] using this

/-- For every source with at least as many lines (counted that way) as the highest instrumented
line, EVERY instrumented line has its row, with its number, its exact count and its own text –
whatever bytes the source contains before, in or after that line. -/
theorem C03_html_rows_cover_all_lines (src : List Nat) (lines : List (Nat × Nat))
    (hlen : lastKey lines ≤ (lossyLines src).length) (l c : Nat) (hl : 1 ≤ l)
    (h : get? lines l = some c) :
    ∃ t, (lossyLines src)[l - 1]? = some t ∧ (htmlRows src lines)[l - 1]? = some ⟨l, (c : Int), t⟩ := by
  have hle : l ≤ lastKey lines := key_le_lastKey lines l (by simp [h])
  have hlt : l - 1 < (lossyLines src).length := by omega
  refine ⟨(lossyLines src)[l - 1], by simp [hlt], ?_⟩
  rw [(C03_html_rows_shape src lines).2.1 (l - 1)]
  have e : l - 1 + 1 = l := by omega
  simp [hlt, e, entry, h]

/-- a well-formed UTF-8 source is split as it is (no byte is replaced) -/
theorem C03_html_valid_source_lines (src : List Nat) (h : Lcov.validUtf8 src = true) :
    lossyLines src = strLines src := by
  unfold lossyLines; rw [Lcov.utf8Lossy_of_valid src h]

/-- CR LF and LF end a line, a lone CR does not, an invalid byte (0xE9 alone) becomes U+FFFD and
the lines after it are still there; the last line needs no newline -/
example : lossyLines [97, 13, 10, 98, 13, 99, 10, 0xE9, 100, 10, 0xFF, 10, 101] =
    [[97], [98, 13, 99], [0xEF, 0xBF, 0xBD, 100], [0xEF, 0xBF, 0xBD], [101]] := by decide
/-- a BOM stays in the first line; an empty line at the end counts; a final `\r` without `\n` stays -/
example : lossyLines [0xEF, 0xBB, 0xBF, 120, 10, 10] = [[0xEF, 0xBB, 0xBF, 120], []] ∧ lossyLines [120, 13] = [[120, 13]] ∧
    lossyLines [] = [] := by decide
example : (htmlRows [0xC3, 10, 0, 13, 10, 122] [(2, 7), (3, 0)]).map (fun r => (r.no, r.count)) = [(1, -1), (2, 7), (3, 0)] := by decide

end Grcov.Props.C03
