/-
C06, part `Cli` — sharding at the level of the command line. A shard tree over lcov INPUT FILES
(bytes); every inner node is one grcov run (`Cli.run`, GrcovModel/Cli.lean, tied to the real binary
by the shard trees of harness/c06) on the files of its two children, writing the lcov report the
parent reads; against the single run on all input files.
The run is `Cli.runJ` (`rewrite_paths` with the Java/Kotlin lookup; second review, item 26).
Guards (each is needed, see the witnesses): `--branch` on (`C06_reimport_without_branch_flag_false`);
every input lists a file once and its records are within the writer's bounds; and – the rewrite
idempotence guard, which subsumes the `keysRewriteInjectively` hypothesis of DESIGN 6.C06 – every
path occurring in an input is a FIXED PATH: filed by `add_results` under its key (with a source
dir: the canonical path of `source_dir/path` when that exists) it is reported as itself whatever
its data: the paths are already in reported form and no filter drops a file
(a `--filter` decides per shard on partial data; two spellings of one path are merged by the upper
stage but listed twice by the single run: `C06_cli_respelled_paths_witness`); with a source dir
no fixed path is a `.java`/`.kt` file (whose partial-path lookup depends on what else is in the
run). The path options are applied AT EVERY STAGE, shards included: `C06_cli_sharding_partial`
holds for any source dir / prefix dir under that guard, and `C06_cli_sharding_source_partial`
instantiates it for `-s S [-p S]` with the files on disk (second review, item 27).
The tree is binary here (a run on n files is the left fold of runs' `add_results`, `Rep.mergeReports`).
-/
import GrcovModel.Lemmas.LcovShards
import GrcovModel.Lemmas.Cli
namespace Grcov.Props.C06
open Grcov AList Grcov.Props.C01 Grcov.Lcov Grcov.Rewrite Grcov.Cli Grcov.Props.C06.Rep

namespace CliAux

/-! ### sorting does not change what a record says -/

theorem get?_perm_nodup {κ α : Type} [DecidableEq κ] (m m' : List (κ × α)) (p : m.Perm m')
    (hn : NodupKeys m) (k : κ) : get? m k = get? m' k := by
  have hn' : NodupKeys m' := by
    unfold NodupKeys keys at *; exact (p.map _).nodup_iff.mp hn
  cases hg : get? m k with
  | none =>
    have h1 : k ∉ keys m := (get?_eq_none_iff m k).mp hg
    have h2 : k ∉ keys m' := fun h => h1 (by unfold keys at *; exact (p.map _).mem_iff.mpr h)
    exact ((get?_eq_none_iff m' k).mpr h2).symm
  | some v => exact (get?_of_mem hn' (p.mem_iff.mp (mem_of_get? hg))).symm

theorem get?_sortByKey {α : Type} (m : List (Nat × α)) (hn : NodupKeys m) (k : Nat) :
    get? (sortByKey m) k = get? m k :=
  (get?_perm_nodup m (sortByKey m) (sortByKey_perm m).symm hn k).symm

theorem get?_sortFns (m : List (Name × Fn)) (hn : NodupKeys m) (k : Name) :
    get? (sortFns m) k = get? m k :=
  (get?_perm_nodup m (sortFns m) (sortFns_perm m).symm hn k).symm

theorem sortCov_wf (c : Cov) (h : c.WF) : (sortCov c).WF :=
  ⟨nodupKeys_sortByKey _ h.linesNodup, nodupKeys_sortByKey _ h.branchesNodup,
   nodupKeys_sortFns _ h.functionsNodup,
   fun kv hkv => h.countsFit kv ((sortByKey_perm c.lines).mem_iff.1 hkv)⟩

theorem sortCov_obs (c : Cov) (h : c.WF) : ObsEq (sortCov c) c :=
  ⟨fun l => get?_sortByKey _ h.linesNodup l, fun l => get?_sortByKey _ h.branchesNodup l,
   fun n => by show execOf (get? (sortFns c.functions) n) = _; rw [get?_sortFns _ h.functionsNodup]⟩

theorem sortCov_good (c : Cov) (h : Good c) : Good (sortCov c) :=
  ⟨sortCov_wf c h.1, fun l v hv => h.2 l v (by rw [← get?_sortByKey _ h.1.branchesNodup l]; exact hv)⟩

theorem sortCov_bounded (c : Cov) (hw : c.WF) (h : Bounded c) : Bounded (sortCov c) :=
  ⟨fun l n hg => h.lines l n (by rw [← get?_sortByKey _ hw.linesNodup l]; exact hg),
   fun l v hg => h.branches l v (by rw [← get?_sortByKey _ hw.branchesNodup l]; exact hg),
   fun n f hg => h.fns n f (by rw [← get?_sortFns _ hw.functionsNodup n]; exact hg)⟩

theorem norm_of_good (c : Cov) (h : Good c) : norm c = sortCov c := by
  unfold norm dropEmpty
  rw [nonEmptyVecs_good _ (sortCov_good c h)]

/-- a report as the next stage reads it: every record in line order -/
def sortR (r : Report) : Report := r.map fun pc => (pc.1, sortCov pc.2)

theorem keys_sortR (r : Report) : keys (sortR r) = keys r := by simp [sortR, keys]

theorem get?_sortR (r : Report) (k : Lcov.Bytes) : get? (sortR r) k = (get? r k).map sortCov := by
  induction r with
  | nil => rfl
  | cons pc r ih =>
    obtain ⟨k0, c⟩ := pc
    simp only [sortR, List.map_cons, get?_cons] at ih ⊢
    by_cases e : k0 = k
    · simp [e]
    · simp only [e, if_false]; exact ih

theorem repOK_sortR (r : Report) (h : RepOK r) : RepOK (sortR r) := by
  refine ⟨by unfold NodupKeys; rw [keys_sortR]; exact h.nodup, fun pc hpc => ?_⟩
  simp only [sortR, List.mem_map] at hpc
  obtain ⟨q, hq, rfl⟩ := hpc
  obtain ⟨h1, h2, h3, h4⟩ := h.recs q hq
  exact ⟨h1, h2, sortCov_good _ h3, sortCov_bounded _ h3.1 h4⟩

theorem covAt_sortR (r : Report) (h : RepOK r) (k : Lcov.Bytes) : ObsEq (covAt (sortR r) k) (covAt r k) := by
  unfold covAt
  rw [get?_sortR]
  cases hg : get? r k with
  | none => exact obsEq_refl _
  | some c => exact sortCov_obs c (h.recs (k, c) (mem_of_get? hg)).2.2.1.1

/-! ### one run on files that hold reports -/

/-- a path that a run reports as itself, whatever the data filed under it: `add_results` files it
under `addCanon` of it (itself without a source dir; else the canonical path of `source_dir/path`
when that exists) and `rewrite_paths` turns that key back into the path; with a source dir the key
is not a Java/Kotlin file (no partial-path lookup) -/
def FixedPath (cfg : Cfg) (fs : FS) (k : Lcov.Bytes) : Prop :=
  (∀ c, ∃ a, rewriteKey cfg fs (addCanon fs cfg.sourceDir k, c) = .ok (some ⟨a, k, c⟩)) ∧
  (cfg.sourceDir = none ∨ isPartialExt (addCanon fs cfg.sourceDir k) = false)

theorem repOK_nil : RepOK [] := ⟨by simp [NodupKeys, keys], fun _ h => by simp at h⟩

theorem foldl_repOK (rs : List Report) (acc : Report) (ha : RepOK acc) (h : ∀ r ∈ rs, RepOK r) :
    RepOK (rs.foldl mergeReports acc) := by
  induction rs generalizing acc with
  | nil => exact ha
  | cons r rs ih =>
    exact ih _ (repOK_merge _ _ ha (h r (by simp))) fun x hx => h x (List.mem_cons_of_mem _ hx)

theorem keys_foldl (rs : List Report) (acc : Report) (k : Lcov.Bytes)
    (hk : k ∈ keys (rs.foldl mergeReports acc)) : k ∈ keys acc ∨ ∃ r ∈ rs, k ∈ keys r := by
  induction rs generalizing acc with
  | nil => exact Or.inl hk
  | cons r rs ih =>
    rcases ih _ hk with h | ⟨x, hx, hkx⟩
    · rcases keys_addResults_subset id acc r k h with h0 | ⟨kc, hkc, e⟩
      · exact Or.inl h0
      · exact Or.inr ⟨r, by simp, by rw [← e]; exact List.mem_map_of_mem (f := (·.1)) hkc⟩
    · exact Or.inr ⟨x, List.mem_cons_of_mem _ hx, hkx⟩

/-! ### `add_results` under an injective canonicalisation is `add_results` as-is, keys renamed -/

/-- a map with its keys canonicalised -/
def mapK (canon : Key → Key) (m : List (Key × Cov)) : List (Key × Cov) := m.map fun kc => (canon kc.1, kc.2)

theorem get?_mapK (canon : Key → Key) (m : List (Key × Cov)) (k : Key)
    (hinj : ∀ k' ∈ keys m, canon k' = canon k → k' = k) :
    get? (mapK canon m) (canon k) = get? m k := by
  induction m with
  | nil => rfl
  | cons a m ih =>
    obtain ⟨k0, w⟩ := a
    have ih' := ih fun k' hk' => hinj k' (by simp [keys] at hk' ⊢; exact Or.inr hk')
    simp only [mapK, List.map_cons, get?_cons] at ih' ⊢
    by_cases e : k0 = k
    · subst e; simp
    · have : canon k0 ≠ canon k := fun ec => e (hinj k0 (by simp [keys]) ec)
      simp only [e, this, if_false]; exact ih'

theorem set_mapK (canon : Key → Key) (m : List (Key × Cov)) (k : Key) (v : Cov)
    (hinj : ∀ k' ∈ keys m, canon k' = canon k → k' = k) :
    AList.set (mapK canon m) (canon k) v = mapK canon (AList.set m k v) := by
  induction m with
  | nil => rfl
  | cons a m ih =>
    obtain ⟨k0, w⟩ := a
    have ih' := ih fun k' hk' => hinj k' (by simp [keys] at hk' ⊢; exact Or.inr hk')
    simp only [mapK, List.map_cons] at ih' ⊢
    unfold AList.set
    by_cases e : k0 = k
    · subst e; simp
    · have : canon k0 ≠ canon k := fun ec => e (hinj k0 (by simp [keys]) ec)
      simp only [e, this, if_false, List.map_cons]
      rw [ih']

theorem addOne_mapK (canon : Key → Key) (m : List (Key × Cov)) (kc : Key × Cov)
    (hinj : ∀ k' ∈ keys m, canon k' = canon kc.1 → k' = kc.1) :
    addOne canon (mapK canon m) kc = mapK canon (addOne id m kc) := by
  unfold addOne
  simp only [id, get?_mapK canon m kc.1 hinj]
  exact set_mapK canon m kc.1 _ hinj

theorem addResults_mapK (canon : Key → Key) (P : Key → Prop)
    (hinj : ∀ a b, P a → P b → canon a = canon b → a = b)
    (m batch : List (Key × Cov)) (hm : ∀ k ∈ keys m, P k) (hb : ∀ k ∈ keys batch, P k) :
    addResults canon (mapK canon m) batch = mapK canon (addResults id m batch)
      ∧ ∀ k ∈ keys (addResults id m batch), P k := by
  induction batch generalizing m with
  | nil => exact ⟨rfl, hm⟩
  | cons kc batch ih =>
    have hkc : P kc.1 := hb kc.1 (by simp [keys])
    have step1 : addResults canon (mapK canon m) (kc :: batch)
        = addResults canon (addOne canon (mapK canon m) kc) batch := rfl
    have step2 : addResults id m (kc :: batch) = addResults id (addOne id m kc) batch := rfl
    rw [step1, step2, addOne_mapK canon m kc fun k' hk' e => hinj k' kc.1 (hm k' hk') hkc e]
    apply ih
    · intro k hk
      unfold addOne at hk
      rw [keys_set] at hk
      split at hk
      · exact hm k hk
      · simp only [id, List.mem_append, List.mem_singleton] at hk
        rcases hk with h | h
        · exact hm k h
        · rw [h]; exact hkc
    · intro k hk; exact hb k (by simp [keys] at hk ⊢; exact Or.inr hk)

/-- the result map of a run on files whose paths are fixed paths: the merge of the reports the
files hold (`add_results` as it is), every key canonicalised -/
theorem foldl_addResults_mapK (canon : Key → Key) (P : Key → Prop)
    (hinj : ∀ a b, P a → P b → canon a = canon b → a = b)
    (rs : List Report) (m : List (Key × Cov)) (hm : ∀ k ∈ keys m, P k)
    (hb : ∀ r ∈ rs, ∀ k ∈ keys r, P k) :
    rs.foldl (fun acc r => addResults canon acc r) (mapK canon m) = mapK canon (rs.foldl mergeReports m) := by
  induction rs generalizing m with
  | nil => rfl
  | cons r rs ih =>
    obtain ⟨e, hP⟩ := addResults_mapK canon P hinj m r hm (hb r (by simp))
    simp only [List.foldl_cons, e]
    exact ih _ hP fun x hx => hb x (List.mem_cons_of_mem _ hx)

/-- two fixed paths filed under the same key are the same path -/
theorem fixedPath_inj {cfg : Cfg} {fs : FS} {a b : Lcov.Bytes} (ha : FixedPath cfg fs a)
    (hb : FixedPath cfg fs b) (e : addCanon fs cfg.sourceDir a = addCanon fs cfg.sourceDir b) : a = b := by
  obtain ⟨x, hx⟩ := ha.1 {}
  obtain ⟨y, hy⟩ := hb.1 {}
  rw [e, hy] at hx
  cases hx; rfl

/-- no partial-path lookup is needed for a result map all of whose keys are fixed paths -/
theorem needed_of_fixed {cfg : Cfg} {fs : FS} (ks : List Lcov.Bytes) (h : ∀ k ∈ ks, FixedPath cfg fs k) :
    needed cfg fs (ks.map (addCanon fs cfg.sourceDir)) = false := by
  cases hS : cfg.sourceDir with
  | none => exact needed_of_no_source hS fs _
  | some s =>
    apply needed_of_no_java
    intro k hk
    simp only [List.mem_map] at hk
    obtain ⟨k0, hk0, rfl⟩ := hk
    rcases (h k0 hk0).2 with h1 | h1
    · rw [hS] at h1; cases h1
    · rw [hS] at h1; exact h1

/-- **One run on files.** The files parse to reports within the writer's domain whose paths are
fixed paths (any source dir, prefix dir, globs: whatever makes them so): the run succeeds, and the
report it writes is read by the next stage as the merge (`add_results`, in the order of the files)
of those reports, every record in line order. -/
theorem run_files (cfg : Cfg) (fs : FS) (ord : List (List Lcov.Bytes)) (bs : List Lcov.Bytes)
    (hA : ∀ s, cfg.sourceDir = some s → UPath.isAbsolute s = true)
    (hr : ∀ b ∈ bs, RepOK (parseInput true b))
    (hk : ∀ b ∈ bs, ∀ k ∈ keys (parseInput true b), FixedPath cfg fs k) :
    ∃ B, Cli.runJ cfg true fs ord bs = .ok B
      ∧ parseInput true B = sortR ((bs.map (parseInput true)).foldl mergeReports []) := by
  let canon := addCanon fs cfg.sourceDir
  let M := (bs.map (parseInput true)).foldl mergeReports []
  have hM : resultMap cfg true fs bs = mapK canon M := by
    have := foldl_addResults_mapK canon (FixedPath cfg fs) (fun a b ha hb e => fixedPath_inj ha hb e)
      (bs.map (parseInput true)) [] (by simp [keys]) (by
        intro r hr'; simp only [List.mem_map] at hr'; obtain ⟨b, hb, rfl⟩ := hr'; exact hk b hb)
    simp only [resultMap, M]
    rw [← this, List.foldl_map]
    rfl
  have hMok : RepOK M := foldl_repOK _ [] repOK_nil (by
    intro r hr'; simp only [List.mem_map] at hr'; obtain ⟨b, hb, rfl⟩ := hr'; exact hr b hb)
  have hMk : ∀ kc ∈ M, FixedPath cfg fs kc.1 := by
    intro kc hkc
    rcases keys_foldl _ [] kc.1 (List.mem_map_of_mem (f := (·.1)) hkc) with h0 | ⟨r, hr', hkr⟩
    · simp [keys] at h0
    · simp only [List.mem_map] at hr'; obtain ⟨b, hb, rfl⟩ := hr'; exact hk b hb _ hkr
  let g : Lcov.Bytes × Cov → Rewrite.Rec := fun kc =>
    (okPart (rewriteKey cfg fs (canon kc.1, kc.2))).getD ⟨[], kc.1, kc.2⟩
  have hg : ∀ kc ∈ M, rewriteKey cfg fs (canon kc.1, kc.2) = .ok (some (g kc)) ∧ (g kc).rel = kc.1
      ∧ (g kc).cov = kc.2 := by
    intro kc hkc
    obtain ⟨a, ha⟩ := (hMk kc hkc).1 kc.2
    have e : g kc = ⟨a, kc.1, kc.2⟩ := by simp [g, canon, ha, okPart]
    exact ⟨by rw [e]; exact ha, by rw [e], by rw [e]⟩
  have hrep0 : report cfg true fs bs = .ok (M.map g) := by
    unfold report; rw [hM]
    exact Grcov.Cli.rewritePaths_map_ok cfg fs M (fun kc => (canon kc.1, kc.2)) g hA
      (fun kc hkc => (hg kc hkc).1)
  have hnd : needed cfg fs ((resultMap cfg true fs bs).map (·.1)) = false := by
    rw [hM]
    have : (mapK canon M).map (·.1) = (M.map (·.1)).map canon := by simp [mapK, List.map_map, Function.comp]
    rw [this]
    exact needed_of_fixed _ fun k hk => by
      simp only [List.mem_map] at hk; obtain ⟨kc, hkc, rfl⟩ := hk; exact hMk kc hkc
  have hrep : reportJ cfg true fs ord bs = .ok (M.map g) := by
    rw [reportJ_eq_report cfg true fs ord bs hnd]; exact hrep0
  have hpr : printable (M.map g) = sortR M := by
    simp only [printable, sortR, List.map_map]
    apply List.map_congr_left
    intro kc hkc
    simp [Function.comp, (hg kc hkc).2.1, (hg kc hkc).2.2]
  have hsok := repOK_sortR M hMok
  have hw : Grcov.Props.C05.ReportOK (printable (M.map g)) := by
    rw [hpr]
    intro pc hpc
    exact ⟨writerOK_of_repOK _ hsok pc hpc, (hsok.recs pc hpc).2.1⟩
  refine ⟨printReport (M.map g), by simp only [Cli.runJ, hrep], ?_⟩
  rw [parseInput_printReport _ hw]
  have : ((M.map g).map fun r => (r.rel, norm r.cov)) = M.map fun kc => (kc.1, norm kc.2) := by
    rw [List.map_map]
    apply List.map_congr_left
    intro kc hkc
    simp [Function.comp, (hg kc hkc).2.1, (hg kc hkc).2.2]
  rw [this]
  simp only [sortR]
  apply List.map_congr_left
  intro kc hkc
  rw [norm_of_good _ (hMok.recs kc hkc).2.2.1]

/-! ### per file: a fold of merges is the evaluation of a comb -/

theorem covAt_foldl (rs : List Report) (acc : Report) (ha : RepOK acc) (h : ∀ r ∈ rs, RepOK r)
    (k : Lcov.Bytes) :
    ObsEq (covAt (rs.foldl mergeReports acc) k) ((rs.map (covAt · k)).foldl merge (covAt acc k)) := by
  induction rs generalizing acc with
  | nil => exact obsEq_refl _
  | cons r rs ih =>
    have hr := h r (by simp)
    have hrest := fun x hx => h x (List.mem_cons_of_mem _ hx)
    have e1 := ih (mergeReports acc r) (repOK_merge _ _ ha hr) hrest
    refine obsEq_trans e1 ?_
    -- congruence of the remaining fold in its start value
    have cong : ∀ (cs : List Cov) (x y : Cov), (∀ c ∈ cs, c.WF) → ObsEq x y →
        ObsEq (cs.foldl merge x) (cs.foldl merge y) := by
      intro cs
      induction cs with
      | nil => intro x y _ e; exact e
      | cons c cs ihc =>
        intro x y hw e
        exact ihc _ _ (fun c' hc' => hw c' (List.mem_cons_of_mem _ hc'))
          (merge_congr (hw c (by simp)) (hw c (by simp)) e (obsEq_refl c))
    simp only [List.map_cons, List.foldl_cons]
    exact cong _ _ _ (by
      intro c hc; simp only [List.mem_map] at hc
      obtain ⟨x, hx, rfl⟩ := hc; exact covAt_wf x (hrest x hx) k)
      (covAt_mergeReports acc r ha hr k)

/-- the left comb over a non-empty list of records -/
def comb (c : Cov) (cs : List Cov) : Tree Cov := cs.foldl (fun t x => .node t (.leaf x)) (.leaf c)

theorem comb_eval_leaves (cs : List Cov) (t : Tree Cov) :
    (cs.foldl (fun t x => Tree.node t (.leaf x)) t).eval = cs.foldl merge t.eval
    ∧ (cs.foldl (fun t x => Tree.node t (.leaf x)) t).leaves = t.leaves ++ cs := by
  induction cs generalizing t with
  | nil => simp
  | cons c cs ih =>
    obtain ⟨e1, e2⟩ := ih (.node t (.leaf c))
    simp only [List.foldl_cons]
    exact ⟨by rw [e1]; rfl, by rw [e2]; simp [Tree.leaves]⟩

end CliAux
open CliAux

/-- a binary shard tree over input FILES: a leaf contributes its file, an inner node the report of
one run on the two files below it -/
def evalCli (cfg : Cfg) (fs : FS) (ord : List (List Lcov.Bytes)) : Tree Lcov.Bytes → Res Lcov.Bytes
  | .leaf b => .ok b
  | .node l r =>
    match evalCli cfg fs ord l, evalCli cfg fs ord r with
    | .ok a, .ok b => Cli.runJ cfg true fs ord [a, b]
    | .panic s, _ => .panic s
    | _, .panic s => .panic s

/-- the tree of the records the input files hold for file `k` -/
def inputsAt (k : Lcov.Bytes) : Tree Lcov.Bytes → Tree Cov
  | .leaf b => .leaf (covAt (parseInput true b) k)
  | .node l r => .node (inputsAt k l) (inputsAt k r)

theorem CliAux.leaves_inputsAt (k : Lcov.Bytes) (t : Tree Lcov.Bytes) :
    (inputsAt k t).leaves = t.leaves.map fun b => covAt (parseInput true b) k := by
  induction t with
  | leaf b => rfl
  | node l r ihl ihr => simp [inputsAt, Tree.leaves, ihl, ihr]

/-- every stage of the sharded evaluation succeeds, and what the next stage reads from it is, file
by file, observably the merge of the inputs below it -/
theorem CliAux.evalCli_spec (cfg : Cfg) (fs : FS) (ord : List (List Lcov.Bytes)) (t : Tree Lcov.Bytes)
    (hA : ∀ s, cfg.sourceDir = some s → UPath.isAbsolute s = true)
    (hr : ∀ b ∈ t.leaves, RepOK (parseInput true b))
    (hk : ∀ b ∈ t.leaves, ∀ k ∈ keys (parseInput true b), FixedPath cfg fs k) :
    ∃ B, evalCli cfg fs ord t = .ok B ∧ RepOK (parseInput true B)
      ∧ (∀ k ∈ keys (parseInput true B), FixedPath cfg fs k)
      ∧ ∀ k, ObsEq (covAt (parseInput true B) k) (inputsAt k t).eval := by
  induction t with
  | leaf b =>
    exact ⟨b, rfl, hr b (by simp [Tree.leaves]), hk b (by simp [Tree.leaves]), fun k => obsEq_refl _⟩
  | node l r ihl ihr =>
    simp only [Tree.leaves, List.mem_append] at hr hk
    obtain ⟨Bl, el, okl, kl, ol⟩ := ihl (fun b hb => hr b (Or.inl hb)) (fun b hb => hk b (Or.inl hb))
    obtain ⟨Br, er, okr, kr, orr⟩ := ihr (fun b hb => hr b (Or.inr hb)) (fun b hb => hk b (Or.inr hb))
    have hrs : ∀ b ∈ [Bl, Br], RepOK (parseInput true b) := by
      intro b hb; simp only [List.mem_cons, List.not_mem_nil, or_false] at hb
      rcases hb with rfl | rfl <;> assumption
    have hks : ∀ b ∈ [Bl, Br], ∀ k ∈ keys (parseInput true b), FixedPath cfg fs k := by
      intro b hb; simp only [List.mem_cons, List.not_mem_nil, or_false] at hb
      rcases hb with rfl | rfl <;> assumption
    obtain ⟨B, eB, pB⟩ := run_files cfg fs ord [Bl, Br] hA hrs hks
    simp only [List.map_cons, List.map_nil, List.foldl_cons, List.foldl_nil] at pB
    have hM1 : RepOK (mergeReports [] (parseInput true Bl)) := repOK_merge _ _ repOK_nil okl
    have hM : RepOK (mergeReports (mergeReports [] (parseInput true Bl)) (parseInput true Br)) :=
      repOK_merge _ _ hM1 okr
    refine ⟨B, by simp only [evalCli, el, er, eB], by rw [pB]; exact repOK_sortR _ hM, ?_, fun k => ?_⟩
    · intro k hkk
      rw [pB, keys_sortR] at hkk
      rcases keys_foldl [parseInput true Bl, parseInput true Br] [] k hkk with h0 | ⟨x, hx, hkx⟩
      · simp [keys] at h0
      · simp only [List.mem_cons, List.not_mem_nil, or_false] at hx
        rcases hx with rfl | rfl
        · exact kl k hkx
        · exact kr k hkx
    · rw [pB]
      refine obsEq_trans (covAt_sortR _ hM k) ?_
      refine obsEq_trans (covAt_mergeReports _ _ hM1 okr k) ?_
      have wr : (inputsAt k r).eval.WF := Tree.eval_wf _ (by
        intro c hc; rw [leaves_inputsAt] at hc
        simp only [List.mem_map] at hc
        obtain ⟨b, hb, rfl⟩ := hc; exact covAt_wf _ (hr b (Or.inr hb)) k)
      refine merge_congr (covAt_wf _ okr k) wr ?_ (orr k)
      refine obsEq_trans (covAt_mergeReports _ _ repOK_nil okl k) ?_
      exact obsEq_trans (obsEq_merge_empty_left _ (covAt_wf _ okl k)) (ol k)

/-- **Sharding through grcov runs.** For every binary shard tree over lcov input files, under the
guards of this file's header – ANY source dir / prefix dir / globs under which the paths of the
inputs are fixed paths; the options are applied at every stage –: every run of the sharded evaluation succeeds, the single run on all
input files succeeds, and the two final reports, read back, say observably the same about every
file – the same line counts, branch vectors, functions and executed flags (an absent file reads as
the empty record). -/
theorem C06_cli_sharding_partial (cfg : Cfg) (fs : FS) (ord : List (List Lcov.Bytes)) (t : Tree Lcov.Bytes)
    (hA : ∀ s, cfg.sourceDir = some s → UPath.isAbsolute s = true)
    (hr : ∀ b ∈ t.leaves, RepOK (parseInput true b))
    (hk : ∀ b ∈ t.leaves, ∀ k ∈ keys (parseInput true b), FixedPath cfg fs k) :
    ∃ Bs Bd, evalCli cfg fs ord t = .ok Bs ∧ Cli.runJ cfg true fs ord t.leaves = .ok Bd
      ∧ ∀ k, ObsEq (covAt (parseInput true Bs) k) (covAt (parseInput true Bd) k) := by
  obtain ⟨Bs, es, _, _, os⟩ := evalCli_spec cfg fs ord t hA hr hk
  obtain ⟨Bd, ed, pd⟩ := run_files cfg fs ord t.leaves hA hr hk
  refine ⟨Bs, Bd, es, ed, fun k => ?_⟩
  have hrs : ∀ r ∈ t.leaves.map (parseInput true), RepOK r := by
    intro r hr'; simp only [List.mem_map] at hr'; obtain ⟨b, hb, rfl⟩ := hr'; exact hr b hb
  have hM := foldl_repOK _ [] repOK_nil hrs
  have hw : ∀ c ∈ (inputsAt k t).leaves, c.WF := by
    intro c hc; rw [leaves_inputsAt] at hc
    simp only [List.mem_map] at hc
    obtain ⟨b, hb, rfl⟩ := hc; exact covAt_wf _ (hr b hb) k
  -- the direct run, per file: the comb over the same leaves, behind one empty record
  have e1 := covAt_foldl (t.leaves.map (parseInput true)) [] repOK_nil hrs k
  have e2 : ((t.leaves.map (parseInput true)).map (covAt · k)) = (inputsAt k t).leaves := by
    rw [leaves_inputsAt, List.map_map]; rfl
  rw [e2] at e1
  obtain ⟨ce, cl⟩ := comb_eval_leaves (inputsAt k t).leaves (.leaf (covAt [] k))
  have e3 : ObsEq ((inputsAt k t).leaves.foldl merge (covAt [] k))
      (Tree.node (.leaf (covAt [] k)) (inputsAt k t)).eval := by
    have ce' : ((inputsAt k t).leaves.foldl (fun t x => Tree.node t (.leaf x)) (.leaf (covAt [] k))).eval
        = (inputsAt k t).leaves.foldl merge (covAt [] k) := ce
    rw [← ce']
    apply C01_grouping_invariant
    · intro c hc; rw [cl] at hc
      simp only [Tree.leaves, List.mem_append, List.mem_singleton] at hc
      rcases hc with rfl | hc
      · exact empty_wf
      · exact hw c hc
    · rw [cl]; simp [Tree.leaves]
  have e4 : ObsEq (Tree.node (.leaf (covAt [] k)) (inputsAt k t)).eval (inputsAt k t).eval :=
    obsEq_merge_empty_left _ (Tree.eval_wf _ hw)
  rw [pd]
  exact obsEq_trans (os k) (obsEq_symm (obsEq_trans (covAt_sortR _ hM k) (obsEq_trans e1 (obsEq_trans e3 e4))))

/-- In a configuration without any path option, every path in reported form – clean, relative or
absolute, no backslash – is a fixed path: the guard of `C06_cli_sharding_partial` is met by inputs
whose `SF` paths are already normal (clean current directory). -/
theorem C06_cli_fixed_path_plain (fs : FS) (hcwd : ∀ n ∈ fs.cwd, UPath.RealName n) (np : UPath.NPath)
    (hreal : ∀ n ∈ np.names, UPath.RealName n) (hbs : 92 ∉ UPath.render np) :
    FixedPath {} fs (UPath.render np) := by
  refine ⟨fun c => ?_, Or.inl rfl⟩
  obtain ⟨a, ha⟩ := resolveKey_plain_normal (cfg := {}) (fs := fs) rfl rfl rfl hcwd hreal hbs
  refine ⟨a, ?_⟩
  show rewriteKey {} fs (UPath.render np, c) = _
  rw [rewriteKey_some_iff]
  refine ⟨a, _, ha, ?_⟩
  rw [selectRec_some_iff]
  exact ⟨rfl, Or.inl rfl, by simp, rfl, rfl⟩

/-- **With `-s S` (and `-p S`, which `main` sets when `-p` is absent, or no prefix).** `S` clean,
absolute, backslash-free; no mapping, no glob, no `--filter`: the source-relative path `names` of
an existing regular file below `S` that is not a Java/Kotlin file is a fixed path – `add_results`
files it under the canonical `S/names`, `rewrite_paths` reports that key as `names`. -/
theorem C06_cli_fixed_path_source (cfg : Cfg) (fs : FS) (sn names : List Lcov.Bytes)
    (hS : cfg.sourceDir = some (UPath.render ⟨true, sn⟩)) (hM : cfg.mapping = none)
    (hP : cfg.prefixDir = none ∨ cfg.prefixDir = some (UPath.render ⟨true, sn⟩))
    (hI : cfg.ignore = []) (hK : cfg.keep = []) (hF : cfg.filter = none)
    (hsn : ∀ n ∈ sn, UPath.RealName n ∧ 92 ∉ n) (hn : ∀ n ∈ names, UPath.RealName n ∧ 92 ∉ n)
    (hne : names ≠ [])
    (hres : fs.resolve (UPath.render ⟨true, sn ++ names⟩) = some (sn ++ names, .file))
    (hJ : isPartialExt (UPath.render ⟨true, sn ++ names⟩) = false) :
    FixedPath cfg fs (UPath.join names) := by
  have hsn1 : ∀ n ∈ sn, UPath.RealName n := fun n h => (hsn n h).1
  have hn1 : ∀ n ∈ names, UPath.RealName n := fun n h => (hn n h).1
  have hc : addCanon fs cfg.sourceDir (UPath.join names) = UPath.render ⟨true, sn ++ names⟩ := by
    rw [hS]; exact addCanon_under_source hsn1 hn1 hne hres
  refine ⟨fun c => ⟨UPath.render ⟨true, sn ++ names⟩, ?_⟩, Or.inr (by rw [hc]; exact hJ)⟩
  rw [hc, rewriteKey_some_iff]
  refine ⟨_, _, resolveKey_canonical_under_source hS hM hP hsn hn hne hres, ?_⟩
  rw [selectRec_some_iff]
  refine ⟨by simp [hI, Glob.setMatch], Or.inl hK, ?_, by simp [hF, filterOk], rfl⟩
  intro _; simp [FS.exists, hres]

/-- **Sharding with `-s S [-p S]` at every stage** (second review, item 27). Source dir `S`
clean, absolute and backslash-free, prefix dir absent or `S`, no mapping / glob / `--filter`,
`--branch` on. If every input is within the writer's bounds, lists a file once, and names only
existing regular non-Java files below `S` by their source-relative paths, then every run of the
sharded evaluation – each made with the SAME `-s`/`-p` – and the single run succeed, and the two
final reports say observably the same about every file. -/
theorem C06_cli_sharding_source_partial (cfg : Cfg) (fs : FS) (ord : List (List Lcov.Bytes))
    (sn : List Lcov.Bytes) (t : Tree Lcov.Bytes)
    (hS : cfg.sourceDir = some (UPath.render ⟨true, sn⟩)) (hM : cfg.mapping = none)
    (hP : cfg.prefixDir = none ∨ cfg.prefixDir = some (UPath.render ⟨true, sn⟩))
    (hI : cfg.ignore = []) (hK : cfg.keep = []) (hF : cfg.filter = none)
    (hsn : ∀ n ∈ sn, UPath.RealName n ∧ 92 ∉ n)
    (hr : ∀ b ∈ t.leaves, RepOK (parseInput true b))
    (hfiles : ∀ b ∈ t.leaves, ∀ k ∈ keys (parseInput true b), ∃ names, names ≠ [] ∧
      (∀ n ∈ names, UPath.RealName n ∧ 92 ∉ n) ∧ k = UPath.join names ∧
      fs.resolve (UPath.render ⟨true, sn ++ names⟩) = some (sn ++ names, .file) ∧
      isPartialExt (UPath.render ⟨true, sn ++ names⟩) = false) :
    ∃ Bs Bd, evalCli cfg fs ord t = .ok Bs ∧ Cli.runJ cfg true fs ord t.leaves = .ok Bd
      ∧ ∀ k, ObsEq (covAt (parseInput true Bs) k) (covAt (parseInput true Bd) k) := by
  apply C06_cli_sharding_partial cfg fs ord t _ hr
  · intro b hb k hk
    obtain ⟨names, hne, hn, e, hres, hJ⟩ := hfiles b hb k hk
    rw [e]
    exact C06_cli_fixed_path_source cfg fs sn names hS hM hP hI hK hF hsn hn hne hres hJ
  · intro s hs
    rw [hS] at hs; cases hs
    simp [UPath.isAbsolute, UPath.hasRoot_render_true]

namespace CliWit
def in1 : Lcov.Bytes := [84, 78, 58, 10, 83, 70, 58, 120, 47, 46, 46, 47, 97, 46, 99, 10, 68, 65, 58, 49, 44, 49, 10, 101, 110, 100, 95, 111, 102, 95, 114, 101, 99, 111, 114, 100, 10]
def in0 : Lcov.Bytes := [84, 78, 58, 10]
def in2 : Lcov.Bytes := [84, 78, 58, 10, 83, 70, 58, 97, 46, 99, 10, 68, 65, 58, 50, 44, 49, 10, 101, 110, 100, 95, 111, 102, 95, 114, 101, 99, 111, 114, 100, 10]
def g1 : Lcov.Bytes := [84, 78, 58, 10, 83, 70, 58, 115, 114, 99, 47, 97, 46, 99, 10, 68, 65, 58, 51, 44, 50, 10, 68, 65, 58, 49, 44, 49, 10, 70, 78, 58, 49, 44, 102, 10, 70, 78, 68, 65, 58, 48, 44, 102, 10, 66, 82, 68, 65, 58, 49, 44, 48, 44, 48, 44, 49, 10, 101, 110, 100, 95, 111, 102, 95, 114, 101, 99, 111, 114, 100, 10]
def g2 : Lcov.Bytes := [84, 78, 58, 10, 83, 70, 58, 115, 114, 99, 47, 97, 46, 99, 10, 68, 65, 58, 49, 44, 52, 10, 70, 78, 58, 49, 44, 102, 10, 70, 78, 68, 65, 58, 50, 44, 102, 10, 66, 82, 68, 65, 58, 49, 44, 48, 44, 49, 44, 45, 10, 101, 110, 100, 95, 111, 102, 95, 114, 101, 99, 111, 114, 100, 10, 83, 70, 58, 108, 105, 98, 47, 98, 46, 99, 10, 68, 65, 58, 57, 44, 48, 10, 101, 110, 100, 95, 111, 102, 95, 114, 101, 99, 111, 114, 100, 10]
def g3 : Lcov.Bytes := [84, 78, 58, 10, 83, 70, 58, 108, 105, 98, 47, 98, 46, 99, 10, 68, 65, 58, 57, 44, 53, 10, 101, 110, 100, 95, 111, 102, 95, 114, 101, 99, 111, 114, 100, 10]
def fs0 : FS := { files := [], dirs := [], cwd := [] }
def out (r : Res Lcov.Bytes) : Lcov.Bytes := match r with | .ok b => b | .panic _ => []
end CliWit
open CliWit

/-- The fixed-path guard (`keysRewriteInjectively`) is needed: two inputs spell one file `x/../a.c`
and `a.c` (known finding C12-respelled-duplicates). The shard `(in1 ∅)` reports it as `a.c`, the
upper run merges that with `in2`'s `a.c`: one section, lines 1 and 2. The single run on all inputs
keeps two map entries and lists `a.c` TWICE; read back, the first section wins: line 2 is missing. -/
theorem C06_cli_respelled_paths_witness :
    get? (covAt (parseInput true (out (evalCli {} fs0 [] (.node (.node (.leaf in1) (.leaf in0)) (.leaf in2)))))
        [97, 46, 99]).lines 2 = some 1
    ∧ get? (covAt (parseInput true (out (Cli.runJ {} true fs0 [] [in1, in0, in2]))) [97, 46, 99]).lines 2 = none := by
  decide +kernel

/-- non-vacuity: three inputs sharing files (lines out of order, a function hit in one shard only,
branch vectors of different length), sharded as `((g1 g2) g3)` and run directly: both succeed, and
the two reports are even byte-equal here -/
example :
    out (evalCli {} fs0 [] (.node (.node (.leaf g1) (.leaf g2)) (.leaf g3))) = out (Cli.runJ {} true fs0 [] [g1, g2, g3])
    ∧ out (Cli.runJ {} true fs0 [] [g1, g2, g3]) ≠ [] := by
  decide +kernel

/-- non-vacuity of `C06_cli_sharding_source_partial`: `-s /s` (so `-p /s`), `/s/src/a.c` and
`/s/lib/b.c` on disk; the same three inputs sharded as `((g1 g2) g3)` with `-s /s -p /s` at every
stage, and run directly: both succeed and the reports are byte-equal -/
example :
    let fsS : FS := { files := [[[115], [115, 114, 99], [97, 46, 99]], [[115], [108, 105, 98], [98, 46, 99]]],
                      dirs := [[[115]], [[115], [115, 114, 99]], [[115], [108, 105, 98]]], cwd := [[115]] }
    let cfgS : Cfg := { sourceDir := some [47, 115], prefixDir := some [47, 115] }
    out (evalCli cfgS fsS [] (.node (.node (.leaf g1) (.leaf g2)) (.leaf g3))) = out (Cli.runJ cfgS true fsS [] [g1, g2, g3])
    ∧ out (Cli.runJ cfgS true fsS [] [g1, g2, g3]) ≠ []
    ∧ fsS.resolve (UPath.render ⟨true, [[115]] ++ [[115, 114, 99], [97, 46, 99]]⟩)
        = some ([[115]] ++ [[115, 114, 99], [97, 46, 99]], .file) := by
  decide +kernel

end Grcov.Props.C06
