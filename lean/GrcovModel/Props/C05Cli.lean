/-
C05, part `Cli` — the fixed point at the level of the command line: one grcov RUN on lcov inputs
with lcov output is the function `Cli.run cfg branch fs : List Bytes → Res Bytes` (GrcovModel/
Cli.lean: parse every input, `add_results` under canonicalised keys, `rewrite_paths`, `output_lcov`),
tied to the real binary by the correspondence runs of C05 (CLI chains) and C06 (shard trees).
The run of the theorems is `Cli.runJ`: `rewrite_paths` WITH the Java/Kotlin partial-path lookup
(second review, item 26; `ord` = the directory-walk order, a parameter), which is what the driver
op `cli.runj` computes and the real binary is compared with.
Feeding the report a run wrote back into a run with the same options reproduces it BYTE FOR BYTE –
in the model, where the result map (a hash map) iterates in insertion order; the real order is a
parameter, so the transferred statement is "as a multiset of sections" (the functions of a file
are listed in name order since fix 73c9152: `Cli.sortFns`, nothing is left open there) – under
the union of the guards of the pieces:
* the report is writable and re-readable: paths and function names without line terminators and
  well-formed UTF-8, numbers within u32/u64 (`ReportOK`, C05);
* no two reported files are filed under the same key by the next run (the C12 duplicates guard);
* the rewrite guards of Props/C05Rewrite.lean (no path mapping; either no path option at all, or a
  clean absolute source dir with the prefix dir absent or equal to it – what `main` sets without
  `-p` – and every reported file existing below the source dir).
With `--branch` off the same holds (`C05_cli_fixed_point_partial_off`, `…_plain_partial_off`).
The full statement is false: the three rewrite counter-examples of C05Rewrite, the C12
duplicates, and a fourth non-idempotence that exists at CLI level only (`-s S -p S/src` with the
file on disk: `add_results` canonicalises the re-imported path, THEN the prefix below the source
dir is stripped from it; finding C05-abs-prefix-below-source-restripped) are closed byte-level
witnesses of `Cli.runJ`.
Helper lemmas: GrcovModel/Lemmas/Cli.lean.
-/
import GrcovModel.Lemmas.Cli
namespace Grcov.Props.C05
open Grcov AList Grcov.Lcov Grcov.Rewrite Grcov.UPath Grcov.Cli Grcov.Glob

namespace CliAux

/-- what a run with the branch flag `branch` reads from the report `printReport rep` -/
theorem parseInput_printReport_any (branch : Bool) (rep : List Rewrite.Rec) (hw : ReportOK (printable rep))
    (hb : branch = false → ∀ r ∈ rep, r.cov.branches = []) :
    parseInput branch (printReport rep) = rep.map fun r => (r.rel, norm r.cov) := by
  cases branch with
  | true => exact parseInput_printReport rep hw
  | false => exact parseInput_off_printReport rep hw (hb rfl)

/-- the result map of a run on a report: every record under the key `add_results` makes of its path -/
theorem resultMap_printReport (cfg : Cfg) (branch : Bool) (fs : FS) (rep : List Rewrite.Rec)
    (hw : ReportOK (printable rep)) (hb : branch = false → ∀ r ∈ rep, r.cov.branches = [])
    (hd : ((rep.map (·.rel)).map (addCanon fs cfg.sourceDir)).Nodup) :
    resultMap cfg branch fs [printReport rep]
      = rep.map fun r => (addCanon fs cfg.sourceDir r.rel, norm r.cov) := by
  simp only [resultMap, List.foldl_cons, List.foldl_nil, parseInput_printReport_any branch rep hw hb]
  rw [addResults_distinct _ [] _ (by rw [List.map_map, List.map_map] at *; exact hd) (by simp [keys])]
  simp [List.map_map, Function.comp]

/-- **The second run.** If a report is writable, its files are filed under distinct keys by the
next run, and every reported path – as the key `add_results` makes of it – is rewritten to itself,
then a run on the written report writes the same bytes. -/
theorem second_run (cfg : Cfg) (branch : Bool) (fs : FS) (rep : List Rewrite.Rec)
    (habs : ∀ s, cfg.sourceDir = some s → isAbsolute s = true) (hw : ReportOK (printable rep))
    (hb : branch = false → ∀ r ∈ rep, r.cov.branches = [])
    (hd : ((rep.map (·.rel)).map (addCanon fs cfg.sourceDir)).Nodup)
    (hrw : ∀ r ∈ rep, ∃ a, rewriteKey cfg fs (addCanon fs cfg.sourceDir r.rel, norm r.cov)
        = .ok (some ⟨a, r.rel, norm r.cov⟩)) :
    run cfg branch fs [printReport rep] = .ok (printReport rep) := by
  let key : Rewrite.Rec → Lcov.Bytes × Cov := fun r => (addCanon fs cfg.sourceDir r.rel, norm r.cov)
  let g : Rewrite.Rec → Rewrite.Rec := fun r => (okPart (rewriteKey cfg fs (key r))).getD r
  have hg : ∀ r ∈ rep, rewriteKey cfg fs (key r) = .ok (some (g r)) ∧
      g r = ⟨(g r).abs, r.rel, norm r.cov⟩ := by
    intro r hr
    obtain ⟨a, ha⟩ := hrw r hr
    have e : g r = ⟨a, r.rel, norm r.cov⟩ := by simp [g, key, ha, okPart]
    exact ⟨by rw [e]; exact ha, by rw [e]⟩
  have hmap : resultMap cfg branch fs [printReport rep] = rep.map key :=
    resultMap_printReport cfg branch fs rep hw hb hd
  have hrep : report cfg branch fs [printReport rep] = .ok (rep.map g) := by
    unfold report
    rw [hmap]
    exact rewritePaths_map_ok cfg fs rep key g habs fun r hr => (hg r hr).1
  unfold Cli.run
  rw [hrep]
  simp only
  have e : rep.map g = rep.map fun r => ⟨(g r).abs, r.rel, norm r.cov⟩ :=
    List.map_congr_left fun r hr => (hg r hr).2
  rw [e, printReport_norm rep (fun r => (g r).abs) hw]

/-- … and so does the run with the Java/Kotlin lookup when the lookup is not needed for the keys
of the second run -/
theorem second_runJ (cfg : Cfg) (branch : Bool) (fs : FS) (ord : List (List Lcov.Bytes))
    (rep : List Rewrite.Rec)
    (habs : ∀ s, cfg.sourceDir = some s → isAbsolute s = true) (hw : ReportOK (printable rep))
    (hb : branch = false → ∀ r ∈ rep, r.cov.branches = [])
    (hd : ((rep.map (·.rel)).map (addCanon fs cfg.sourceDir)).Nodup)
    (hrw : ∀ r ∈ rep, ∃ a, rewriteKey cfg fs (addCanon fs cfg.sourceDir r.rel, norm r.cov)
        = .ok (some ⟨a, r.rel, norm r.cov⟩))
    (hnd : needed cfg fs (rep.map fun r => addCanon fs cfg.sourceDir r.rel) = false) :
    runJ cfg branch fs ord [printReport rep] = .ok (printReport rep) := by
  rw [runJ_eq_run]
  · exact second_run cfg branch fs rep habs hw hb hd hrw
  · rw [resultMap_printReport cfg branch fs rep hw hb hd, List.map_map]
    exact hnd

theorem rerun_fixed (cfg : Cfg) (branch : Bool) (fs : FS) (ord : List (List Lcov.Bytes)) (B : Lcov.Bytes)
    (h : runJ cfg branch fs ord [B] = .ok B) (k : Nat) : rerunJ cfg branch fs ord k B = .ok B := by
  induction k with
  | zero => rfl
  | succ k ih => simp only [rerunJ, h, ih]

/-- the selection facts of a record of a report of `reportJ` -/
theorem selected_of_mem {cfg : Cfg} {branch : Bool} {fs : FS} {ord : List (List Lcov.Bytes)}
    {inputs : List Lcov.Bytes} {rep : List Rewrite.Rec} (h : reportJ cfg branch fs ord inputs = .ok rep)
    {r : Rewrite.Rec} (hr : r ∈ rep) :
    setMatch cfg.ignore r.rel = false ∧ (cfg.keep = [] ∨ setMatch cfg.keep r.rel = true) ∧
      (cfg.ignoreNotExisting = true → fs.exists r.abs = true) ∧ filterOk cfg.filter r.cov = true ∧
      ∃ r0, finalRel r0 = some r.rel := by
  obtain ⟨kc, _, hk⟩ := (mem_rewritePathsJ h r).1 hr
  obtain ⟨a, rl, hres, hsel⟩ := (rewriteKeyJ_some_iff _ _ _ _ _ _).1 hk
  obtain ⟨h1, h2, h3, h4, e⟩ := (selectRec_some_iff _ _ _ _ _ _).1 hsel
  obtain ⟨r0, _, hf⟩ := resolveKeyJ_some hres
  subst e
  exact ⟨h1, h2, h3, h4, r0, hf⟩

/-- the report of a run without `--branch` carries no branch data -/
theorem reportJ_off_no_branches {cfg : Cfg} {fs : FS} {ord : List (List Lcov.Bytes)}
    {inputs : List Lcov.Bytes} {rep : List Rewrite.Rec} (h : reportJ cfg false fs ord inputs = .ok rep) :
    ∀ r ∈ rep, r.cov.branches = [] := by
  intro r hr
  obtain ⟨kc, hkc, hk⟩ := (mem_rewritePathsJ h r).1 hr
  obtain ⟨a, rl, _, hsel⟩ := (rewriteKeyJ_some_iff _ _ _ _ _ _).1 hk
  obtain ⟨_, _, _, _, e⟩ := (selectRec_some_iff _ _ _ _ _ _).1 hsel
  subst e
  exact resultMap_off_no_branches cfg fs inputs kc hkc

/-- the fixed point with `-s`, for either value of the branch flag -/
theorem fixed_point_source (cfg : Cfg) (branch : Bool) (fs : FS) (ord : List (List Lcov.Bytes))
    (sn : List Lcov.Bytes) (inputs : List Lcov.Bytes) (rep : List Rewrite.Rec)
    (hS : cfg.sourceDir = some (render ⟨true, sn⟩)) (hM : cfg.mapping = none)
    (hP : cfg.prefixDir = none ∨ cfg.prefixDir = some (render ⟨true, sn⟩))
    (hsn : ∀ n ∈ sn, RealName n ∧ 92 ∉ n)
    (h : reportJ cfg branch fs ord inputs = .ok rep) (hw : ReportOK (printable rep))
    (hb : branch = false → ∀ r ∈ rep, r.cov.branches = [])
    (hnd : (rep.map (·.abs)).Nodup)
    (hfiles : ∀ r ∈ rep, ∃ names, names ≠ [] ∧ (∀ n ∈ names, RealName n ∧ 92 ∉ n) ∧
      r.abs = render ⟨true, sn ++ names⟩ ∧ r.rel = join names ∧
      fs.resolve (render ⟨true, sn ++ names⟩) = some (sn ++ names, .file)) :
    runJ cfg branch fs ord inputs = .ok (printReport rep)
    ∧ runJ cfg branch fs ord [printReport rep] = .ok (printReport rep)
    ∧ ∀ k, rerunJ cfg branch fs ord k (printReport rep) = .ok (printReport rep) := by
  have hsn1 : ∀ n ∈ sn, RealName n := fun n hn => (hsn n hn).1
  obtain ⟨habs, _, _, _⟩ := (rewritePathsJ_eq_ok cfg fs ord _ rep).1 h
  have hcanon : ∀ r ∈ rep, addCanon fs cfg.sourceDir r.rel = r.abs := by
    intro r hr
    obtain ⟨names, hne, hn, ea, er, hres⟩ := hfiles r hr
    rw [hS, er, ea]
    exact addCanon_under_source hsn1 (fun n h => (hn n h).1) hne hres
  have hkeys : (rep.map fun r => addCanon fs cfg.sourceDir r.rel) = rep.map (·.abs) :=
    List.map_congr_left fun r hr => hcanon r hr
  have h2 : runJ cfg branch fs ord [printReport rep] = .ok (printReport rep) := by
    apply second_runJ cfg branch fs ord rep habs hw hb
    · rw [List.map_map]; exact hkeys ▸ hnd
    · intro r hr
      obtain ⟨names, hne, hn, ea, er, hres⟩ := hfiles r hr
      obtain ⟨h1, h2, h3, h4, _⟩ := selected_of_mem h hr
      refine ⟨r.abs, ?_⟩
      rw [hcanon r hr, rewriteKey_some_iff]
      refine ⟨r.abs, r.rel, ?_, ?_⟩
      · show resolveKey cfg fs r.abs = _
        rw [ea, er]
        exact resolveKey_canonical_under_source hS hM hP hsn hn hne hres
      · rw [selectRec_some_iff]
        exact ⟨h1, h2, h3, by rw [filterOk_norm]; exact h4, rfl⟩
    · rw [hkeys]
      apply needed_of_all_exist hS
      intro k hk
      simp only [List.mem_map] at hk
      obtain ⟨r, hr, rfl⟩ := hk
      obtain ⟨names, hne, hn, ea, _, hres⟩ := hfiles r hr
      rw [ea]
      exact exists_canonical_under_source hP hsn1 (fun n h => (hn n h).1) hne hres
  refine ⟨by simp only [Cli.runJ, h], h2, rerun_fixed cfg branch fs ord _ h2⟩

/-- the fixed point without path options, for either value of the branch flag -/
theorem fixed_point_plain (cfg : Cfg) (branch : Bool) (fs : FS) (ord : List (List Lcov.Bytes))
    (inputs : List Lcov.Bytes) (rep : List Rewrite.Rec) (hS : cfg.sourceDir = none)
    (hP : cfg.prefixDir = none) (hM : cfg.mapping = none) (hE : cfg.ignoreNotExisting = false)
    (hcwd : ∀ n ∈ fs.cwd, RealName n)
    (h : reportJ cfg branch fs ord inputs = .ok rep) (hw : ReportOK (printable rep))
    (hb : branch = false → ∀ r ∈ rep, r.cov.branches = [])
    (hnd : (rep.map (·.rel)).Nodup) :
    runJ cfg branch fs ord inputs = .ok (printReport rep)
    ∧ runJ cfg branch fs ord [printReport rep] = .ok (printReport rep)
    ∧ ∀ k, rerunJ cfg branch fs ord k (printReport rep) = .ok (printReport rep) := by
  have hcanon : ∀ k, addCanon fs cfg.sourceDir k = k := by intro k; rw [hS]; rfl
  have h2 : runJ cfg branch fs ord [printReport rep] = .ok (printReport rep) := by
    apply second_runJ cfg branch fs ord rep (by simp [hS]) hw hb
    · have : (rep.map (·.rel)).map (addCanon fs cfg.sourceDir) = rep.map (·.rel) := by
        rw [List.map_congr_left (g := id) fun k _ => hcanon k]; simp
      rw [this]; exact hnd
    · intro r hr
      obtain ⟨h1, h2, _, h4, r0, hf⟩ := selected_of_mem h hr
      obtain ⟨⟨np, enp, hreal⟩, hnb⟩ := finalRel_shape hf
      obtain ⟨a', ha'⟩ := resolveKey_plain_normal (fs := fs) hS hP hM hcwd hreal (enp ▸ hnb)
      refine ⟨a', ?_⟩
      rw [hcanon, rewriteKey_some_iff]
      refine ⟨a', r.rel, by rw [enp]; exact ha', ?_⟩
      rw [selectRec_some_iff]
      exact ⟨h1, h2, by simp [hE], by rw [filterOk_norm]; exact h4, rfl⟩
    · exact needed_of_no_source hS fs _
  refine ⟨by simp only [Cli.runJ, h], h2, rerun_fixed cfg branch fs ord _ h2⟩

end CliAux

/-- the full statement: whatever the options (path mapping aside), file system, walk order and
inputs, a run on the report of a run writes the same report. FALSE of the code. -/
def C05_cli_fixed_point_stmt : Prop :=
  ∀ (cfg : Cfg) (fs : FS) (ord : List (List Lcov.Bytes)) (inputs : List Lcov.Bytes) (B : Lcov.Bytes),
    cfg.mapping = none → runJ cfg true fs ord inputs = .ok B → runJ cfg true fs ord [B] = .ok B

/-- Iterating: once a report is reproduced by a run, any number of further runs reproduces it. -/
theorem C05_cli_iterate (cfg : Cfg) (branch : Bool) (fs : FS) (ord : List (List Lcov.Bytes))
    (B : Lcov.Bytes) (h : runJ cfg branch fs ord [B] = .ok B) (k : Nat) :
    rerunJ cfg branch fs ord k B = .ok B :=
  CliAux.rerun_fixed cfg branch fs ord B h k

/-- The run of these theorems is the run without the Java/Kotlin lookup (`Cli.run`, the model that
`C02_run_extends_cli_run` embeds into the whole-run model) whenever the lookup is not needed: no
source dir, or no `.java` / `.kt` key, or every key existing below the source dir as spelled. -/
theorem C05_cli_runJ_is_run (cfg : Cfg) (branch : Bool) (fs : FS) (ord : List (List Lcov.Bytes))
    (inputs : List Lcov.Bytes)
    (h : cfg.sourceDir = none ∨
      (∀ k ∈ (resultMap cfg branch fs inputs).map (·.1), isPartialExt k = false) ∨
      (∃ s, cfg.sourceDir = some s ∧ ∀ k ∈ (resultMap cfg branch fs inputs).map (·.1),
        fs.exists (push s (removePrefix cfg.prefixDir k)) = true)) :
    runJ cfg branch fs ord inputs = run cfg branch fs inputs := by
  apply runJ_eq_run
  rcases h with h | h | ⟨s, hs, h⟩
  · exact needed_of_no_source h fs _
  · exact needed_of_no_java fs h
  · exact needed_of_all_exist hs h

/-- **CLI fixed point with `-s`.** Source dir `S` clean, absolute and backslash-free; no path
mapping; prefix dir absent or `S` (what `main` sets when `-p` is not given); any `--ignore`,
`--keep-only`, `--filter`, `--ignore-not-existing`; `--branch` on; Java/Kotlin keys and their
partial-path lookup included (any walk order). If the report of the run is writable (`ReportOK`:
names without line terminators and well-formed UTF-8, numbers in range), every reported file is an
existing regular file below `S` reported relative to `S`, and no file is reported twice, then the
run writes a report `B` which a run on `[B]` reproduces byte for byte, and so does every further
run. -/
theorem C05_cli_fixed_point_partial (cfg : Cfg) (fs : FS) (ord : List (List Lcov.Bytes))
    (sn : List Lcov.Bytes) (inputs : List Lcov.Bytes) (rep : List Rewrite.Rec)
    (hS : cfg.sourceDir = some (render ⟨true, sn⟩)) (hM : cfg.mapping = none)
    (hP : cfg.prefixDir = none ∨ cfg.prefixDir = some (render ⟨true, sn⟩))
    (hsn : ∀ n ∈ sn, RealName n ∧ 92 ∉ n)
    (h : reportJ cfg true fs ord inputs = .ok rep) (hw : ReportOK (printable rep))
    (hnd : (rep.map (·.abs)).Nodup)
    (hfiles : ∀ r ∈ rep, ∃ names, names ≠ [] ∧ (∀ n ∈ names, RealName n ∧ 92 ∉ n) ∧
      r.abs = render ⟨true, sn ++ names⟩ ∧ r.rel = join names ∧
      fs.resolve (render ⟨true, sn ++ names⟩) = some (sn ++ names, .file)) :
    runJ cfg true fs ord inputs = .ok (printReport rep)
    ∧ runJ cfg true fs ord [printReport rep] = .ok (printReport rep)
    ∧ ∀ k, rerunJ cfg true fs ord k (printReport rep) = .ok (printReport rep) :=
  CliAux.fixed_point_source cfg true fs ord sn inputs rep hS hM hP hsn h hw (by simp) hnd hfiles

/-- **… with `--branch` off** (second review, item 25): the same guards, the runs made WITHOUT
`--branch` (the reader skips BRDA records; lcov inputs, so no branch data is filed at all): the
report is reproduced byte for byte by a run on it, and by every further run. -/
theorem C05_cli_fixed_point_partial_off (cfg : Cfg) (fs : FS) (ord : List (List Lcov.Bytes))
    (sn : List Lcov.Bytes) (inputs : List Lcov.Bytes) (rep : List Rewrite.Rec)
    (hS : cfg.sourceDir = some (render ⟨true, sn⟩)) (hM : cfg.mapping = none)
    (hP : cfg.prefixDir = none ∨ cfg.prefixDir = some (render ⟨true, sn⟩))
    (hsn : ∀ n ∈ sn, RealName n ∧ 92 ∉ n)
    (h : reportJ cfg false fs ord inputs = .ok rep) (hw : ReportOK (printable rep))
    (hnd : (rep.map (·.abs)).Nodup)
    (hfiles : ∀ r ∈ rep, ∃ names, names ≠ [] ∧ (∀ n ∈ names, RealName n ∧ 92 ∉ n) ∧
      r.abs = render ⟨true, sn ++ names⟩ ∧ r.rel = join names ∧
      fs.resolve (render ⟨true, sn ++ names⟩) = some (sn ++ names, .file)) :
    runJ cfg false fs ord inputs = .ok (printReport rep)
    ∧ runJ cfg false fs ord [printReport rep] = .ok (printReport rep)
    ∧ ∀ k, rerunJ cfg false fs ord k (printReport rep) = .ok (printReport rep) :=
  CliAux.fixed_point_source cfg false fs ord sn inputs rep hS hM hP hsn h hw
    (fun _ => CliAux.reportJ_off_no_branches h) hnd hfiles

/-- **CLI fixed point without path options.** No source dir, no prefix dir, no mapping,
`--ignore-not-existing` off (clean current directory); any `--ignore`, `--keep-only`, `--filter`;
`--branch` on. If the report of the run is writable and no path is reported twice, then a run on
the report reproduces it byte for byte, and so does every further run. -/
theorem C05_cli_fixed_point_plain_partial (cfg : Cfg) (fs : FS) (ord : List (List Lcov.Bytes))
    (inputs : List Lcov.Bytes)
    (rep : List Rewrite.Rec) (hS : cfg.sourceDir = none) (hP : cfg.prefixDir = none)
    (hM : cfg.mapping = none) (hE : cfg.ignoreNotExisting = false) (hcwd : ∀ n ∈ fs.cwd, RealName n)
    (h : reportJ cfg true fs ord inputs = .ok rep) (hw : ReportOK (printable rep))
    (hnd : (rep.map (·.rel)).Nodup) :
    runJ cfg true fs ord inputs = .ok (printReport rep)
    ∧ runJ cfg true fs ord [printReport rep] = .ok (printReport rep)
    ∧ ∀ k, rerunJ cfg true fs ord k (printReport rep) = .ok (printReport rep) :=
  CliAux.fixed_point_plain cfg true fs ord inputs rep hS hP hM hE hcwd h hw (by simp) hnd

/-- … with `--branch` off -/
theorem C05_cli_fixed_point_plain_partial_off (cfg : Cfg) (fs : FS) (ord : List (List Lcov.Bytes))
    (inputs : List Lcov.Bytes)
    (rep : List Rewrite.Rec) (hS : cfg.sourceDir = none) (hP : cfg.prefixDir = none)
    (hM : cfg.mapping = none) (hE : cfg.ignoreNotExisting = false) (hcwd : ∀ n ∈ fs.cwd, RealName n)
    (h : reportJ cfg false fs ord inputs = .ok rep) (hw : ReportOK (printable rep))
    (hnd : (rep.map (·.rel)).Nodup) :
    runJ cfg false fs ord inputs = .ok (printReport rep)
    ∧ runJ cfg false fs ord [printReport rep] = .ok (printReport rep)
    ∧ ∀ k, rerunJ cfg false fs ord k (printReport rep) = .ok (printReport rep) :=
  CliAux.fixed_point_plain cfg false fs ord inputs rep hS hP hM hE hcwd h hw
    (fun _ => CliAux.reportJ_off_no_branches h) hnd

/-! ### the full statement is false: closed byte-level witnesses -/

namespace CliWit
def w1In : Lcov.Bytes := [84, 78, 58, 10, 83, 70, 58, 97, 47, 97, 47, 120, 46, 99, 10, 68, 65, 58, 49, 44, 49, 10, 101, 110, 100, 95, 111, 102, 95, 114, 101, 99, 111, 114, 100, 10]
def w1B1 : Lcov.Bytes := [84, 78, 58, 10, 83, 70, 58, 97, 47, 120, 46, 99, 10, 66, 82, 70, 58, 48, 10, 66, 82, 72, 58, 48, 10, 68, 65, 58, 49, 44, 49, 10, 76, 70, 58, 49, 10, 76, 72, 58, 49, 10, 101, 110, 100, 95, 111, 102, 95, 114, 101, 99, 111, 114, 100, 10]
def w1B2 : Lcov.Bytes := [84, 78, 58, 10, 83, 70, 58, 120, 46, 99, 10, 66, 82, 70, 58, 48, 10, 66, 82, 72, 58, 48, 10, 68, 65, 58, 49, 44, 49, 10, 76, 70, 58, 49, 10, 76, 72, 58, 49, 10, 101, 110, 100, 95, 111, 102, 95, 114, 101, 99, 111, 114, 100, 10]
def w2In : Lcov.Bytes := [84, 78, 58, 10, 83, 70, 58, 102, 111, 111, 47, 102, 111, 111, 47, 98, 97, 114, 46, 99, 10, 68, 65, 58, 49, 44, 49, 10, 101, 110, 100, 95, 111, 102, 95, 114, 101, 99, 111, 114, 100, 10]
def w2B1 : Lcov.Bytes := [84, 78, 58, 10, 83, 70, 58, 102, 111, 111, 47, 98, 97, 114, 46, 99, 10, 66, 82, 70, 58, 48, 10, 66, 82, 72, 58, 48, 10, 68, 65, 58, 49, 44, 49, 10, 76, 70, 58, 49, 10, 76, 72, 58, 49, 10, 101, 110, 100, 95, 111, 102, 95, 114, 101, 99, 111, 114, 100, 10]
def w2B2 : Lcov.Bytes := [84, 78, 58, 10, 83, 70, 58, 98, 97, 114, 46, 99, 10, 66, 82, 70, 58, 48, 10, 66, 82, 72, 58, 48, 10, 68, 65, 58, 49, 44, 49, 10, 76, 70, 58, 49, 10, 76, 72, 58, 49, 10, 101, 110, 100, 95, 111, 102, 95, 114, 101, 99, 111, 114, 100, 10]
def w3In : Lcov.Bytes := [84, 78, 58, 10, 83, 70, 58, 47, 120, 47, 46, 46, 47, 112, 47, 97, 46, 99, 10, 68, 65, 58, 49, 44, 49, 10, 101, 110, 100, 95, 111, 102, 95, 114, 101, 99, 111, 114, 100, 10]
def w3B1 : Lcov.Bytes := [84, 78, 58, 10, 83, 70, 58, 47, 112, 47, 97, 46, 99, 10, 66, 82, 70, 58, 48, 10, 66, 82, 72, 58, 48, 10, 68, 65, 58, 49, 44, 49, 10, 76, 70, 58, 49, 10, 76, 72, 58, 49, 10, 101, 110, 100, 95, 111, 102, 95, 114, 101, 99, 111, 114, 100, 10]
def w3B2 : Lcov.Bytes := [84, 78, 58, 10, 83, 70, 58, 97, 46, 99, 10, 66, 82, 70, 58, 48, 10, 66, 82, 72, 58, 48, 10, 68, 65, 58, 49, 44, 49, 10, 76, 70, 58, 49, 10, 76, 72, 58, 49, 10, 101, 110, 100, 95, 111, 102, 95, 114, 101, 99, 111, 114, 100, 10]
def w4In : Lcov.Bytes := [84, 78, 58, 10, 83, 70, 58, 120, 47, 46, 46, 47, 97, 46, 99, 10, 68, 65, 58, 49, 44, 49, 10, 101, 110, 100, 95, 111, 102, 95, 114, 101, 99, 111, 114, 100, 10, 83, 70, 58, 97, 46, 99, 10, 68, 65, 58, 50, 44, 49, 10, 101, 110, 100, 95, 111, 102, 95, 114, 101, 99, 111, 114, 100, 10]
def w4B1 : Lcov.Bytes := [84, 78, 58, 10, 83, 70, 58, 97, 46, 99, 10, 66, 82, 70, 58, 48, 10, 66, 82, 72, 58, 48, 10, 68, 65, 58, 49, 44, 49, 10, 76, 70, 58, 49, 10, 76, 72, 58, 49, 10, 101, 110, 100, 95, 111, 102, 95, 114, 101, 99, 111, 114, 100, 10, 83, 70, 58, 97, 46, 99, 10, 66, 82, 70, 58, 48, 10, 66, 82, 72, 58, 48, 10, 68, 65, 58, 50, 44, 49, 10, 76, 70, 58, 49, 10, 76, 72, 58, 49, 10, 101, 110, 100, 95, 111, 102, 95, 114, 101, 99, 111, 114, 100, 10]
def w4B2 : Lcov.Bytes := [84, 78, 58, 10, 83, 70, 58, 97, 46, 99, 10, 66, 82, 70, 58, 48, 10, 66, 82, 72, 58, 48, 10, 68, 65, 58, 49, 44, 49, 10, 68, 65, 58, 50, 44, 49, 10, 76, 70, 58, 50, 10, 76, 72, 58, 50, 10, 101, 110, 100, 95, 111, 102, 95, 114, 101, 99, 111, 114, 100, 10]
def w5In : Lcov.Bytes := [84, 78, 58, 10, 83, 70, 58, 115, 114, 99, 92, 97, 46, 99, 10, 68, 65, 58, 49, 44, 49, 10, 101, 110, 100, 95, 111, 102, 95, 114, 101, 99, 111, 114, 100, 10]
def w5B1 : Lcov.Bytes := [84, 78, 58, 10, 83, 70, 58, 115, 114, 99, 47, 97, 46, 99, 10, 66, 82, 70, 58, 48, 10, 66, 82, 72, 58, 48, 10, 68, 65, 58, 49, 44, 49, 10, 76, 70, 58, 49, 10, 76, 72, 58, 49, 10, 101, 110, 100, 95, 111, 102, 95, 114, 101, 99, 111, 114, 100, 10]
def w5B2 : Lcov.Bytes := [84, 78, 58, 10, 83, 70, 58, 97, 46, 99, 10, 66, 82, 70, 58, 48, 10, 66, 82, 72, 58, 48, 10, 68, 65, 58, 49, 44, 49, 10, 76, 70, 58, 49, 10, 76, 72, 58, 49, 10, 101, 110, 100, 95, 111, 102, 95, 114, 101, 99, 111, 114, 100, 10]
def w5Fs : FS := { files := [[[115], [115, 114, 99], [97, 46, 99]]], dirs := [[[115]], [[115], [115, 114, 99]]], cwd := [[115]] }
def w5Cfg : Cfg := { sourceDir := some [47, 115], prefixDir := some [47, 115, 47, 115, 114, 99] }
def jIn : Lcov.Bytes := [84, 78, 58, 10, 83, 70, 58, 112, 107, 103, 47, 65, 46, 106, 97, 118, 97, 10, 68, 65, 58, 49, 44, 49, 10, 101, 110, 100, 95, 111, 102, 95, 114, 101, 99, 111, 114, 100, 10]
def jB1 : Lcov.Bytes := [84, 78, 58, 10, 83, 70, 58, 109, 97, 105, 110, 47, 106, 97, 118, 97, 47, 112, 107, 103, 47, 65, 46, 106, 97, 118, 97, 10, 66, 82, 70, 58, 48, 10, 66, 82, 72, 58, 48, 10, 68, 65, 58, 49, 44, 49, 10, 76, 70, 58, 49, 10, 76, 72, 58, 49, 10, 101, 110, 100, 95, 111, 102, 95, 114, 101, 99, 111, 114, 100, 10]
def jFs : FS := { files := [[[115], [109, 97, 105, 110], [106, 97, 118, 97], [112, 107, 103], [65, 46, 106, 97, 118, 97]]],
                  dirs := [[[115]], [[115], [109, 97, 105, 110]], [[115], [109, 97, 105, 110], [106, 97, 118, 97]],
                           [[115], [109, 97, 105, 110], [106, 97, 118, 97], [112, 107, 103]]], cwd := [[115]] }
def jOrd : List (List Lcov.Bytes) := [[[115]], [[115], [109, 97, 105, 110]], [[115], [109, 97, 105, 110], [106, 97, 118, 97]],
  [[115], [109, 97, 105, 110], [106, 97, 118, 97], [112, 107, 103]],
  [[115], [109, 97, 105, 110], [106, 97, 118, 97], [112, 107, 103], [65, 46, 106, 97, 118, 97]]]
def goodIn : Lcov.Bytes := [84, 78, 58, 10, 83, 70, 58, 102, 111, 111, 47, 47, 46, 47, 98, 97, 114, 46, 99, 10, 68, 65, 58, 55, 44, 49, 10, 68, 65, 58, 51, 44, 50, 10, 70, 78, 58, 51, 44, 102, 10, 70, 78, 68, 65, 58, 49, 44, 102, 10, 66, 82, 68, 65, 58, 51, 44, 48, 44, 49, 44, 49, 10, 101, 110, 100, 95, 111, 102, 95, 114, 101, 99, 111, 114, 100, 10]
def goodFs : FS := { files := [[[115], [102, 111, 111], [98, 97, 114, 46, 99]]],
                     dirs := [[[115]], [[115], [102, 111, 111]]], cwd := [[115]] }
def goodCfg : Cfg := { sourceDir := some [47, 115], prefixDir := some [47, 115] }
end CliWit
open CliWit

/-- Witness 1 (C05-relative-prefix-restripped at CLI level): `grcov in.info -t lcov --branch -p a`
on `SF:a/a/x.c` writes a report with `SF:a/x.c`; the same command on that report writes `SF:x.c`. -/
theorem C05_cli_relative_prefix_witness :
    Cli.runJ { prefixDir := some [97] } true { files := [], dirs := [], cwd := [] } [] [w1In] = Res.ok w1B1
    ∧ Cli.runJ { prefixDir := some [97] } true { files := [], dirs := [], cwd := [] } [] [w1B1] = Res.ok w1B2 ∧ w1B1 ≠ w1B2 := by
  decide +kernel

/-- Witness 2 (C05-source-dir-name-restripped): `-s /x/foo` (an existing directory), input
`SF:foo/foo/bar.c` (no such file): the report says `SF:foo/bar.c`, the re-import `SF:bar.c`. -/
theorem C05_cli_source_name_witness :
    Cli.runJ { sourceDir := some [47, 120, 47, 102, 111, 111] } true
        { files := [], dirs := [[[120]], [[120], [102, 111, 111]]], cwd := [[120]] } [] [w2In] = Res.ok w2B1
    ∧ Cli.runJ { sourceDir := some [47, 120, 47, 102, 111, 111] } true
        { files := [], dirs := [[[120]], [[120], [102, 111, 111]]], cwd := [[120]] } [] [w2B1] = Res.ok w2B2 ∧ w2B1 ≠ w2B2 := by
  decide +kernel

/-- Witness 3 (C05-prefix-behind-dotdot-restripped): `-p /p`, input `SF:/x/../p/a.c`: the report
says `SF:/p/a.c`, the re-import `SF:a.c`. -/
theorem C05_cli_prefix_dotdot_witness :
    Cli.runJ { prefixDir := some [47, 112] } true { files := [], dirs := [], cwd := [] } [] [w3In] = Res.ok w3B1
    ∧ Cli.runJ { prefixDir := some [47, 112] } true { files := [], dirs := [], cwd := [] } [] [w3B1] = Res.ok w3B2 ∧ w3B1 ≠ w3B2 := by
  decide +kernel

/-- Witness 4 (the duplicates guard, known finding C12-respelled-duplicates): no option at all, one
input naming the same file twice as `x/../a.c` and `a.c`: the report lists `SF:a.c` twice (two
sections), the re-import merges them into one. -/
theorem C05_cli_duplicates_witness :
    Cli.runJ {} true { files := [], dirs := [], cwd := [] } [] [w4In] = Res.ok w4B1
    ∧ Cli.runJ {} true { files := [], dirs := [], cwd := [] } [] [w4B1] = Res.ok w4B2 ∧ w4B1 ≠ w4B2 := by
  decide +kernel

/-- Witness 5 (finding C05-abs-prefix-below-source-restripped; second review, item 25): `-s /s
-p /s/src`, the file `/s/src/a.c` ON DISK, input `SF:src\a.c` (also `srcroot/src/a.c`,
`src\sub\..\a.c`: any spelling `add_results` cannot canonicalise). The first run reports
`SF:src/a.c`. The second run's `add_results` canonicalises that path to `/s/src/a.c`, which lies
below the prefix dir, so `rewrite_paths` strips `/s/src` and reports `SF:a.c` – violating none of
the three rewrite findings (the prefix is absolute, the file exists below the source dir). The
guard it violates is `hP` of `C05_cli_fixed_point_partial`: prefix dir absent or EQUAL to the
source dir. -/
theorem C05_cli_abs_prefix_below_source_witness :
    Cli.runJ w5Cfg true w5Fs [] [w5In] = Res.ok w5B1
    ∧ Cli.runJ w5Cfg true w5Fs [] [w5B1] = Res.ok w5B2 ∧ w5B1 ≠ w5B2 := by
  decide +kernel

/-- … while the rewrite alone IS idempotent there (`reKeys` feeds the reported path back as it is;
only `add_results` canonicalises it first): the fourth non-idempotence exists at CLI level only -/
theorem C05_cli_abs_prefix_rewrite_alone_idempotent :
    rewriteTwice w5Cfg w5Fs [([115, 114, 99, 92, 97, 46, 99], {})]
      = rewritePaths w5Cfg w5Fs [([115, 114, 99, 92, 97, 46, 99], {})] := by decide

theorem C05_cli_fixed_point_false : ¬ C05_cli_fixed_point_stmt := by
  intro h
  have h2 := h _ _ _ _ _ rfl C05_cli_relative_prefix_witness.1
  rw [C05_cli_relative_prefix_witness.2.1] at h2
  exact C05_cli_relative_prefix_witness.2.2 (by cases h2)

/-- non-vacuity of `C05_cli_fixed_point_partial`: `/s/foo/bar.c` exists, `-s /s` (so the prefix dir is
`/s` too); the input spells the file `foo//./bar.c` with lines out of order, a function and a
branch; the run reports `foo/bar.c`, and a run on that report – which `add_results` files under
the canonical key `/s/foo/bar.c` – writes the same bytes, as do two more -/
example :
    ∃ B, Cli.runJ goodCfg true goodFs [] [goodIn] = Res.ok B ∧ Cli.runJ goodCfg true goodFs [] [B] = Res.ok B
      ∧ rerunJ goodCfg true goodFs [] 2 B = Res.ok B ∧ B ≠ goodIn
      ∧ Cli.runJ goodCfg false goodFs [] [goodIn] ≠ Res.ok B := by
  refine ⟨(match Cli.runJ goodCfg true goodFs [] [goodIn] with | .ok b => b | _ => []), ?_⟩
  decide +kernel

/-- non-vacuity with a Java file (second review, item 26): `-s /s`, `/s/main/java/pkg/A.java` on
disk, input `SF:pkg/A.java` – the run with the lookup reports `SF:main/java/pkg/A.java` (as the
real binary does), the run without it `SF:pkg/A.java`; the report of the former is reproduced by a
run on it -/
example :
    Cli.runJ { sourceDir := some [47, 115], prefixDir := some [47, 115] } true jFs jOrd [jIn] = Res.ok jB1
    ∧ Cli.runJ { sourceDir := some [47, 115], prefixDir := some [47, 115] } true jFs jOrd [jB1] = Res.ok jB1
    ∧ Cli.run { sourceDir := some [47, 115], prefixDir := some [47, 115] } true jFs [jIn] ≠ Res.ok jB1 := by
  decide +kernel

end Grcov.Props.C05
