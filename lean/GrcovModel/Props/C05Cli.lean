/-
C05, part `Cli` — the fixed point at the level of the command line: one grcov RUN on lcov inputs
with lcov output is the function `Cli.run cfg branch fs : List Bytes → Res Bytes` (GrcovModel/
Cli.lean: parse every input, `add_results` under canonicalised keys, `rewrite_paths`, `output_lcov`),
tied to the real binary by the correspondence runs of C05 (CLI chains) and C06 (shard trees).
Feeding the report a run wrote back into a run with the same options reproduces it BYTE FOR BYTE –
in the model, where the two hash maps (result map, function table) iterate in insertion order; the
real order is a parameter, so the transferred statement is "as a multiset of sections, function
records of a file as a set" – under the union of the guards of the pieces:
* the report is writable and re-readable: paths and function names without line terminators and
  well-formed UTF-8, numbers within u32/u64 (`ReportOK`, C05);
* no two reported files are filed under the same key by the next run (the C12 duplicates guard);
* the rewrite guards of Props/C05Rewrite.lean (no path mapping; either no path option at all, or a
  clean absolute source dir with the prefix dir absent or equal to it – what `main` sets without
  `-p` – and every reported file existing below the source dir).
The full statement is false: the three rewrite counter-examples of C05Rewrite and the C12
duplicates are lifted to closed byte-level witnesses of `Cli.run`.
Helper lemmas: GrcovModel/Lemmas/Cli.lean.
-/
import GrcovModel.Lemmas.Cli
namespace Grcov.Props.C05
open Grcov AList Grcov.Lcov Grcov.Rewrite Grcov.UPath Grcov.Cli

namespace CliAux

/-- **The second run.** If the report of a run is writable, its files are filed under distinct keys
by the next run, and every reported path – as the key `add_results` makes of it – is rewritten to
itself, then a run on the written report writes the same bytes. -/
theorem second_run (cfg : Cfg) (fs : FS) (inputs : List Lcov.Bytes) (rep : List Rewrite.Rec)
    (h : report cfg true fs inputs = .ok rep) (hw : ReportOK (printable rep))
    (hd : ((rep.map (·.rel)).map (addCanon fs cfg.sourceDir)).Nodup)
    (hrw : ∀ r ∈ rep, ∃ a, rewriteKey cfg fs (addCanon fs cfg.sourceDir r.rel, norm r.cov)
        = .ok (some ⟨a, r.rel, norm r.cov⟩)) :
    run cfg true fs [printReport rep] = .ok (printReport rep) := by
  obtain ⟨habs, _, _⟩ := (rewritePaths_eq_ok cfg fs _ rep).1 h
  let key : Rewrite.Rec → Lcov.Bytes × Cov := fun r => (addCanon fs cfg.sourceDir r.rel, norm r.cov)
  let g : Rewrite.Rec → Rewrite.Rec := fun r => (okPart (rewriteKey cfg fs (key r))).getD r
  have hg : ∀ r ∈ rep, rewriteKey cfg fs (key r) = .ok (some (g r)) ∧
      g r = ⟨(g r).abs, r.rel, norm r.cov⟩ := by
    intro r hr
    obtain ⟨a, ha⟩ := hrw r hr
    have e : g r = ⟨a, r.rel, norm r.cov⟩ := by simp [g, key, ha, okPart]
    exact ⟨by rw [e]; exact ha, by rw [e]⟩
  have hmap : resultMap cfg true fs [printReport rep] = rep.map key := by
    simp only [resultMap, List.foldl_cons, List.foldl_nil, parseInput_printReport rep hw]
    rw [addResults_distinct _ [] _ (by rw [List.map_map, List.map_map] at *; exact hd) (by simp [keys])]
    simp [key, List.map_map, Function.comp]
  have hrep : report cfg true fs [printReport rep] = .ok (rep.map g) := by
    unfold report
    rw [hmap]
    exact rewritePaths_map_ok cfg fs rep key g habs fun r hr => (hg r hr).1
  unfold Cli.run
  rw [hrep]
  simp only
  have e : rep.map g = rep.map fun r => ⟨(g r).abs, r.rel, norm r.cov⟩ :=
    List.map_congr_left fun r hr => (hg r hr).2
  rw [e, printReport_norm rep (fun r => (g r).abs) hw]

theorem rerun_fixed (cfg : Cfg) (branch : Bool) (fs : FS) (B : Lcov.Bytes)
    (h : run cfg branch fs [B] = .ok B) (k : Nat) : rerun cfg branch fs k B = .ok B := by
  induction k with
  | zero => rfl
  | succ k ih => simp only [rerun, h, ih]

end CliAux

/-- the full statement: whatever the options (path mapping aside), file system and inputs, a run on
the report of a run writes the same report. FALSE of the code. -/
def C05_cli_fixed_point_stmt : Prop :=
  ∀ (cfg : Cfg) (fs : FS) (inputs : List Lcov.Bytes) (B : Lcov.Bytes),
    cfg.mapping = none → run cfg true fs inputs = .ok B → run cfg true fs [B] = .ok B

/-- Iterating: once a report is reproduced by a run, any number of further runs reproduces it. -/
theorem C05_cli_iterate (cfg : Cfg) (branch : Bool) (fs : FS) (B : Lcov.Bytes)
    (h : run cfg branch fs [B] = .ok B) (k : Nat) : rerun cfg branch fs k B = .ok B :=
  CliAux.rerun_fixed cfg branch fs B h k

/-- **CLI fixed point with `-s`.** Source dir `S` clean, absolute and backslash-free; no path
mapping; prefix dir absent or `S` (what `main` sets when `-p` is not given); any `--ignore`,
`--keep-only`, `--filter`, `--ignore-not-existing`; `--branch` on. If the report of the run is
writable (`ReportOK`: names without line terminators and well-formed UTF-8, numbers in range), every
reported file is an existing regular file below `S` reported relative to `S`, and no file is
reported twice, then the run writes a report `B` which a run on `[B]` reproduces byte for byte, and
so does every further run. -/
theorem C05_cli_fixed_point_partial (cfg : Cfg) (fs : FS) (sn : List Lcov.Bytes)
    (inputs : List Lcov.Bytes) (rep : List Rewrite.Rec)
    (hS : cfg.sourceDir = some (render ⟨true, sn⟩)) (hM : cfg.mapping = none)
    (hP : cfg.prefixDir = none ∨ cfg.prefixDir = some (render ⟨true, sn⟩))
    (hsn : ∀ n ∈ sn, RealName n ∧ 92 ∉ n)
    (h : report cfg true fs inputs = .ok rep) (hw : ReportOK (printable rep))
    (hnd : (rep.map (·.abs)).Nodup)
    (hfiles : ∀ r ∈ rep, ∃ names, names ≠ [] ∧ (∀ n ∈ names, RealName n ∧ 92 ∉ n) ∧
      r.abs = render ⟨true, sn ++ names⟩ ∧ r.rel = join names ∧
      fs.resolve (render ⟨true, sn ++ names⟩) = some (sn ++ names, .file)) :
    run cfg true fs inputs = .ok (printReport rep)
    ∧ run cfg true fs [printReport rep] = .ok (printReport rep)
    ∧ ∀ k, rerun cfg true fs k (printReport rep) = .ok (printReport rep) := by
  have hsn1 : ∀ n ∈ sn, RealName n := fun n hn => (hsn n hn).1
  have hcanon : ∀ r ∈ rep, addCanon fs cfg.sourceDir r.rel = r.abs := by
    intro r hr
    obtain ⟨names, hne, hn, ea, er, hres⟩ := hfiles r hr
    rw [hS, er, ea]
    exact addCanon_under_source hsn1 (fun n h => (hn n h).1) hne hres
  have h2 : run cfg true fs [printReport rep] = .ok (printReport rep) := by
    apply CliAux.second_run cfg fs inputs rep h hw
    · have : (rep.map (·.rel)).map (addCanon fs cfg.sourceDir) = rep.map (·.abs) := by
        rw [List.map_map]; exact List.map_congr_left fun r hr => hcanon r hr
      rw [this]; exact hnd
    · intro r hr
      obtain ⟨names, hne, hn, ea, er, hres⟩ := hfiles r hr
      obtain ⟨kc, _, hk⟩ := (mem_rewritePaths h r).1 hr
      obtain ⟨a, rl, _, hsel⟩ := (rewriteKey_some_iff _ _ _ _).1 hk
      obtain ⟨h1, h2, h3, h4, e⟩ := (selectRec_some_iff _ _ _ _ _ _).1 hsel
      refine ⟨r.abs, ?_⟩
      rw [hcanon r hr, rewriteKey_some_iff]
      refine ⟨r.abs, r.rel, ?_, ?_⟩
      · show resolveKey cfg fs r.abs = _
        rw [ea, er]
        exact resolveKey_canonical_under_source hS hM hP hsn hn hne hres
      · rw [selectRec_some_iff]
        subst e
        exact ⟨h1, h2, h3, by rw [filterOk_norm]; exact h4, rfl⟩
  refine ⟨by simp only [Cli.run, h], h2, CliAux.rerun_fixed cfg true fs _ h2⟩

/-- **CLI fixed point without path options.** No source dir, no prefix dir, no mapping,
`--ignore-not-existing` off (clean current directory); any `--ignore`, `--keep-only`, `--filter`;
`--branch` on. If the report of the run is writable and no path is reported twice, then a run on
the report reproduces it byte for byte, and so does every further run. -/
theorem C05_cli_fixed_point_plain_partial (cfg : Cfg) (fs : FS) (inputs : List Lcov.Bytes)
    (rep : List Rewrite.Rec) (hS : cfg.sourceDir = none) (hP : cfg.prefixDir = none)
    (hM : cfg.mapping = none) (hE : cfg.ignoreNotExisting = false) (hcwd : ∀ n ∈ fs.cwd, RealName n)
    (h : report cfg true fs inputs = .ok rep) (hw : ReportOK (printable rep))
    (hnd : (rep.map (·.rel)).Nodup) :
    run cfg true fs inputs = .ok (printReport rep)
    ∧ run cfg true fs [printReport rep] = .ok (printReport rep)
    ∧ ∀ k, rerun cfg true fs k (printReport rep) = .ok (printReport rep) := by
  have hcanon : ∀ k, addCanon fs cfg.sourceDir k = k := by intro k; rw [hS]; rfl
  have h2 : run cfg true fs [printReport rep] = .ok (printReport rep) := by
    apply CliAux.second_run cfg fs inputs rep h hw
    · have : (rep.map (·.rel)).map (addCanon fs cfg.sourceDir) = rep.map (·.rel) := by
        rw [List.map_congr_left (g := id) fun k _ => hcanon k]; simp
      rw [this]; exact hnd
    · intro r hr
      obtain ⟨kc, _, hk⟩ := (mem_rewritePaths h r).1 hr
      obtain ⟨a, rl, hres, hsel⟩ := (rewriteKey_some_iff _ _ _ _).1 hk
      obtain ⟨h1, h2, _, h4, e⟩ := (selectRec_some_iff _ _ _ _ _ _).1 hsel
      obtain ⟨r0, _, hf⟩ := resolveKey_some hres
      obtain ⟨⟨np, enp, hreal⟩, hnb⟩ := finalRel_shape hf
      have erel : r.rel = render np := by rw [e]; exact enp
      obtain ⟨a', ha'⟩ := resolveKey_plain_normal (fs := fs) hS hP hM hcwd hreal (enp ▸ hnb)
      refine ⟨a', ?_⟩
      rw [hcanon, rewriteKey_some_iff]
      refine ⟨a', r.rel, by rw [erel]; exact ha', ?_⟩
      rw [selectRec_some_iff]
      subst e
      exact ⟨h1, h2, by simp [hE], by rw [filterOk_norm]; exact h4, rfl⟩
  refine ⟨by simp only [Cli.run, h], h2, CliAux.rerun_fixed cfg true fs _ h2⟩

/-! ### the full statement is false: closed byte-level witnesses -/

namespace CliWit
def w1In : Lcov.Bytes := [84, 78, 58, 10, 83, 70, 58, 97, 47, 97, 47, 120, 46, 99, 10, 68, 65, 58, 49, 44, 49, 10, 101, 110, 100, 95, 111, 102, 95, 114, 101, 99, 111, 114, 100, 10]
def w1B1 : Lcov.Bytes := [84, 78, 58, 10, 83, 70, 58, 97, 47, 120, 46, 99, 10, 66, 82, 70, 58, 48, 10, 66, 82, 72, 58, 48, 10, 68, 65, 58, 49, 44, 49, 10, 76, 70, 58, 49, 10, 76, 72, 58, 49, 10, 101, 110, 100, 95, 111, 102, 95, 114, 101, 99, 111, 114, 100, 10]
def w1B2 : Lcov.Bytes := [84, 78, 58, 10, 83, 70, 58, 120, 46, 99, 10, 66, 82, 70, 58, 48, 10, 66, 82, 72, 58, 48, 10, 68, 65, 58, 49, 44, 49, 10, 76, 70, 58, 49, 10, 76, 72, 58, 49, 10, 101, 110, 100, 95, 111, 102, 95, 114, 101, 99, 111, 114, 100, 10]
def w2In : Lcov.Bytes := [84, 78, 58, 10, 83, 70, 58, 102, 111, 111, 47, 102, 111, 111, 47, 98, 97, 114, 46, 99, 10, 68, 65, 58, 49, 44, 49, 10, 101, 110, 100, 95, 111, 102, 95, 114, 101, 99, 111, 114, 100, 10]
def w2B1 : Lcov.Bytes := [84, 78, 58, 10, 83, 70, 58, 102, 111, 111, 47, 98, 97, 114, 46, 99, 10, 66, 82, 70, 58, 48, 10, 66, 82, 72, 58, 48, 10, 68, 65, 58, 49, 44, 49, 10, 76, 70, 58, 49, 10, 76, 72, 58, 49, 10, 101, 110, 100, 95, 111, 102, 95, 114, 101, 99, 111, 114, 100, 10]
def w2B2 : Lcov.Bytes := [84, 78, 58, 10, 83, 70, 58, 98, 97, 114, 46, 99, 10, 66, 82, 70, 58, 48, 10, 66, 82, 72, 58, 48, 10, 68, 65, 58, 49, 44, 49, 10, 76, 70, 58, 49, 10, 76, 72, 58, 49, 10, 101, 110, 100, 95, 111, 102, 95, 114, 101, 99, 111, 114, 100, 10]
def w3In : Lcov.Bytes := [84, 78, 58, 10, 83, 70, 58, 47, 120, 47, 46, 46, 47, 112, 47, 97, 46, 99, 10, 68, 65, 58, 49, 44, 49, 10, 101, 110, 100, 95, 111, 102, 95, 114, 101, 99, 111, 114, 100, 10]
def w3B1 : Lcov.Bytes := [84, 78, 58, 10, 83, 70, 58, 47, 112, 47, 97, 46, 99, 10, 66, 82, 70, 58, 48, 10, 66, 82, 72, 58, 48, 10, 68, 65, 58, 49, 44, 49, 10, 76, 70, 58, 49, 10, 76, 72, 58, 49, 10, 101, 110, 100, 95, 111, 102, 95, 114, 101, 99, 111, 114, 100, 10]
def w3B2 : Lcov.Bytes := [84, 78, 58, 10, 83, 70, 58, 97, 46, 99, 10, 66, 82, 70, 58, 48, 10, 66, 82, 72, 58, 48, 10, 68, 65, 58, 49, 44, 49, 10, 76, 70, 58, 49, 10, 76, 72, 58, 49, 10, 101, 110, 100, 95, 111, 102, 95, 114, 101, 99, 111, 114, 100, 10]
def w4In : Lcov.Bytes := [84, 78, 58, 10, 83, 70, 58, 120, 47, 46, 46, 47, 97, 46, 99, 10, 68, 65, 58, 49, 44, 49, 10, 101, 110, 100, 95, 111, 102, 95, 114, 101, 99, 111, 114, 100, 10, 83, 70, 58, 97, 46, 99, 10, 68, 65, 58, 50, 44, 49, 10, 101, 110, 100, 95, 111, 102, 95, 114, 101, 99, 111, 114, 100, 10]
def w4B1 : Lcov.Bytes := [84, 78, 58, 10, 83, 70, 58, 97, 46, 99, 10, 66, 82, 70, 58, 48, 10, 66, 82, 72, 58, 48, 10, 68, 65, 58, 49, 44, 49, 10, 76, 70, 58, 49, 10, 76, 72, 58, 49, 10, 101, 110, 100, 95, 111, 102, 95, 114, 101, 99, 111, 114, 100, 10, 83, 70, 58, 97, 46, 99, 10, 66, 82, 70, 58, 48, 10, 66, 82, 72, 58, 48, 10, 68, 65, 58, 50, 44, 49, 10, 76, 70, 58, 49, 10, 76, 72, 58, 49, 10, 101, 110, 100, 95, 111, 102, 95, 114, 101, 99, 111, 114, 100, 10]
def w4B2 : Lcov.Bytes := [84, 78, 58, 10, 83, 70, 58, 97, 46, 99, 10, 66, 82, 70, 58, 48, 10, 66, 82, 72, 58, 48, 10, 68, 65, 58, 49, 44, 49, 10, 68, 65, 58, 50, 44, 49, 10, 76, 70, 58, 50, 10, 76, 72, 58, 50, 10, 101, 110, 100, 95, 111, 102, 95, 114, 101, 99, 111, 114, 100, 10]
def goodIn : Lcov.Bytes := [84, 78, 58, 10, 83, 70, 58, 102, 111, 111, 47, 47, 46, 47, 98, 97, 114, 46, 99, 10, 68, 65, 58, 55, 44, 49, 10, 68, 65, 58, 51, 44, 50, 10, 70, 78, 58, 51, 44, 102, 10, 70, 78, 68, 65, 58, 49, 44, 102, 10, 66, 82, 68, 65, 58, 51, 44, 48, 44, 49, 44, 49, 10, 101, 110, 100, 95, 111, 102, 95, 114, 101, 99, 111, 114, 100, 10]
def goodFs : FS := { files := [[[115], [102, 111, 111], [98, 97, 114, 46, 99]]],
                     dirs := [[[115]], [[115], [102, 111, 111]]], cwd := [[115]] }
def goodCfg : Cfg := { sourceDir := some [47, 115], prefixDir := some [47, 115] }
end CliWit
open CliWit

/-- Witness 1 (C05-relative-prefix-restripped at CLI level): `grcov in.info -t lcov --branch -p a`
on `SF:a/a/x.c` writes a report with `SF:a/x.c`; the same command on that report writes `SF:x.c`. -/
theorem C05_cli_relative_prefix_witness :
    Cli.run { prefixDir := some [97] } true { files := [], dirs := [], cwd := [] } [w1In] = Res.ok w1B1
    ∧ Cli.run { prefixDir := some [97] } true { files := [], dirs := [], cwd := [] } [w1B1] = Res.ok w1B2 ∧ w1B1 ≠ w1B2 := by
  decide +kernel

/-- Witness 2 (C05-source-dir-name-restripped): `-s /x/foo` (an existing directory), input
`SF:foo/foo/bar.c` (no such file): the report says `SF:foo/bar.c`, the re-import `SF:bar.c`. -/
theorem C05_cli_source_name_witness :
    Cli.run { sourceDir := some [47, 120, 47, 102, 111, 111] } true
        { files := [], dirs := [[[120]], [[120], [102, 111, 111]]], cwd := [[120]] } [w2In] = Res.ok w2B1
    ∧ Cli.run { sourceDir := some [47, 120, 47, 102, 111, 111] } true
        { files := [], dirs := [[[120]], [[120], [102, 111, 111]]], cwd := [[120]] } [w2B1] = Res.ok w2B2 ∧ w2B1 ≠ w2B2 := by
  decide +kernel

/-- Witness 3 (C05-prefix-behind-dotdot-restripped): `-p /p`, input `SF:/x/../p/a.c`: the report
says `SF:/p/a.c`, the re-import `SF:a.c`. -/
theorem C05_cli_prefix_dotdot_witness :
    Cli.run { prefixDir := some [47, 112] } true { files := [], dirs := [], cwd := [] } [w3In] = Res.ok w3B1
    ∧ Cli.run { prefixDir := some [47, 112] } true { files := [], dirs := [], cwd := [] } [w3B1] = Res.ok w3B2 ∧ w3B1 ≠ w3B2 := by
  decide +kernel

/-- Witness 4 (the duplicates guard, known finding C12-respelled-duplicates): no option at all, one
input naming the same file twice as `x/../a.c` and `a.c`: the report lists `SF:a.c` twice (two
sections), the re-import merges them into one. -/
theorem C05_cli_duplicates_witness :
    Cli.run {} true { files := [], dirs := [], cwd := [] } [w4In] = Res.ok w4B1
    ∧ Cli.run {} true { files := [], dirs := [], cwd := [] } [w4B1] = Res.ok w4B2 ∧ w4B1 ≠ w4B2 := by
  decide +kernel

theorem C05_cli_fixed_point_false : ¬ C05_cli_fixed_point_stmt := by
  intro h
  have h2 := h _ _ _ _ rfl C05_cli_relative_prefix_witness.1
  rw [C05_cli_relative_prefix_witness.2.1] at h2
  exact C05_cli_relative_prefix_witness.2.2 (by cases h2)

/-- non-vacuity of `C05_cli_fixed_point_partial`: `/s/foo/bar.c` exists, `-s /s` (so the prefix dir is
`/s` too); the input spells the file `foo//./bar.c` with lines out of order, a function and a
branch; the run reports `foo/bar.c`, and a run on that report – which `add_results` files under
the canonical key `/s/foo/bar.c` – writes the same bytes, as do two more -/
example :
    ∃ B, Cli.run goodCfg true goodFs [goodIn] = Res.ok B ∧ Cli.run goodCfg true goodFs [B] = Res.ok B
      ∧ rerun goodCfg true goodFs 2 B = Res.ok B ∧ B ≠ goodIn := by
  refine ⟨(match Cli.run goodCfg true goodFs [goodIn] with | .ok b => b | _ => []), ?_⟩
  decide +kernel

end Grcov.Props.C05
