/-
C03, part Main — the dispatch of `main` (src/main.rs 312-611, `OutputType::to_file_name` 58-78)
is inside the model (`MainGlue.plan`), for ALL option records, environments and record lists:

* every requested type is written exactly once per occurrence, in the order given, to
  `to_file_name(type, -o)`; with several types and an `-o` that is not a directory the run is a
  panic and NO report is written (never a partial set);
* inside an output directory two different types never share a file — EXCEPT the pair
  cobertura / cobertura-pretty, which main.rs 69-71 sends to the same `cobertura.xml`: the
  full-strength statement is false (`C03_main_distinct_dest_false`, closed witness
  `-t cobertura,cobertura-pretty -o <dir>`: the second report overwrites the first; finding
  C03-main-cobertura-pair-same-file), the `_partial` theorem carries exactly that guard;
* `--sort-output-types`: a type receives the sorted list iff it is named there; the sorted list is
  a permutation of the unsorted one, ordered by the absolute path — the option changes nothing
  but the record order;
* thread count ≥ 1 and queue capacity 2·N for every accepted plan (`--threads 0` is a panic with
  exit status 1, never a hang), one private working directory per consumer;
* `demangle = !no_demangle` reaches exactly the writers that print function names, `--precision`
  exactly covdir / markdown / html, the canonical source directory exactly cobertura.
The front end (`parse`): comma lists and repeated `-t` are the same request, the default is lcov
(sorted: markdown), coveralls needs `--token` or `--service-job-id`.
-/
import GrcovModel.Lemmas.MainGlue
namespace Grcov.Props.C03
open Grcov Grcov.UPath Grcov.MainGlue

/-! ### which reports, where, in which order -/

/-- An accepted plan writes exactly the requested types, once per occurrence and in the order of
the command line, each to `to_file_name(type, -o)`. -/
theorem C03_main_each_type_once_in_order (env : Env) (o : Opts) (p : Plan)
    (h : plan env o = .ok p) :
    p.outputs.map (fun out => (out.ty, out.dest)) =
      o.outputTypes.map (fun ty => (ty, toFileName env ty o.rest.outputPath)) := by
  obtain ⟨sr, ms, ob, _, _, _, hob, rfl⟩ := plan_ok h
  have := outBase_ok hob
  subst this
  simp [mkPlan, outputOf, List.map_map, Function.comp_def]

/-- … so the number of reports is the number of requested types: a run never produces a partial
set of reports. -/
theorem C03_main_no_partial_set (env : Env) (o : Opts) (p : Plan) (h : plan env o = .ok p) :
    p.outputs.length = o.outputTypes.length := by
  have := congrArg List.length (C03_main_each_type_once_in_order env o p h)
  simpa using this

/-- Several types and an output path that is not an existing directory: the run is a panic (that
of main.rs 528 unless an earlier one), whatever the other options are; no report is planned. -/
theorem C03_main_multi_nondir_panics (env : Env) (o : Opts) (path : Bytes)
    (hlen : o.outputTypes.length ≠ 1) (hp : o.rest.outputPath = some path)
    (hd : env.isDir path = false) : ∃ s, plan env o = .error s := by
  have hb := outBase_multi_nondir hlen hp hd
  cases h : plan env o with
  | error s => exact ⟨s, rfl⟩
  | ok p =>
    obtain ⟨_, _, ob, _, _, _, hob, _⟩ := plan_ok h
    rw [hb] at hob; cases hob

/-- … and when everything else is fine it is exactly that panic, exit status 101. -/
theorem C03_main_multi_nondir_site (env : Env) (o : Opts) (path : Bytes) (sr : Option Bytes)
    (ms : MappingSrc) (hlen : o.outputTypes.length ≠ 1) (hp : o.rest.outputPath = some path)
    (hd : env.isDir path = false) (h1 : sourceRoot env o = .ok sr) (h2 : threadsOf env o ≠ 0)
    (h3 : mappingSrc env o = .ok ms) :
    plan env o = .error .outputNotDir ∧ PanicSite.outputNotDir.exitCode = 101 := by
  simp [plan, h1, h2, h3, outBase_multi_nondir hlen hp hd, PanicSite.exitCode]

/-- A single type gets the path as given when it is not a directory (a file to create, or the
html directory to create), and `<dir>/<fixed name>` when it is one; without `-o` every report
goes to standard output (html: the writer's `./html`). -/
theorem C03_main_dest_cases (env : Env) (ty : OutputType) :
    toFileName env ty none = none ∧
    (∀ p, env.isDir p = false → toFileName env ty (some p) = some p) ∧
    (∀ p, env.isDir p = true → toFileName env ty (some p) = some (push p (fixedName ty))) := by
  refine ⟨rfl, ?_, ?_⟩ <;> intro p hp <;> simp [toFileName, hp]

/-- full-strength statement: in an output directory two different types never share a file -/
def C03_main_distinct_dest_stmt : Prop :=
  ∀ (env : Env) (dir : Bytes) (a b : OutputType), env.isDir dir = true → a ≠ b →
    toFileName env a (some dir) ≠ toFileName env b (some dir)

/-- It is false of the code: cobertura and cobertura-pretty are both sent to `cobertura.xml`
(main.rs 69-71), so `-t cobertura,cobertura-pretty -o dir` leaves ONE file — the first report
is overwritten by the second. -/
theorem C03_main_distinct_dest_false : ¬ C03_main_distinct_dest_stmt := by
  intro h
  exact h { cpus := 1, canon := fun _ => none, isDir := fun _ => true, mappingReadable := fun _ => true }
    [100] .cobertura .coberturaPretty rfl
    (by decide) rfl

/-- What holds: two different types share a destination in a directory ONLY if they are the two
cobertura kinds. -/
theorem C03_main_distinct_dest_partial (env : Env) (dir : Bytes) (a b : OutputType)
    (hd : env.isDir dir = true) (hab : a ≠ b)
    (hg : ¬ (isCoberturaKind a = true ∧ isCoberturaKind b = true)) :
    toFileName env a (some dir) ≠ toFileName env b (some dir) := by
  intro h
  simp only [toFileName, Option.map_some, hd, if_true, Option.some.injEq] at h
  have := push_rel_inj dir _ _ (fixedName_rel a) (fixedName_rel b) h
  rcases fixedName_eq a b this with h1 | h2
  · exact hab h1
  · exact hg h2

/-- The same at the level of a plan: two planned reports of an accepted multi-type run with `-o`
have different destinations unless they are of the same type or both cobertura kinds. -/
theorem C03_main_plan_dests_distinct (env : Env) (o : Opts) (p : Plan) (dir : Bytes)
    (h : plan env o = .ok p) (hlen : o.outputTypes.length ≠ 1)
    (hp : o.rest.outputPath = some dir) (x y : Output) (hx : x ∈ p.outputs) (hy : y ∈ p.outputs)
    (hne : x.ty ≠ y.ty) (hg : ¬ (isCoberturaKind x.ty = true ∧ isCoberturaKind y.ty = true)) :
    x.dest ≠ y.dest := by
  obtain ⟨sr, ms, ob, _, _, _, hob, rfl⟩ := plan_ok h
  have hd := outBase_multi_isDir hob hlen hp
  have hob' := outBase_ok hob
  rw [hp] at hob'; subst hob'
  simp only [mkPlan, List.mem_map] at hx hy
  obtain ⟨tx, _, rfl⟩ := hx
  obtain ⟨ty, _, rfl⟩ := hy
  exact C03_main_distinct_dest_partial env dir tx ty hd hne hg

/-- Without `-o` every planned report is written to standard output (html: the writer's `./html`),
however many types were requested: `plan` accepts `-t lcov,covdir` without `-o`. -/
theorem C03_main_stdout_all (env : Env) (o : Opts) (p : Plan) (h : plan env o = .ok p)
    (hp : o.rest.outputPath = none) : ∀ x ∈ p.outputs, x.dest = none := by
  obtain ⟨sr, ms, ob, _, _, _, hob, rfl⟩ := plan_ok h
  have hob' := outBase_ok hob
  rw [hp] at hob'; subst hob'
  intro x hx
  simp only [mkPlan, List.mem_map] at hx
  obtain ⟨t, _, rfl⟩ := hx
  rfl

/-- Full statement for every accepted run: two reports of different types (the cobertura pair
aside) are written to different places, so each can be read back on its own. -/
def C03_main_one_place_per_report_stmt : Prop :=
  ∀ (env : Env) (o : Opts) (p : Plan), plan env o = .ok p → ∀ x ∈ p.outputs, ∀ y ∈ p.outputs,
    x.ty ≠ y.ty → ¬ (isCoberturaKind x.ty = true ∧ isCoberturaKind y.ty = true) → x.dest ≠ y.dest

/-- False of the code: `grcov in.info -t lcov,covdir` (no `-o`) is accepted and writes the two
reports back to back (likewise two JSON documents for `-t coveralls+,covdir`) to standard output – no reader can take the stream for either report.
(second review, item 36; finding C03-main-several-types-one-stdout; with `-o <dir>` it holds:
`C03_main_plan_dests_distinct`.) -/
theorem C03_main_one_place_per_report_false : ¬ C03_main_one_place_per_report_stmt := by
  intro h
  let env : Env := { cpus := 1, canon := fun _ => none, isDir := fun _ => false, mappingReadable := fun _ => true }
  let o : Opts := { outputTypes := [.lcov, .covdir], sortOutputTypes := [], filter := none, precision := 2,
                    vcsBranch := [], log := [45], logLevel := .error, rest := { paths := [[105]] } }
  have hok : (plan env o).toBool = true := by decide
  cases hp : plan env o with
  | error e => rw [hp] at hok; cases hok
  | ok p =>
    have hall := C03_main_stdout_all env o p hp rfl
    obtain ⟨sr, ms, ob, _, _, _, _, rfl⟩ := plan_ok hp
    have hx : outputOf env o sr (threadsOf env o) ob .lcov ∈ (mkPlan env o sr ms ob).outputs := by
      simp [mkPlan, o]
    have hy : outputOf env o sr (threadsOf env o) ob .covdir ∈ (mkPlan env o sr ms ob).outputs := by
      simp [mkPlan, o]
    exact h env o _ hp _ hx _ hy (by simp [outputOf]) (by simp [outputOf, isCoberturaKind])
      ((hall _ hx).trans (hall _ hy).symm)

/-- … and true under exactly the guard the witness violates: an output path is given (then it is
a directory, or the run panics before any report), or only one type is requested. -/
theorem C03_main_one_place_per_report_partial (env : Env) (o : Opts) (p : Plan)
    (h : plan env o = .ok p) (g : o.rest.outputPath ≠ none ∨ o.outputTypes.length = 1)
    (x y : Output) (hx : x ∈ p.outputs) (hy : y ∈ p.outputs) (hne : x.ty ≠ y.ty)
    (hg : ¬ (isCoberturaKind x.ty = true ∧ isCoberturaKind y.ty = true)) : x.dest ≠ y.dest := by
  by_cases hlen : o.outputTypes.length = 1
  · -- one type: x and y are the same planned report
    exfalso
    obtain ⟨sr, ms, ob, _, _, _, _, rfl⟩ := plan_ok h
    simp only [mkPlan, List.mem_map] at hx hy
    obtain ⟨tx, htx, rfl⟩ := hx
    obtain ⟨ty, hty, rfl⟩ := hy
    match hl : o.outputTypes, hlen with
    | [t], _ =>
      rw [hl] at htx hty
      simp only [List.mem_singleton] at htx hty
      subst htx; subst hty
      exact hne rfl
  · rcases g with g | g
    · cases hop : o.rest.outputPath with
      | none => exact absurd hop g
      | some dir => exact C03_main_plan_dests_distinct env o p dir h hlen hop x y hx hy hne hg
    · exact absurd g hlen

/-- The html report is a sub-directory `<dir>/html`; no other report file lies inside it (each is
a direct child of `<dir>` whose name differs from `html`). -/
theorem C03_main_html_dir_disjoint (t : OutputType) (ht : t ≠ .html) :
    fixedName t ≠ fixedName .html ∧ 47 ∉ fixedName t := by
  refine ⟨?_, fixedName_no_sep t⟩
  intro h
  rcases fixedName_eq t .html h with h1 | h2
  · exact ht h1
  · simp [isCoberturaKind] at h2

/-! ### `--sort-output-types` -/

/-- A report is written from the sorted list iff its type is named in `--sort-output-types`. -/
theorem C03_main_sorted_iff (env : Env) (o : Opts) (p : Plan) (h : plan env o = .ok p)
    (out : Output) (hout : out ∈ p.outputs) :
    out.sorted = true ↔ out.ty ∈ o.sortOutputTypes := by
  obtain ⟨sr, ms, ob, _, _, _, _, rfl⟩ := plan_ok h
  simp only [mkPlan, List.mem_map] at hout
  obtain ⟨t, _, rfl⟩ := hout
  simp [outputOf]

/-- Whatever the option says, a writer receives the same records (a permutation of the list that
`rewrite_paths` returned): sorting changes only the order of file records. -/
theorem C03_main_results_perm (out : Output) (l : List Rewrite.Rec) :
    (resultsFor out l).Perm l := by
  unfold resultsFor
  split
  · exact sortRecs_perm l
  · exact List.Perm.refl l

/-- A sorted report lists the records in the order of their absolute paths (as displayed);
an unsorted one in the order `rewrite_paths` returned them. -/
theorem C03_main_sorted_order (out : Output) (l : List Rewrite.Rec) :
    (out.sorted = true →
      (resultsFor out l).Pairwise fun a b => bytesLe (sortKey a) (sortKey b) = true) ∧
    (out.sorted = false → resultsFor out l = l) := by
  constructor
  · intro h; simp only [resultsFor, h, if_true]; exact sortRecs_pairwise l
  · intro h; simp [resultsFor, h]

/-- All sorted reports of a run receive the SAME list (it is computed once), all unsorted ones
the same list too: two reports of one run differ at most by that permutation. -/
theorem C03_main_same_list (x y : Output) (l : List Rewrite.Rec) (h : x.sorted = y.sorted) :
    resultsFor x l = resultsFor y l := by
  simp [resultsFor, h]

/-- The order is a total preorder that is antisymmetric on the keys: records with different
displayed absolute paths have one possible relative position. -/
theorem C03_main_order_total (a b : Bytes) :
    (bytesLe a b = true ∨ bytesLe b a = true) ∧
    (bytesLe a b = true → bytesLe b a = true → a = b) :=
  ⟨bytesLe_total a b, bytesLe_antisymm a b⟩

/-! ### threads, queue, working directories (C02 / C07 glue) -/

/-- Every accepted plan has at least one worker, a queue of capacity 2·N, N consumers whose
working directories `<tmp>/0 … <tmp>/N-1` are pairwise different, and the thread count is the
`--threads` value, else max(1, cpus − 1). -/
theorem C03_main_threads_queue (env : Env) (o : Opts) (p : Plan) (h : plan env o = .ok p) :
    1 ≤ p.threads ∧ p.queueCap = 2 * p.threads ∧
    p.threads = (match o.rest.threads with | some n => n | none => max 1 (env.cpus - 1)) ∧
    p.consumers.map (·.index) = List.range p.threads ∧ (p.consumers.map (·.index)).Nodup := by
  obtain ⟨sr, ms, ob, _, hth, _, _, rfl⟩ := plan_ok h
  have hidx : (consumersOf o sr (threadsOf env o)).map (·.index) = List.range (threadsOf env o) := by
    simp [consumersOf, List.map_map, Function.comp_def]
  refine ⟨by simp only [mkPlan]; omega, rfl, rfl, hidx, ?_⟩
  simp only [mkPlan]; rw [hidx]; exact List.nodup_range

/-- `--threads 0` is never a plan: the run ends with exit status 1 (nobody receives, the
producer's send fails) unless the source directory is already missing (101) — not a hang, not a
report. Without `--threads` the count is never 0, whatever the number of CPUs. -/
theorem C03_main_threads_zero (env : Env) (o : Opts) :
    (o.rest.threads = some 0 →
      plan env o = .error .noWorker ∨ plan env o = .error .sourceDirMissing) ∧
    (o.rest.threads = none → threadsOf env o ≠ 0) := by
  constructor
  · intro h0
    have ht : threadsOf env o = 0 := by simp [threadsOf, h0]
    unfold plan
    cases hs : sourceRoot env o with
    | error e =>
      right
      unfold sourceRoot at hs
      split at hs
      · cases hs
      · split at hs
        · cases hs
        · split at hs
          · cases hs; rfl
          · cases hs
    | ok sr => left; simp [ht]
  · intro hn
    simp only [threadsOf, hn]
    omega

/-- Every consumer gets the canonical source root, `--branch`, `--guess-directory-when-missing`
and `--binary-path` of the command line. -/
theorem C03_main_consumer_args (env : Env) (o : Opts) (p : Plan) (h : plan env o = .ok p)
    (c : ConsumerArgs) (hc : c ∈ p.consumers) :
    c.sourceRoot = p.rewrite.sourceDir ∧ c.branch = o.rest.branch ∧
    c.guessDirectory = o.rest.guessDirectory ∧ c.binaryPath = o.rest.binaryPath := by
  obtain ⟨sr, ms, ob, _, _, _, _, rfl⟩ := plan_ok h
  simp only [mkPlan, consumersOf, List.mem_map] at hc
  obtain ⟨i, _, rfl⟩ := hc
  exact ⟨rfl, rfl, rfl, rfl⟩

/-! ### writer parameters -/

/-- `demangle = !no_demangle` reaches exactly the writers that print function names. -/
theorem C03_main_demangle (o : Opts) (sr : Option Bytes) (n : Nat) :
    writerOf o sr n .ade = .ade (!o.rest.noDemangle) ∧
    writerOf o sr n .lcov = .lcov (!o.rest.noDemangle) ∧
    (∃ a, writerOf o sr n .coveralls = .coveralls a ∧ a.demangle = !o.rest.noDemangle ∧
      a.withFunctionInfo = false) ∧
    (∃ a, writerOf o sr n .coverallsPlus = .coveralls a ∧ a.demangle = !o.rest.noDemangle ∧
      a.withFunctionInfo = true) ∧
    writerOf o sr n .cobertura = .cobertura sr (!o.rest.noDemangle) false ∧
    writerOf o sr n .coberturaPretty = .cobertura sr (!o.rest.noDemangle) true :=
  ⟨rfl, rfl, ⟨_, rfl, rfl, rfl⟩, ⟨_, rfl, rfl, rfl⟩, rfl, rfl⟩

/-- `--precision` reaches covdir, markdown and html, and nothing else: changing it leaves the
call of every other writer unchanged. -/
theorem C03_main_precision (o : Opts) (sr : Option Bytes) (n : Nat) :
    writerOf o sr n .covdir = .covdir o.precision ∧
    writerOf o sr n .markdown = .markdown o.precision ∧
    (∃ a, writerOf o sr n .html = .html a ∧ a.precision = o.precision ∧ a.threads = n ∧
      a.branch = o.rest.branch) ∧
    ∀ (q : Nat) (t : OutputType), t ≠ .covdir → t ≠ .markdown → t ≠ .html →
      writerOf { o with precision := q } sr n t = writerOf o sr n t := by
  refine ⟨rfl, rfl, ⟨_, rfl, rfl, rfl, rfl⟩, ?_⟩
  intro q t h1 h2 h3
  cases t <;> first | rfl | contradiction

/-- The coveralls fields: token, service name, job id and flag name as given (possibly absent);
service number, pull request and commit sha default to the EMPTY string (none of them is
required); the branch defaults to `master` in `parse`. -/
theorem C03_main_coveralls_fields (o : Opts) (plus : Bool) :
    (coverallsArgs o plus).token = o.rest.token ∧
    (coverallsArgs o plus).serviceName = o.rest.serviceName ∧
    (coverallsArgs o plus).serviceJobId = o.rest.serviceJobId ∧
    (coverallsArgs o plus).serviceFlagName = o.rest.serviceFlagName ∧
    (coverallsArgs o plus).serviceNumber = o.rest.serviceNumber.getD [] ∧
    (coverallsArgs o plus).servicePullRequest = o.rest.servicePullRequest.getD [] ∧
    (coverallsArgs o plus).commitSha = o.rest.commitSha.getD [] ∧
    (coverallsArgs o plus).vcsBranch = o.vcsBranch ∧
    (coverallsArgs o plus).parallel = o.rest.parallel :=
  ⟨rfl, rfl, rfl, rfl, rfl, rfl, rfl, rfl, rfl⟩

/-- The writer of every planned report is the one of its type, with the plan's thread count and
source root. -/
theorem C03_main_writer_of_type (env : Env) (o : Opts) (p : Plan) (h : plan env o = .ok p)
    (out : Output) (hout : out ∈ p.outputs) :
    out.writer = writerOf o p.rewrite.sourceDir p.threads out.ty := by
  obtain ⟨sr, ms, ob, _, _, _, _, rfl⟩ := plan_ok h
  simp only [mkPlan, List.mem_map] at hout
  obtain ⟨t, _, rfl⟩ := hout
  rfl

/-! ### external tools, routes of notes files, log target -/

/-- Where `llvm-profdata` / `llvm-cov` are looked for: in the `--llvm-path` directory when the
option is given, else in `<rustc sysroot>/lib/rustlib/<host>/bin`; when rustc cannot be asked,
nowhere. A tool that is not at that one place is "not found" (the profile item is skipped). -/
theorem C03_main_llvm_tool_precedence (env : Env) (o : Opts) (t : LlvmTool) :
    (∀ d, o.rest.llvmPath = some d →
      llvmToolPath env o t = if env.toolExists (push d t.exe) then .found (push d t.exe)
                             else .notFound (push d t.exe)) ∧
    (o.rest.llvmPath = none → ∀ d, env.rustlibBin = some d →
      llvmToolPath env o t = if env.toolExists (push d t.exe) then .found (push d t.exe)
                             else .notFound (push d t.exe)) ∧
    (o.rest.llvmPath = none → env.rustlibBin = none → llvmToolPath env o t = .noRustc) := by
  refine ⟨?_, ?_, ?_⟩
  · intro d h; simp [llvmToolPath, h]
  · intro h d hd; simp [llvmToolPath, h, hd]
  · intro h hd; simp [llvmToolPath, h, hd]

/-- `--llvm-path` wins and there is NO fall-back: with the option, the answer does not depend on
the sysroot (a tool missing from the named directory is not taken from the toolchain). And the
environment variable `LLVM_PATH` is never consulted, with or without the option. -/
theorem C03_main_llvm_path_wins_env_ignored (env : Env) (o : Opts) (t : LlvmTool) :
    (∀ d, o.rest.llvmPath = some d → ∀ r, llvmToolPath { env with rustlibBin := r } o t = llvmToolPath env o t) ∧
    (∀ v, llvmToolPath { env with envLlvmPath := v } o t = llvmToolPath env o t) := by
  refine ⟨?_, ?_⟩
  · intro d h r; simp [llvmToolPath, h]
  · intro v; rfl

/-- A notes file goes to the in-process reader iff `--llvm` is given or its header is LLVM's
(`oncg*204` / `oncg*804`); otherwise to the external gcov tool, which is `$GCOV`, else `gcov`. -/
theorem C03_main_gcno_route (isLlvm : Bool) (h : Bytes) (env : Env) :
    (gcnoRoute isLlvm h = .buffers ↔ isLlvm = true ∨ headerIsLlvm h = true) ∧
    (gcnoRoute isLlvm h = .gcovTool ↔ isLlvm = false ∧ headerIsLlvm h = false) ∧
    (headerIsLlvm h = true ↔ h.take 8 = [111, 110, 99, 103, 42, 50, 48, 52] ∨
                              h.take 8 = [111, 110, 99, 103, 42, 56, 48, 52]) ∧
    (gcovExe env = match env.envGcov with | some g => g | none => bGcov) := by
  refine ⟨?_, ?_, ?_, ?_⟩
  · cases isLlvm <;> cases hh : headerIsLlvm h <;> simp [gcnoRoute, hh]
  · cases isLlvm <;> cases hh : headerIsLlvm h <;> simp [gcnoRoute, hh]
  · simp [headerIsLlvm]
  · cases hg : env.envGcov <;> simp [gcovExe, hg]

/-- The plan carries exactly these decisions: `--llvm-path` as given, the two tool resolutions,
the gcov command, and one route per notes file decided by the `--llvm` flag. -/
theorem C03_main_plan_tools (env : Env) (o : Opts) (p : Plan) (h : plan env o = .ok p) :
    p.llvmPath = o.rest.llvmPath ∧ p.profdataTool = llvmToolPath env o .profdata ∧
    p.covTool = llvmToolPath env o .cov ∧ p.gcovExe = gcovExe env ∧ p.llvm = o.rest.llvm ∧
    p.gcnoRoutes = env.gcnoHeaders.map (gcnoRoute o.rest.llvm) := by
  obtain ⟨sr, ms, ob, _, _, _, _, rfl⟩ := plan_ok h
  exact ⟨rfl, rfl, rfl, rfl, rfl, rfl⟩

/-- The log target: the literal values `stdout` and `stderr` are the terminal streams; any other
value is a file when it can be created, and otherwise the run falls back to stderr (log lines are
never lost, never on stdout unless asked for). -/
theorem C03_main_log_target (env : Env) (o : Opts) (p : Plan) (h : plan env o = .ok p) :
    (o.log = bStdout → p.log.stream = .out) ∧
    (o.log = bStderr → p.log.stream = .err) ∧
    (o.log ≠ bStdout → o.log ≠ bStderr → env.logCreatable o.log = true → p.log = .file o.log) ∧
    (o.log ≠ bStdout → o.log ≠ bStderr → env.logCreatable o.log = false →
      p.log = .stderrFallback o.log ∧ p.log.stream = .err) ∧
    (p.log.stream = .out ↔ o.log = bStdout) := by
  obtain ⟨sr, ms, ob, _, _, _, _, rfl⟩ := plan_ok h
  have hne : bStderr ≠ bStdout := by decide
  refine ⟨?_, ?_, ?_, ?_, ?_⟩
  · intro e; simp [mkPlan, logTarget, e, LogTarget.stream]
  · intro e; simp [mkPlan, logTarget, e, hne, LogTarget.stream]
  · intro h1 h2 h3; simp [mkPlan, logTarget, h1, h2, h3]
  · intro h1 h2 h3; simp [mkPlan, logTarget, h1, h2, h3, LogTarget.stream]
  · simp only [mkPlan, logTarget]
    by_cases h1 : o.log = bStdout
    · simp [h1, LogTarget.stream]
    · by_cases h2 : o.log = bStderr
      · simp [h2, hne, LogTarget.stream]
      · cases env.logCreatable o.log <;> simp [h1, h2, LogTarget.stream]

/-! ### the front end -/

/-- `-t a,b`, `-t a -t b` and any other split of the same names are the same request; without
`-t` the request is `lcov`, without `--sort-output-types` only markdown is sorted; the names are
exactly the ten of `OutputType::from_str`. -/
theorem C03_main_type_lists (r : Raw) (o : Opts) (h : parse r = .ok o) :
    (r.typeArgs.flatten = [] → o.outputTypes = [.lcov]) ∧
    (r.typeArgs.flatten ≠ [] → o.outputTypes.map OutputType.cliName = r.typeArgs.flatten) ∧
    (r.sortArgs.flatten = [] → o.sortOutputTypes = [.markdown]) ∧
    (r.sortArgs.flatten ≠ [] → o.sortOutputTypes.map OutputType.cliName = r.sortArgs.flatten) ∧
    o.outputTypes ≠ [] := by
  have key : ∀ (args : List (List Bytes)) (d ts : List OutputType),
      parseTypeList args d = some ts →
      (args.flatten = [] → ts = d) ∧ (args.flatten ≠ [] → ts.map OutputType.cliName = args.flatten) := by
    intro args d ts hts
    unfold parseTypeList at hts
    split at hts
    · rename_i he; cases hts; exact ⟨fun _ => rfl, fun hn => absurd he hn⟩
    · rename_i hne
      refine ⟨fun he => absurd he hne, fun _ => ?_⟩
      generalize args.flatten = names at hts
      induction names generalizing ts with
      | nil => simp at hts; simp [hts]
      | cons s rest ih =>
        rw [List.mapM_cons] at hts
        cases h1 : OutputType.ofCliName s with
        | none => simp [h1] at hts
        | some t =>
          cases h2 : rest.mapM OutputType.ofCliName with
          | none => simp [h1, h2] at hts
          | some ts' =>
            simp [h1, h2] at hts
            subst hts
            simp [cliName_of_ofCliName h1, ih ts' h2]
  obtain ⟨ts, ss, flt, lvl, hts, hss, _, _, _, _, rfl⟩ := parse_ok h
  have k1 := key _ _ _ hts
  have k2 := key _ _ _ hss
  refine ⟨k1.1, k1.2, k2.1, k2.2, ?_⟩
  intro he
  simp only at he
  by_cases hf : r.typeArgs.flatten = []
  · have := k1.1 hf; rw [he] at this; cases this
  · have := k1.2 hf; rw [he] at this; exact hf this.symm

/-- A coveralls report is only planned with `--token` or `--service-job-id` (and a job id only
with a service name): otherwise the run is a usage error, exit status 2, before anything runs. -/
theorem C03_main_coveralls_auth (r : Raw) (o : Opts) (h : parse r = .ok o)
    (hc : .coveralls ∈ o.outputTypes ∨ .coverallsPlus ∈ o.outputTypes) :
    (o.rest.token.isSome ∨ o.rest.serviceJobId.isSome) ∧
    (o.rest.serviceJobId.isSome → o.rest.serviceName.isSome) := by
  obtain ⟨ts, ss, flt, lvl, _, _, _, _, hjob, hauth, rfl⟩ := parse_ok h
  simp only at hc ⊢
  have hw : wantsCoveralls ts = true := by
    simp only [wantsCoveralls, Bool.or_eq_true, List.contains_iff_mem]
    exact hc
  rw [hw] at hauth
  constructor
  · cases ht : r.rest.token with
    | some _ => simp
    | none =>
      cases hj : r.rest.serviceJobId with
      | some _ => simp
      | none => simp [ht, hj] at hauth
  · intro hj
    cases hn : r.rest.serviceName with
    | some _ => simp
    | none => simp [hn, hj] at hjob

/-- clap refuses an empty value for every path option, so `-s ""` is a usage error and the
`source_dir != ""` filter of main.rs 387 is never exercised from the command line. -/
theorem C03_main_no_empty_path (r : Raw) (o : Opts) (h : parse r = .ok o) :
    o.rest.sourceDir ≠ some [] ∧ o.rest.prefixDir ≠ some [] ∧ o.rest.outputPath ≠ some [] ∧
    o.rest.pathMapping ≠ some [] := by
  obtain ⟨ts, ss, flt, lvl, _, _, _, he, _, _, rfl⟩ := parse_ok h
  have he' : some [] ∉ pathOptions r := by
    intro hm
    have := List.contains_iff_mem.mpr hm
    rw [he] at this; cases this
  simp only [pathOptions, List.mem_cons, not_or] at he'
  have he := he'
  exact ⟨fun e => he.2.2.2.2.1 e.symm, fun e => he.2.2.2.2.2.1 e.symm, fun e => he.2.2.1 e.symm,
    fun e => he.2.2.2.2.2.2.1 e.symm⟩

/-! ### concrete runs -/

/-- an environment: 8 CPUs, `src` exists and canonicalises to `/w/src`, `/w/out` is a directory -/
def mainExEnv : Env :=
  { cpus := 8
    canon := fun p => if p = [115, 114, 99] then some [47, 119, 47, 115, 114, 99] else none
    isDir := fun p => p == [47, 119, 47, 111, 117, 116]
    mappingReadable := fun _ => false }

/-- `grcov in.info -t lcov,files -t markdown -s src -o /w/out --sort-output-types files` -/
def mainExRaw : Raw :=
  { typeArgs := [[OutputType.lcov.cliName, OutputType.files.cliName], [OutputType.markdown.cliName]]
    sortArgs := [[OutputType.files.cliName]]
    rest := { paths := [[105]], sourceDir := some [115, 114, 99]
              outputPath := some [47, 119, 47, 111, 117, 116] } }

/-- the plan of a front-end outcome, if it is one -/
def mainPlanOf : Outcome → Option Plan
  | .run p => some p
  | _ => none

example : (mainPlanOf (front mainExEnv mainExRaw)).map (fun p => p.outputs.map fun x => (x.ty, x.dest, x.sorted)) =
    some [(.lcov, some [47, 119, 47, 111, 117, 116, 47, 108, 99, 111, 118], false),
          (.files, some [47, 119, 47, 111, 117, 116, 47, 102, 105, 108, 101, 115], true),
          (.markdown, some [47, 119, 47, 111, 117, 116, 47, 109, 97, 114, 107, 100, 111, 119, 110, 46, 109, 100], false)] := by
  decide
example : (mainPlanOf (front mainExEnv mainExRaw)).map (fun p => (p.threads, p.queueCap)) = some (7, 14) := by decide
example : (mainPlanOf (front mainExEnv mainExRaw)).map (fun p => p.rewrite.prefixDir) =
    some (some [47, 119, 47, 115, 114, 99]) := by decide

/-- the same with `-o /w/nodir`: a panic, exit status 101 -/
example : front mainExEnv { mainExRaw with rest := { mainExRaw.rest with outputPath := some [47, 120] } } =
    .panic .outputNotDir := by decide

/-- `-t coveralls` without token: usage error; `--threads 0`: exit status 1 -/
example : front mainExEnv { mainExRaw with typeArgs := [[OutputType.coveralls.cliName]] } =
    .usage .coverallsAuthMissing := by decide
example : (front mainExEnv { mainExRaw with rest := { mainExRaw.rest with threads := some 0 } }).exitCode = 1 := by
  decide

/-- the cobertura pair in a directory: one destination for two reports -/
example : (mainPlanOf (front mainExEnv { mainExRaw with typeArgs := [[OutputType.cobertura.cliName, OutputType.coberturaPretty.cliName]] })).map
      (fun p => p.outputs.map (·.dest)) =
    some [some [47, 119, 47, 111, 117, 116, 47, 99, 111, 98, 101, 114, 116, 117, 114, 97, 46, 120, 109, 108],
          some [47, 119, 47, 111, 117, 116, 47, 99, 111, 98, 101, 114, 116, 117, 114, 97, 46, 120, 109, 108]] := by
  decide

/-- sorting three records by absolute path -/
example : (sortRecs [⟨[47, 98], [98], {}⟩, ⟨[47, 97, 47, 99], [99], {}⟩, ⟨[47, 97], [97], {}⟩]).map (·.rel) =
    [[97], [99], [98]] := by decide

/-- tools: `--llvm-path /a` with only `llvm-cov` there, the sysroot has both, `LLVM_PATH=/c` set -/
def mainExToolEnv : Env :=
  { mainExEnv with
    rustlibBin := some [47, 98]
    envLlvmPath := some [47, 99]
    toolExists := fun p => p == [47, 97, 47, 108, 108, 118, 109, 45, 99, 111, 118] || p.take 2 == [47, 98]
    gcnoHeaders := [[111, 110, 99, 103, 42, 56, 48, 52], [111, 110, 99, 103, 42, 55, 48, 65]]
    logCreatable := fun p => p != [47, 120, 47, 108] }

example : (mainPlanOf (front mainExToolEnv { mainExRaw with rest := { mainExRaw.rest with llvmPath := some [47, 97] } })).map
      (fun p => (p.profdataTool, p.covTool)) =
    some (.notFound [47, 97, 47, 108, 108, 118, 109, 45, 112, 114, 111, 102, 100, 97, 116, 97],
          .found [47, 97, 47, 108, 108, 118, 109, 45, 99, 111, 118]) := by decide
example : (mainPlanOf (front mainExToolEnv mainExRaw)).map (fun p => (p.profdataTool, p.gcnoRoutes)) =
    some (.found [47, 98, 47, 108, 108, 118, 109, 45, 112, 114, 111, 102, 100, 97, 116, 97],
          [.buffers, .gcovTool]) := by decide
example : (mainPlanOf (front mainExToolEnv { mainExRaw with rest := { mainExRaw.rest with llvm := true } })).map
      (·.gcnoRoutes) = some [.buffers, .buffers] := by decide
example : (mainPlanOf (front mainExToolEnv { mainExRaw with log := some [47, 120, 47, 108] })).map (·.log) =
    some (.stderrFallback [47, 120, 47, 108]) := by decide

end Grcov.Props.C03
