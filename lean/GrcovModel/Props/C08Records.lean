/-
C08, the clause "the set of instrumented lines … equals llvm-cov gcov's", stated over the RECORDS
of the notes file (second review, item 3).  `listedRef recs` (Gcno/Records.lean) is what the LINES
records list – every line number, under the decoded name of the function's source file – and what
`llvm-cov gcov` reports as instrumented (compared by harness/c08 on clang output of six format
versions).  `read_lines` of src/reader.rs additionally drops, from format version 8 on, every line
outside the `[start_line, end_line]` of the FUNCTION record; clang writes a tight `end_line` and
llvm-cov ignores it.  So:

* `C08_instrumented_lines_are_the_kept_lines` – what the code reports, all versions, all inputs:
  exactly the listed lines that pass the range test (`listedKept`);
* `C08_instrumented_lines_are_listed_lines_false` – the full-strength clause (reported = listed)
  is FALSE of the code: closed witness in format 8 (finding C08-gcno8-line-range-filter);
* `C08_instrumented_lines_are_listed_lines_partial` – it holds under exactly the guard the witness
  violates: format < 8, or no listed line lies outside its function's range;
* `C08_instrumented_lines_subset_listed` – in every case grcov reports no line llvm-cov does not.
Names: `C08_function_names_decoded` (the names of the result are the lossily decoded bytes of the
FUNCTION record since /repo 7f9b2b3; well-formed UTF-8 is unchanged).
-/
import GrcovModel.Lemmas.GcnoRecords
import GrcovModel.Lemmas.LcovUtf8
namespace Grcov.Props.C08
open Grcov Grcov.Gcno AList Outcome

/-- **What the code reports.** For every format version, every record stream `read_gcno` accepts,
every gcda list and every accepted computation: file `k` of the result reports line `l` iff some
LINES record lists `l` under `k` for a function of file `k` and – from format 8 on – `l` lies in
that function's `[start_line, end_line]`. -/
theorem C08_instrumented_lines_are_the_kept_lines (version checksum : Nat) (recs : List NRec)
    (g : Notes) (ds : List Gcda) (br : Bool) (r : List (Bytes × Cov))
    (hb : build version checksum recs = ok g) (h : compute g ds br = ok r)
    (k : Bytes) (cov : Cov) (hk : get? r k = some cov) (l : Nat) :
    l ∈ keys cov.lines ↔ (k, l) ∈ listedKept version recs := by
  rw [compute_lines_iff h hk l, ← hasLine_iff, build_hasLine_iff hb]

/-- grcov never reports a line the records do not list (llvm-cov reports all listed lines). -/
theorem C08_instrumented_lines_subset_listed (version checksum : Nat) (recs : List NRec)
    (g : Notes) (ds : List Gcda) (br : Bool) (r : List (Bytes × Cov))
    (hb : build version checksum recs = ok g) (h : compute g ds br = ok r)
    (k : Bytes) (cov : Cov) (hk : get? r k = some cov) (l : Nat) (hl : l ∈ keys cov.lines) :
    (k, l) ∈ listedRef recs := by
  have := (C08_instrumented_lines_are_the_kept_lines version checksum recs g ds br r hb h k cov hk l).1 hl
  unfold listedKept at this
  unfold listedRef
  by_cases hv : version ≥ 80
  · simp only [hv, decide_true] at this
    exact listed_filter_subset _ recs none this
  · simp only [hv, decide_false] at this
    exact this

/-- **The clause under its guard**: for format versions below 8, or when no LINES record lists a
line outside the `[start_line, end_line]` of its function, the instrumented lines grcov reports
for a file are exactly the lines the records list for it. -/
theorem C08_instrumented_lines_are_listed_lines_partial (version checksum : Nat) (recs : List NRec)
    (g : Notes) (ds : List Gcda) (br : Bool) (r : List (Bytes × Cov))
    (hb : build version checksum recs = ok g) (h : compute g ds br = ok r)
    (k : Bytes) (cov : Cov) (hk : get? r k = some cov) (l : Nat)
    (hguard : version < 80 ∨ ∀ p ∈ listedRef recs, p ∈ listedKept version recs) :
    l ∈ keys cov.lines ↔ (k, l) ∈ listedRef recs := by
  constructor
  · exact C08_instrumented_lines_subset_listed version checksum recs g ds br r hb h k cov hk l
  · intro hl
    rw [C08_instrumented_lines_are_the_kept_lines version checksum recs g ds br r hb h k cov hk l]
    rcases hguard with hv | hall
    · unfold listedKept
      unfold listedRef at hl
      have : ¬ version ≥ 80 := by omega
      simpa [this] using hl
    · exact hall _ hl

/-- format 8: `int f(void)` in `a.c`, FUNCTION record with start line 3 and end line 5, one body
block whose LINES record lists lines 4 and 7 (clang 14 with `-coverage-version='800*'` writes the
first line with a debug location as `end_line`, so later lines of the body lie beyond it) -/
def rangeWitRecs : List NRec :=
  [.func 1 11 22 [102] [97, 46, 99] 3 5, .blocks 3, .arcs 0 [(2, 0)], .arcs 2 [(1, 0)],
   .lines 2 [.file [97, 46, 99], .line 4, .line 7]]

def rangeWitKeys (version : Nat) : Option (List Nat) :=
  match computeRecs version 7 rangeWitRecs [] true with
  | .ok r => (get? r [97, 46, 99]).map fun c => keys c.lines
  | _ => none

/-- **The full-strength clause is false of the code** (finding C08-gcno8-line-range-filter): in
format 8 the witness lists lines 4 and 7 for `a.c`; grcov reports line 4 only. (The same records
in format 4.8 give both lines: second conjunct.) -/
theorem C08_instrumented_lines_are_listed_lines_false :
    (¬ ∀ (version checksum : Nat) (recs : List NRec) (g : Notes) (ds : List Gcda) (br : Bool)
        (r : List (Bytes × Cov)) (k : Bytes) (cov : Cov) (l : Nat),
        build version checksum recs = ok g → compute g ds br = ok r → get? r k = some cov →
        (l ∈ keys cov.lines ↔ (k, l) ∈ listedRef recs)) ∧
    rangeWitKeys 80 = some [4] ∧ rangeWitKeys 48 = some [4, 7] ∧
    listedRef rangeWitRecs = [([97, 46, 99], 4), ([97, 46, 99], 7)] := by
  have e80 : rangeWitKeys 80 = some [4] := by decide +kernel
  refine ⟨?_, e80, by decide +kernel, by decide +kernel⟩
  intro hall
  unfold rangeWitKeys at e80
  split at e80
  · rename_i r hr
    unfold computeRecs at hr
    obtain ⟨g, hb, hc⟩ := bind_eq_ok.1 hr
    cases hk : get? r [97, 46, 99] with
    | none => rw [hk] at e80; cases e80
    | some cov =>
      rw [hk] at e80
      simp only [Option.map_some, Option.some.injEq] at e80
      have := (hall 80 7 rangeWitRecs g [] true r [97, 46, 99] cov 7 hb hc hk).2 (by decide +kernel)
      rw [e80] at this
      exact absurd this (by decide)
  · cases e80

/-- the guard of the partial theorem holds for the witness records in format 4.8 and fails in
format 8 -/
example : (∀ p ∈ listedRef rangeWitRecs, p ∈ listedKept 80 rangeWitRecs) ↔ False := by
  constructor
  · intro h; exact absurd (h ([97, 46, 99], 7) (by decide +kernel)) (by decide +kernel)
  · intro h; exact h.elim

/-- a stream in which every listed line is in range satisfies the guard in format 8 as well -/
example : ∀ p ∈ listedRef [.func 1 11 22 [102] [97, 46, 99] 3 9, .blocks 3,
      .lines 2 [.file [97, 46, 99], .line 4, .line 7]],
    p ∈ listedKept 80 [.func 1 11 22 [102] [97, 46, 99] 3 9, .blocks 3,
      .lines 2 [.file [97, 46, 99], .line 4, .line 7]] := by decide +kernel

/-! ### names -/

/-- **Names are the lossily decoded bytes.** A FUNCTION record appends a function whose name and
source file name are `String::from_utf8_lossy` of the record's bytes (`Lcov.utf8Lossy`: every
maximal ill-formed sequence becomes U+FFFD); well-formed UTF-8 names are kept byte for byte. -/
theorem C08_function_names_decoded (g : Notes) (ident ls cs : Nat) (name file : Bytes) (st en : Nat) :
    ∃ f, buildStep g (.func ident ls cs name file st en) = ok { g with funcs := g.funcs ++ [f] } ∧
      f.name = Lcov.utf8Lossy name ∧ f.fileName = Lcov.utf8Lossy file ∧
      (Lcov.validUtf8 name = true → f.name = name) ∧
      (Lcov.validUtf8 file = true → f.fileName = file) :=
  ⟨_, rfl, rfl, rfl, fun h => Lcov.utf8Lossy_of_valid name h, fun h => Lcov.utf8Lossy_of_valid file h⟩

/-- two different ill-formed file names can decode to the same name: a LINES record that names the
file `a\xFF` is taken for a function of file `a\xFE` (both decode to `a` U+FFFD) -/
example : listedRef [.func 1 11 22 [102] [97, 0xFE] 3 9, .blocks 3,
      .lines 2 [.file [97, 0xFF], .line 4]] = [([97, 0xEF, 0xBF, 0xBD], 4)] := by decide +kernel

end Grcov.Props.C08
