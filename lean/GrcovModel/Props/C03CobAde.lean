/-
C03 — report fidelity, part CobAde: the document structure of the Cobertura writer
(`get_coverage` / `output_cobertura` / `write_lines`) and the records of the ActiveData-ETL writer
(`output_activedata_etl`), model `GrcovModel/Writers/CobAde.lean`.

All theorems are about every result set: any number of files, any line map (`NodupKeys` is what a
`BTreeMap` guarantees; counts are arbitrary naturals, so 2^64-1 is included), any branch map, any
function list in any order: these core models take the table in the order it is LISTED; the
writers list it in name order under the demangled names (`sorted_functions`, 73c9152; `demangle!`),
which `Writers/FnOrder.lean` supplies – `FnOrder.cobertura dm` / `FnOrder.ade dm` are these models
applied to `listed dm c`, and `Props/C03FnOrder.lean` has the order and demangling theorems.

Cobertura carries the branch vectors only of lines that have a line entry: full branch fidelity is
`C03_cob_tree_fidelity_stmt`, refuted by a closed witness (`…_false`, the known finding
C03-cobertura-branch-without-line) and proved under exactly that guard (`…_partial`).
The float-valued attributes (rates) are property C13; the byte layer (quick-xml, serde_json) is
trusted and read back by independent readers in the correspondence run.
-/
import GrcovModel.Lemmas.WritersCobAde
namespace Grcov.Props.C03
open Grcov AList Grcov.Stats Grcov.Writers Grcov.Writers.CobAde

/-! ## cobertura: packages, classes -/

/-- One package per result file, in the order of the results, named after the file; each package
has exactly one class, whose `filename` is the file and whose name is the file stem. No file is
added, dropped, duplicated or reordered. -/
theorem C03_cob_one_package_per_file (src : Option Name) (rs : List (Name × Cov)) :
    (coberturaDoc src rs).packages.length = rs.length ∧
    ∀ (i : Nat) (r : Name × Cov), rs[i]? = some r →
      ∃ k : DocClass, (coberturaDoc src rs).packages[i]? = some ⟨r.1, [k]⟩ ∧
        k.filename = r.1 ∧ k.name = className r.1 ∧ k = docClass r.1 r.2 :=
  coberturaDoc_packages_spec src rs

/-- The class name is the file stem: for a path `dir/n.e` (or just `n.e`) whose last component is
`n.e` with a non-empty `n` and an extension `e` without dot, the class is named `n` (dots inside `n`
are kept: `a.b.c` gives `a.b`); a last component without any dot is the name itself. -/
theorem C03_cob_class_name (dir n e : Name) (hn : n ≠ []) (hn47 : 47 ∉ n) :
    (47 ∉ e → 46 ∉ e → n ++ 46 :: e ≠ [46, 46] →
      className (dir ++ 47 :: (n ++ 46 :: e)) = n ∧ className (n ++ 46 :: e) = n) ∧
    (46 ∉ n → className (dir ++ 47 :: n) = n ∧ className n = n) :=
  ⟨fun he47 he hdd => className_ext dir n e hn hn47 he47 he hdd,
   fun hn46 => className_noext dir n hn hn47 hn46⟩

/-- decode ∘ write: reading every `<class>` of the document back gives, file by file and in order,
exactly the instrumented lines with their hits (whatever their size), the branch vectors of the
lines that have a line entry, and the function names. -/
theorem C03_cob_decode (src : Option Name) (rs : List (Name × Cov))
    (hnd : ∀ r ∈ rs, NodupKeys r.2.lines) :
    decodeCobertura (coberturaDoc src rs).packages = rs.map fun r => (r.1, cobProj r.2) :=
  decodeCobertura_packages rs hnd

/-- what that projection is: the line map itself, the function names, and for every line number
the branch vector of the result when the line is instrumented (and nothing otherwise); no line
number carries two vectors. -/
theorem C03_cob_projection (c : Cov) (hnd : NodupKeys c.lines) :
    (cobProj c).lines = c.lines ∧ (cobProj c).fnNames = keys c.functions ∧
    NodupKeys (cobProj c).branches ∧
    ∀ l, get? (cobProj c).branches l = if l ∈ keys c.lines then get? c.branches l else none :=
  cobProj_spec c hnd

/-- Full statement for the branches: the decoded report has every branch vector of the result. -/
def C03_cob_tree_fidelity_stmt : Prop :=
  ∀ (c : Cov), c.WF → ∀ l, get? (cobProj c).branches l = get? c.branches l

/-- It is false of the code: a branch vector on a line without a line entry is not written
(known finding C03-cobertura-branch-without-line). -/
theorem C03_cob_tree_fidelity_false : ¬ C03_cob_tree_fidelity_stmt := by
  intro h
  have := h { lines := [], branches := [(7, [true])], functions := [] }
    ⟨by simp [NodupKeys, keys], by simp [NodupKeys, keys], by simp [NodupKeys, keys], by simp⟩ 7
  simp [cobProj] at this

/-- … and true under exactly that guard: every branch line is an instrumented line. -/
theorem C03_cob_tree_fidelity_partial (c : Cov)
    (guard : ∀ l, (get? c.branches l).isSome → (get? c.lines l).isSome) (l : Nat) :
    get? (cobProj c).branches l = get? c.branches l :=
  cobProj_branches_guarded c guard l

/-! ## cobertura: `func_end` and the attribution of lines to methods -/

/-- `func_end` of a start line `s` is the least function start strictly above `s` when there is
one, else the last line key + 1 — and nothing else; the loop of the code (sort the starts, take the
first one above `s`) computes exactly that. The last line key is the greatest key. -/
theorem C03_cob_func_end (c : Cov) (s : Nat) :
    IsFuncEnd c s (funcEnd c s) ∧ (∀ e, IsFuncEnd c s e → e = funcEnd c s) ∧
    funcEndLoop c s = funcEnd c s ∧
    (∀ kv ∈ c.lines, kv.1 ≤ maxKey c.lines) ∧ (c.lines ≠ [] → maxKey c.lines ∈ keys c.lines) :=
  ⟨funcEnd_spec c s, fun _ h => h.unique (funcEnd_spec c s), funcEndLoop_eq c s,
   le_maxKey c.lines, maxKey_mem c.lines⟩

/-- One method per function, in the order of the function list, with the function's name; line `l`
is among the lines of the method of `f` iff `l` is instrumented and `start_f ≤ l < func_end f`;
every method line is built from the same maps as the class line of that number (same hits, same
conditions). No function is added, dropped or duplicated. -/
theorem C03_cob_method_attribution (rel : Name) (c : Cov) :
    ((docClass rel c).methods.map (·.name) = keys c.functions) ∧
    ∀ (i : Nat) (nf : Name × Fn), c.functions[i]? = some nf →
      ∃ m : CMethod, (docClass rel c).methods[i]? = some m ∧ m.name = nf.1 ∧
        (∀ l, l ∈ m.lines.map CLine.number ↔
          (l ∈ keys c.lines ∧ nf.2.start ≤ l ∧ l < funcEnd c nf.2.start)) ∧
        ∀ x ∈ m.lines, x = lineFromNumber c x.number :=
  docClass_methods_spec rel c

/-- Every method line is a class line — the identical `<line>` (number, hits, conditions). -/
theorem C03_cob_method_lines_are_class_lines (rel : Name) (c : Cov) :
    ∀ m ∈ (docClass rel c).methods, ∀ x ∈ m.lines, x ∈ (docClass rel c).lines :=
  docClass_method_lines_sub rel c

/-- A line belongs to methods of at most one start value: two functions that both list a line
start on the same line — and two functions with the same start line list the same lines (both claim
them). -/
theorem C03_cob_line_one_start (c : Cov) (f g : Name × Fn) (hf : f ∈ c.functions)
    (hg : g ∈ c.functions) :
    (∀ l, l ∈ linesInFunction c f.2 → l ∈ linesInFunction c g.2 → f.2.start = g.2.start) ∧
    (f.2.start = g.2.start → linesInFunction c f.2 = linesInFunction c g.2) :=
  ⟨fun l h1 h2 => same_start_of_shared_line c f g hf hg l h1 h2, linesInFunction_congr c f.2 g.2⟩

/-- An instrumented line is listed by some method iff some function starts at or before it; in
particular lines before the first function start belong to no method, and a line at or after a
function start is never lost. -/
theorem C03_cob_line_claimed_iff (c : Cov) (l : Nat) (hl : l ∈ keys c.lines) :
    (∃ nf ∈ c.functions, l ∈ linesInFunction c nf.2) ↔ ∃ nf ∈ c.functions, nf.2.start ≤ l := by
  constructor
  · rintro ⟨nf, hnf, h⟩
    exact ⟨nf, hnf, ((mem_linesInFunction c nf.2 l).1 h).2.1⟩
  · exact claimed_of_start_le c l hl

/-- The class (and package) figures count each instrumented line once, although the lines of the
methods are merged into the same map: (covered, valid) are the counts over the class lines. -/
theorem C03_cob_class_stats_no_double_count (rel : Name) (c : Cov) (hnd : NodupKeys c.lines) :
    classStats (docClass rel c) = statsOn c (keys c.lines) ∧
    packageStats (docPackage rel c) = statsOn c (keys c.lines) ∧
    (classStats (docClass rel c)).linesValid = c.lines.length ∧
    (classStats (docClass rel c)).linesCovered = countPos c.lines := by
  refine ⟨classStats_docClass rel c hnd, packageStats_docPackage rel c hnd, ?_, ?_⟩
  · rw [classStats_docClass rel c hnd]; simp [statsOn, keys]
  · rw [classStats_docClass rel c hnd]; exact countP_lineHit_keys c hnd

/-- The element tree handed to quick-xml (`output_cobertura` / `write_lines`: coverage → sources,
packages → package → classes → class → methods → method → lines, class → lines; `branch="true"` and
one `<condition>` per branch slot) loses nothing: an independent reader of the tree rebuilds the
whole document, hence (with `C03_cob_decode`) every file's lines, hits, branch vectors and function
names. -/
theorem C03_cob_xml_roundtrip (src : Option Name) (rs : List (Name × Cov))
    (hnd : ∀ r ∈ rs, NodupKeys r.2.lines) :
    (∀ d : Doc, docOfXml (toXml d) = some d) ∧
    (docOfXml (toXml (coberturaDoc src rs))).map (fun d => decodeCobertura d.packages)
      = some (rs.map fun r => (r.1, cobProj r.2)) := by
  refine ⟨doc_roundtrip, ?_⟩
  rw [doc_roundtrip]
  simp only [Option.map_some]
  exact congrArg some (decodeCobertura_packages rs hnd)

/-- Both writers compute `last line + 1` in `u32`: they write a report iff no file has a last line
key of 2^32-1, and panic otherwise (overflow checks on). -/
theorem C03_cobade_last_plus_one (src : Option Name) (rs : List (Name × Cov)) :
    (lastPlusOnePanics rs = false →
      CobAde.cobertura src rs = .ok (coberturaDoc src rs) ∧ CobAde.ade rs = .ok (adeDoc rs)) ∧
    (lastPlusOnePanics rs = true ↔ ∃ r ∈ rs, U32MAX ≤ maxKey r.2.lines) := by
  constructor
  · intro h; simp [CobAde.cobertura, CobAde.ade, h]
  · simp [lastPlusOnePanics, List.any_eq_true]

/-! ## ActiveData-ETL -/

/-- covered ∪ uncovered = the instrumented lines, the two are disjoint, nothing is listed twice,
and their lengths add up to the number of instrumented lines (membership by count > 0 / = 0 is
`C03_ade_partition`). -/
theorem C03_ade_partition_exact (ls : List (Nat × Nat)) (hnd : NodupKeys ls) :
    (∀ l, l ∈ keys ls ↔ l ∈ adeCovered ls ∨ l ∈ adeUncovered ls) ∧
    (∀ l, ¬ (l ∈ adeCovered ls ∧ l ∈ adeUncovered ls)) ∧
    (adeCovered ls).Nodup ∧ (adeUncovered ls).Nodup ∧
    (adeCovered ls).length + (adeUncovered ls).length = ls.length :=
  ⟨mem_keys_iff_ade ls, ade_disjoint ls hnd, nodup_adeCovered ls hnd, nodup_adeUncovered ls hnd,
   length_adeCovered_add ls⟩

/-- The records of one file: one record per function, in the order of the function list, carrying
exactly the covered / uncovered lines of the file inside the function's range; then the file
record with the file's lists and, as orphans, the file's lists minus every claimed line. Every
`total_*` field is the length of its list. -/
theorem C03_ade_records (r : Name × Cov) (hnd : NodupKeys r.2.lines) :
    adeRecords r = r.2.functions.map (methodRec r.1 r.2) ++ [fileRec r.1 r.2] ∧
    (∀ nf, methodRec r.1 r.2 nf = .method r.1 nf.1
        ⟨(adeCovered r.2.lines).filter (inFn r.2 nf.2), (adeUncovered r.2.lines).filter (inFn r.2 nf.2),
         ((adeCovered r.2.lines).filter (inFn r.2 nf.2)).length,
         ((adeUncovered r.2.lines).filter (inFn r.2 nf.2)).length⟩) ∧
    fileRec r.1 r.2 = .file r.1
        ⟨adeCovered r.2.lines, adeUncovered r.2.lines,
         (adeCovered r.2.lines).length, (adeUncovered r.2.lines).length⟩
        ⟨(adeCovered r.2.lines).filter (fun x => !claimed r.2 x),
         (adeUncovered r.2.lines).filter (fun x => !claimed r.2 x),
         ((adeCovered r.2.lines).filter (fun x => !claimed r.2 x)).length,
         ((adeUncovered r.2.lines).filter (fun x => !claimed r.2 x)).length⟩ :=
  ⟨adeRecords_eq r hnd, fun _ => rfl, rfl⟩

/-- The range of a function record is the cobertura range: `x` is in it iff
`start ≤ x < func_end`; a line is claimed iff it is in the range of some function, which for an
instrumented line is iff some function starts at or before it. -/
theorem C03_ade_ranges (c : Cov) (x : Nat) :
    (∀ f : Fn, inFn c f x = true ↔ (f.start ≤ x ∧ x < funcEnd c f.start)) ∧
    (claimed c x = true ↔ ∃ nf ∈ c.functions, inFn c nf.2 x = true) ∧
    (x ∈ keys c.lines → (claimed c x = true ↔ ∃ nf ∈ c.functions, nf.2.start ≤ x)) := by
  refine ⟨fun f => inFn_iff c f x, by simp [claimed, List.any_eq_true], fun hx => ?_⟩
  rw [claimed_iff c x hx, C03_cob_line_claimed_iff c x hx]

/-- Every instrumented line is either in the lists of at least one function record or among the
orphans of the file record, never both. -/
theorem C03_ade_claimed_xor_orphan (c : Cov) (l : Nat) (hl : l ∈ keys c.lines) :
    let orphans := (adeCovered c.lines).filter (fun x => !claimed c x) ++
                   (adeUncovered c.lines).filter (fun x => !claimed c x)
    let inSomeFunction := ∃ nf ∈ c.functions,
      l ∈ (adeCovered c.lines).filter (inFn c nf.2) ∨ l ∈ (adeUncovered c.lines).filter (inFn c nf.2)
    (l ∈ orphans ↔ ¬ inSomeFunction) ∧ (l ∈ orphans ∨ inSomeFunction) :=
  ade_claimed_xor_orphan c l hl

/-- Reading the records back: the file records are one per result, in order, each attributed to
its own file with exactly its covered / uncovered lists; the function records name exactly the
functions of each file under that file's name. No file or function is added, dropped, duplicated
or attributed to another file. -/
theorem C03_ade_decode (rs : List (Name × Cov)) :
    decodeAdeFiles (adeDoc rs)
      = (rs.map fun r => (r.1, adeCovered r.2.lines, adeUncovered r.2.lines)) ∧
    decodeAdeFns (adeDoc rs) = rs.flatMap fun r => r.2.functions.map fun nf => (r.1, nf.1) :=
  ⟨decodeAdeFiles_adeDoc rs, decodeAdeFns_adeDoc rs⟩

/-- With the line keys ascending (what iterating a `BTreeMap` gives) every list of every record is
ascending: the orphan lists, kept in a `BTreeSet` by the code, are in the order the model lists
them. -/
theorem C03_ade_lists_ascending (c : Cov) (hs : (keys c.lines).Pairwise (· < ·)) (p : Nat → Bool) :
    ((adeCovered c.lines).filter p).Pairwise (· < ·) ∧
    ((adeUncovered c.lines).filter p).Pairwise (· < ·) :=
  ade_lists_ascending c hs p

/-! ## non-vacuity: a closed result with a shared start line, a function after the last line, a
line before the first function, a branch vector, and the largest count -/

def witCobAde : Cov :=
  { lines := [(1, 5), (2, 0), (3, U64MAX), (7, 1)]
    branches := [(2, [true, false])]
    functions := [([102], ⟨2, true⟩), ([103], ⟨2, true⟩), ([104], ⟨7, true⟩), ([122], ⟨9, true⟩)] }

example : NodupKeys witCobAde.lines := by unfold NodupKeys; decide
example : (keys witCobAde.lines).Pairwise (· < ·) := by decide
example : ∀ l, (get? witCobAde.branches l).isSome → (get? witCobAde.lines l).isSome := by
  intro l h
  have : l = 2 := by
    simp only [witCobAde, get?_cons, get?_nil] at h
    by_cases h2 : 2 = l
    · exact h2.symm
    · simp [h2] at h
  subst this; decide
/-- `src/a.b.c` ↦ `a.b`, `.hidden` ↦ `.hidden`, `x/..` ↦ ``, `a/b/.` ↦ `b`, `trail/` ↦ `trail` -/
example : className [115, 114, 99, 47, 97, 46, 98, 46, 99] = [97, 46, 98] ∧
    className [46, 104] = [46, 104] ∧ className [120, 47, 46, 46] = [] ∧
    className [97, 47, 98, 47, 46] = [98] ∧ className [116, 47] = [116] := by decide
example : funcEnd witCobAde 2 = 7 ∧ funcEnd witCobAde 7 = 9 ∧ funcEnd witCobAde 9 = 8 ∧
    funcEndLoop witCobAde 2 = 7 := by decide
/-- src/a.b.c: class name `a.b`; `f` and `g` both list lines 2 and 3 (with the count 2^64-1), `h`
lists line 7, `z` (after the last line) lists nothing, line 1 is in no method -/
example : docClass [115, 114, 99, 47, 97, 46, 98, 46, 99] witCobAde =
    { name := [97, 46, 98], filename := [115, 114, 99, 47, 97, 46, 98, 46, 99]
      lines := [.plain 1 5, .branch 2 0 [true, false], .plain 3 U64MAX, .plain 7 1]
      methods := [⟨[102], [.branch 2 0 [true, false], .plain 3 U64MAX]⟩,
                  ⟨[103], [.branch 2 0 [true, false], .plain 3 U64MAX]⟩,
                  ⟨[104], [.plain 7 1]⟩, ⟨[122], []⟩] } := by decide
example : decodeCobertura (coberturaDoc none [([97], witCobAde)]).packages
    = [([97], cobProj witCobAde)] := by decide
example : classStats (docClass [97] witCobAde) = ⟨3, 4, 1, 2⟩ := by decide
example : adeRecords ([97], witCobAde) =
    [.method [97] [102] ⟨[3], [2], 1, 1⟩, .method [97] [103] ⟨[3], [2], 1, 1⟩,
     .method [97] [104] ⟨[7], [], 1, 0⟩, .method [97] [122] ⟨[], [], 0, 0⟩,
     .file [97] ⟨[1, 3, 7], [2], 3, 1⟩ ⟨[1], [], 1, 0⟩] := by decide
example : docOfXml (toXml (coberturaDoc none [([97], witCobAde)]))
    = some (coberturaDoc none [([97], witCobAde)]) := by decide
example : lastPlusOnePanics [([97], witCobAde)] = false ∧
    lastPlusOnePanics [([97], { witCobAde with lines := [(U32MAX, 1)] })] = true := by decide

end Grcov.Props.C03
