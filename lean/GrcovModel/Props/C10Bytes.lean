/-
C10, byte level — the fidelity statement of Props/C10.lean carried from quick-xml EVENTS down to
the BYTES of the report file.

`Jacoco.Bytes.events` (GrcovModel/Jacoco/Bytes.lean) models quick-xml 0.37.4's `Reader` with the
settings of `parse_jacoco_xml_report` and `BytesStart::attributes()`; `parseBytesCap cap bs` is
`parseCap cap (events bs)`. A byte-level document is a `BNode` tree (Jacoco/BytesSer.lean) that
carries every layout choice the reader tolerates; a `Serialisation r` of a report `r` is such a
document whose events form a well-formed event-level serialisation of `r`.

Encoding. A `Serialisation` is a UTF-8 (or ASCII) serialisation: `jacocoXml s` is the byte string in
which markup bytes are ASCII and names are the UTF-8 bytes of the report's names. /repo builds
quick-xml WITHOUT its `encoding` feature: the reader never transcodes, the `encoding="…"` of the XML
declaration is ignored, and only a UTF-8 BOM is removed. A report written in another encoding is
therefore outside `C10_fidelity_bytes` (review item 35): a UTF-16 report is one `Text` event for
the reader (no byte `<` followed by a name) and gives `Ok([])` – a silent empty result, recorded as
an observation, harness `ties.encoding.utf16.*` –, an ISO-8859-1 report whose names are ASCII reads
like its UTF-8 twin, and one with a non-ASCII name is `Err(Parse)` as soon as the parser decodes
that name (`Decoder::decode` → `Utf8Error`) – error-or-empty, never a wrong record
(`ties.encoding.latin1.*`).

What remains trusted below this level: that `events` IS quick-xml's reader (tied event by event,
attribute list by attribute list, on generated documents and on byte-level mutations of them,
valid UTF-8 or not: harness stream `bytes.*`), `BufReader`'s chunking, and UTF-8 decoding of names
and values inside the parser (`Decoder::decode`; the end-to-end tie uses valid UTF-8 only).
Not proved: that EVERY well-formed report has a `Serialisation` (the structure is inhabited by
construction for the documents one writes down – `exSerialisation` below – and the harness
generator produces them at random); the general constructor from `Report` is future work.
-/
import GrcovModel.Lemmas.JacocoBytes
namespace Grcov.Props.C10
open Grcov AList Grcov.Jacoco Grcov.Jacoco.Spec Grcov.Jacoco.Bytes

/-- The tokenizer model reads back every well-formed byte-level document: for every `BNode` forest
(any attribute layout, either quote, white space before `>` and around `=`, empty-element or
start/end tags, text between elements, comments, CDATA, PIs, declaration, DOCTYPE) whose text does
not begin with a byte-order mark, the events read from its bytes are its events. -/
theorem C10_tokenizer_reads_back (nodes : List BNode) (h : wfDoc nodes = true)
    (hb : (renderL nodes).head? ≠ some 239) : Bytes.events (renderL nodes) = flattenL nodes :=
  events_renderL nodes h (stripBom_of_head hb)

/-- `events (jacocoXml ser) = eventsOf ser`: the bytes of a serialised report tokenise to the
event sequence of its event-level serialisation. -/
theorem C10_events_of_bytes {r : Report} (s : Serialisation r) :
    Bytes.events (jacocoXml s) = eventsOf s :=
  events_jacocoXml s

/-- Fidelity at byte level: for every report `r` and every byte-level UTF-8 serialisation of it
(`jacocoXml s`: ASCII markup, names as their UTF-8 bytes; all layout choices of the bytes, all
serialisation choices of Props/C10.lean; a report in UTF-16 or ISO-8859-1 is NOT such a
serialisation – see the header for what the reader does with one) in which every method
has a `line` and every branch vector fits `cap`, `parse_jacoco_xml_report` on the BYTES returns
exactly the records the report denotes. -/
theorem C10_fidelity_bytes (cap : Nat) {r : Report} (s : Serialisation r)
    (hg : good cap s.x = true) : parseBytesCap cap (jacocoXml s) = .ok (sem r) := by
  have := parse_events cap s.x s.wfx hg (enoughFuel (eventsOf s))
    (by have := enoughFuel_gt (Spec.events s.x); exact this)
  rw [s.abs_eq] at this
  simp only [parseBytesCap, events_jacocoXml s]
  exact this

/-- … and for `parse_jacoco_xml_report` itself (`cap` = isize::MAX). -/
theorem C10_fidelity_bytes_default {r : Report} (s : Serialisation r)
    (hg : good allocMax s.x = true) : parseBytes (jacocoXml s) = .ok (sem r) :=
  C10_fidelity_bytes allocMax s hg

/-- Any bytes whatsoever: the byte-level reader + parser returns (a result, an error, or the
allocation crash), never out of fuel. -/
theorem C10_bytes_always_terminate (cap : Nat) (bs : List Nat) : parseBytesCap cap bs ≠ .diverge :=
  parseCap_terminates cap _ _ (Nat.le_refl _)

/-! ### non-vacuity -/

/-- a report file with declaration, DOCTYPE, session info, attributes in either quote with blanks
around `=` and a line break between them, `<line …></line>` next to `<line …/>`, a comment that
contains `>` and `--`, a CDATA section that contains a `<package>` tag, indentation, `</package >` -/
def exSerialisation : Serialisation (abs exX) where
  nodes := exNodes
  x := exX
  wfBytes := by decide +kernel
  noBom := by decide +kernel
  events_eq := by decide +kernel
  wfx := by decide +kernel
  abs_eq := rfl

example : jacocoXml exSerialisation = exBytes ∧ good allocMax exX = true := by decide +kernel

example : parseBytes exBytes
    = .ok [([112, 47, 65, 46, 106, 97, 118, 97],
            { lines := [(3, 1)], branches := [(5, [true, true, false])],
              functions := [([65, 35, 60, 105, 110, 105, 116, 62], ⟨3, true⟩)] })] := by
  decide +kernel

/-- tokenizer errors and attribute syntax errors on bytes: `<a></b>` is `Start(a)` then an error;
`<a b>` tokenises, and the attribute iterator fails at `b` (the empty-key marker); a repeated key
is kept twice (the parser takes the first / for `<line>` the last) -/
example : Bytes.events [60, 97, 62, 60, 47, 98, 62] = [.start [97] [], .bad]
    ∧ Bytes.events [60, 97, 32, 98, 62] = [.start [97] attrErr]
    ∧ Bytes.events [60, 97, 32, 98, 61, 34, 34, 32, 98, 61, 39, 120, 39, 47, 62]
        = [.empty [97] [([98], []), ([98], [120])]] := by decide +kernel

end Grcov.Props.C10
