/-
C15 — run data only scales counts: structural laws of the gcno/gcda reader.
Property theorems only; the model is `GrcovModel/Gcno.lean` (`compute` = `Gcno::compute` after
`read_gcno`), helper lemmas live in `GrcovModel/Lemmas/Gcno*.lean`.
Quantification: every notes structure `g` (any CFG, well-formed or not), every list of gcda
record sequences, every permutation, every k. `compute … = ok r` means "accepted": the
alternatives are `err` (rejected), `crash` (a Rust panic: index, u64 overflow with overflow
checks on) and `diverge` (fuel).
Parts: Props/C15Bytes.lean (the same laws over file BYTES, `computeBytes`; bytes = records),
Props/C15Entry.lean (executed iff entered under the shape condition `EntryFirst`, and the witness
that it is needed), Props/C15Mismatch.lean (a function-checksum mismatch is an `err` below the
overflow guard, of a kind that does not depend on the order of the matching gcda files),
Props/C15Stamp.lean (the version clause over the four stamp BYTES: false for non-canonical stamps,
finding C15-version-stamp-middle-char-ignored).
-/
import GrcovModel.Lemmas.GcnoFinal
import GrcovModel.Props.C15Bytes
import GrcovModel.Props.C15Entry
import GrcovModel.Props.C15Mismatch
import GrcovModel.Props.C15Stamp
import GrcovModel.Props.C15Run
namespace Grcov.Props.C15
open Grcov Grcov.Gcno AList Outcome

/-- The structure of every accepted result – per file the line set (in first-occurrence order),
the branch lines with their number of slots, the functions with their start lines – is the
function `gcnoStructure` of the notes alone. -/
theorem C15_structure_from_gcno (g : Notes) (ds : List Gcda) (br : Bool) (r : List (Bytes × Cov))
    (h : compute g ds br = ok r) : structOf r = gcnoStructure g br :=
  compute_struct h

/-- Line set, function set and branch slots are the same for every accepted gcda list,
including the empty one. -/
theorem C15_structure_independent_of_gcda (g : Notes) (ds ds' : List Gcda) (br : Bool)
    (r r' : List (Bytes × Cov)) (h : compute g ds br = ok r) (h' : compute g ds' br = ok r') :
    structOf r = structOf r' := by
  rw [compute_struct h, compute_struct h']

/-- With no gcda every line count is zero, no function is executed and no branch is taken. -/
theorem C15_no_gcda_all_zero (g : Notes) (br : Bool) (r : List (Bytes × Cov))
    (h : compute g [] br = ok r) : NotRun r := by
  rw [compute_eq] at h
  obtain ⟨fs, h1, h2⟩ := bind_eq_ok.1 h
  exact foldl_finStep_notRun br fs [] r h2 (fun fc hfc => stopped_nil_zero h1 fc hfc 0)
    (fun p hp => by cases hp)

/-- Counter accumulation does not depend on the order of the gcda files. -/
theorem C15_counters_order_independent (g : Notes) (ds ds' : List Gcda) (p : ds.Perm ds')
    (st : State) (h : addGcdas g State.zero ds = ok st) : addGcdas g State.zero ds' = ok st :=
  addGcdas_perm p _ _ State.zero_Fits h

/-- The result does not depend on the order of the gcda files: any permutation of an accepted
list is accepted with the same result. -/
theorem C15_order_independent (g : Notes) (ds ds' : List Gcda) (p : ds.Perm ds') (br : Bool)
    (r : List (Bytes × Cov)) (h : compute g ds br = ok r) : compute g ds' br = ok r := by
  unfold compute at h ⊢
  obtain ⟨st, h1, h2⟩ := bind_eq_ok.1 h
  rw [addGcdas_perm p _ _ State.zero_Fits h1]
  exact h2

/-- Accumulation level, every k: k+1 copies of one gcda accumulate to exactly (k+1) times the
arc and block counters of one copy. -/
theorem C15_counters_k_copies (g : Notes) (d : Gcda) (k : Nat) (st : State)
    (h : addGcdas g State.zero (List.replicate (k + 1) d) = ok st) :
    ∃ st1, addGcdas g State.zero [d] = ok st1 ∧ st = st1.scale (k + 1) := by
  obtain ⟨Δ, hΔ, e⟩ := addGcdas_replicate k st h
  exact ⟨Δ, by simp [addGcdas_cons, addGcdas_nil, hΔ], e⟩

/-- Supplying the same gcda k+1 times yields exactly (k+1) times the line counts of supplying it
once, with the same executed flags and the same branch vectors – through propagation, the
multi-block line rule and the cycle search. (k = 0 copies is `C15_no_gcda_all_zero`; the guard
"no u64 overflow" is the hypothesis that the (k+1)-fold run is accepted.) -/
theorem C15_k_copies (g : Notes) (d : Gcda) (k : Nat) (br : Bool) (rk : List (Bytes × Cov))
    (h : compute g (List.replicate (k + 1) d) br = ok rk) :
    ∃ r1, compute g [d] br = ok r1 ∧ rk = scaleRes (k + 1) r1 := by
  unfold compute at h ⊢
  obtain ⟨stk, h1, h2⟩ := bind_eq_ok.1 h
  obtain ⟨Δ, hΔ, e⟩ := addGcdas_replicate k stk h1
  have hfit := addGcdas_fits _ _ _ h1 State.zero_Fits
  have hrel : ∀ i, CntRel (scaleRel (k + 1)) (stk i) (Δ i) := by
    intro i
    subst e
    exact ⟨fun j => ⟨rfl, (hfit i).1 j⟩, fun j => ⟨rfl, (hfit i).2 j⟩⟩
  obtain ⟨r1, h3, hr⟩ := stop_finalize_sim (scaleRel_valRel (k + 1) (by omega)) g br hrel h2
  refine ⟨r1, ?_, ResRel_scale hr⟩
  simp only [addGcdas_cons, addGcdas_nil, hΔ, bind_ok]
  exact h3

/-- A function is reported executed iff it was entered: the function at position `i` of the
notes (unless a later function of the same file has the same name and replaces its entry) is
reported with its start line and `executed = entered f c` = "it has an arc and the count of its
first arc is > 0", where the count is the one `stop` leaves on arc 0 – the arc from the entry
block into the body (a function without any arc is not executed). (For CFGs whose
on-tree arcs form a spanning tree that count is the flow on the arc: `C08_flow_recovered`.) -/
theorem C15_executed_iff_entered (g : Notes) (ds : List Gcda) (br : Bool) (r : List (Bytes × Cov))
    (fs pre post : List (Func × Cnt)) (f : Func) (c : Cnt)
    (hs : stopped g ds = ok fs) (h : compute g ds br = ok r) (e : fs = pre ++ (f, c) :: post)
    (hlast : ∀ fc ∈ post, ¬ (fc.1.fileName = f.fileName ∧ fc.1.name = f.name)) :
    fnAt r f.fileName f.name = some ⟨f.startLine, entered f c⟩ := by
  rw [compute_eq, hs] at h
  exact foldl_finStep_fnAt br fs [] r pre post f c e h hlast

/-- A gcda whose version NUMBER (what `read_version` computes from the stamp) differs from the
notes is rejected with an error, whatever was accumulated before. Over the stamp bytes:
`C15_stamp_mismatch_rejected_partial` / `…_false` (Props/C15Stamp.lean). -/
theorem C15_version_mismatch_rejected (g : Notes) (st : State) (d : Gcda)
    (h : d.version ≠ g.version) : addGcda g st d = err .versionMismatch := by
  unfold addGcda; rw [if_pos h]

/-- A gcda whose checksum differs from the notes is rejected with an error. -/
theorem C15_checksum_mismatch_rejected (g : Notes) (st : State) (d : Gcda)
    (hv : d.version = g.version) (h : d.checksum ≠ g.checksum) :
    addGcda g st d = err .checksumMismatch := by
  unfold addGcda; rw [if_neg (by simp [hv]), if_pos h]

/-- A gcda whose version, checksum or per-function checksums do not match the notes is never
mixed in: no list containing it is accepted – the computation for that notes file yields no
result at all (an `err`, or the crash of an earlier u64 overflow), never a partial mix. -/
theorem C15_mismatch_rejected (g : Notes) (ds : List Gcda) (d : Gcda) (br : Bool)
    (hd : d ∈ ds) (hm : Mismatch g d) : ∀ r, compute g ds br ≠ ok r := by
  intro r h
  unfold compute at h
  obtain ⟨st, h1, _⟩ := bind_eq_ok.1 h
  have gen : ∀ (ds : List Gcda) (st0 st : State), addGcdas g st0 ds = ok st → d ∈ ds → False := by
    intro ds
    induction ds with
    | nil => intro _ _ _ hd; cases hd
    | cons d' ds ih =>
      intro st0 st h hd
      rw [addGcdas_cons] at h
      obtain ⟨s1, h1, h2⟩ := bind_eq_ok.1 h
      rcases List.mem_cons.1 hd with e | hd
      · subst e
        unfold addGcda at h1
        split at h1; · cases h1
        split at h1; · cases h1
        rename_i hv hc
        rcases hm with hm | hm | ⟨rec, hrec, hbad⟩
        · exact hv hm
        · exact hc hm
        · exact goRecs_ok_no_bad g _ _ _ _ h1 rec hrec hbad
      · exact ih _ _ h2 hd
  exact gen ds _ _ h1 hd

/-- …and with a version or checksum mismatch the outcome is precisely an error as soon as the
gcda files before it were accepted. -/
theorem C15_mismatch_is_error (g : Notes) (pre post : List Gcda) (d : Gcda) (br : Bool) (st : State)
    (hpre : addGcdas g State.zero pre = ok st)
    (hm : d.version ≠ g.version ∨ d.checksum ≠ g.checksum) :
    ∃ k, compute g (pre ++ d :: post) br = err k := by
  unfold compute addGcdas at *
  rw [foldl_append, hpre]
  simp only [bind_ok, foldl_cons]
  by_cases hv : d.version ≠ g.version
  · rw [C15_version_mismatch_rejected g st d hv]; exact ⟨_, rfl⟩
  · have hc : d.checksum ≠ g.checksum := by
      rcases hm with h | h
      · exact absurd h hv
      · exact h
    rw [C15_checksum_mismatch_rejected g st d (by simpa using hv) hc]; exact ⟨_, rfl⟩

/-! ### the hypotheses are satisfiable: a concrete notes file and run -/

/-- `int f(int x) { if (x) a(); else b(); return; }`-shaped CFG in the LLVM 4.8 layout: block 0 =
entry, 1 = exit, arcs 0→2, 2→3, 2→4 (on tree), 3→5, 4→5 (on tree), 5→1 (on tree) -/
def exNotes : Outcome Notes :=
  build 48 7
    [.func 1 11 22 [102] [97, 46, 99] 10 0, .blocks 6,
     .arcs 0 [(2, 0)], .arcs 2 [(3, 0), (4, 1)], .arcs 3 [(5, 0)], .arcs 4 [(5, 1)],
     .arcs 5 [(1, 1)],
     .lines 2 [.file [97, 46, 99], .line 10], .lines 3 [.file [97, 46, 99], .line 11],
     .lines 4 [.file [97, 46, 99], .line 12], .lines 5 [.file [97, 46, 99], .line 13, .line 10]]

def exGcda (a b c : Nat) : Gcda := ⟨48, 7, [.func 3 1 11 22, .arcs 6 [a, b, c]]⟩

def showRes (o : Outcome (List (Bytes × Cov))) : Option (List (Nat × Nat)) :=
  match o with
  | .ok [(_, c)] => some c.lines
  | _ => none

example : showRes (exNotes.bind fun g => compute g [exGcda 5 2 2] true)
    = some [(10, 10), (11, 2), (12, 3), (13, 5)] := by decide +kernel
example : showRes (exNotes.bind fun g => compute g [exGcda 5 2 2, exGcda 5 2 2, exGcda 5 2 2] true)
    = some [(10, 30), (11, 6), (12, 9), (13, 15)] := by decide +kernel
example : showRes (exNotes.bind fun g => compute g [exGcda 1 0 0, exGcda 5 2 2] true)
    = showRes (exNotes.bind fun g => compute g [exGcda 5 2 2, exGcda 1 0 0] true) := by
  decide +kernel
example : showRes (exNotes.bind fun g => compute g [] true)
    = some [(10, 0), (11, 0), (12, 0), (13, 0)] := by decide +kernel
example : (exNotes.bind fun g => compute g [exGcda 5 2 2, ⟨48, 8, []⟩] true).isOk = false := by
  decide +kernel
example : (exNotes.bind fun g => compute g [⟨48, 7, [.func 3 1 11 23, .arcs 6 [1, 1, 1]]⟩] true).isOk
    = false := by decide +kernel

end Grcov.Props.C15
