/-
C03 — report fidelity, part HtmlDisk (second review, item 20): the HTML output directory is a file
system. Model `GrcovModel/Writers/HtmlDisk.lean`: the page writes in the order the consumer threads
take them, then `gen_index` / `gen_dir_index`, on a disk where a path is a file or a directory.

The flat page map of `C03Docs` (`C03_html_pages_partial`, `C03_html_page_writes`,
`HtmlSite.indexFiles`) describes the disk only under two more guards:
* `NoFileDir`: no page FILE is a directory of another page (`a.c` beside `a.c.html/z.c`): else the
  second of the two writes fails – which one depends on the schedule – and the run still exits 0
  (`C03_htmldisk_page_dir_false`; finding C03-html-page-dir-collision); one level deeper the
  consumer thread panics (`C03_htmldisk_panic_witness`);
* `NoIndexDir`: no index FILE is a directory of a page (a source directory named `index.html`):
  at the root `gen_index` returns before writing ANY index (`C03_htmldisk_index_dir_false`;
  finding C03-html-dir-named-index-html).
Under the guards the disk is exactly the flat model (`C03_htmldisk_partial`).
-/
import GrcovModel.Lemmas.WritersHtmlDisk
import GrcovModel.Props.C03Docs
namespace Grcov.Props.C03
open Grcov AList Grcov.Writers Grcov.Writers.Docs Grcov.Writers.HtmlDisk

/-- Full statement: when `output_html` has returned, the output directory holds the page files and
the index files of the flat model – every result that gets a page has its page file, every
directory its index. -/
def C03_htmldisk_stmt : Prop :=
  ∀ es : List HtmlEntry, Placed es →
    siteOnDisk es = some
      { pages := HtmlSite.pageFiles ⟨sitePages es, siteDirs es⟩
        indexes := HtmlSite.indexFiles ⟨sitePages es, siteDirs es⟩ }

/-- the page of `a.c` (one row, count 5): the FILE `a.c.html` -/
def witPageA : HtmlEntry := ⟨[[97, 46, 99, 46, 104, 116, 109, 108]], [], [97, 46, 99], [5]⟩
/-- the page of `a.c.html/z.c`: needs the DIRECTORY `a.c.html` -/
def witPageZ : HtmlEntry :=
  ⟨[[97, 46, 99, 46, 104, 116, 109, 108], [122, 46, 99, 46, 104, 116, 109, 108]],
   [97, 46, 99, 46, 104, 116, 109, 108], [122, 46, 99], [-1, 7]⟩
/-- the page of `index.html/z.c`: needs the DIRECTORY `index.html` in the output directory -/
def witPageI : HtmlEntry :=
  ⟨[indexHtml, [122, 46, 99, 46, 104, 116, 109, 108]], indexHtml, [122, 46, 99], [-1, 7]⟩
/-- the page of `lib/y.c` -/
def witPageL : HtmlEntry :=
  ⟨[[108, 105, 98], [121, 46, 99, 46, 104, 116, 109, 108]], [108, 105, 98], [121, 46, 99], [1]⟩

/-- False of the code: `a.c` and `a.c.html/z.c`. Whichever page is written first, the other one
is not created (`Cannot create file`, exit code 0): with the results in this order the page of
`z.c` is missing, in the other order the page of `a.c` – and with it, in both orders, the index of
the directory `a.c.html` or the row target of `a.c`. (finding C03-html-page-dir-collision) -/
theorem C03_htmldisk_page_dir_false :
    ¬ C03_htmldisk_stmt ∧
    (siteOnDisk [witPageA, witPageZ]).map (fun d => keys d.pages) = some [witPageA.dest] ∧
    (siteOnDisk [witPageZ, witPageA]).map (fun d => keys d.pages) = some [witPageZ.dest] ∧
    keys (sitePages [witPageA, witPageZ]) = [witPageA.dest, witPageZ.dest] := by
  refine ⟨fun h => ?_, by decide, by decide, by decide⟩
  have := h [witPageA, witPageZ] (by
    intro e he
    simp only [List.mem_cons, List.not_mem_nil, or_false] at he
    rcases he with rfl | rfl <;> decide)
  revert this; decide

/-- False of the code: a source directory named `index.html` at the root (`index.html/z.c` beside
`lib/y.c`). Both pages are written, but `gen_index` cannot create `index.html` – it is a directory
– and returns before the directory indexes: the report has NO index file at all.
(finding C03-html-dir-named-index-html) -/
theorem C03_htmldisk_index_dir_false :
    NoFileDir [witPageI, witPageL] ∧ Placed [witPageI, witPageL] ∧
    (siteOnDisk [witPageI, witPageL]).map (fun d => (keys d.pages, d.indexes.length))
      = some ([witPageI.dest, witPageL.dest], 0) ∧
    (HtmlSite.indexFiles ⟨sitePages [witPageI, witPageL], siteDirs [witPageI, witPageL]⟩).length = 3 := by
  refine ⟨?_, ?_, by decide, by decide⟩
  · intro e he e' he'
    simp only [List.mem_cons, List.not_mem_nil, or_false] at he he'
    rcases he with rfl | rfl <;> rcases he' with rfl | rfl <;> decide
  · intro e he
    simp only [List.mem_cons, List.not_mem_nil, or_false] at he
    rcases he with rfl | rfl <;> decide

/-- One level deeper (`a.c` beside `a.c.html/sub/z.c`, `a.c` written first) `create_parent`
panics in the consumer thread and `output_html` ends the process with exit code 1: no index, no
further page. -/
theorem C03_htmldisk_panic_witness :
    siteOnDisk [witPageA,
      ⟨[witPageA.dest.head!, [115, 117, 98], [122, 46, 99, 46, 104, 116, 109, 108]],
       witPageA.dest.head! ++ [47, 115, 117, 98], [122, 46, 99], [1]⟩] = none := by decide

/-- … and true under exactly the two guards the witnesses violate (`Placed`: every page lies in
the directory of its index row, which is how `gen_html` builds the entries). Then every page write
succeeds whatever the order of the jobs, the page files are the flat map (last writer of a
destination wins: `C03_html_pages_document`), and the index files are `HtmlSite.indexFiles`. -/
theorem C03_htmldisk_partial (es : List HtmlEntry) (hp : Placed es) (hg : NoFileDir es)
    (hi : NoIndexDir es) :
    writeAll [] es = some (sitePages es) ∧
    siteOnDisk es = some
      { pages := HtmlSite.pageFiles ⟨sitePages es, siteDirs es⟩
        indexes := HtmlSite.indexFiles ⟨sitePages es, siteDirs es⟩ } :=
  ⟨writeAll_eq_sitePages es hg (fun e he => (hp e he).1), siteOnDisk_eq es hg hi hp⟩

/-- The page writes alone need only the first guard, and they then succeed in EVERY order of the
jobs (any schedule of the consumer threads): the guard does not mention the order. -/
theorem C03_htmldisk_pages_any_order (es es' : List HtmlEntry) (p : es'.Perm es) (hg : NoFileDir es)
    (hne : ∀ e ∈ es, e.dest ≠ []) : writeAll [] es' = some (sitePages es') :=
  writeAll_eq_sitePages es' (fun e he e' he' => hg e (p.mem_iff.1 he) e' (p.mem_iff.1 he'))
    (fun e he => hne e (p.mem_iff.1 he))

/-- What a write does, case by case (`gen_html` / `create_parent` / `File::create`). -/
theorem C03_htmldisk_write_cases (files : Files) (e : HtmlEntry) :
    (classify files e.dest = .written → writePage files e = some (set files e.dest e.rows)) ∧
    (classify files e.dest = .skipped → writePage files e = some files) ∧
    (classify files e.dest = .panic → writePage files e = none) ∧
    (isDir files e.dest = true → classify files e.dest ≠ .written) ∧
    (isFile files e.dest.dropLast = true → classify files e.dest ≠ .written) := by
  refine ⟨fun h => by simp [writePage, h], fun h => by simp [writePage, h],
    fun h => by simp [writePage, h], fun h => ?_, fun h => ?_⟩
  · unfold classify; simp only [h, Bool.true_or]; split <;> simp
  · unfold classify; simp only [h, Bool.or_true]; split <;> simp

/-! non-vacuity: the guards hold for an ordinary site (`x/a.c`, `x/b.c`, `top.c`) -/

def witSite : List HtmlEntry :=
  [⟨[[120], [97, 46, 99, 46, 104, 116, 109, 108]], [120], [97, 46, 99], [1, -1]⟩,
   ⟨[[120], [98, 46, 99, 46, 104, 116, 109, 108]], [120], [98, 46, 99], [0]⟩,
   ⟨[[116, 111, 112, 46, 99, 46, 104, 116, 109, 108]], [], [116, 111, 112, 46, 99], []⟩]

example : placedB witSite = true := by decide
example : (siteOnDisk witSite).map (fun d => (keys d.pages, keys d.indexes)) =
    some ([[[120], [97, 46, 99, 46, 104, 116, 109, 108]], [[120], [98, 46, 99, 46, 104, 116, 109, 108]],
           [[116, 111, 112, 46, 99, 46, 104, 116, 109, 108]]], [[], [[120]]]) := by decide

end Grcov.Props.C03
