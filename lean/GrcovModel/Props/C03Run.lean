/-
C03, part `Run` — report fidelity for the two report types that the whole-run model
(`Cli.RunAll`, GrcovModel/Cli/RunAll.lean) gained in the fifth session: MARKDOWN (`run` with
`OutType.markdown`, bytes = `MdBytes.markdownBytes`) and HTML (`runHtml`: every file below the output
directory, pages and indexes = `HtmlBytes.site`), both tied to the real binary byte for byte
(`runmore` streams of harness/c02). Props/C02Run.lean has the seven other types.

From the input bytes to the decoded report:
* `C03_run_decodes_markdown`, `C03_run_markdown_end_to_end`: the strict table reader
  (`parseMarkdown`) reads from the report one row per record of `rewrite_paths`, named by its rel path,
  whose `covered / total` are the number of lines with a count > 0 / of instrumented lines of the C01
  AGGREGATE of the inputs for that file (`C02_run_entry_is_aggregate`) after the exclusion markers of
  that file – guard: names are one line without a blank at the end (`C13_md_report_roundtrip_false`
  is the witness that it is needed);
* `C03_run_html_page_of_record`: every reported file with a relative path and an openable source has
  ITS page at `htmlDest rel` when `output_html` has returned – guards: no other reported file has the
  same destination (C12's duplicates), the file is not named `index` (known finding
  C03-html-index-named-source); `C03_run_html_nothing_else`: every file of the directory is such a
  page, an `index.html`, one of the five badges or `coverage.json` – so there is EXACTLY one page per
  reported file; `C03_run_html_end_to_end`: read back by the strict page reader (`parseFilePage`)
  that page has one row per source line (lossily decoded), and row `l` carries the aggregate's count
  of line `l` – or "not instrumented" when the aggregate has none or the markers exclude it.
The flat map of `site` is what is on disk under the guards of Props/C03HtmlDisk.lean
(`C03_htmldisk_partial`: no page file is a directory of another page or index).
Helper lemmas: GrcovModel/Lemmas/CliRunAllHtml.lean.
-/
import GrcovModel.Lemmas.CliRunAllHtml
import GrcovModel.Props.C02Run
import GrcovModel.Props.C03Html
import GrcovModel.Props.C13Md
namespace Grcov.Props.C03
open Grcov AList Grcov.Rewrite Grcov.Cli.RunAll
open Grcov.Writers Grcov.Writers.Docs
open Grcov.Writers.MdBytes (parseMarkdown CellOK MdDoc)
open Grcov.Writers.HtmlBytes (site runJobs filePage fileCtx parseFilePage RowView FileCtx)
open Grcov.Stats (countPos)
open Grcov.FileFilter (applyFilters removesLine)

/-! ### markdown -/

/-- markdown: the strict table reader reads from the report, row by row in order, the rel path of
every record, its `covered / total` (lines with a count > 0 / instrumented lines) and the missed
ranges of `format_lines` – for every precision. -/
theorem C03_run_decodes_markdown (o : Opts) (L : List Rec) (ho : o.out = .markdown)
    (h : ∀ r ∈ L, CellOK r.rel) :
    ∃ B d, render o L = .ok B ∧ parseMarkdown B = some d ∧
      d.rows.map (·.file) = L.map (·.rel) ∧
      d.rows.map (fun x => (x.covered, x.total)) = L.map (fun r => (countPos r.cov.lines, r.cov.lines.length)) ∧
      d.rows.map (·.ranges) = L.map (fun r => (formatLines r.cov.lines).2) := by
  obtain ⟨d, hd, h1, h2, h3, _, _⟩ := Grcov.Props.C13.C13_md_report_figures o.precision (L.map toRes) (by
    intro r hr; simp only [List.mem_map] at hr; obtain ⟨x, hx, rfl⟩ := hr; exact h x hx)
  refine ⟨_, d, by simp [render, ho], hd, ?_, ?_, ?_⟩
  · rw [List.map_map] at h1; exact h1
  · rw [List.map_map] at h2; exact h2
  · rw [List.map_map] at h3; exact h3

/-- what `C02_run_record_iff` says of one record: it is an entry of the result map whose key
resolves to the record's paths, with the filter list of its own file applied -/
theorem C03_run_record_origin (o : Opts) (w : World) (ins : List Input) (rs : List Rec)
    (h : records o w ins = .ok rs) (r : Rec) (hr : r ∈ rs) :
    ∃ k agg, get? (resultMap o w ins) k = some agg ∧ resolveKey o.cfg w.fs k = .ok (some (r.abs, r.rel)) ∧
      r.cov = applyFilters (filterList o w r.abs) agg := by
  obtain ⟨k, c, abs, rel, hg, hres, hsel⟩ := (Grcov.Props.C02.C02_run_record_iff o w ins rs h r).1 hr
  obtain ⟨_, _, _, _, e⟩ := (selectRec_some_iff _ _ _ _ _ _).1 hsel
  subst e
  exact ⟨k, c, hg, hres, rfl⟩

/-- **From input bytes to the decoded markdown report.** A run that writes a markdown report `B`
whose names are table cells: `B` has exactly one row per record of `rewrite_paths`, and every row is
a file of the result map – an entry `agg` (the C01 aggregate of what the accepted inputs hold for that
file) whose key resolves to the row's name – with `total` = the number of instrumented lines of the
aggregate that the exclusion markers of the file leave, `covered` = those of them with a count > 0. -/
theorem C03_run_markdown_end_to_end (o : Opts) (w : World) (ins : List Input) (B : List Nat)
    (hh : o.hash.OK) (ho : o.out = .markdown) (hrun : run o w ins = .ok B)
    (hcell : ∀ rs, records o w ins = .ok rs → ∀ r ∈ rs, CellOK r.rel) :
    ∃ rs d, records o w ins = .ok rs ∧ parseMarkdown B = some d ∧
      (d.rows.map (·.file)).Perm (rs.map (·.rel)) ∧
      ∀ row ∈ d.rows, ∃ k agg abs, get? (resultMap o w ins) k = some agg ∧
        resolveKey o.cfg w.fs k = .ok (some (abs, row.file)) ∧
        row.total = (applyFilters (filterList o w abs) agg).lines.length ∧
        row.covered = countPos (applyFilters (filterList o w abs) agg).lines := by
  unfold run at hrun
  cases hc : ins.findSome? (crash o.branch) with
  | some s => rw [hc] at hrun; cases hrun
  | none =>
    rw [hc] at hrun
    cases hr : records o w ins with
    | panic s => rw [hr] at hrun; cases hrun
    | ok rs =>
      rw [hr] at hrun
      simp only [report] at hrun
      have hL : ∀ r' ∈ (ordered o rs).map (present o), CellOK r'.rel := by
        intro r' hr'
        simp only [List.mem_map] at hr'
        obtain ⟨r, hm, rfl⟩ := hr'
        exact hcell rs hr r ((ordered_perm o hh rs).subset hm)
      obtain ⟨B', d, hB', hd, h1, h2, _⟩ := C03_run_decodes_markdown o _ ho hL
      rw [hrun] at hB'
      cases hB'
      refine ⟨rs, d, rfl, hd, ?_, ?_⟩
      · rw [h1, List.map_map]
        exact (ordered_perm o hh rs).map _
      · intro row hrow
        -- the row is the image of a record
        obtain ⟨i, hi, rfl⟩ := List.getElem_of_mem hrow
        have e1 := congrArg (fun l => l[i]?) h1
        have e2 := congrArg (fun l => l[i]?) h2
        simp only [List.getElem?_map, List.getElem?_eq_getElem hi, Option.map_some] at e1 e2
        cases hLi : (ordered o rs)[i]? with
        | none => rw [hLi] at e1; cases e1
        | some r =>
        rw [hLi] at e1 e2
        simp only [Option.map_some, Option.some.injEq, Prod.mk.injEq] at e1 e2
        have hf : (present o r).rel = d.rows[i].file := e1.symm
        have hcv : countPos (present o r).cov.lines = d.rows[i].covered := e2.1.symm
        have htot : (present o r).cov.lines.length = d.rows[i].total := e2.2.symm
        have hm : r ∈ ordered o rs := List.mem_of_getElem? hLi
        have hmem : r ∈ rs := (ordered_perm o hh rs).subset hm
        obtain ⟨k, agg, hg, hres, hcov⟩ := C03_run_record_origin o w ins rs hr r hmem
        refine ⟨k, agg, r.abs, hg, ?_, ?_, ?_⟩
        · rw [← hf]; exact hres
        · rw [← htot, ← hcov]
          show (Grcov.Cli.sortByKey r.cov.lines).length = r.cov.lines.length
          exact (Grcov.Cli.sortByKey_perm r.cov.lines).length_eq
        · rw [← hcv, ← hcov]
          show countPos (Grcov.Cli.sortByKey r.cov.lines) = countPos r.cov.lines
          unfold countPos
          exact (Grcov.Cli.sortByKey_perm r.cov.lines).countP_eq _

/-! ### html -/

/-- the job `output_html` hands to a consumer thread for a record -/
def jobOf (o : Opts) (w : World) (r : Rec) : Docs.Res × Option (List Nat) := (toRes (present o r), w.raw r.abs)

/-- no consumer thread panicked: a job with a relative path and an openable source wrote a page -/
theorem runJobs_some_pageOf (ho : HtmlBytes.Opts) (jobs : List (Docs.Res × Option (List Nat)))
    (g : HtmlBytes.Global) (x : HtmlBytes.Global × List HtmlBytes.Written) (h : runJobs ho jobs g = some x)
    (j : Docs.Res × Option (List Nat)) (hj : j ∈ jobs) (hrel : UPath.isRelative j.1.rel = true) (src : List Nat)
    (hsrc : j.2 = some src) : ∃ p, pageOf ho j = some p := by
  induction jobs generalizing g x with
  | nil => cases hj
  | cons j0 jobs ih =>
    obtain ⟨r0, s0⟩ := j0
    unfold runJobs at h
    split at h
    · simp at h
    · rename_i g1 w0 hg
      split at h
      · simp at h
      · rename_i g2 ws' hr
        rcases List.mem_cons.1 hj with rfl | hj'
        · have e := genHtml_pageOf ho r0 s0 g g1 w0 hg
          simp only at hrel hsrc
          subst hsrc
          unfold HtmlBytes.genHtml at hg
          simp only [hrel, Bool.not_true, Bool.false_eq_true, if_false] at hg
          cases hf : fileCtx ho r0.rel r0.cov src with
          | none => rw [hf] at hg; simp at hg
          | some pfc =>
            obtain ⟨parent, fname, fc⟩ := pfc
            cases hd : htmlDest r0.rel with
            | none => rw [hf, hd] at hg; simp at hg
            | some dest => exact ⟨(dest, filePage fc), by simp [pageOf, hrel, hf, hd]⟩
        · exact ih g1 _ hr hj'

/-- **One page per reported file.** When `-t html` has written its directory: for every record `r`
of `rewrite_paths` whose rel path is relative and whose source file can be opened – provided no
other record has the same page destination and the file is not named `index` – the file at
`htmlDest r.rel` is the page of `r`: `filePage` of the context `gen_html` builds from `r`'s data
(walked in line order) and `r`'s source bytes. -/
theorem C03_run_html_page_of_record (o : Opts) (w : World) (ins : List Input) (files : List OutFile)
    (hh : o.hash.OK) (h : runHtml o w ins = .ok files) :
    ∃ rs, records o w ins = .ok rs ∧
      ∀ r ∈ rs, UPath.isRelative r.rel = true → ∀ src, w.raw r.abs = some src →
        (∀ r' ∈ rs, htmlDest r'.rel = htmlDest r.rel → r' = r) →
        fileNameOf r.rel ≠ some indexName →
        ∃ dest parent fname fc, htmlDest r.rel = some dest ∧
          fileCtx (htmlOpts o) r.rel (Grcov.Cli.sortCov r.cov) src = some (parent, fname, fc) ∧
          get? files dest = some (filePage fc) := by
  unfold runHtml at h
  cases hc : ins.findSome? (crash o.branch) with
  | some s => rw [hc] at h; cases h
  | none =>
    rw [hc] at h
    cases hr : records o w ins with
    | panic s => rw [hr] at h; cases h
    | ok rs =>
      rw [hr] at h
      refine ⟨rs, rfl, ?_⟩
      intro r hmem hrel src hsrc huniq hidx
      simp only [reportHtml, renderHtml] at h
      let L := (orderedHtml o rs).map (present o)
      have hperm : (orderedHtml o rs).Perm rs := by
        unfold orderedHtml
        split
        · exact (MainGlue.sortRecs_perm _).trans (hh.recsPerm rs)
        · exact hh.recsPerm rs
      cases hrj : runJobs (htmlOpts o) (htmlJobs w L) ⟨[], .zero, o.absPrefix⟩ with
      | none => rw [hrj] at h; simp at h
      | some gp =>
        cases hs : site (htmlOpts o) (htmlJobs w L) with
        | none => rw [hrj, hs] at h; simp at h
        | some pages =>
          rw [hrj, hs] at h
          simp only [Res.ok.injEq] at h
          subst h
          have hjobs : htmlJobs w L = (orderedHtml o rs).map (jobOf o w) := by
            simp [htmlJobs, L, jobOf, List.map_map, Function.comp, present]
          have hj : jobOf o w r ∈ htmlJobs w L := by
            rw [hjobs]; exact List.mem_map_of_mem (hperm.symm.subset hmem)
          obtain ⟨p, hp⟩ := runJobs_some_pageOf (htmlOpts o) (htmlJobs w L) _ gp hrj (jobOf o w r) hj hrel src hsrc
          -- the shape of the page of `r`
          have hshape : ∃ dest parent fname fc, htmlDest r.rel = some dest ∧
              fileCtx (htmlOpts o) r.rel (Grcov.Cli.sortCov r.cov) src = some (parent, fname, fc) ∧
              p = (dest, filePage fc) := by
            unfold pageOf jobOf at hp
            simp only [toRes, present, hrel, Bool.not_true, Bool.false_eq_true, if_false, hsrc] at hp
            cases hf : fileCtx (htmlOpts o) r.rel (Grcov.Cli.sortCov r.cov) src with
            | none => rw [hf] at hp; simp at hp
            | some pfc =>
              obtain ⟨parent, fname, fc⟩ := pfc
              cases hd : htmlDest r.rel with
              | none => rw [hf, hd] at hp; simp at hp
              | some dest =>
                rw [hf, hd] at hp
                simp only [Option.some.injEq] at hp
                exact ⟨dest, parent, fname, fc, rfl, rfl, hp.symm⟩
          obtain ⟨dest, parent, fname, fc, hd, hf, rfl⟩ := hshape
          refine ⟨dest, parent, fname, fc, hd, hf, ?_⟩
          have hpg : get? pages dest = some (filePage fc) := by
            apply site_page_of_job (htmlOpts o) (htmlJobs w L) pages hs (jobOf o w r) hj dest (filePage fc) hp
            · intro j' hj' p' hp' hd'
              rw [hjobs] at hj'
              obtain ⟨r', hr', rfl⟩ := List.mem_map.1 hj'
              have hdest' : htmlDest r'.rel = some p'.1 := pageOf_dest (htmlOpts o) _ p' hp'
              have : r' = r := huniq r' (hperm.subset hr') (by rw [hdest', hd', hd])
              subst this
              rw [hp] at hp'
              simp only [Option.some.injEq] at hp'
              rw [← hp']
            · exact htmlDest_not_index r.rel dest hd hidx
          exact get?_append_some _ _ _ _ hpg

/-- the names of the files `output_html` writes besides pages and indexes: the five badges and
`coverage.json` (and, with `--html-resources bundled`, the style sheet: `bundledNames`, outside the model) -/
def htmlExtraNames : List (List Name) :=
  (MdBytes.BadgeStyle.all.map fun s => [badgesDir, badgeFile s]) ++ [[coverageJsonName]]

/-- **… and nothing else.** Every file of the html directory is the page of a reported file that
has one (relative rel path, openable source) at the destination of that file, or an `index.html`,
or one of the badges / `coverage.json`. Together with `C03_run_html_page_of_record`: exactly one page
per reported file. -/
theorem C03_run_html_nothing_else (o : Opts) (w : World) (ins : List Input) (files : List OutFile)
    (hh : o.hash.OK) (h : runHtml o w ins = .ok files) :
    ∃ rs, records o w ins = .ok rs ∧
      ∀ f ∈ files,
        (∃ r ∈ rs, UPath.isRelative r.rel = true ∧ (w.raw r.abs).isSome = true ∧ htmlDest r.rel = some f.1) ∨
        f.1.getLast? = some indexHtml ∨ f.1 ∈ htmlExtraNames := by
  unfold runHtml at h
  cases hc : ins.findSome? (crash o.branch) with
  | some s => rw [hc] at h; cases h
  | none =>
    rw [hc] at h
    cases hr : records o w ins with
    | panic s => rw [hr] at h; cases h
    | ok rs =>
      rw [hr] at h
      refine ⟨rs, rfl, ?_⟩
      simp only [reportHtml, renderHtml] at h
      have hperm : (orderedHtml o rs).Perm rs := by
        unfold orderedHtml
        split
        · exact (MainGlue.sortRecs_perm _).trans (hh.recsPerm rs)
        · exact hh.recsPerm rs
      cases hrj : runJobs (htmlOpts o) (htmlJobs w ((orderedHtml o rs).map (present o))) ⟨[], .zero, o.absPrefix⟩ with
      | none => rw [hrj] at h; simp at h
      | some gp =>
        cases hs : site (htmlOpts o) (htmlJobs w ((orderedHtml o rs).map (present o))) with
        | none => rw [hrj, hs] at h; simp at h
        | some pages =>
          rw [hrj, hs] at h
          simp only [Res.ok.injEq] at h
          subst h
          have hjobs : htmlJobs w ((orderedHtml o rs).map (present o)) = (orderedHtml o rs).map (jobOf o w) := by
            simp [htmlJobs, jobOf, List.map_map, Function.comp, present]
          intro f hf
          rcases List.mem_append.1 hf with hf | hf
          · rcases site_file_origin (htmlOpts o) _ pages hs f hf with ⟨j, hj, hp⟩ | hix
            · rw [hjobs] at hj
              obtain ⟨r, hr', rfl⟩ := List.mem_map.1 hj
              have hsh := pageOf_shown (htmlOpts o) _ f hp
              have hd := pageOf_dest (htmlOpts o) _ f hp
              exact Or.inl ⟨r, hperm.subset hr', hsh.1, hsh.2, hd⟩
            · exact Or.inr (Or.inl hix)
          · right; right
            simp only [htmlExtras, List.mem_append, List.mem_map, List.mem_singleton] at hf
            simp only [htmlExtraNames, List.mem_append, List.mem_map, List.mem_singleton]
            rcases hf with ⟨s, hs', rfl⟩ | rfl
            · exact Or.inl ⟨s, hs', rfl⟩
            · exact Or.inr rfl

/-- **From input bytes to the decoded page.** For a record as in `C03_run_html_page_of_record`: the
record is a file of the result map – an entry `agg`, the C01 aggregate of what the accepted inputs hold
for that file (`C02_run_entry_is_aggregate`), whose key resolves to the record's paths – and the file at
its destination, read by the strict page reader, has one row per line of the (lossily decoded)
source, numbered from 1; row `l` carries the aggregate's count of line `l`, exactly, and "not
instrumented" iff the aggregate has no count for `l` or the exclusion markers of the file remove `l`. -/
theorem C03_run_html_end_to_end (o : Opts) (w : World) (ins : List Input) (files : List OutFile)
    (hwf : InputsWF o ins) (hh : o.hash.OK) (h : runHtml o w ins = .ok files) :
    ∃ rs, records o w ins = .ok rs ∧
      ∀ r ∈ rs, UPath.isRelative r.rel = true → ∀ src, w.raw r.abs = some src →
        (∀ r' ∈ rs, htmlDest r'.rel = htmlDest r.rel → r' = r) →
        fileNameOf r.rel ≠ some indexName →
        ∃ k agg dest v, get? (resultMap o w ins) k = some agg ∧
          resolveKey o.cfg w.fs k = .ok (some (r.abs, r.rel)) ∧
          htmlDest r.rel = some dest ∧ (get? files dest).bind parseFilePage = some v ∧
          v.rows.length = (lossyLines src).length ∧
          ∀ i, v.rows[i]? = ((lossyLines src)[i]?).map fun t =>
            (⟨i + 1, if removesLine (filterList o w r.abs) (i + 1) then none else get? agg.lines (i + 1), t⟩ : RowView) := by
  obtain ⟨rs, hrec, hpage⟩ := C03_run_html_page_of_record o w ins files hh h
  refine ⟨rs, hrec, ?_⟩
  intro r hr hrel src hsrc huniq hidx
  obtain ⟨dest, parent, fname, fc, hd, hf, hg⟩ := hpage r hr hrel src hsrc huniq hidx
  obtain ⟨k, agg, hk, hres, hcov⟩ := C03_run_record_origin o w ins rs hrec r hr
  obtain ⟨v, hv, hlen, hrows⟩ := C03_htmlb_page_rows (htmlOpts o) r.rel (Grcov.Cli.sortCov r.cov) src parent fname fc hf
  have hread : (get? files dest).bind parseFilePage = some v := by
    rw [hg, Option.bind_some]; exact hv
  refine ⟨k, agg, dest, v, hk, hres, hd, hread, hlen, ?_⟩
  intro i
  rw [hrows i]
  have hcw : agg.WF := resultMap_wf o w ins hwf k agg hk
  have hnd := applyFilters_nodup (filterList o w r.abs) agg hcw.linesNodup hcw.branchesNodup
  have e : get? (Grcov.Cli.sortCov r.cov).lines (i + 1)
      = if removesLine (filterList o w r.abs) (i + 1) then none else get? agg.lines (i + 1) := by
    show get? (Grcov.Cli.sortByKey r.cov.lines) (i + 1) = _
    rw [hcov, get?_sortByKey' _ hnd.1, FileFilter.applyFilters_lines]
  rw [e]

/-! ### non-vacuity: a closed run with markers, html and markdown -/

namespace RunWit
/-- `/s/a.c` with the text `x\ny\nNOCOV\n` (line 3 carries the marker) below the source dir `/s` -/
def w : World :=
  { fs := { files := [[[115], [97, 46, 99]]], dirs := [[[115]]], cwd := [[115]] },
    text := fun p => if p = [47, 115, 47, 97, 46, 99] then some [120, 10, 121, 10, 78, 79, 67, 79, 86, 10] else none,
    raw := fun p => if p = [47, 115, 47, 97, 46, 99] then some [120, 10, 121, 10, 78, 79, 67, 79, 86, 10] else none }
def opts : Opts :=
  { cfg := { sourceDir := some [47, 115], prefixDir := some [47, 115] }, branch := true,
    excl := ⟨some [78, 79, 67, 79, 86], none, none, none, none, none⟩,
    isMatch := fun rx line => FileFilter.hasSub rx line, out := .markdown }
end RunWit

/-- the tracefile `l1` of Props/C02Run.lean (`a.c`: lines 1 and 3; `b.c`, not on disk) with
`--excl-line NOCOV`: the markdown report lists `a.c` with 1 / 1 (line 3 excluded) and `b.c`; the html
directory has the page `a.c.html` – whose row 3 says "not instrumented" although the input has
`DA:3,0` –, no page for `b.c` (no source), `index.html`, five badges and `coverage.json` -/
example :
    (match run RunWit.opts RunWit.w [.lcov Grcov.Props.C02.RunWit.l1] with
     | .ok B => ((parseMarkdown B).map fun d => d.rows.map fun x => (x.file, x.covered, x.total))
     | _ => none) = some [([97, 46, 99], 1, 1), ([98, 46, 99], 1, 1)] ∧
    (match runHtml RunWit.opts RunWit.w [.lcov Grcov.Props.C02.RunWit.l1] with
     | .ok files =>
       (files.map (·.1) == [[[97, 46, 99, 46, 104, 116, 109, 108]], [indexHtml]] ++ htmlExtraNames) &&
       (((get? files [[97, 46, 99, 46, 104, 116, 109, 108]]).bind parseFilePage).map fun v =>
          v.rows.map fun x => (x.no, x.count)) == some [(1, some 2), (2, none), (3, none)]
     | _ => false) = true := by
  decide +kernel

end Grcov.Props.C03
