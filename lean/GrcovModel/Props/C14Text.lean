/-
C14, part TextCost – the resource clause ("in time and memory bounded by a modest multiple of the
input size") for the TEXT readers: `parse_lcov`, `parse_gcov`, `parse_gcov_gz` (value tree),
`parse_jacoco_xml_report` (event stream).

Method. Each reader model gets a *cost view* (`Lcov/Cost.lean`, `Gcov/Cost.lean`, `Jacoco/Cost.lean`)
that names the one operation a step performs on the accumulator and counts what the RUST code does
there – `iter.next()` calls, map operations (not the list steps of the model's association lists),
bytes copied or hashed, `Vec<bool>` slots written, attribute comparisons of quick-xml's duplicate
check. `…_cost_models_agree` say that the cost views describe the unchanged models.
All theorems are for ALL byte strings / value trees / event lists.

What is true and proved at full strength
* lcov: one `iter.next()` per byte; at most one accumulator operation per input line, hence
  ≤ 3·lines map operations, ≤ 9·bytes hashed, ≤ 4·bytes copied (the pending-FNDA map costs one
  operation per FN and at most two per FNDA: linear in the number of functions); files + line +
  function + branch entries ≤ lines; all names together ≤ 3·bytes; counts < 2^64, keys < 2^32.
* gcov text: everything linear, including the branch vectors (one slot per `branch:` line); names
  ≤ 3·bytes (lossy decoding).
* gcov JSON: result (entries + slots + name bytes) ≤ 2 · size of the value tree.
* JaCoCo: one read per event, ≤ 2 attribute passes per element, entries ≤ 4·events.

What is false, with witness and `_partial`
* lcov branch vectors (finding C14-lcov-branch-number-alloc): a BRDA branch number is a vector
  length. `C14_lcov_branch_slots_exact` (slots = what `add_branch` wrote),
  `C14_lcov_branch_vector_length` (≤ largest branch number + 1),
  `C14_lcov_slots_modest_false` (41 bytes → 4 000 000 001 slots),
  `C14_lcov_slots_partial` (branch numbers ≤ B ⇒ slots ≤ (B+1)·lines), and the unconditional
  `C14_lcov_slots_u32_bound` (the u32 type caps it at 2^32 per line – not a modest multiple).
* JaCoCo branch vectors (finding C14-jacoco-branch-vector-alloc): `cb + mb` is a vector length.
  `C14_jacoco_slots_modest_false` (cb="3000000000"), `C14_jacoco_slots_partial`.
* (repaired) JaCoCo attribute look-ups: quick-xml's repeated-name check compared every attribute
  with all earlier ones of its element, quadratic in the attributes of ONE element (80 000
  attributes, 880 kB: 12.7 s); since /repo ae885a6 the reader iterates with `.with_checks(false)`
  and what is left is linear: `C14_jacoco_steps_linear` (attribute visits ≤ 2·attributes).
* JaCoCo names (NEW finding C14-jacoco-name-prefix-amplification): each name is bounded by twice
  the input (`C14_jacoco_each_name_bounded`), but the package name is repeated in every file name
  and the class name in every method name: `C14_jacoco_name_amplification_family`,
  `C14_jacoco_names_linear_false`, `C14_jacoco_names_linear_partial` (attribute values ≤ V bytes).
-/
import GrcovModel.Lemmas.TextCostLcov
import GrcovModel.Lemmas.TextCostGcov
import GrcovModel.Lemmas.TextCostJacoco
import GrcovModel.Lemmas.TextCostJacocoNames
namespace Grcov.Props.C14
open Grcov Grcov.Size

/-! ## lcov -/
section lcov
open Grcov.Lcov

/-- The cost view describes the unchanged byte machine: what `step` does to the accumulator is
exactly the one operation `evt` names – for every state and byte. -/
theorem C14_lcov_cost_models_agree (branch : Bool) (s : St) (b : Nat) :
    (step branch s b).acc = applyEv s.acc (evt s b) := step_acc branch s b

/-- **Steps.** `parse_lcov` calls `iter.next()` at most once per input byte (the `while let` head,
every `take_while`, the DA count loop together), and exactly once per byte when it returns `Ok`. -/
theorem C14_lcov_steps (branch : Bool) (bs : Bytes) :
    (cost branch bs).next ≤ bs.length ∧
    ∀ rs, parse branch bs = .ok rs → (cost branch bs).next = bs.length :=
  ⟨costFrom_next_le branch {} bs, fun _ h => cost_next_eq h⟩

/-- **Map operations are linear** (with `eols bs` = number of LF/CR bytes, the input has at most
`eols bs + 1` lines): at most 3 per line – in particular the pending-FNDA map is looked up once per
FN record and at most twice per FNDA record, never scanned –, the keys they hash are at most 9 bytes
per input byte, and `read_name` copies at most 4 bytes per input byte. -/
theorem C14_lcov_map_operations_linear (branch : Bool) (bs : Bytes) :
    (cost branch bs).mapOps ≤ 3 * (eols bs + 1) ∧ (cost branch bs).keyBytes ≤ 9 * bs.length ∧
    (cost branch bs).copied ≤ 4 * bs.length :=
  ⟨cost_mapOps_le branch bs, cost_keyBytes_le branch bs, cost_copied_le branch bs⟩

/-- **Size: records.** Files plus line entries plus function entries plus lines with a branch vector
of the result are at most the number of input lines. -/
theorem C14_lcov_result_entries (branch : Bool) (bs : Bytes) (rs : List (Bytes × Cov))
    (h : parse branch bs = .ok rs) : rs.length + resEntries rs ≤ eols bs + 1 := parse_entries h

/-- **Size: names.** All file and function names of the result together are at most three times
the input (`from_utf8_lossy` turns one bad byte into three). -/
theorem C14_lcov_name_bytes (branch : Bool) (bs : Bytes) (rs : List (Bytes × Cov))
    (h : parse branch bs = .ok rs) : resNameBytes rs ≤ 3 * bs.length := parse_nameBytes h

/-- **Size: numbers.** Every line count is < 2^64, every line number, branch line and function start
line is < 2^32. -/
theorem C14_lcov_numbers_fit (branch : Bool) (bs : Bytes) (rs : List (Bytes × Cov))
    (h : parse branch bs = .ok rs) :
    ∀ r ∈ rs, (∀ kv ∈ r.2.lines, kv.2 ≤ U64MAX ∧ kv.1 ≤ U32MAX) ∧ (∀ kv ∈ r.2.branches, kv.1 ≤ U32MAX) ∧
      (∀ kv ∈ r.2.functions, kv.2.start ≤ U32MAX) := by
  intro r hr
  have h1 := parse_all CountsFit (fun _ => True) (by intro kv hkv; cases hkv)
    (fun a ev _ hp => applyEv_countsFit a ev hp) (fun _ _ => trivial) h r hr
  have hk : KeysFit {} :=
    ⟨(by intro kv hkv; cases hkv), (by intro kv hkv; cases hkv), (by intro kv hkv; cases hkv)⟩
  have h2 := parse_all KeysFit Ev.WF hk (fun a ev hq hp => applyEv_keysFit a ev hq hp)
    (trace_wf branch {} bs trivial) h r hr
  exact ⟨fun kv hkv => ⟨h1 kv hkv, h2.1 kv hkv⟩, h2.2.1, h2.2.2⟩

/-- **Branch vectors: exact accounting.** The `Vec<bool>` slots of the result, plus those of a
section the input leaves open, are exactly the slots `add_branch` wrote (`grown`), and that is at
most (branch number + 1) summed over the `add_branch` calls. -/
theorem C14_lcov_branch_slots_exact (branch : Bool) (bs : Bytes) (rs : List (Bytes × Cov))
    (h : parse branch bs = .ok rs) :
    resSlots rs + covSlots (run branch {} bs).acc.cur = (cost branch bs).grown ∧
    (cost branch bs).grown ≤ ((branchCalls (trace branch {} bs)).map fun c => c.2 + 1).sum :=
  ⟨parse_slots h, costFrom_grown_le branch {} bs⟩

/-- **Branch vectors: length = largest branch number + 1** (the content of finding
C14-lcov-branch-number-alloc): if every committed branch number is ≤ M, every vector has ≤ M + 1
slots. -/
theorem C14_lcov_branch_vector_length (branch : Bool) (bs : Bytes) (rs : List (Bytes × Cov)) (M : Nat)
    (hM : ∀ c ∈ branchCalls (trace branch {} bs), c.2 ≤ M) (h : parse branch bs = .ok rs) :
    ∀ r ∈ rs, ∀ kv ∈ r.2.branches, kv.2.length ≤ M + 1 :=
  parse_all (VecsLe M) (Ev.noLe M) (by intro kv hkv; cases hkv)
    (fun a ev hq hp => applyEv_vecsLe M a ev hq hp) (noLe_of_calls M _ hM) h

/-- the full statement "the branch vectors are a modest multiple `c` of the input size" -/
def C14_lcov_slots_modest_stmt (c : Nat) : Prop :=
  ∀ (bs : Bytes) (rs : List (Bytes × Cov)), parse true bs = .ok rs → resSlots rs ≤ c * (bs.length + 1)

/-- the 41 bytes `SF:a⏎BRDA:1,0,4000000000,1⏎end_of_record⏎` -/
def lcovAllocWitness : Bytes :=
  [83, 70, 58, 97, 10, 66, 82, 68, 65, 58, 49, 44, 48, 44, 52, 48, 48, 48, 48, 48, 48, 48, 48, 48, 44, 49,
   10, 101, 110, 100, 95, 111, 102, 95, 114, 101, 99, 111, 114, 100, 10]

/-- …is false for every multiple up to 50 million: the witness is accepted and its result holds
4 000 000 001 slots (finding C14-lcov-branch-number-alloc; on the real code: a 4 GB allocation). -/
theorem C14_lcov_slots_modest_false (c : Nat) (hc : c ≤ 50000000) : ¬ C14_lcov_slots_modest_stmt c := by
  intro hs
  have h1 : (run true {} lcovAllocWitness).ctl = .dispatch := by decide +kernel
  have h2 : covSlots (run true {} lcovAllocWitness).acc.cur = 0 := by decide +kernel
  have h3 : (cost true lcovAllocWitness).grown = 4000000001 := by decide +kernel
  have hp : parse true lcovAllocWitness = .ok (run true {} lcovAllocWitness).acc.results := by
    unfold parse finish; rw [h1]
  have h4 := parse_slots hp
  have h5 := hs _ _ hp
  have h6 : lcovAllocWitness.length = 41 := rfl
  rw [h2, h3] at h4
  rw [h6] at h5
  omega

/-- **What is provable (partial).** Under exactly the guard the witness violates – every branch
number the reader commits is at most `B` – the branch vectors hold at most (B + 1) slots per input
line. For a fixed `B` that is linear; with `B` = input length it is the quadratic
`(n + 1)·(lines + 1)`, and that is what many `BRDA:i,0,<big>,1` lines reach. -/
theorem C14_lcov_slots_partial (branch : Bool) (bs : Bytes) (rs : List (Bytes × Cov)) (B : Nat)
    (hB : ∀ c ∈ branchCalls (trace branch {} bs), c.2 ≤ B) (h : parse branch bs = .ok rs) :
    resSlots rs ≤ (B + 1) * (eols bs + 1) := by
  have h1 := parse_slots h
  have h2 := cost_grown_le branch bs B hB
  omega

/-- **What is true without a guard**: a branch number is a `u32`, so at most 2^32 slots per input
line – a bound, but not a modest multiple. -/
theorem C14_lcov_slots_u32_bound (branch : Bool) (bs : Bytes) (rs : List (Bytes × Cov))
    (h : parse branch bs = .ok rs) : resSlots rs ≤ (U32MAX + 1) * (eols bs + 1) :=
  C14_lcov_slots_partial branch bs rs U32MAX (branchCalls_u32 branch bs) h

end lcov

/-! ## gcov, text form -/
section gcovtext
open Grcov.Gcov Grcov.Gcov.Text

/-- The cost view describes the unchanged reader: the body of the loop on a stripped line is
"classify the line, perform that operation" – for every accumulator and line. -/
theorem C14_gcovtext_cost_models_agree (a : Acc) (l : Bytes) :
    procStripped a l = applyEv a (classify l) := procStripped_eq a l

/-- **Steps.** Every byte is handed over by `read_until` at most once (exactly once when the
reader returns `Ok`); the loop runs at most once per line (`lfs bs` = number of LF bytes); per line
at most one map operation and one `Vec<bool>` push; names are copied out of the lossily decoded
line (since /repo 7f9b2b3), at most three bytes per byte read. -/
theorem C14_gcovtext_steps (bs : Bytes) :
    (cost bs).reads ≤ bs.length ∧ (cost bs).lines ≤ lfs bs + 1 ∧ (cost bs).mapOps ≤ (cost bs).lines ∧
    (cost bs).pushed ≤ (cost bs).lines ∧ (cost bs).copied ≤ 3 * (cost bs).reads ∧
    ∀ rs, Text.parse bs = .ok rs → (cost bs).reads = bs.length := by
  have h := costLines_bounds (.run {}) (splitLines bs)
  have h1 := sumLens_splitLines bs
  have h2 := splitLines_length_le bs
  refine ⟨by unfold cost; omega, by unfold cost; omega, h.1, h.2.1, h.2.2.1, ?_⟩
  intro rs hp
  obtain ⟨a', hr, _⟩ := parse_ok hp
  have := (costLines_full {} a' _ hr).2
  unfold cost; omega

/-- **Size: everything is linear, branch vectors included** (full strength, no guard): files + map
entries ≤ lines, `Vec<bool>` slots ≤ lines (one per `branch:` record), name bytes ≤ 3 · input bytes
(`from_utf8_lossy` turns one bad byte into three). -/
theorem C14_gcovtext_result_linear (bs : Bytes) (rs : List (Bytes × Cov)) (h : Text.parse bs = .ok rs) :
    rs.length + resEntries rs ≤ lfs bs + 1 ∧ resSlots rs ≤ lfs bs + 1 ∧ resNameBytes rs ≤ 3 * bs.length := by
  obtain ⟨a', hr, h1, h2, h3⟩ := parse_ok h
  have h4 := runLines_run {} a' _ hr
  have h5 := costLines_bounds (.run {}) (splitLines bs)
  have h6 := sumLens_splitLines bs
  have h7 := splitLines_length_le bs
  have e1 : accPhi ({} : Acc) = 0 := rfl
  have e2 : accSlots ({} : Acc) = 0 := rfl
  have e3 : accNameBytes ({} : Acc) = 0 := rfl
  refine ⟨by omega, by omega, by omega⟩

/-- **Size: numbers.** Every line count of the result is < 2^64 (re-export of the C09 lemma). -/
theorem C14_gcovtext_counts_fit (bs : Bytes) (rs : List (Bytes × Cov)) (h : Text.parse bs = .ok rs) :
    ∀ r ∈ rs, ∀ kv ∈ r.2.lines, kv.2 ≤ U64MAX := parse_fits bs rs h

end gcovtext

/-! ## gcov, JSON form -/
section gcovjson
open Grcov.Gcov Grcov.Gcov.Json

/-- **Size** (full strength): files + map entries + `Vec<bool>` slots + name bytes of the result are
at most twice the size of the value tree (`size` = nodes + bytes of strings and keys ≤ 2 · length of
the JSON text), whatever the tree looks like. -/
theorem C14_gcovjson_result_linear (j : Gcov.Json) (rs : List (Bytes × Cov)) (h : toResults j = .ok rs) :
    rs.length + resEntries rs + resSlots rs + resNameBytes rs ≤ 2 * size j := toResults_size j rs h

/-- **Steps of the loop after the decoding**: at most 2 · size map insertions (the decoding itself
is serde_json's single pass over the text). -/
theorem C14_gcovjson_conversion_linear (j : Gcov.Json) (fs : List FileJ) (h : decDoc j = some fs) :
    convOps fs ≤ 2 * size j := convOps_le j fs h

/-- **Size: numbers.** Line numbers and start lines < 2^32, counts < 2^64 (also for counters
written as floats). -/
theorem C14_gcovjson_numbers_fit (j : Gcov.Json) (rs : List (Bytes × Cov)) (h : toResults j = .ok rs) :
    ∀ r ∈ rs, (∀ kv ∈ r.2.lines, kv.1 ≤ U32MAX ∧ kv.2 ≤ U64MAX) ∧ (∀ kv ∈ r.2.branches, kv.1 ≤ U32MAX) ∧
      (∀ kv ∈ r.2.functions, kv.2.start ≤ U32MAX) := toResults_fits j rs h

end gcovjson

/-! ## JaCoCo -/
section jacoco
open Grcov.Jacoco

/-- The instrumented reader computes the original outcome – for every machine limit, event list and
fuel. -/
theorem C14_jacoco_cost_models_agree (cap : Nat) (evs : List XmlEvent) (fuel : Nat) :
    (parseCapC cap evs fuel).1 = parseCap cap evs fuel := parseCapC_fst cap evs fuel

/-- **The budget.** Whatever the events are and however the run ends: at most one
`read_event_into` per event of the expanded stream plus the final one, at most two attribute passes
per element, at most two map operations per event, and `cb + mb` slots per `<line>`. -/
theorem C14_jacoco_cost_budget (cap : Nat) (evs : List XmlEvent) (fuel : Nat) :
    Cost.le (parseCapC cap evs fuel).2 ((sumMax (expand evs)).add tick) := parseCapC_budget cap evs fuel

/-- **Steps that are linear**: reads ≤ 2·events + 1, attributes visited ≤ 2·attributes, map
operations ≤ 4·events. -/
theorem C14_jacoco_steps_linear (cap : Nat) (evs : List XmlEvent) (fuel : Nat) :
    (parseCapC cap evs fuel).2.reads ≤ 2 * evs.length + 1 ∧
    (parseCapC cap evs fuel).2.attrs ≤ 2 * attrCount evs ∧
    (parseCapC cap evs fuel).2.mapOps ≤ 4 * evs.length := by
  have h := parseCapC_budget cap evs fuel
  have h1 := sumMax_fields (expand evs)
  have h2 := expand_sizes evs
  simp only [Cost.le, Cost.add, tick] at h
  omega

/-- **Size: records** (full strength): files + line + function + branch-line entries of the result
are at most 4 per event; every entry was paid for by a map operation, every `Vec<bool>` slot by the
allocation it came from. -/
theorem C14_jacoco_result_entries (cap : Nat) (evs : List XmlEvent) (fuel : Nat) (rs : List (Name × Cov))
    (h : parseCap cap evs fuel = .ok rs) :
    rs.length + resEntries rs ≤ 4 * evs.length ∧ resSlots rs ≤ (parseCapC cap evs fuel).2.alloc := by
  have h1 := parseCap_size h
  have h2 := C14_jacoco_steps_linear cap evs fuel
  omega

/-- the full statement "the branch vectors are a modest multiple `c` of the input size" -/
def C14_jacoco_slots_modest_stmt (c : Nat) : Prop :=
  ∀ (cap : Nat) (evs : List XmlEvent) (fuel : Nat) (rs : List (Name × Cov)),
    parseCap cap evs fuel = .ok rs → resSlots rs ≤ c * (evsBytes evs + 1)

/-- …is false for every multiple up to ten million: a `<line … cb="3000000000"/>` in a report of 5
events is accepted on a machine that can allocate it and yields 3 000 000 000 slots (finding
C14-jacoco-branch-vector-alloc; on a machine that cannot, the process aborts: `C10_oversized_…`). -/
theorem C14_jacoco_slots_modest_false (c : Nat) (hc : c ≤ 10000000) : ¬ C14_jacoco_slots_modest_stmt c := by
  intro hs
  have hp : parseUnsigned U64MAX [51, 48, 48, 48, 48, 48, 48, 48, 48, 48] = some 3000000000 := by decide
  obtain ⟨rs, hr, hsl⟩ := oneLineReport_slots allocMax [51, 48, 48, 48, 48, 48, 48, 48, 48, 48] 3000000000 hp
    (by omega) (by decide)
  have h1 := hs _ _ _ _ hr
  rw [oneLineReport_bytes, hsl] at h1
  simp only [List.length_cons, List.length_nil] at h1
  omega

/-- **What is provable (partial).** Under exactly the guard the witness violates – every `<line>`
asks for at most `B` slots (`lineAlloc` = its cb + mb) – the branch vectors hold at most `B` slots
per event of the expanded stream. -/
theorem C14_jacoco_slots_partial (cap B : Nat) (evs : List XmlEvent) (fuel : Nat) (rs : List (Name × Cov))
    (hB : ∀ e ∈ expand evs, lineAlloc e ≤ B) (h : parseCap cap evs fuel = .ok rs) :
    resSlots rs ≤ B * (2 * evs.length) := by
  have h1 := (parseCap_size h).2
  have h2 := parseCapC_budget cap evs fuel
  have h3 := sumMax_alloc_le B (expand evs) hB
  have h4 := (expand_sizes evs).1
  simp only [Cost.le, Cost.add, tick] at h2
  have : B * (expand evs).length ≤ B * (2 * evs.length) := Nat.mul_le_mul_left _ h4
  omega

/-- **Size: each name.** Every file name and every function name of the result is made of at most
two attribute values (`package/file`, `Class#method`, `Top.java`), so it is no longer than twice the
input plus 6 bytes. -/
theorem C14_jacoco_each_name_bounded (cap : Nat) (evs : List XmlEvent) (fuel : Nat) (rs : List (Name × Cov))
    (h : parseCap cap evs fuel = .ok rs) :
    ∀ r ∈ rs, r.1.length ≤ 2 * evsBytes evs + 6 ∧ ∀ f ∈ r.2.functions, f.1.length ≤ 2 * evsBytes evs + 1 :=
  parseCap_names (allLe_evsBytes evs) h

/-- **The names together are quadratic – the family** (NEW finding
C14-jacoco-name-prefix-amplification). The package name is copied into the name of every file of
the package (`format!("{}/{}", package, class)`), the class name into every method name. For every
`L`, `w`: the report with one package name of `L + 1` bytes and the 2^w empty source files named
by `abKeys w` is accepted; it is `L + 2^w·(w + 30) + 25` bytes long and its result holds
`2^w·(L + w + 2)` bytes of names. Measured on the real code: 328 kB of report → 600 MB of names. -/
theorem C14_jacoco_name_amplification_family (cap L w : Nat) :
    ∃ rs, parseCap cap (prefixReport L w) (enoughFuel (prefixReport L w)) = .ok rs ∧
      resNameBytes rs = 2 ^ w * (L + w + 2) ∧ evsBytes (prefixReport L w) = L + 2 ^ w * (w + 30) + 25 :=
  ⟨_, prefixReport_result cap L w, (prefixReport_sizes L w).2, (prefixReport_sizes L w).1⟩

/-- the full statement "the names of the result are linear in the bytes of the input" -/
def C14_jacoco_names_linear_stmt : Prop :=
  ∃ c, ∀ (cap : Nat) (evs : List XmlEvent) (fuel : Nat) (rs : List (Name × Cov)),
    parseCap cap evs fuel = .ok rs → resNameBytes rs ≤ c * (evsBytes evs + 1)

/-- …is false: with 2^w files under a package name as long as the rest of the report, the names
are 2^w/2 times the input. -/
theorem C14_jacoco_names_linear_false : ¬ C14_jacoco_names_linear_stmt := by
  rintro ⟨c, h⟩
  let w := c + 5
  let L := 2 ^ w * (w + 30)
  obtain ⟨rs, hr, hn, hb⟩ := C14_jacoco_name_amplification_family 0 L w
  have h1 := h _ _ _ _ hr
  rw [hn, hb] at h1
  have hw : 28 * c + 1 ≤ 2 ^ w := by
    have : c < 2 ^ c := Nat.lt_two_pow_self
    have e : 2 ^ w = 32 * 2 ^ c := by simp only [w, Nat.pow_add]; ring
    omega
  have hL : 1 ≤ L := Nat.mul_pos (Nat.two_pow_pos w) (by omega)
  -- names ≥ 2^w·L > 28c·L ≥ c·(2L + 26)
  have h2 : c * (L + 2 ^ w * (w + 30) + 25 + 1) ≤ (28 * c) * L := by
    have e : L + 2 ^ w * (w + 30) + 25 + 1 = 2 * L + 26 := by simp only [L]; ring
    rw [e]
    have : 2 * L + 26 ≤ 28 * L := by omega
    calc c * (2 * L + 26) ≤ c * (28 * L) := Nat.mul_le_mul_left _ this
      _ = (28 * c) * L := by ring
  have h3 : (28 * c + 1) * L ≤ 2 ^ w * (L + w + 2) := by
    calc (28 * c + 1) * L ≤ 2 ^ w * L := Nat.mul_le_mul_right _ hw
      _ ≤ 2 ^ w * (L + w + 2) := Nat.mul_le_mul_left _ (by omega)
  have e4 : (28 * c + 1) * L = (28 * c) * L + L := by ring
  omega

/-- **What is provable (partial).** Under exactly the guard the family violates – no attribute
value is longer than `V` – the names are at most `2V + 6` bytes per entry of the result, hence at
most `4·(2V + 6)` per event: linear for bounded `V`. -/
theorem C14_jacoco_names_linear_partial (cap V : Nat) (evs : List XmlEvent) (fuel : Nat)
    (rs : List (Name × Cov)) (hV : ∀ e ∈ evs, ∀ kv ∈ evAttrs e, kv.2.length ≤ V)
    (h : parseCap cap evs fuel = .ok rs) : resNameBytes rs ≤ (2 * V + 6) * (4 * evs.length) := by
  have h1 := names_le_entries V rs (parseCap_names hV h)
  have h2 := (C14_jacoco_result_entries cap evs fuel rs h).1
  exact Nat.le_trans h1 (Nat.mul_le_mul_left _ h2)

end jacoco

/-! ## non-vacuity: closed inputs that meet the hypotheses -/

open Grcov.Lcov in
/-- `SF:a⏎FNDA:1,f⏎FN:2,f⏎DA:3,4⏎BRDA:3,0,1,1⏎end_of_record⏎`: 6 lines; 1 file + 3 entries; the cost
view counts 56 `next` calls, 7 map operations, 3 slots -/
example :
    let bs : Lcov.Bytes := [83, 70, 58, 97, 10, 70, 78, 68, 65, 58, 49, 44, 102, 10, 70, 78, 58, 50, 44, 102,
      10, 68, 65, 58, 51, 44, 52, 10, 66, 82, 68, 65, 58, 51, 44, 48, 44, 49, 44, 49, 10, 101, 110, 100, 95,
      111, 102, 95, 114, 101, 99, 111, 114, 100, 10]
    (match Lcov.parse true bs with
      | .ok rs => some (rs.length + resEntries rs, resSlots rs)
      | _ => none) = some (4, 2) ∧
    eols bs = 6 ∧ (Lcov.cost true bs).next = 55 ∧ (Lcov.cost true bs).mapOps = 8 ∧
    (Lcov.cost true bs).grown = 2 ∧ branchCalls (trace true {} bs) = [(3, 1)] := by
  decide +kernel

open Grcov.Gcov.Text in
/-- `file:a⏎function:1,1,f⏎lcount:2,5⏎branch:2,taken⏎` -/
example :
    let bs : Gcov.Bytes := [102, 105, 108, 101, 58, 97, 10, 102, 117, 110, 99, 116, 105, 111, 110, 58, 49, 44,
      49, 44, 102, 10, 108, 99, 111, 117, 110, 116, 58, 50, 44, 53, 10, 98, 114, 97, 110, 99, 104, 58, 50,
      44, 116, 97, 107, 101, 110, 10]
    (match Gcov.Text.parse bs with
      | .ok rs => some (rs.length + resEntries rs, resSlots rs)
      | _ => none) = some (4, 1) ∧
    lfs bs = 4 ∧ (cost bs).reads = 48 ∧ (cost bs).mapOps = 3 ∧ (cost bs).pushed = 1 := by
  decide +kernel

open Grcov.Gcov Grcov.Gcov.Json in
/-- a document in the positional form the derived `Deserialize` also accepts: one file `a` with one
line (count 2) that has one branch: tree size 20, result 1 file + 2 entries + 1 slot + 1 name byte -/
example :
    let br : Gcov.Json := .arr [.num (.pos 1), .bool false, .bool false]
    let line : Gcov.Json := .arr [.num (.pos 1), .null, .num (.pos 2), .bool false, .arr [br]]
    let file : Gcov.Json := .arr [.str [97], .arr [], .arr [line]]
    let doc : Gcov.Json := .arr [.str [49], .str [], .null, .str [], .arr [file]]
    (match toResults doc with
      | .ok rs => some (rs.length + resEntries rs + resSlots rs + resNameBytes rs)
      | _ => none) = some 5 ∧ size doc = 22 := by
  decide +kernel

open Grcov.Jacoco in
/-- the one-line report with cb = 300: five events, the result holds exactly the 300 slots the
reader allocated; the attribute family member w = 3: 9 attributes, 9 attribute visits;
the name family member L = 9, w = 2 -/
example :
    (match parseCap allocMax (oneLineReport [51, 48, 48]) 11 with
      | .ok rs => some (resSlots rs, rs.length + resEntries rs)
      | _ => none) = some (300, 2) ∧
    (cost allocMax (oneLineReport [51, 48, 48])).alloc = 300 ∧
    (cost allocMax (oneLineReport [51, 48, 48])).reads = 7 ∧
    (cost 0 (manyAttrsReport 3)).attrs = 9 ∧ evsBytes (manyAttrsReport 3) = 81 ∧
    (match parseCap 0 (prefixReport 9 2) 21 with
      | .ok rs => some (rs.length, resNameBytes rs)
      | _ => none) = some (4, 52) ∧ evsBytes (prefixReport 9 2) = 162 := by
  decide +kernel

end Grcov.Props.C14
