/-
C05, part `Run` — the fixed point for ONE WHOLE RUN of the composed model `Cli.RunAll.run`
(GrcovModel/Cli/RunAll.lean): the first run may read ANY mix of inputs (lcov tracefiles, JaCoCo XML
reports, LLVM-mode gcno/gcda items) and may be given EXCLUSION MARKERS (`--excl-*`), `--filter`,
`--ignore`, `--keep-only`, `--ignore-not-existing`, `--sort-output-types lcov`; its lcov report is
fed to a second run with the same options. Until now (Props/C05Cli.lean) the theorem was about
lcov inputs without markers; chains with markers and JaCoCo inputs were judged by the oracle of the
harness only.

What makes it work: the second run resolves every reported path to the SAME source file (the
rewrite guards of Props/C05Cli.lean / C05Rewrite.lean), so it applies the SAME filter list to a
record from which the first run already removed exactly those lines and branches
(`RunAux.applyFilters_norm_idem`: the second application removes nothing), and `--filter` sees the
same covered / uncovered record.

`C05_run_fixed_point_markers_partial` (guards: those of `C05_cli_fixed_point_partial` – clean absolute
source dir, no path mapping, prefix dir absent or equal to it, every reported file an existing file
below the source dir reported relative to it, no file reported twice, the report writable – plus,
for runs WITHOUT `--branch`, "no branch data in the report", which JaCoCo inputs violate: known
finding C06-jacoco-branches-without-branch-flag): the second run writes the report of the first up to
the order of the file records, which is the iteration order of ITS result map (`h₂`, a parameter of
the second run); byte for byte when the type is sorted (and the displayed paths are distinct) or
when the second map iterates in insertion order.
-/
import GrcovModel.Props.C05Cli
import GrcovModel.Lemmas.CliRunAllScale
namespace Grcov.Props.C05
open Grcov AList Grcov.Lcov Grcov.Rewrite Grcov.Cli Grcov.Glob
open Grcov.UPath (isAbsolute RealName join)
open Grcov.FileFilter (FT applyFilters applyOne removesLine removesBranch removesLine_cons removesBranch_cons
  applyFilters_cons applyFilters_lines applyFilters_branches)
open Grcov.Cli.RunAll (World Input HashOrder records ordered ordered_perm ordered_map sortedFor filterList exclude
  rewritePathsF_eq rewritePathsF_eq_ok eq_of_nodup_map)

namespace RunAux

theorem erase_of_not_mem {α : Type} (m : List (Nat × α)) (x : Nat) (h : x ∉ keys m) : erase m x = m := by
  induction m with
  | nil => rfl
  | cons kv m ih =>
    obtain ⟨k, v⟩ := kv
    simp only [keys, List.map_cons, List.mem_cons, not_or] at h
    have hk : ¬ k = x := fun e => h.1 e.symm
    simp only [erase, hk, if_false]
    rw [ih (by simpa [keys] using h.2)]

/-- a filter list none of whose numbers is a key of the record removes nothing -/
theorem applyFilters_absent (fl : List FT) (c : Cov)
    (hl : ∀ n, removesLine fl n → n ∉ keys c.lines)
    (hb : ∀ n, removesBranch fl n → n ∉ keys c.branches) : applyFilters fl c = c := by
  induction fl generalizing c with
  | nil => rfl
  | cons f fl ih =>
    rw [applyFilters_cons]
    have hone : applyOne c f = c := by
      cases f with
      | line n =>
        have := hl n ((removesLine_cons _ _ _).2 (Or.inl (Or.inl rfl)))
        simp [applyOne, erase_of_not_mem _ _ this]
      | branch n =>
        have := hb n ((removesBranch_cons _ _ _).2 (Or.inl (Or.inl rfl)))
        simp [applyOne, erase_of_not_mem _ _ this]
      | both n =>
        have h1 := hl n ((removesLine_cons _ _ _).2 (Or.inl (Or.inr rfl)))
        have h2 := hb n ((removesBranch_cons _ _ _).2 (Or.inl (Or.inr rfl)))
        simp [applyOne, erase_of_not_mem _ _ h1, erase_of_not_mem _ _ h2]
    rw [hone]
    exact ih c (fun n h => hl n ((removesLine_cons _ _ _).2 (Or.inr h)))
      (fun n h => hb n ((removesBranch_cons _ _ _).2 (Or.inr h)))

theorem keys_norm_lines (c : Cov) (n : Nat) (h : n ∈ keys (norm c).lines) : n ∈ keys c.lines := by
  have p : (sortByKey c.lines).Perm c.lines := sortByKey_perm c.lines
  exact (p.map (·.1)).subset h

theorem keys_norm_branches (c : Cov) (n : Nat) (h : n ∈ keys (norm c).branches) : n ∈ keys c.branches := by
  have h1 : n ∈ keys (sortByKey c.branches) := keys_nonEmptyVecs_subset _ n h
  exact ((sortByKey_perm c.branches).map (·.1)).subset h1

/-- **The second application of a file's filter list removes nothing**: on the record as the reader
rebuilds it from the report (`norm`), the filter list that was applied before printing is the
identity. -/
theorem applyFilters_norm_idem (fl : List FT) (c : Cov) :
    applyFilters fl (norm (applyFilters fl c)) = norm (applyFilters fl c) := by
  apply applyFilters_absent
  · intro n hn hk
    have := keys_norm_lines _ n hk
    have hg := applyFilters_lines fl c n
    rw [if_pos hn] at hg
    exact (get?_eq_none_iff _ _).1 hg this
  · intro n hn hk
    have := keys_norm_branches _ n hk
    have hg := applyFilters_branches fl c n
    rw [if_pos hn] at hg
    exact (get?_eq_none_iff _ _).1 hg this

/-- sorting two permutations of a list with distinct sort keys gives the same list -/
theorem sortRecs_eq_of_perm (A B : List Rec) (p : A.Perm B) (hd : (A.map MainGlue.sortKey).Nodup) :
    MainGlue.sortRecs A = MainGlue.sortRecs B := by
  have pp : (MainGlue.sortRecs A).Perm (MainGlue.sortRecs B) :=
    ((MainGlue.sortRecs_perm A).trans p).trans (MainGlue.sortRecs_perm B).symm
  have hnd : ((MainGlue.sortRecs A).map MainGlue.sortKey).Nodup :=
    (((MainGlue.sortRecs_perm A).map MainGlue.sortKey).nodup_iff).2 hd
  refine List.Perm.eq_of_pairwise ?_ (MainGlue.sortRecs_pairwise A) (MainGlue.sortRecs_pairwise B) pp
  intro a b ha hb hab hba
  exact eq_of_nodup_map MainGlue.sortKey hnd ha (pp.symm.subset hb) (MainGlue.bytesLe_antisymm _ _ hab hba)

/-- the lcov report of a record list is `Cli.printReport` of the list as ordered -/
theorem report_lcov (o : RunAll.Opts) (ho : o.out = .lcov) (rs : List Rec) :
    RunAll.report o rs = .ok (printReport (ordered o rs)) := by
  simp only [RunAll.report, RunAll.render, ho, printReport, printable, List.map_map]
  rfl

/-- the result map of a run on ONE tracefile is the one of `Cli.resultMap` -/
theorem resultMap_single_lcov (o : RunAll.Opts) (w : World) (B : Lcov.Bytes) :
    RunAll.resultMap o w [.lcov B] = Cli.resultMap o.cfg o.branch w.fs [B] := rfl

/-- **The records of the second run.** A report whose every path, as the key `add_results` makes of
it, resolves to the file it was reported from, re-selected by the same options, and whose records
already went through the filter list of that file: the second run's `rewrite_paths` returns the same
records (as the reader rebuilds them), in the same order. -/
theorem second_records (o : RunAll.Opts) (w : World) (rep : List Rec)
    (habs : ∀ s, o.cfg.sourceDir = some s → isAbsolute s = true) (hw : ReportOK (printable rep))
    (hb : o.branch = false → ∀ r ∈ rep, r.cov.branches = [])
    (hd : ((rep.map (·.rel)).map (addCanon w.fs o.cfg.sourceDir)).Nodup)
    (hres : ∀ r ∈ rep, resolveKey o.cfg w.fs (addCanon w.fs o.cfg.sourceDir r.rel) = .ok (some (r.abs, r.rel)))
    (hsel : ∀ r ∈ rep, setMatch o.cfg.ignore r.rel = false ∧ (o.cfg.keep = [] ∨ setMatch o.cfg.keep r.rel = true) ∧
      (o.cfg.ignoreNotExisting = true → w.fs.exists r.abs = true) ∧ filterOk o.cfg.filter r.cov = true)
    (hfl : ∀ r ∈ rep, applyFilters (filterList o w r.abs) (norm r.cov) = norm r.cov) :
    records o w [.lcov (printReport rep)] = .ok (rep.map fun r => ⟨r.abs, r.rel, norm r.cov⟩) := by
  unfold records
  rw [resultMap_single_lcov, CliAux.resultMap_printReport o.cfg o.branch w.fs rep hw hb hd, rewritePathsF_eq,
    List.map_map]
  apply rewritePaths_map_ok o.cfg w.fs rep _ _ habs
  intro r hr
  obtain ⟨h1, h2, h3, h4⟩ := hsel r hr
  have he : exclude o.cfg w.fs (filterList o w) (addCanon w.fs o.cfg.sourceDir r.rel, norm r.cov)
      = (addCanon w.fs o.cfg.sourceDir r.rel, norm r.cov) := by
    simp only [exclude, hres r hr, hfl r hr]
  simp only [Function.comp, he]
  rw [rewriteKey_some_iff]
  refine ⟨r.abs, r.rel, hres r hr, ?_⟩
  rw [selectRec_some_iff]
  exact ⟨h1, h2, h3, by rw [filterOk_norm]; exact h4, rfl⟩

/-- what every record of the first run's `rewrite_paths` satisfies -/
theorem first_records (o : RunAll.Opts) (w : World) (ins : List Input) (rs : List Rec)
    (h : records o w ins = .ok rs) (r : Rec) (hr : r ∈ rs) :
    (setMatch o.cfg.ignore r.rel = false ∧ (o.cfg.keep = [] ∨ setMatch o.cfg.keep r.rel = true) ∧
      (o.cfg.ignoreNotExisting = true → w.fs.exists r.abs = true) ∧ filterOk o.cfg.filter r.cov = true) ∧
    ∃ c, r.cov = applyFilters (filterList o w r.abs) c := by
  obtain ⟨_, _, e⟩ := (rewritePathsF_eq_ok _ _ _ _ _).1 h
  subst e
  simp only [List.mem_filterMap] at hr
  obtain ⟨kc, _, hk⟩ := hr
  unfold RunAll.keyRecF RunAll.rewriteKeyF at hk
  cases hres : resolveKey o.cfg w.fs kc.1 with
  | panic s => rw [hres] at hk; simp [okPart] at hk
  | ok x =>
    cases x with
    | none => rw [hres] at hk; simp [okPart] at hk
    | some ar =>
      obtain ⟨a, rl⟩ := ar
      rw [hres] at hk
      have hsel : selectRec o.cfg w.fs a rl (applyFilters (filterList o w a) kc.2) = some r := by
        simpa [okPart, RunAll.selectRecF_eq] using hk
      obtain ⟨h1, h2, h3, h4, e⟩ := (selectRec_some_iff _ _ _ _ _ _).1 hsel
      subst e
      exact ⟨⟨h1, h2, h3, h4⟩, kc.2, rfl⟩

end RunAux

/-- **The second run, abstractly.** The first run reads any inputs (tracefiles, JaCoCo reports,
gcno/gcda items) with any `--excl-*` markers, `--filter`, `--ignore`, `--keep-only`,
`--ignore-not-existing`, sorted or not, and writes an lcov report. If that report is writable, no two
reported paths are filed under the same key by the next run, and every reported path – as the key
`add_results` makes of it – is resolved by `rewrite_paths` to the SAME source file and the same
reported path (the two hypotheses the rewrite guards of C05Cli / C05Rewrite establish), then: there are
`L₁` (a rearrangement of the records `rs`: the order of the first map) and `L₂` (a rearrangement of
`L₁`: the order `h₂` of the second map, any key-determined order) such that the first run writes
`printReport L₁` and the run with the same options on THAT report writes `printReport L₂` – the same
file records, each with the same bytes (the same lines and branches excluded, nothing more; the same
verdict of `--filter`) – and `L₂ = L₁`, i.e. THE SAME BYTES, when the type is sorted and the displayed
paths are pairwise distinct, or when the second map iterates in insertion order. -/
theorem C05_run_second_run_markers (o : RunAll.Opts) (h₂ : HashOrder) (w : World)
    (ins : List Input) (rs : List Rec)
    (ho : o.out = .lcov) (hh : o.hash.OK) (hh₂ : h₂.OK) (hk₂ : h₂.KeysOnly)
    (hc : ins.findSome? (RunAll.crash o.branch) = none) (hrec : records o w ins = .ok rs)
    (hw : ReportOK (printable rs))
    (hb : o.branch = false → ∀ r ∈ rs, r.cov.branches = [])
    (hd : ((rs.map (·.rel)).map (addCanon w.fs o.cfg.sourceDir)).Nodup)
    (hres : ∀ r ∈ rs, resolveKey o.cfg w.fs (addCanon w.fs o.cfg.sourceDir r.rel) = .ok (some (r.abs, r.rel))) :
    ∃ L₁ L₂ : List Rec, L₁.Perm rs ∧ L₂.Perm L₁ ∧
      RunAll.run o w ins = .ok (printReport L₁) ∧
      RunAll.run { o with hash := h₂ } w [.lcov (printReport L₁)] = .ok (printReport L₂) ∧
      (sortedFor o = true → (rs.map MainGlue.sortKey).Nodup → L₂ = L₁) ∧
      (sortedFor o = false → h₂.recs = id → L₂ = L₁) := by
  let o₂ : RunAll.Opts := { o with hash := h₂ }
  let L₁ := ordered o rs
  let L₂ := ordered o₂ L₁
  have p₁ : L₁.Perm rs := ordered_perm o hh rs
  have p₂ : L₂.Perm L₁ := ordered_perm o₂ hh₂ L₁
  have habs : ∀ s, o.cfg.sourceDir = some s → isAbsolute s = true :=
    ((rewritePathsF_eq_ok _ _ _ _ _).1 hrec).1
  have hmem : ∀ r ∈ L₁, r ∈ rs := fun r hr => p₁.subset hr
  have hw₁ : ReportOK (printable L₁) := by
    intro pc hpc
    simp only [printable, List.mem_map] at hpc
    obtain ⟨r, hr, rfl⟩ := hpc
    exact hw _ (List.mem_map_of_mem (f := fun r => (r.rel, sortCov r.cov)) (hmem r hr))
  -- the first run
  have hrun₁ : RunAll.run o w ins = .ok (printReport L₁) := by
    unfold RunAll.run
    rw [hc, hrec]
    exact RunAux.report_lcov o ho rs
  -- the records of the second run
  have hrec₂ : records o₂ w [.lcov (printReport L₁)] = .ok (L₁.map fun r => ⟨r.abs, r.rel, norm r.cov⟩) := by
    have : records o₂ w [.lcov (printReport L₁)] = records o w [.lcov (printReport L₁)] := rfl
    rw [this]
    apply RunAux.second_records o w L₁ habs hw₁ (fun hbr r hr => hb hbr r (hmem r hr))
    · exact (((p₁.map (·.rel)).map (addCanon w.fs o.cfg.sourceDir)).nodup_iff).2 hd
    · intro r hr
      exact hres r (hmem r hr)
    · intro r hr
      exact (RunAux.first_records o w ins rs hrec r (hmem r hr)).1
    · intro r hr
      obtain ⟨_, c, e⟩ := RunAux.first_records o w ins rs hrec r (hmem r hr)
      rw [e]
      exact RunAux.applyFilters_norm_idem _ c
  have hcr₂ : [Input.lcov (printReport L₁)].findSome? (RunAll.crash o₂.branch) = none := by
    have hp : Lcov.parse true (printReport L₁) = .ok ((printable L₁).map fun pc => (utf8Lossy pc.1, rtCov pc.2)) :=
      parse_printLcov (printable L₁) fun pc hpc => (hw₁ pc hpc).1
    simp only [List.findSome?_cons, List.findSome?_nil, RunAll.crash]
    cases hbr : o₂.branch with
    | true => rw [hp]
    | false =>
      cases hp' : Lcov.parse false (printReport L₁) with
      | panic s =>
        have := Lcov.parse_noPanic false (printReport L₁)
        exact absurd hp' (this s)
      | ok rs' => rfl
      | err k => rfl
  have hrun₂ : RunAll.run o₂ w [.lcov (printReport L₁)] = .ok (printReport L₂) := by
    unfold RunAll.run
    rw [hcr₂, hrec₂]
    show RunAll.report o₂ _ = _
    rw [RunAux.report_lcov o₂ ho]
    have e : ordered o₂ (L₁.map fun r => (⟨r.abs, r.rel, norm r.cov⟩ : Rec))
        = L₂.map fun r => ⟨r.abs, r.rel, norm r.cov⟩ :=
      ordered_map o₂ hk₂ (fun r => (⟨r.abs, r.rel, norm r.cov⟩ : Rec)) (fun r => ⟨rfl, rfl⟩) L₁
    rw [e]
    have hw₂ : ReportOK (printable L₂) := by
      intro pc hpc
      simp only [printable, List.mem_map] at hpc
      obtain ⟨r, hr, rfl⟩ := hpc
      exact hw₁ _ (List.mem_map_of_mem (f := fun r => (r.rel, sortCov r.cov)) (p₂.subset hr))
    rw [printReport_norm L₂ (fun r => r.abs) hw₂]
  refine ⟨L₁, L₂, p₁, p₂, hrun₁, hrun₂, ?_, ?_⟩
  · intro hs hkeys
    have hs₂ : sortedFor o₂ = true := hs
    show ordered o₂ L₁ = L₁
    have e₁ : L₁ = MainGlue.sortRecs (o.hash.recs rs) := by simp only [L₁, ordered, hs, if_true]
    have e₂ : ordered o₂ L₁ = MainGlue.sortRecs (h₂.recs L₁) := by simp only [ordered, hs₂, if_true]; rfl
    rw [e₂]
    conv => rhs; rw [e₁]
    apply RunAux.sortRecs_eq_of_perm
    · exact ((hh₂.recsPerm L₁).trans p₁).trans (hh.recsPerm rs).symm
    · exact ((((hh₂.recsPerm L₁).trans p₁).map MainGlue.sortKey).nodup_iff).2 hkeys
  · intro hs hid
    have hs₂ : sortedFor o₂ = false := hs
    show ordered o₂ L₁ = L₁
    simp only [ordered, hs₂, Bool.false_eq_true, if_false]
    show h₂.recs L₁ = L₁
    rw [hid]; rfl

/-- **Whole-run fixed point with exclusion markers, any input kinds, `-s`.** `C05_run_second_run_markers`
under the guards of `C05_cli_fixed_point_partial` on the record list `rs` of the first run: source
dir `S` clean, absolute, backslash-free; no path mapping; prefix dir absent or `S` (what `main` sets
without `-p`); every reported file an existing regular file below `S` reported relative to it, none
twice; the report writable; without `--branch`: no branch data in the report (JaCoCo inputs break that
one: known finding C06-jacoco-branches-without-branch-flag). The first run may read tracefiles, JaCoCo
reports and gcno/gcda items, with any `--excl-*` markers, `--filter`, `--ignore`, `--keep-only`,
`--ignore-not-existing`; the run on its report writes the same file records – the same bytes when the
type is sorted (distinct displayed paths) or the second map iterates in insertion order. -/
theorem C05_run_fixed_point_markers_partial (o : RunAll.Opts) (h₂ : HashOrder) (w : World) (sn : List Lcov.Bytes)
    (ins : List Input) (rs : List Rec)
    (ho : o.out = .lcov) (hh : o.hash.OK) (hh₂ : h₂.OK) (hk₂ : h₂.KeysOnly)
    (hS : o.cfg.sourceDir = some (UPath.render ⟨true, sn⟩)) (hM : o.cfg.mapping = none)
    (hP : o.cfg.prefixDir = none ∨ o.cfg.prefixDir = some (UPath.render ⟨true, sn⟩))
    (hsn : ∀ n ∈ sn, RealName n ∧ 92 ∉ n)
    (hc : ins.findSome? (RunAll.crash o.branch) = none) (hrec : records o w ins = .ok rs)
    (hw : ReportOK (printable rs))
    (hb : o.branch = false → ∀ r ∈ rs, r.cov.branches = [])
    (hnd : (rs.map (·.abs)).Nodup)
    (hfiles : ∀ r ∈ rs, ∃ names, names ≠ [] ∧ (∀ n ∈ names, RealName n ∧ 92 ∉ n) ∧
      r.abs = UPath.render ⟨true, sn ++ names⟩ ∧ r.rel = join names ∧
      w.fs.resolve (UPath.render ⟨true, sn ++ names⟩) = some (sn ++ names, .file)) :
    ∃ L₁ L₂ : List Rec, L₁.Perm rs ∧ L₂.Perm L₁ ∧
      RunAll.run o w ins = .ok (printReport L₁) ∧
      RunAll.run { o with hash := h₂ } w [.lcov (printReport L₁)] = .ok (printReport L₂) ∧
      (sortedFor o = true → (rs.map MainGlue.sortKey).Nodup → L₂ = L₁) ∧
      (sortedFor o = false → h₂.recs = id → L₂ = L₁) := by
  have hsn1 : ∀ n ∈ sn, RealName n := fun n hn => (hsn n hn).1
  have hcanon : ∀ r ∈ rs, addCanon w.fs o.cfg.sourceDir r.rel = r.abs := by
    intro r hr
    obtain ⟨names, hne, hn, ea, er, hres⟩ := hfiles r hr
    rw [hS, er, ea]
    exact addCanon_under_source hsn1 (fun n h => (hn n h).1) hne hres
  apply C05_run_second_run_markers o h₂ w ins rs ho hh hh₂ hk₂ hc hrec hw hb
  · have e : (rs.map (·.rel)).map (addCanon w.fs o.cfg.sourceDir) = rs.map (·.abs) := by
      rw [List.map_map]; exact List.map_congr_left fun r hr => hcanon r hr
    rw [e]; exact hnd
  · intro r hr
    obtain ⟨names, hne, hn, ea, er, hres⟩ := hfiles r hr
    rw [hcanon r hr, ea, er]
    exact resolveKey_canonical_under_source hS hM hP hsn hn hne hres

/-! ### non-vacuity: markers, a JaCoCo report and a tracefile in the first run -/

namespace RunWit
/-- `/s/a.c` (line 3 carries the marker `NOCOV`), `/s/b.c` and `/s/p/A.java` exist below the source dir
`/s`: every file the inputs name -/
def fs : FS :=
  { files := [[[115], [97, 46, 99]], [[115], [98, 46, 99]], [[115], [112], [65, 46, 106, 97, 118, 97]]],
    dirs := [[[115]], [[115], [112]]], cwd := [[115]] }
/-- `x\ny\nNOCOV\n` -/
def aText : List Nat := [120, 10, 121, 10, 78, 79, 67, 79, 86, 10]
def w : World :=
  { fs := fs, text := fun p => if p = [47, 115, 47, 97, 46, 99] then some aText else none }
/-- `--excl-line NOCOV`, `-s /s`, `--branch`, lcov sorted -/
def opts : RunAll.Opts :=
  { cfg := { sourceDir := some [47, 115], prefixDir := some [47, 115] }, branch := true,
    excl := ⟨some [78, 79, 67, 79, 86], none, none, none, none, none⟩,
    isMatch := fun rx line => FileFilter.hasSub rx line, out := .lcov, sortTypes := [.lcov] }
/-- `a.c` (function `f`, lines 1 and 3, a two-way branch on line 3) and `b.c` (the tracefile of
Props/C02Run.lean) -/
def l1 : Lcov.Bytes :=
  [84, 78, 58, 10, 83, 70, 58, 97, 46, 99, 10, 70, 78, 58, 49, 44, 102, 10, 70, 78, 68, 65, 58, 50,
   44, 102, 10, 68, 65, 58, 49, 44, 50, 10, 68, 65, 58, 51, 44, 48, 10, 66, 82, 68, 65, 58, 51, 44,
   48, 44, 48, 44, 49, 10, 66, 82, 68, 65, 58, 51, 44, 48, 44, 49, 44, 45, 10, 101, 110, 100, 95,
   111, 102, 95, 114, 101, 99, 111, 114, 100, 10, 83, 70, 58, 98, 46, 99, 10, 68, 65, 58, 50, 44,
   53, 10, 101, 110, 100, 95, 111, 102, 95, 114, 101, 99, 111, 114, 100, 10]
/-- a JaCoCo report: `p/A.java`, line 1 with one branch of two taken -/
def j1 : Lcov.Bytes :=
  [60, 114, 101, 112, 111, 114, 116, 32, 110, 97, 109, 101, 61, 34, 114, 34, 62, 60, 112, 97, 99,
   107, 97, 103, 101, 32, 110, 97, 109, 101, 61, 34, 112, 34, 62, 60, 115, 111, 117, 114, 99, 101,
   102, 105, 108, 101, 32, 110, 97, 109, 101, 61, 34, 65, 46, 106, 97, 118, 97, 34, 62, 60, 108,
   105, 110, 101, 32, 110, 114, 61, 34, 49, 34, 32, 109, 105, 61, 34, 48, 34, 32, 99, 105, 61, 34,
   49, 34, 32, 109, 98, 61, 34, 49, 34, 32, 99, 98, 61, 34, 49, 34, 47, 62, 60, 47, 115, 111, 117,
   114, 99, 101, 102, 105, 108, 101, 62, 60, 47, 112, 97, 99, 107, 97, 103, 101, 62, 60, 47, 114,
   101, 112, 111, 114, 116, 62]
end RunWit

/-- a tracefile for `a.c` (lines 1 and 3 with a branch on line 3; line 3 is excluded by the marker) and
`b.c`, and the JaCoCo report for `p/A.java` of Props/C02Run.lean: the first run's report has no `DA:3`
(it differs from the marker-free report), and the run on it writes the same bytes -/
example :
    ∃ B, RunAll.run RunWit.opts RunWit.w [.lcov RunWit.l1, .jacoco RunWit.j1] = .ok B ∧
      RunAll.run RunWit.opts RunWit.w [.lcov B] = .ok B ∧
      RunAll.run { RunWit.opts with excl := ⟨none, none, none, none, none, none⟩ } RunWit.w
        [.lcov RunWit.l1, .jacoco RunWit.j1] ≠ .ok B := by
  refine ⟨(match RunAll.run RunWit.opts RunWit.w [.lcov RunWit.l1, .jacoco RunWit.j1] with
    | .ok b => b | _ => []), ?_⟩
  decide +kernel

/-- the full statement: whatever the inputs, markers and options (path mapping aside), a run on the
lcov report of a run writes the same report. FALSE of the code. -/
def C05_run_fixed_point_markers_stmt : Prop :=
  ∀ (o : RunAll.Opts) (w : World) (ins : List Input) (B : Lcov.Bytes),
    o.out = .lcov → o.cfg.mapping = none → RunAll.run o w ins = .ok B → RunAll.run o w [.lcov B] = .ok B

/-- Witness at run level for the guard `hb` (known finding C06-jacoco-branches-without-branch-flag):
WITHOUT `--branch` a JaCoCo report still files branch data, the lcov report has `BRDA` records for
`p/A.java`, and the second run – whose tracefile reader skips `BRDA` without `--branch` – drops them. -/
theorem C05_run_jacoco_branch_off_witness :
    ∃ B₁ B₂, RunAll.run { out := .lcov, branch := false } { fs := { files := [], dirs := [], cwd := [] }, text := fun _ => none }
        [.jacoco RunWit.j1] = .ok B₁ ∧
      RunAll.run { out := .lcov, branch := false } { fs := { files := [], dirs := [], cwd := [] }, text := fun _ => none }
        [.lcov B₁] = .ok B₂ ∧ B₁ ≠ B₂ := by
  refine ⟨(match RunAll.run { out := .lcov, branch := false } { fs := { files := [], dirs := [], cwd := [] }, text := fun _ => none }
      [.jacoco RunWit.j1] with | .ok b => b | _ => []),
    (match RunAll.run { out := .lcov, branch := false } { fs := { files := [], dirs := [], cwd := [] }, text := fun _ => none }
      [.lcov (match RunAll.run { out := .lcov, branch := false } { fs := { files := [], dirs := [], cwd := [] }, text := fun _ => none }
        [.jacoco RunWit.j1] with | .ok b => b | _ => [])] with | .ok b => b | _ => []), ?_⟩
  decide +kernel

theorem C05_run_fixed_point_markers_false : ¬ C05_run_fixed_point_markers_stmt := by
  intro h
  obtain ⟨B₁, B₂, h1, h2, hne⟩ := C05_run_jacoco_branch_off_witness
  have := h _ _ _ _ rfl rfl h1
  rw [h2] at this
  exact hne (by cases this; rfl)

end Grcov.Props.C05
