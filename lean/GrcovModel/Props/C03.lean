/-
C03 — report fidelity. Theorems about the `Writers` model: each line encoding carries exactly
the instrumented lines and their counts, position ↔ line number, for all line maps (counts up to
2^64-1). The branch quadruples of coveralls and the lcov records are C05's round-trip theorems
(re-stated here); cobertura is proved under the guard the code forces (a branch vector on a line
without a line entry is not emitted: known finding C03-cobertura-branch-without-line, with the
closed witness). The byte layer (serde_json, quick-xml, Tera) is trusted and read back by
independent decoders in the correspondence run, for every format and option variant.
-/
import GrcovModel.Writers
import GrcovModel.Props.C05
import GrcovModel.Props.C03CobAde
import GrcovModel.Props.C03CobBytes
import GrcovModel.Props.C03Lcov
import GrcovModel.Props.C03Docs
import GrcovModel.Props.C03Main
import GrcovModel.Props.C03JsonBytes
import GrcovModel.Props.C03Html
import GrcovModel.Props.C03FnOrder
import GrcovModel.Props.C03HtmlDisk
import GrcovModel.Props.C03Links
import GrcovModel.Props.C03Run
namespace Grcov.Props.C03
open Grcov AList Grcov.Writers

/-- covdir: the array has one entry per line 1..=last; entry `i` is the count of line `i+1`, or
-1 exactly when that line is not instrumented. -/
theorem C03_covdir_entries (lines : List (Nat × Nat)) :
    (covdirArray lines).length = lastKey lines ∧
    ∀ i, i < lastKey lines → (covdirArray lines)[i]? = some (entry lines (i + 1)) := by
  refine ⟨by simp [covdirArray], fun i hi => ?_⟩
  simp [covdirArray, hi]

/-- … and every instrumented line is inside the array, so none is dropped. -/
theorem C03_covdir_no_line_dropped (lines : List (Nat × Nat)) (l c : Nat) (hl : 1 ≤ l)
    (h : get? lines l = some c) : (covdirArray lines)[l - 1]? = some (c : Int) := by
  have hle : l ≤ lastKey lines := key_le_lastKey lines l (by simp [h])
  have := (C03_covdir_entries lines).2 (l - 1) (by omega)
  rw [this]
  have e : l - 1 + 1 = l := by omega
  simp [entry, e, h]

/-- instrumented ↔ not -1: an uninstrumented line is never shown as instrumented nor the reverse,
and a count is never altered (the entry IS the count, whatever its size). -/
theorem C03_entry_faithful (lines : List (Nat × Nat)) (l : Nat) :
    (entry lines l = -1 ↔ get? lines l = none) ∧
    ∀ c, get? lines l = some c → entry lines l = (c : Int) := by
  constructor
  · cases h : get? lines l with
    | none => simp [entry, h]
    | some c => simp [entry, h]
  · intro c h; simp [entry, h]

/-- coveralls: position `i` carries line `i+1`: its count, or null when not instrumented. -/
theorem C03_coveralls_entries (lines : List (Nat × Nat)) :
    (coverallsArray lines).length = lastKey lines ∧
    ∀ i, i < lastKey lines → (coverallsArray lines)[i]? = some (get? lines (i + 1)) := by
  refine ⟨by simp [coverallsArray], fun i hi => ?_⟩
  simp [coverallsArray, hi]

theorem C03_coveralls_no_line_dropped (lines : List (Nat × Nat)) (l c : Nat) (hl : 1 ≤ l)
    (h : get? lines l = some c) : (coverallsArray lines)[l - 1]? = some (some c) := by
  have hle : l ≤ lastKey lines := key_le_lastKey lines l (by simp [h])
  have := (C03_coveralls_entries lines).2 (l - 1) (by omega)
  rw [this]
  have e : l - 1 + 1 = l := by omega
  simp [e, h]

/-- coveralls branches: the (line, 0, n, taken) quadruples rebuild every branch vector (C05). -/
theorem C03_coveralls_branches (bs : List (Nat × List Bool)) (hb : NodupKeys bs) (l : Nat) :
    Lcov.vecAt (Lcov.brdaFold [] (Lcov.brdaRecords bs)) l = Lcov.vecAt bs l :=
  Grcov.Props.C05.C05_branches_roundtrip_partial bs hb l

/-- html: row `i` of a page over `n` source lines shows the count of line `i+1` or "no coverage";
with a source at least as long as the highest instrumented line every instrumented line has its row. -/
theorem C03_html_rows (lines : List (Nat × Nat)) (n : Nat) :
    (htmlCounts lines n).length = n ∧
    ∀ i, i < n → (htmlCounts lines n)[i]? = some (entry lines (i + 1)) := by
  refine ⟨by simp [htmlCounts], fun i hi => ?_⟩
  simp [htmlCounts, hi]

theorem C03_html_no_line_dropped (lines : List (Nat × Nat)) (n l c : Nat) (hl : 1 ≤ l)
    (hn : lastKey lines ≤ n) (h : get? lines l = some c) :
    (htmlCounts lines n)[l - 1]? = some (c : Int) := by
  have hle : l ≤ lastKey lines := key_le_lastKey lines l (by simp [h])
  have := (C03_html_rows lines n).2 (l - 1) (by omega)
  rw [this]
  have e : l - 1 + 1 = l := by omega
  simp [entry, e, h]

/-- cobertura: one `<line>` per instrumented line with its hits; conditions are the line's branch
vector. -/
theorem C03_cobertura_lines (c : Cov) :
    (coberturaLines c).map (fun x => (x.1, x.2.1)) = c.lines ∧
    ∀ x ∈ coberturaLines c, x.2.2 = get? c.branches x.1 := by
  constructor
  · simp only [coberturaLines, List.map_map]
    induction c.lines with
    | nil => rfl
    | cons a t ih => simp [ih]
  · intro x hx
    simp only [coberturaLines, List.mem_map] at hx
    obtain ⟨lc, _, rfl⟩ := hx
    rfl

/-- full branch fidelity of cobertura holds under the guard that every branch line is also an
instrumented line … -/
theorem C03_cobertura_branches_partial (c : Cov)
    (guard : ∀ l, (get? c.branches l).isSome → (get? c.lines l).isSome) (l : Nat) (v : List Bool)
    (hv : get? c.branches l = some v) : ∃ h, (l, h, some v) ∈ coberturaLines c := by
  have hs := guard l (by simp [hv])
  cases hl : get? c.lines l with
  | none => simp [hl] at hs
  | some h =>
    refine ⟨h, ?_⟩
    simp only [coberturaLines, List.mem_map]
    exact ⟨(l, h), mem_of_get? hl, by simp [hv]⟩

/-- … and is false without it: a branch vector on a line without a line entry (every JaCoCo
branch line) does not appear in the report. -/
theorem C03_cobertura_branches_false :
    ¬ (∀ (c : Cov) (l : Nat) (v : List Bool), get? c.branches l = some v →
        ∃ h, (l, h, some v) ∈ coberturaLines c) := by
  intro h
  have := h { lines := [], branches := [(7, [true])], functions := [] } 7 [true] (by decide)
  simp [coberturaLines] at this

/-- ActiveData: covered and uncovered lists partition the instrumented lines by count > 0 / = 0. -/
theorem C03_ade_partition (lines : List (Nat × Nat)) (l : Nat) :
    (l ∈ adeCovered lines ↔ ∃ c, (l, c) ∈ lines ∧ c > 0) ∧
    (l ∈ adeUncovered lines ↔ (l, 0) ∈ lines) := by
  constructor
  · simp only [adeCovered, List.mem_map, List.mem_filter, decide_eq_true_eq]
    constructor
    · rintro ⟨⟨l', c⟩, ⟨hm, hc⟩, rfl⟩; exact ⟨c, hm, hc⟩
    · rintro ⟨c, hm, hc⟩; exact ⟨(l, c), ⟨hm, hc⟩, rfl⟩
  · simp only [adeUncovered, List.mem_map, List.mem_filter, decide_eq_true_eq]
    constructor
    · rintro ⟨⟨l', c⟩, ⟨hm, hc⟩, rfl⟩; simp only at hc; subst hc; exact hm
    · intro hm; exact ⟨(l, 0), ⟨hm, rfl⟩, rfl⟩

/-! ### the base encodings ARE the fields of the tied documents (second review, item 33)

`coverallsArray` and `coberturaLines` are not called by a driver op themselves; the theorems above
are about the real writers because these two functions are, provably, the `coverage` field of the
document `Docs.cvFile` builds (tied by `c03.docs.coveralls` and, byte for byte, `c03.json.coveralls`)
and the `<line>` elements of the class `CobAde.docClass` builds (tied by `c03.cob.tree` and, byte
for byte, `c03.cobbytes.ser`). -/

/-- `coverallsArray` is the `coverage` array of the Coveralls entry the writer model produces, in
both build modes, whenever it produces one. -/
theorem C03_coveralls_array_is_docs (oc plus : Bool) (r : Docs.Res) (h : lastKey r.cov.lines < U32MAX) :
    (Docs.cvFile oc plus r).map (·.coverage) = some (coverallsArray r.cov.lines) := by
  rw [Docs.cvFile_ok oc plus r h]; rfl

/-- `coberturaLines` lists, in order, the number, hits and conditions of the class lines of the
Cobertura document the writer model produces. -/
theorem C03_cobertura_lines_is_cobade (rel : Name) (c : Cov) (hnd : NodupKeys c.lines) :
    (CobAde.docClass rel c).lines.map (fun l => (l.number, CobAde.CLine.hits l, CobAde.CLine.conds l))
      = coberturaLines c := by
  unfold CobAde.docClass Stats.cobClass coberturaLines keys
  simp only [List.map_map]
  apply List.map_congr_left
  intro kv hkv
  obtain ⟨k, v⟩ := kv
  have hg : get? c.lines k = some v := get?_of_mem hnd hkv
  simp only [Function.comp, Stats.lineFromNumber, hg, Option.getD_some]
  cases hb : get? c.branches k <;> simp [Stats.CLine.number, CobAde.CLine.hits, CobAde.CLine.conds]

/-- non-vacuity: the largest count survives, gaps are -1 -/
example : covdirArray [(1, U64MAX), (3, 0)] = [(U64MAX : Int), -1, 0] := by decide

end Grcov.Props.C03
