/-
C11 (and the C16 glue), part Main — which command-line option reaches which parameter of
`rewrite_paths` and of `FileFilter::new` (src/main.rs 319-322, 355-362, 385-390, 501-511), for ALL
option records and environments, and the composition with the `Rewrite` model of C11:

* `--filter covered ↦ Some(true)`, `uncovered ↦ Some(false)`, absent ↦ `None`; no other spelling
  is accepted;
* the source directory is the CANONICAL form of `-s` (an empty `-s ""` counts as absent, a missing
  directory is a panic before anything runs), the prefix is `-p`, else that canonical source
  directory, else none;
* `--ignore` / `--keep-only` lists and `--ignore-not-existing` pass through unchanged, in order;
* the six `--excl-*` regexes reach `FileFilter::new` in the positions line, start, stop, br-line,
  br-start, br-stop (so C16's `FileFilter.Opts` is the is-some vector of the six options);
* `--path-mapping` replaces whatever mapping the producer found;
* composed with C11: for the configuration a plan stands for, `rewrite_paths`'s assertion on the
  source directory cannot fire (a canonical path is absolute) and the report consists exactly of
  the keys selected by the user's filters as typed.
-/
import GrcovModel.Lemmas.MainGlue
import GrcovModel.Lemmas.Rewrite
import GrcovModel.Props.C11Filter
namespace Grcov.Props.C11
open Grcov Grcov.UPath Grcov.Glob Grcov.Rewrite Grcov.MainGlue

/-- `--filter`: the three cases, and the spellings clap accepts. -/
theorem C11_main_filter_option :
    filterOption none = none ∧ filterOption (some .covered) = some true ∧
    filterOption (some .uncovered) = some false ∧
    (∀ s, parseFilter s = some .covered ↔ s = bCovered) ∧
    (∀ s, parseFilter s = some .uncovered ↔ s = bUncovered) := by
  refine ⟨rfl, rfl, rfl, ?_, ?_⟩ <;> intro s <;> unfold parseFilter
  · by_cases h1 : s = bCovered
    · simp [h1]
    · by_cases h2 : s = bUncovered <;> simp [h1, h2]
  · have hne : bUncovered ≠ bCovered := by decide
    by_cases h1 : s = bCovered
    · subst h1; simp [Ne.symm hne]
    · by_cases h2 : s = bUncovered
      · subst h2; simp [hne]
      · simp [h1, h2]

/-- Every argument of `rewrite_paths` as a function of the options: source dir canonicalised,
prefix defaulting to it, the glob lists and the flag unchanged, the filter translated. -/
theorem C11_main_rewrite_args (env : Env) (o : Opts) (p : Plan) (h : plan env o = .ok p) :
    (match o.rest.sourceDir with
     | none => p.rewrite.sourceDir = none
     | some s => if s = [] then p.rewrite.sourceDir = none
                 else env.canon s = p.rewrite.sourceDir ∧ p.rewrite.sourceDir.isSome) ∧
    p.rewrite.prefixDir = (match o.rest.prefixDir with
                           | some q => some q
                           | none => p.rewrite.sourceDir) ∧
    p.rewrite.ignore = o.rest.ignoreDir ∧ p.rewrite.keep = o.rest.keepDir ∧
    p.rewrite.ignoreNotExisting = o.rest.ignoreNotExisting ∧
    p.rewrite.filter = filterOption o.filter := by
  obtain ⟨sr, ms, ob, hsr, _, _, _, rfl⟩ := plan_ok h
  exact ⟨sourceRoot_ok_iff.mp hsr, rfl, rfl, rfl, rfl, rfl⟩

/-- The prefix default in words: without `-p` the prefix IS the (canonical) source directory;
without both there is none; an explicit `-p` wins and is NOT canonicalised. -/
theorem C11_main_prefix_default (env : Env) (o : Opts) (p : Plan) (h : plan env o = .ok p) :
    (o.rest.prefixDir = none → p.rewrite.prefixDir = p.rewrite.sourceDir) ∧
    (∀ q, o.rest.prefixDir = some q → p.rewrite.prefixDir = some q) := by
  have := (C11_main_rewrite_args env o p h).2.1
  constructor
  · intro hn; rw [this, hn]
  · intro q hq; rw [this, hq]

/-- A `-s` that does not exist is a panic of the main thread (exit status 101) before any thread
starts: no report, whatever the other options. -/
theorem C11_main_source_dir_missing (env : Env) (o : Opts) (s : Bytes)
    (hs : o.rest.sourceDir = some s) (hne : s ≠ []) (hc : env.canon s = none) :
    plan env o = .error .sourceDirMissing ∧ PanicSite.sourceDirMissing.exitCode = 101 := by
  simp [plan, sourceRoot, hs, hne, hc, PanicSite.exitCode]

/-- C16 glue: the six `--excl-*` options reach `FileFilter::new` in its parameter order, and the
configured-regex vector of C16's model is their is-some vector. -/
theorem C11_main_excl_positions (env : Env) (o : Opts) (p : Plan) (h : plan env o = .ok p) :
    p.fileFilter = ⟨o.rest.exclLine, o.rest.exclStart, o.rest.exclStop, o.rest.exclBrLine,
                    o.rest.exclBrStart, o.rest.exclBrStop⟩ ∧
    p.fileFilter.toOpts = ⟨o.rest.exclLine.isSome, o.rest.exclStart.isSome, o.rest.exclStop.isSome,
                           o.rest.exclBrLine.isSome, o.rest.exclBrStart.isSome,
                           o.rest.exclBrStop.isSome⟩ := by
  obtain ⟨sr, ms, ob, _, _, _, _, rfl⟩ := plan_ok h
  exact ⟨rfl, rfl⟩

/-- `--path-mapping FILE` is the mapping (what the producer found is dropped); without it the
producer's `linked-files-map.json`; an unreadable file ends the run with exit status 1. The
producer is told to skip orphan gcno files exactly under `--filter covered`. -/
theorem C11_main_mapping_source (env : Env) (o : Opts) (p : Plan) (h : plan env o = .ok p) :
    (o.rest.pathMapping = none → p.mapping = .producer) ∧
    (∀ f, o.rest.pathMapping = some f → p.mapping = .file f ∧ env.mappingReadable f = true) ∧
    (p.producerCoveredOnly = true ↔ o.filter = some .covered) ∧
    p.inputs = o.rest.paths ∧ p.llvm = o.rest.llvm := by
  obtain ⟨sr, ms, ob, _, _, hms, _, rfl⟩ := plan_ok h
  refine ⟨?_, ?_, ?_, rfl, rfl⟩
  · intro hn; simp [mappingSrc, hn] at hms; simp [mkPlan, hms]
  · intro f hf
    simp only [mappingSrc, hf] at hms
    split at hms
    · cases hms; exact ⟨rfl, by assumption⟩
    · cases hms
  · simp only [mkPlan]
    cases o.filter with
    | none => simp [filterOption]
    | some f => cases f <;> simp [filterOption]

/-- Composition with the `Rewrite` model: the configuration a plan stands for has exactly the
user's source dir (canonical), prefix, glob sets (compiled in order), flag and filter; and when
`canonicalize` returns absolute paths (as it does), the `assert!(p.is_absolute())` of
`rewrite_paths` cannot fire — the report is the per-key pipeline on every key. -/
theorem C11_main_cfg_composed (env : Env) (o : Opts) (p : Plan) (h : plan env o = .ok p)
    (habs : ∀ s c, env.canon s = some c → isAbsolute c = true)
    (mapping : Option (List (Bytes × Bytes))) (cfg : Cfg) (hcfg : p.rewriteCfg mapping = some cfg)
    (fs : FS) (m : List (Bytes × Cov)) :
    cfg.sourceDir = p.rewrite.sourceDir ∧ cfg.prefixDir = p.rewrite.prefixDir ∧
    cfg.mapping = mapping ∧ compile o.rest.ignoreDir = some cfg.ignore ∧
    compile o.rest.keepDir = some cfg.keep ∧
    cfg.ignoreNotExisting = o.rest.ignoreNotExisting ∧ cfg.filter = filterOption o.filter ∧
    rewritePaths cfg fs m = collect (m.map (rewriteKey cfg fs)) := by
  have hargs := C11_main_rewrite_args env o p h
  obtain ⟨hsrc, _, hig, hkp, hine, hflt⟩ := hargs
  unfold Plan.rewriteCfg at hcfg
  split at hcfg
  · rename_i ig kp h1 h2
    cases hcfg
    refine ⟨rfl, rfl, rfl, by rw [← hig]; exact h1, by rw [← hkp]; exact h2, hine, hflt, ?_⟩
    unfold rewritePaths
    simp only
    cases hs : p.rewrite.sourceDir with
    | none => rfl
    | some c =>
      have hc : isAbsolute c = true := by
        cases hso : o.rest.sourceDir with
        | none => simp [hso, hs] at hsrc
        | some s =>
          simp only [hso] at hsrc
          by_cases he : s = []
          · simp [he, hs] at hsrc
          · simp only [he, if_false, hs] at hsrc
            exact habs s c hsrc.1
      simp [hc]
  · cases hcfg

/-- … hence the report of a run is exactly the set of keys that the user's filters select, IN THE
ORDER OF THE CODE (second review, item 7): `flt abs` is the filter list `FileFilter::create` makes
of the file at `abs` from the six `--excl-*` options (`C11_main_excl_positions`; any function
here, `C11_main_report_selection_run` instantiates it). A record is reported iff some key resolves
to it, matches no `--ignore` glob, matches a `--keep-only` glob when any is given, exists when
`--ignore-not-existing` is set, and WHAT THE EXCLUSION MARKERS LEAVE of its data has the `--filter`
status; the reported data is that remainder. -/
theorem C11_main_report_selection (env : Env) (o : Opts) (p : Plan) (h : plan env o = .ok p)
    (mapping : Option (List (Bytes × Bytes))) (cfg : Cfg) (hcfg : p.rewriteCfg mapping = some cfg)
    (fs : FS) (flt : Bytes → List FileFilter.FT) (m : List (Bytes × Cov)) (rep : List Rec)
    (hrep : Cli.RunAll.rewritePathsF cfg fs flt m = .ok rep) (r : Rec) :
    r ∈ rep ↔ ∃ kc ∈ m, ∃ abs rel, resolveKey cfg fs kc.1 = .ok (some (abs, rel)) ∧
      setMatch cfg.ignore rel = false ∧ (cfg.keep = [] ∨ setMatch cfg.keep rel = true) ∧
      (o.rest.ignoreNotExisting = true → fs.exists abs = true) ∧
      filterOk (filterOption o.filter) (FileFilter.applyFilters (flt abs) kc.2) = true ∧
      r = ⟨abs, rel, FileFilter.applyFilters (flt abs) kc.2⟩ := by
  have hargs := C11_main_rewrite_args env o p h
  have hine : cfg.ignoreNotExisting = o.rest.ignoreNotExisting ∧ cfg.filter = filterOption o.filter := by
    unfold Plan.rewriteCfg at hcfg
    split at hcfg
    · cases hcfg; exact ⟨hargs.2.2.2.2.1, hargs.2.2.2.2.2⟩
    · cases hcfg
  rw [C11_report_members_markers cfg fs flt m rep hrep r]
  have key : ∀ kc : Bytes × Cov, Cli.RunAll.rewriteKeyF cfg fs flt kc = .ok (some r) ↔
      ∃ abs rel, resolveKey cfg fs kc.1 = .ok (some (abs, rel)) ∧
        setMatch cfg.ignore rel = false ∧ (cfg.keep = [] ∨ setMatch cfg.keep rel = true) ∧
        (o.rest.ignoreNotExisting = true → fs.exists abs = true) ∧
        filterOk (filterOption o.filter) (FileFilter.applyFilters (flt abs) kc.2) = true ∧
        r = ⟨abs, rel, FileFilter.applyFilters (flt abs) kc.2⟩ := by
    intro kc
    rw [C11_selection_iff, ← hine.1, ← hine.2]
  constructor
  · rintro ⟨kc, hkc, hk⟩; exact ⟨kc, hkc, (key kc).mp hk⟩
  · rintro ⟨kc, hkc, hk⟩; exact ⟨kc, hkc, (key kc).mpr hk⟩

/-- The same for a whole run of the composed model (`Cli.RunAll.records`: inputs parsed, filed by
`add_results`, then `rewrite_paths` with the `FileFilter` of the plan): `ro` is any run whose
rewrite configuration and `--excl-*` arguments are the plan's; the filter list of a file is
`FileFilter.createSrc` of its text with the six regexes in the plan's positions. -/
theorem C11_main_report_selection_run (env : Env) (o : Opts) (p : Plan) (h : plan env o = .ok p)
    (mapping : Option (List (Bytes × Bytes))) (ro : Cli.RunAll.Opts) (w : Cli.RunAll.World)
    (hcfg : p.rewriteCfg mapping = some ro.cfg) (hexcl : ro.excl = p.fileFilter)
    (inputs : List Cli.RunAll.Input) (rep : List Rec)
    (hrep : Cli.RunAll.records ro w inputs = .ok rep) (r : Rec) :
    r ∈ rep ↔ ∃ kc ∈ Cli.RunAll.resultMap ro w inputs, ∃ abs rel,
      resolveKey ro.cfg w.fs kc.1 = .ok (some (abs, rel)) ∧
      setMatch ro.cfg.ignore rel = false ∧ (ro.cfg.keep = [] ∨ setMatch ro.cfg.keep rel = true) ∧
      (o.rest.ignoreNotExisting = true → w.fs.exists abs = true) ∧
      filterOk (filterOption o.filter)
        (FileFilter.applyFilters (FileFilter.createSrc p.fileFilter.toOpts
          (Cli.RunAll.rxOf ro.isMatch p.fileFilter) (w.text abs)) kc.2) = true ∧
      r = ⟨abs, rel, FileFilter.applyFilters (FileFilter.createSrc p.fileFilter.toOpts
          (Cli.RunAll.rxOf ro.isMatch p.fileFilter) (w.text abs)) kc.2⟩ := by
  have := C11_main_report_selection env o p h mapping ro.cfg hcfg w.fs (Cli.RunAll.filterList ro w)
    (Cli.RunAll.resultMap ro w inputs) rep hrep r
  simpa [Cli.RunAll.filterList, hexcl] using this

/-! ### a concrete run -/

/-- `grcov in.info -s src --ignore '*.h' --keep-only 'a/*' --filter uncovered --excl-line X
--excl-br-stop Y` where `src` canonicalises to `/w/src` -/
def mainExEnv : Env :=
  { cpus := 2
    canon := fun p => if p = [115, 114, 99] then some [47, 119, 47, 115, 114, 99] else none
    isDir := fun _ => false
    mappingReadable := fun _ => true }

def mainExOpts : Opts :=
  { outputTypes := [.files], sortOutputTypes := [.markdown], filter := some .uncovered
    precision := 2, vcsBranch := bMaster, log := bStderr, logLevel := .error
    rest := { paths := [[105]], sourceDir := some [115, 114, 99]
              ignoreDir := [[42, 46, 104]], keepDir := [[97, 47, 42]]
              exclLine := some [88], exclBrStop := some [89] } }

example : (match plan mainExEnv mainExOpts with
    | .ok p => some p.rewrite
    | .error _ => none) =
    some { sourceDir := some [47, 119, 47, 115, 114, 99], prefixDir := some [47, 119, 47, 115, 114, 99]
           ignoreNotExisting := false, ignore := [[42, 46, 104]], keep := [[97, 47, 42]]
           filter := some false } := by decide

example : (match plan mainExEnv mainExOpts with
    | .ok p => some p.fileFilter.toOpts
    | .error _ => none) = some ⟨true, false, false, false, false, true⟩ := by decide

example : (match plan mainExEnv mainExOpts with
    | .ok p => (p.rewriteCfg none).isSome
    | .error _ => false) = true := by decide

end Grcov.Props.C11
