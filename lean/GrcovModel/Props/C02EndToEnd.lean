/-
C02, part `EndToEnd` — from the COMMAND LINE to the report.

`Props/C02Pipeline.lean` starts from a GIVEN list of work items and `Props/C02Run.lean` from a given
list of input files. What hands the items to the pipeline is `producer()` (src/producer.rs: the
arguments are directories, zip archives and plain files; model `Producer.run`, property C17). This
file composes the three:

  arguments ──Producer.run──▶ items ──Pipeline (any N, any schedule)──▶ merge order
            ──reportOf (add_results per batch, C01)──▶ result map ──Cli.RunAll──▶ report bytes

* `C02_end_to_end`: every order of the path arguments, every thread count and every schedule give
  observably the same result map; `C02_end_to_end_packaging`: so does every re-packaging of the same
  artifacts into directories, zips and plain files. Guard = the guard of the C17 exactness theorems:
  gcno files that share a (stem, llvm) key have one content (`Producer.GcnoConsistent`; known finding
  C17-gcno-same-stem-last-wins); without it `C02_end_to_end_false`. (The second C17 finding,
  C17-two-path-mappings-first-wins, concerns the path mapping handed to `rewrite_paths`, not the
  result map.) What a consumer makes of an item is a parameter `sem` of what the item carries
  (`Producer.Obs`: format and contents – no archive name, gcda buffers as a multiset);
* `C02_end_to_end_bytes`: for layouts of tracefiles and JaCoCo reports (the inputs of `Cli.RunAll`)
  the result map of the pipeline on the producer's items IS `RunAll.resultMap` on the discovered
  inputs, and a sorted report type gives the same BYTES for every order of the arguments;
* `C02_run_schedule_sorted_bytes`: for a sorted type the bytes do not depend on the merge order any
  schedule with any number of threads produces (what the `runpair` stream of harness/c02 observes on
  the real binary).
Not covered: overlapping or repeated path arguments (`grcov data data/sub` counts the artifacts
below `data/sub` twice: each argument is an archive of its own; review item 34) – the layouts of
`Producer.Arg` are lists of disjoint archives.
-/
import GrcovModel.Lemmas.PipelineEndToEnd
import GrcovModel.Props.C02Pipeline
import GrcovModel.Props.C02Run
import GrcovModel.Props.C17
namespace Grcov.Props.C02
open Grcov Grcov.AList Grcov.Pipeline Grcov.Report Grcov.Props.C01

/-- the statement of the two end-to-end theorems for a pair of producer outcomes: both runs fail the
same way, or both deliver items and every pair of complete fault-free pipeline runs on them – any
thread counts, any schedules – ends with observably the same result map -/
def SameReport (canon : Key → Key) (sem : Producer.Obs → List (Key × Cov)) :
    Producer.Outcome → Producer.Outcome → Prop
  | .ok items _, .ok items' _ =>
    ∀ (size size' : Item → Nat) (n n' : Nat), 1 ≤ n → 1 ≤ n' → ∀ (rx rx' : Bool) (tr tr' : List Step)
      (s s' : State),
      Run (fun _ => Fate.ok) size (init n rx (List.range items.length)) tr s →
      Run (fun _ => Fate.ok) size' (init n' rx' (List.range items'.length)) tr' s' →
      s.mainPc = .done 0 → s'.mainPc = .done 0 → ∀ k,
        ObsEqOpt (get? (reportOf canon (itemContents sem items) s.merged) k)
          (get? (reportOf canon (itemContents sem items') s'.merged) k)
  | .panicNoInput, .panicNoInput => True
  | .panicBadArg, .panicBadArg => True
  | _, _ => False

private theorem sameReport_of_equiv (canon : Key → Key) (sem : Producer.Obs → List (Key × Cov))
    (hsem : ∀ ob, ∀ kc ∈ sem ob, kc.2.WF) {a b : Producer.Outcome} (h : Producer.OutcomeEquiv a b) :
    SameReport canon sem a b := by
  cases a <;> cases b <;> simp only [Producer.OutcomeEquiv] at h <;> simp only [SameReport]
  rename_i items _ items' _
  intro size size' n n' hn hn' rx rx' tr tr' s s' hr hr' hd hd' k
  exact report_of_equiv_items canon sem hsem items items' h _ _
    (C02_exactly_once_no_faults size n hn rx _ tr s hr hd)
    (C02_exactly_once_no_faults size' n' hn' rx' _ tr' s' hr' hd') k

/-- **From the command line to the result map: every order of the path arguments.** Two invocations
whose path arguments (directories, zip archives, plain files) are permutations of each other: either
`producer()` fails the same way in both, or – whatever the thread counts and the schedules of the
two runs – every file has observably the same record (line counts, branch vectors, functions and
executed flags) in the two result maps: the C01 aggregate of what the discovered artifacts
individually contain. Guard: the guard of C17's exactness theorems. -/
theorem C02_end_to_end (o : Producer.Opts) (args args' : List Producer.Arg) (p : args.Perm args')
    (hw : Producer.WF args) (hc : Producer.GcnoConsistent (Producer.arts o.isLlvm args))
    (canon : Key → Key) (sem : Producer.Obs → List (Key × Cov)) (hsem : ∀ ob, ∀ kc ∈ sem ob, kc.2.WF) :
    SameReport canon sem (Producer.run o args) (Producer.run o args') :=
  sameReport_of_equiv canon sem hsem (Grcov.Props.C17.C17_arg_order_partial o args args' p hw hc)

/-- **… and every packaging.** Two layouts – any split of the same artifacts into directories, zips
and plain files, any argument order, any ignored files added or removed – give observably the same
result map, for every thread count and schedule (same guard). -/
theorem C02_end_to_end_packaging (o : Producer.Opts) (args₁ args₂ : List Producer.Arg)
    (w₁ : Producer.WF args₁) (w₂ : Producer.WF args₂)
    (b₁ : args₁.any Producer.Arg.bad = false) (b₂ : args₂.any Producer.Arg.bad = false)
    (p : ((Producer.arts o.isLlvm args₁).filter Producer.Art.relevant).Perm
          ((Producer.arts o.isLlvm args₂).filter Producer.Art.relevant))
    (hc : Producer.GcnoConsistent (Producer.arts o.isLlvm args₁))
    (canon : Key → Key) (sem : Producer.Obs → List (Key × Cov)) (hsem : ∀ ob, ∀ kc ∈ sem ob, kc.2.WF) :
    SameReport canon sem (Producer.run o args₁) (Producer.run o args₂) :=
  sameReport_of_equiv canon sem hsem
    (Grcov.Props.C17.C17_packaging_invariant_partial o args₁ args₂ w₁ w₂ b₁ b₂ p hc)

/-- the `sem` of the witness below: a GCC gcno item with notes content `g` yields one record for
file `a` whose line 1 has count `g % 3` -/
def witSem : Producer.Obs → List (Key × Cov)
  | .gcnoPath _ (some g) _ => [([97], ⟨[(1, g % 3)], [], []⟩)]
  | _ => []

/-- Without the guard the statement is false of the code (known finding
C17-gcno-same-stem-last-wins): two zips holding different `a.gcno`, given in the two possible
orders, one worker, the obvious schedule: the two result maps differ in the count of a line (`sem`
reads the count off the gcno's content id). -/
theorem C02_end_to_end_false :
    ∃ (o : Producer.Opts) (args args' : List Producer.Arg) (sem : Producer.Obs → List (Key × Cov)),
      args.Perm args' ∧ Producer.WF args ∧ (∀ ob, ∀ kc ∈ sem ob, kc.2.WF) ∧
      ¬ SameReport id sem (Producer.run o args) (Producer.run o args') := by
  let f1 : Producer.File := ⟨[97, 46, 103, 99, 110, 111], [], 1⟩
  let f2 : Producer.File := ⟨[97, 46, 103, 99, 110, 111], [], 2⟩
  refine ⟨⟨false, false⟩, [.zip 0 [f1], .zip 1 [f2]], [.zip 1 [f2], .zip 0 [f1]], witSem,
    List.Perm.swap _ _ _, by unfold Producer.WF; decide, ?_, ?_⟩
  · intro ob kc hkc
    cases ob with
    | gcnoPath st g d =>
      cases g with
      | none => cases hkc
      | some g =>
        simp only [witSem, List.mem_singleton] at hkc
        subst hkc
        refine ⟨by simp [NodupKeys, keys], by simp [NodupKeys, keys], by simp [NodupKeys, keys], ?_⟩
        intro kv hkv; simp only [List.mem_singleton] at hkv; subst hkv
        show g % 3 ≤ U64MAX
        unfold U64MAX; omega
    | content _ _ => cases hkc
    | paths _ _ _ => cases hkc
    | gcnoBuf _ _ _ => cases hkc
  · have h1 : Producer.run ⟨false, false⟩ [.zip 0 [f1], .zip 1 [f2]]
        = .ok [.gcnoPath [97] (some 2) none (.arch (.arg 1))] [] := by decide
    have h2 : Producer.run ⟨false, false⟩ [.zip 1 [f2], .zip 0 [f1]]
        = .ok [.gcnoPath [97] (some 1) none (.arch (.arg 0))] [] := by decide
    rw [h1, h2]
    intro h
    let tr : List Step := [.prodSend, .recv 0, .parsed 0, .lock 0, .mergeEntry 0, .unlock 0, .prodExit,
      .main, .main, .recv 0, .main, .main, .main]
    have hr : ∃ s, replay (fun _ => Fate.ok) (fun _ => 1) (init 1 false [0]) tr = some s ∧
        s.mainPc = .done 0 ∧ s.merged = [0] := ⟨_, rfl, by decide, by decide⟩
    obtain ⟨s, hs, hd, hm⟩ := hr
    have := h (fun _ => 1) (fun _ => 1) 1 1 (Nat.le_refl _) (Nat.le_refl _) false false tr tr s s
      (replay_run hs) (replay_run hs) hd hd [97]
    rw [hm] at this
    have e1 : get? (reportOf id (itemContents witSem
        [Producer.Item.gcnoPath [97] (some 2) none (.arch (.arg 1))]) [0]) [97]
        = some ⟨[(1, 2)], [], []⟩ := by decide
    have e2 : get? (reportOf id (itemContents witSem
        [Producer.Item.gcnoPath [97] (some 1) none (.arch (.arg 0))]) [0]) [97]
        = some ⟨[(1, 1)], [], []⟩ := by decide
    rw [e1, e2] at this
    have := this.lines 1
    revert this
    decide

/-! ### down to the bytes: layouts of tracefiles and JaCoCo reports -/

section Bytes
open Grcov.Cli.RunAll

/-- a content item as an input of the whole-run model: a tracefile or a JaCoCo report with the bytes
that `bytesOf` assigns to its content id -/
def inputOf (bytesOf : Nat → Lcov.Bytes) : Producer.Obs → Option Input
  | .content .info c => some (.lcov (bytesOf c))
  | .content .jacocoXml c => some (.jacoco (bytesOf c))
  | _ => none

/-- the inputs a producer run hands on, in the order of its items -/
def inputsOf (bytesOf : Nat → Lcov.Bytes) (items : List Producer.Item) : List Input :=
  items.filterMap fun it => inputOf bytesOf it.obs

/-- what a consumer makes of an item: the records its parser returns (nothing for the item kinds
outside `Cli.RunAll`: gcno and profile items) -/
def semOf (branch : Bool) (bytesOf : Nat → Lcov.Bytes) (ob : Producer.Obs) : List (Key × Cov) :=
  ((inputOf bytesOf ob).map (contents branch)).getD []

/-- **The pipeline's result map on the producer's items is the result map of the whole-run model on
the discovered inputs**: `Cli.RunAll.run` (and with it every theorem of `Props/C02Run.lean`: the
report bytes, their decoding, rejected inputs) is a statement about what `producer()` found. -/
theorem C02_end_to_end_run_map (ro : Cli.RunAll.Opts) (w : World) (bytesOf : Nat → Lcov.Bytes)
    (items : List Producer.Item) :
    resultMap ro w (inputsOf bytesOf items)
      = reportOf (canonOf ro w) (itemContents (semOf ro.branch bytesOf) items)
          (List.range items.length) := by
  rw [resultMap_flat, reportOf_flat]
  congr 1
  have := range_flatMap_getElem? (fun it : Producer.Item => semOf ro.branch bytesOf it.obs) items
  unfold itemContents
  rw [this]
  unfold allRecords inputsOf
  rw [flatMap_filterMap']
  rfl

/-- the statement of `C02_end_to_end_bytes` for a pair of producer outcomes -/
def SameBytes (ro : Cli.RunAll.Opts) (w : World) (bytesOf : Nat → Lcov.Bytes) :
    Producer.Outcome → Producer.Outcome → Prop
  | .ok items _, .ok items' _ =>
    InputsWF ro (inputsOf bytesOf items) → StartsAgree ro w (inputsOf bytesOf items) →
    (∀ rs, records ro w (inputsOf bytesOf items) = .ok rs → (rs.map MainGlue.sortKey).Nodup) →
      run ro w (inputsOf bytesOf items) = run ro w (inputsOf bytesOf items') ∨
      ∃ s₁ s₂, run ro w (inputsOf bytesOf items) = .panic s₁ ∧ run ro w (inputsOf bytesOf items') = .panic s₂
  | .panicNoInput, .panicNoInput => True
  | .panicBadArg, .panicBadArg => True
  | _, _ => False

/-- **From the command line to the report bytes.** For a report type listed in
`--sort-output-types`: two invocations whose path arguments are permutations of each other either
fail the same way in `producer()`, or write the SAME BYTES (or both end without a report) – under
the hypotheses of `C02_run_perm_sorted_bytes` on the discovered inputs (parser results are maps, the
inputs agree on function start lines, no two reported files share a displayed path). -/
theorem C02_end_to_end_bytes (o : Producer.Opts) (args args' : List Producer.Arg) (p : args.Perm args')
    (hw : Producer.WF args) (hc : Producer.GcnoConsistent (Producer.arts o.isLlvm args))
    (ro : Cli.RunAll.Opts) (w : World) (bytesOf : Nat → Lcov.Bytes) (hh : ro.hash.OK)
    (hs : sortedFor ro = true) :
    SameBytes ro w bytesOf (Producer.run o args) (Producer.run o args') := by
  have h := Grcov.Props.C17.C17_arg_order_partial o args args' p hw hc
  revert h
  cases Producer.run o args <;> cases Producer.run o args' <;>
    simp only [Producer.OutcomeEquiv, SameBytes] <;> intro h <;> try trivial
  rename_i items _ items' _
  intro hwf hag hd
  have pi : (inputsOf bytesOf items).Perm (inputsOf bytesOf items') := by
    have e : ∀ l : List Producer.Item,
        inputsOf bytesOf l = (l.map Producer.Item.obs).filterMap (inputOf bytesOf) := by
      intro l; unfold inputsOf; rw [List.filterMap_map]; rfl
    rw [e, e]
    exact h.filterMap _
  exact C02_run_perm_sorted_bytes ro w _ _ hwf hag hh pi hs hd

/-- **The bytes of a sorted type do not depend on the schedule.** Take any complete fault-free run
of the pipeline on the inputs numbered as listed – any number of workers, any interleaving; its
merge order `s.merged` is the order in which the batches reached the result map. The result map of
the run is the model's `resultMap` on the inputs taken in THAT order, and for a report type listed
in `--sort-output-types` the report written from it is, byte for byte, the report of `run` on the
inputs as listed (or both end without a report). Two real runs on the same inputs with different
`--threads`, schedules and argument orders therefore write the same bytes: the `runpair` stream of
harness/c02 compares exactly that, for unsorted types after sorting the FILE records only. -/
theorem C02_run_schedule_sorted_bytes (ro : Cli.RunAll.Opts) (w : World) (ins : List Input)
    (hwf : InputsWF ro ins) (hag : StartsAgree ro w ins) (hh : ro.hash.OK) (hs : sortedFor ro = true)
    (hd : ∀ rs, records ro w ins = .ok rs → (rs.map MainGlue.sortKey).Nodup)
    (size : Item → Nat) (n : Nat) (hn : 1 ≤ n) (rx : Bool) (tr : List Step) (s : State)
    (h : Run (fun _ => Fate.ok) size (init n rx (List.range ins.length)) tr s)
    (hd0 : s.mainPc = .done 0) :
    resultMap ro w (s.merged.map fun i => ins.getD i (.lcov []))
      = reportOf (canonOf ro w) (fun i => contents ro.branch (ins.getD i (.lcov []))) s.merged ∧
    (run ro w ins = run ro w (s.merged.map fun i => ins.getD i (.lcov [])) ∨
      ∃ s₁ s₂, run ro w ins = .panic s₁ ∧
        run ro w (s.merged.map fun i => ins.getD i (.lcov [])) = .panic s₂) := by
  refine ⟨by simp only [resultMap, reportOf, List.foldl_map]; rfl, ?_⟩
  have pm := C02_exactly_once_no_faults size n hn rx _ tr s h hd0
  have pi : ins.Perm (s.merged.map fun i => ins.getD i (.lcov [])) := by
    have := (pm.map fun i => ins.getD i (.lcov [])).symm
    rwa [range_map_getD] at this
  exact C02_run_perm_sorted_bytes ro w _ _ hwf hag hh pi hs hd

end Bytes

/-! ### non-vacuity -/

/-- a layout of three artifacts – a tracefile in a directory, one in a zip, a JaCoCo report given as
a plain file – meets the hypotheses of `C02_end_to_end`; the producer delivers three items, in either
argument order -/
example :
    let fa : Producer.File := ⟨[120, 46, 105, 110, 102, 111], [83, 70, 58], 1⟩
    let fb : Producer.File := ⟨[121, 46, 105, 110, 102, 111], [84, 78, 58], 2⟩
    let fj : Producer.File := ⟨[47, 106, 46, 120, 109, 108], Producer.bMarker, 3⟩
    let args : List Producer.Arg := [.dir 0 [fa], .zip 1 [fb], .plain fj]
    Producer.WF args ∧ Producer.GcnoConsistent (Producer.arts false args) ∧
    (match Producer.run ⟨false, false⟩ args with | .ok items _ => items.length | _ => 0) = 3 ∧
    (match Producer.run ⟨false, false⟩ args.reverse with | .ok items _ => items.length | _ => 0) = 3 := by
  refine ⟨by unfold Producer.WF; decide, by unfold Producer.GcnoConsistent; decide, by decide, by decide⟩

end Grcov.Props.C02
