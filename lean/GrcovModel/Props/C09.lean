/-
C09 — gcov report fidelity: gcov's intermediate text format (`parse_gcov`) and gcov's JSON format
(`parse_gcov_gz` + `deserialize_counter`) are read exactly.

Models: `Gcov.Text.parse : bytes → Out` and `Gcov.Json.toResults : Json → Out`
(GrcovModel/Gcov.lean). Specification: `Spec.Report`/`Spec.Doc` with `render`/`toJson` and the
denotations `semText`/`semJson` (GrcovModel/Spec/Gcov.lean). Helper lemmas:
GrcovModel/Lemmas/Gcov.lean.

Both fidelity statements are proved at full strength: for every well-formed report / document,
at byte level for the text form (every record order, every line terminator CR*LF, '+' and leading
zeros in numbers, names with commas/colons, any other `key:value` line), at value-tree level for
the JSON form; Props/C09JsonBytes.lean (imported here) carries the JSON form down to the bytes of
the JSON text (`C09_json_fidelity_bytes`; gzip stays flate2's, trusted).
The maps of a result are observed through `get?` (C09_*_line_count, …_branch_vector, …_function).

Three fixes of /repo that this file follows (session 4, second wave):
* 5a9c87e (review item 2): gcov ≥ 9 lists a line once per instance of a function group (template
  instantiations, constructor variants) and may list several functions under one demangled name.
  The reader now ADDS the counts (saturating), ORs the branch vectors position by position and ORs
  the executed flags (first start line kept); before, the last entry won, so executed template code
  was reported with count 0. `Spec.semJson` states the meaning key by key – `lineCount` is the SUM
  over all entries of the line, clamped at 2^64-1 – independently of the reader's fold
  (`C09_json_line_count`, `C09_json_branch_vector`, `C09_json_function`,
  `C09_json_repeated_line_adds_up`); the former behaviour is the example `dupDoc` below.
* 7f9b2b3: a line of the text form is decoded with `String::from_utf8_lossy` before it is split:
  file and function names are the lossy decoding of their bytes (`C09_text_names_decoded`; valid
  UTF-8 is kept byte for byte: `C09_text_utf8_names_unchanged`), for ALL byte strings without
  CR/LF – the fidelity theorem no longer assumes UTF-8 names.
* the call count of `function:` (review item 35): the property says "executed iff its call count is
  non-zero"; the code compares the token with `0`, so a NEGATIVE count (gcov prints a wrapped
  counter with the signed formatter it uses for `lcount:`) is executed – which is what the property
  says; `C09_text_executed_iff_nonzero` covers signed canonical decimals. (`lcount:` alone clamps
  negative values to 0.) Tokens gcov never prints (`00`, `+0`, `-0`) read as executed.

JSON documents of later gcov versions. `C09_json_fidelity` is about the key set gcov 9 writes
(`Doc.toJson`). gcov 13 adds `block_ids`, gcov 14 `conditions`/`calls`, and any producer may add keys
anywhere: `C09_json_unknown_keys_irrelevant` says that keys a level does not read, inserted into any
object at any depth and position, and any reordering of the keys of any object, leave the result
unchanged – so fidelity extends to every such document.

Where the code deviates from the property text (each with its theorem):
* "a count that does not fit 64 bits is rejected rather than wrapped" holds in both forms: text
  `C09_text_no_wrap`, `C09_text_counts_fit`; JSON `C09_json_no_wrap`,
  `C09_json_float_counter_accepted_iff_below_two_pow_64`, `C09_json_two_pow_64_is_rejected`.
  (Former finding C09-json-counter-2pow64-saturates, repaired in /repo 5cfb47a: a counter of exactly
  2^64 – the literal 18446744073709551616 is an f64 for serde_json – passed `value <= u64::MAX as
  f64` and was read as 2^64-1; the comparison is strict now. Witnesses: corpus/C09.)
* a fractional float counter is truncated toward zero (0.5 ↦ 0, so "count > 0" can turn false):
  `C09_json_fractional_counter_truncates`. The property text does not say what a non-integral
  counter means (gcov never writes one); recorded, not judged a violation.
* gcov 8 (neither "up to version 7" nor "9 and later", so outside the quantifier, but lib.rs
  routes every gcov < 9 to `parse_gcov`): its `lcount:<line>,<count>,<flag>` has three fields and
  makes the whole file `Err(Parse)` – `C09_text_gcov8_lcount_is_parse_error`; its
  `function:<start>,<end>,<count>,<name>` is read with <end> as the call-count token and
  `<count>,<name>` as the name (`C09_text_record` on that line). grcov cannot read gcov 8 output.

Panics. No program point of the two models yields `Out.panic`, so the two `…_never_panics`
theorems are true by construction of the models; what they rest on is the site-by-site reading of
the Rust recorded here, and the tie (every harness case runs under `catch_unwind`):
* `parse_gcov`: `File::open(..).unwrap_or_else(panic!)` – reachable when the path cannot be opened,
  not by any file CONTENT; outside the model (the model starts from the bytes). `read_until(..)?` –
  I/O error ⇒ `Err(Io)`, outside the model. `remove_newline`: `l.last().unwrap()` is guarded by
  `is_none() ⇒ break`. `String::from_utf8_lossy`: total (since /repo 7f9b2b3; before,
  `from_utf8_unchecked` – undefined behaviour on non-UTF-8 names, and a panic further down the
  pipeline). `try_next!`/`try_parse!`: return
  `Err`. `vec![taken; 1]`, `BTreeMap`/`FxHashMap` inserts, `entry(..)`: cannot fail. No index
  expression, no arithmetic. After the loop `let Some(cur_file) = cur_file else { return Err(..) }`.
* `parse_gcov_gz`: `File::open` as above. `serde_json::from_reader(gz).map_err(..)?` – every gzip,
  JSON-syntax, recursion-limit (128) and schema error is `Err(InvalidData)`.
  `deserialize_counter`: `n.as_f64().unwrap()` is under `if n.is_f64()`, for which `as_f64` is
  `Some`; `value as u64` is a saturating cast; `n.as_u64()` is matched. The loops only `drain`,
  `entry`, `saturating_add`, compare (`b.count > 0`) and index `all[i]` under `i < all.len()`: no
  other index, no unchecked arithmetic, no `unwrap`.
-/
import GrcovModel.Lemmas.Gcov
import GrcovModel.Props.C09JsonBytes
namespace Grcov.Props.C09
open Grcov AList Grcov.Gcov Grcov.Gcov.Spec
open Grcov.Lcov (utf8Lossy validUtf8)

/-! ## Text form -/

/-- Fidelity, text form: for every well-formed report (any number of sections, any records in any
order, any line terminators, names that are ANY byte strings without CR/LF – valid UTF-8 or not),
reading its rendering gives exactly what the report says — one entry per section that lists a
line, in file order, names decoded lossily. -/
theorem C09_text_fidelity (r : Report) (h : r.WF) : Text.parse r.render = .ok (semText r) :=
  parse_render r h

/-- Record level, all four kinds: a well-formed record followed by any `CR* LF`, read in any
state, does exactly what it says to the section being read (`applyRec`), and nothing else. -/
theorem C09_text_record (a : Text.Acc) (r : Rec) (crs : Nat) (h : r.WF) :
    Text.procLine a (r.render ++ eol crs) = .run (applyRec a r) :=
  procLine_rec a r crs h

/-- A `file:` line closes the section being read (reported iff it has a name and ≥ 1 line) and
opens the next; the name is the whole rest of the line (colons and commas included), decoded with
`from_utf8_lossy`. -/
theorem C09_text_file_record (a : Text.Acc) (name : Bytes) (crs : Nat) (h : noEol name) :
    Text.procLine a (Text.kFile ++ [58] ++ name ++ eol crs) = .run (Text.onFile a (utf8Lossy name)) :=
  procLine_file a name crs h

/-- Names (since /repo 7f9b2b3): the file name of a reported section and the name of a function are
`String::from_utf8_lossy` of the bytes in the file – every maximal ill-formed sequence becomes
U+FFFD, nothing else changes. -/
theorem C09_text_names_decoded :
    (∀ s : FileSec, ∀ r ∈ semSec s, r.1 = utf8Lossy s.name)
    ∧ (∀ (st : Dec) (c n : Bytes), functionOf (.function st c n)
        = some (utf8Lossy n, ⟨st.val, decide (c ≠ [48])⟩)) := by
  refine ⟨?_, fun _ _ _ => rfl⟩
  intro s r hr
  simp only [semSec] at hr
  split at hr
  · simp at hr
  · simp only [Option.mem_def, Option.some.injEq] at hr; rw [← hr]

/-- … and a name that is well-formed UTF-8 (RFC 3629: no overlong form, no surrogate, nothing
above U+10FFFF) is kept byte for byte; decoding is idempotent. -/
theorem C09_text_utf8_names_unchanged (name : Bytes) :
    (validUtf8 name = true → utf8Lossy name = name)
    ∧ utf8Lossy (utf8Lossy name) = utf8Lossy name
    ∧ validUtf8 (utf8Lossy name) = true :=
  ⟨Lcov.utf8Lossy_of_valid name, Lcov.utf8Lossy_idem name, Lcov.validUtf8_utf8Lossy name⟩

/-- The decoding happens on the whole line, before the line is split: an ASCII byte (':' ',' and
every digit) is a boundary of the decoding, so separators stay where they were and each piece of
free text is decoded on its own. -/
theorem C09_text_decoding_keeps_separators (a : Bytes) (c : Nat) (b : Bytes) (hc : c < 128) :
    utf8Lossy (a ++ c :: b) = utf8Lossy a ++ c :: utf8Lossy b :=
  Lossy.lossy_append_ascii a c b hc

/-- A negative count (a '-' followed by anything) is read as 0. -/
theorem C09_text_negative_is_zero (a : Text.Acc) (l : Dec) (rest : Bytes) (crs : Nat)
    (h : (Rec.lcount l (.neg rest)).WF) :
    Text.procLine a ((Rec.lcount l (.neg rest)).render ++ eol crs)
      = .run (Text.onLcount a l.val 0) :=
  procLine_rec a _ crs h

/-- A count that does not fit 64 bits is rejected, never wrapped: after any well-formed prefix and
whatever follows, the whole file is `Err(Parse)`. -/
theorem C09_text_no_wrap (r : Report) (h : r.WF) (l d : Dec) (crs : Nat) (rest : Bytes)
    (hl : l.WF) (hlv : l.val ≤ U32MAX) (hd : d.WF) (hdv : U64MAX < d.val) :
    Text.parse (r.render ++ ((Rec.lcount l (.num d)).render ++ eol crs ++ rest)) = .err "Parse" :=
  parse_overflow r h l d crs rest hl hlv hd hdv

/-- … and for every byte string whatsoever: if the reader accepts it, every count it reports
fits 64 bits. -/
theorem C09_text_counts_fit (bs : Bytes) (rs : List (Bytes × Cov)) (h : Text.parse bs = .ok rs) :
    ∀ r ∈ rs, ∀ kv ∈ r.2.lines, kv.2 ≤ U64MAX :=
  parse_fits bs rs h

/-- `u32::from_str`/`u64::from_str` on a decimal as written (optional '+', leading zeros): its
value when it fits, an error otherwise. -/
theorem C09_text_number (bound : Nat) (d : Dec) (h : d.WF) :
    Text.parseUInt bound d.render = if d.val ≤ bound then some d.val else none :=
  parseUInt_render bound d h

/-- The count of a line is the count of the last `lcount` record for it in the section
(looking the line up in the section's (line, count) pairs read backwards). -/
theorem C09_text_line_count (rs : List Rec) (l : Nat) :
    get? (secLines rs) l = get? (rs.filterMap lcountOf).reverse l :=
  get?_ofList _ l

/-- The branch vector of a line is the list of its `branch` records in record order, each taken
iff its token is `taken`; a line without `branch` record has no vector. -/
theorem C09_text_branch_vector (rs : List Rec) (l : Nat) :
    get? (secBranches rs) l
      = let v := ((rs.filterMap branchOf).filter fun b => decide (b.1 = l)).map (·.2)
        if v.isEmpty then none else some v :=
  get?_groupPush _ l

/-- A function is the last `function` record with its (decoded) name: start line as written,
executed iff the call-count token is not `0`. The name is everything after the second comma. -/
theorem C09_text_function (rs : List Rec) (n : Name) :
    get? (secFunctions rs) n = get? (rs.filterMap functionOf).reverse n :=
  get?_ofList _ n

/-- For a call count written the way gcov's formatter writes a signed 64-bit number – an optional
'-' and canonical digits (no leading zero; `0` unsigned) – "token ≠ `0`" is "count ≠ 0": a function
is executed iff its call count is non-zero, NEGATIVE counts (a wrapped counter) included; only
`lcount:` clamps negative values to 0. -/
theorem C09_text_executed_iff_nonzero (neg : Bool) (ds : Bytes)
    (hd : ∀ b ∈ ds, Text.isDigit b = true)
    (hc : (ds = [48] ∧ neg = false) ∨ (ds ≠ [] ∧ ds.head? ≠ some 48)) :
    (if neg then 45 :: ds else ds) ≠ [48] ↔ valOf ds ≠ 0 := by
  cases neg with
  | false => exact canonical_zero ds hd (hc.imp And.left id)
  | true =>
    have hr : ds ≠ [] ∧ ds.head? ≠ some 48 := by
      rcases hc with ⟨_, h⟩ | h
      · cases h
      · exact h
    have h48 : ds ≠ [48] := fun e => hr.2 (by rw [e]; rfl)
    have := (canonical_zero ds hd (.inr hr)).mp h48
    simp [this]

/-- Exactly the sections that list at least one line are reported, once each, in file order (under
their decoded names); a `file:` section without `lcount` is omitted. -/
theorem C09_text_reported_files (r : Report) (h : r.WF) :
    ∃ rs, Text.parse r.render = .ok rs
      ∧ rs.map (·.1) = (r.secs.filter hasLcount).map (fun s => utf8Lossy s.name) :=
  ⟨semText r, parse_render r h, semText_names r⟩

/-- Every reported map – lines, branches, functions – has unique keys (a `CovResult` by
construction). -/
theorem C09_text_maps_wellformed (rs : List Rec) :
    NodupKeys (secLines rs) ∧ NodupKeys (secBranches rs) ∧ NodupKeys (secFunctions rs) :=
  ⟨nodupKeys_ofList _, nodupKeys_groupPush _, nodupKeys_ofList _⟩

/-- gcov 8 writes `lcount:<line>,<count>,<has_unexecuted_block>`: the count token is then
`<count>,<flag>`, which is not a number – after any well-formed prefix and whatever follows, the
whole file is `Err(Parse)`. (gcov 8 is outside the property's quantifier; lib.rs sends its output
here all the same.) -/
theorem C09_text_gcov8_lcount_is_parse_error (r : Report) (h : r.WF) (l d : Dec) (flag : Bytes)
    (crs : Nat) (rest : Bytes) (hl : l.WF) (hlv : l.val ≤ U32MAX) (hd : d.WF) (hf : noEol flag) :
    Text.parse (r.render ++ (lcount8 l d flag ++ eol crs ++ rest)) = .err "Parse" :=
  parse_lcount8 r h l d flag crs rest hl hlv hd hf

/-- The reader is compositional at line ends: reading `x ++ y`, where `x` is empty or ends with
LF, continues from the state reached after `x`. -/
theorem C09_text_run_append (s : Text.St) (x y : Bytes) (h : x = [] ∨ x.getLast? = some 10) :
    Text.runBytes s (x ++ y) = Text.runBytes (Text.runBytes s x) y :=
  runBytes_append s x y h

/-- A missing newline at the very end changes nothing, for every byte string. -/
theorem C09_text_final_newline_optional (bs : Bytes) (hne : bs ≠ []) (hl : bs.getLast? ≠ some 10) :
    Text.parse (bs ++ [10]) = Text.parse bs :=
  parse_snoc_lf bs hne hl

/-- Robustness (used by C14): for every byte string the text reader model returns `Ok` or `Err`.
TRUE BY CONSTRUCTION: no program point of `Text.parse` produces `Out.panic` (the constructor stays
for the driver protocol), because the reading of `parse_gcov` recorded in the header of this file
found no reachable panic site for any file content (lines read without any `file:` record are
`Err(InvalidRecord)` since 9e71186). What carries the claim over to the Rust is that reading plus
the tie (every case runs under `catch_unwind`; since 7f9b2b3 the generators send non-UTF-8 bytes
too), not this proof. Outside the model: opening the file
(`File::open(..).unwrap_or_else(panic!)`), I/O errors. -/
theorem C09_text_never_panics (bs : Bytes) (site : String) : Text.parse bs ≠ .panic site :=
  parse_ne_panic bs site

/-! ## JSON form -/

/-- Fidelity, JSON form: for every well-formed document (integer or float counters, optional keys
absent, null or present), the reader gives exactly what the document says — one entry per file
that lists a line, in file order. -/
theorem C09_json_fidelity (d : Doc) (h : d.WF) : Json.toResults d.toJson = .ok (semJson d) :=
  JsonL.toResults_toJson d h

/-- `deserialize_counter`: an integer counter is taken as it is, a float counter `0 ≤ v < 2^64` is
truncated toward zero. -/
theorem C09_json_counter (c : Counter) (h : c.WF) : Json.asCounter c.toJson = some c.val :=
  JsonL.asCounter_toJson c h

/-- No wrap: whatever JSON value is accepted as a counter, the result fits 64 bits; a float of
2^64 or more and a negative integer are errors. -/
theorem C09_json_no_wrap :
    (∀ j n, Json.asCounter j = some n → n ≤ U64MAX)
    ∧ (∀ m k, U64MAX < m * 2 ^ k → Json.asCounter (.num (.flt false m (.ofNat k))) = none)
    ∧ (∀ n, Json.asCounter (.num (.neg n)) = none) :=
  ⟨JsonL.asCounter_le, JsonL.asCounter_float_above, JsonL.asCounter_negative⟩

/-- Robustness (used by C14): for every JSON value tree, and when the gzip/JSON-text layer itself
fails (`none`), the model of `parse_gcov_gz` returns `Ok` or `Err`; a tree that does not decode as
a `GcovJson` is `Err(InvalidData)`. The first two parts are TRUE BY CONSTRUCTION (no program point
of `Json.toResults` produces `Out.panic`): the site-by-site reading in the header found no
reachable panic in `parse_gcov_gz`, `deserialize_counter` (`as_f64().unwrap()` sits under
`is_f64()`) or the derived visitors; the tie runs every case under `catch_unwind`. Outside the
model: `File::open(..).unwrap_or_else(panic!)`, flate2 and serde_json's text layer. -/
theorem C09_json_never_panics :
    (∀ (r : Option Json) (site : String), Json.fromReader r ≠ .panic site)
    ∧ (∀ (j : Json) (site : String), Json.toResults j ≠ .panic site)
    ∧ (∀ j : Json, Json.decDoc j = none → Json.toResults j = .err "InvalidData") :=
  ⟨JsonL.fromReader_ne_panic, JsonL.toResults_ne_panic, JsonL.toResults_err⟩

/-- Line counts (review item 2, /repo 5a9c87e): the count of a listed line is the SUM of the counts
of ALL entries of `lines` with that line number (gcov ≥ 9 writes one entry per template
instantiation / constructor variant), clamped at 2^64-1 and never wrapped; a line no entry lists
has no count. The right-hand side does not mention the reader's fold. -/
theorem C09_json_line_count (f : FileS) (l : Nat) :
    get? (semLines f) l
      = if l ∈ f.lines.map (·.lineNumber) then
          some (min ((f.lines.filter fun e => e.lineNumber = l).map (·.count.val)).sum U64MAX)
        else none :=
  JsonL.get?_semLines f l

/-- … in particular a line listed twice, executed in one instance only, is executed: entries
`(l, c₁)`, `(l, c₂)` give `min (c₁ + c₂) (2^64-1)`, in either order (before 5a9c87e: the last
entry's count, e.g. 0). -/
theorem C09_json_repeated_line_adds_up (file : Bytes) (fns : List FnS) (l : Nat) (e₁ e₂ : LineS)
    (h₁ : e₁.lineNumber = l) (h₂ : e₂.lineNumber = l) :
    get? (semLines ⟨file, fns, [e₁, e₂]⟩) l = some (min (e₁.count.val + e₂.count.val) U64MAX)
    ∧ get? (semLines ⟨file, fns, [e₂, e₁]⟩) l = some (min (e₁.count.val + e₂.count.val) U64MAX) := by
  constructor <;>
    simp [JsonL.get?_semLines, lineCount, entriesOf, h₁, h₂, Nat.add_comm]

/-- Branch outcomes (/repo 5a9c87e): a line has a vector iff some entry of it has branches; the
vector is as long as the longest `branches` array among the entries of the line, and slot `i` is
taken iff SOME entry has a positive count at position `i` (position-wise OR). -/
theorem C09_json_branch_vector (f : FileS) (l : Nat) :
    (get? (semBranches f) l
      = if l ∈ (f.lines.filter fun e => !e.branches.isEmpty).map (·.lineNumber)
        then some (lineBranches f l) else none)
    ∧ (lineBranches f l).length
        = (((f.lines.filter fun e => e.lineNumber = l)).map (·.branches.length)).foldr max 0
    ∧ ∀ i, (lineBranches f l).getD i false = true
        ↔ ∃ e ∈ f.lines, e.lineNumber = l ∧ ∃ b, e.branches[i]? = some b ∧ b.count.val > 0 :=
  ⟨JsonL.get?_semBranches f l, JsonL.lineBranches_length f l, JsonL.lineBranches_taken f l⟩

/-- Functions (/repo 5a9c87e): keyed by demangled name; a function is reported iff some entry has
that name, executed iff SOME entry with that name has a positive execution count (complete and
base-object constructors share a demangled name), and starts at the start line of the first such
entry. -/
theorem C09_json_function (f : FileS) (n : Name) :
    (get? (semFunctions f) n
      = if n ∈ f.functions.map (·.demangledName) then some ⟨fnStart f n, fnExecuted f n⟩ else none)
    ∧ (fnExecuted f n = true
        ↔ ∃ g ∈ f.functions, g.demangledName = n ∧ g.executionCount.val > 0)
    ∧ fnStart f n
        = (((f.functions.find? fun g => g.demangledName = n)).map (·.startLine)).getD 0 :=
  ⟨JsonL.get?_semFunctions f n, JsonL.fnExecuted_iff f n, JsonL.fnStart_eq f n⟩

/-- The maps of a JSON result have unique keys, every count fits 64 bits, and a file without
repeated entries reads exactly as before the fix (each line its own count). -/
theorem C09_json_maps_wellformed (f : FileS) :
    NodupKeys (semLines f) ∧ NodupKeys (semBranches f) ∧ NodupKeys (semFunctions f)
    ∧ ∀ kv ∈ semLines f, kv.2 ≤ U64MAX := by
  refine ⟨?_, ?_, ?_, ?_⟩
  · unfold NodupKeys semLines; rw [JsonL.keys_tabulate]; exact JsonL.nodup_firstKeys _
  · unfold NodupKeys semBranches; rw [JsonL.keys_tabulate]; exact JsonL.nodup_firstKeys _
  · unfold NodupKeys semFunctions; rw [JsonL.keys_tabulate]; exact JsonL.nodup_firstKeys _
  · intro kv hkv
    unfold semLines at hkv
    obtain ⟨l, _, rfl⟩ := List.mem_map.mp hkv
    exact Nat.min_le_right _ _

/-- Exactly the files that list at least one line are reported, once each, in document order. -/
theorem C09_json_reported_files (d : Doc) (h : d.WF) :
    ∃ rs, Json.toResults d.toJson = .ok rs
      ∧ rs.map (·.1) = (d.files.filter fun f => !f.lines.isEmpty).map (·.file) :=
  ⟨semJson d, JsonL.toResults_toJson d h, JsonL.semJson_names d⟩

/-- Key order does not matter: reordering the keys of the document object leaves the RESULT
unchanged (and, field by field, every struct field read from any object). Reordering inside nested
objects (files, functions, lines, branches) is covered by `C09_json_unknown_keys_irrelevant`
(`C09_json_related_objects`, third part, at that level). -/
theorem C09_json_key_order {kvs kvs' : List (Bytes × Json)} (p : kvs.Perm kvs') :
    Json.toResults (.obj kvs) = Json.toResults (.obj kvs')
    ∧ ∀ (β : Type) (k : Bytes) (dec : Json → Option β), Json.req kvs k dec = Json.req kvs' k dec :=
  ⟨JsonL.toResults_sim (.obj (JsonL.objSim_perm JsonL.docRel_refl_values p)),
   fun _ k dec => JsonL.req_perm p k dec⟩

/-- Unknown keys do not change the result, and neither does key order, at any level: if `j'` holds
the same read content as `j` (`DocRel`: level by level – document, file, function, line, branch –
the objects agree, up to the order of their keys, once the keys that level does not read are
deleted; see `C09_json_related_objects` for how that arises), then `parse_gcov_gz` returns the same
for both. In particular gcov 13's `block_ids`, gcov 14's `conditions`/`calls` and any other key
outside the read set, added to any object at any depth and in any position, are irrelevant. -/
theorem C09_json_unknown_keys_irrelevant (j j' : Json) (h : JsonL.DocRel j j') :
    Json.toResults j = Json.toResults j' :=
  JsonL.toResults_sim h

/-- How related objects arise, at every level (`S` the keys the level reads, `R` any relation on
the values that holds between a value and itself): (1) equal after deleting the unread keys;
(2) an unread key inserted at ANY position; (3) any permutation of the pairs. (`ObjRel.obj` turns
each into `BrRel`/`FnRel`/`LineRel`/`FileRel`/`DocRel`, `ArrRel.arr` lifts element-wise through
the `files`/`functions`/`lines`/`branches` arrays.) -/
theorem C09_json_related_objects (S : List Bytes) (R : Bytes → Json → Json → Prop)
    (hr : ∀ k a, R k a a) :
    (∀ kvs kvs', JsonL.strip S kvs = JsonL.strip S kvs' → JsonL.ObjSim S R kvs kvs') ∧
    (∀ pre post k v, k ∉ S → JsonL.ObjSim S R (pre ++ post) (pre ++ (k, v) :: post)) ∧
    (∀ kvs kvs', kvs.Perm kvs' → JsonL.ObjSim S R kvs kvs') :=
  ⟨fun _ _ h => JsonL.objSim_of_strip_eq hr h,
   fun pre post k v hk => JsonL.objSim_insert hr pre post k v hk,
   fun _ _ p => JsonL.objSim_perm hr p⟩

/-- A JSON counter that is exactly 2^64 (written 18446744073709551616, or 1.8446744073709552e19:
both are the f64 2^64 for serde_json) is rejected: `deserialize_counter` tests
`value < u64::MAX as f64` and `u64::MAX as f64` is 2^64 (since /repo 5cfb47a; before, it was
accepted and read as 2^64-1). -/
theorem C09_json_two_pow_64_is_rejected (m k : Nat) (h : m * 2 ^ k = U64MAX + 1) :
    Json.asCounter (.num (.flt false m (.ofNat k))) = none :=
  JsonL.asCounter_two_pow_64 m k h

/-- A float counter (exact value v = m·2^k resp. m/2^(k+1), sign `+`) is accepted iff
0 ≤ v < 2^64, and the result is v truncated toward zero: exactly v when v is integral, so no
accepted counter exceeds 2^64-1 and none is altered by saturation; a negative float other than
−0.0 is rejected. The largest f64 below 2^64, (2^53-1)·2^11 = 18446744073709549568 (written
1.844674407370955e19 or 18446744073709549568.0), is accepted as itself (example below). Which f64
a LITERAL denotes is serde_json's business (trusted layer, outside the model): its default float
reader is not correctly rounded, and the 17-digit spelling 1.8446744073709550e19 of the same
decimal is read as 2^64 – hence rejected (harness witness
`literal_1.8446744073709550e19_reads_as_2^64`). -/
theorem C09_json_float_counter_accepted_iff_below_two_pow_64 :
    (∀ m k n, Json.asCounter (.num (.flt false m (.ofNat k))) = some n
        ↔ m * 2 ^ k ≤ U64MAX ∧ n = m * 2 ^ k)
    ∧ (∀ m k n, Json.asCounter (.num (.flt false m (.negSucc k))) = some n
        ↔ m < (U64MAX + 1) * 2 ^ (k + 1) ∧ n = m / 2 ^ (k + 1))
    ∧ (∀ m e, m ≠ 0 → Json.asCounter (.num (.flt true m e)) = none) :=
  ⟨JsonL.asCounter_float_int, JsonL.asCounter_float_frac, JsonL.asCounter_float_negative⟩

/-- A fractional float counter m/2^(k+1) below 2^64 is truncated toward zero (0.5 ↦ 0, 1.5 ↦ 1): a
branch or function with count 0.5 is reported as not taken / not executed. -/
theorem C09_json_fractional_counter_truncates (m k : Nat) (h : m < (U64MAX + 1) * 2 ^ (k + 1)) :
    Json.asCounter (.num (.flt false m (.negSucc k))) = some (m / 2 ^ (k + 1)) :=
  (JsonL.asCounter_float_frac m k _).mpr ⟨h, rfl⟩

/-! ## Non-vacuity -/

/-- `version:7⏎ file:a,b.c⏎ function:3,0,f(int, char)⏎ lcount:3,-5⏎ lcount:+4,007␍⏎ branch:3,taken⏎
branch:3,notexec⏎ file:empty.c⏎ function:1,1,g⏎ file:c.c⏎ lcount:1,18446744073709551615⏎` -/
def exReport : Report :=
  { pre := [⟨.other [118, 101, 114, 115, 105, 111, 110] [55], 0⟩]
    secs :=
      [ { name := [97, 44, 98, 46, 99], crs := 0
          recs :=
            [ ⟨.function ⟨false, [51]⟩ [48] [102, 40, 105, 110, 116, 44, 32, 99, 104, 97, 114, 41], 0⟩,
              ⟨.lcount ⟨false, [51]⟩ (.neg [53]), 0⟩,
              ⟨.lcount ⟨true, [52]⟩ (.num ⟨false, [48, 48, 55]⟩), 1⟩,
              ⟨.branch ⟨false, [51]⟩ .taken, 0⟩,
              ⟨.branch ⟨false, [51]⟩ .notexec, 0⟩ ] },
        { name := [101, 109, 112, 116, 121, 46, 99], crs := 0
          recs := [⟨.function ⟨false, [49]⟩ [49] [103], 0⟩] },
        { name := [99, 46, 99], crs := 0
          recs := [⟨.lcount ⟨false, [49]⟩
            (.num ⟨false, [49, 56, 52, 52, 54, 55, 52, 52, 48, 55, 51, 55, 48, 57, 53, 53, 49, 54, 49, 53]⟩), 0⟩] } ] }

example : exReport.WF := by
  refine ⟨?_, ?_⟩
  · intro l hl
    simp only [exReport, List.mem_singleton] at hl
    subst hl
    simp [Rec.WF, isOther, noEol, Text.isEol, Text.kFile, Text.kFunction, Text.kLcount, Text.kBranch]
  · intro s hs
    simp only [exReport, List.mem_cons, List.not_mem_nil, or_false] at hs
    rcases hs with rfl | rfl | rfl <;>
      simp [FileSec.WF, Rec.WF, Dec.WF, Dec.val, valOf, valFrom, noEol, Text.isEol, Text.isDigit,
        U32MAX, U64MAX]

example : Text.parse exReport.render
    = .ok [([97, 44, 98, 46, 99],
            { lines := [(3, 0), (4, 7)], branches := [(3, [true, false])],
              functions := [([102, 40, 105, 110, 116, 44, 32, 99, 104, 97, 114, 41], ⟨3, false⟩)] }),
           ([99, 46, 99], { lines := [(1, U64MAX)], branches := [], functions := [] })] := by
  decide +kernel

/-- `file:a⏎lcount:1,18446744073709551616⏎` is rejected -/
example : Text.parse [102, 105, 108, 101, 58, 97, 10, 108, 99, 111, 117, 110, 116, 58, 49, 44, 49, 56, 52,
    52, 54, 55, 52, 52, 48, 55, 51, 55, 48, 57, 53, 53, 49, 54, 49, 54, 10] = .err "Parse" := by
  decide +kernel

/-- former robustness defect (fixed in /repo 9e71186): `lcount:1,1⏎` with no `file:` line is an
error, not a panic -/
example : Text.parse [108, 99, 111, 117, 110, 116, 58, 49, 44, 49, 10] = .err "InvalidRecord" := by
  decide +kernel

def exDoc : Doc :=
  { formatVersion := [49], gccVersion := [57], cwd := some none, dataFile := [100]
    files :=
      [ { file := [97, 46, 99]
          functions := [⟨[102], [102, 40, 105, 110, 116, 44, 32, 99, 104, 97, 114, 41], 3, 1, 9, 1, 4, 2, .flt 5 (.negSucc 0)⟩]
          lines :=
            [ ⟨3, none, .int 7, false, [⟨.int 0, false, true⟩, ⟨.flt 3 (.ofNat 0), false, false⟩]⟩,
              ⟨4, some (some [102]), .flt 9007199254740991 (.ofNat 11), true, []⟩ ] },
        { file := [98, 46, 99], functions := [], lines := [] } ] }

example : exDoc.WF := by
  intro f hf
  simp only [exDoc, List.mem_cons, List.not_mem_nil, or_false] at hf
  rcases hf with rfl | rfl <;>
    simp [FileS.WF, FnS.WF, LineS.WF, BrS.WF, Counter.WF, U32MAX, U64MAX, -Int.reduceNegSucc]

example : Json.toResults exDoc.toJson
    = .ok [([97, 46, 99],
            { lines := [(3, 7), (4, 18446744073709549568)], branches := [(3, [false, true])],
              functions := [([102, 40, 105, 110, 116, 44, 32, 99, 104, 97, 114, 41], ⟨3, true⟩)] })] := by
  decide +kernel

/-- review item 2 (`tools/review_probes2/gcov-jacoco/template_dup_lines.cpp`, gcov 12): line 3 of a
template is listed once per instantiation – `pick<long>` ran 5 times (branch counts 2, 3),
`pick<int>` never; then an entry without branches; the functions `S::S()` (complete and base object
constructor) share their demangled name, only the second ran. Before /repo 5a9c87e the result was
count 0, branches [false, false], `S::S()` not executed. -/
def dupDoc : Doc :=
  { formatVersion := [49], gccVersion := [49, 50], cwd := none, dataFile := [100]
    files :=
      [ { file := [116, 46, 99, 112, 112]
          functions :=
            [ ⟨[67, 49], [83, 58, 58, 83, 40, 41], 9, 1, 9, 8, 2, 0, .int 0⟩,
              ⟨[67, 50], [83, 58, 58, 83, 40, 41], 10, 1, 10, 8, 2, 2, .int 4⟩ ]
          lines :=
            [ ⟨3, some (some [112, 105, 99, 107, 60, 108, 111, 110, 103, 62]), .int 5, false,
                [⟨.int 2, false, true⟩, ⟨.int 3, false, false⟩]⟩,
              ⟨3, some (some [112, 105, 99, 107, 60, 105, 110, 116, 62]), .int 0, false,
                [⟨.int 0, false, true⟩, ⟨.int 0, false, false⟩, ⟨.int 1, true, false⟩]⟩,
              ⟨3, none, .int 18446744073709551615, false, []⟩,
              ⟨4, none, .int 1, false, []⟩ ] } ] }

example : dupDoc.WF := by
  intro f hf
  simp only [dupDoc, List.mem_cons, List.not_mem_nil, or_false] at hf
  subst hf
  simp [FileS.WF, FnS.WF, LineS.WF, BrS.WF, Counter.WF, U32MAX, U64MAX]

/-- the sum saturates at 2^64-1, the vector has the length of the longer array, the function keeps
the first start line and is executed -/
example : Json.toResults dupDoc.toJson
    = .ok [([116, 46, 99, 112, 112],
            { lines := [(3, U64MAX), (4, 1)], branches := [(3, [true, true, true])],
              functions := [([83, 58, 58, 83, 40, 41], ⟨9, true⟩)] })]
    ∧ semJson dupDoc = [([116, 46, 99, 112, 112],
            { lines := [(3, U64MAX), (4, 1)], branches := [(3, [true, true, true])],
              functions := [([83, 58, 58, 83, 40, 41], ⟨9, true⟩)] })] := by
  decide +kernel

/-- /repo 7f9b2b3, review item 10 (`probe3_nonutf8_gcov_name.rs`): `file:a<FF>.c⏎function:1,-5,f<C3>⏎
lcount:1,1⏎` – the ill-formed bytes FF and C3 become U+FFFD (EF BF BD) in both names, the negative
call count is executed, and the report is well-formed in the sense of `C09_text_fidelity` -/
def exLossy : Report :=
  { pre := []
    secs := [ { name := [97, 255, 46, 99], crs := 0
                recs := [⟨.function ⟨false, [49]⟩ [45, 53] [102, 195], 0⟩,
                         ⟨.lcount ⟨false, [49]⟩ (.num ⟨false, [49]⟩), 0⟩] } ] }

example : exLossy.WF := by
  refine ⟨fun l hl => by simp [exLossy] at hl, ?_⟩
  intro s hs
  simp only [exLossy, List.mem_cons, List.not_mem_nil, or_false] at hs
  subst hs
  simp [FileSec.WF, Rec.WF, Dec.WF, Dec.val, valOf, valFrom, noEol, Text.isEol, Text.isDigit,
    U32MAX, U64MAX]

example : Text.parse exLossy.render
    = .ok [([97, 239, 191, 189, 46, 99],
            { lines := [(1, 1)], functions := [([102, 239, 191, 189], ⟨1, true⟩)] })] := by
  decide +kernel

/-- the hypotheses of `C09_text_executed_iff_nonzero` on `-2534`, `0` and `7` -/
example : (∀ b ∈ [50, 53, 51, 52], Text.isDigit b = true)
    ∧ ((([50, 53, 51, 52] : Bytes) = [48] ∧ true = false) ∨ (([50, 53, 51, 52] : Bytes) ≠ [] ∧ ([50, 53, 51, 52] : Bytes).head? ≠ some 48))
    ∧ (([48] : Bytes) = [48] ∧ false = false) := by decide

/-- gcov 8: `file:a.c⏎lcount:10,1,0⏎` is `Err(Parse)`; `function:10,12,0,foo` is read as the function
`0,foo` starting at line 10, executed (the token `12` is not `0`) -/
example : Text.parse [102, 105, 108, 101, 58, 97, 46, 99, 10, 108, 99, 111, 117, 110, 116, 58, 49, 48, 44, 49,
    44, 48, 10] = .err "Parse"
  ∧ Text.parse [102, 105, 108, 101, 58, 97, 46, 99, 10, 102, 117, 110, 99, 116, 105, 111, 110, 58, 49, 48, 44,
    49, 50, 44, 48, 44, 102, 111, 111, 10, 108, 99, 111, 117, 110, 116, 58, 49, 48, 44, 49, 10]
    = .ok [([97, 46, 99], { lines := [(10, 1)], functions := [([48, 44, 102, 111, 111], ⟨10, true⟩)] })] := by
  decide +kernel

/-- 2^64 is rejected, the largest f64 below it, (2^53-1)·2^11, is accepted as itself, 0.5 is 0, 1.5
is 1, 2^65 and -1 are rejected -/
example : Json.asCounter (.num (.flt false 1 64)) = none
    ∧ Json.asCounter (.num (.flt false 9007199254740991 11)) = some 18446744073709549568
    ∧ Json.asCounter (.num (.flt false 1 (-1))) = some 0
    ∧ Json.asCounter (.num (.flt false 3 (-1))) = some 1
    ∧ Json.asCounter (.num (.flt false 1 65)) = none
    ∧ Json.asCounter (.num (.neg 1)) = none := by decide +kernel

/-- a gcov 13/14-style document: unknown keys at document, file, function, line and branch level
(`block_ids`, `conditions`, `calls`, …) and shuffled keys; the result is that of the plain document -/
def exDoc13 : Json :=
  .obj [([120], .null), (Json.kFiles, .arr [.obj [(Json.kLines, .arr [.obj [(Json.kBranches, .arr [.obj [(Json.kThrow, .bool false), ([115, 111, 117, 114, 99, 101, 95, 98, 108, 111, 99, 107, 95, 105, 100], .num (.pos 2)), (Json.kCount, .num (.pos 0)), (Json.kFallthrough, .bool true)]]), ([98, 108, 111, 99, 107, 95, 105, 100, 115], .arr [.num (.pos 1)]), (Json.kCount, .num (.pos 7)), ([99, 111, 110, 100, 105, 116, 105, 111, 110, 115], .arr []), (Json.kLineNumber, .num (.pos 3)), ([99, 97, 108, 108, 115], .arr [.obj []]), (Json.kUnexecutedBlock, .bool false)]]), (Json.kFile, .str [97, 46, 99]), ([122], .obj [(Json.kFile, .str [98])]), (Json.kFunctions, .arr [.obj [(Json.kName, .str [102]), (Json.kDemangledName, .str [102]), (Json.kStartLine, .num (.pos 3)), (Json.kStartColumn, .num (.pos 1)), (Json.kEndLine, .num (.pos 9)), (Json.kEndColumn, .num (.pos 1)), (Json.kBlocks, .num (.pos 4)), ([98, 108, 111, 99, 107, 115, 95, 120], .num (.neg 1)), (Json.kBlocksExecuted, .num (.pos 2)), (Json.kExecutionCount, .num (.pos 5))]])]]), (Json.kFormatVersion, .str [50]), (Json.kGccVersion, .str [49, 52]), (Json.kDataFile, .str [100])]

example : Json.toResults exDoc13
    = .ok [([97, 46, 99], { lines := [(3, 7)], branches := [(3, [false])], functions := [([102], ⟨3, true⟩)] })] := by
  decide +kernel

/-- the hypothesis of `C09_json_unknown_keys_irrelevant` is met by a key added in front of any
document object, and by a nested insertion (a `block_ids` key inside a line object of a file) -/
example (kvs : List (Bytes × Json)) : JsonL.DocRel (.obj kvs) (.obj (([120], .null) :: kvs)) :=
  .obj (JsonL.objSim_insert JsonL.docRel_refl_values [] kvs [120] .null (by decide))

/-- the value relation of a line object holds between a value and itself -/
private theorem lineRefl : ∀ (k : Bytes) (a : Json), (if k = Json.kBranches then JsonL.ArrRel JsonL.BrRel a a else a = a) := by
  intro k a; split
  · exact .refl a
  · rfl

/-- nested: `block_ids` appended to a line object of a file of any document -/
example (l : List (Bytes × Json)) (hdr : List (Bytes × Json)) :
    JsonL.DocRel (.obj ((Json.kFiles, .arr [.obj [(Json.kLines, .arr [.obj l])]]) :: hdr))
           (.obj ((Json.kFiles, .arr [.obj [(Json.kLines, .arr [.obj (l ++ [([98, 108, 111, 99, 107, 95, 105, 100, 115], .arr [])])])]]) :: hdr)) := by
  have hline : JsonL.LineRel (.obj l) (.obj (l ++ [([98, 108, 111, 99, 107, 95, 105, 100, 115], .arr [])])) := by
    have := JsonL.objSim_insert (S := JsonL.lineKeys) (R := fun k a b => if k = Json.kBranches then JsonL.ArrRel JsonL.BrRel a b else a = b) lineRefl l [] [98, 108, 111, 99, 107, 95, 105, 100, 115] (.arr []) (by decide)
    simp only [List.append_nil] at this
    exact .obj this
  have hfile : JsonL.FileRel (.obj [(Json.kLines, .arr [.obj l])])
      (.obj [(Json.kLines, .arr [.obj (l ++ [([98, 108, 111, 99, 107, 95, 105, 100, 115], .arr [])])])]) := by
    refine .obj ⟨[(Json.kLines, .arr [.obj (l ++ [([98, 108, 111, 99, 107, 95, 105, 100, 115], .arr [])])])], ?_, List.Perm.refl _⟩
    refine .cons ⟨rfl, ?_⟩ .nil
    have n : Json.kLines ≠ Json.kFunctions := by decide
    simp only [n, if_false, if_true]
    exact .arr (.cons hline .nil)
  refine .obj ⟨(Json.kFiles, .arr [.obj [(Json.kLines, .arr [.obj (l ++ [([98, 108, 111, 99, 107, 95, 105, 100, 115], .arr [])])])]]) :: JsonL.strip JsonL.docKeys hdr, ?_, List.Perm.refl _⟩
  refine .cons ⟨rfl, ?_⟩ (JsonL.forall2_refl JsonL.docRel_refl_values _)
  simp only [if_true]
  exact .arr (.cons hfile .nil)

/-- former robustness defect (fixed in /repo 9e71186): a document without `files`, and a failure of
the gzip/JSON-text layer, are `Err(InvalidData)`, not a panic -/
example : Json.toResults (.obj [(Json.kFormatVersion, .str [49])]) = .err "InvalidData" := rfl
example : Json.fromReader none = .err "InvalidData" := rfl

end Grcov.Props.C09
