/-
C09 — gcov report fidelity: gcov's intermediate text format (`parse_gcov`) and gcov's JSON format
(`parse_gcov_gz` + `deserialize_counter`) are read exactly.

Models: `Gcov.Text.parse : bytes → Out` and `Gcov.Json.toResults : Json → Out`
(GrcovModel/Gcov.lean). Specification: `Spec.Report`/`Spec.Doc` with `render`/`toJson` and the
denotations `semText`/`semJson` (GrcovModel/Spec/Gcov.lean). Helper lemmas:
GrcovModel/Lemmas/Gcov.lean.

Both fidelity statements are proved at full strength: for every well-formed report / document,
at byte level for the text form (every record order, every line terminator CR*LF, '+' and leading
zeros in numbers, names with commas/colons, any other `key:value` line), at value-tree level for
the JSON form (JSON text → value tree and gzip are serde_json's and flate2's, trusted).
The maps of a result are observed through `get?` (C09_*_line_count, …_branch_vector, …_function).
-/
import GrcovModel.Lemmas.Gcov
namespace Grcov.Props.C09
open Grcov AList Grcov.Gcov Grcov.Gcov.Spec

/-! ## Text form -/

/-- Fidelity, text form: for every well-formed report (any number of sections, any records in any
order, any line terminators), reading its rendering gives exactly what the report says — one entry
per section that lists a line, in file order. -/
theorem C09_text_fidelity (r : Report) (h : r.WF) : Text.parse r.render = .ok (semText r) :=
  parse_render r h

/-- Record level, all four kinds: a well-formed record followed by any `CR* LF`, read in any
state, does exactly what it says to the section being read (`applyRec`), and nothing else. -/
theorem C09_text_record (a : Text.Acc) (r : Rec) (crs : Nat) (h : r.WF) :
    Text.procLine a (r.render ++ eol crs) = .run (applyRec a r) :=
  procLine_rec a r crs h

/-- A `file:` line closes the section being read (reported iff it has a name and ≥ 1 line) and
opens the next; the name is the whole rest of the line (colons and commas included). -/
theorem C09_text_file_record (a : Text.Acc) (name : Bytes) (crs : Nat) (h : noEol name) :
    Text.procLine a (Text.kFile ++ [58] ++ name ++ eol crs) = .run (Text.onFile a name) :=
  procLine_file a name crs h

/-- A negative count (a '-' followed by anything) is read as 0. -/
theorem C09_text_negative_is_zero (a : Text.Acc) (l : Dec) (rest : Bytes) (crs : Nat)
    (h : (Rec.lcount l (.neg rest)).WF) :
    Text.procLine a ((Rec.lcount l (.neg rest)).render ++ eol crs)
      = .run (Text.onLcount a l.val 0) :=
  procLine_rec a _ crs h

/-- A count that does not fit 64 bits is rejected, never wrapped: after any well-formed prefix and
whatever follows, the whole file is `Err(Parse)`. -/
theorem C09_text_no_wrap (r : Report) (h : r.WF) (l d : Dec) (crs : Nat) (rest : Bytes)
    (hl : l.WF) (hlv : l.val ≤ U32MAX) (hd : d.WF) (hdv : U64MAX < d.val) :
    Text.parse (r.render ++ ((Rec.lcount l (.num d)).render ++ eol crs ++ rest)) = .err "Parse" :=
  parse_overflow r h l d crs rest hl hlv hd hdv

/-- … and for every byte string whatsoever: if the reader accepts it, every count it reports
fits 64 bits. -/
theorem C09_text_counts_fit (bs : Bytes) (rs : List (Bytes × Cov)) (h : Text.parse bs = .ok rs) :
    ∀ r ∈ rs, ∀ kv ∈ r.2.lines, kv.2 ≤ U64MAX :=
  parse_fits bs rs h

/-- `u32::from_str`/`u64::from_str` on a decimal as written (optional '+', leading zeros): its
value when it fits, an error otherwise. -/
theorem C09_text_number (bound : Nat) (d : Dec) (h : d.WF) :
    Text.parseUInt bound d.render = if d.val ≤ bound then some d.val else none :=
  parseUInt_render bound d h

/-- The count of a line is the count of the last `lcount` record for it in the section
(looking the line up in the section's (line, count) pairs read backwards). -/
theorem C09_text_line_count (rs : List Rec) (l : Nat) :
    get? (secLines rs) l = get? (rs.filterMap lcountOf).reverse l :=
  get?_ofList _ l

/-- The branch vector of a line is the list of its `branch` records in record order, each taken
iff its token is `taken`; a line without `branch` record has no vector. -/
theorem C09_text_branch_vector (rs : List Rec) (l : Nat) :
    get? (secBranches rs) l
      = let v := ((rs.filterMap branchOf).filter fun b => decide (b.1 = l)).map (·.2)
        if v.isEmpty then none else some v :=
  get?_groupPush _ l

/-- A function is the last `function` record with its name: start line as written, executed iff
the call-count token is not `0`. The name is everything after the second comma. -/
theorem C09_text_function (rs : List Rec) (n : Name) :
    get? (secFunctions rs) n = get? (rs.filterMap functionOf).reverse n :=
  get?_ofList _ n

/-- For a call count written canonically (digits, no leading zero) "token ≠ `0`" is "count ≠ 0". -/
theorem C09_text_executed_iff_nonzero (ds : Bytes) (hd : ∀ b ∈ ds, Text.isDigit b = true)
    (hc : ds = [48] ∨ (ds ≠ [] ∧ ds.head? ≠ some 48)) : ds ≠ [48] ↔ valOf ds ≠ 0 :=
  canonical_zero ds hd hc

/-- Exactly the sections that list at least one line are reported, once each, in file order; a
`file:` section without `lcount` is omitted. -/
theorem C09_text_reported_files (r : Report) (h : r.WF) :
    ∃ rs, Text.parse r.render = .ok rs
      ∧ rs.map (·.1) = (r.secs.filter hasLcount).map (·.name) :=
  ⟨semText r, parse_render r h, semText_names r⟩

/-- Every reported map has unique keys (a `CovResult` by construction). -/
theorem C09_text_maps_wellformed (rs : List Rec) :
    NodupKeys (secLines rs) ∧ NodupKeys (secFunctions rs) :=
  ⟨nodupKeys_ofList _, nodupKeys_ofList _⟩

/-- The reader is compositional at line ends: reading `x ++ y`, where `x` is empty or ends with
LF, continues from the state reached after `x`. -/
theorem C09_text_run_append (s : Text.St) (x y : Bytes) (h : x = [] ∨ x.getLast? = some 10) :
    Text.runBytes s (x ++ y) = Text.runBytes (Text.runBytes s x) y :=
  runBytes_append s x y h

/-- A missing newline at the very end changes nothing, for every byte string. -/
theorem C09_text_final_newline_optional (bs : Bytes) (hne : bs ≠ []) (hl : bs.getLast? ≠ some 10) :
    Text.parse (bs ++ [10]) = Text.parse bs :=
  parse_snoc_lf bs hne hl

/-- Robustness (used by C14): for every byte string the text reader returns `Ok` or `Err`; no
program point of `parse_gcov` panics (lines read without any `file:` record are
`Err(InvalidRecord)`). Outside the model: opening the file, and `from_utf8_unchecked` on non-UTF-8. -/
theorem C09_text_never_panics (bs : Bytes) (site : String) : Text.parse bs ≠ .panic site :=
  parse_ne_panic bs site

/-! ## JSON form -/

/-- Fidelity, JSON form: for every well-formed document (integer or float counters, optional keys
absent, null or present), the reader gives exactly what the document says — one entry per file
that lists a line, in file order. -/
theorem C09_json_fidelity (d : Doc) (h : d.WF) : Json.toResults d.toJson = .ok (semJson d) :=
  JsonL.toResults_toJson d h

/-- `deserialize_counter`: an integer counter is taken as it is, a float counter `0 ≤ v ≤ 2^64` is
truncated toward zero and saturates at 2^64-1. -/
theorem C09_json_counter (c : Counter) (h : c.WF) : Json.asCounter c.toJson = some c.val :=
  JsonL.asCounter_toJson c h

/-- No wrap: whatever JSON value is accepted as a counter, the result fits 64 bits; a float above
2^64 and a negative integer are errors. -/
theorem C09_json_no_wrap :
    (∀ j n, Json.asCounter j = some n → n ≤ U64MAX)
    ∧ (∀ m k, U64MAX + 1 < m * 2 ^ k → Json.asCounter (.num (.flt false m (.ofNat k))) = none)
    ∧ (∀ n, Json.asCounter (.num (.neg n)) = none) :=
  ⟨JsonL.asCounter_le, JsonL.asCounter_float_above, JsonL.asCounter_negative⟩

/-- Robustness (used by C14): for every JSON value tree, and when the gzip/JSON-text layer itself
fails (`none`), `parse_gcov_gz` returns `Ok` or `Err`, never a panic; a tree that does not decode as
a `GcovJson` is `Err(InvalidData)`. -/
theorem C09_json_never_panics :
    (∀ (r : Option Json) (site : String), Json.fromReader r ≠ .panic site)
    ∧ (∀ (j : Json) (site : String), Json.toResults j ≠ .panic site)
    ∧ (∀ j : Json, Json.decDoc j = none → Json.toResults j = .err "InvalidData") :=
  ⟨JsonL.fromReader_ne_panic, JsonL.toResults_ne_panic, JsonL.toResults_err⟩

/-- Line counts (the `lines` map of `semFile`): the count of the last entry of `lines` with that
line number. -/
theorem C09_json_line_count (f : FileS) (l : Nat) :
    get? (ofList (fileLinePairs f)) l = get? (fileLinePairs f).reverse l :=
  get?_ofList _ l

/-- Branch outcomes: the vector of the last entry with that line number that has branches, in the
order of its `branches` array, each taken iff its count is positive. -/
theorem C09_json_branch_vector (f : FileS) (l : Nat) :
    get? (ofList (fileBranchPairs f)) l = get? (fileBranchPairs f).reverse l :=
  get?_ofList _ l

/-- Functions: keyed by demangled name, start line as written, executed iff the execution count
is positive. -/
theorem C09_json_function (f : FileS) (n : Name) :
    get? (ofList (fileFunctionPairs f)) n = get? (fileFunctionPairs f).reverse n :=
  get?_ofList _ n

/-- Exactly the files that list at least one line are reported, once each, in document order. -/
theorem C09_json_reported_files (d : Doc) (h : d.WF) :
    ∃ rs, Json.toResults d.toJson = .ok rs
      ∧ rs.map (·.1) = (d.files.filter fun f => !f.lines.isEmpty).map (·.file) :=
  ⟨semJson d, JsonL.toResults_toJson d h, JsonL.semJson_names d⟩

/-- Key order inside a JSON object does not matter to a struct field. -/
theorem C09_json_key_order {β : Type} {kvs kvs' : List (Bytes × Json)} (p : kvs.Perm kvs')
    (k : Bytes) (dec : Json → Option β) : Json.req kvs k dec = Json.req kvs' k dec :=
  JsonL.req_perm p k dec

/-! ## Non-vacuity -/

/-- `version:7⏎ file:a,b.c⏎ function:3,0,f(int, char)⏎ lcount:3,-5⏎ lcount:+4,007␍⏎ branch:3,taken⏎
branch:3,notexec⏎ file:empty.c⏎ function:1,1,g⏎ file:c.c⏎ lcount:1,18446744073709551615⏎` -/
def exReport : Report :=
  { pre := [⟨.other [118, 101, 114, 115, 105, 111, 110] [55], 0⟩]
    secs :=
      [ { name := [97, 44, 98, 46, 99], crs := 0
          recs :=
            [ ⟨.function ⟨false, [51]⟩ [48] [102, 40, 105, 110, 116, 44, 32, 99, 104, 97, 114, 41], 0⟩,
              ⟨.lcount ⟨false, [51]⟩ (.neg [53]), 0⟩,
              ⟨.lcount ⟨true, [52]⟩ (.num ⟨false, [48, 48, 55]⟩), 1⟩,
              ⟨.branch ⟨false, [51]⟩ .taken, 0⟩,
              ⟨.branch ⟨false, [51]⟩ .notexec, 0⟩ ] },
        { name := [101, 109, 112, 116, 121, 46, 99], crs := 0
          recs := [⟨.function ⟨false, [49]⟩ [49] [103], 0⟩] },
        { name := [99, 46, 99], crs := 0
          recs := [⟨.lcount ⟨false, [49]⟩
            (.num ⟨false, [49, 56, 52, 52, 54, 55, 52, 52, 48, 55, 51, 55, 48, 57, 53, 53, 49, 54, 49, 53]⟩), 0⟩] } ] }

example : exReport.WF := by
  refine ⟨?_, ?_⟩
  · intro l hl
    simp only [exReport, List.mem_singleton] at hl
    subst hl
    simp [Rec.WF, isOther, noEol, Text.isEol, Text.kFile, Text.kFunction, Text.kLcount, Text.kBranch]
  · intro s hs
    simp only [exReport, List.mem_cons, List.not_mem_nil, or_false] at hs
    rcases hs with rfl | rfl | rfl <;>
      simp [FileSec.WF, Rec.WF, Dec.WF, Dec.val, valOf, valFrom, noEol, Text.isEol, Text.isDigit,
        U32MAX, U64MAX]

example : Text.parse exReport.render
    = .ok [([97, 44, 98, 46, 99],
            { lines := [(3, 0), (4, 7)], branches := [(3, [true, false])],
              functions := [([102, 40, 105, 110, 116, 44, 32, 99, 104, 97, 114, 41], ⟨3, false⟩)] }),
           ([99, 46, 99], { lines := [(1, U64MAX)], branches := [], functions := [] })] := by
  decide +kernel

/-- `file:a⏎lcount:1,18446744073709551616⏎` is rejected -/
example : Text.parse [102, 105, 108, 101, 58, 97, 10, 108, 99, 111, 117, 110, 116, 58, 49, 44, 49, 56, 52,
    52, 54, 55, 52, 52, 48, 55, 51, 55, 48, 57, 53, 53, 49, 54, 49, 54, 10] = .err "Parse" := by
  decide +kernel

/-- former robustness defect (fixed in /repo 9e71186): `lcount:1,1⏎` with no `file:` line is an
error, not a panic -/
example : Text.parse [108, 99, 111, 117, 110, 116, 58, 49, 44, 49, 10] = .err "InvalidRecord" := by
  decide +kernel

def exDoc : Doc :=
  { formatVersion := [49], gccVersion := [57], cwd := some none, dataFile := [100]
    files :=
      [ { file := [97, 46, 99]
          functions := [⟨[102], [102, 40, 105, 110, 116, 44, 32, 99, 104, 97, 114, 41], 3, 1, 9, 1, 4, 2, .flt 5 (.negSucc 0)⟩]
          lines :=
            [ ⟨3, none, .int 7, false, [⟨.int 0, false, true⟩, ⟨.flt 3 (.ofNat 0), false, false⟩]⟩,
              ⟨4, some (some [102]), .flt 1 (.ofNat 64), true, []⟩ ] },
        { file := [98, 46, 99], functions := [], lines := [] } ] }

example : exDoc.WF := by
  intro f hf
  simp only [exDoc, List.mem_cons, List.not_mem_nil, or_false] at hf
  rcases hf with rfl | rfl <;>
    simp [FileS.WF, FnS.WF, LineS.WF, BrS.WF, Counter.WF, U32MAX, U64MAX, -Int.reduceNegSucc]

example : Json.toResults exDoc.toJson
    = .ok [([97, 46, 99],
            { lines := [(3, 7), (4, U64MAX)], branches := [(3, [false, true])],
              functions := [([102, 40, 105, 110, 116, 44, 32, 99, 104, 97, 114, 41], ⟨3, true⟩)] })] := by
  decide +kernel

/-- former robustness defect (fixed in /repo 9e71186): a document without `files`, and a failure of
the gzip/JSON-text layer, are `Err(InvalidData)`, not a panic -/
example : Json.toResults (.obj [(Json.kFormatVersion, .str [49])]) = .err "InvalidData" := rfl
example : Json.fromReader none = .err "InvalidData" := rfl

end Grcov.Props.C09
