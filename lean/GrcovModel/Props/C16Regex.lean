/-
C16, part `Regex` — the six `--excl-*` options as PATTERNS of the `regex` crate.

Until this part `Regex::is_match` was a parameter of every C16 theorem (six match bits per source
line; `Cli.RunAll.Opts.isMatch`). Now
* `Regex.parse` is the crate's parser on a stated subset of its syntax (GrcovModel/Regex/Syntax.lean:
  literals, `.`, classes (ranges, negation, Perl and POSIX classes inside), Unicode `\d \s \w`, escapes
  (also hex), groups, alternation, all repetition forms,
  every assertion (`^ $ \A \z \b \B \< \>` and the `\b{…}` forms); every error kind the crate answers inside the subset; `unsupported` – no claim –
  outside it, never a silent difference), `Regex.Matches` is THE SPECIFICATION of `is_match`
  (GrcovModel/Regex/Match.lean: a plain denotation, nothing operational), `Regex.isMatch` an
  executable matcher, `FileFilter.createPat` is `FileFilter::new(r1…r6).create(path)` from the six
  command-line values and the bytes of the file;
* the theorems below say: the matcher decides the specification for ALL patterns and lines; the
  specification obeys the textbook laws; literal markers (plain or `regex::escape`d, optionally
  between `^` and `$`) parse to what they look like and mean "the line contains / starts with / ends
  with / is the text"; C16's exclusion rule restated with patterns instead of bits (line data and
  branch data, all six options, any subset); the conventional `LCOV_EXCL_*` configuration as an
  instance; a value that does not compile (or is not UTF-8) ends the run with status 2 before
  anything is read; inside a whole run (`Cli.RunAll`) the filter list of every file is the one of
  the compiled patterns on its text.
The haystack is ONE source line: a piece of `file.strip_suffix('\n').split('\n')` without one
trailing `\r` (`srcLine`), so `$` sees the end of a CRLF line's text, a `\r` elsewhere is an ordinary
char (`.` matches it), and `\n` never occurs in it.
Helper lemmas: Lemmas/RegexMatch.lean, RegexParse.lean, RegexLit.lean, RegexUtf8.lean,
RegexTotal.lean (no fuel), FileFilterRegex.lean, FileFilterRegexRun.lean, FileFilterRegexLit.lean.
Tie: harness/c16/src/regexsyn.rs (ops `c16.rx.*` of gm_c16): parse outcome and `FileFilter::create`
against the real crate on generated patterns / lines, the Unicode tables on every scalar value, the
real binary with pattern options.
-/
import GrcovModel.Lemmas.FileFilterRegexLit
import GrcovModel.Lemmas.RegexTotal
namespace Grcov.Props.C16
open Grcov Grcov.FileFilter Grcov.Regex

/-! ### the matcher and the specification -/

/-- **The executable matcher decides the specification**, for every pattern tree (also ones the
parser never produces) and every haystack: `isMatch` answers true iff some `i ≤ j` exist such that
the pattern matches the haystack from position `i` to position `j`. -/
theorem C16_regex_matcher_decides (a : Ast) (h : Chars) : isMatch a h = true ↔ Matches a h :=
  isMatch_iff a h

/-- `(a|aa)*$` on `aaab`: the empty match at the end; `^(a|aa)*$` does not match -/
example : isMatch (.cat (.rep 0 none (.group (.alt (.lit 97) (.cat (.lit 97) (.lit 97))))) (.look .endText))
      [97, 97, 97, 98] = true ∧
    isMatch (.cat (.look .startText) (.cat (.rep 0 none (.group (.alt (.lit 97) (.cat (.lit 97) (.lit 97)))))
      (.look .endText))) [97, 97, 97, 98] = false := by decide

/-- The specification is the textbook one: a group is transparent, alternation is "either",
concatenation a split point, `e?` "nothing or `e`", `e*` "nothing, or `e` then `e*`", `e+` "`e` then
`e*`", `e{n}` exactly `n` consecutive matches; `^`/`\A` hold at position 0 only and `$`/`\z` at the end
of the line only (no multi-line mode). -/
theorem C16_regex_denotation_laws (h : Chars) (a b : Ast) (i j : Nat) :
    (M h (.group a) i j ↔ M h a i j) ∧
    (M h (.alt a b) i j ↔ M h a i j ∨ M h b i j) ∧
    (M h (.cat a b) i j ↔ ∃ k, M h a i k ∧ M h b k j) ∧
    (M h (.rep 0 (some 1) a) i j ↔ j = i ∨ M h a i j) ∧
    (M h (.rep 0 none a) i j ↔ j = i ∨ ∃ k, M h a i k ∧ M h (.rep 0 none a) k j) ∧
    (M h (.rep 1 none a) i j ↔ ∃ k, M h a i k ∧ M h (.rep 0 none a) k j) ∧
    (∀ n, M h (.rep n (some n) a) i j ↔ Iter (M h a) n i j) ∧
    (M h (.look .startText) i j ↔ i = 0 ∧ j = i) ∧
    (M h (.look .endText) i j ↔ i = h.length ∧ j = i) :=
  ⟨Iff.rfl, Iff.rfl, Iff.rfl, M_opt h a i j, M_star h a i j, M_plus h a i j, fun n => M_exact h a n i j,
   by simp [M, lookHolds], by simp [M, lookHolds]⟩

/-- The six word assertions, by what they ask of the chars around the position (`wordBefore` /
`wordAt`: the char before / at the position is a `\w` char; outside the line: no): `\b` they differ,
`\B` they agree, `\<` = `\b{start}` a word begins, `\>` = `\b{end}` a word ends, `\b{start-half}` no word
char before, `\b{end-half}` no word char after. -/
theorem C16_regex_word_assertions (h : Chars) (i j : Nat) :
    (M h (.look .wordB) i j ↔ wordBefore h i ≠ wordAt h i ∧ j = i) ∧
    (M h (.look .notWordB) i j ↔ wordBefore h i = wordAt h i ∧ j = i) ∧
    (M h (.look .wordStart) i j ↔ (wordBefore h i = false ∧ wordAt h i = true) ∧ j = i) ∧
    (M h (.look .wordEnd) i j ↔ (wordBefore h i = true ∧ wordAt h i = false) ∧ j = i) ∧
    (M h (.look .wordStartHalf) i j ↔ wordBefore h i = false ∧ j = i) ∧
    (M h (.look .wordEndHalf) i j ↔ wordAt h i = false ∧ j = i) := by
  simp [M, lookHolds]

/-- `\bfin\b` on `// fin`, `// final`, `éfin` (é is a word char: no boundary before `f`) -/
example : (parse [92, 98, 102, 105, 110, 92, 98]).toOption.map
      (fun a => (isMatch a [47, 47, 32, 102, 105, 110], isMatch a [47, 47, 32, 102, 105, 110, 97, 108],
        isMatch a [233, 102, 105, 110])) = some (true, false, false) := by decide +kernel

/-- Lazy and greedy operators, capturing and non-capturing groups, `{n}` and `{n,n}`, `^` and `\A`,
`$` and `\z`, a char and its hex escapes are the same pattern for `is_match`: they parse to the same tree. -/
example :
    parse [97, 42, 63] = parse [97, 42] ∧                                   -- a*?  a*
    parse [40, 63, 58, 97, 41, 43] = parse [40, 97, 41, 43] ∧               -- (?:a)+  (a)+
    parse [97, 123, 50, 125] = parse [97, 123, 50, 44, 50, 125] ∧           -- a{2}  a{2,2}
    parse [97, 123, 32, 50, 32, 44, 32, 51, 32, 125, 63] = parse [97, 123, 50, 44, 51, 125] ∧  -- a{ 2 , 3 }?
    parse [94, 97, 36] = parse [92, 65, 97, 92, 122] ∧                      -- ^a$  \Aa\z
    parse [92, 120, 52, 49, 92, 117, 48, 48, 101, 57, 92, 85, 48, 48, 48, 49, 70, 54, 48, 48, 92, 120, 123, 52, 49, 125]
      = parse [65, 233, 128512, 65] ∧
    parse [92, 98, 123, 115, 116, 97, 114, 116, 125, 97, 92, 98, 123, 101, 110, 100, 125] = parse [92, 60, 97, 92, 62] := by
  decide                                                                   -- \b{start}a\b{end}  \<a\>

/-- classes: `[^\W\d_]` on `é` / `7` / `_`; `[[:^space:]x-]` (POSIX class, trailing `-`); `[]a]` (leading `]`) -/
example :
    (parse [91, 94, 92, 87, 92, 100, 95, 93]).toOption.map (fun a => (isMatch a [233], isMatch a [55], isMatch a [95]))
      = some (true, false, false) ∧
    (parse [91, 91, 58, 94, 115, 112, 97, 99, 101, 58, 93, 120, 45, 93]).toOption.map
      (fun a => (isMatch a [32], isMatch a [45], isMatch a [233])) = some (false, true, true) ∧
    parse [91, 93, 97, 93] = .ok (.cls false [.range 93 93, .range 97 97]) := by decide +kernel
                           -- \x41\u00e9\U0001F600\x{41}  Aé😀A

/-! ### the parser -/

/-- **The parser always answers**: for every pattern text `Regex.parse` gives a tree, one of the
twenty-one error kinds of the crate that can occur inside the subset, or `unsupported` – the loop
counters of the model (`fuel`) never run out. -/
theorem C16_regex_parse_total (p : Chars) : parse p ≠ .error .fuel :=
  parse_ne_fuel p

/-- one pattern for each error kind, three patterns outside the subset (`(?i)a`, `\pL`, `\w{40}` –
valid, but its compiled size is not vouched for), and a pattern 251 groups deep -/
example :
    parse [40, 97] = .error .groupUnclosed ∧ parse [97, 41] = .error .groupUnopened ∧
    parse [40, 63, 61, 97, 41] = .error .unsupportedLookAround ∧
    parse [91, 97] = .error .classUnclosed ∧ parse [91, 92, 65, 93] = .error .classEscapeInvalid ∧
    parse [91, 122, 45, 97, 93] = .error .classRangeInvalid ∧
    parse [91, 97, 45, 92, 100, 93] = .error .classRangeLiteral ∧
    parse [42, 97] = .error .repetitionMissing ∧ parse [97, 123, 50] = .error .repetitionCountUnclosed ∧
    parse [97, 123, 51, 44, 50, 125] = .error .repetitionCountInvalid ∧
    parse [97, 123, 44, 51, 125] = .error .repetitionCountDecimalEmpty ∧
    parse [97, 123, 52, 50, 57, 52, 57, 54, 55, 50, 57, 54, 125] = .error .decimalInvalid ∧
    parse [97, 92] = .error .escapeUnexpectedEof ∧ parse [92, 101] = .error .escapeUnrecognized ∧
    parse [92, 49] = .error .unsupportedBackreference ∧
    parse [92, 98, 123] = .error .specialWordOrRepUnexpectedEof ∧
    parse [92, 120, 123, 125] = .error .escapeHexEmpty ∧ parse [92, 117, 68, 56, 48, 48] = .error .escapeHexInvalid ∧
    parse [92, 120, 52, 103] = .error .escapeHexInvalidDigit ∧
    parse [92, 98, 123, 101, 110, 100] = .error .specialWordBoundaryUnclosed ∧
    parse [92, 98, 123, 102, 111, 111, 125] = .error .specialWordBoundaryUnrecognized ∧
    parse [40, 63, 105, 41, 97] = .error .unsupported ∧ parse [92, 112, 76] = .error .unsupported ∧
    parse [92, 119, 123, 52, 48, 125] = .error .unsupported ∧
    parse (List.replicate 251 40 ++ [97] ++ List.replicate 251 41) = .error .nestLimitExceeded := by
  decide +kernel

/-- **Literal markers parse to what they look like.** Any text (of at most 19000 chars) with its
meta characters escaped (`regex::escape`: `escape`), optionally after `^` and before `$`, is accepted
by `Regex::new` – nest limit and size limit included – and is the chain of its literal chars between
the two assertions. -/
theorem C16_regex_literal_parses (pre post : Bool) (cs : Chars) (hlen : cs.length ≤ 19000) :
    parse (anchoredText pre post cs) = .ok (anchoredAst pre post cs) :=
  parse_anchored pre post cs hlen

/-- … and a text without meta characters needs no escaping: it is its own pattern. -/
theorem C16_regex_plain_text_parses (cs : Chars) (hp : ∀ c ∈ cs, isMeta c = false)
    (hlen : cs.length ≤ 19000) :
    parse cs = .ok (anchoredAst false false cs) := by
  have := parse_anchored false false cs hlen
  simpa [anchoredText, escape_plain cs hp] using this

/-- **… however the literal is typed**: every char written verbatim (allowed for every char but
`( ) | [ ? * + { \ . ^ $`) or after a backslash (allowed for every meta character and all other
ASCII punctuation, as the crate's `is_escapeable_character` says), optionally between `^` and `$`:
`#\[derive\(`, `//\ NOCOV`, `a\-b` are the chains of literals they look like. -/
theorem C16_regex_spelled_literal_parses (pre post : Bool) (l : List (Nat × Bool))
    (hok : ∀ p ∈ l, SpellOk p = true) (hlen : l.length ≤ 19000) :
    parse (spelledText pre post l) = .ok (anchoredAst pre post (l.map (·.1))) :=
  parse_spelled pre post l hok hlen

/-- `#\[derive\(` -/
example : spelledText false false [(35, false), (91, true), (100, false), (40, true)] = [35, 92, 91, 100, 92, 40] ∧
    (∀ p ∈ [(35, false), (91, true), (100, false), (40, true)], SpellOk p = true) := by decide

/-- `LCOV_EXCL_LINE` has no meta character; `^// [skip]$` is `^` + escape("// [skip]") + `$` -/
example : (∀ c ∈ [76, 67, 79, 86, 95, 69, 88, 67, 76, 95, 76, 73, 78, 69], isMeta c = false) ∧
    anchoredText true true [47, 47, 32, 91, 115, 107, 105, 112, 93]
      = [94, 47, 47, 32, 92, 91, 115, 107, 105, 112, 92, 93, 36] := by decide

/-- **What literal markers mean**: the unanchored text matches a line iff it OCCURS in the line;
after `^` iff the line BEGINS with it; before `$` iff the line ENDS with it; between both iff the line
IS the text. -/
theorem C16_regex_literal_matches (cs h : Chars) :
    (Matches (anchoredAst false false cs) h ↔ cs <:+: h) ∧
    (Matches (anchoredAst true false cs) h ↔ cs <+: h) ∧
    (Matches (anchoredAst false true cs) h ↔ cs <:+ h) ∧
    (Matches (anchoredAst true true cs) h ↔ h = cs) :=
  ⟨matches_literal cs h, matches_prefix cs h, matches_suffix cs h, matches_whole cs h⟩

example : isMatch (anchoredAst false false [98, 99]) [97, 98, 99, 100] = true ∧
    isMatch (anchoredAst true false [98, 99]) [97, 98, 99, 100] = false ∧
    isMatch (anchoredAst false true [99, 100]) [97, 98, 99, 100] = true ∧
    isMatch (anchoredAst true true [97, 98]) [97, 98] = true := by decide

/-- UTF-8: decoding the bytes of a text gives the text back (the patterns and the lines of the
theorems below are given as chars; the command line and the file hold their UTF-8 bytes). -/
theorem C16_regex_utf8_roundtrip (cs : Chars) (h : ∀ c ∈ cs, isScalar c = true) :
    decode (encAll cs) = some cs :=
  decode_encAll cs h

example : decode (encAll [100, 233, 98, 117, 116, 8704, 66376]) = some [100, 233, 98, 117, 116, 8704, 66376] ∧
    decode [237, 160, 128] = none ∧ decode [192, 175] = none ∧ decode [97, 195] = none := by decide

/-! ### the exclusion rule, with patterns -/

/-- **Line data, six compiled patterns.** For every set of compiled options (any subset of the six)
and every source text: the line count of `n` is removed iff `n` is a line of the text and the
`--excl-line` pattern matches line `n`, or `n` lies in a region that begins at a line the
`--excl-start` pattern matches (inclusive) and has not been ended by a later line, up to `n`, that the
`--excl-stop` pattern matches – "matches" being the specification `Regex.Matches` on the chars of the
line as `create` passes it (`srcLine`: final newline dropped, one trailing CR removed). -/
theorem C16_regex_lines (c : Compiled6) (src : List Nat) (n : Nat)
    (hlen : (splitSrc src).length ≤ U32MAX) :
    removesLine (createSrc c.toOpts c.rx (some src)) n ↔
      1 ≤ n ∧ n ≤ (splitSrc src).length ∧
      (LineMatches c.line src n ∨ inRegion (LineMatches c.start src) (LineMatches c.stop src) n) :=
  removesLine_compiled c src n hlen

/-- **Branch data**: the same rule with the three `--excl-br-*` patterns; the two dimensions do not
look at each other's patterns. -/
theorem C16_regex_branches (c : Compiled6) (src : List Nat) (n : Nat)
    (hlen : (splitSrc src).length ≤ U32MAX) :
    removesBranch (createSrc c.toOpts c.rx (some src)) n ↔
      1 ≤ n ∧ n ≤ (splitSrc src).length ∧
      (LineMatches c.brLine src n ∨ inRegion (LineMatches c.brStart src) (LineMatches c.brStop src) n) :=
  removesBranch_compiled c src n hlen

/-- The two dimensions are independent, pattern-wise: two configurations with the same three line
patterns remove the same line data from every source, whatever their branch patterns (and
symmetrically). -/
theorem C16_regex_independent (c c' : Compiled6) (src : List Nat) (n : Nat)
    (hlen : (splitSrc src).length ≤ U32MAX) :
    (c.line = c'.line → c.start = c'.start → c.stop = c'.stop →
      (removesLine (createSrc c.toOpts c.rx (some src)) n ↔
        removesLine (createSrc c'.toOpts c'.rx (some src)) n)) ∧
    (c.brLine = c'.brLine → c.brStart = c'.brStart → c.brStop = c'.brStop →
      (removesBranch (createSrc c.toOpts c.rx (some src)) n ↔
        removesBranch (createSrc c'.toOpts c'.rx (some src)) n)) := by
  constructor
  · intro h1 h2 h3
    rw [removesLine_compiled c src n hlen, removesLine_compiled c' src n hlen, h1, h2, h3]
  · intro h1 h2 h3
    rw [removesBranch_compiled c src n hlen, removesBranch_compiled c' src n hlen, h1, h2, h3]

/-- Nothing is excluded when none of `--excl-line`, `--excl-start`, `--excl-br-line`,
`--excl-br-start` is given (stop patterns alone exclude nothing), when the file cannot be read, or
when its bytes are not UTF-8 (`read_to_string` fails) – whatever the patterns. -/
theorem C16_regex_nothing_excluded (a : MainGlue.FileFilterArgs) (c : Compiled6)
    (hc : compileArgs a = .ok c) (file : Option (List Nat))
    (h : (a.exclLine = none ∧ a.exclStart = none ∧ a.exclBrLine = none ∧ a.exclBrStart = none) ∨
      file = none ∨ ∃ b, file = some b ∧ decode b = none) :
    createPat a file = .ok [] := by
  simp only [createPat, hc]
  rcases h with ⟨h1, h2, h3, h4⟩ | rfl | ⟨b, rfl, hb⟩
  · have ht := compileArgs_toOpts hc
    have hi : c.toOpts.inert = true := by
      rw [ht]; simp [MainGlue.FileFilterArgs.toOpts, Opts.inert, h1, h2, h3, h4]
    cases hf : file.bind readToString with
    | none => simp only [createSrc, create_unreadable]
    | some s => simp only [createSrc]; rw [create_inert _ hi]
  · simp only [Option.bind_none, createSrc, create_unreadable]
  · simp [readToString, hb, createSrc, create_unreadable]

/-- `--excl-stop X --excl-br-stop Y` alone; a file that is not UTF-8 -/
example : createPat ⟨none, none, some [120], none, none, some [121]⟩ (some [120, 10, 121, 10]) = .ok [] ∧
    createPat ⟨some [120], none, none, none, none, none⟩ (some [120, 10, 255, 10]) = .ok [] ∧
    createPat ⟨some [120], none, none, none, none, none⟩ (some [120, 10, 121, 10]) = .ok [.line 1] := by
  decide +kernel

/-- **From the command line to the filter list.** `FileFilter::new(…).create(path)` on the six
command-line values: when every given value is UTF-8 and compiles, the filter list is `createSrc`
with the compiled patterns on the text `read_to_string` returns (nothing when the bytes are not
UTF-8); otherwise there is no filter list at all – clap has refused the command line. -/
theorem C16_regex_create (a : MainGlue.FileFilterArgs) (file : Option (List Nat)) :
    (∀ c, compileArgs a = .ok c →
      createPat a file = .ok (createSrc c.toOpts c.rx (file.bind readToString)) ∧
      c.toOpts = a.toOpts ∧ cliExit a = none) ∧
    (∀ e, compileArgs a = .error e → createPat a file = .error e ∧ cliExit a = some 2) := by
  refine ⟨fun c h => ⟨by simp [createPat, h], compileArgs_toOpts h, by simp [cliExit, h]⟩,
    fun e h => ⟨by simp [createPat, h], by simp [cliExit, h]⟩⟩

/-- **A value that does not compile is a usage error**: `grcov … --excl-line 'a('` (and the same for
the other five options, for a value that is not UTF-8, and for every error kind) ends with exit
status 2 – clap's `Regex::from_str` value parser – whatever the other options and inputs. -/
theorem C16_regex_invalid_value_exit (a : MainGlue.FileFilterArgs) :
    cliExit a = some 2 ↔
      ∃ v, (a.exclLine = some v ∨ a.exclStart = some v ∨ a.exclStop = some v ∨ a.exclBrLine = some v ∨
            a.exclBrStart = some v ∨ a.exclBrStop = some v) ∧ ∀ t, compile v ≠ .ok t :=
  cliExit_iff a

example : cliExit ⟨some [97, 40], none, none, none, none, none⟩ = some 2 ∧           -- --excl-line 'a('
    cliExit ⟨none, none, none, none, some [91, 122, 45, 97, 93], none⟩ = some 2 ∧     -- --excl-br-start '[z-a]'
    cliExit ⟨none, some [97, 255], none, none, none, none⟩ = some 2 ∧                 -- not UTF-8
    cliExit ⟨some [94, 92, 115, 42, 47, 47, 60, 60], some [], none, none, none, none⟩ = none := by  -- '^\s*//<<', ''
  decide +kernel

/-! ### literal markers -/

/-- **Six literal markers.** With each configured option given a literal text (any scalar values, at
most 19000; typed on the command line with its meta characters escaped: `litArgs`) and a file that is
UTF-8, the command line is accepted and the line count of `n` is removed iff `n` is a line of the file
that CONTAINS the `--excl-line` text, or lies in a region from a line containing the `--excl-start`
text (inclusive) to the next later line containing the `--excl-stop` text (exclusive); the same for
branch data with the three `--excl-br-*` texts. -/
theorem C16_regex_literal_markers (l s p bl bs bp : Option Chars) (hl : OkText l) (hs : OkText s)
    (hp : OkText p) (hbl : OkText bl) (hbs : OkText bs) (hbp : OkText bp) (file : List Nat)
    (hutf : (decode file).isSome = true) (hlen : (splitSrc file).length ≤ U32MAX) :
    ∃ fs, createPat (litArgs l s p bl bs bp) (some file) = .ok fs ∧
      (∀ n, removesLine fs n ↔ 1 ≤ n ∧ n ≤ (splitSrc file).length ∧
        (OptContains l file n ∨ inRegion (OptContains s file) (OptContains p file) n)) ∧
      (∀ n, removesBranch fs n ↔ 1 ≤ n ∧ n ≤ (splitSrc file).length ∧
        (OptContains bl file n ∨ inRegion (OptContains bs file) (OptContains bp file) n)) := by
  have hc := compileArgs_litArgs l s p bl bs bp hl hs hp hbl hbs hbp
  refine ⟨_, by simp only [createPat, hc, readToString, hutf, if_true, Option.bind_some]; rfl,
    fun n => ?_, fun n => ?_⟩
  · rw [removesLine_compiled _ file n hlen]
    simp only [LineMatches_literal]
    exact and_congr Iff.rfl (and_congr Iff.rfl (or_congr Iff.rfl
      (inRegion_congr (fun k => LineMatches_literal s file k) (fun k => LineMatches_literal p file k) n)))
  · rw [removesBranch_compiled _ file n hlen]
    simp only [LineMatches_literal]
    exact and_congr Iff.rfl (and_congr Iff.rfl (or_congr Iff.rfl
      (inRegion_congr (fun k => LineMatches_literal bs file k) (fun k => LineMatches_literal bp file k) n)))

namespace RxWit
/-- `a(); // LCOV_EXCL_LINE` CRLF `b();` LF `// LCOV_EXCL_START` LF `c();` LF `// LCOV_EXCL_STOP` LF
`if (d) // LCOV_EXCL_BR_LINE` LF `// LCOV_EXCL_BR_START é` LF `if (e)` LF -/
def file : List Nat :=
  [97, 40, 41, 59, 32, 47, 47, 32, 76, 67, 79, 86, 95, 69, 88, 67, 76, 95, 76, 73, 78, 69, 13, 10,
   98, 40, 41, 59, 10,
   47, 47, 32, 76, 67, 79, 86, 95, 69, 88, 67, 76, 95, 83, 84, 65, 82, 84, 10,
   99, 40, 41, 59, 10,
   47, 47, 32, 76, 67, 79, 86, 95, 69, 88, 67, 76, 95, 83, 84, 79, 80, 10,
   105, 102, 32, 40, 100, 41, 32, 47, 47, 32, 76, 67, 79, 86, 95, 69, 88, 67, 76, 95, 66, 82, 95, 76, 73, 78, 69, 10,
   47, 47, 32, 76, 67, 79, 86, 95, 69, 88, 67, 76, 95, 66, 82, 95, 83, 84, 65, 82, 84, 32, 195, 169, 10,
   105, 102, 32, 40, 101, 41, 10]
end RxWit

/-- The conventional configuration as an instance: the six `LCOV_EXCL_*` values are accepted, and on
the eight-line file above line 1 (marker, CRLF line), lines 3-4 (region; the stop line 5 is outside)
lose their line data, lines 6 (branch marker) and 7-8 (branch region left open) their branch data.
`LCOV_EXCL_LINE` is a substring of nothing else here, but note that as PATTERNS `LCOV_EXCL_BR_LINE`
does not contain `LCOV_EXCL_LINE`, while `LCOV_EXCL_START` occurs in no `…_BR_START` line either. -/
example : cliExit lcovArgs = none ∧ (decode RxWit.file).isSome = true ∧
    createPat lcovArgs (some RxWit.file) = .ok [.line 1, .line 3, .line 4, .branch 6, .branch 7, .branch 8] := by
  decide +kernel

/-- the hypotheses of `C16_regex_literal_markers` hold for that configuration -/
example : OkText (some [76, 67, 79, 86, 95, 69, 88, 67, 76, 95, 76, 73, 78, 69]) ∧ OkText none :=
  ⟨fun cs h => by cases h; exact ⟨by decide, by decide⟩, fun _ h => by cases h⟩

/-- **Conservative over the substring model.** For ASCII literal markers (the conventional
`LCOV_EXCL_*`, `NOCOV`, … ) and every UTF-8 file – whatever non-ASCII text its lines hold – the filter
list of the compiled patterns IS the filter list of the byte-wise substring search `Rx.ofLiterals`
(`hasSub`): the model behind the `ffsrc` tie, and the `isMatch := hasSub` instance with which the
whole-run ties of C02 / C03 / C05 / C16 drive `Cli.RunAll.run` byte for byte against the real binary. -/
theorem C16_regex_conservative_literals (l s p bl bs bp : Option Chars) (hl : OkText l) (hs : OkText s)
    (hp : OkText p) (hbl : OkText bl) (hbs : OkText bs) (hbp : OkText bp)
    (al : AsciiText l) (as : AsciiText s) (ap : AsciiText p) (abl : AsciiText bl) (abs : AsciiText bs)
    (abp : AsciiText bp) (file : List Nat) (hutf : (decode file).isSome = true) :
    createPat (litArgs l s p bl bs bp) (some file) =
      .ok (createSrc ⟨l.isSome, s.isSome, p.isSome, bl.isSome, bs.isSome, bp.isSome⟩
        (Rx.ofLiterals (l.getD []) (s.getD []) (p.getD []) (bl.getD []) (bs.getD []) (bp.getD []))
        (some file)) := by
  have hc := compileArgs_litArgs l s p bl bs bp hl hs hp hbl hbs hbp
  have := createSrc_literals_ascii l s p bl bs bp al as ap abl abs abp file hutf
  simp only [createPat, hc, readToString, hutf, if_true, Option.bind_some]
  exact congrArg Except.ok this

/-- `--excl-line NOCOV --excl-start BEGINX` on `é // NOCOV` CRLF `名 BEGINX` LF `x` LF: both models give
`L1,L2,L3` -/
example :
    createPat (litArgs (some [78, 79, 67, 79, 86]) (some [66, 69, 71, 73, 78, 88]) none none none none)
      (some [195, 169, 32, 47, 47, 32, 78, 79, 67, 79, 86, 13, 10, 229, 144, 141, 32, 66, 69, 71, 73, 78, 88, 10, 120, 10])
      = .ok [.line 1, .line 2, .line 3] ∧
    createSrc ⟨true, true, false, false, false, false⟩ (Rx.ofLiterals [78, 79, 67, 79, 86] [66, 69, 71, 73, 78, 88] [] [] [] [])
      (some [195, 169, 32, 47, 47, 32, 78, 79, 67, 79, 86, 13, 10, 229, 144, 141, 32, 66, 69, 71, 73, 78, 88, 10, 120, 10])
      = [.line 1, .line 2, .line 3] := by decide +kernel

/-- **A whole-line marker**: `--excl-line '^TEXT$'` alone (TEXT escaped) removes the line count of
exactly the lines that ARE the text – after the CR of a CRLF ending was removed – and no branch data. -/
theorem C16_regex_whole_line_marker (t : Chars) (hs : ∀ c ∈ t, isScalar c = true) (ht : t.length ≤ 19000)
    (file : List Nat) (hutf : (decode file).isSome = true) (hlen : (splitSrc file).length ≤ U32MAX) :
    ∃ fs, createPat ⟨some (encAll (anchoredText true true t)), none, none, none, none, none⟩ (some file) = .ok fs ∧
      (∀ n, removesLine fs n ↔ LineIs t file n) ∧ (∀ n, ¬ removesBranch fs n) := by
  have hc : compileArgs ⟨some (encAll (anchoredText true true t)), none, none, none, none, none⟩
      = .ok ⟨some (anchoredAst true true t), none, none, none, none, none⟩ := by
    simp [compileArgs, compileOpt, compile_anchored true true t hs ht]
  refine ⟨_, by simp only [createPat, hc, readToString, hutf, if_true, Option.bind_some]; rfl,
    fun n => ?_, fun n => ?_⟩
  · rw [removesLine_compiled _ file n hlen, LineMatches_whole]
    constructor
    · rintro ⟨_, _, h | h⟩
      · exact h
      · exact absurd h (not_inRegion_of_no_start (fun k => not_LineMatches_none file k) n)
    · rintro ⟨l, hl, hd⟩
      exact ⟨(srcLine_range hl).1, (srcLine_range hl).2, Or.inl ⟨l, hl, hd⟩⟩
  · rw [removesBranch_compiled _ file n hlen]
    rintro ⟨_, _, h | h⟩
    · exact not_LineMatches_none file n h
    · exact not_inRegion_of_no_start (fun k => not_LineMatches_none file k) n h

/-- `^//$` on `//` CRLF `// x` LF `//`: lines 1 (the CR is gone before `$` looks) and 3 -/
example : createPat ⟨some (encAll (anchoredText true true [47, 47])), none, none, none, none, none⟩
      (some [47, 47, 13, 10, 47, 47, 32, 120, 10, 47, 47]) = .ok [.line 1, .line 3] := by
  decide +kernel

/-- The haystack is one line without its terminator: the pieces of the text after ONE final line
feed was dropped, each without ONE trailing carriage return. -/
theorem C16_regex_haystack (body : List Nat) (hb : ∀ b ∈ body, b ≠ 10) (rest : List Nat) :
    srcLine (body ++ 10 :: rest) 1 = some (stripCR body) ∧
    srcLine (body ++ 13 :: 10 :: rest) 1 = some body ∧
    srcLine body 1 = some (stripCR body) ∧ srcLine (body ++ [10]) 1 = some (stripCR body) :=
  srcLine_first body hb rest

/-- **Every line of a UTF-8 file is UTF-8**: when `read_to_string` succeeds, each haystack decodes
(a line feed or carriage return byte is never part of a multi-byte char), so the "not UTF-8 ⇒ no
match" fall-back of `lineMatch` is never taken and `LineMatches` quantifies over a line that has chars. -/
theorem C16_regex_lines_are_utf8 (src : List Nat) (hs : (decode src).isSome = true) (n : Nat)
    (l : List Nat) (hl : srcLine src n = some l) : ∃ cs, decode l = some cs :=
  Option.isSome_iff_exists.1 (srcLine_decodes src hs n l hl)

/-- `é` CRLF `名x` LF: two lines, both decode -/
example : (decode [195, 169, 13, 10, 229, 144, 141, 120, 10]).isSome = true ∧
    srcLine [195, 169, 13, 10, 229, 144, 141, 120, 10] 1 = some [195, 169] ∧
    srcLine [195, 169, 13, 10, 229, 144, 141, 120, 10] 2 = some [229, 144, 141, 120] ∧
    decode [229, 144, 141, 120] = some [21517, 120] := by decide

/-! ### inside a whole run -/

/-- **The markers of a whole run are patterns.** In `Cli.RunAll.run` with `isMatch := isMatchText`
(the regex model on bytes) and six option values that compile: for the record of a file whose text
`src` can be read, line `n` loses its count iff `n` is a line of the text and the pattern rule above
holds – `--excl-line` pattern on the line, or a region from a `--excl-start` line to the next later
`--excl-stop` line; branch data by the branch patterns. (With `C16_run_is_marker_free_run_excluded`
and `C02_run_decodes_*`: a statement about the decoded report of every type.) -/
theorem C16_regex_run_record (o : Cli.RunAll.Opts) (w : Cli.RunAll.World) (c : Compiled6)
    (hm : o.isMatch = isMatchText) (hc : compileArgs o.excl = .ok c) (abs src : List Nat)
    (h : w.text abs = some src) (hlen : (splitSrc src).length ≤ U32MAX) (n : Nat) :
    (removesLine (Cli.RunAll.filterList o w abs) n ↔
      1 ≤ n ∧ n ≤ (splitSrc src).length ∧
      (LineMatches c.line src n ∨ inRegion (LineMatches c.start src) (LineMatches c.stop src) n)) ∧
    (removesBranch (Cli.RunAll.filterList o w abs) n ↔
      1 ≤ n ∧ n ≤ (splitSrc src).length ∧
      (LineMatches c.brLine src n ∨ inRegion (LineMatches c.brStart src) (LineMatches c.brStop src) n)) := by
  rw [filterList_compiled o w abs c hm hc, h]
  exact ⟨removesLine_compiled c src n hlen, removesBranch_compiled c src n hlen⟩

/-- **The byte-for-byte run ties are ties of the regex model.** The whole-run streams of the harness
drive `Cli.RunAll.run` with `isMatch := hasSub` and plain ASCII markers (`NOCOV`, `BEGINX`, … : no meta
character); for such markers, on every text that is UTF-8, the run model with `isMatch := isMatchText`
computes the same filter list – hence, file by file, the same records and the same report bytes. -/
theorem C16_regex_run_conservative (o : Cli.RunAll.Opts) (w : Cli.RunAll.World) (abs src : List Nat)
    (h : w.text abs = some src) (hutf : (decode src).isSome = true)
    (h1 : PlainAscii o.excl.exclLine) (h2 : PlainAscii o.excl.exclStart) (h3 : PlainAscii o.excl.exclStop)
    (h4 : PlainAscii o.excl.exclBrLine) (h5 : PlainAscii o.excl.exclBrStart) (h6 : PlainAscii o.excl.exclBrStop) :
    Cli.RunAll.filterList { o with isMatch := isMatchText } w abs
      = Cli.RunAll.filterList { o with isMatch := hasSub } w abs :=
  filterList_plain_ascii o w abs src h hutf h1 h2 h3 h4 h5 h6

/-- the markers of the run streams are plain ASCII -/
example : PlainAscii (some [78, 79, 67, 79, 86]) ∧ PlainAscii (some [66, 69, 71, 73, 78, 88]) ∧ PlainAscii none :=
  ⟨fun cs h => by cases h; exact ⟨by decide, by decide⟩, fun cs h => by cases h; exact ⟨by decide, by decide⟩,
   fun _ h => by cases h⟩

/-- a run with `--excl-line '\bNOCOV\b' --excl-br-start '^\s*//<<'` on a three-line file -/
example :
    let o : Cli.RunAll.Opts :=
      { isMatch := isMatchText
        excl := ⟨some [92, 98, 78, 79, 67, 79, 86, 92, 98], none, none, none,
                 some [94, 92, 115, 42, 47, 47, 60, 60], none⟩ }
    let w : Cli.RunAll.World :=
      { fs := { files := [], dirs := [], cwd := [] }
        text := fun _ => some [120, 59, 32, 47, 47, 32, 78, 79, 67, 79, 86, 10, 78, 79, 67, 79, 86, 83, 10,
                               32, 32, 47, 47, 60, 60, 32, 195, 169, 10] }
    (compileArgs o.excl).toOption.isSome = true ∧
    Cli.RunAll.filterList o w [97] = [.line 1, .branch 3] := by
  decide +kernel

end Grcov.Props.C16

