/-
C11, part `Glob` — the WHOLE pattern language of `globset` 0.4.16 inside the model.

Until this part the glob model (GrcovModel/Glob.lean) knew literals, `?`, `*` and `**` only, so the
selection theorems of C11 were tied to the real matcher on that subset. Now
* `GlobSyntax.parse` is globset's parser (classes, ranges, negation, alternation, escapes, `**` in
  every position, every error kind), `GlobSyntax.GlobDen` the language of the regular expression
  globset compiles (THE SPECIFICATION of "the path matches the glob"), `regexMatch` an executable
  matcher, `setIsMatch` what `GlobSet::is_match` — the function grcov calls — really does (seven
  strategy tables keyed on the shape of the glob), `rewritePathsG` `rewrite_paths` from its first
  line, with the `unwrap` on a pattern that does not parse;
* the theorems below say: the matcher decides the specification; the new model restricted to the
  old subset IS the old model (parser and matcher, all patterns, all paths); the laws users rely on
  (alternation, classes, `a/**/b`, `**/x`, escapes) with their exact side conditions; the strategy
  tables agree with the regular expression EXCEPT on paths that end with '.' (proved in both
  directions: `_partial` and `_false`, finding C11-globset-trailing-dot-path); the selection and
  partition theorems of C11 re-derived for patterns of the whole language, and every per-record
  theorem of Props/C11.lean transferred (`C11_gs_record_is_base_record`).
Helper lemmas: Lemmas/GlobSyntax.lean, GlobSyntaxOld.lean, GlobSyntaxParse.lean, GlobStrategy.lean,
GlobRewrite.lean. Tie: harness/c11/src/globsyntax.rs (ops `c11.glob.*` of gm_c11).
-/
import GrcovModel.Lemmas.GlobRewrite
import GrcovModel.Lemmas.GlobSyntaxParse
namespace Grcov.Props.C11
open Grcov Grcov.UPath Grcov.Rewrite Grcov.GlobSyntax

/-! ### the matcher and the parser -/

/-- The executable matcher decides the specification: for every token list (also ones the parser
never produces) and every byte string, `regexMatch` answers true iff the string is in the language
of the regular expression globset builds for the tokens (the lone `**` matches everything). -/
theorem C11_gs_matcher_decides (ts : Tokens) (p : Bytes) : regexMatch ts p = true ↔ GlobDen ts p :=
  regexMatch_iff ts p

example : regexMatch [.atom (.lit 97), .atom .recZOM, .atom (.cls false [(98, 100)])] [97, 47, 120, 47, 99] = true := by
  decide

/-- `Glob::new` answers one of five error kinds or succeeds, for every pattern: the parser's own
`unwrap` / `assert!` sites are unreachable (no pattern makes grcov panic INSIDE globset's parser),
and `ErrorKind::UnopenedAlternates` is never answered — a `}` without `{` is accepted and means
nothing. -/
theorem C11_gs_parse_error_kinds (g : Chars) (e : GlobErr) (h : parse g = .error e) :
    e = .unclosedClass ∨ (∃ lo hi, e = .invalidRange lo hi) ∨ e = .unclosedAlternates ∨
    e = .nestedAlternates ∨ e = .danglingEscape :=
  parse_error_kinds g e h

/-- one pattern for each kind; `a}c` is accepted and matches "ac" -/
example : parse [91, 97] = .error .unclosedClass ∧ parse [91, 98, 45, 97, 93] = .error (.invalidRange 98 97) ∧
    parse [123, 97] = .error .unclosedAlternates ∧ parse [123, 123, 97, 125, 125] = .error .nestedAlternates ∧
    parse [97, 92] = .error .danglingEscape ∧ globMatch [97, 125, 99] [97, 99] = .ok true :=
  ⟨rfl, rfl, rfl, rfl, rfl, rfl⟩

/-- CONSERVATIVE EXTENSION. For every pattern (given by its chars; the old parser reads their UTF-8
bytes) that the old model accepts — literals, `?`, `*`, `**` in any position — the new parser
accepts it too and the new matcher gives the old answer on every path. -/
theorem C11_gs_conservative (cs : Chars) (ot : List Glob.Tok) (h : Glob.parse (encPat cs) = some ot) :
    ∃ ts, parse cs = .ok ts ∧ ∀ p, regexMatch ts p = Glob.matchOne ot p :=
  parse_conservative cs ot h

/-- the same for a whole `--ignore` / `--keep-only` list -/
theorem C11_gs_conservative_set (gs : List Chars) (old : Glob.GlobSet)
    (h : Glob.compile (gs.map encPat) = some old) :
    ∃ ts, compileSet gs = .ok ts ∧ ∀ p, setRegexMatch ts p = Glob.setMatch old p :=
  compileSet_conservative gs old h

/-- "foo/**/名*.c" is in the old subset -/
example : (Glob.parse (encPat [102, 111, 111, 47, 42, 42, 47, 21517, 42, 46, 99])).isSome = true := by decide

/-! ### laws of the pattern language -/

/-- ALTERNATION, in any context: a brace group matches iff the pattern with one of its NON-EMPTY
alternatives in its place matches; a group all of whose alternatives are empty matches iff the
pattern without the group does (an empty alternative is not an alternative: `a{,b}` does not
match "a"). -/
theorem C11_gs_alternation (pre post : Tokens) (alts : List (List Atom)) (p : Bytes) :
    Den (pre ++ .alt alts :: post) p ↔
      if liveAlts alts = [] then Den (pre ++ post) p
      else ∃ a ∈ liveAlts alts, Den (pre ++ a.map Tok.atom ++ post) p :=
  den_alt pre post alts p

/-- … and on pattern text: for plain `P`, `A`, `B`, `Q` (no metacharacter, no comma) the pattern
`P{A,B}Q` parses, and it matches exactly `PAQ` (when `A` is not empty) and `PBQ` (when `B` is not
empty); with both empty it matches `PQ`. -/
theorem C11_gs_alternation_text (P A B Q : Chars) (hP : ∀ c ∈ P, Plain c) (hA : ∀ c ∈ A, Plain c)
    (hB : ∀ c ∈ B, Plain c) (hQ : ∀ c ∈ Q, Plain c) :
    ∃ ts, parse (P ++ [123] ++ A ++ [44] ++ B ++ [125] ++ Q) = .ok ts ∧ ∀ p, regexMatch ts p = true ↔
      if A = [] ∧ B = [] then p = encPat (P ++ Q)
      else (A ≠ [] ∧ p = encPat (P ++ A ++ Q)) ∨ (B ≠ [] ∧ p = encPat (P ++ B ++ Q)) := by
  refine ⟨_, parse_alt2 P A B Q hP hA hB hQ, fun p => ?_⟩
  have : litToks P ++ [Tok.alt [B.map Atom.lit, A.map Atom.lit]] ++ litToks Q ≠ [.atom .recPrefix] := by
    cases P with
    | nil => simp [litToks]
    | cons c P => simp [litToks]
  rw [regexMatch_iff, GlobDen, or_iff_right this, den_alt2]

/-- `x{a,b}` matches "xa" and "xb"; `a{,b}` does not match "a" -/
example : globMatch [120, 123, 97, 44, 98, 125] [120, 97] = .ok true ∧
    globMatch [120, 123, 97, 44, 98, 125] [120, 98] = .ok true ∧
    globMatch [97, 123, 44, 98, 125] [97] = .ok false ∧ globMatch [97, 123, 44, 98, 125] [97, 98] = .ok true :=
  ⟨rfl, rfl, rfl, rfl⟩

/-- A CLASS matches exactly one BYTE of the path: whatever its members and its negation flag, a
string matches `[…]` iff it is a single byte the class admits. -/
theorem C11_gs_class_one_byte (neg : Bool) (rs : List (Nat × Nat)) (p : Bytes) :
    GlobDen [.atom (.cls neg rs)] p ↔ ∃ b, p = [b] ∧ classMatch neg rs b = true := by
  unfold GlobDen
  simp [den_single, AtomDen]

/-- … with ASCII members it admits exactly those; an ASCII range admits exactly the bytes between
its ends; `[!…]` / `[^…]` admits the complement. -/
theorem C11_gs_class_members (M : Chars) (hM : ∀ c ∈ M, c < 128) (lo hi : Nat) (h1 : lo < hi) (h2 : hi < 128)
    (rs : List (Nat × Nat)) (b : Nat) :
    (classMatch false (M.map fun c => (c, c)) b = true ↔ b ∈ M) ∧
    (classMatch false [(lo, hi)] b = true ↔ lo ≤ b ∧ b ≤ hi) ∧
    classMatch true rs b = !classMatch false rs b :=
  ⟨classMatch_members M hM b, classMatch_range lo hi h1 h2 b, classMatch_neg rs b⟩

/-- … on pattern text: `P[M]Q` with plain `P`, `Q` and ASCII members `M` (no `]`, no `-`, not
starting with `!` or `^`) matches exactly the strings `P b Q` with `b` one of the members. -/
theorem C11_gs_class_text (P M Q : Chars) (hP : ∀ c ∈ P, Plain c) (hQ : ∀ c ∈ Q, Plain c)
    (hM : ∀ c ∈ M, PlainMember c ∧ c < 128) (hne : M ≠ []) (hfirst : M.head? ≠ some 33 ∧ M.head? ≠ some 94) :
    ∃ ts, parse (P ++ [91] ++ M ++ [93] ++ Q) = .ok ts ∧ ∀ p, regexMatch ts p = true ↔
      ∃ b ∈ M, p = encPat P ++ [b] ++ encPat Q := by
  refine ⟨_, parse_class P M Q hP hQ (fun c hc => (hM c hc).1) hne hfirst, fun p => ?_⟩
  have hnr : litToks P ++ [Tok.atom (Atom.cls false (M.map fun c => (c, c)))] ++ litToks Q ≠ [.atom .recPrefix] := by
    cases P with
    | nil => simp [litToks]
    | cons c P => simp [litToks]
  rw [regexMatch_iff, GlobDen, or_iff_right hnr]
  simp only [GlobSyntax.den_append, den_litToks, den_single, AtomDen,
    classMatch_members M (fun c hc => (hM c hc).2)]
  constructor
  · rintro ⟨u, v, rfl, ⟨a, z, rfl, rfl, b, rfl, hb⟩, rfl⟩; exact ⟨b, hb, rfl⟩
  · rintro ⟨b, hb, rfl⟩; exact ⟨_, _, rfl, ⟨_, _, rfl, rfl, b, rfl, hb⟩, rfl⟩

/-- a range is checked on CHARS when the pattern is parsed … -/
theorem C11_gs_range_text (lo hi : Nat) (h1 : PlainMember lo) (h2 : PlainMember hi) (h3 : lo ≠ 33 ∧ lo ≠ 94) :
    parse [91, lo, 45, hi, 93] =
      if hi < lo then .error (.invalidRange lo hi) else .ok [.atom (.cls false [(lo, hi)])] :=
  parse_range lo hi h1 h2 h3

/-- … but a class works on the BYTES of the path: `[é]` is the byte class {0xC3, 0xA9} — it does not
match the two-byte string "é", it matches the lone byte 0xC3; `[à-é]` is a valid range (à < é) whose
bytes are {0xC3} ∪ [0xA0, 0xC3] ∪ {0xA9}; `[é-à]` is refused. (This is what globset does; grcov's
paths are UTF-8, so a non-ASCII class member can never match the character it names.) -/
example : globMatch [91, 233, 93] [195, 169] = .ok false ∧ globMatch [91, 233, 93] [195] = .ok true ∧
    globMatch [91, 224, 45, 233, 93] [176] = .ok true ∧
    parse [91, 233, 45, 224, 93] = .error (.invalidRange 233 224) :=
  ⟨rfl, rfl, rfl, rfl⟩

/-- `A/**/B` (plain `A`, `B`) matches `A/B` and `A/…/B`, at any depth, and nothing else. -/
theorem C11_gs_recursive_middle (A B : Chars) (hA : ∀ c ∈ A, Plain c) (hB : ∀ c ∈ B, Plain c) :
    ∃ ts, parse (A ++ [47, 42, 42, 47] ++ B) = .ok ts ∧ ∀ p, regexMatch ts p = true ↔
      p = encPat A ++ [47] ++ encPat B ∨ ∃ m, p = encPat A ++ [47] ++ m ++ [47] ++ encPat B := by
  refine ⟨_, parse_rec_middle A B hA hB, fun p => ?_⟩
  have : litToks A ++ [Tok.atom Atom.recZOM] ++ litToks B ≠ [.atom .recPrefix] := by
    cases A with
    | nil => simp [litToks]
    | cons c A => simp [litToks]
  rw [regexMatch_iff, GlobDen, or_iff_right this, den_rec_middle]

/-- `a/**/b` matches "a/b" and "a/x/y/b", not "ab" -/
example : globMatch [97, 47, 42, 42, 47, 98] [97, 47, 98] = .ok true ∧
    globMatch [97, 47, 42, 42, 47, 98] [97, 47, 120, 47, 121, 47, 98] = .ok true ∧
    globMatch [97, 47, 42, 42, 47, 98] [97, 98] = .ok false :=
  ⟨rfl, rfl, rfl⟩

/-- `**/X` (plain, non-empty `X`) matches `X` itself (depth 0) and `X` behind any directory prefix
that ends with '/', and nothing else. -/
theorem C11_gs_recursive_prefix (X : Chars) (hX : ∀ c ∈ X, Plain c) (hne : X ≠ []) :
    ∃ ts, parse ([42, 42, 47] ++ X) = .ok ts ∧ ∀ p, regexMatch ts p = true ↔
      ∃ u, (u = [] ∨ ∃ m, u = m ++ [47]) ∧ p = u ++ encPat X := by
  refine ⟨_, parse_rec_prefix X hX, fun p => ?_⟩
  have : Tok.atom Atom.recPrefix :: litToks X ≠ [.atom .recPrefix] := by
    cases X with
    | nil => exact absurd rfl hne
    | cons c X => simp [litToks]
  rw [regexMatch_iff, GlobDen, or_iff_right this, den_rec_lits]

/-- `X/**` (plain `X`) matches exactly the paths that start with `X/`. -/
theorem C11_gs_recursive_suffix (X : Chars) (hX : ∀ c ∈ X, Plain c) :
    ∃ ts, parse (X ++ [47, 42, 42]) = .ok ts ∧ ∀ p, regexMatch ts p = true ↔ ∃ m, p = (encPat X ++ [47]) ++ m := by
  refine ⟨_, parse_rec_suffix X hX, fun p => ?_⟩
  have : litToks X ++ [Tok.atom Atom.recSuffix] ≠ [.atom .recPrefix] := by
    cases X <;> simp [litToks]
  rw [regexMatch_iff, GlobDen, or_iff_right this, den_lits_recSuffix]

/-- ESCAPING makes every character literal: the pattern that spells each char of `cs` with a
backslash in front — whatever the chars, metacharacters included — parses and matches exactly the
string `cs`. -/
theorem C11_gs_escape_literal (cs : Chars) (p : Bytes) :
    globMatch (escapeAll cs) p = .ok (decide (p = encPat cs)) := by
  unfold globMatch
  rw [parse_escapeAll]
  simp only [Except.ok.injEq]
  rw [Bool.eq_iff_iff, regexMatch_iff, GlobDen]
  simp [litToks_ne_rec, den_litToks]

/-- `\*\?\[\{` matches "*?[{" only; "foo.c" and "名" are plain -/
example : (∀ c ∈ [102, 111, 111, 46, 99, 21517], Plain c) := by simp [Plain]

example : globMatch (escapeAll [42, 63, 91, 123]) [42, 63, 91, 123] = .ok true ∧
    escapeAll [42, 63] = [92, 42, 92, 63] := ⟨rfl, rfl⟩

/-- Plain text (no metacharacter) is its own literal. -/
theorem C11_gs_plain_literal (cs : Chars) (hc : ∀ c ∈ cs, Plain c) (p : Bytes) :
    globMatch cs p = .ok (decide (p = encPat cs)) := by
  unfold globMatch
  rw [parse_plain cs hc]
  simp only [Except.ok.injEq]
  rw [Bool.eq_iff_iff, regexMatch_iff, GlobDen]
  simp [litToks_ne_rec, den_litToks]

/-- A brace group with ONE alternative is that alternative — for an alternative `A\,B` with plain
`A`, `B` (the comma escaped, as it must be inside braces): `{A\,B}` and `A\,B` both match exactly the
string `A,B`. -/
theorem C11_gs_single_alternative_partial (A B : Chars) (hA : ∀ c ∈ A, Plain c) (hB : ∀ c ∈ B, Plain c)
    (p : Bytes) :
    globMatch ([123] ++ A ++ [92, 44] ++ B ++ [125]) p = globMatch (A ++ [92, 44] ++ B) p := by
  unfold globMatch
  rw [parse_escaped_comma_alt A B hA hB, parse_escaped_comma_top A B hA hB]
  simp only [Except.ok.injEq]
  rw [Bool.eq_iff_iff, regexMatch_iff, regexMatch_iff, GlobDen, GlobDen,
    or_iff_right (litToks_ne_rec _), or_iff_right (by simp), den_litToks]
  have h := den_alt [] [] [(A ++ [44] ++ B).map Atom.lit] p
  simp only [List.nil_append, List.append_nil] at h
  rw [h]
  have hl : liveAlts [(A ++ [44] ++ B).map Atom.lit] = [(A ++ [44] ++ B).map Atom.lit] := by
    simp [liveAlts]
  rw [hl]
  simp only [reduceCtorEq, if_false, List.mem_singleton, exists_eq_left, map_lit_eq_litToks, den_litToks]

/-- … but NOT when `B` may start with `**` (closed witness; globset's `parse_star` looks at the char
before `**` AFTER un-escaping and takes the escaped comma for the start of the alternative): `{a\,**}`
loses its comma — it means `a/**`, matches "a/x" and not "a,x" — while `a\,**` outside braces, and
`{a[,]**}` with the comma written as a class, match "a,x" (finding
C11-glob-escaped-comma-doublestar). -/
theorem C11_gs_single_alternative_false :
    ¬ ∀ (A B : Chars), (∀ c ∈ A, Plain c) → (∀ c ∈ B, Plain c ∨ c = 42) → ∀ p : Bytes,
      globMatch ([123] ++ A ++ [92, 44] ++ B ++ [125]) p = globMatch (A ++ [92, 44] ++ B) p := by
  intro h
  have := h [97] [42, 42] (by simp [Plain]) (by simp) [97, 44, 120]
  revert this
  simp only [List.cons_append, List.nil_append]
  intro h'
  have e1 : globMatch [123, 97, 92, 44, 42, 42, 125] [97, 44, 120] = .ok false := rfl
  have e2 : globMatch [97, 92, 44, 42, 42] [97, 44, 120] = .ok true := rfl
  rw [e1, e2] at h'
  cases h'

/-- the same witness, with the class spelling of the comma for comparison -/
theorem C11_gs_escaped_comma_doublestar :
    globMatch [123, 97, 92, 44, 42, 42, 125] [97, 44, 120] = .ok false ∧
    globMatch [123, 97, 92, 44, 42, 42, 125] [97, 47, 120] = .ok true ∧
    globMatch [123, 97, 91, 44, 93, 42, 42, 125] [97, 44, 120] = .ok true :=
  ⟨rfl, rfl, rfl⟩

/-! ### the glob set grcov asks -/

/-- `GlobSet::is_match` — basename / extension / literal hash tables, prefix / suffix automata,
regexes, chosen by the shape of each glob — answers what the regular expressions of its globs
answer, for every set of token lists and every path that does NOT end with '.'. -/
theorem C11_gs_set_agrees_partial (gs : List Tokens) (p : Bytes) (hg : p.getLast? ≠ some 46) :
    setIsMatch gs p = setRegexMatch gs p :=
  setIsMatch_eq_setRegexMatch gs p hg

/-- … and this guard cannot be dropped: the set {`*.`} does not match "foo." although the glob `*.`
does, the set {`**/foo.`} does not match "a/foo.", the set {`a*b.`} does not match "ab." (globset's
`file_name` gives a path that ends with '.' no basename and no extension, and the three tables keyed
on them are never consulted for it). A file whose name ends with '.' is therefore neither ignored
nor kept by such a glob (finding C11-globset-trailing-dot-path). -/
theorem C11_gs_set_agrees_false : ¬ ∀ (gs : List Tokens) (p : Bytes), setIsMatch gs p = setRegexMatch gs p := by
  intro h
  have := h [[.atom .star, .atom (.lit 46)]] [102, 111, 111, 46]
  revert this
  decide

example : (∃ ts, parse [42, 46] = .ok ts ∧ setIsMatch [ts] [102, 111, 111, 46] = false ∧ regexMatch ts [102, 111, 111, 46] = true) ∧
    (∃ ts, parse [42, 42, 47, 102, 111, 111, 46] = .ok ts ∧ setIsMatch [ts] [97, 47, 102, 111, 111, 46] = false ∧
      regexMatch ts [97, 47, 102, 111, 111, 46] = true) ∧
    (∃ ts, parse [97, 42, 98, 46] = .ok ts ∧ setIsMatch [ts] [97, 98, 46] = false ∧ regexMatch ts [97, 98, 46] = true) := by
  refine ⟨⟨_, rfl, ?_, ?_⟩, ⟨_, rfl, ?_, ?_⟩, ⟨_, rfl, ?_, ?_⟩⟩ <;> decide

/-! ### `rewrite_paths` with patterns of the whole language -/

/-- A pattern that does not parse — in `--ignore` or in `--keep-only` — makes `rewrite_paths` panic
(`Glob::new(..).unwrap()` in `to_globset`), whatever the other options, the file system and the
result map: before the `assert!` on the source directory and before any key is looked at. -/
theorem C11_gs_invalid_pattern_panics (g : GCfg) (fs : FS) (m : List (Bytes × Cov))
    (h : ∃ pat ∈ g.ignore ++ g.keep, ∃ e, parse pat = .error e) :
    rewritePathsG g fs m = .panic "glob_unwrap" := by
  obtain ⟨pat, hp, e, he⟩ := h
  unfold rewritePathsG
  rcases List.mem_append.1 hp with hi | hk
  · obtain ⟨e', he'⟩ := (compileSet_error_iff g.ignore).2 ⟨pat, hi, e, he⟩
    simp [he']
  · obtain ⟨e', he'⟩ := (compileSet_error_iff g.keep).2 ⟨pat, hk, e, he⟩
    cases hc : compileSet g.ignore with
    | error _ => rfl
    | ok ig => simp [he']

/-- When every pattern parses the run is the run with the compiled sets. -/
theorem C11_gs_valid_patterns (g : GCfg) (h : ∀ pat ∈ g.ignore ++ g.keep, ∀ e, parse pat ≠ .error e) :
    ∃ ig kp, compileSet g.ignore = .ok ig ∧ compileSet g.keep = .ok kp ∧
      ∀ (fs : FS) (m : List (Bytes × Cov)), rewritePathsG g fs m =
        rewritePathsX (g.withSets ig kp) fs m := by
  have hi : ∃ ig, compileSet g.ignore = .ok ig := by
    cases hc : compileSet g.ignore with
    | ok ig => exact ⟨ig, rfl⟩
    | error e =>
      obtain ⟨pat, hp, e', he'⟩ := (compileSet_error_iff g.ignore).1 ⟨e, hc⟩
      exact absurd he' (h pat (List.mem_append_left _ hp) e')
  have hk : ∃ kp, compileSet g.keep = .ok kp := by
    cases hc : compileSet g.keep with
    | ok kp => exact ⟨kp, rfl⟩
    | error e =>
      obtain ⟨pat, hp, e', he'⟩ := (compileSet_error_iff g.keep).1 ⟨e, hc⟩
      exact absurd he' (h pat (List.mem_append_right _ hp) e')
  obtain ⟨ig, hig⟩ := hi
  obtain ⟨kp, hkp⟩ := hk
  exact ⟨ig, kp, hig, hkp, fun fs m => by simp [rewritePathsG, hig, hkp]⟩

/-- `--ignore '[a'` panics; `--ignore '{foo,bar}/[a-c].c'` does not and drops "foo/a.c" -/
example : rewritePathsG { ignore := [[91, 97]] } { files := [], dirs := [], cwd := [] } [] = .panic "glob_unwrap" :=
  rfl

/-- The report consists exactly of the records the per-key pipeline retains. -/
theorem C11_gs_report_members (x : XCfg) (fs : FS) (m : List (Bytes × Cov)) (rep : List Rec)
    (h : rewritePathsX x fs m = .ok rep) (r : Rec) :
    r ∈ rep ↔ ∃ kc ∈ m, rewriteKeyX x fs kc = .ok (some r) :=
  mem_rewritePathsX h r

/-- SELECTION, patterns of the whole language: a key is reported iff its rewritten relative path is
not matched by the `--ignore` set, is matched by the `--keep-only` set when one is given, exists on
disk when ignore-not-existing is set, and has the requested covered/uncovered status; the record
carries that path and the key's own data. "Matched by the set" is `GlobSet::is_match`
(`setIsMatch`); for a path that does not end with '.' it is "some glob of the set matches the path"
in the sense of the specification `GlobDen`. -/
theorem C11_gs_selection_iff (x : XCfg) (fs : FS) (kc : Bytes × Cov) (r : Rec) :
    rewriteKeyX x fs kc = .ok (some r) ↔
      ∃ abs rel, resolveKey x.base fs kc.1 = .ok (some (abs, rel)) ∧
        setIsMatch x.ignore rel = false ∧
        (x.keep = [] ∨ setIsMatch x.keep rel = true) ∧
        (x.ignoreNotExisting = true → fs.exists abs = true) ∧
        filterOk x.filter kc.2 = true ∧
        r = ⟨abs, rel, kc.2⟩ := by
  rw [rewriteKeyX_some_iff]
  constructor
  · rintro ⟨a, rl, h1, h2⟩; exact ⟨a, rl, h1, (selectRecX_some_iff _ _ _ _ _ _).1 h2⟩
  · rintro ⟨a, rl, h1, h2⟩; exact ⟨a, rl, h1, (selectRecX_some_iff _ _ _ _ _ _).2 h2⟩

/-- … in terms of the specification: for a path that does not end with '.', "the set matches" is
"some glob of the set denotes the path". -/
theorem C11_gs_set_spec_partial (gs : List Tokens) (p : Bytes) (hg : p.getLast? ≠ some 46) :
    setIsMatch gs p = true ↔ ∃ ts ∈ gs, GlobDen ts p := by
  rw [setIsMatch_eq_setRegexMatch gs p hg]
  simp [setRegexMatch, List.any_eq_true, regexMatch_iff]

/-- Every record selected under glob sets of the whole language is a record of the same run without
glob sets: all per-record theorems of Props/C11.lean (normal form, no backslash, final path,
absolute path, escape, prefix removed, relative under the source dir) and of its parts speak about
it. Spelled out for the normal form, the separators and the data. -/
theorem C11_gs_record_is_base_record (x : XCfg) (fs : FS) (kc : Bytes × Cov) (r : Rec)
    (h : rewriteKeyX x fs kc = .ok (some r)) :
    rewriteKey x.base fs kc = .ok (some r) ∧
    (∃ np : NPath, r.rel = render np ∧ ∀ n ∈ np.names, RealName n) ∧ 92 ∉ r.rel ∧ r.cov = kc.2 := by
  refine ⟨rewriteKeyX_some_base x fs kc r h, ?_⟩
  obtain ⟨a, rl, h1, _, _, _, _, e⟩ := (C11_gs_selection_iff x fs kc r).1 h
  obtain ⟨r0, _, hf⟩ := resolveKey_some h1
  subst e
  exact ⟨(finalRel_shape hf).1, (finalRel_shape hf).2, rfl⟩

/-- One key, one compiled set `G` of patterns of the whole language: under `--ignore G` and
`--keep-only G` (on top of any other ignore globs) the key is retained by exactly one of the two
runs when the unfiltered run retains it, by neither when it does not; a panic of one is a panic of
all. (This holds for `GlobSet::is_match` as it is, trailing dots included: both runs ask the same
function.) -/
theorem C11_gs_ignore_keep_partition_key (x : XCfg) (hk : x.keep = []) (G : List Tokens) (hG : G ≠ [])
    (fs : FS) (kc : Bytes × Cov) :
    (∀ s, rewriteKeyX x fs kc = .panic s →
        (∃ s, rewriteKeyX { x with ignore := x.ignore ++ G } fs kc = .panic s) ∧
        ∃ s, rewriteKeyX { x with keep := G } fs kc = .panic s) ∧
    (∀ o, rewriteKeyX x fs kc = .ok o →
      (rewriteKeyX { x with ignore := x.ignore ++ G } fs kc = .ok o ∧
        rewriteKeyX { x with keep := G } fs kc = .ok none) ∨
      (rewriteKeyX { x with ignore := x.ignore ++ G } fs kc = .ok none ∧
        rewriteKeyX { x with keep := G } fs kc = .ok o)) :=
  rewriteKeyX_ignore_keep x hk G hG fs kc

/-- PARTITION, patterns of the whole language: for one non-empty compiled set `G`, the files
reported with `--ignore G` and those reported with `--keep-only G` partition the unfiltered
report. -/
theorem C11_gs_ignore_keep_partition (x : XCfg) (hk : x.keep = []) (G : List Tokens) (hG : G ≠ [])
    (fs : FS) (m : List (Bytes × Cov)) (rep : List Rec) (h : rewritePathsX x fs m = .ok rep) :
    ∃ ri rk, rewritePathsX { x with ignore := x.ignore ++ G } fs m = .ok ri ∧
      rewritePathsX { x with keep := G } fs m = .ok rk ∧ (ri ++ rk).Perm rep :=
  partition_reportsX x { x with ignore := x.ignore ++ G } { x with keep := G } fs m ⟨rfl, rfl⟩
    (fun kc _ => rewriteKeyX_ignore_keep x hk G hG fs kc) rep h

/-- … and so do `--filter covered` and `--filter uncovered`. -/
theorem C11_gs_covered_uncovered_partition (x : XCfg) (hf : x.filter = none) (fs : FS)
    (m : List (Bytes × Cov)) (rep : List Rec) (h : rewritePathsX x fs m = .ok rep) :
    ∃ rc ru, rewritePathsX { x with filter := some true } fs m = .ok rc ∧
      rewritePathsX { x with filter := some false } fs m = .ok ru ∧ (rc ++ ru).Perm rep :=
  partition_reportsX x { x with filter := some true } { x with filter := some false } fs m ⟨rfl, rfl⟩
    (fun kc _ => rewriteKeyX_filter x hf fs kc) rep h

/-- a configuration that meets the hypotheses: `--ignore '{foo,bar}/[a-c].c'` on two keys; the
ignore run reports "b.c", the keep-only run "foo/a.c" -/
def exG : List Tokens :=
  [[.alt [[.lit 98, .lit 97, .lit 114], [.lit 102, .lit 111, .lit 111]], .atom (.lit 47),
    .atom (.cls false [(97, 99)]), .atom (.lit 46), .atom (.lit 99)]]

example : compileSet [[123, 102, 111, 111, 44, 98, 97, 114, 125, 47, 91, 97, 45, 99, 93, 46, 99]] = .ok exG := rfl

example : setIsMatch exG [102, 111, 111, 47, 97, 46, 99] = true ∧ setIsMatch exG [98, 46, 99] = false ∧ exG ≠ [] := by
  decide

/-- CONSERVATIVE EXTENSION of the pipeline: when all patterns of a configuration are in the old
subset, the run with the compiled sets treats every key whose rewritten path does not end with '.'
exactly as the old model `Rewrite.rewriteKey` does with the old token sets. (On a path that ends with
'.' the old model followed the regular expression; the code follows the strategy tables:
`C11_gs_set_agrees_false`.) -/
theorem C11_gs_conservative_key (g : GCfg) (ig kp : Glob.GlobSet)
    (hi : Glob.compile (g.ignore.map encPat) = some ig) (hk : Glob.compile (g.keep.map encPat) = some kp) :
    ∃ ti tk, (∀ fs m, rewritePathsG g fs m = rewritePathsX (g.withSets ti tk) fs m) ∧
      ∀ fs (kc : Bytes × Cov),
        (∀ abs rel, resolveKey (g.withSets ti tk).base fs kc.1 = .ok (some (abs, rel)) → rel.getLast? ≠ some 46) →
        rewriteKeyX (g.withSets ti tk) fs kc = rewriteKey (g.withOld ig kp) fs kc := by
  obtain ⟨ti, hti, hmi⟩ := compileSet_conservative g.ignore ig hi
  obtain ⟨tk, htk, hmk⟩ := compileSet_conservative g.keep kp hk
  refine ⟨ti, tk, fun fs m => by simp [rewritePathsG, hti, htk], fun fs kc hguard => ?_⟩
  -- the two keep sets are empty together
  have hlen : tk.isEmpty = kp.isEmpty := by
    have h1 : ∀ (gs : List Chars) (ts : List Tokens), compileSet gs = .ok ts → ts.length = gs.length := by
      intro gs
      induction gs with
      | nil => intro ts h; simp [compileSet] at h; subst h; rfl
      | cons a gs ih =>
        intro ts h
        simp only [compileSet] at h
        cases hp : parse a with
        | error e => simp [hp] at h
        | ok t =>
          cases hc : compileSet gs with
          | error e => simp [hp, hc] at h
          | ok ts' =>
            simp only [hp, hc, Except.ok.injEq] at h
            subst h; simp [ih ts' hc]
    have h2 : ∀ (bs : List Bytes) (old : Glob.GlobSet), bs.mapM Glob.parse = some old → old.length = bs.length := by
      intro bs
      induction bs with
      | nil => intro old h; simp at h; subst h; rfl
      | cons a bs ih =>
        intro old h
        simp only [List.mapM_cons] at h
        cases hp : Glob.parse a with
        | none => simp [hp] at h
        | some t =>
          cases hc : bs.mapM Glob.parse with
          | none => simp [hp, hc] at h
          | some r =>
            simp only [hp, hc] at h
            have : old = t :: r := by cases h; rfl
            subst this; simp [ih r hc]
    have e1 := h1 _ _ htk
    have e2 := h2 _ _ hk
    simp only [List.length_map] at e2
    cases tk with
    | nil =>
      cases kp with
      | nil => rfl
      | cons _ _ => exfalso; simp only [List.length_nil, List.length_cons] at e1 e2; omega
    | cons _ _ =>
      cases kp with
      | nil => exfalso; simp only [List.length_nil, List.length_cons] at e1 e2; omega
      | cons _ _ => rfl
  have eb : resolveKey (g.withSets ti tk).base fs kc.1 = resolveKey (g.withOld ig kp) fs kc.1 :=
    resolveKey_congr rfl rfl rfl fs _
  unfold rewriteKeyX rewriteKey
  rw [← eb]
  cases hr : resolveKey (g.withSets ti tk).base fs kc.1 with
  | panic s => rfl
  | ok o =>
    cases o with
    | none => rfl
    | some ar =>
      obtain ⟨a, rl⟩ := ar
      have hgd := hguard a rl hr
      simp only [selectRecX, selectRec, GCfg.withSets, GCfg.withOld, setIsMatch_eq_setRegexMatch _ rl hgd,
        hmi, hmk, hlen]
      rfl

end Grcov.Props.C11
