/-
C18 — reports stay well-formed whatever the names and source text contain.

Property theorems about `GrcovModel/Escape.lean` (the model of quick-xml's `escape`, serde_json's
string writer and Tera's `escape_html`, and of the readers on the consuming side). Helper lemmas:
GrcovModel/Lemmas/Escape.lean, Lemmas/EscapeAgree.lean. All strings are UTF-8 byte lists.

Quantifiers. The property quantifies over "strings of printable Unicode characters (no control
characters or line terminators)" with XML/HTML metacharacters, quotes and non-ASCII characters.
* The statements about what the WRITERS emit (`…_no_meta`, `…_amp`, `…_roundtrip` through the pure
  entity resolver `unescapeEnt`, everything about JSON) hold for ALL byte lists, control characters
  included, and are stated so.
* The statements about what a READER gets back (`…_scan`, the HTML sinks) carry the property's own
  guard, because they are false without it:
  - XML (`scanAttr`, `scanXmlText` – a conforming XML 1.0 parser; the same functions as the expat-tied
    `Writers.CobBytes.readAttrValue` / `readText`: `C18_readers_agree`): quick-xml's `escape` copies
    control characters, and a conforming parser reads a literal TAB / LF / CR / CR LF inside an
    attribute value as ONE blank, a CR or CR LF in character data as LF, and rejects every other
    C0 control and U+FFFE / U+FFFF (the document is not well-formed). Guard `printable` for
    attribute values (= `CobBytes.attrOk`), `textSafe` for character data (= `CobBytes.textOk`:
    TAB and LF allowed). Closed witnesses: `C18_xml_controls_outside`, `C18_xml_scan_any_false`.
  - HTML (`scanHtmlText`, `scanHtmlAttr`): the input-stream preprocessing reads CR / CR LF as LF.
    Guard `noCtl` (no C0 control byte; implied by `printable`). Witness: `C18_html_cr_outside`.
  DEL, the C1 controls and U+2028/2029 are outside the property's quantifier as well, but every
  reader returns them unchanged, so the guards need not exclude them.

HTML sinks. Every place of the templates where a name or source text reaches a page is listed in
Escape.lean ("The sinks of the HTML templates") and has a theorem here: page title
(`C18_sink_title`), breadcrumb link and label (`C18_sink_breadcrumb`, `C18_breadcrumb_href`), active
breadcrumb (`C18_sink_current`), row link and row name of the index pages (`C18_sink_row`,
`C18_sink_row_dir`, `C18_sink_row_file`), source line (`C18_sink_pre`). Each says: a tokenizer
reads back exactly the name (as character data / as the attribute value) and continues at the
template's own closing markup, and the markup skeleton of the fragment (its `<` `>` `"` `'`, in
order) is that of the template with an empty name – so no element, attribute or script can be
added.

Links. The breadcrumb link of a file page is escaped since /repo ffd66c7; the row links without a
prefix are explicitly relative since /repo 8e4c27e (`C18_row_href_relative`). One `…_partial`
remains, about configuration rather than names: with `--abs-link-prefix P` the directory rows are
`P~item` without a separator (index.html 23), so "a name cannot change the scheme of a prefixed
link" needs `P` to contain a `/` or a `:`; refuted for `P = java`, directory `script:alert(1)`
(`C18_prefixed_links_scheme_false`). The same missing separator makes the directory links of the
top-level index wrong for every prefix that does not end in `/` (`C18_dir_row_prefix_no_separator`:
`http://h` + `src` = `http://hsrc/index.html`, whereas the breadcrumb of the pages below uses
`http://h/src/index.html`) – a broken link, not an injection: reported under C03/C18 as an
observation.

ASSUMPTION (explicit; review 2, item 36): the HTML templates are the ones compiled into the binary
(src/templates/base.html, index.html, file.html, macros.html – the anchored files). The file named
by `--output-config-file` may contain a `templates` object (html.rs 72-80 `ConfigFile.templates`,
100-139 `get_templates`: `result.extend(user_templates)`) whose entries REPLACE any of the four
templates by the text of a user file. Such a template can pass any value through `| safe`, can be
registered under a name that does not end in `.html` (Tera then does not auto-escape it), or can
put a name inside a `<script>` element or an unquoted attribute. No C18 theorem speaks about a run
with user templates: the sink list above is the list of the built-in templates, and the harness
passes a configuration file with other LIMITS only (`htmlb.site.config_file_limits`), never with
templates. Whoever overrides a template takes over its escaping discipline. The JSON / XML
reports are not affected (no template is involved).

Characters. "Printable" is read widely by the generators: besides ASCII metacharacters and
precomposed non-ASCII letters, names contain combining marks (U+0300…, Arabic harakat, Hebrew
points, Thai and Devanagari signs), ZERO WIDTH JOINER sequences, variation selectors (VS15/16,
VS17), the format characters U+00AD, U+034F, U+061C, U+200B–U+200F, U+202A–U+202E, U+2060,
U+2066–U+2069, U+FEFF, tag characters and private-use characters: all of them are copied verbatim
by every writer (`jsonEscape`, `xmlEscape`, `htmlEscape` touch ASCII bytes only; `C18_json_roundtrip`
and the scan theorems hold for ALL byte lists / all printable ones). A writer that quotes names
with Rust's `{:?}` instead (seeded change C18-4: `\u{301}` is not a JSON escape) differs on exactly
these characters: streams `report` and `uninames` of harness/c18.

What the theorems do not cover (checked at run time by harness/c18 on whole reports): that the
writers of cobertura.rs / output.rs / html.rs route every name through these routines and that
the fixed text around the names is what the templates say (the sinks are compared with the page
bytes and, decoded by Python's html.parser, with the input names).
-/
import GrcovModel.Lemmas.Escape
import GrcovModel.Lemmas.EscapeAgree
import GrcovModel.Props.C18CobBytes
import GrcovModel.Props.C18JsonBytes
import GrcovModel.Props.C18Html
import GrcovModel.Props.C18Links
namespace Grcov.Props.C18
open Grcov.Escape

/-! ### Cobertura (quick-xml) -/

/-- Resolving the entities of an escaped attribute value gives back exactly the name (all byte
strings; `unescapeEnt` is the pure entity resolver, quick-xml's `unescape`). -/
theorem C18_xml_attr_roundtrip (s : Bytes) : unescapeEnt (xmlAttr s) = some s :=
  unescapeEnt_escapeWith pieceOk_xmlAttr s

/-- An escaped attribute value contains no raw `<`, `>`, `"` or `'` (all byte strings). -/
theorem C18_xml_attr_no_meta (s : Bytes) :
    60 ∉ xmlAttr s ∧ 62 ∉ xmlAttr s ∧ 34 ∉ xmlAttr s ∧ 39 ∉ xmlAttr s :=
  ⟨not_mem_escapeWith _ 60 (xmlAttrTab_no 60 (by simp)) s,
   not_mem_escapeWith _ 62 (xmlAttrTab_no 62 (by simp)) s,
   not_mem_escapeWith _ 34 (xmlAttrTab_no 34 (by simp)) s,
   not_mem_escapeWith _ 39 (xmlAttrTab_no 39 (by simp)) s⟩

/-- Every `&` of an escaped value is the first byte of one of the five entities the writer
emits (`&lt; &gt; &apos; &amp; &quot;`): a name cannot smuggle in a reference of its own. -/
theorem C18_xml_attr_amp (s : Bytes) (i : Nat) (h : (xmlAttr s)[i]? = some 38) :
    ∃ e ∈ xmlEntities, e <+: (xmlAttr s).drop i :=
  ampOk_spec xmlEntities _ (ampOk_escapeWith xmlEntities xmlAttrTab ampOk_xmlAttrTab s) i h

/-- For every printable name (the property's quantifier), however hostile: a conforming XML
parser that starts reading after the opening quote of `name="…"` reports exactly the name and
continues exactly at what the writer put after the closing quote – the name cannot end the
attribute, start another attribute or open an element, and the document stays well-formed. -/
theorem C18_xml_attr_scan (s rest : Bytes) (h : printable s = true) :
    scanAttr (xmlAttr s ++ 34 :: rest) = some (s, rest) :=
  scanAttr_xmlAttr s rest h

/-- The `<source>` text, for every printable string and also with TAB and LF (`textSafe`): read
back exactly, up to the `<` of the closing tag, and it contains no raw `>` (so no `]]>`). -/
theorem C18_xml_text_scan (s rest : Bytes) (h : textSafe s = true) :
    scanXmlText (xmlText s ++ 60 :: rest) = some (s, rest) ∧ 62 ∉ xmlText s :=
  ⟨scanXmlText_xmlText s rest h, not_mem_escapeWith _ 62 (xmlAttrTab_no 62 (by simp)) s⟩

/-- … in particular for every printable string. -/
theorem C18_xml_text_scan_printable (s rest : Bytes) (h : printable s = true) :
    scanXmlText (xmlText s ++ 60 :: rest) = some (s, rest) :=
  scanXmlText_xmlText s rest (printable_textSafe h)

/-- The readers and guards used here are those of the byte-level Cobertura model, which is tied
to expat on whole reports (`Writers/CobBytes.lean`). -/
theorem C18_readers_agree :
    (∀ bs, scanAttr bs = Grcov.Writers.CobBytes.readAttrValue bs) ∧
    (∀ bs, Grcov.Writers.CobBytes.readText bs
      = (scanXmlText bs).map fun vr => (Grcov.Writers.CobBytes.BXml.text vr.1, 60 :: vr.2)) ∧
    (∀ v, printable v = Grcov.Writers.CobBytes.attrOk v) ∧
    (∀ v, textSafe v = Grcov.Writers.CobBytes.textOk v) :=
  ⟨scanAttr_eq_readAttrValue, readText_eq_scanXmlText, printable_eq_attrOk, textSafe_eq_textOk⟩

/-- The unguarded statement: every byte string written as an attribute value / as character data
is read back unchanged. -/
def C18_xml_scan_any_stmt : Prop :=
  ∀ s rest : Bytes, scanAttr (xmlAttr s ++ 34 :: rest) = some (s, rest) ∧
    scanXmlText (xmlText s ++ 60 :: rest) = some (s, rest)

/-- It is false: the guards are needed (control characters are outside the property's
quantifier, and quick-xml's `escape` copies them). -/
theorem C18_xml_scan_any_false : ¬ C18_xml_scan_any_stmt := by
  intro h
  have := (h [97, 9, 98] []).1
  revert this
  decide

/-- What exactly happens outside the guard, as closed witnesses on the executable model:
in an attribute value TAB, LF, CR and CR LF are each read back as one blank; a C0 control (0x01)
or U+FFFE makes the document ill-formed; in character data CR and CR LF are read back as LF (so
`textSafe` excludes CR but not LF / TAB), 0x01 is ill-formed. -/
theorem C18_xml_controls_outside :
    scanAttr (xmlAttr [97, 9, 98] ++ [34]) = some ([97, 32, 98], []) ∧
    scanAttr (xmlAttr [97, 10, 98] ++ [34]) = some ([97, 32, 98], []) ∧
    scanAttr (xmlAttr [97, 13, 98] ++ [34]) = some ([97, 32, 98], []) ∧
    scanAttr (xmlAttr [97, 13, 10, 98] ++ [34]) = some ([97, 32, 98], []) ∧
    scanAttr (xmlAttr [97, 1, 98] ++ [34]) = none ∧
    scanAttr (xmlAttr [239, 191, 190] ++ [34]) = none ∧
    scanXmlText (xmlText [97, 13, 98] ++ [60]) = some ([97, 10, 98], []) ∧
    scanXmlText (xmlText [97, 13, 10, 98] ++ [60]) = some ([97, 10, 98], []) ∧
    scanXmlText (xmlText [97, 9, 10, 98] ++ [60]) = some ([97, 9, 10, 98], []) ∧
    scanXmlText (xmlText [97, 1, 98] ++ [60]) = none := by
  decide

/-! ### Coveralls, covdir, ActiveData-ETL, coverage.json (serde_json) -/

/-- Decoding the body of the string literal gives back exactly the name – for every byte string,
control characters included. -/
theorem C18_json_roundtrip (s : Bytes) : jsonUnescape (jsonStr s) = some s :=
  jsonUnescape_jsonStr s

/-- A JSON parser that starts after the opening quote reports exactly the name and continues
after the closing quote the writer emitted: a name cannot end the string, add a key or a record
(every byte string: serde_json escapes the control characters, RFC 8259 readers reject raw ones). -/
theorem C18_json_scan (s rest : Bytes) :
    scanJson [] (jsonStr s ++ 34 :: rest) = some (s, rest) := by
  simpa using scanJson_jsonStr s [] rest

/-- No byte below 0x20 is written: in particular no raw line feed, so a name cannot add a line
(= a record) to the line-delimited ActiveData output. -/
theorem C18_json_no_control (s : Bytes) : ∀ y ∈ jsonStr s, 32 ≤ y :=
  forall_mem_escapeWith' jsonTab _ jsonTab_ge32 s

/-- Every byte from 0x20 up other than `"` and `\` is copied verbatim – in particular every byte of
a multi-byte UTF-8 sequence: combining marks, ZERO WIDTH JOINER, variation selectors, format
characters, private-use and non-characters are NOT escaped by serde_json (and need not be:
RFC 8259 allows them raw). -/
theorem C18_json_verbatim (s : Bytes) (h : ∀ b ∈ s, 32 ≤ b ∧ b ≠ 34 ∧ b ≠ 92) : jsonStr s = s := by
  unfold jsonStr
  induction s with
  | nil => rfl
  | cons b s ih =>
    have hb := h b (List.mem_cons_self ..)
    have ht : jsonTab b = none := by
      unfold jsonTab
      have h1 : ¬ b = 34 := hb.2.1
      have h2 : ¬ b = 92 := hb.2.2
      have h3 : ¬ b = 8 := by omega
      have h4 : ¬ b = 9 := by omega
      have h5 : ¬ b = 10 := by omega
      have h6 : ¬ b = 12 := by omega
      have h7 : ¬ b = 13 := by omega
      have h8 : ¬ b < 32 := by omega
      simp [h1, h2, h3, h4, h5, h6, h7, h8]
    rw [escapeWith_cons, ht, ih fun x hx => h x (List.mem_cons_of_mem _ hx)]
    rfl

/-- Rust's `{:?}` quoting is not JSON quoting: for `e` + U+0301 (COMBINING ACUTE ACCENT) `{:?}` prints
`e\u{301}`, which no JSON reader accepts (`\u` must be followed by four hex digits); serde_json
writes the three bytes `65 CC 81` as they are, and they are read back as they are. (Seeded change
C18-4: `output_covdir` streaming its names with `{:?}`.) -/
theorem C18_json_debug_quoting_rejected :
    jsonUnescape [101, 92, 117, 123, 51, 48, 49, 125] = none ∧
    jsonStr [101, 204, 129] = [101, 204, 129] ∧
    jsonUnescape (jsonStr [101, 204, 129]) = some [101, 204, 129] := by
  decide

/-! ### HTML pages (Tera auto-escape) -/

/-- Resolving the character references of an escaped string gives back exactly the text (all
byte strings). -/
theorem C18_html_roundtrip (s : Bytes) : unescapeEnt (html s) = some s :=
  unescapeEnt_escapeWith pieceOk_html s

/-- Escaped text contains no raw `<`, `>`, `"`, `'` or `/` (all byte strings). -/
theorem C18_html_no_meta (s : Bytes) :
    60 ∉ html s ∧ 62 ∉ html s ∧ 34 ∉ html s ∧ 39 ∉ html s ∧ 47 ∉ html s :=
  ⟨not_mem_escapeWith _ 60 (htmlTab_no 60 (by simp)) s,
   not_mem_escapeWith _ 62 (htmlTab_no 62 (by simp)) s,
   not_mem_escapeWith _ 34 (htmlTab_no 34 (by simp)) s,
   not_mem_escapeWith _ 39 (htmlTab_no 39 (by simp)) s,
   not_mem_escapeWith _ 47 (htmlTab_no 47 (by simp)) s⟩

/-- Every `&` starts one of the six references Tera emits. -/
theorem C18_html_amp (s : Bytes) (i : Nat) (h : (html s)[i]? = some 38) :
    ∃ e ∈ htmlEntities, e <+: (html s).drop i :=
  ampOk_spec htmlEntities _ (ampOk_escapeWith htmlEntities htmlTab ampOk_htmlTab s) i h

/-- Names and source lines in element content, for every name without control characters: the
tokenizer reports exactly the text and the next tag is the template's own. -/
theorem C18_html_text_scan (s rest : Bytes) (h : noCtl s = true) :
    scanHtmlText (html s ++ 60 :: rest) = some (s, rest) :=
  scanHtmlText_html s rest (noCtl_no13 h)

/-- Names inside a double-quoted attribute (`href="{{ url }}"`): the value is exactly the name
and the attribute ends at the template's own quote. -/
theorem C18_html_attr_scan (s rest : Bytes) (h : noCtl s = true) :
    scanHtmlAttr (html s ++ 34 :: rest) = some (s, rest) :=
  scanHtmlAttr_html s rest (noCtl_no13 h)

/-- the guard is implied by the property's quantifier -/
theorem C18_printable_noCtl (s : Bytes) (h : printable s = true) : noCtl s = true :=
  printable_noCtl h

/-- … and it is needed: Tera copies a CR, an HTML tokenizer reads it (and CR LF) as LF. -/
theorem C18_html_cr_outside :
    scanHtmlText (html [97, 13, 98] ++ [60]) = some ([97, 10, 98], []) ∧
    scanHtmlAttr (html [97, 13, 10, 98] ++ [34]) = some ([97, 10, 98], []) := by
  decide

/-! ### the sinks of the templates (Escape.lean, "The sinks of the HTML templates") -/

/-- `<title>Grcov report - {{ current }} </title>` (file.html 4, index.html 4): after the
template's `<title>` the tokenizer reads the text `Grcov report - NAME ` – exactly the name
between the template's words – and continues at the template's `</title>`; the markup skeleton
of the fragment does not depend on the name. -/
theorem C18_sink_title (current rest : Bytes) (h : noCtl current = true) :
    (∃ tail, titleFrag current ++ rest = titleOpen ++ tail ∧
      scanHtmlText tail = some (titleLead ++ current ++ [32], titleClose ++ rest)) ∧
    metaOf (titleFrag current) = metaOf (titleFrag []) :=
  ⟨titleFrag_scan current rest h, titleFrag_meta current⟩

/-- `<li class="is-active"><a href="#">{{ current }}</a></li>` (macros.html 18): the link text
is exactly the name, followed by the template's `</a></li>`. -/
theorem C18_sink_current (current rest : Bytes) (h : noCtl current = true) :
    (∃ tail, currentItem current ++ rest = currentOpen ++ tail ∧
      scanHtmlText tail = some (current, aLiClose ++ rest)) ∧
    metaOf (currentItem current) = metaOf (currentItem []) :=
  ⟨currentItem_scan current rest h, currentItem_meta current⟩

/-- `<li><a href="{{ parent.0 }}">{{ parent.1 }}</a></li>` (macros.html 16), for every link and
label: one `a` element whose `href` is exactly the link and whose text is exactly the label,
followed by the template's `</a></li>`; the skeleton does not depend on either. -/
theorem C18_sink_breadcrumb (link label rest : Bytes) (hl : noCtl link = true)
    (hb : noCtl label = true) :
    (∃ tail, breadcrumbItem link label ++ rest
        = [60, 108, 105, 62, 60, 97, 32, 104, 114, 101, 102, 61, 34] ++ tail ∧
      scanHtmlAttr tail = some (link,
        62 :: (html label ++ 60 :: ([47, 97, 62, 60, 47, 108, 105, 62] ++ rest))) ∧
      scanHtmlText (html label ++ 60 :: ([47, 97, 62, 60, 47, 108, 105, 62] ++ rest))
        = some (label, [47, 97, 62, 60, 47, 108, 105, 62] ++ rest)) ∧
    metaOf (breadcrumbItem link label) = metaOf (breadcrumbItem [] []) := by
  refine ⟨⟨html link ++ 34 :: 62 :: (html label ++ 60 ::
      ([47, 97, 62, 60, 47, 108, 105, 62] ++ rest)), ?_, ?_, ?_⟩, breadcrumbItem_meta link label⟩
  · simp [breadcrumbItem]
  · exact scanHtmlAttr_html link _ (noCtl_no13 hl)
  · exact scanHtmlText_html label _ (noCtl_no13 hb)

/-- Whatever `--abs-link-prefix` is (absent or any string without control characters) and
whatever the parent directory is called, the links `gen_html` computes for the breadcrumb are
read back exactly and the attribute ends at the template's own quote. -/
theorem C18_breadcrumb_href (absPrefix : Option Bytes) (parent rest : Bytes) (depth : Nat)
    (hp : ∀ p, absPrefix = some p → noCtl p = true) (hpar : noCtl parent = true) :
    scanHtmlAttr (html (fileParentLink absPrefix parent) ++ 34 :: rest)
      = some (fileParentLink absPrefix parent, rest) ∧
    scanHtmlAttr (html (fileTopLink absPrefix depth) ++ 34 :: rest)
      = some (fileTopLink absPrefix depth, rest) :=
  ⟨scanHtmlAttr_html _ rest (noCtl_no13 (noCtl_fileParentLink absPrefix parent hp hpar)),
   scanHtmlAttr_html _ rest (noCtl_no13 (noCtl_fileTopLink absPrefix depth hp))⟩

/-- `<th><a href="{{ url }}">{{ name }}</a></th>` (`stats_line`, macros.html 40), for every link
and name: the `href` is exactly the link, the text exactly the name, then the template's
`</a></th>`; the skeleton does not depend on either. -/
theorem C18_sink_row (url name rest : Bytes) (hu : noCtl url = true) (hn : noCtl name = true) :
    (∃ tail, rowLink url name ++ rest = rowOpen ++ tail ∧
      scanHtmlAttr tail = some (url, 62 :: (html name ++ 60 :: (aThClose ++ rest))) ∧
      scanHtmlText (html name ++ 60 :: (aThClose ++ rest)) = some (name, aThClose ++ rest)) ∧
    metaOf (rowLink url name) = metaOf (rowLink [] []) :=
  ⟨rowLink_scan url name rest hu hn, rowLink_meta url name⟩

/-- … with the link of a directory row of the top-level index (index.html 23/25), for every
prefix option and every directory name. -/
theorem C18_sink_row_dir (absPrefix : Option Bytes) (item rest : Bytes)
    (hp : ∀ p, absPrefix = some p → noCtl p = true) (hi : noCtl item = true) :
    ∃ tail, rowLink (dirRowUrl absPrefix item) item ++ rest = rowOpen ++ tail ∧
      scanHtmlAttr tail
        = some (dirRowUrl absPrefix item, 62 :: (html item ++ 60 :: (aThClose ++ rest))) ∧
      scanHtmlText (html item ++ 60 :: (aThClose ++ rest)) = some (item, aThClose ++ rest) :=
  rowLink_scan _ item rest (noCtl_dirRowUrl absPrefix item hp hi) hi

/-- … and of a file row of a directory index (index.html 31/33). -/
theorem C18_sink_row_file (dirPrefix : Option Bytes) (item rest : Bytes)
    (hp : ∀ p, dirPrefix = some p → noCtl p = true) (hi : noCtl item = true) :
    ∃ tail, rowLink (fileRowUrl dirPrefix item) item ++ rest = rowOpen ++ tail ∧
      scanHtmlAttr tail
        = some (fileRowUrl dirPrefix item, 62 :: (html item ++ 60 :: (aThClose ++ rest))) ∧
      scanHtmlText (html item ++ 60 :: (aThClose ++ rest)) = some (item, aThClose ++ rest) :=
  rowLink_scan _ item rest (noCtl_fileRowUrl dirPrefix item hp hi) hi

/-- `<pre class="has-background-… py-0 px-2">{{ item.2 }}</pre>` (file.html 40), for every source
line: the text of the `pre` element is exactly the line, followed by the template's `</pre>`; the
skeleton does not depend on the line. -/
theorem C18_sink_pre (cls text rest : Bytes) (h : noCtl text = true) :
    (∃ tail, preLine cls text ++ rest = preOpen1 ++ cls ++ preOpen2 ++ tail ∧
      scanHtmlText tail = some (text, preClose ++ rest)) ∧
    metaOf (preLine cls text) = metaOf (preLine cls []) :=
  ⟨preLine_scan cls text rest h, preLine_meta cls text⟩

/-! ### links built from names -/

/-- Without `--abs-link-prefix` the row links of the index pages (`"./"~item~"/index.html"`,
`"./"~item~".html"`) are relative references whatever the directory or file is called: a name
such as `javascript:alert(1)` cannot turn the link into an absolute URL. (That the `href`
attribute carries exactly this link is `C18_html_attr_scan`.) -/
theorem C18_row_href_relative (item : Bytes) :
    hasScheme (dirRowUrl none item) = false ∧ hasScheme (fileRowUrl none item) = false := by
  constructor
  · simp only [dirRowUrl, List.append_assoc]; exact hasScheme_dotSlash _
  · simp only [fileRowUrl, List.append_assoc]; exact hasScheme_dotSlash _

/-- With a prefix, a file row is `Q~"/"~item~".html"`: whether it has a scheme is decided by `Q`
alone, for every `Q` and every file name. -/
theorem C18_file_row_href_prefixed (q item : Bytes) :
    hasScheme (fileRowUrl (some q) item) = hasScheme q :=
  hasScheme_fileRowUrl_some q item

/-- Full-strength statement for the prefixed links: whatever the prefix `P`, the scheme of a
directory row (`P~item~"/index.html"`), of a file row under `P/<parent>` and of the breadcrumb
link `P/<parent>/index.html` is the scheme of `P` – names have no say. -/
def C18_prefixed_links_scheme_stmt : Prop :=
  ∀ (p parent item : Bytes), parent.head? ≠ some 47 →
    hasScheme (dirRowUrl (some p) item) = hasScheme p ∧
    hasScheme (fileRowUrl (some (pathJoin p parent)) item) = hasScheme p ∧
    hasScheme (fileParentLink (some p) parent) = hasScheme p

/-- It is false of the code for prefixes that are neither a URL nor a path: the directory row is
`P~item` with nothing in between, so `--abs-link-prefix java` and a directory `script:alert(1)`
give `javascript:alert(1)/index.html`. -/
theorem C18_prefixed_links_scheme_false : ¬ C18_prefixed_links_scheme_stmt := by
  intro h
  have := (h [106, 97, 118, 97] []
    [115, 99, 114, 105, 112, 116, 58, 97, 108, 101, 114, 116, 40, 49, 41] (by decide)).1
  revert this
  decide

/-- For every prefix that contains a `/` or a `:` (every absolute URL or path – the guard the
witness violates) and every relative parent directory (`gen_html` returns early otherwise), the
scheme of all three kinds of prefixed link is the prefix's own. -/
theorem C18_prefixed_links_scheme_partial (p parent item : Bytes) (h : 47 ∈ p ∨ 58 ∈ p)
    (hrel : parent.head? ≠ some 47) :
    hasScheme (dirRowUrl (some p) item) = hasScheme p ∧
    hasScheme (fileRowUrl (some (pathJoin p parent)) item) = hasScheme p ∧
    hasScheme (fileParentLink (some p) parent) = hasScheme p := by
  refine ⟨hasScheme_dirRowUrl_some p item h, ?_, hasScheme_fileParentLink_some p parent h hrel⟩
  obtain ⟨z, hz⟩ := pathJoin_eq_append p parent hrel
  rw [hasScheme_fileRowUrl_some, hz]
  exact hasScheme_append_of_mem p z h

/-- Observation (not an injection; a broken link – C03's subject as much as C18's): with
`--abs-link-prefix P` the directory rows of the top-level index are `P~item~"/index.html"` with
nothing between prefix and directory (index.html 23), while the pages below are linked as
`P/<dir>/…` everywhere else (`fileParentLink`, `fileRowUrl`). For every prefix that does not end in
`/` the two differ: the row does not lead to the page the breadcrumb of that page names. -/
theorem C18_dir_row_prefix_no_separator (p item : Bytes) (hp : p ≠ []) (hl : p.getLast? ≠ some 47)
    (hi : item.head? ≠ some 47) (hne : item ≠ []) (hil : item.getLast? ≠ some 47) :
    dirRowUrl (some p) item = p ++ item ++ [47] ++ indexHtml ∧
    fileParentLink (some p) item = p ++ [47] ++ item ++ [47] ++ indexHtml ∧
    dirRowUrl (some p) item ≠ fileParentLink (some p) item :=
  dirRow_no_separator p item hp hl hi hne hil

/-- the witness of the observation: `http://h` + `src` gives `http://hsrc/index.html` -/
example : dirRowUrl (some [104, 116, 116, 112, 58, 47, 47, 104]) [115, 114, 99]
    = [104, 116, 116, 112, 58, 47, 47, 104, 115, 114, 99, 47, 105, 110, 100, 101, 120, 46, 104,
       116, 109, 108] ∧
    fileParentLink (some [104, 116, 116, 112, 58, 47, 47, 104]) [115, 114, 99]
    = [104, 116, 116, 112, 58, 47, 47, 104, 47, 115, 114, 99, 47, 105, 110, 100, 101, 120, 46, 104,
       116, 109, 108] := by decide

/-! ### non-vacuity: concrete hostile inputs through the executable model -/

/-- `a"/><x y='1'>&amp;]]>é`  as a cobertura attribute -/
example : scanAttr (xmlAttr [97, 34, 47, 62, 60, 120, 32, 121, 61, 39, 49, 39, 62, 38, 97, 109, 112,
      59, 93, 93, 62, 195, 169] ++ 34 :: [32, 122, 61, 34])
    = some ([97, 34, 47, 62, 60, 120, 32, 121, 61, 39, 49, 39, 62, 38, 97, 109, 112, 59, 93, 93, 62,
      195, 169], [32, 122, 61, 34]) := by decide

/-- `"},{"name":"x` + LF + backslash as a JSON string -/
example : scanJson [] (jsonStr [34, 125, 44, 123, 34, 110, 97, 109, 101, 34, 58, 34, 120, 10, 92]
      ++ 34 :: [125])
    = some ([34, 125, 44, 123, 34, 110, 97, 109, 101, 34, 58, 34, 120, 10, 92], [125]) := by decide

/-- `</pre><script>alert('x')</script>&lt;` as a source line -/
example : html [60, 47, 112, 114, 101, 62, 60, 115, 99, 114, 105, 112, 116, 62, 39, 38, 108, 116, 59]
    = [38, 108, 116, 59, 38, 35, 120, 50, 70, 59, 112, 114, 101, 38, 103, 116, 59, 38, 108, 116, 59,
       115, 99, 114, 105, 112, 116, 38, 103, 116, 59, 38, 35, 120, 50, 55, 59, 38, 97, 109, 112, 59,
       108, 116, 59] := by decide

/-- the former witnesses: prefix `http://h`, directory `x"><b id=pwn>` – the attribute now carries
the whole link and ends at the template's quote -/
example : scanHtmlAttr (html (fileParentLink (some [104, 116, 116, 112, 58, 47, 47, 104])
      [120, 34, 62, 60, 98, 32, 105, 100, 61, 112, 119, 110, 62]) ++ [34, 62])
    = some ([104, 116, 116, 112, 58, 47, 47, 104, 47, 120, 34, 62, 60, 98, 32, 105, 100, 61, 112,
        119, 110, 62, 47, 105, 110, 100, 101, 120, 46, 104, 116, 109, 108], [62]) := by decide

/-- … and a directory `javascript:alert(1)` gives `./javascript:alert(1)/index.html` -/
example : dirRowUrl none [106, 97, 118, 97, 115, 99, 114, 105, 112, 116, 58, 97, 108, 101, 114, 116,
      40, 49, 41]
    = [46, 47, 106, 97, 118, 97, 115, 99, 114, 105, 112, 116, 58, 97, 108, 101, 114, 116, 40, 49, 41,
       47, 105, 110, 100, 101, 120, 46, 104, 116, 109, 108] := by decide

/-- the guard of `C18_prefixed_links_scheme_partial` is satisfiable and non-trivial:
`http://h` has a scheme, `/srv/www` has none, and neither can be changed by `script:x` -/
example : hasScheme (dirRowUrl (some [104, 116, 116, 112, 58, 47, 47, 104]) [115, 99, 58, 120]) = true
    ∧ hasScheme (dirRowUrl (some [47, 115, 114, 118]) [115, 99, 58, 120]) = false := by decide

/-- the guards are satisfiable by hostile names: `a"/><x y='1'>&amp;]]>é` is `printable`, and so
is it with a TAB for `textSafe` -/
example : printable [97, 34, 47, 62, 60, 120, 32, 121, 61, 39, 49, 39, 62, 38, 97, 109, 112,
      59, 93, 93, 62, 195, 169] = true ∧ textSafe [9, 60, 93, 93, 62, 10] = true ∧
    printable [97, 9] = false ∧ textSafe [97, 13] = false := by decide

/-- the title sink on the file name `</title><script>x` -/
example : scanHtmlText ((titleFrag [60, 47, 116, 105, 116, 108, 101, 62, 60, 115, 99, 114, 105, 112,
      116, 62, 120]).drop 7)
    = some (titleLead ++ [60, 47, 116, 105, 116, 108, 101, 62, 60, 115, 99, 114, 105, 112, 116, 62,
      120] ++ [32], titleClose) := by decide

/-- the row sink on the directory `x"><b id=pwn>` with prefix `http://h/`: href and text are read
back exactly, and the skeleton is the template's `<><"">` … -/
example : scanHtmlAttr ((rowLink (dirRowUrl (some [104, 116, 116, 112, 58, 47, 47, 104, 47])
        [120, 34, 62, 60, 98, 32, 105, 100, 61, 112, 119, 110, 62])
        [120, 34, 62, 60, 98, 32, 105, 100, 61, 112, 119, 110, 62]).drop 13)
    = some ([104, 116, 116, 112, 58, 47, 47, 104, 47, 120, 34, 62, 60, 98, 32, 105, 100, 61, 112,
        119, 110, 62, 47, 105, 110, 100, 101, 120, 46, 104, 116, 109, 108],
      62 :: (html [120, 34, 62, 60, 98, 32, 105, 100, 61, 112, 119, 110, 62] ++ 60 :: aThClose)) ∧
    metaOf (rowLink [120, 34, 62] [60, 39]) = [60, 62, 60, 34, 34, 62, 60, 62, 60, 62] := by decide

/-- the source-line sink on `</pre><script>alert('x')</script>` -/
example : scanHtmlText ((preLine [119, 104, 105, 116, 101] [60, 47, 112, 114, 101, 62, 60, 115, 99,
      114, 105, 112, 116, 62, 39]).drop (27 + 5 + 12))
    = some ([60, 47, 112, 114, 101, 62, 60, 115, 99, 114, 105, 112, 116, 62, 39], preClose) := by
  decide

end Grcov.Props.C18
