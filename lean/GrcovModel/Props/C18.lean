/-
C18 — reports stay well-formed whatever the names and source text contain.

Property theorems about `GrcovModel/Escape.lean` (the model of quick-xml's `escape`, serde_json's
string writer and Tera's `escape_html`, and of the readers on the consuming side). Helper lemmas:
GrcovModel/Lemmas/Escape.lean. All strings are UTF-8 byte lists; every theorem quantifies over ALL
byte lists (hostile metacharacters, quotes, `]]>`, `&amp;`, non-ASCII, any length). The one guard
that the property's own quantifier supplies ("no control characters or line terminators") is
needed in exactly one place: an XML parser reads a literal TAB/LF/CR inside an attribute value as
a space, and quick-xml's `escape` leaves those three bytes alone (`NoTabNl`).

Status: full strength, including the breadcrumb link of a file page (escaped since /repo ffd66c7,
`C18_breadcrumb_href`, `C18_breadcrumb_item`: every prefix option, every directory name) and the
row links of the index pages without a prefix (explicitly relative since /repo 8e4c27e,
`C18_row_href_relative`). One `…_partial` remains, about configuration rather than names: with
`--abs-link-prefix P` the directory rows are `P~item` without a separator (index.html 23), so the
statement "a name cannot change the scheme of a prefixed link" needs `P` to contain a `/` or a `:`
(any absolute URL or path); it is refuted for `P = java`, directory `script:alert(1)`
(`C18_prefixed_links_scheme_false`).
What the theorems do not cover (checked at run time by harness/c18 on whole reports): that the
writers of cobertura.rs / output.rs / html.rs route every name through these routines and that
the fixed text around the names is what the templates say.
-/
import GrcovModel.Lemmas.Escape
import GrcovModel.Props.C18CobBytes
namespace Grcov.Props.C18
open Grcov.Escape

/-! ### Cobertura (quick-xml) -/

/-- Resolving the entities of an escaped attribute value gives back exactly the name. -/
theorem C18_xml_attr_roundtrip (s : Bytes) : unescapeEnt (xmlAttr s) = some s :=
  unescapeEnt_escapeWith pieceOk_xmlAttr s

/-- An escaped attribute value contains no raw `<`, `>`, `"` or `'`. -/
theorem C18_xml_attr_no_meta (s : Bytes) :
    60 ∉ xmlAttr s ∧ 62 ∉ xmlAttr s ∧ 34 ∉ xmlAttr s ∧ 39 ∉ xmlAttr s :=
  ⟨not_mem_escapeWith _ 60 (xmlAttrTab_no 60 (by simp)) s,
   not_mem_escapeWith _ 62 (xmlAttrTab_no 62 (by simp)) s,
   not_mem_escapeWith _ 34 (xmlAttrTab_no 34 (by simp)) s,
   not_mem_escapeWith _ 39 (xmlAttrTab_no 39 (by simp)) s⟩

/-- Every `&` of an escaped value is the first byte of one of the five entities the writer
emits (`&lt; &gt; &apos; &amp; &quot;`): a name cannot smuggle in a reference of its own. -/
theorem C18_xml_attr_amp (s : Bytes) (i : Nat) (h : (xmlAttr s)[i]? = some 38) :
    ∃ e ∈ xmlEntities, e <+: (xmlAttr s).drop i :=
  ampOk_spec xmlEntities _ (ampOk_escapeWith xmlEntities xmlAttrTab ampOk_xmlAttrTab s) i h

/-- An XML parser that starts reading after the opening quote of `name="…"` reports exactly the
name and continues exactly at what the writer put after the closing quote: a hostile name cannot
end the attribute, start another attribute or open an element. (Names without TAB/LF/CR: the
property's quantifier.) -/
theorem C18_xml_attr_scan (s rest : Bytes) (h : NoTabNl s) :
    scanAttr (xmlAttr s ++ 34 :: rest) = some (s, rest) :=
  scanAttr_xmlAttr s rest h

/-- The `<source>` text: read back exactly, up to the `<` of the closing tag, and it contains no
raw `>` (so no `]]>`). -/
theorem C18_xml_text_scan (s rest : Bytes) :
    scanXmlText (xmlText s ++ 60 :: rest) = some (s, rest) ∧ 62 ∉ xmlText s :=
  ⟨scanXmlText_xmlText s rest, not_mem_escapeWith _ 62 (xmlAttrTab_no 62 (by simp)) s⟩

/-! ### Coveralls, covdir, ActiveData-ETL, coverage.json (serde_json) -/

/-- Decoding the body of the string literal gives back exactly the name – for every byte string,
control characters included. -/
theorem C18_json_roundtrip (s : Bytes) : jsonUnescape (jsonStr s) = some s :=
  jsonUnescape_jsonStr s

/-- A JSON parser that starts after the opening quote reports exactly the name and continues
after the closing quote the writer emitted: a name cannot end the string, add a key or a record. -/
theorem C18_json_scan (s rest : Bytes) :
    scanJson [] (jsonStr s ++ 34 :: rest) = some (s, rest) := by
  simpa using scanJson_jsonStr s [] rest

/-- No byte below 0x20 is written: in particular no raw line feed, so a name cannot add a line
(= a record) to the line-delimited ActiveData output. -/
theorem C18_json_no_control (s : Bytes) : ∀ y ∈ jsonStr s, 32 ≤ y :=
  forall_mem_escapeWith' jsonTab _ jsonTab_ge32 s

/-! ### HTML pages (Tera auto-escape) -/

/-- Resolving the character references of an escaped string gives back exactly the text. -/
theorem C18_html_roundtrip (s : Bytes) : unescapeEnt (html s) = some s :=
  unescapeEnt_escapeWith pieceOk_html s

/-- Escaped text contains no raw `<`, `>`, `"`, `'` or `/`. -/
theorem C18_html_no_meta (s : Bytes) :
    60 ∉ html s ∧ 62 ∉ html s ∧ 34 ∉ html s ∧ 39 ∉ html s ∧ 47 ∉ html s :=
  ⟨not_mem_escapeWith _ 60 (htmlTab_no 60 (by simp)) s,
   not_mem_escapeWith _ 62 (htmlTab_no 62 (by simp)) s,
   not_mem_escapeWith _ 34 (htmlTab_no 34 (by simp)) s,
   not_mem_escapeWith _ 39 (htmlTab_no 39 (by simp)) s,
   not_mem_escapeWith _ 47 (htmlTab_no 47 (by simp)) s⟩

/-- Every `&` starts one of the six references Tera emits. -/
theorem C18_html_amp (s : Bytes) (i : Nat) (h : (html s)[i]? = some 38) :
    ∃ e ∈ htmlEntities, e <+: (html s).drop i :=
  ampOk_spec htmlEntities _ (ampOk_escapeWith htmlEntities htmlTab ampOk_htmlTab s) i h

/-- Names and source lines in element content (`<pre>{{ item.2 }}</pre>`, `<a …>{{ name }}</a>`,
`<title>`): the tokenizer reports exactly the text and the next tag is the template's own. -/
theorem C18_html_text_scan (s rest : Bytes) :
    scanHtmlText (html s ++ 60 :: rest) = some (s, rest) :=
  scanHtmlText_html s rest

/-- Names inside a double-quoted attribute (`href="{{ url }}"`): the value is exactly the name
and the attribute ends at the template's own quote. -/
theorem C18_html_attr_scan (s rest : Bytes) :
    scanHtmlAttr (html s ++ 34 :: rest) = some (s, rest) :=
  scanHtmlAttr_html s rest

/-! ### the breadcrumb of a file page (macros.html 15-17) -/

/-- Whatever `--abs-link-prefix` is (absent or any string) and whatever the parent directory is
called, a parser reads back exactly the link that `gen_html` computed and the attribute ends at
the template's own quote. -/
theorem C18_breadcrumb_href (absPrefix : Option Bytes) (parent rest : Bytes) :
    scanHtmlAttr (html (fileParentLink absPrefix parent) ++ 34 :: rest)
      = some (fileParentLink absPrefix parent, rest) :=
  scanHtmlAttr_html _ rest

/-- The whole breadcrumb item `<li><a href="LINK">LABEL</a></li>`, for every link and label, is
tokenized as the template wrote it: one `a` element whose `href` is exactly the link and whose
text is exactly the label, followed by the template's `</a></li>`. -/
theorem C18_breadcrumb_item (link label rest : Bytes) :
    ∃ tail, breadcrumbItem link label ++ rest
        = [60, 108, 105, 62, 60, 97, 32, 104, 114, 101, 102, 61, 34] ++ tail ∧
      scanHtmlAttr tail = some (link,
        62 :: (html label ++ 60 :: ([47, 97, 62, 60, 47, 108, 105, 62] ++ rest))) ∧
      scanHtmlText (html label ++ 60 :: ([47, 97, 62, 60, 47, 108, 105, 62] ++ rest))
        = some (label, [47, 97, 62, 60, 47, 108, 105, 62] ++ rest) := by
  refine ⟨html link ++ 34 :: 62 :: (html label ++ 60 ::
      ([47, 97, 62, 60, 47, 108, 105, 62] ++ rest)), ?_, ?_, ?_⟩
  · simp [breadcrumbItem]
  · exact scanHtmlAttr_html link _
  · exact scanHtmlText_html label _

/-! ### links built from names -/

/-- Without `--abs-link-prefix` the row links of the index pages (`"./"~item~"/index.html"`,
`"./"~item~".html"`) are relative references whatever the directory or file is called: a name
such as `javascript:alert(1)` cannot turn the link into an absolute URL. (That the `href`
attribute carries exactly this link is `C18_html_attr_scan`.) -/
theorem C18_row_href_relative (item : Bytes) :
    hasScheme (dirRowUrl none item) = false ∧ hasScheme (fileRowUrl none item) = false := by
  constructor
  · simp only [dirRowUrl, List.append_assoc]; exact hasScheme_dotSlash _
  · simp only [fileRowUrl, List.append_assoc]; exact hasScheme_dotSlash _

/-- With a prefix, a file row is `Q~"/"~item~".html"`: whether it has a scheme is decided by `Q`
alone, for every `Q` and every file name. -/
theorem C18_file_row_href_prefixed (q item : Bytes) :
    hasScheme (fileRowUrl (some q) item) = hasScheme q :=
  hasScheme_fileRowUrl_some q item

/-- Full-strength statement for the prefixed links: whatever the prefix `P`, the scheme of a
directory row (`P~item~"/index.html"`), of a file row under `P/<parent>` and of the breadcrumb
link `P/<parent>/index.html` is the scheme of `P` – names have no say. -/
def C18_prefixed_links_scheme_stmt : Prop :=
  ∀ (p parent item : Bytes), parent.head? ≠ some 47 →
    hasScheme (dirRowUrl (some p) item) = hasScheme p ∧
    hasScheme (fileRowUrl (some (pathJoin p parent)) item) = hasScheme p ∧
    hasScheme (fileParentLink (some p) parent) = hasScheme p

/-- It is false of the code for prefixes that are neither a URL nor a path: the directory row is
`P~item` with nothing in between, so `--abs-link-prefix java` and a directory `script:alert(1)`
give `javascript:alert(1)/index.html`. -/
theorem C18_prefixed_links_scheme_false : ¬ C18_prefixed_links_scheme_stmt := by
  intro h
  have := (h [106, 97, 118, 97] []
    [115, 99, 114, 105, 112, 116, 58, 97, 108, 101, 114, 116, 40, 49, 41] (by decide)).1
  revert this
  decide

/-- For every prefix that contains a `/` or a `:` (every absolute URL or path – the guard the
witness violates) and every relative parent directory (`gen_html` returns early otherwise), the
scheme of all three kinds of prefixed link is the prefix's own. -/
theorem C18_prefixed_links_scheme_partial (p parent item : Bytes) (h : 47 ∈ p ∨ 58 ∈ p)
    (hrel : parent.head? ≠ some 47) :
    hasScheme (dirRowUrl (some p) item) = hasScheme p ∧
    hasScheme (fileRowUrl (some (pathJoin p parent)) item) = hasScheme p ∧
    hasScheme (fileParentLink (some p) parent) = hasScheme p := by
  refine ⟨hasScheme_dirRowUrl_some p item h, ?_, hasScheme_fileParentLink_some p parent h hrel⟩
  obtain ⟨z, hz⟩ := pathJoin_eq_append p parent hrel
  rw [hasScheme_fileRowUrl_some, hz]
  exact hasScheme_append_of_mem p z h

/-! ### non-vacuity: concrete hostile inputs through the executable model -/

/-- `a"/><x y='1'>&amp;]]>é`  as a cobertura attribute -/
example : scanAttr (xmlAttr [97, 34, 47, 62, 60, 120, 32, 121, 61, 39, 49, 39, 62, 38, 97, 109, 112,
      59, 93, 93, 62, 195, 169] ++ 34 :: [32, 122, 61, 34])
    = some ([97, 34, 47, 62, 60, 120, 32, 121, 61, 39, 49, 39, 62, 38, 97, 109, 112, 59, 93, 93, 62,
      195, 169], [32, 122, 61, 34]) := by decide

/-- the guard of `C18_xml_attr_scan` is needed: a line feed in a name comes back as a space -/
example : scanAttr (xmlAttr [97, 10, 98] ++ [34]) = some ([97, 32, 98], []) := by decide

/-- `"},{"name":"x` + LF + backslash as a JSON string -/
example : scanJson [] (jsonStr [34, 125, 44, 123, 34, 110, 97, 109, 101, 34, 58, 34, 120, 10, 92]
      ++ 34 :: [125])
    = some ([34, 125, 44, 123, 34, 110, 97, 109, 101, 34, 58, 34, 120, 10, 92], [125]) := by decide

/-- `</pre><script>alert('x')</script>&lt;` as a source line -/
example : html [60, 47, 112, 114, 101, 62, 60, 115, 99, 114, 105, 112, 116, 62, 39, 38, 108, 116, 59]
    = [38, 108, 116, 59, 38, 35, 120, 50, 70, 59, 112, 114, 101, 38, 103, 116, 59, 38, 108, 116, 59,
       115, 99, 114, 105, 112, 116, 38, 103, 116, 59, 38, 35, 120, 50, 55, 59, 38, 97, 109, 112, 59,
       108, 116, 59] := by decide

/-- the former witnesses: prefix `http://h`, directory `x"><b id=pwn>` – the attribute now carries
the whole link and ends at the template's quote -/
example : scanHtmlAttr (html (fileParentLink (some [104, 116, 116, 112, 58, 47, 47, 104])
      [120, 34, 62, 60, 98, 32, 105, 100, 61, 112, 119, 110, 62]) ++ [34, 62])
    = some ([104, 116, 116, 112, 58, 47, 47, 104, 47, 120, 34, 62, 60, 98, 32, 105, 100, 61, 112,
        119, 110, 62, 47, 105, 110, 100, 101, 120, 46, 104, 116, 109, 108], [62]) := by decide

/-- … and a directory `javascript:alert(1)` gives `./javascript:alert(1)/index.html` -/
example : dirRowUrl none [106, 97, 118, 97, 115, 99, 114, 105, 112, 116, 58, 97, 108, 101, 114, 116,
      40, 49, 41]
    = [46, 47, 106, 97, 118, 97, 115, 99, 114, 105, 112, 116, 58, 97, 108, 101, 114, 116, 40, 49, 41,
       47, 105, 110, 100, 101, 120, 46, 104, 116, 109, 108] := by decide

/-- the guard of `C18_prefixed_links_scheme_partial` is satisfiable and non-trivial:
`http://h` has a scheme, `/srv/www` has none, and neither can be changed by `script:x` -/
example : hasScheme (dirRowUrl (some [104, 116, 116, 112, 58, 47, 47, 104]) [115, 99, 58, 120]) = true
    ∧ hasScheme (dirRowUrl (some [47, 115, 114, 118]) [115, 99, 58, 120]) = false := by decide

end Grcov.Props.C18
