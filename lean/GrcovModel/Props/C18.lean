/-
C18 — reports stay well-formed whatever the names and source text contain.

Property theorems about `GrcovModel/Escape.lean` (the model of quick-xml's `escape`, serde_json's
string writer and Tera's `escape_html`, and of the readers on the consuming side). Helper lemmas:
GrcovModel/Lemmas/Escape.lean. All strings are UTF-8 byte lists; every theorem quantifies over ALL
byte lists (hostile metacharacters, quotes, `]]>`, `&amp;`, non-ASCII, any length). The one guard
that the property's own quantifier supplies ("no control characters or line terminators") is
needed in exactly one place: an XML parser reads a literal TAB/LF/CR inside an attribute value as
a space, and quick-xml's `escape` leaves those three bytes alone (`NoTabNl`).

Status: everything is full strength except the `| safe` breadcrumb link of a file page
(templates/macros.html 16 + html.rs 436-448): with `--abs-link-prefix` the parent directory name
reaches the `href` unescaped, so the full statement is refuted from a closed witness
(`C18_breadcrumb_href_false`) and proved under "no prefix" (`…_partial`). Finding
C18-abs-prefix-href. A second, escaping-independent defect: the row links of the index pages are
the bare name followed by `/index.html` / `.html`, so a name that starts like a URL scheme
(`javascript:…`) yields an absolute link (`C18_row_href_relative_false`, `…_partial` for names
without `:`). Finding C18-href-scheme-from-name.
What the theorems do not cover (checked at run time by harness/c18 on whole reports): that the
writers of cobertura.rs / output.rs / html.rs route every name through these routines and that
the fixed text around the names is what the templates say.
-/
import GrcovModel.Lemmas.Escape
namespace Grcov.Props.C18
open Grcov.Escape

/-! ### Cobertura (quick-xml) -/

/-- Resolving the entities of an escaped attribute value gives back exactly the name. -/
theorem C18_xml_attr_roundtrip (s : Bytes) : unescapeEnt (xmlAttr s) = some s :=
  unescapeEnt_escapeWith pieceOk_xmlAttr s

/-- An escaped attribute value contains no raw `<`, `>`, `"` or `'`. -/
theorem C18_xml_attr_no_meta (s : Bytes) :
    60 ∉ xmlAttr s ∧ 62 ∉ xmlAttr s ∧ 34 ∉ xmlAttr s ∧ 39 ∉ xmlAttr s :=
  ⟨not_mem_escapeWith _ 60 (xmlAttrTab_no 60 (by simp)) s,
   not_mem_escapeWith _ 62 (xmlAttrTab_no 62 (by simp)) s,
   not_mem_escapeWith _ 34 (xmlAttrTab_no 34 (by simp)) s,
   not_mem_escapeWith _ 39 (xmlAttrTab_no 39 (by simp)) s⟩

/-- Every `&` of an escaped value is the first byte of one of the five entities the writer
emits (`&lt; &gt; &apos; &amp; &quot;`): a name cannot smuggle in a reference of its own. -/
theorem C18_xml_attr_amp (s : Bytes) (i : Nat) (h : (xmlAttr s)[i]? = some 38) :
    ∃ e ∈ xmlEntities, e <+: (xmlAttr s).drop i :=
  ampOk_spec xmlEntities _ (ampOk_escapeWith xmlEntities xmlAttrTab ampOk_xmlAttrTab s) i h

/-- An XML parser that starts reading after the opening quote of `name="…"` reports exactly the
name and continues exactly at what the writer put after the closing quote: a hostile name cannot
end the attribute, start another attribute or open an element. (Names without TAB/LF/CR: the
property's quantifier.) -/
theorem C18_xml_attr_scan (s rest : Bytes) (h : NoTabNl s) :
    scanAttr (xmlAttr s ++ 34 :: rest) = some (s, rest) :=
  scanAttr_xmlAttr s rest h

/-- The `<source>` text: read back exactly, up to the `<` of the closing tag, and it contains no
raw `>` (so no `]]>`). -/
theorem C18_xml_text_scan (s rest : Bytes) :
    scanXmlText (xmlText s ++ 60 :: rest) = some (s, rest) ∧ 62 ∉ xmlText s :=
  ⟨scanXmlText_xmlText s rest, not_mem_escapeWith _ 62 (xmlAttrTab_no 62 (by simp)) s⟩

/-! ### Coveralls, covdir, ActiveData-ETL, coverage.json (serde_json) -/

/-- Decoding the body of the string literal gives back exactly the name – for every byte string,
control characters included. -/
theorem C18_json_roundtrip (s : Bytes) : jsonUnescape (jsonStr s) = some s :=
  jsonUnescape_jsonStr s

/-- A JSON parser that starts after the opening quote reports exactly the name and continues
after the closing quote the writer emitted: a name cannot end the string, add a key or a record. -/
theorem C18_json_scan (s rest : Bytes) :
    scanJson [] (jsonStr s ++ 34 :: rest) = some (s, rest) := by
  simpa using scanJson_jsonStr s [] rest

/-- No byte below 0x20 is written: in particular no raw line feed, so a name cannot add a line
(= a record) to the line-delimited ActiveData output. -/
theorem C18_json_no_control (s : Bytes) : ∀ y ∈ jsonStr s, 32 ≤ y :=
  forall_mem_escapeWith' jsonTab _ jsonTab_ge32 s

/-! ### HTML pages (Tera auto-escape) -/

/-- Resolving the character references of an escaped string gives back exactly the text. -/
theorem C18_html_roundtrip (s : Bytes) : unescapeEnt (html s) = some s :=
  unescapeEnt_escapeWith pieceOk_html s

/-- Escaped text contains no raw `<`, `>`, `"`, `'` or `/`. -/
theorem C18_html_no_meta (s : Bytes) :
    60 ∉ html s ∧ 62 ∉ html s ∧ 34 ∉ html s ∧ 39 ∉ html s ∧ 47 ∉ html s :=
  ⟨not_mem_escapeWith _ 60 (htmlTab_no 60 (by simp)) s,
   not_mem_escapeWith _ 62 (htmlTab_no 62 (by simp)) s,
   not_mem_escapeWith _ 34 (htmlTab_no 34 (by simp)) s,
   not_mem_escapeWith _ 39 (htmlTab_no 39 (by simp)) s,
   not_mem_escapeWith _ 47 (htmlTab_no 47 (by simp)) s⟩

/-- Every `&` starts one of the six references Tera emits. -/
theorem C18_html_amp (s : Bytes) (i : Nat) (h : (html s)[i]? = some 38) :
    ∃ e ∈ htmlEntities, e <+: (html s).drop i :=
  ampOk_spec htmlEntities _ (ampOk_escapeWith htmlEntities htmlTab ampOk_htmlTab s) i h

/-- Names and source lines in element content (`<pre>{{ item.2 }}</pre>`, `<a …>{{ name }}</a>`,
`<title>`): the tokenizer reports exactly the text and the next tag is the template's own. -/
theorem C18_html_text_scan (s rest : Bytes) :
    scanHtmlText (html s ++ 60 :: rest) = some (s, rest) :=
  scanHtmlText_html s rest

/-- Names inside a double-quoted attribute (`href="{{ url }}"`): the value is exactly the name
and the attribute ends at the template's own quote. -/
theorem C18_html_attr_scan (s rest : Bytes) :
    scanHtmlAttr (html s ++ 34 :: rest) = some (s, rest) :=
  scanHtmlAttr_html s rest

/-! ### the `| safe` breadcrumb link -/

/-- Full-strength statement for the unescaped `href` of a file page's second breadcrumb: whatever
the prefix option and the parent directory name, a parser reads back the link that was computed
and the attribute ends at the template's quote. -/
def C18_breadcrumb_href_stmt : Prop :=
  ∀ (absPrefix : Option Bytes) (parent rest : Bytes),
    scanHtmlAttr (fileParentLink absPrefix parent ++ 34 :: rest)
      = some (fileParentLink absPrefix parent, rest)

/-- It is false of the code: `--abs-link-prefix http://h` and a directory called `x"><b id=pwn>`;
the attribute ends after `http://h/x` and `><b id=pwn>/index.html` is parsed as markup. -/
theorem C18_breadcrumb_href_false : ¬ C18_breadcrumb_href_stmt := by
  intro h
  have := h (some [104, 116, 116, 112, 58, 47, 47, 104])
    [120, 34, 62, 60, 98, 32, 105, 100, 61, 112, 119, 110, 62] []
  revert this
  decide

/-- Without `--abs-link-prefix` (the guard the witness violates) the link is `./index.html`
whatever the directory is called, and it is read back as such. -/
theorem C18_breadcrumb_href_partial (parent rest : Bytes) :
    scanHtmlAttr (fileParentLink none parent ++ 34 :: rest)
      = some (fileParentLink none parent, rest) :=
  scanHtmlAttr_parentLink_none parent rest

/-- … and the whole breadcrumb item `<li><a href="./index.html">NAME</a></li>` is tokenized as
the template wrote it: one link whose text is exactly the directory name, followed by `</a>`. -/
theorem C18_breadcrumb_item_partial (parent rest : Bytes) :
    ∃ tail, breadcrumbItem (fileParentLink none parent) parent ++ rest
        = [60, 108, 105, 62, 60, 97, 32, 104, 114, 101, 102, 61, 34] ++ tail ∧
      scanHtmlAttr tail = some (fileParentLink none parent,
        62 :: (html parent ++ 60 :: ([47, 97, 62, 60, 47, 108, 105, 62] ++ rest))) ∧
      scanHtmlText (html parent ++ 60 :: ([47, 97, 62, 60, 47, 108, 105, 62] ++ rest))
        = some (parent, [47, 97, 62, 60, 47, 108, 105, 62] ++ rest) := by
  refine ⟨fileParentLink none parent ++ 34 :: 62 :: (html parent ++ 60 ::
      ([47, 97, 62, 60, 47, 108, 105, 62] ++ rest)), ?_, ?_, ?_⟩
  · simp [breadcrumbItem]
  · exact scanHtmlAttr_parentLink_none parent _
  · exact scanHtmlText_html parent _

/-! ### links built from names -/

/-- Full-strength statement for the row links of the index pages (`item~"/index.html"`,
`item~".html"`, no prefix option): whatever the directory or file is called, the link is a relative
reference (it has no URL scheme), so following it stays inside the report. -/
def C18_row_href_relative_stmt : Prop :=
  ∀ item : Bytes, hasScheme (dirRowUrl item) = false ∧ hasScheme (fileRowUrl item) = false

/-- It is false of the code: a directory called `javascript:alert(1)` gives the link
`javascript:alert(1)/index.html` (escaping is irrelevant: `:` is not a metacharacter). -/
theorem C18_row_href_relative_false : ¬ C18_row_href_relative_stmt := by
  intro h
  have := (h [106, 97, 118, 97, 115, 99, 114, 105, 112, 116, 58, 97, 108, 101, 114, 116, 40, 49, 41]).1
  revert this
  decide

/-- Names without `:` (the guard the witness violates) always give relative links. -/
theorem C18_row_href_relative_partial (item : Bytes) (h : 58 ∉ item) :
    hasScheme (dirRowUrl item) = false ∧ hasScheme (fileRowUrl item) = false := by
  constructor
  · apply hasScheme_false_of_no_colon
    simp [dirRowUrl, indexHtml, h]
  · apply hasScheme_false_of_no_colon
    simp [fileRowUrl, h]

/-! ### non-vacuity: concrete hostile inputs through the executable model -/

/-- `a"/><x y='1'>&amp;]]>é`  as a cobertura attribute -/
example : scanAttr (xmlAttr [97, 34, 47, 62, 60, 120, 32, 121, 61, 39, 49, 39, 62, 38, 97, 109, 112,
      59, 93, 93, 62, 195, 169] ++ 34 :: [32, 122, 61, 34])
    = some ([97, 34, 47, 62, 60, 120, 32, 121, 61, 39, 49, 39, 62, 38, 97, 109, 112, 59, 93, 93, 62,
      195, 169], [32, 122, 61, 34]) := by decide

/-- the guard of `C18_xml_attr_scan` is needed: a line feed in a name comes back as a space -/
example : scanAttr (xmlAttr [97, 10, 98] ++ [34]) = some ([97, 32, 98], []) := by decide

/-- `"},{"name":"x` + LF + backslash as a JSON string -/
example : scanJson [] (jsonStr [34, 125, 44, 123, 34, 110, 97, 109, 101, 34, 58, 34, 120, 10, 92]
      ++ 34 :: [125])
    = some ([34, 125, 44, 123, 34, 110, 97, 109, 101, 34, 58, 34, 120, 10, 92], [125]) := by decide

/-- `</pre><script>alert('x')</script>&lt;` as a source line -/
example : html [60, 47, 112, 114, 101, 62, 60, 115, 99, 114, 105, 112, 116, 62, 39, 38, 108, 116, 59]
    = [38, 108, 116, 59, 38, 35, 120, 50, 70, 59, 112, 114, 101, 38, 103, 116, 59, 38, 108, 116, 59,
       115, 99, 114, 105, 112, 116, 38, 103, 116, 59, 38, 35, 120, 50, 55, 59, 38, 97, 109, 112, 59,
       108, 116, 59] := by decide

/-- what the parser sees at the excluded point -/
example : scanHtmlAttr (fileParentLink (some [104, 116, 116, 112, 58, 47, 47, 104])
      [120, 34, 62, 60, 98, 32, 105, 100, 61, 112, 119, 110, 62] ++ [34, 62])
    = some ([104, 116, 116, 112, 58, 47, 47, 104, 47, 120],
        [62, 60, 98, 32, 105, 100, 61, 112, 119, 110, 62, 47, 105, 110, 100, 101, 120, 46, 104, 116,
         109, 108, 34, 62]) := by decide

end Grcov.Props.C18
