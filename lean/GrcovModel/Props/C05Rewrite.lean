/-
C05, part `Rewrite` — the rewrite side of the lcov fixed point.
Re-importing a report that grcov wrote means: the reported relative paths become the keys of a new
result map (`Rewrite.reKeys`) and `rewrite_paths` runs again with the same options. The CLI-level
fixed point therefore needs `rewrite_paths` to be idempotent on its own output (path mapping
aside: the property excludes it). Property theorems only, about `Rewrite.rewritePaths`
(GrcovModel/Rewrite.lean); helper lemmas: GrcovModel/Lemmas/RewriteIdem.lean.

The full statement is FALSE of the code, from two closed witnesses (both replayed on the real code
by harness/c11/src/idem.rs and, at CLI level, by harness/c05):
* a RELATIVE `--prefix-dir a` strips `a/a/x.c` to `a/x.c` and, on re-import, to `x.c`
  (finding C05-relative-prefix-restripped);
* with `--source-dir /x/foo`, the path `foo/foo/bar.c` of a file that is NOT on disk is taken as
  relative to the parent of the source dir and reported as `foo/bar.c`, and on re-import as `bar.c`
  (finding C05-source-dir-name-restripped).
Proved under the guards the witnesses violate: the prefix dir absent or absolute, and every
reported file existing below the (clean, absolute) source dir; and for paths outside any option.
`C05_rewrite_idempotent_sharp` (second review, item 25) replaces the two coarse guard sets by three
conditions on the REPORTED paths, one per re-stripping mechanism – each of the three witnesses
violates exactly one of them, and configurations between the old guards (missing files below the
source dir, an absolute prefix without source dir, a relative prefix, absolute paths outside the
source dir) are covered.
-/
import GrcovModel.Lemmas.RewriteIdem
import GrcovModel.Lemmas.RewriteSharp
namespace Grcov.Props.C05
open Grcov Grcov.UPath Grcov.Glob Grcov.Rewrite

/-- Full statement: for every configuration without a path mapping, file system and result map,
feeding the reported relative paths back as keys, with the same configuration, reports the same
relative paths with the same data. FALSE of the code. -/
def C05_rewrite_idempotent_stmt : Prop :=
  ∀ (cfg : Cfg) (fs : FS) (m : List (Bytes × Cov)) (rep : List Rec),
    cfg.mapping = none → rewritePaths cfg fs m = .ok rep →
    ∃ rep', rewritePaths cfg fs (reKeys rep) = .ok rep' ∧ reKeys rep' = reKeys rep

/-- Witness 1 (C05-relative-prefix-restripped): `--prefix-dir a`, key `a/a/x.c`, nothing on disk:
reported as `a/x.c`; re-imported, `a/x.c` is reported as `x.c`. -/
theorem C05_rewrite_relative_prefix_witness :
    rewritePaths { prefixDir := some [97] } { files := [], dirs := [], cwd := [] } [([97, 47, 97, 47, 120, 46, 99], {})]
      = .ok [⟨[97, 47, 120, 46, 99], [97, 47, 120, 46, 99], {}⟩] ∧
    rewritePaths { prefixDir := some [97] } { files := [], dirs := [], cwd := [] } [([97, 47, 120, 46, 99], {})]
      = .ok [⟨[120, 46, 99], [120, 46, 99], {}⟩] := by decide

/-- Witness 2 (C05-source-dir-name-restripped): `--source-dir /x/foo` (an existing directory), key
`foo/foo/bar.c`, no such file: `guess_abs_path` finds that the source dir ends with the path's
first component and resolves the rest against it — reported as `foo/bar.c`; re-imported, `foo/bar.c`
is reported as `bar.c`. -/
theorem C05_rewrite_source_name_witness :
    rewritePaths { sourceDir := some [47, 120, 47, 102, 111, 111] }
        { files := [], dirs := [[[120]], [[120], [102, 111, 111]]], cwd := [[120]] }
        [([102, 111, 111, 47, 102, 111, 111, 47, 98, 97, 114, 46, 99], {})]
      = .ok [⟨[47, 120, 47, 102, 111, 111, 47, 102, 111, 111, 47, 98, 97, 114, 46, 99],
              [102, 111, 111, 47, 98, 97, 114, 46, 99], {}⟩] ∧
    rewritePaths { sourceDir := some [47, 120, 47, 102, 111, 111] }
        { files := [], dirs := [[[120]], [[120], [102, 111, 111]]], cwd := [[120]] }
        [([102, 111, 111, 47, 98, 97, 114, 46, 99], {})]
      = .ok [⟨[47, 120, 47, 102, 111, 111, 47, 98, 97, 114, 46, 99], [98, 97, 114, 46, 99], {}⟩] := by
  decide

/-- Witness 3 (found by the rewrite-twice stream, finding C05-prefix-behind-dotdot-restripped): an
ABSOLUTE `--prefix-dir /p` and the key `/x/../p/a.c`. `remove_prefix` compares components before
any ".." is resolved, so the first run does not strip; the path is normalised to `/p/a.c` and
reported absolute; re-imported, `/p/a.c` IS below the prefix and is reported as `a.c`. (Compilers
record such paths: `/ws/obj/../src/a.c`.) The guard it violates is "the reported file exists below
the source dir" — there the path is canonicalised and made relative to the source dir. -/
theorem C05_rewrite_prefix_dotdot_witness :
    rewritePaths { prefixDir := some [47, 112] } { files := [], dirs := [], cwd := [] }
        [([47, 120, 47, 46, 46, 47, 112, 47, 97, 46, 99], {})]
      = .ok [⟨[47, 112, 47, 97, 46, 99], [47, 112, 47, 97, 46, 99], {}⟩] ∧
    rewritePaths { prefixDir := some [47, 112] } { files := [], dirs := [], cwd := [] } [([47, 112, 47, 97, 46, 99], {})]
      = .ok [⟨[97, 46, 99], [97, 46, 99], {}⟩] := by decide

theorem C05_rewrite_idempotent_false : ¬ C05_rewrite_idempotent_stmt := by
  intro h
  obtain ⟨rep', e1, e2⟩ := h _ _ _ _ rfl C05_rewrite_relative_prefix_witness.1
  have e1' : rewritePaths { prefixDir := some [97] } { files := [], dirs := [], cwd := [] } [([97, 47, 120, 46, 99], {})] = .ok rep' := e1
  rw [C05_rewrite_relative_prefix_witness.2] at e1'
  cases e1'
  revert e2
  decide

/-- … and the second witness refutes it on its own (absolute prefix or none, so the first guard of
the partial theorem is not enough). -/
theorem C05_rewrite_idempotent_false_source_name :
    ∃ (cfg : Cfg) (fs : FS) (m : List (Bytes × Cov)) (rep rep' : List Rec),
      cfg.mapping = none ∧ cfg.prefixDir = none ∧ rewritePaths cfg fs m = .ok rep ∧
      rewritePaths cfg fs (reKeys rep) = .ok rep' ∧ reKeys rep' ≠ reKeys rep :=
  ⟨_, _, _, _, _, rfl, rfl, C05_rewrite_source_name_witness.1, C05_rewrite_source_name_witness.2, by decide⟩

/-- One record, guards of the witnesses: clean absolute source dir `S`, no mapping, prefix dir
absent or absolute (witness 1 violates this), and the record is an existing regular file below
`S` reported relative to `S` with backslash-free names (witness 2 violates "existing"). Its
reported path, used as a key with the same configuration, yields the very same record. -/
theorem C05_rewrite_idempotent_key (cfg : Cfg) (fs : FS) (sn names : List Bytes) (r : Rec)
    (hS : cfg.sourceDir = some (render ⟨true, sn⟩)) (hM : cfg.mapping = none)
    (hP : ∀ pre, cfg.prefixDir = some pre → hasRoot pre = true)
    (hsn : ∀ n ∈ sn, RealName n) (hn : ∀ n ∈ names, RealName n) (hbs : ∀ n ∈ names, 92 ∉ n)
    (hne : names ≠ []) (hres : fs.resolve (render ⟨true, sn ++ names⟩) = some (sn ++ names, .file))
    (habs : r.abs = render ⟨true, sn ++ names⟩) (hrel : r.rel = join names)
    (kc : Bytes × Cov) (h : rewriteKey cfg fs kc = .ok (some r)) :
    rewriteKey cfg fs (r.rel, r.cov) = .ok (some r) := by
  obtain ⟨a, rl, _, hsel⟩ := (rewriteKey_some_iff _ _ _ _).1 h
  obtain ⟨h1, h2, h3, h4, e⟩ := (selectRec_some_iff _ _ _ _ _ _).1 hsel
  rw [rewriteKey_some_iff]
  refine ⟨r.abs, r.rel, ?_, ?_⟩
  · show resolveKey cfg fs r.rel = _
    rw [hrel, habs]
    exact resolveKey_under_source hS hM hP hsn hn hbs hne hres
  · rw [selectRec_some_iff]
    subst e
    exact ⟨h1, h2, h3, h4, rfl⟩

/-- **Idempotence under the guards the witnesses violate.** Clean absolute source dir, no path
mapping, prefix dir absent or absolute, and every reported record an existing regular file below
the source dir (reported relative to it, names without backslash — what
`C11_relative_under_source_dir_partial` gives for such files): re-importing the report reproduces
it exactly — same absolute paths, same relative paths, same data, whatever the filters are. -/
theorem C05_rewrite_idempotent_partial (cfg : Cfg) (fs : FS) (sn : List Bytes)
    (m : List (Bytes × Cov)) (rep : List Rec)
    (hS : cfg.sourceDir = some (render ⟨true, sn⟩)) (hM : cfg.mapping = none)
    (hP : ∀ pre, cfg.prefixDir = some pre → hasRoot pre = true)
    (hsn : ∀ n ∈ sn, RealName n)
    (hfiles : ∀ r ∈ rep, ∃ names, names ≠ [] ∧ (∀ n ∈ names, RealName n ∧ 92 ∉ n) ∧
      r.abs = render ⟨true, sn ++ names⟩ ∧ r.rel = join names ∧
      fs.resolve (render ⟨true, sn ++ names⟩) = some (sn ++ names, .file))
    (h : rewritePaths cfg fs m = .ok rep) :
    rewritePaths cfg fs (reKeys rep) = .ok rep := by
  obtain ⟨habs, _, _⟩ := (rewritePaths_eq_ok cfg fs m rep).1 h
  have := rewritePaths_reKeys cfg fs rep id habs (by
    intro r hr
    obtain ⟨names, hne, hn, ea, er, hres⟩ := hfiles r hr
    obtain ⟨kc, _, hk⟩ := (mem_rewritePaths h r).1 hr
    exact C05_rewrite_idempotent_key cfg fs sn names r hS hM hP hsn (fun n h => (hn n h).1)
      (fun n h => (hn n h).2) hne hres ea er kc hk)
  simpa using this

/-- **Idempotence outside any path option.** No source dir, no prefix dir, no mapping, and
`--ignore-not-existing` off (clean current directory): the reported paths are the lexical normal
forms of the keys, normal forms are their own normal forms, and the globs and the covered filter see
the same path and data again — re-importing reproduces the same relative paths with the same data
(the absolute path may change from "as given" to canonical, which is why
`--ignore-not-existing` is excluded here). -/
theorem C05_rewrite_idempotent_plain_partial (cfg : Cfg) (fs : FS) (m : List (Bytes × Cov))
    (rep : List Rec) (hS : cfg.sourceDir = none) (hP : cfg.prefixDir = none) (hM : cfg.mapping = none)
    (hE : cfg.ignoreNotExisting = false) (hcwd : ∀ n ∈ fs.cwd, RealName n)
    (h : rewritePaths cfg fs m = .ok rep) :
    ∃ rep', rewritePaths cfg fs (reKeys rep) = .ok rep' ∧ reKeys rep' = reKeys rep := by
  obtain ⟨habs, _, _⟩ := (rewritePaths_eq_ok cfg fs m rep).1 h
  -- per record: the key `r.rel` resolves to some absolute path and `r.rel` itself
  have hkey : ∀ r ∈ rep, ∃ a, rewriteKey cfg fs (r.rel, r.cov) = .ok (some ⟨a, r.rel, r.cov⟩) := by
    intro r hr
    obtain ⟨kc, _, hk⟩ := (mem_rewritePaths h r).1 hr
    obtain ⟨a, rl, hres, hsel⟩ := (rewriteKey_some_iff _ _ _ _).1 hk
    obtain ⟨h1, h2, _, h4, e⟩ := (selectRec_some_iff _ _ _ _ _ _).1 hsel
    obtain ⟨r0, _, hf⟩ := resolveKey_some hres
    obtain ⟨⟨np, enp, hreal⟩, hnb⟩ := finalRel_shape hf
    have erel : r.rel = render np := by rw [e]; exact enp
    obtain ⟨a', ha'⟩ := resolveKey_plain_normal (fs := fs) hS hP hM hcwd hreal (enp ▸ hnb)
    refine ⟨a', ?_⟩
    rw [rewriteKey_some_iff]
    refine ⟨a', r.rel, by rw [erel]; exact ha', ?_⟩
    rw [selectRec_some_iff]
    subst e
    exact ⟨h1, h2, by simp [hE], h4, rfl⟩
  let g : Rec → Rec := fun r => (okPart (rewriteKey cfg fs (r.rel, r.cov))).getD r
  have hg : ∀ r ∈ rep, ∃ a, rewriteKey cfg fs (r.rel, r.cov) = .ok (some (g r)) ∧
      g r = ⟨a, r.rel, r.cov⟩ := by
    intro r hr
    obtain ⟨a, ha⟩ := hkey r hr
    have : g r = ⟨a, r.rel, r.cov⟩ := by simp [g, ha, okPart]
    exact ⟨a, by rw [this]; exact ha, this⟩
  refine ⟨rep.map g, rewritePaths_reKeys cfg fs rep g habs (fun r hr => (hg r hr).choose_spec.1), ?_⟩
  unfold reKeys
  rw [List.map_map]
  apply List.map_congr_left
  intro r hr
  obtain ⟨a, _, e⟩ := hg r hr
  simp [e]

/-- **Idempotence, sharp guard.** No path mapping, no symbolic links, clean current directory,
the source dir absent or clean and absolute, `--ignore-not-existing` off; any prefix dir (relative
or absolute, below the source dir or not), any globs and `--filter`, files on disk or not. If every
reported path is non-empty (a file, not the source dir itself: `C11_rel_nonempty_iff`) and
* `hrel`   the prefix dir is not a (component-wise) prefix of it,
* `hguess` when it is relative and there is a source dir `S`, `guess_abs_path` resolves it
           directly below `S` (the file exists there, or no leading part of the path repeats
           the tail of `S`),
* `habs`   when it is absolute, it is not below the source dir,
then re-importing the report reproduces the same relative paths with the same data. Witness 1 and
3 violate `hrel`, witness 2 violates `hguess` (examples below); `habs` holds of every path the
first run reports absolute on such a tree. -/
theorem C05_rewrite_idempotent_sharp (cfg : Cfg) (fs : FS) (m : List (Bytes × Cov)) (rep : List Rec)
    (hM : cfg.mapping = none) (hl : fs.noLinks) (hcwd : ∀ n ∈ fs.cwd, RealName n)
    (hSrc : ∀ S, cfg.sourceDir = some S → ∃ sn, S = render ⟨true, sn⟩ ∧ ∀ n ∈ sn, RealName n)
    (hE : cfg.ignoreNotExisting = false)
    (hne : ∀ r ∈ rep, r.rel ≠ [])
    (hrel : ∀ r ∈ rep, removePrefix cfg.prefixDir r.rel = r.rel)
    (hguess : ∀ r ∈ rep, ∀ S, cfg.sourceDir = some S → isRelative r.rel = true →
      guessAbsPath fs S r.rel = some (push S r.rel))
    (habs : ∀ r ∈ rep, ∀ S, cfg.sourceDir = some S → isRelative r.rel = false →
      stripPrefix r.rel S = none)
    (h : rewritePaths cfg fs m = .ok rep) :
    ∃ rep', rewritePaths cfg fs (reKeys rep) = .ok rep' ∧ reKeys rep' = reKeys rep := by
  obtain ⟨habs0, _, _⟩ := (rewritePaths_eq_ok cfg fs m rep).1 h
  have hkey : ∀ r ∈ rep, ∃ a, rewriteKey cfg fs (r.rel, r.cov) = .ok (some ⟨a, r.rel, r.cov⟩) := by
    intro r hr
    obtain ⟨kc, _, hk⟩ := (mem_rewritePaths h r).1 hr
    obtain ⟨a, rl, hres, hsel⟩ := (rewriteKey_some_iff _ _ _ _).1 hk
    obtain ⟨h1, h2, _, h4, e⟩ := (selectRec_some_iff _ _ _ _ _ _).1 hsel
    obtain ⟨r0, _, hf⟩ := resolveKey_some hres
    obtain ⟨⟨np, enp, hreal⟩, hnb⟩ := finalRel_shape hf
    have erel : r.rel = render np := by rw [e]; exact enp
    obtain ⟨a', ha'⟩ := resolveKey_sharp (cfg := cfg) (fs := fs) hM hl hcwd hSrc hreal (enp ▸ hnb)
      (erel ▸ hne r hr) (erel ▸ hrel r hr) (erel ▸ hguess r hr) (erel ▸ habs r hr)
    refine ⟨a', ?_⟩
    rw [rewriteKey_some_iff]
    refine ⟨a', r.rel, by rw [erel]; exact ha', ?_⟩
    rw [selectRec_some_iff]
    subst e
    exact ⟨h1, h2, by simp [hE], h4, rfl⟩
  let g : Rec → Rec := fun r => (okPart (rewriteKey cfg fs (r.rel, r.cov))).getD r
  have hg : ∀ r ∈ rep, ∃ a, rewriteKey cfg fs (r.rel, r.cov) = .ok (some (g r)) ∧
      g r = ⟨a, r.rel, r.cov⟩ := by
    intro r hr
    obtain ⟨a, ha⟩ := hkey r hr
    have : g r = ⟨a, r.rel, r.cov⟩ := by simp [g, ha, okPart]
    exact ⟨a, by rw [this]; exact ha, this⟩
  refine ⟨rep.map g, rewritePaths_reKeys cfg fs rep g habs0 (fun r hr => (hg r hr).choose_spec.1), ?_⟩
  unfold reKeys
  rw [List.map_map]
  apply List.map_congr_left
  intro r hr
  obtain ⟨a, _, e⟩ := hg r hr
  simp [e]

/-- each witness violates exactly the guard named after its mechanism: witness 1 (`-p a`, reported
`a/x.c`) and witness 3 (`-p /p`, reported `/p/a.c`) violate `hrel`; witness 2 (`-s /x/foo`, reported
`foo/bar.c`, not on disk) satisfies `hrel` and violates `hguess` -/
example :
    removePrefix (some [97]) [97, 47, 120, 46, 99] ≠ [97, 47, 120, 46, 99] ∧
    removePrefix (some [47, 112]) [47, 112, 47, 97, 46, 99] ≠ [47, 112, 47, 97, 46, 99] ∧
    removePrefix none [102, 111, 111, 47, 98, 97, 114, 46, 99] = [102, 111, 111, 47, 98, 97, 114, 46, 99] ∧
    guessAbsPath { files := [], dirs := [[[120]], [[120], [102, 111, 111]]], cwd := [[120]] }
        [47, 120, 47, 102, 111, 111] [102, 111, 111, 47, 98, 97, 114, 46, 99]
      ≠ some (push [47, 120, 47, 102, 111, 111] [102, 111, 111, 47, 98, 97, 114, 46, 99]) := by decide

/-- the five configurations of the review's probe (`lcov/C05GuardGap.lean`) – outside both older
partial theorems, violating none of the findings – meet the guards of the sharp theorem: a missing
`foo/x.c` under `-s /s -p /s`; the missing absolute `/s/foo/x.c` (reported `foo/x.c`); `-p /p`
without `-s` on `/p/a/x.c` (reported `a/x.c`); the relative `-p a` on `a/b/x.c` (reported `b/x.c`);
the absolute `/other/x.c` outside `-s /s` -/
example :
    let fsE : FS := { files := [], dirs := [[[115]]], cwd := [[115]] }
    let S : Bytes := [47, 115]
    -- foo/x.c under -s /s -p /s
    (removePrefix (some S) [102, 111, 111, 47, 120, 46, 99] = [102, 111, 111, 47, 120, 46, 99] ∧
      guessAbsPath fsE S [102, 111, 111, 47, 120, 46, 99] = some (push S [102, 111, 111, 47, 120, 46, 99])) ∧
    -- a/x.c under -p /p, b/x.c under -p a
    removePrefix (some [47, 112]) [97, 47, 120, 46, 99] = [97, 47, 120, 46, 99] ∧
    removePrefix (some [97]) [98, 47, 120, 46, 99] = [98, 47, 120, 46, 99] ∧
    -- /other/x.c under -s /s -p /s
    (removePrefix (some S) [47, 111, 116, 104, 101, 114, 47, 120, 46, 99] = [47, 111, 116, 104, 101, 114, 47, 120, 46, 99] ∧
      stripPrefix [47, 111, 116, 104, 101, 114, 47, 120, 46, 99] S = none) ∧
    rewriteTwice { sourceDir := some S, prefixDir := some S } fsE [([47, 115, 47, 102, 111, 111, 47, 120, 46, 99], {})]
      = rewritePaths { sourceDir := some S, prefixDir := some S } fsE [([47, 115, 47, 102, 111, 111, 47, 120, 46, 99], {})] := by
  decide

/-- Iterating: under the guards of `C05_rewrite_idempotent_partial` every further re-import
reproduces the report (`rewriteTwice` is one export/import round at the rewrite level). -/
theorem C05_rewrite_twice_partial (cfg : Cfg) (fs : FS) (sn : List Bytes)
    (m : List (Bytes × Cov)) (rep : List Rec)
    (hS : cfg.sourceDir = some (render ⟨true, sn⟩)) (hM : cfg.mapping = none)
    (hP : ∀ pre, cfg.prefixDir = some pre → hasRoot pre = true)
    (hsn : ∀ n ∈ sn, RealName n)
    (hfiles : ∀ r ∈ rep, ∃ names, names ≠ [] ∧ (∀ n ∈ names, RealName n ∧ 92 ∉ n) ∧
      r.abs = render ⟨true, sn ++ names⟩ ∧ r.rel = join names ∧
      fs.resolve (render ⟨true, sn ++ names⟩) = some (sn ++ names, .file))
    (h : rewritePaths cfg fs m = .ok rep) :
    rewriteTwice cfg fs m = .ok rep ∧ rewriteTwice cfg fs (reKeys rep) = .ok rep := by
  have h2 := C05_rewrite_idempotent_partial cfg fs sn m rep hS hM hP hsn hfiles h
  constructor
  · unfold rewriteTwice; rw [h]; exact h2
  · unfold rewriteTwice; rw [h2]; exact h2

/-! ### non-vacuity -/

/-- `/s/foo/bar.c` exists; source dir and (absolute) prefix `/s`; the spelled key `foo//./bar.c` is
reported as (`/s/foo/bar.c`, `foo/bar.c`), and re-importing `foo/bar.c` reproduces the record -/
example :
    let fs : FS := { files := [[[115], [102, 111, 111], [98, 97, 114, 46, 99]]],
                     dirs := [[[115]], [[115], [102, 111, 111]]], cwd := [[115]] }
    let cfg : Cfg := { sourceDir := some [47, 115], prefixDir := some [47, 115] }
    let rep : List Rec := [⟨[47, 115, 47, 102, 111, 111, 47, 98, 97, 114, 46, 99],
                            [102, 111, 111, 47, 98, 97, 114, 46, 99], { lines := [(1, 3)] }⟩]
    rewritePaths cfg fs [([102, 111, 111, 47, 47, 46, 47, 98, 97, 114, 46, 99], { lines := [(1, 3)] })] = .ok rep ∧
    rewritePaths cfg fs (reKeys rep) = .ok rep ∧
    fs.resolve (render ⟨true, [[115]] ++ [[102, 111, 111], [98, 97, 114, 46, 99]]⟩)
      = some ([[115]] ++ [[102, 111, 111], [98, 97, 114, 46, 99]], .file) := by decide

/-- no options: `x/../foo\bar.c` is reported as `foo/bar.c`, which is reported as itself -/
example :
    rewritePaths {} { files := [], dirs := [], cwd := [] } [([120, 47, 46, 46, 47, 102, 111, 111, 92, 98, 97, 114, 46, 99], {})]
      = .ok [⟨[102, 111, 111, 47, 98, 97, 114, 46, 99], [102, 111, 111, 47, 98, 97, 114, 46, 99], {}⟩] ∧
    rewritePaths {} { files := [], dirs := [], cwd := [] } [([102, 111, 111, 47, 98, 97, 114, 46, 99], {})]
      = .ok [⟨[102, 111, 111, 47, 98, 97, 114, 46, 99], [102, 111, 111, 47, 98, 97, 114, 46, 99], {}⟩] := by
  decide

end Grcov.Props.C05
