/-
C13, part MdBytes — the summary figures of the small writers, at the level of the BYTES written:
`output_markdown` (with the `tabled` layout), the five coverage badges of `gen_badge` and
`gen_coverage_json` (model: `Writers/MdBytes.lean`, byte for byte with the real writers, harness
module `harness/c13/src/mdbytes.rs`).

What is new against `C13_markdown_*` / `C13_html_badge_*` (Props/C13.lean, figures as DATA):

* the report FILE is read back: `parseMarkdown (markdownBytes p rs)` returns, for every precision
  and every result set whose names are readable cells, exactly one row per result with the name,
  `covered / total` = (lines with a count > 0) / (instrumented lines), the missed ranges of
  `format_lines` (characterised in `C03_markdown_ranges`: maximal runs of missed lines in map order,
  cut by a covered line, NOT by an uninstrumented gap) and the total line computed from the sums.
  The guard is needed: the table pads with blanks, so a name ending in a blank is read back
  without it, and a name with a line feed spans two table lines (`…_false`, `…_partial`).
* FLOATING POINT IS INSIDE THE MODEL: `mdPct32` / `htmlPct64` are the IEEE-754 single / double
  computations of the code (round-to-nearest-even at every operation), `fmtFixed` is `{:.p$}`.
  `C13_md_printed_within` and `C13_coverage_json_admissible` PROVE what the check so far only
  tested: the printed figure is within half a unit of the last printed place (+2.5·10⁻⁵ for f32,
  +10⁻⁹ for f64) of the exact rate 100·covered/total, for every precision and ALL covered ≤ total
  (four roundings: beyond 2^24 / 2^53 `usize as f32/f64` itself rounds) – and never above 100 for
  the precisions 0..4 of the property; with the f32 tolerance of `Stats.tolOf` (2·10⁻⁵) for totals
  below 2^24 (`C13_md_printed_admissible_partial`). An empty total prints as 100.
* the badge: all five files show, at every place, the whole percentage ⌊100·covered/total⌋ (100
  for an empty total) ∈ [0,100], with the colour class decided by the limits; coverage.json carries
  the percentage of THE SAME two totals, which are the global totals of the HTML index
  (`C13_badge_json_same_totals`; with the root-directory exception of
  `C13_html_badge_same_totals_false`, known finding C13-html-root-dir-replaces-index).

Display width is modelled for ASCII text (one column per byte); names with bytes ≥ 128 are compared
cell for cell by the harness.
-/
import GrcovModel.Lemmas.WritersMdBytes
import GrcovModel.Lemmas.WritersMdBytesFloat
import GrcovModel.Lemmas.Stats
namespace Grcov.Props.C13
open Grcov Grcov.Writers.Docs Grcov.Writers.MdBytes
open Grcov.Writers.CobBytes (decBytes)
open Grcov.Stats (countPos printedOK tolOf)

/-! ## markdown: the table as bytes -/

/-- The strict reader returns exactly the table that was written – every row, every cell, the total
line – for EVERY table whose cells are one line without a blank at the end (`MdTable.WF`): cells
may contain `|`, `-`, blanks inside, be empty; columns are as wide as their widest cell. -/
theorem C13_md_table_roundtrip (t : MdTable) (h : t.WF) : parseTable (tableBytes t) = some t :=
  parseTable_tableBytes t h

/-- Full statement: reading the markdown report gives the rows of the result set. -/
def C13_md_report_roundtrip_stmt : Prop :=
  ∀ (p : Nat) (rs : List Res), parseMarkdown (markdownBytes p rs) = some (mdDoc p (markdownRows rs))

/-- It is false of the code as it is: the table pads cells with blanks, so the file `"a "` (blank
at the end) is printed like `"a"` and read back as `"a"`. (A markdown table cannot tell them apart;
grcov does not escape or quote names.) -/
theorem C13_md_report_roundtrip_false : ¬ C13_md_report_roundtrip_stmt := by
  intro h
  have := h 0 [⟨[], [97, 32], {}⟩]
  revert this
  decide +kernel

/-- The other half of the guard: a name with a line feed is split over two table lines (`tabled`
prints multi-line cells line by line), and the second one is no row: the strict reader rejects the
report. -/
theorem C13_md_report_name_with_line_feed_unreadable :
    parseMarkdown (markdownBytes 0 [⟨[], [97, 10, 98], {}⟩]) = none := by
  decide +kernel

/-- Under the guard the witnesses violate – every name is one line and does not end in a blank –
the report reads back as exactly the rows `output_markdown` computed, for every precision. -/
theorem C13_md_report_roundtrip_partial (p : Nat) (rs : List Res) (h : ∀ r ∈ rs, CellOK r.rel) :
    parseMarkdown (markdownBytes p rs) = some (mdDoc p (markdownRows rs)) := by
  unfold markdownBytes
  apply parseMarkdown_table
  intro r hr
  simp only [markdownRows, List.mem_map] at hr
  obtain ⟨x, hx, rfl⟩ := hr
  exact h x hx

/-- What the report file says, row by row (C13 for markdown, on the bytes): one row per result in
order, named by its rel path; `covered / total` = lines with a count > 0 / instrumented lines; the
missed ranges are those of `format_lines`; every percentage is the f32 percentage of THAT row's
`covered / total` printed with `p` decimals; the total line is the percentage of the two column
sums. -/
theorem C13_md_report_figures (p : Nat) (rs : List Res) (h : ∀ r ∈ rs, CellOK r.rel) :
    ∃ d, parseMarkdown (markdownBytes p rs) = some d ∧
      d.rows.map (·.file) = rs.map (·.rel) ∧
      d.rows.map (fun x => (x.covered, x.total)) = rs.map (fun r => (countPos r.cov.lines, r.cov.lines.length)) ∧
      d.rows.map (·.ranges) = rs.map (fun r => (formatLines r.cov.lines).2) ∧
      d.rows.map (·.pct) = rs.map (fun r => fmtFixed p (mdPct32 (countPos r.cov.lines) r.cov.lines.length)) ∧
      d.totalPct = fmtFixed p (mdPct32 (rs.map fun r => countPos r.cov.lines).sum (rs.map fun r => r.cov.lines.length).sum) := by
  refine ⟨_, C13_md_report_roundtrip_partial p rs h, ?_⟩
  have hc : ∀ r : Res, (markdownRow r).covered = countPos r.cov.lines := by
    intro r
    have h1 := formatLines_missed r.cov.lines
    have h2 := Stats.countZero_add_countPos r.cov.lines
    have h3 : (r.cov.lines.filter fun kv => kv.2 = 0).length = Stats.countZero r.cov.lines := by
      simp [Stats.countZero, List.countP_eq_length_filter]
    simp only [markdownRow, h1, h3]
    omega
  have ht : ∀ r : Res, (markdownRow r).total = r.cov.lines.length := fun _ => rfl
  have hr : ∀ r : Res, (markdownRow r).ranges = (formatLines r.cov.lines).2 := fun _ => rfl
  have hf : ∀ r : Res, (markdownRow r).file = r.rel := fun _ => rfl
  simp only [mdDoc, markdownRows, List.map_map, sumCovered, sumTotal]
  refine ⟨?_, ?_, ?_, ?_, ?_⟩
  · exact List.map_congr_left fun r _ => hf r
  · exact List.map_congr_left fun r _ => by simp [hc, ht]
  · exact List.map_congr_left fun r _ => hr r
  · exact List.map_congr_left fun r _ => by simp [hc, ht]
  · congr 2
    · congr 1; exact List.map_congr_left fun r _ => by simp [hc]

/-- Full statement one might expect of the `missed_lines` column: a printed range `a-b` consists of
missed lines only – every line number from `a` to `b` is an instrumented line with count 0. -/
def C13_md_ranges_only_missed_lines_stmt : Prop :=
  ∀ (p : Nat) (r : Res), CellOK r.rel → Sorted r.cov.lines → (∀ kv ∈ r.cov.lines, 1 ≤ kv.1) →
    ∀ d, parseMarkdown (markdownBytes p [r]) = some d →
      ∀ row ∈ d.rows, ∀ rg ∈ row.ranges, ∀ l, rg.1 ≤ l → l ≤ rg.2 → (l, 0) ∈ r.cov.lines

/-- It is false of the code: `format_lines` walks the instrumented lines only, so a range runs over
the gaps between them: lines 1 and 5 missed (2–4 not instrumented) print as `1-5`. -/
theorem C13_md_ranges_only_missed_lines_false : ¬ C13_md_ranges_only_missed_lines_stmt := by
  intro h
  have := h 0 ⟨[], [97], { lines := [(1, 0), (5, 0)] }⟩ (by unfold CellOK; decide) (by unfold Sorted; decide) (by decide)
    _ rfl _ (List.mem_singleton.2 rfl) (1, 5) (by decide +kernel) 3 (by decide) (by decide)
  revert this
  decide

/-- What does hold, on the bytes of the report (names readable, lines in map order, no line 0): both
ends of every printed range are missed lines, and every INSTRUMENTED line inside a printed range is
missed (count 0) – a covered line always cuts a range, an uninstrumented gap never does; every
missed line lies in a printed range. -/
theorem C13_md_ranges_partial (p : Nat) (r : Res) (hn : CellOK r.rel) (hs : Sorted r.cov.lines)
    (h1 : ∀ kv ∈ r.cov.lines, 1 ≤ kv.1) :
    ∃ d, parseMarkdown (markdownBytes p [r]) = some d ∧
      ∀ row ∈ d.rows,
        (∀ rg ∈ row.ranges, (rg.1, 0) ∈ r.cov.lines ∧ (rg.2, 0) ∈ r.cov.lines ∧
          ∀ kv ∈ r.cov.lines, rg.1 ≤ kv.1 → kv.1 ≤ rg.2 → kv.2 = 0) ∧
        (∀ l, (l, 0) ∈ r.cov.lines → ∃ rg ∈ row.ranges, rg.1 ≤ l ∧ l ≤ rg.2) := by
  refine ⟨_, C13_md_report_roundtrip_partial p [r] (fun x hx => by rw [List.mem_singleton.1 hx]; exact hn), ?_⟩
  intro row hrow
  simp only [mdDoc, markdownRows, List.map_cons, List.map_nil, List.mem_singleton] at hrow
  subst hrow
  have hR : (markdownRow r).ranges = runs r.cov.lines none :=
    formatLines_runs r.cov.lines (fun kv hkv => by have := h1 kv hkv; omega)
  have S := runs_spec r.cov.lines none hs (by intro s e he; cases he)
  simp only [hR]
  refine ⟨fun rg hrg => ?_, fun l hl => S.covers (l, 0) hl rfl⟩
  obtain ⟨_, e1, e2⟩ := S.ends rg hrg
  refine ⟨?_, ?_, fun kv hkv ha hb => ?_⟩
  · rcases e1 with ⟨e, he⟩ | e1
    · cases he
    · exact e1
  · rcases e2 with ⟨e, he⟩ | e2
    · cases he
    · exact e2
  · rcases Nat.eq_zero_or_pos kv.2 with hz | hz
    · exact hz
    · exact absurd ⟨ha, hb⟩ (S.noCovered rg hrg kv hkv (by omega))

/-- Every line of the table part – header, separator, every line of every row, multi-line cells
included – has the same length, 1 + Σ (column width + 1); and a column is exactly as wide as its
widest cell plus the two padding blanks (`tabled`'s layout, for ASCII text). -/
theorem C13_md_layout (t : MdTable) :
    gridBytes (gridRows t) = joinNl (gridLines (gridRows t)) ∧
    (∀ ln ∈ gridLines (gridRows t), ln.length = lineLen (widths (gridRows t))) ∧
    ∀ j, ∃ r ∈ gridRows t, cellW (r.getD j []) + 2 = colWidth (gridRows t) j :=
  ⟨gridBytes_eq _, gridLines_length t, fun j => colWidth_attained _ (by simp [gridRows]) j⟩

/-! ## markdown: the printed percentage (floating point inside the model) -/

/-- The percentage `output_markdown` prints for `covered / total` – f32 arithmetic, `{:.p$}`
formatting – for EVERY precision and ALL covered ≤ total (no bound on the size): it is a plain
decimal within half a unit of the last printed place + 2.5·10⁻⁵ of the exact rate 100·covered/total
(100 for an empty total); for the precisions 0..4 of the property it is never above 100; and an
empty total prints as `100`, `100.0`, …. -/
theorem C13_md_printed_within (p covered total : Nat) (h : covered ≤ total) :
    printedOK ⟨some p, 1, 40000⟩ (Stats.mdPercent covered total) (fmtFixed p (mdPct32 covered total)) = true ∧
    (p ≤ 4 → fixedDigits p (mdPct32 covered total) ≤ 100 * 10 ^ p) ∧
    (total = 0 → fmtFixed p (mdPct32 covered total) =
      decBytes 100 ++ (if p = 0 then [] else 46 :: List.replicate p 48)) := by
  refine ⟨md_printed_within_all p covered total h, fun hp => md_digits_le_100 p covered total hp h, ?_⟩
  rintro rfl
  simp [mdPct32, fmtFixed_fl100]

/-- With the tolerance the check has used so far for markdown (`Stats.tolOf`: half a unit + 2·10⁻⁵)
the figure is admissible when the total is below 2^24 = 16 777 216 lines, where `usize as f32` is
exact (two roundings instead of four). Not proved (and not known to fail) beyond that: there
`C13_md_printed_within` gives 2.5·10⁻⁵. -/
theorem C13_md_printed_admissible_partial (p covered total : Nat) (h : covered ≤ total) (ht : total < 2 ^ 24) :
    ∃ tol, tolOf "markdown" p = some tol ∧
      printedOK tol (Stats.mdPercent covered total) (fmtFixed p (mdPct32 covered total)) = true :=
  ⟨_, tolOf_markdown p, md_printed_admissible p covered total h ht⟩

/-- … so every row of a report is admissible for the rate of ITS record (`Stats.mdRow`, the figure
the rest of C13 is about): for every record within 2.5·10⁻⁵, and within `tolOf` when the file has
fewer than 2^24 instrumented lines. -/
theorem C13_md_row_admissible (p : Nat) (c : Cov) :
    printedOK ⟨some p, 1, 40000⟩ (Stats.mdRow c).rate (fmtFixed p (mdPct32 (countPos c.lines) c.lines.length)) = true ∧
    (c.lines.length < 2 ^ 24 → ∃ tol, tolOf "markdown" p = some tol ∧
      printedOK tol (Stats.mdRow c).rate (fmtFixed p (mdPct32 (countPos c.lines) c.lines.length)) = true) := by
  obtain ⟨_, _, _, h4⟩ := Stats.mdRow_props c
  rw [h4]
  exact ⟨(C13_md_printed_within p (countPos c.lines) c.lines.length (Stats.countPos_le _)).1,
    fun ht => C13_md_printed_admissible_partial p (countPos c.lines) c.lines.length (Stats.countPos_le _) ht⟩

/-! ## badges -/

/-- Reading a badge file back (all five styles): the figure printed at every place of the SVG (label,
title, both text nodes) is the whole percentage ⌊100·covered/total⌋, 100 for an empty total; the fill
colour is the one of the level the limits give (the social style has none); the width is the one of
the figure's digit count. -/
theorem C13_badge_reads_back (s : BadgeStyle) (covered total : Nat) (hi med : Limit) :
    parseBadge s (badgeBytes s covered total hi med) =
      some ⟨Stats.htmlPercentFloor covered total,
            s.colourOf (badgeLevel (Stats.htmlPercentFloor covered total) hi med),
            halfBytes (s.geometry (bucket (Stats.htmlPercentFloor covered total))).1⟩ :=
  parseBadge_badgeSvg s _ _

/-- The figure is implied by the totals, for all covered ≤ total: an integer in [0,100] with
`figure ≤ 100·covered/total < figure + 1`, and 100 when there is nothing to cover. -/
theorem C13_badge_figure (s : BadgeStyle) (covered total : Nat) (hi med : Limit) (h : covered ≤ total) :
    ∃ i, parseBadge s (badgeBytes s covered total hi med) = some i ∧
      i.current ≤ 100 ∧
      (total ≠ 0 → i.current * total ≤ 100 * covered ∧ 100 * covered < (i.current + 1) * total) ∧
      (total = 0 → i.current = 100) := by
  refine ⟨_, C13_badge_reads_back s covered total hi med, ?_, ?_, ?_⟩
  · simp only [Stats.htmlPercentFloor]
    split
    · rename_i ht
      exact Nat.div_le_of_le_mul (by omega)
    · exact Nat.le_refl _
  · intro ht
    simp only [Stats.htmlPercentFloor, ht, ne_eq, not_false_eq_true, if_true]
    have hpos : 0 < total := by omega
    constructor
    · exact Nat.div_mul_le_self _ _
    · have := Nat.lt_mul_div_succ (100 * covered) hpos
      rwa [Nat.mul_comm total] at this
  · rintro rfl
    simp [Stats.htmlPercentFloor]

/-- The colour class, with whole-number limits below 2^53 (the defaults 90 / 75 are the case
`hi = 90, med = 75`): green `#97ca00` iff figure ≥ hi, else yellow `#dfb317` iff figure ≥ med, else
red `#e05d44` – the f64 comparison of the template is the integer comparison. -/
theorem C13_badge_colour_whole_limits (s : BadgeStyle) (covered total hi med : Nat) (hs : s ≠ .social)
    (hh : hi < 2 ^ 53) (hm : med < 2 ^ 53) :
    ∃ i, parseBadge s (badgeBytes s covered total ⟨hi, 0⟩ ⟨med, 0⟩) = some i ∧
      i.colour = some (if hi ≤ i.current then Level.hi.colour
                       else if med ≤ i.current then Level.med.colour else Level.low.colour) := by
  refine ⟨_, C13_badge_reads_back s covered total _ _, ?_⟩
  simp only [BadgeStyle.colourOf, hs, if_false, badgeLevel_int _ hi med hh hm]
  split
  · rfl
  · split <;> rfl

/-- The geometry follows the number of digits of the figure: three widths per style. -/
theorem C13_badge_width (s : BadgeStyle) (covered total : Nat) (hi med : Limit) :
    ∃ i, parseBadge s (badgeBytes s covered total hi med) = some i ∧
      i.width = halfBytes (s.geometry (if 100 ≤ i.current then 2 else if 10 ≤ i.current then 1 else 0)).1 :=
  ⟨_, C13_badge_reads_back s covered total hi med, rfl⟩

/-! ## coverage.json -/

/-- Reading coverage.json back: `message` is the f64 percentage of the two totals printed with `p`
decimals (and `%`), `color` the name of the level of that percentage. -/
theorem C13_coverage_json_reads_back (p covered total : Nat) (hi med : Limit) :
    parseCoverageJson (coverageJsonBytes p covered total hi med) =
      some (fmtFixed p (htmlPct64 covered total),
            (levelOf (htmlPct64 covered total) hi.f64 med.f64).name) :=
  parseCoverageJson_bytes p covered total hi med

/-- The message is an admissible figure for the exact rate 100·covered/total (100 for an empty
total): a plain decimal within half a unit of the last printed place + 10⁻⁹ (`Stats.tolOf`), for
EVERY precision and ALL covered ≤ total; never above 100 for precisions up to 8. -/
theorem C13_coverage_json_admissible (p covered total : Nat) (h : covered ≤ total) :
    (∃ tol, tolOf "html" p = some tol ∧
      printedOK tol (Stats.htmlPercent covered total) (fmtFixed p (htmlPct64 covered total)) = true) ∧
    (p ≤ 8 → fixedDigits p (htmlPct64 covered total) ≤ 100 * 10 ^ p) :=
  ⟨⟨_, tolOf_html p, html_printed_admissible p covered total h⟩,
   fun hp => html_digits_le_100 p covered total hp h⟩

/-! ## the same global totals -/

/-- C13's last clause on the files of a whole HTML report: every badge and coverage.json are
computed from the SAME two numbers, the global line totals of the report (`Stats.html`: `.badge`,
`.json`; sums over all shown files: `C13_html_global_is_sum`), and the badge figure is the whole part
of the rate coverage.json prints. -/
theorem C13_badge_json_same_totals (p : Nat) (rs : List Stats.FileIn) (hi med : Limit) :
    (∀ s : BadgeStyle, ∃ i, parseBadge s (htmlBadge s rs hi med) = some i ∧ i.current = (Stats.html rs).badge) ∧
    (∃ m c, parseCoverageJson (htmlCoverageJson p rs hi med) = some (m, c) ∧
      m = fmtFixed p (htmlPct64 (Stats.htmlGlobal rs).stats.coveredLines (Stats.htmlGlobal rs).stats.totalLines) ∧
      (Stats.html rs).json = Stats.htmlPercent (Stats.htmlGlobal rs).stats.coveredLines (Stats.htmlGlobal rs).stats.totalLines) ∧
    (Stats.html rs).badge = (Stats.html rs).json.num / (Stats.html rs).json.den := by
  refine ⟨fun s => ⟨_, C13_badge_reads_back s _ _ hi med, rfl⟩,
    ⟨_, _, C13_coverage_json_reads_back p _ _ hi med, rfl, rfl⟩, ?_⟩
  simp only [Stats.html, Stats.htmlPercentFloor, Stats.htmlPercent]
  split <;> simp

/-! ## the hypotheses are satisfiable; concrete reports -/

/-- two files, one with a missed range over an uninstrumented gap, one without lines -/
def exMd : List Res :=
  [⟨[], [97, 46, 99], { lines := [(1, 0), (2, 3), (3, 0), (7, 0)] }⟩, ⟨[], [120, 32, 124, 32, 121], {}⟩]

example : ∀ r ∈ exMd, CellOK r.rel := by unfold CellOK exMd; decide

/-- `| a.c   | 25.00%   | 1 / 4   | 1, 3-7 |` …, total `25.00%` -/
example : parseMarkdown (markdownBytes 2 exMd) =
    some ⟨[⟨[97, 46, 99], [50, 53, 46, 48, 48], 1, 4, [(1, 1), (3, 7)]⟩,
           ⟨[120, 32, 124, 32, 121], [49, 48, 48, 46, 48, 48], 0, 0, []⟩], [50, 53, 46, 48, 48]⟩ := by
  decide +kernel

/-- 29 of 100 lines: f32 gives exactly 29 (the f64 quotient of the old badge code gave 28.999…) -/
example : fmtFixed 4 (mdPct32 29 100) = [50, 57, 46, 48, 48, 48, 48] ∧ badgeCurrent 29 100 = 29 := by
  decide +kernel

/-- 1/3 in f32 is 33.33333206…; printed with 2 and with 7 decimals -/
example : fmtFixed 2 (mdPct32 1 3) = [51, 51, 46, 51, 51] ∧
    fmtFixed 7 (mdPct32 1 3) = [51, 51, 46, 51, 51, 51, 51, 51, 50, 49] := by decide +kernel

/-- ties go to the even digit: 12.5 → `12`, 0.125 → `0.12` -/
example : fmtFixed 0 (mdPct32 1 8) = [49, 50] ∧ fmtFixed 2 (mdPct32 1 800) = [48, 46, 49, 50] := by
  decide +kernel

/-- a badge: 89 % is yellow with the default limits, 90 % green; three widths -/
example : (parseBadge .flat (badgeBytes .flat 89 100 defaultHi defaultMed)).map (fun i => (i.current, i.colour, i.width))
      = some (89, some Level.med.colour, [57, 54]) ∧
    (parseBadge .forTheBadge (badgeBytes .forTheBadge 9 10 defaultHi defaultMed)).map (fun i => (i.current, i.width))
      = some (90, [49, 52, 50, 46, 53]) ∧
    (parseBadge .social (badgeBytes .social 0 0 defaultHi defaultMed)).map (fun i => (i.current, i.colour, i.width))
      = some (100, none, [49, 48, 53]) := by decide +kernel

/-- `{"schemaVersion":1,"label":"coverage","message":"66.667%","color":"red"}` -/
example : parseCoverageJson (coverageJsonBytes 3 2 3 defaultHi defaultMed) =
    some ([54, 54, 46, 54, 54, 55], [114, 101, 100]) := by decide +kernel

end Grcov.Props.C13
